import N0Verif.Proofs.Json
import N0Verif.Proofs.JsonPairs
/-!
# C11 — JSON export and load round-trip every JSON-representable tree

Only property statements live here; the model is `Model/Json.lean` (`toJson` = `n0dict_.to_json` /
`n0list_.to_json` through `n0pretty`, **with fix patches C11-a, C11-c, C11-d, C11-f applied**;
`jsonDecode` = `json.loads`), helper lemmas are in `Proofs/Json.lean` (reader, general layout)
and `Proofs/JsonPairs.lean` (pair layout, `pyEq`, `pairOrder`).

Reading of the property.
* "JSON-representable tree" = `wf t`: keys are unique inside every dict and every float leaf
  carries a JSON float lexeme (`fltOk`; Python's `repr` of a finite float is one).
* "decodes to a value equal to the tree": `json.loads` builds plain `dict`/`list`, Python's `==`
  ignores the class and the order of dict entries.  `erase` forgets the class tags; `pyEq`
  (`Proofs/JsonPairs.lean`, next to `wf`/`depth` of `Proofs/Json.lean`) is equality up to the order
  of dict entries.  The theorems give the decoded value *exactly*: it is `erase …` of the tree whose
  pair-layout records are listed in column order (`pairOrder o t`; the tree itself outside the pair
  layout, and whenever every record already lists its keys in column order), which is `pyEq` to the
  tree.
* "skip_empty_arrays drops empty containers": `dropEmptyIf o t` = `prune t` when the option is
  on — containers that are empty, or become empty once their own empty containers are dropped,
  are removed from their parent (the root itself stays, as `{}` / `[]`).
-/
namespace N0.C11
open N0 N0.Py N0.Json

/-- **C11, full statement** (kept visible; it is *false* because of finding C11-e, see
`C11_roundtrip_stmt_false`; proved below for every option record up to nesting depth 111 —
`C11_roundtrip_bounded`): for every JSON-representable tree and every option record the
exported text is accepted by the reader and decodes to the tree (minus empty containers when
`skip_empty_arrays` is on). -/
def C11_roundtrip_stmt : Prop :=
  ∀ (o : Opts) (t : Val), wf t = true →
    ∃ v, jsonDecode (toJson o t) = some v ∧ pyEq v (erase (dropEmptyIf o t)) = true

/-- the full statement restricted to what the code can do (items nested deeper than 111 are
printed as `{.......}`, finding C11-e): every layout, every option record -/
def C11_roundtrip_bounded_stmt : Prop :=
  ∀ (o : Opts) (t : Val), wf t = true → depth t ≤ 111 →
    ∃ v, jsonDecode (toJson o t) = some v ∧ pyEq v (erase (dropEmptyIf o t)) = true

/-- **The reader decodes every JSON text of a value.**  Whatever white space stands between the
tokens (`Ren v s`), `json.loads` returns the value: all strings (quote, backslash, control and
non-ASCII characters through `esc`), all ints, float lexemes, `true/false/null`, any nesting. -/
theorem C11_decode_ren (v : Val) (s : Str) (h : Ren v s) (hw : wf v = true) :
    jsonDecode s = some (erase v) := by
  rw [jsonDecode_ren h, dec_erase v hw]

/-- a string survives export and load, whatever it contains -/
theorem C11_string_roundtrip (x : Str) : jsonDecode (quoted x) = some (.str x) := by
  have h : Ren (.str x) (quoted x) := by simp [Ren, scalarText]
  simpa [erase] using C11_decode_ren (.str x) (quoted x) h rfl

/-- an integer survives export and load -/
theorem C11_int_roundtrip (i : Int) : jsonDecode (intRepr i) = some (.int i) := by
  have h : Ren (.int i) (intRepr i) := by simp [Ren, scalarText]
  simpa [erase] using C11_decode_ren (.int i) (intRepr i) h rfl

/-- **C11 without the pair layout** (`compress`, `indent = 0` or `pairs_in_one_line = False`;
every indent, both values of `skip_empty_arrays`), for trees nested at most 111 deep:
the exported text decodes *exactly* to the tree with class tags forgotten and, under
`skip_empty_arrays`, empty containers dropped. -/
theorem C11_roundtrip_partial (o : Opts) (hp : o.pairsOn = false) (t : Val)
    (hw : wf t = true) (hd : depth t ≤ 111) :
    jsonDecode (toJson o t) = some (erase (dropEmptyIf o t)) := by
  have hout := pretty_ren o hp t hw 0 (by omega)
  unfold toJson
  rcases hout with ⟨hs, he, hnil⟩ | ⟨_, hr⟩
  · -- everything was dropped: `to_json` answers `{}` / `[]`
    simp only [hnil, List.isEmpty_nil, if_true]
    unfold dropEmptyIf
    simp only [hs, if_true]
    cases t with
    | list c xs =>
      simp only [prune, isEmptyContainer] at he ⊢
      cases hpx : pruneList xs with
      | nil => simp [isDict, erase, eraseList]; decide
      | cons a b => rw [hpx] at he; simp at he
    | dict c kvs =>
      simp only [prune, isEmptyContainer] at he ⊢
      cases hpx : pruneKvs kvs with
      | nil => simp [isDict, erase, eraseKvs]; decide
      | cons a b => rw [hpx] at he; simp at he
    | none => simp [prune, isEmptyContainer] at he
    | bool b => simp [prune, isEmptyContainer] at he
    | int i => simp [prune, isEmptyContainer] at he
    | flt r => simp [prune, isEmptyContainer] at he
    | str x => simp [prune, isEmptyContainer] at he
  · have hne : (pretty o 0 t).isEmpty = false := by
      have := Ren_ne_nil hr
      cases h : pretty o 0 t <;> simp_all
    simp only [hne, Bool.false_eq_true, if_false]
    exact C11_decode_ren _ _ hr (wf_dropEmptyIf o t hw)

/-- stage 1: the compressed layout -/
theorem C11_roundtrip_compress (o : Opts) (hc : o.compress = true) (t : Val)
    (hw : wf t = true) (hd : depth t ≤ 111) :
    jsonDecode (toJson o t) = some (erase (dropEmptyIf o t)) :=
  C11_roundtrip_partial o (by simp [Opts.pairsOn, Opts.isz, hc]) t hw hd

/-- stage 2: the indented layout, any indent, `pairs_in_one_line = False` -/
theorem C11_roundtrip_indented (o : Opts) (hpairs : o.pairs = false) (t : Val)
    (hw : wf t = true) (hd : depth t ≤ 111) :
    jsonDecode (toJson o t) = some (erase (dropEmptyIf o t)) :=
  C11_roundtrip_partial o (by simp [Opts.pairsOn, hpairs]) t hw hd

/-- the statement form of the proved part: it implies the `pyEq` reading -/
theorem C11_roundtrip_partial_exists (o : Opts) (hp : o.pairsOn = false) (t : Val)
    (hw : wf t = true) (hd : depth t ≤ 111) :
    ∃ v, jsonDecode (toJson o t) = some v ∧ v = erase (dropEmptyIf o t) :=
  ⟨_, C11_roundtrip_partial o hp t hw hd, rfl⟩

/-- no formatting option (outside the pair layout) changes the decoded value:
two option records that agree on `skip_empty_arrays` decode to the same value -/
theorem C11_options_agree (o o' : Opts) (hp : o.pairsOn = false) (hp' : o'.pairsOn = false)
    (hs : o.skipEmpty = o'.skipEmpty) (t : Val) (hw : wf t = true) (hd : depth t ≤ 111) :
    jsonDecode (toJson o t) = jsonDecode (toJson o' t) := by
  rw [C11_roundtrip_partial o hp t hw hd, C11_roundtrip_partial o' hp' t hw hd]
  unfold dropEmptyIf
  rw [hs]

/-! ### every layout, the pair layout included (stage 3) -/

/-- **C11 for every option record, exact form** (`_partial`: depth ≤ 111, finding C11-e):
the exported text decodes *exactly* to the tree whose pair-layout records are listed in column
order (`pairOrder o t`: nothing else differs from `t`), with class tags forgotten and, under
`skip_empty_arrays`, empty containers dropped.  Covers compress, every indent,
`pairs_in_one_line` on and off, both values of `skip_empty_arrays`. -/
theorem C11_roundtrip_ordered_partial (o : Opts) (t : Val) (hw : wf t = true) (hd : depth t ≤ 111) :
    jsonDecode (toJson o t) = some (erase (dropEmptyIf o (pairOrder o t))) :=
  jsonDecode_toJson o t hw hd

/-- **C11, the full statement up to depth 111**: whatever the options, the exported text is
accepted by `json.loads` and the decoded value equals the tree (minus the empty containers when
`skip_empty_arrays` is on) as Python compares values. -/
theorem C11_roundtrip_bounded : C11_roundtrip_bounded_stmt := by
  intro o t hw hd
  exact ⟨_, jsonDecode_toJson o t hw hd, pairOrder_pyEq o t hw⟩

/-- no formatting option changes the decoded value, the pair layout included: two option records
that agree on `skip_empty_arrays` both decode to values equal (as Python compares) to the same tree -/
theorem C11_options_agree_all (o o' : Opts) (hs : o.skipEmpty = o'.skipEmpty) (t : Val)
    (hw : wf t = true) (hd : depth t ≤ 111) :
    ∃ v v', jsonDecode (toJson o t) = some v ∧ jsonDecode (toJson o' t) = some v' ∧
      pyEq v (erase (dropEmptyIf o t)) = true ∧ pyEq v' (erase (dropEmptyIf o t)) = true := by
  obtain ⟨v, h1, h2⟩ := C11_roundtrip_bounded o t hw hd
  obtain ⟨v', h1', h2'⟩ := C11_roundtrip_bounded o' t hw hd
  refine ⟨v, v', h1, h1', h2, ?_⟩
  have : dropEmptyIf o t = dropEmptyIf o' t := by unfold dropEmptyIf; rw [hs]
  rw [this]; exact h2'

/-- exact equality (dict order included) in every layout when the records of the lists printed
in the pair layout already list their keys in column order (first appearance) -/
theorem C11_roundtrip_colorder_partial (o : Opts) (t : Val) (hw : wf t = true) (hd : depth t ≤ 111)
    (hc : pairOrder o t = t) :
    jsonDecode (toJson o t) = some (erase (dropEmptyIf o t)) := by
  rw [jsonDecode_toJson o t hw hd, hc]

/-- the column-ordered tree is the tree as Python compares values (also after
`skip_empty_arrays`), and it is the tree itself when the pair layout is off -/
theorem C11_pairOrder_pyEq (o : Opts) (t : Val) (hw : wf t = true) :
    pyEq (erase (dropEmptyIf o (pairOrder o t))) (erase (dropEmptyIf o t)) = true ∧
    (o.pairsOn = false → pairOrder o t = t) :=
  ⟨pairOrder_pyEq o t hw, fun hp => pairOrder_off hp t⟩

/-- one record of the pair layout, whatever the column widths: the padded text
`{ "k": v   , "w": x }` is a JSON text (`Ren`) of the record listed in column order -/
theorem C11_pair_record (c : Cls) (cols : List (Str × Nat)) (kvs : List (Str × Val))
    (hs : ∀ p ∈ kvs, isPairScalar p.2 = true) (hw : wfK kvs = true) :
    Ren (.dict c (colOrder cols kvs)) (['{'] ++ pairRecord kvs cols [] ++ [' ', '}']) :=
  pairRecord_ren c cols kvs (fun p hp => scalar_ren (hs p hp) (wfK_mem kvs hw p hp))

/-! ### finding C11-e: nesting deeper than 111 -/

/-- `n` dicts around `v` -/
def nest : Nat → Val → Val
  | 0, v => v
  | n + 1, v => .dict .n0 [(['a'], nest n v)]

/-- **counter-example (C11-e)**: 112 nested dicts around `1` are exported as text that is not
JSON (`{.......}` is printed at level 111), so the depth hypothesis cannot be dropped -/
theorem C11_depth_cex :
    wf (nest 112 (.int 1)) = true ∧ depth (nest 112 (.int 1)) = 112 ∧
    jsonDecode (toJson { compress := true } (nest 112 (.int 1))) = Option.none := by
  decide +kernel

/-- the unrestricted statement is false: finding C11-e refutes it, so `depth t ≤ 111` in
`C11_roundtrip_bounded_stmt` is the only difference and it is necessary -/
theorem C11_roundtrip_stmt_false : ¬ C11_roundtrip_stmt := by
  intro h
  obtain ⟨v, hv, _⟩ := h { compress := true } (nest 112 (.int 1)) C11_depth_cex.1
  rw [C11_depth_cex.2.2] at hv
  cases hv

/-- at the boundary the round-trip still holds (instance of `C11_roundtrip_partial`) -/
theorem C11_depth_boundary :
    jsonDecode (toJson { compress := true } (nest 111 (.int 1))) = some (erase (nest 111 (.int 1))) :=
  C11_roundtrip_partial { compress := true } (by decide) _ (by decide +kernel) (by decide +kernel)

/-! ### the pair layout: why the full statement uses `pyEq` -/

def tPairs : Val :=
  .list .n0 [.dict .n0 [(['k'], .str ['1']), (['v'], .bool true)],
             .dict .plain [(['v'], .flt ['1', '.', '5']), (['k'], .int 3)],
             .dict .n0 [(['v'], .str ['"', '\\'])]]

/-- the pair layout prints the columns in first-appearance order, so a record written
`{v, k}` comes back as `{k, v}`: equal for Python, not identical as an ordered list -/
theorem C11_pairs_reorders :
    (Opts.pairsOn {} = true) ∧
    jsonDecode (toJson {} tPairs) ≠ some (erase tPairs) ∧
    (∃ v, jsonDecode (toJson {} tPairs) = some v ∧ pyEq v (erase tPairs) = true) := by
  refine ⟨by decide, by decide +kernel, ?_⟩
  refine ⟨.list .plain [.dict .plain [(['k'], .str ['1']), (['v'], .bool true)],
             .dict .plain [(['k'], .int 3), (['v'], .flt ['1', '.', '5'])],
             .dict .plain [(['v'], .str ['"', '\\'])]], by decide +kernel, by decide +kernel⟩

/-- `tPairs` through the theorems: the decoded value is the column-ordered tree -/
example : jsonDecode (toJson {} tPairs)
    = some (.list .plain [.dict .plain [(['k'], .str ['1']), (['v'], .bool true)],
             .dict .plain [(['k'], .int 3), (['v'], .flt ['1', '.', '5'])],
             .dict .plain [(['v'], .str ['"', '\\'])]]) := by
  rw [C11_roundtrip_ordered_partial {} tPairs (by decide +kernel) (by decide +kernel)]
  decide +kernel

/-! ### the constructor side: `n0dict(text)` / `n0list(text)` -/

/-- **C11, load**: `json.loads(text, object_pairs_hook=n0dict)` accepts exactly the texts
`json.loads(text)` accepts, fails with the same error otherwise, and builds the same value with
every object an n0dict (arrays stay plain lists): same keys, same order, same leaves -/
theorem C11_load_hook (s : Str) : jsonLoadsHookE s = (jsonDecodeE s).map tagN0 :=
  jsonLoadsHookE_eq s

/-- **`n0dict(text)` = `json.loads(text.strip())`** with nested objects as n0dicts, for every
non-empty text whose first non-blank character is `{` (also the error: a text that is not JSON
raises `JSONDecodeError` in both) -/
theorem C11_load (s r : Str) (hne : s ≠ []) (hs : stripWs s = '{' :: r) :
    n0dictOfText s = (jsonDecodeE (stripWs s)).map tagN0 := by
  rw [hs]; exact n0dictOfText_json hne hs

/-- **`n0list(text)` = `json.loads(text.strip())`**, the list itself an n0list, nested objects
n0dicts, nested arrays plain lists -/
theorem C11_load_list (s r : Str) (hne : s ≠ []) (hs : stripWs s = '[' :: r) :
    n0listOfText s = (jsonDecodeE (stripWs s)).map tagTop := by
  rw [hs]; exact n0listOfText_json hne hs

/-- the other branches: an empty text gives the empty container; a text that starts with
anything else (`<` = XML for `n0dict` aside) is a `TypeError` -/
theorem C11_load_dispatch (s : Str) :
    (s = [] → n0dictOfText s = .ok (.dict .n0 []) ∧ n0listOfText s = .ok (.list .n0 [])) ∧
    (s ≠ [] → (∀ r, stripWs s ≠ '{' :: r) → (∀ r, stripWs s ≠ '<' :: r) → n0dictOfText s = .error .TypeError) ∧
    (s ≠ [] → (∀ r, stripWs s ≠ '[' :: r) → n0listOfText s = .error .TypeError) :=
  ctor_dispatch s

/-- **export, then construct**: `n0dict(x.to_json(…))` / `n0list(x.to_json(…))` rebuild the
(column-ordered) tree for every option record (`_partial`: depth ≤ 111), with the class tags the
constructors give -/
theorem C11_export_construct_partial (o : Opts) (c : Cls) :
    (∀ kvs, wf (.dict c kvs) = true → depth (.dict c kvs) ≤ 111 →
      n0dictOfText (toJson o (.dict c kvs)) = .ok (tagN0 (erase (dropEmptyIf o (pairOrder o (.dict c kvs)))))) ∧
    (∀ xs, wf (.list c xs) = true → depth (.list c xs) ≤ 111 →
      n0listOfText (toJson o (.list c xs)) = .ok (tagTop (erase (dropEmptyIf o (pairOrder o (.list c xs)))))) :=
  ⟨fun kvs hw hd => n0dictOfText_toJson o c kvs hw hd, fun xs hw hd => n0listOfText_toJson o c xs hw hd⟩

-- non-vacuity: blanks that `strip()` removes but JSON does not accept, a repeated key, nested
-- objects and arrays; an invalid text; the dispatch
example : n0dictOfText (Char.ofNat 12 :: "{\"a\": [1, {\"b\": null}], \"c\": {}, \"a\": [[]]}\n".toList)
    = .ok (.dict .n0 [(['a'], .list .plain [.list .plain []]), (['c'], .dict .n0 [])]) := by decide +kernel
example : jsonDecodeE (Char.ofNat 12 :: "{}".toList) = .error .ValueError := by decide +kernel
example : stripWs (Char.ofNat 12 :: "{\"a\": 1} ".toList) = "{\"a\": 1}".toList := by decide +kernel
example : n0dictOfText "{\"a\": 1,}".toList = .error .ValueError ∧ n0dictOfText "[1]".toList = .error .TypeError
    ∧ n0listOfText " [1, {\"k\": [2]}] ".toList = .ok (.list .n0 [.int 1, .dict .n0 [(['k'], .list .plain [.int 2])]])
    ∧ n0listOfText "{}".toList = .error .TypeError ∧ n0dictOfText [' '] = .error .TypeError := by decide +kernel
example : n0dictOfText (toJson {} (.dict .plain [(['r'], tPairs)]))
    = .ok (.dict .n0 [(['r'], .list .plain [.dict .n0 [(['k'], .str ['1']), (['v'], .bool true)],
             .dict .n0 [(['k'], .int 3), (['v'], .flt ['1', '.', '5'])],
             .dict .n0 [(['v'], .str ['"', '\\'])]])]) := by
  rw [(C11_export_construct_partial {} .plain).1 _ (by decide +kernel) (by decide +kernel)]
  decide +kernel

/-! ### non-vacuity -/

/-- a tree with two pair-layout lists (one nested in a dict of a general list), an empty record,
an absent first column, a record in the other order, escapes in keys and values -/
def tMixed : Val :=
  .dict .n0 [(['r'], .list .n0 [.dict .n0 [(['b', '"'], .int (-7))],
                                .dict .plain [],
                                .dict .n0 [(['b', '"'], .str ['\n', '"']), (['a'], .flt ['2', '.', '5'])],
                                .dict .plain [(['a'], .bool false)]]),
             (['g'], .list .plain [.int 1, .dict .n0 [(['q'], .list .n0 [.dict .n0 [(['x'], .str [])]])], .list .n0 []])]

example : wf tMixed = true ∧ depth tMixed ≤ 111 := by decide +kernel
example : Opts.pairsOn { indent := 2, skipEmpty := true } = true := by decide
-- the pair layout really is used, and re-lists nothing here (first-appearance order = record order)
example : pairOrder { indent := 2, skipEmpty := true } tMixed = tMixed := by decide +kernel
example : pairOrder {} tPairs ≠ tPairs := by decide +kernel
example : jsonDecode (toJson { indent := 2, skipEmpty := true } tMixed)
    = some (.dict .plain [(['r'], .list .plain [.dict .plain [(['b', '"'], .int (-7))],
                                .dict .plain [(['b', '"'], .str ['\n', '"']), (['a'], .flt ['2', '.', '5'])],
                                .dict .plain [(['a'], .bool false)]]),
             (['g'], .list .plain [.int 1, .dict .plain [(['q'], .list .plain [.dict .plain [(['x'], .str [])]])]])]) := by
  rw [C11_roundtrip_colorder_partial _ tMixed (by decide +kernel) (by decide +kernel) (by decide +kernel)]
  decide +kernel
-- the text of the instance contains a padded record with an absent first column
example : pretty { indent := 2 } 0 (.list .n0 [.dict .n0 [(['k'], .int 1), (['v'], .int 22)], .dict .n0 [(['v'], .int 3)]])
    = "[\n  { \"k\": 1, \"v\": 22 },\n  {         \"v\": 3  }\n]".toList := by decide +kernel
example : ∃ o t, wf t = true ∧ depth t ≤ 111 ∧ o.pairsOn = true ∧ pairOrder o t ≠ t :=
  ⟨{}, tPairs, by decide +kernel, by decide +kernel, by decide, by decide +kernel⟩
example : isPairScalar (.str ['a']) = true ∧ isPairScalar .none = false ∧ isPairScalar (.list .n0 []) = false := by decide

def tDemo : Val :=
  .dict .n0 [(['a', '"'], .list .n0 [.str ['\\', '\n', '"', 'é', Char.ofNat 1], .int (-12), .flt ['1', 'e', '-', '0', '7'],
                                     .none, .bool false, .list .plain [], .dict .plain [(['x'], .dict .n0 [])]]),
             (['e'], .dict .plain []), ([], .str [])]

example : wf tDemo = true ∧ depth tDemo ≤ 111 := by decide +kernel
example : Opts.pairsOn { indent := 2, pairs := false, skipEmpty := true } = false := by decide
-- the hypotheses of `C11_roundtrip_partial` are met and the conclusion is a non-trivial value
example : jsonDecode (toJson { indent := 2, pairs := false, skipEmpty := true } tDemo)
    = some (.dict .plain [(['a', '"'], .list .plain [.str ['\\', '\n', '"', 'é', Char.ofNat 1], .int (-12),
        .flt ['1', 'e', '-', '0', '7'], .none, .bool false])
      , ([], .str [])]) := by
  rw [C11_roundtrip_partial _ (by decide) tDemo (by decide +kernel) (by decide +kernel)]
  decide +kernel
example : Ren (.list .n0 [.int 1, .str ['a']]) "[ 1 ,\n \"a\" ]".toList := by
  simp only [Ren, RenL, RenTail]
  exact ⟨" 1 ,\n \"a\" ".toList, ⟨[' '], ['1'], " ,\n \"a\" ".toList, by decide, by decide +kernel,
    ⟨[' '], ['\n', ' '], "\"a\"".toList, [' '], by decide, by decide, by decide +kernel, by decide, by decide +kernel⟩,
    by decide +kernel⟩, by decide +kernel⟩
example : fltOk "1e-07".toList = true ∧ fltOk "-2.5".toList = true ∧ fltOk "1".toList = false ∧ fltOk "nan".toList = false := by
  decide +kernel

end N0.C11
