import N0Verif.Proofs.Json
/-!
# C11 — JSON export and load round-trip every JSON-representable tree

Only property statements live here; the model is `Model/Json.lean` (`toJson` = `n0dict_.to_json` /
`n0list_.to_json` through `n0pretty`, **with fix patches C11-a, C11-c, C11-d, C11-f applied**;
`jsonDecode` = `json.loads`), helper lemmas are in `Proofs/Json.lean`.

Reading of the property.
* "JSON-representable tree" = `wf t`: keys are unique inside every dict and every float leaf
  carries a JSON float lexeme (`fltOk`; Python's `repr` of a finite float is one).
* "decodes to a value equal to the tree": `json.loads` builds plain `dict`/`list`, Python's `==`
  ignores the class and the order of dict entries.  `erase` forgets the class tags; `pyEq` is
  equality up to the order of dict entries.  Outside the pair layout the theorems give *exact*
  equality with `erase …` (order included), which implies `pyEq`.
* "skip_empty_arrays drops empty containers": `dropEmptyIf o t` = `prune t` when the option is
  on — containers that are empty, or become empty once their own empty containers are dropped,
  are removed from their parent (the root itself stays, as `{}` / `[]`).
-/
namespace N0.C11
open N0 N0.Py N0.Json

/-! ### equality of decoded values as Python sees it (dict order ignored) -/
mutual
def pyEq : Val → Val → Bool
  | .none, .none => true
  | .bool a, .bool b => a == b
  | .int a, .int b => a == b
  | .flt a, .flt b => a == b
  | .str a, .str b => a == b
  | .list _ xs, .list _ ys => pyEqL xs ys
  | .dict _ a, .dict _ b => a.length == b.length && pyEqK a b
  | _, _ => false
def pyEqL : List Val → List Val → Bool
  | [], [] => true
  | x :: xs, y :: ys => pyEq x y && pyEqL xs ys
  | _, _ => false
def pyEqK : List (Str × Val) → List (Str × Val) → Bool
  | [], _ => true
  | (k, v) :: rest, b =>
    (match Val.lookup k b with
      | some v' => pyEq v v'
      | Option.none => false) && pyEqK rest b
end

/-- **C11, full statement** (kept visible; proved below without the pair layout and up to
nesting depth 111 — the remaining part is finding C11-e and the pair layout, which is covered
differentially): for every JSON-representable tree and every option record the exported text
is accepted by the reader and decodes to the tree (minus empty containers when
`skip_empty_arrays` is on). -/
def C11_roundtrip_stmt : Prop :=
  ∀ (o : Opts) (t : Val), wf t = true →
    ∃ v, jsonDecode (toJson o t) = some v ∧ pyEq v (erase (dropEmptyIf o t)) = true

/-- **The reader decodes every JSON text of a value.**  Whatever white space stands between the
tokens (`Ren v s`), `json.loads` returns the value: all strings (quote, backslash, control and
non-ASCII characters through `esc`), all ints, float lexemes, `true/false/null`, any nesting. -/
theorem C11_decode_ren (v : Val) (s : Str) (h : Ren v s) (hw : wf v = true) :
    jsonDecode s = some (erase v) := by
  rw [jsonDecode_ren h, dec_erase v hw]

/-- a string survives export and load, whatever it contains -/
theorem C11_string_roundtrip (x : Str) : jsonDecode (quoted x) = some (.str x) := by
  have h : Ren (.str x) (quoted x) := by simp [Ren, scalarText]
  simpa [erase] using C11_decode_ren (.str x) (quoted x) h rfl

/-- an integer survives export and load -/
theorem C11_int_roundtrip (i : Int) : jsonDecode (intRepr i) = some (.int i) := by
  have h : Ren (.int i) (intRepr i) := by simp [Ren, scalarText]
  simpa [erase] using C11_decode_ren (.int i) (intRepr i) h rfl

/-- **C11 without the pair layout** (`compress`, `indent = 0` or `pairs_in_one_line = False`;
every indent, both values of `skip_empty_arrays`), for trees nested at most 111 deep:
the exported text decodes *exactly* to the tree with class tags forgotten and, under
`skip_empty_arrays`, empty containers dropped. -/
theorem C11_roundtrip_partial (o : Opts) (hp : o.pairsOn = false) (t : Val)
    (hw : wf t = true) (hd : depth t ≤ 111) :
    jsonDecode (toJson o t) = some (erase (dropEmptyIf o t)) := by
  have hout := pretty_ren o hp t hw 0 (by omega)
  unfold toJson
  rcases hout with ⟨hs, he, hnil⟩ | ⟨_, hr⟩
  · -- everything was dropped: `to_json` answers `{}` / `[]`
    simp only [hnil, List.isEmpty_nil, if_true]
    unfold dropEmptyIf
    simp only [hs, if_true]
    cases t with
    | list c xs =>
      simp only [prune, isEmptyContainer] at he ⊢
      cases hpx : pruneList xs with
      | nil => simp [isDict, erase, eraseList]; decide
      | cons a b => rw [hpx] at he; simp at he
    | dict c kvs =>
      simp only [prune, isEmptyContainer] at he ⊢
      cases hpx : pruneKvs kvs with
      | nil => simp [isDict, erase, eraseKvs]; decide
      | cons a b => rw [hpx] at he; simp at he
    | none => simp [prune, isEmptyContainer] at he
    | bool b => simp [prune, isEmptyContainer] at he
    | int i => simp [prune, isEmptyContainer] at he
    | flt r => simp [prune, isEmptyContainer] at he
    | str x => simp [prune, isEmptyContainer] at he
  · have hne : (pretty o 0 t).isEmpty = false := by
      have := Ren_ne_nil hr
      cases h : pretty o 0 t <;> simp_all
    simp only [hne, Bool.false_eq_true, if_false]
    exact C11_decode_ren _ _ hr (wf_dropEmptyIf o t hw)

/-- stage 1: the compressed layout -/
theorem C11_roundtrip_compress (o : Opts) (hc : o.compress = true) (t : Val)
    (hw : wf t = true) (hd : depth t ≤ 111) :
    jsonDecode (toJson o t) = some (erase (dropEmptyIf o t)) :=
  C11_roundtrip_partial o (by simp [Opts.pairsOn, Opts.isz, hc]) t hw hd

/-- stage 2: the indented layout, any indent, `pairs_in_one_line = False` -/
theorem C11_roundtrip_indented (o : Opts) (hpairs : o.pairs = false) (t : Val)
    (hw : wf t = true) (hd : depth t ≤ 111) :
    jsonDecode (toJson o t) = some (erase (dropEmptyIf o t)) :=
  C11_roundtrip_partial o (by simp [Opts.pairsOn, hpairs]) t hw hd

/-- the statement form of the proved part: it implies the `pyEq` reading -/
theorem C11_roundtrip_partial_exists (o : Opts) (hp : o.pairsOn = false) (t : Val)
    (hw : wf t = true) (hd : depth t ≤ 111) :
    ∃ v, jsonDecode (toJson o t) = some v ∧ v = erase (dropEmptyIf o t) :=
  ⟨_, C11_roundtrip_partial o hp t hw hd, rfl⟩

/-- no formatting option (outside the pair layout) changes the decoded value:
two option records that agree on `skip_empty_arrays` decode to the same value -/
theorem C11_options_agree (o o' : Opts) (hp : o.pairsOn = false) (hp' : o'.pairsOn = false)
    (hs : o.skipEmpty = o'.skipEmpty) (t : Val) (hw : wf t = true) (hd : depth t ≤ 111) :
    jsonDecode (toJson o t) = jsonDecode (toJson o' t) := by
  rw [C11_roundtrip_partial o hp t hw hd, C11_roundtrip_partial o' hp' t hw hd]
  unfold dropEmptyIf
  rw [hs]

/-! ### finding C11-e: nesting deeper than 111 -/

/-- `n` dicts around `v` -/
def nest : Nat → Val → Val
  | 0, v => v
  | n + 1, v => .dict .n0 [(['a'], nest n v)]

/-- **counter-example (C11-e)**: 112 nested dicts around `1` are exported as text that is not
JSON (`{.......}` is printed at level 111), so the depth hypothesis cannot be dropped -/
theorem C11_depth_cex :
    wf (nest 112 (.int 1)) = true ∧ depth (nest 112 (.int 1)) = 112 ∧
    jsonDecode (toJson { compress := true } (nest 112 (.int 1))) = Option.none := by
  decide +kernel

/-- at the boundary the round-trip still holds (instance of `C11_roundtrip_partial`) -/
theorem C11_depth_boundary :
    jsonDecode (toJson { compress := true } (nest 111 (.int 1))) = some (erase (nest 111 (.int 1))) :=
  C11_roundtrip_partial { compress := true } (by decide) _ (by decide +kernel) (by decide +kernel)

/-! ### the pair layout (differential only): why the full statement uses `pyEq` -/

def tPairs : Val :=
  .list .n0 [.dict .n0 [(['k'], .str ['1']), (['v'], .bool true)],
             .dict .plain [(['v'], .flt ['1', '.', '5']), (['k'], .int 3)],
             .dict .n0 [(['v'], .str ['"', '\\'])]]

/-- the pair layout prints the columns in first-appearance order, so a record written
`{v, k}` comes back as `{k, v}`: equal for Python, not identical as an ordered list -/
theorem C11_pairs_reorders :
    (Opts.pairsOn {} = true) ∧
    jsonDecode (toJson {} tPairs) ≠ some (erase tPairs) ∧
    (∃ v, jsonDecode (toJson {} tPairs) = some v ∧ pyEq v (erase tPairs) = true) := by
  refine ⟨by decide, by decide +kernel, ?_⟩
  refine ⟨.list .plain [.dict .plain [(['k'], .str ['1']), (['v'], .bool true)],
             .dict .plain [(['k'], .int 3), (['v'], .flt ['1', '.', '5'])],
             .dict .plain [(['v'], .str ['"', '\\'])]], by decide +kernel, by decide +kernel⟩

/-! ### non-vacuity -/

def tDemo : Val :=
  .dict .n0 [(['a', '"'], .list .n0 [.str ['\\', '\n', '"', 'é', Char.ofNat 1], .int (-12), .flt ['1', 'e', '-', '0', '7'],
                                     .none, .bool false, .list .plain [], .dict .plain [(['x'], .dict .n0 [])]]),
             (['e'], .dict .plain []), ([], .str [])]

example : wf tDemo = true ∧ depth tDemo ≤ 111 := by decide +kernel
example : Opts.pairsOn { indent := 2, pairs := false, skipEmpty := true } = false := by decide
-- the hypotheses of `C11_roundtrip_partial` are met and the conclusion is a non-trivial value
example : jsonDecode (toJson { indent := 2, pairs := false, skipEmpty := true } tDemo)
    = some (.dict .plain [(['a', '"'], .list .plain [.str ['\\', '\n', '"', 'é', Char.ofNat 1], .int (-12),
        .flt ['1', 'e', '-', '0', '7'], .none, .bool false])
      , ([], .str [])]) := by
  rw [C11_roundtrip_partial _ (by decide) tDemo (by decide +kernel) (by decide +kernel)]
  decide +kernel
example : Ren (.list .n0 [.int 1, .str ['a']]) "[ 1 ,\n \"a\" ]".toList := by
  simp only [Ren, RenL, RenTail]
  exact ⟨" 1 ,\n \"a\" ".toList, ⟨[' '], ['1'], " ,\n \"a\" ".toList, by decide, by decide +kernel,
    ⟨[' '], ['\n', ' '], "\"a\"".toList, [' '], by decide, by decide, by decide +kernel, by decide, by decide +kernel⟩,
    by decide +kernel⟩, by decide +kernel⟩
example : fltOk "1e-07".toList = true ∧ fltOk "-2.5".toList = true ∧ fltOk "1".toList = false ∧ fltOk "nan".toList = false := by
  decide +kernel

end N0.C11
