import N0Verif.Proofs.XPathCreate
import N0Verif.Proofs.XPathHistory
import N0Verif.Proofs.XPathCreate2
/-!
# C03 — assigning to a missing xpath creates exactly the missing chain; `new()` appends

`setItem` is the model of `__setitem__` (with `_add`); it returns the tree after the call and
whether the call raised — a failing creation leaves what it had already inserted.

Reference semantics: `Val.setAt t p x` ("the original with exactly the slot `p` replaced/inserted"),
`chain ns v` (nested dictionaries for a chain of names), `appendTo old x` (a list gets one more
element, a non-list value becomes the first element of a new list).  Paths are written in the
canonical `//…` form `xpath()` lists (`slash ++ renderPos q` is the path of the existing node `q`).

All theorems are unbounded in the size of the tree, the depth of `q` and the length of the chain.
-/
namespace N0.C03
open N0 N0.Py N0.Val N0.XPath

/-! ## 1. what `_find` reports for the miss -/

/-- **miss at a plain key.**  A token list that spells position `q` of the root (a dict), followed by
a plain key that dict does not have: `_find` returns NOT FOUND with the parent reference at `q`, no
name, the missing suffix — and the tree untouched. -/
theorem C03_find_miss_key (t : Val) (rl : Bool) (toks0 : List Str) (q : Pos) (cls : Cls) (kvs : List (Str × Val))
    (n : Str) (rest : List Str) (hs : Spells toks0 t q (.dict cls kvs)) (hk : KeyTok n)
    (hl : lookup n kvs = Option.none) (fuel : Nat) (hf : fuel ≥ 2 * toks0.length + 1) :
    ∃ fnd, findD fuel t [] false true (toks0 ++ n :: rest) (.at []) rl slash
      = .ok (t, { parent := .at q, nameIdx := Option.none, value := Val.none, found := fnd,
                  notFound := some (n :: rest) }) :=
  find_miss_key t rl toks0 q cls kvs n rest hs hk hl fuel hf

/-- **miss at `name[idx]`** whose name is absent (whatever the index text: `new()`, `0`, …). -/
theorem C03_find_miss_keyidx (t : Val) (rl : Bool) (toks0 : List Str) (q : Pos) (cls : Cls)
    (kvs : List (Str × Val)) (name e : Str) (rest : List Str) (hs : Spells toks0 t q (.dict cls kvs))
    (hn : PlainKey name) (he : IdxExpr e) (hl : lookup name kvs = Option.none) (fuel : Nat)
    (hf : fuel ≥ 2 * toks0.length + 1) :
    ∃ fnd, findD fuel t [] false true (toks0 ++ (name ++ bracket e) :: rest) (.at []) rl slash
      = .ok (t, { parent := .at q, nameIdx := Option.none, value := Val.none, found := fnd,
                  notFound := some ((name ++ bracket e) :: rest) }) :=
  find_miss_keyidx t rl toks0 q cls kvs _ name e rest hs (split_bracket name e (Or.inr hn) he) hn.ne hn.notUp
    hn.keyTok.notStar hl fuel hf

/-! ## 2. a chain of fresh names -/

/-- **full statement (names).**  Below an existing dict node at `q`, a chain of fresh plain names
`n :: ns` creates exactly the nested dictionaries and stores `v` at the end; nothing else changes. -/
def C03_create_names_stmt : Prop :=
  ∀ (cls : Cls) (kvs : List (Str × Val)) (q : Pos) (_c kcls : Cls) (nkvs : List (Str × Val))
    (n : Str) (ns : List Str) (v t' : Val) (fuel : Nat),
    PlainPos q → getAt (.dict cls kvs) q = some (.dict kcls nkvs) → lookup n nkvs = Option.none →
    PlainKey n → (∀ m ∈ ns, PlainKey m) →
    setAt (.dict cls kvs) (q ++ [.key n]) (chain ns v) = some t' →
    fuel ≥ 2 * (q.length + ns.length + 1) →
    setItem fuel (.dict cls kvs) (slash ++ renderPos (q ++ (n :: ns).map Seg.key)) v = (t', .ok ())

/-- **C03 (names), proved.** -/
theorem C03_create_names : C03_create_names_stmt := by
  intro cls kvs q _ kcls nkvs n ns v t' fuel hp hget hl hn hns hset hf
  exact setItem_create_names cls kvs q kcls nkvs n ns v t' fuel hp hget hl hn hns hset (by omega)

/-- the creation always has a result: the reference tree exists whenever the parent does -/
theorem C03_create_names_total (t : Val) (q : Pos) (kcls : Cls) (nkvs : List (Str × Val)) (n : Str) (x : Val)
    (hget : getAt t q = some (.dict kcls nkvs)) : ∃ t', setAt t (q ++ [.key n]) x = some t' := by
  obtain ⟨t', ht'⟩ := setAt_isSome q t _ (.dict kcls (kvSet n x nkvs)) hget
  exact ⟨t', by rw [setAt_snoc q t (.key n) x _ (.dict kcls (kvSet n x nkvs)) hget (by simp [setChild])]; exact ht'⟩

/-! ## 3. element-creating steps: `name[new()]`, `name[0]`, `name[len]`, each optionally followed by
fresh names (`name[new()]/x/y` appends the dict `{x: {y: v}}`) -/

/-- **`name[new()]` appends exactly one element** to the list under `name`; where `name` holds a
non-list value that value is wrapped as the first element (`[old, v]`). -/
theorem C03_append_new (cls : Cls) (kvs : List (Str × Val)) (q : Pos) (kcls : Cls)
    (nkvs : List (Str × Val)) (name : Str) (old : Val) (tail : List Str) (v t' : Val) (fuel : Nat)
    (hp : PlainPos q) (hget : getAt (.dict cls kvs) q = some (.dict kcls nkvs)) (hn : PlainKey name)
    (hl : lookup name nkvs = some old) (ht : ∀ x ∈ tail, PlainKey x)
    (hset : setAt (.dict cls kvs) (q ++ [.key name]) (appendTo old (chain tail v)) = some t')
    (hf : fuel ≥ 4 * (q.length + 1)) :
    setItem fuel (.dict cls kvs)
      (slash ++ renderPos q ++ slash ++ (name ++ bracket sNew) ++ renderPos (tail.map Seg.key)) v = (t', .ok ()) :=
  setItem_new_existing cls kvs q kcls nkvs name old tail v t' fuel hp hget hn hl ht hset hf

/-- `appendTo` on a list is one more element at the end (so `len` grows by exactly one) … -/
theorem C03_appendTo_list (c : Cls) (xs : List Val) (x : Val) : appendTo (.list c xs) x = .list c (xs ++ [x]) := rfl
/-- … and on anything else the two-element list `[old, x]` -/
theorem C03_appendTo_wrap (old x : Val) (h : isList old = false) : appendTo old x = .list .n0 [old, x] :=
  appendTo_nonlist h x

/-- **`name[new()]` / `name[0]` on a fresh name** creates the one-element list. -/
theorem C03_new_on_fresh (cls : Cls) (kvs : List (Str × Val)) (q : Pos) (kcls : Cls)
    (nkvs : List (Str × Val)) (name e : Str) (tail : List Str) (v t' : Val) (fuel : Nat)
    (hp : PlainPos q) (hget : getAt (.dict cls kvs) q = some (.dict kcls nkvs)) (hn : PlainKey name)
    (he : e = sNew ∨ e = ['0']) (hl : lookup name nkvs = Option.none) (ht : ∀ x ∈ tail, PlainKey x)
    (hset : setAt (.dict cls kvs) (q ++ [.key name]) (.list .n0 [chain tail v]) = some t')
    (hf : fuel ≥ 2 * q.length + 1) :
    setItem fuel (.dict cls kvs)
      (slash ++ renderPos q ++ slash ++ (name ++ bracket e) ++ renderPos (tail.map Seg.key)) v = (t', .ok ()) :=
  setItem_elem_fresh cls kvs q kcls nkvs name e tail v t' fuel hp hget hn he hl ht hset hf

/-- **`name[len]` on an existing list of length `len`** appends exactly one element. -/
theorem C03_len_appends (cls : Cls) (kvs : List (Str × Val)) (q : Pos) (kcls : Cls)
    (nkvs : List (Str × Val)) (name : Str) (c : Cls) (xs : List Val) (tail : List Str) (v t' : Val) (fuel : Nat)
    (hp : PlainPos q) (hget : getAt (.dict cls kvs) q = some (.dict kcls nkvs)) (hn : PlainKey name)
    (hl : lookup name nkvs = some (.list c xs)) (ht : ∀ x ∈ tail, PlainKey x)
    (hset : setAt (.dict cls kvs) (q ++ [.key name]) (.list c (xs ++ [chain tail v])) = some t')
    (hf : fuel ≥ 2 * q.length + 2) :
    setItem fuel (.dict cls kvs)
      (slash ++ renderPos q ++ slash ++ (name ++ bracket (natStr xs.length)) ++ renderPos (tail.map Seg.key)) v
      = (t', .ok ()) :=
  setItem_len_existing cls kvs q kcls nkvs name c xs tail v t' fuel hp hget hn hl ht hset hf

/-! ## 4. frame and read-back -/

/-- **frame (names, fresh element list).**  The created slot `w` did not exist; every node that
existed keeps its position and value, except the ancestors of the new slot (which contain it). -/
theorem C03_frame_new_slot (t t' v x : Val) (w p : Pos) (hset : setAt t w v = some t')
    (hnew : getAt t w = Option.none) (hp : getAt t p = some x) (hnp : ¬ p <+: w) : getAt t' p = some x :=
  frame_new_slot t t' v x w p hset hnew hp hnp

/-- the slot a fresh name addresses does not exist before -/
theorem C03_fresh_slot (t : Val) (q : Pos) (kcls : Cls) (nkvs : List (Str × Val)) (n : Str)
    (hget : getAt t q = some (.dict kcls nkvs)) (hl : lookup n nkvs = Option.none) :
    getAt t (q ++ [.key n]) = Option.none := by
  rw [getAt_snoc, hget]; simp [child, hl]

/-- **frame (append).**  Appending to the list at `P` keeps every node that existed (also every
element of the list and everything below them) except the ancestors of the list. -/
theorem C03_frame_append (t t' : Val) (P : Pos) (c : Cls) (xs : List Val) (z x : Val) (p : Pos)
    (hset : setAt t P (.list c (xs ++ [z])) = some t') (hP : getAt t P = some (.list c xs))
    (hp : getAt t p = some x) (hnp : ¬ p <+: P) : getAt t' p = some x :=
  frame_append t t' P c xs z x p hset hP hp hnp

/-- **frame (wrap).**  Nodes outside the wrapped value keep their position; the wrapped value and
everything inside it moves below index 0. -/
theorem C03_frame_wrap (t t' : Val) (P : Pos) (old z x : Val) (p : Pos)
    (hset : setAt t P (.list .n0 [old, z]) = some t') (hP : getAt t P = some old) (hp : getAt t p = some x) :
    (¬ p <+: P → ¬ P <+: p → getAt t' p = some x) ∧ (∀ r, p = P ++ r → getAt t' (P ++ .idx 0 :: r) = some x) :=
  frame_wrap t t' P old z x p hset hP hp

/-- **read-back (names).**  `d[xpath]` is `v` afterwards, and reading does not change the tree. -/
theorem C03_read_back_names (cls : Cls) (kvs : List (Str × Val)) (q : Pos) (n : Str) (ns : List Str) (v t' : Val)
    (fuel : Nat) (hp : PlainPos q) (hn : PlainKey n) (hns : ∀ m ∈ ns, PlainKey m)
    (hset : setAt (.dict cls kvs) (q ++ [.key n]) (chain ns v) = some t')
    (hf : fuel ≥ 2 * (q.length + ns.length + 1)) :
    getItem fuel t' (slash ++ renderPos (q ++ (n :: ns).map Seg.key)) = (t', .ok v) :=
  readback_names cls kvs q n ns v t' fuel hp hn hns hset hf

/-- **read-back (elements).**  After `name[new()]…`, `name[0]…` (fresh name: `ys = []`),
`name[len]…` (`ys` = the old elements) or the wrap (`ys = [old]`), the value reads back through the
path with the index replaced by `last()`. -/
theorem C03_read_back_elem (cls : Cls) (kvs : List (Str × Val)) (q : Pos) (kcls : Cls) (nkvs : List (Str × Val))
    (name : Str) (c : Cls) (ys : List Val) (tail : List Str) (v t' : Val) (fuel : Nat)
    (hp : PlainPos q) (hget : getAt (.dict cls kvs) q = some (.dict kcls nkvs)) (hn : PlainKey name)
    (ht : ∀ x ∈ tail, PlainKey x)
    (hset : setAt (.dict cls kvs) (q ++ [.key name]) (.list c (ys ++ [chain tail v])) = some t')
    (hf : fuel ≥ 2 * (q.length + tail.length + 1)) :
    getItem fuel t'
      (slash ++ renderPos q ++ slash ++ (name ++ bracket sLast) ++ renderPos (tail.map Seg.key)) = (t', .ok v) :=
  readback_elem cls kvs q kcls nkvs name c ys tail v t' fuel hp hget hn ht hset hf

/-! ## 5. every path of the honoured grammar `G_ok` -/

/-- **unhypothesised statement (every path of `G_ok`).**  `steps` is a creation path below the
existing node `cur` at `q`: the first step may be a fresh name, `n[new()]` (fresh or existing `n`),
`n[0]` (fresh), `n[len]`, or — below a list — `[new()]`/`[len]`; later steps are fresh names,
`n[new()]`, `n[0]`; every element-creating step is last or followed by a name.  Then `d[path] = v`
yields exactly `createIn`.

**False as it stands** (`C03_create_stmt_false`): a bare `[new()]` below a list that is an element of
a *plain* `list` raises `TypeError` (finding C03-c, in general form `C03_new_in_plain_list_raises`).
With exactly that case excluded the statement is proved: `C03_create`. -/
def C03_create_stmt : Prop :=
  ∀ (cls : Cls) (kvs : List (Str × Val)) (q : Pos) (cur cur' : Val) (s : CStep) (steps : List CStep) (v t' : Val),
    PlainPos q → getAt (.dict cls kvs) q = some cur → s.first → (∀ x ∈ steps, x.later) → GOk (s :: steps) →
    createIn cur (s :: steps) v = some cur' → setAt (.dict cls kvs) q cur' = some t' →
    ∃ n, ∀ fuel ≥ n,
      setItem fuel (.dict cls kvs) (slash ++ renderPos q ++ (s :: steps).flatMap renderCStep) v = (t', .ok ())

/-- **C03 (honoured grammar, first step below a dict), proved.**  The full statement for every
creation path whose first step is a name step or a named element-creating step (`cur` is then a
dict): names become nested dictionaries, every `n[new()]`/`n[0]`/`n[len]` appends exactly one
element (creating the list, or wrapping a non-list value as first element), in any alternation the
grammar allows and of any length — the result is exactly `createIn`. -/
theorem C03_create_partial (cls : Cls) (kvs : List (Str × Val)) (q : Pos) (kcls : Cls) (nkvs : List (Str × Val))
    (s : CStep) (steps : List CStep) (v cur' t' : Val) (fuel : Nat)
    (hp : PlainPos q) (hget : getAt (.dict cls kvs) q = some (.dict kcls nkvs))
    (hfirst : s.first) (hidx : ∀ e, s ≠ .idx e) (hsteps : ∀ x ∈ steps, x.later) (hg : GOk (s :: steps))
    (hcreate : createIn (.dict kcls nkvs) (s :: steps) v = some cur')
    (hset : setAt (.dict cls kvs) q cur' = some t') (hf : fuel ≥ 4 * (q.length + 1)) :
    setItem fuel (.dict cls kvs) (slash ++ renderPos q ++ (s :: steps).flatMap renderCStep) v = (t', .ok ()) := by
  have hs : PlainKey s.nameOf := by
    cases s with
    | name n => exact hfirst
    | elem n e => exact hfirst
    | idx e => exact absurd rfl (hidx e)
  exact setItem_create_steps cls kvs q kcls nkvs s steps v cur' t' fuel hp hget hs hidx hsteps hg hcreate hset hf

/-- the reference result always exists once `createIn` is defined (the node at `q` exists) -/
theorem C03_create_total (t : Val) (q : Pos) (cur cur' : Val) (hget : getAt t q = some cur) :
    ∃ t', setAt t q cur' = some t' := setAt_isSome q t cur cur' hget

/-- **`[new()]` below a list that is an element of an `n0list`** (optionally followed by later steps):
exactly one element is appended to the addressed list. -/
theorem C03_append_new_in_n0list (cls : Cls) (kvs : List (Str × Val)) (q0 : Pos) (i : Nat) (ys : List Val)
    (c : Cls) (xs : List Val) (steps : List CStep) (v t' : Val) (fuel : Nat)
    (hp : PlainPos q0) (hq0 : getAt (.dict cls kvs) q0 = some (.list .n0 ys)) (hi : ys[i]? = some (.list c xs))
    (hsteps : ∀ x ∈ steps, x.later) (hg : GOk (.idx sNew :: steps))
    (hset : setAt (.dict cls kvs) (q0 ++ [.idx i]) (.list c (xs ++ [fill steps v])) = some t')
    (hf : fuel ≥ 4 * (q0.length + 2)) :
    setItem fuel (.dict cls kvs)
      (slash ++ renderPos (q0 ++ [.idx i]) ++ (CStep.idx sNew :: steps).flatMap renderCStep) v = (t', .ok ()) :=
  setItem_create_idx_in_list cls kvs q0 i .n0 ys c xs sNew steps v t' fuel hp hq0 hi (Or.inl rfl) (fun _ => rfl)
    hsteps hg hset hf

/-- **`[len]` below a list that is an element of any list** (plain or `n0list`): exactly one element
is appended (no second lookup through the enclosing list is made on this branch). -/
theorem C03_len_in_list (cls : Cls) (kvs : List (Str × Val)) (q0 : Pos) (i : Nat) (c0 : Cls) (ys : List Val)
    (c : Cls) (xs : List Val) (steps : List CStep) (v t' : Val) (fuel : Nat)
    (hp : PlainPos q0) (hq0 : getAt (.dict cls kvs) q0 = some (.list c0 ys)) (hi : ys[i]? = some (.list c xs))
    (hsteps : ∀ x ∈ steps, x.later) (hg : GOk (.idx (natStr xs.length) :: steps))
    (hset : setAt (.dict cls kvs) (q0 ++ [.idx i]) (.list c (xs ++ [fill steps v])) = some t')
    (hf : fuel ≥ 4 * (q0.length + 2)) :
    setItem fuel (.dict cls kvs)
      (slash ++ renderPos (q0 ++ [.idx i]) ++ (CStep.idx (natStr xs.length) :: steps).flatMap renderCStep) v
        = (t', .ok ()) :=
  setItem_create_idx_in_list cls kvs q0 i c0 ys c xs _ steps v t' fuel hp hq0 hi (Or.inr rfl)
    (fun h => absurd h (natStr_ne_new _)) hsteps hg hset hf

/-- **finding C03-c in general.**  `[new()]` directly below a list that is an element of a *plain*
`list` raises `TypeError` — for every tree, depth and continuation — and leaves the tree as it was
(`parent["[i]"]` is an xpath lookup only on an `n0list`). -/
theorem C03_new_in_plain_list_raises (cls : Cls) (kvs : List (Str × Val)) (q0 : Pos) (i : Nat) (ys : List Val)
    (c : Cls) (xs : List Val) (steps : List CStep) (v : Val) (fuel : Nat)
    (hp : PlainPos q0) (hq0 : getAt (.dict cls kvs) q0 = some (.list .plain ys)) (hi : ys[i]? = some (.list c xs))
    (hsteps : ∀ x ∈ steps, x.later) (hf : fuel ≥ 4 * (q0.length + 2)) :
    setItem fuel (.dict cls kvs)
      (slash ++ renderPos (q0 ++ [.idx i]) ++ (CStep.idx sNew :: steps).flatMap renderCStep) v
        = (.dict cls kvs, .error .TypeError) :=
  setItem_new_in_plain_list_raises cls kvs q0 i ys c xs steps v fuel hp hq0 hi hsteps hf

/-- **C03 (every path of the honoured grammar).**  The statement `C03_create_stmt` with exactly one
hypothesis added: when the first step is a bare `[new()]`, no plain `list` directly encloses the
target list (`PlainListEncloses t q`: `q = q0 ++ [i]` and the node at `q0` is a plain `list`).
First step: fresh name, `n[new()]`, `n[0]`, `n[len]` below a dict, `[new()]`/`[len]` below a list
(held by a key, or an element of an enclosing list); later steps: fresh names, `n[new()]`, `n[0]`
in any alternation the grammar allows.  The result is exactly `createIn`; nothing raises. -/
theorem C03_create (cls : Cls) (kvs : List (Str × Val)) (q : Pos) (cur cur' : Val) (s : CStep) (steps : List CStep)
    (v t' : Val) (fuel : Nat)
    (hp : PlainPos q) (hget : getAt (.dict cls kvs) q = some cur) (hfirst : s.first)
    (hsteps : ∀ x ∈ steps, x.later) (hg : GOk (s :: steps))
    (hcreate : createIn cur (s :: steps) v = some cur') (hset : setAt (.dict cls kvs) q cur' = some t')
    (hencl : s = .idx sNew → ¬ PlainListEncloses (.dict cls kvs) q)
    (hf : fuel ≥ 4 * (q.length + 1)) :
    setItem fuel (.dict cls kvs) (slash ++ renderPos q ++ (s :: steps).flatMap renderCStep) v = (t', .ok ()) :=
  setItem_create_any cls kvs q cur cur' s steps v t' fuel hp hget hfirst hsteps hg hcreate hset hencl hf

/-- the added hypothesis is needed: the unhypothesised statement is refuted by the witness of C03-c -/
theorem C03_create_stmt_false : ¬ C03_create_stmt := by
  intro h
  obtain ⟨n, hn⟩ := h .n0 [(['x'], .list .plain [.list .plain []])] [.key ['x'], .idx 0] (.list .plain [])
    (.list .plain [.str ['V']]) (.idx sNew) [] (.str ['V'])
    (.dict .n0 [(['x'], .list .plain [.list .plain [.str ['V']]])])
    ⟨⟨by simp, by decide, by simp⟩, trivial⟩ (by decide) trivial (by simp) trivial (by decide) (by decide)
  have h1 := hn (max n 12) (Nat.le_max_left _ _)
  have h2 := C03_new_in_plain_list_raises .n0 [(['x'], .list .plain [.list .plain []])] [.key ['x']] 0
    [.list .plain []] .plain [] [] (.str ['V']) (max n 12) ⟨⟨by simp, by decide, by simp⟩, trivial⟩ (by decide)
    (by decide) (by simp) (Nat.le_max_right _ _)
  rw [show ([Seg.key ['x']] ++ [Seg.idx 0] : Pos) = [.key ['x'], .idx 0] from rfl, h1] at h2
  cases h2

/-- **unrestricted statement (read back).**  After *any* successful `d[xpath] = v` the value reads
back through the same path with `new()` replaced by `last()`.  Not provable in this generality: it
quantifies over every path text, also those outside the honoured grammar (`c[new()][0]/m` of
finding C03-b stores without raising and reads back something else) and over names that contain
the text `new()` themselves (which `replace` rewrites).  Proved for every path of the honoured
grammar whose names are free of `(`: `C03_read_back`. -/
def C03_read_back_stmt : Prop :=
  ∀ (t t' v : Val) (xp : Str) (fuel : Nat),
    setItem fuel t xp v = (t', .ok ()) →
    ∃ n, ∀ f ≥ n, (getItem f t' (replace sNew sLast xp)).2 = .ok v

/-- **C03 (read back, every path of `C03_create_partial`).**  After the creation
`d[//…q…/s/steps…] = v` (any path of the honoured grammar whose first step is below a dict: names,
`n[new()]`, `n[0]`, `n[len]` in any alternation, any length), `d[xpath.replace("new()", "last()")]`
returns `v` and leaves the tree as it is.  Hypothesis added to those of `C03_create_partial`: no
name on the path contains `(` (`NoParenPos q`, `NoParen x.nameOf`) — otherwise `replace` could
rewrite a *name* that contains the text `new()`. -/
theorem C03_read_back (cls : Cls) (kvs : List (Str × Val)) (q : Pos) (kcls : Cls) (nkvs : List (Str × Val))
    (s : CStep) (steps : List CStep) (v cur' t' : Val) (fuel : Nat)
    (hp : PlainPos q) (hget : getAt (.dict cls kvs) q = some (.dict kcls nkvs))
    (hfirst : s.first) (hidx : ∀ e, s ≠ .idx e) (hsteps : ∀ x ∈ steps, x.later)
    (hnq : NoParenPos q) (hnp : ∀ x ∈ s :: steps, NoParen x.nameOf)
    (hcreate : createIn (.dict kcls nkvs) (s :: steps) v = some cur')
    (hset : setAt (.dict cls kvs) q cur' = some t') (hf : fuel ≥ 2 * (q.length + steps.length + 1)) :
    getItem fuel t' (replace sNew sLast (slash ++ renderPos q ++ (s :: steps).flatMap renderCStep)) = (t', .ok v) :=
  getItem_readback_steps cls kvs q kcls nkvs s steps v cur' t' fuel hp hget hfirst hidx hsteps hnq hnp hcreate hset hf

/-- **C03 (read back, every path of `C03_create`).**  The same for every first step of the honoured
grammar, also a bare `[new()]`/`[len]` below a list (`//x[0][new()]/m` reads back through
`//x[0][last()]/m`).  No hypothesis about enclosing plain lists is needed here: the statement is
about the tree `createIn` describes. -/
theorem C03_read_back_any (cls : Cls) (kvs : List (Str × Val)) (q : Pos) (cur cur' : Val) (s : CStep)
    (steps : List CStep) (v t' : Val) (fuel : Nat)
    (hp : PlainPos q) (hget : getAt (.dict cls kvs) q = some cur) (hfirst : s.first)
    (hsteps : ∀ x ∈ steps, x.later) (hnq : NoParenPos q) (hnp : ∀ x ∈ s :: steps, NoParen x.nameOf)
    (hcreate : createIn cur (s :: steps) v = some cur') (hset : setAt (.dict cls kvs) q cur' = some t')
    (hf : fuel ≥ 2 * (q.length + steps.length + 1)) :
    getItem fuel t' (replace sNew sLast (slash ++ renderPos q ++ (s :: steps).flatMap renderCStep)) = (t', .ok v) :=
  getItem_readback_any cls kvs q cur cur' s steps v t' fuel hp hget hfirst hsteps hnq hnp hcreate hset hf

/-- the text that is read: every `new()` index has become `last()`, nothing else has changed -/
theorem C03_read_back_path (q : Pos) (steps : List CStep) (hq : NoParenPos q) (hsteps : ∀ x ∈ steps, x.noParen) :
    replace sNew sLast (slash ++ renderPos q ++ steps.flatMap renderCStep)
      = slash ++ renderPos q ++ (steps.map lastify).flatMap renderCStep :=
  replace_path q steps hq hsteps

/-- **create, then read back**: both halves of "after `d[xpath] = v` … `d[xpath]` is `v`" for the
paths of `C03_create_partial` in one statement. -/
theorem C03_create_then_read (cls : Cls) (kvs : List (Str × Val)) (q : Pos) (kcls : Cls) (nkvs : List (Str × Val))
    (s : CStep) (steps : List CStep) (v cur' t' : Val) (fuel : Nat)
    (hp : PlainPos q) (hget : getAt (.dict cls kvs) q = some (.dict kcls nkvs))
    (hfirst : s.first) (hidx : ∀ e, s ≠ .idx e) (hsteps : ∀ x ∈ steps, x.later) (hg : GOk (s :: steps))
    (hnq : NoParenPos q) (hnp : ∀ x ∈ s :: steps, NoParen x.nameOf)
    (hcreate : createIn (.dict kcls nkvs) (s :: steps) v = some cur')
    (hset : setAt (.dict cls kvs) q cur' = some t')
    (hf : fuel ≥ 4 * (q.length + 1)) (hf2 : fuel ≥ 2 * (q.length + steps.length + 1)) :
    let xp := slash ++ renderPos q ++ (s :: steps).flatMap renderCStep
    setItem fuel (.dict cls kvs) xp v = (t', .ok ()) ∧ getItem fuel t' (replace sNew sLast xp) = (t', .ok v) :=
  ⟨C03_create_partial cls kvs q kcls nkvs s steps v cur' t' fuel hp hget hfirst hidx hsteps hg hcreate hset hf,
   C03_read_back cls kvs q kcls nkvs s steps v cur' t' fuel hp hget hfirst hidx hsteps hnq hnp hcreate hset hf2⟩

/-- **full statement (no misplacement / no debris).**  A creation that is refused leaves the tree
as it was.  False on the pinned tree: see the two counter-examples. -/
def C03_err_leaves_tree_stmt : Prop :=
  ∀ (t t' v : Val) (xp : Str) (fuel : Nat) (e : PyErr), setItem fuel t xp v = (t', .error e) → t' = t

def exTree : Val := .dict .n0 [(['a'], .dict .n0 [])]

/-- C03-a: `d['a/b[new()][new()]'] = v` raises after having inserted `b: [None, []]`-style debris -/
theorem C03_debris_cex :
    setItem 40 exTree ['a', '/', 'b', '[', 'n', 'e', 'w', '(', ')', ']', '[', 'n', 'e', 'w', '(', ')', ']'] (.str ['V'])
      = (.dict .n0 [(['a'], .dict .n0 [(['b'], .list .n0 [.none, .list .n0 []])])], .error .TypeError) := by
  decide

theorem C03_err_leaves_tree_false : ¬ C03_err_leaves_tree_stmt := by
  intro h
  have := h _ _ _ _ _ _ C03_debris_cex
  revert this; decide

/-- C03-b: `d['c[new()][0]/m'] = v` does not raise and does not store `v` under `m` -/
theorem C03_misplaced_cex :
    setItem 40 exTree ['c', '[', 'n', 'e', 'w', '(', ')', ']', '[', '0', ']', '/', 'm'] (.str ['V'])
      = (.dict .n0 [(['a'], .dict .n0 []), (['c'], .list .n0 [.none, .list .n0 [.str ['V']]])], .ok ()) := by
  decide

/-- C03-c: `[new()]` directly below a list that is an element of a plain `list` raises `TypeError`
(`parent['[0]']` is an xpath lookup only on an `n0list`) -/
theorem C03_new_in_plain_list_cex :
    setItem 40 (.dict .n0 [(['x'], .list .plain [.list .plain []])])
        ['x', '[', '0', ']', '[', 'n', 'e', 'w', '(', ')', ']'] (.str ['V'])
      = (.dict .n0 [(['x'], .list .plain [.list .plain []])], .error .TypeError) := by
  decide

/-! ## Non-vacuity: the theorems instantiated on concrete trees (explicit char lists) -/

theorem pk_a : PlainKey ['a'] := ⟨by simp, by decide, by simp⟩
theorem pk_n : PlainKey ['n'] := ⟨by simp, by decide, by simp⟩
theorem pk_m : PlainKey ['m'] := ⟨by simp, by decide, by simp⟩
theorem pk_l : PlainKey ['l'] := ⟨by simp, by decide, by simp⟩
theorem pk_x : PlainKey ['x'] := ⟨by simp, by decide, by simp⟩
theorem pk_k : PlainKey ['k'] := ⟨by simp, by decide, by simp⟩

/-- a tree with a list `l`, a scalar `k` and an empty dict under `a` -/
def exTree2 : Val :=
  .dict .n0 [(['a'], .dict .n0 [(['l'], .list .n0 [.int 1]), (['k'], .str ['s'])])]

/-- `d['//a/n/m'] = 5` through `C03_create_names` -/
example : setItem 40 exTree2 ['/', '/', 'a', '/', 'n', '/', 'm'] (.int 5)
    = (.dict .n0 [(['a'], .dict .n0 [(['l'], .list .n0 [.int 1]), (['k'], .str ['s']),
        (['n'], .dict .n0 [(['m'], .int 5)])])], .ok ()) :=
  C03_create_names .n0 _ [.key ['a']] .n0 .n0 _ ['n'] [['m']] (.int 5) _ 40 ⟨pk_a, trivial⟩ rfl (by decide)
    pk_n (by intro m hm; simp at hm; subst hm; exact pk_m) (by decide) (by decide)

/-- `d['//a/l[new()]'] = 5` appends to the list (`C03_append_new`, list branch) -/
example : setItem 40 exTree2 ['/', '/', 'a', '/', 'l', '[', 'n', 'e', 'w', '(', ')', ']'] (.int 5)
    = (.dict .n0 [(['a'], .dict .n0 [(['l'], .list .n0 [.int 1, .int 5]), (['k'], .str ['s'])])], .ok ()) :=
  C03_append_new .n0 _ [.key ['a']] .n0 _ ['l'] (.list .n0 [.int 1]) [] (.int 5) _ 40 ⟨pk_a, trivial⟩ rfl pk_l
    (by decide) (by simp) (by decide) (by decide)

/-- `d['//a/k[new()]/x'] = 5` wraps the scalar and appends `{x: 5}` (`C03_append_new`, wrap branch, with a tail) -/
example : setItem 40 exTree2 ['/', '/', 'a', '/', 'k', '[', 'n', 'e', 'w', '(', ')', ']', '/', 'x'] (.int 5)
    = (.dict .n0 [(['a'], .dict .n0 [(['l'], .list .n0 [.int 1]),
        (['k'], .list .n0 [.str ['s'], .dict .n0 [(['x'], .int 5)]])])], .ok ()) :=
  C03_append_new .n0 _ [.key ['a']] .n0 _ ['k'] (.str ['s']) [['x']] (.int 5) _ 40 ⟨pk_a, trivial⟩ rfl pk_k
    (by decide) (by intro m hm; simp at hm; subst hm; exact pk_x) (by decide) (by decide)

/-- `d['//a/n[0]'] = 5` on a fresh name (`C03_new_on_fresh`) -/
example : setItem 40 exTree2 ['/', '/', 'a', '/', 'n', '[', '0', ']'] (.int 5)
    = (.dict .n0 [(['a'], .dict .n0 [(['l'], .list .n0 [.int 1]), (['k'], .str ['s']),
        (['n'], .list .n0 [.int 5])])], .ok ()) :=
  C03_new_on_fresh .n0 _ [.key ['a']] .n0 _ ['n'] ['0'] [] (.int 5) _ 40 ⟨pk_a, trivial⟩ rfl pk_n
    (Or.inr rfl) (by decide) (by simp) (by decide) (by decide)

/-- `d['//a/l[1]'] = 5` with `len = 1` (`C03_len_appends`) -/
example : setItem 40 exTree2 ['/', '/', 'a', '/', 'l', '[', '1', ']'] (.int 5)
    = (.dict .n0 [(['a'], .dict .n0 [(['l'], .list .n0 [.int 1, .int 5]), (['k'], .str ['s'])])], .ok ()) :=
  C03_len_appends .n0 _ [.key ['a']] .n0 _ ['l'] .n0 [.int 1] [] (.int 5) _ 40 ⟨pk_a, trivial⟩ rfl pk_l
    (by decide) (by simp) (by decide) (by decide)

/-- read-back through `last()` (`C03_read_back_elem`) -/
example : (getItem 40 (.dict .n0 [(['a'], .dict .n0 [(['l'], .list .n0 [.int 1, .int 5]), (['k'], .str ['s'])])])
    ['/', '/', 'a', '/', 'l', '[', 'l', 'a', 's', 't', '(', ')', ']']).2 = .ok (.int 5) := by
  have := C03_read_back_elem .n0 _ [.key ['a']] .n0 _ ['l'] .n0 [.int 1] [] (.int 5)
    (.dict .n0 [(['a'], .dict .n0 [(['l'], .list .n0 [.int 1, .int 5]), (['k'], .str ['s'])])]) 40 ⟨pk_a, trivial⟩
    (rfl : getAt exTree2 _ = _) pk_l (by simp) (by decide) (by decide)
  exact congrArg Prod.snd this

/-- `d['//a/n/m[new()]/x'] = 5`: names, then an element-creating step, then a name (`C03_create_partial`) -/
example : setItem 40 exTree2 ['/', '/', 'a', '/', 'n', '/', 'm', '[', 'n', 'e', 'w', '(', ')', ']', '/', 'x'] (.int 5)
    = (.dict .n0 [(['a'], .dict .n0 [(['l'], .list .n0 [.int 1]), (['k'], .str ['s']),
        (['n'], .dict .n0 [(['m'], .list .n0 [.dict .n0 [(['x'], .int 5)]])])])], .ok ()) :=
  C03_create_partial .n0 _ [.key ['a']] .n0 _ (.name ['n']) [.elem ['m'] ['n', 'e', 'w', '(', ')'], .name ['x']] (.int 5) _ _ 40
    ⟨pk_a, trivial⟩ rfl pk_n (by intro e h; cases h)
    (by intro x hx; simp at hx; rcases hx with rfl | rfl
        · exact ⟨pk_m, Or.inl (by decide)⟩
        · exact pk_x)
    (by simp [GOk, CStep.isName]) rfl (by decide) (by decide)

/-- `d['//a/k[new()]/x/l[0]'] = 5`: wrap, name, fresh one-element list (`C03_create_partial`) -/
example : setItem 40 exTree2 ['/', '/', 'a', '/', 'k', '[', 'n', 'e', 'w', '(', ')', ']', '/', 'x', '/', 'l', '[', '0', ']'] (.int 5)
    = (.dict .n0 [(['a'], .dict .n0 [(['l'], .list .n0 [.int 1]),
        (['k'], .list .n0 [.str ['s'], .dict .n0 [(['x'], .dict .n0 [(['l'], .list .n0 [.int 5])])]])])], .ok ()) :=
  C03_create_partial .n0 _ [.key ['a']] .n0 _ (.elem ['k'] ['n', 'e', 'w', '(', ')']) [.name ['x'], .elem ['l'] ['0']] (.int 5) _ _ 40
    ⟨pk_a, trivial⟩ rfl pk_k (by intro e h; cases h)
    (by intro x hx; simp at hx; rcases hx with rfl | rfl
        · exact pk_x
        · exact ⟨pk_l, Or.inr rfl⟩)
    (by simp [GOk, CStep.isName]) rfl (by decide) (by decide)

/-- read-back of `d['//a/k[new()]/x/l[0]'] = 5` through `'//a/k[last()]/x/l[0]'` (`C03_read_back`: wrap,
name, fresh one-element list) -/
theorem np (c : Char) (h : c ≠ '(' := by decide) : NoParen [c] := by
  intro x hx; simp at hx; subst hx; exact h
example : replace sNew sLast ['/', '/', 'a', '/', 'k', '[', 'n', 'e', 'w', '(', ')', ']', '/', 'x', '/', 'l', '[', '0', ']']
    = ['/', '/', 'a', '/', 'k', '[', 'l', 'a', 's', 't', '(', ')', ']', '/', 'x', '/', 'l', '[', '0', ']'] := by decide
example : getItem 40 (.dict .n0 [(['a'], .dict .n0 [(['l'], .list .n0 [.int 1]),
        (['k'], .list .n0 [.str ['s'], .dict .n0 [(['x'], .dict .n0 [(['l'], .list .n0 [.int 5])])]])])])
      (replace sNew sLast
        ['/', '/', 'a', '/', 'k', '[', 'n', 'e', 'w', '(', ')', ']', '/', 'x', '/', 'l', '[', '0', ']'])
    = (.dict .n0 [(['a'], .dict .n0 [(['l'], .list .n0 [.int 1]),
        (['k'], .list .n0 [.str ['s'], .dict .n0 [(['x'], .dict .n0 [(['l'], .list .n0 [.int 5])])]])])], .ok (.int 5)) :=
  C03_read_back .n0 _ [.key ['a']] .n0 _ (.elem ['k'] ['n', 'e', 'w', '(', ')']) [.name ['x'], .elem ['l'] ['0']] (.int 5) _ _ 40
    ⟨pk_a, trivial⟩ (rfl : getAt exTree2 _ = _) pk_k (by intro e h; cases h)
    (by intro x hx; simp at hx; rcases hx with rfl | rfl
        · exact pk_x
        · exact ⟨pk_l, Or.inr rfl⟩)
    ⟨np 'a', trivial⟩
    (by intro x hx; simp at hx; rcases hx with rfl | rfl | rfl
        · exact np 'k'
        · exact np 'x'
        · exact np 'l')
    rfl (by decide) (by decide)

/-- read-back of `d['//a/n/m[new()]/x'] = 5` through `'//a/n/m[last()]/x'` (names, element, name) -/
example : getItem 40 (.dict .n0 [(['a'], .dict .n0 [(['l'], .list .n0 [.int 1]), (['k'], .str ['s']),
        (['n'], .dict .n0 [(['m'], .list .n0 [.dict .n0 [(['x'], .int 5)]])])])])
      (replace sNew sLast ['/', '/', 'a', '/', 'n', '/', 'm', '[', 'n', 'e', 'w', '(', ')', ']', '/', 'x'])
    = (.dict .n0 [(['a'], .dict .n0 [(['l'], .list .n0 [.int 1]), (['k'], .str ['s']),
        (['n'], .dict .n0 [(['m'], .list .n0 [.dict .n0 [(['x'], .int 5)]])])])], .ok (.int 5)) :=
  C03_read_back .n0 _ [.key ['a']] .n0 _ (.name ['n']) [.elem ['m'] ['n', 'e', 'w', '(', ')'], .name ['x']] (.int 5) _ _ 40
    ⟨pk_a, trivial⟩ (rfl : getAt exTree2 _ = _) pk_n (by intro e h; cases h)
    (by intro x hx; simp at hx; rcases hx with rfl | rfl
        · exact ⟨pk_m, Or.inl (by decide)⟩
        · exact pk_x)
    ⟨np 'a', trivial⟩
    (by intro x hx; simp at hx; rcases hx with rfl | rfl | rfl
        · exact np 'n'
        · exact np 'm'
        · exact np 'x')
    rfl (by decide) (by decide)

/-- outside the honoured grammar the unrestricted `C03_read_back_stmt` fails (at fuel 40): after the
silent misplacement of C03-b (`C03_misplaced_cex`) the value does not read back -/
example : (getItem 40 (.dict .n0 [(['a'], .dict .n0 []), (['c'], .list .n0 [.none, .list .n0 [.str ['V']]])])
      (replace sNew sLast ['c', '[', 'n', 'e', 'w', '(', ')', ']', '[', '0', ']', '/', 'm'])).2 ≠ .ok (.str ['V']) := by
  decide

/-- lists inside lists: `x` is an `n0list` holding an `n0list`, `p` a plain list holding a plain list -/
def exTree3 : Val :=
  .dict .n0 [(['x'], .list .n0 [.list .n0 [.int 1]]), (['p'], .list .plain [.list .plain []])]
theorem pk_p : PlainKey ['p'] := ⟨by simp, by decide, by simp⟩

/-- `d['//x[0][new()]'] = 5` appends to the inner list (`C03_append_new_in_n0list`) -/
example : setItem 40 exTree3 ['/', '/', 'x', '[', '0', ']', '[', 'n', 'e', 'w', '(', ')', ']'] (.int 5)
    = (.dict .n0 [(['x'], .list .n0 [.list .n0 [.int 1, .int 5]]), (['p'], .list .plain [.list .plain []])], .ok ()) :=
  C03_append_new_in_n0list .n0 _ [.key ['x']] 0 [.list .n0 [.int 1]] .n0 [.int 1] [] (.int 5) _ 40 ⟨pk_x, trivial⟩
    rfl rfl (by simp) trivial (by decide) (by decide)

/-- `d['//p[0][0]'] = 5` (`len = 0`) appends below a *plain* list (`C03_len_in_list`) -/
example : setItem 40 exTree3 ['/', '/', 'p', '[', '0', ']', '[', '0', ']'] (.int 5)
    = (.dict .n0 [(['x'], .list .n0 [.list .n0 [.int 1]]), (['p'], .list .plain [.list .plain [.int 5]])], .ok ()) :=
  C03_len_in_list .n0 _ [.key ['p']] 0 .plain [.list .plain []] .plain [] [] (.int 5) _ 40 ⟨pk_p, trivial⟩
    rfl rfl (by simp) trivial (by decide) (by decide)

/-- `d['//x[0][new()]/m'] = 5`: bare `[new()]` first step followed by a name (`C03_create`; the
enclosing list is an `n0list`) -/
example : setItem 40 exTree3 ['/', '/', 'x', '[', '0', ']', '[', 'n', 'e', 'w', '(', ')', ']', '/', 'm'] (.int 5)
    = (.dict .n0 [(['x'], .list .n0 [.list .n0 [.int 1, .dict .n0 [(['m'], .int 5)]]]),
        (['p'], .list .plain [.list .plain []])], .ok ()) :=
  C03_create .n0 _ [.key ['x'], .idx 0] (.list .n0 [.int 1]) _ (.idx ['n', 'e', 'w', '(', ')']) [.name ['m']] (.int 5) _ 40
    ⟨pk_x, trivial⟩ rfl trivial (by intro x hx; simp at hx; subst hx; exact pk_m) (by simp [GOk, CStep.isName])
    rfl (by decide)
    (by
      rintro _ ⟨q0, i, ys, hq, hg⟩
      obtain ⟨rfl, hi⟩ := List.append_inj' (show [Seg.key ['x']] ++ [Seg.idx 0] = q0 ++ [Seg.idx i] from hq) rfl
      simp [getAt, child, lookup] at hg)
    (by decide)

/-- … and its read-back through `'//x[0][last()]/m'` (`C03_read_back_any`) -/
example : getItem 40 (.dict .n0 [(['x'], .list .n0 [.list .n0 [.int 1, .dict .n0 [(['m'], .int 5)]]]),
        (['p'], .list .plain [.list .plain []])])
      (replace sNew sLast ['/', '/', 'x', '[', '0', ']', '[', 'n', 'e', 'w', '(', ')', ']', '/', 'm'])
    = (.dict .n0 [(['x'], .list .n0 [.list .n0 [.int 1, .dict .n0 [(['m'], .int 5)]]]),
        (['p'], .list .plain [.list .plain []])], .ok (.int 5)) :=
  C03_read_back_any .n0 _ [.key ['x'], .idx 0] (.list .n0 [.int 1]) _ (.idx ['n', 'e', 'w', '(', ')']) [.name ['m']] (.int 5) _ 40
    ⟨pk_x, trivial⟩ (rfl : getAt exTree3 _ = _) trivial (by intro x hx; simp at hx; subst hx; exact pk_m)
    ⟨np 'x', trivial⟩
    (by intro x hx; simp at hx; rcases hx with rfl | rfl
        · intro c hc; simp [CStep.nameOf] at hc
        · exact np 'm')
    rfl (by decide) (by decide)

/-- `d['//x[new()]'] = 5`: bare `[new()]` below a list held by a key (`C03_create`, the text of `x[new()]`) -/
example : setItem 40 exTree3 ['/', '/', 'x', '[', 'n', 'e', 'w', '(', ')', ']'] (.int 5)
    = (.dict .n0 [(['x'], .list .n0 [.list .n0 [.int 1], .int 5]), (['p'], .list .plain [.list .plain []])], .ok ()) :=
  C03_create .n0 _ [.key ['x']] (.list .n0 [.list .n0 [.int 1]]) _ (.idx ['n', 'e', 'w', '(', ')']) [] (.int 5) _ 40
    ⟨pk_x, trivial⟩ rfl trivial (by simp) trivial rfl (by decide)
    (by
      rintro _ ⟨q0, i, ys, hq, _⟩
      have := (List.append_inj' (show [] ++ [Seg.key ['x']] = q0 ++ [Seg.idx i] from hq) rfl).2
      cases this)
    (by decide)

/-- `d['//p[0][new()]'] = 5` raises: the general form of C03-c on this tree (`C03_new_in_plain_list_raises`) -/
example : setItem 40 exTree3 ['/', '/', 'p', '[', '0', ']', '[', 'n', 'e', 'w', '(', ')', ']'] (.int 5)
    = (exTree3, .error .TypeError) :=
  C03_new_in_plain_list_raises .n0 _ [.key ['p']] 0 [.list .plain []] .plain [] [] (.int 5) 40 ⟨pk_p, trivial⟩
    rfl rfl (by simp) (by decide)

/-- creations the code honours, evaluated directly (relative spellings as a user writes them) -/
example : setItem 40 exTree ['a', '/', 'n', '/', 'm'] (.int 5)
    = (.dict .n0 [(['a'], .dict .n0 [(['n'], .dict .n0 [(['m'], .int 5)])])], .ok ()) := by decide
example : setItem 40 exTree ['a', '/', 'l', '[', 'n', 'e', 'w', '(', ')', ']'] (.int 5)
    = (.dict .n0 [(['a'], .dict .n0 [(['l'], .list .n0 [.int 5])])], .ok ()) := by decide
example : setItem 40 exTree ['a', '/', 'l', '[', 'n', 'e', 'w', '(', ')', ']', '/', 'x'] (.int 5)
    = (.dict .n0 [(['a'], .dict .n0 [(['l'], .list .n0 [.dict .n0 [(['x'], .int 5)]])])], .ok ()) := by decide
/-- the reference semantics of the full statement on a mixed path `n/m[new()]/x` -/
example : createIn (.dict .n0 []) [.name ['n'], .elem ['m'] sNew, .name ['x']] (.int 5)
    = some (.dict .n0 [(['n'], .dict .n0 [(['m'], .list .n0 [.dict .n0 [(['x'], .int 5)]])])]) := by decide
example : (setItem 40 exTree ['a', '/', 'n', '/', 'm', '[', 'n', 'e', 'w', '(', ')', ']', '/', 'x'] (.int 5)).1
    = .dict .n0 [(['a'], .dict .n0 [(['n'], .dict .n0 [(['m'], .list .n0 [.dict .n0 [(['x'], .int 5)]])])])] := by decide

/-! ## 6. histories: creations interleaved with C02 writes and C05 deletions

`Hist.Op` is one call: a write to an existing node, a creation by a `CStep` path below an existing
dict node, a `delete` (with or without `recursively`) or a `pop` of an existing node — each with the
canonical path text of the node **in the state the call is made in**.  `Hist.applyOp` is the plain
nested dict/list model (`setAt`, `createIn`, `delAt`, `pruneUp`); `Hist.runOp` is the call through
`__setitem__` / `delete` / `pop`.  `Hist.ValidOps t ops` says that every operation is inside the
quantifier of C02/C03/C05 in the state it is applied to (the path is made of plain names, the
addressed node exists, `createIn` is defined).  Nothing is asked of the keys *inside* the tree or
inside written values: only the paths of the operations must be plain. -/

/-- **C03 (histories).**  After any finite interleaving of creations with C02 writes and C05
deletions/pops the tree equals the plain model that applied the same operations, no call raises,
and every `pop` returned the node it removed (`obs`). -/
theorem C03_history (fuel : Nat) (ops : List Hist.Op) (cls : Cls) (kvs : List (Str × Val))
    (hv : Hist.ValidOps (.dict cls kvs) ops) (hf : ∀ op ∈ ops, fuel ≥ Hist.opFuel op) :
    ∃ t' obs, Hist.applyOps (.dict cls kvs) ops = some (t', obs) ∧
      Hist.runOps fuel (.dict cls kvs) ops = (t', .ok obs) :=
  Hist.history fuel ops cls kvs hv hf

/-- one call of a history, on its own: model = reference, nothing raised -/
theorem C03_history_step (cls : Cls) (kvs : List (Str × Val)) (op : Hist.Op) (t' : Val) (fuel : Nat)
    (hv : Hist.ValidOp (.dict cls kvs) op) (ha : Hist.applyOp (.dict cls kvs) op = some t')
    (hf : fuel ≥ Hist.opFuel op) :
    Hist.runOp fuel (.dict cls kvs) op = (t', .ok (Hist.obsOp (.dict cls kvs) op)) :=
  Hist.runOp_ok cls kvs op t' fuel hv ha hf

/-- the root stays a dictionary of the same class along a history -/
theorem C03_history_root (cls : Cls) (kvs : List (Str × Val)) (op : Hist.Op) (t' : Val)
    (hv : Hist.ValidOp (.dict cls kvs) op) (ha : Hist.applyOp (.dict cls kvs) op = some t') :
    ∃ kvs', t' = .dict cls kvs' :=
  Hist.applyOp_dict_root cls kvs op t' hv ha

/-! Non-vacuity: a history with all kinds of call on `exTree2`
(`{a: {l: [1], k: 's'}}`):
1. `d['//a/n/m[new()]/x'] = 5` (creation: names, element, name),
2. `d['//a/l[0]'] = 7` (C02 write),
3. `d.delete('//a/n/m[0]/x', recursively=True)` (removes `x`, then the emptied dict `m[0]`; the list `m` stays),
4. `d.pop('//a/k', 'D')` (returns `'s'`),
5. `d['//a/k[new()]'] = 9` (creation on the name that has just been removed),
6. `d['//a/l[new()]'] = 8` (bare `[new()]` first step below the list `l`). -/
def exHistory : List Hist.Op :=
  [ .create [.key ['a']] (.name ['n']) [.elem ['m'] ['n', 'e', 'w', '(', ')'], .name ['x']] (.int 5),
    .write [.key ['a'], .key ['l'], .idx 0] (.int 7),
    .del [.key ['a'], .key ['n'], .key ['m'], .idx 0, .key ['x']] true,
    .pop [.key ['a'], .key ['k']] (.str ['D']) false,
    .create [.key ['a']] (.elem ['k'] ['n', 'e', 'w', '(', ')']) [] (.int 9),
    .create [.key ['a'], .key ['l']] (.idx ['n', 'e', 'w', '(', ')']) [] (.int 8) ]

theorem exHistory_valid : Hist.ValidOps exTree2 exHistory := by
  refine .cons (t' := .dict .n0 [(['a'], .dict .n0 [(['l'], .list .n0 [.int 1]), (['k'], .str ['s']),
      (['n'], .dict .n0 [(['m'], .list .n0 [.dict .n0 [(['x'], .int 5)]])])])]) ?_ (by decide) ?_
  · refine ⟨⟨pk_a, trivial⟩, pk_n, ?_, by simp [GOk, CStep.isName], (by intro h; cases h)⟩
    intro x hx; simp at hx; rcases hx with rfl | rfl
    · exact ⟨pk_m, Or.inl (by decide)⟩
    · exact pk_x
  refine .cons (t' := .dict .n0 [(['a'], .dict .n0 [(['l'], .list .n0 [.int 7]), (['k'], .str ['s']),
      (['n'], .dict .n0 [(['m'], .list .n0 [.dict .n0 [(['x'], .int 5)]])])])]) ?_ (by decide) ?_
  · exact ⟨⟨pk_a, pk_l, trivial⟩, by simp, _, rfl⟩
  refine .cons (t' := .dict .n0 [(['a'], .dict .n0 [(['l'], .list .n0 [.int 7]), (['k'], .str ['s']),
      (['n'], .dict .n0 [(['m'], .list .n0 [])])])]) ?_ (by decide) ?_
  · exact ⟨⟨pk_a, pk_n, pk_m, pk_x, trivial⟩, by simp, _, rfl⟩
  refine .cons (t' := .dict .n0 [(['a'], .dict .n0 [(['l'], .list .n0 [.int 7]),
      (['n'], .dict .n0 [(['m'], .list .n0 [])])])]) ?_ (by decide) ?_
  · exact ⟨⟨pk_a, pk_k, trivial⟩, by simp, _, rfl⟩
  refine .cons (t' := .dict .n0 [(['a'], .dict .n0 [(['l'], .list .n0 [.int 7]),
      (['n'], .dict .n0 [(['m'], .list .n0 [])]), (['k'], .list .n0 [.int 9])])]) ?_ (by decide) ?_
  · exact ⟨⟨pk_a, trivial⟩, pk_k, by simp, by simp [GOk], (by intro h; cases h)⟩
  refine .cons (t' := .dict .n0 [(['a'], .dict .n0 [(['l'], .list .n0 [.int 7, .int 8]),
      (['n'], .dict .n0 [(['m'], .list .n0 [])]), (['k'], .list .n0 [.int 9])])]) ?_ (by decide) (.nil _)
  · refine ⟨⟨pk_a, pk_l, trivial⟩, trivial, by simp, by simp [GOk], ?_⟩
    rintro _ ⟨q0, i, ys, hq, _⟩
    have := (List.append_inj' (show [Seg.key ['a']] ++ [Seg.key ['l']] = q0 ++ [Seg.idx i] from hq) rfl).2
    cases this

/-- the model run of that history, evaluated: final tree and what the calls returned -/
example : Hist.runOps 40 exTree2 exHistory
    = (.dict .n0 [(['a'], .dict .n0 [(['l'], .list .n0 [.int 7, .int 8]),
        (['n'], .dict .n0 [(['m'], .list .n0 [])]), (['k'], .list .n0 [.int 9])])],
       .ok [Option.none, Option.none, Option.none, some (.str ['s']), Option.none, Option.none]) := by decide
/-- … and the same through the theorem -/
example : ∃ t' obs, Hist.applyOps exTree2 exHistory = some (t', obs) ∧
    Hist.runOps 40 exTree2 exHistory = (t', .ok obs) :=
  C03_history 40 exHistory .n0 _ exHistory_valid (by decide)
/-- the path texts the six calls are made with -/
example : exHistory.map Hist.opPath =
    [['/', '/', 'a', '/', 'n', '/', 'm', '[', 'n', 'e', 'w', '(', ')', ']', '/', 'x'],
     ['/', '/', 'a', '/', 'l', '[', '0', ']'],
     ['/', '/', 'a', '/', 'n', '/', 'm', '[', '0', ']', '/', 'x'],
     ['/', '/', 'a', '/', 'k'],
     ['/', '/', 'a', '/', 'k', '[', 'n', 'e', 'w', '(', ')', ']'],
     ['/', '/', 'a', '/', 'l', '[', 'n', 'e', 'w', '(', ')', ']']] := by decide

end N0.C03
