import N0Verif.Proofs.XPathCreate
import N0Verif.Proofs.XPathHistory
import N0Verif.Proofs.XPathCreate2
import N0Verif.Proofs.XPathPureApi
import N0Verif.Proofs.XPathHidden
import N0Verif.Proofs.XPathHiddenCreate
/-!
# C03 — assigning to a missing xpath creates exactly the missing chain; `new()` appends

`setItem` is the model of `__setitem__` (with `_add`); it returns the tree after the call and
whether the call raised — a refused creation takes back what `_add` had already inserted (fix C03-a).
The model follows the code with the fix patches C03-a, C03-b, C03-c, C04-a, C03-e applied.

Reference semantics: `Val.setAt t p x` ("the original with exactly the slot `p` replaced/inserted"),
`chain ns v` (nested dictionaries for a chain of names), `appendTo old x` (a list gets one more
element, a non-list value becomes the first element of a new list).  Paths are written in the
canonical `//…` form `xpath()` lists (`slash ++ renderPos q` is the path of the existing node `q`).

All theorems are unbounded in the size of the tree, the depth of `q` and the length of the chain.
-/
namespace N0.C03
open N0 N0.Py N0.Val N0.XPath

/-! ## 1. what `_find` reports for the miss -/

/-- **miss at a plain key.**  A token list that spells position `q` of the root (a dict), followed by
a plain key that dict does not have: `_find` returns NOT FOUND with the parent reference at `q`, no
name, the missing suffix — and the tree untouched. -/
theorem C03_find_miss_key (t : Val) (rl : Bool) (toks0 : List Str) (q : Pos) (cls : Cls) (kvs : List (Str × Val))
    (n : Str) (rest : List Str) (hs : Spells toks0 t q (.dict cls kvs)) (hk : KeyTok n)
    (hl : lookup n kvs = Option.none) (fuel : Nat) (hf : fuel ≥ 2 * toks0.length + 1) :
    ∃ fnd, findD fuel t [] false true (toks0 ++ n :: rest) (.at []) rl slash
      = .ok (t, { parent := .at q, nameIdx := Option.none, value := Val.none, found := fnd,
                  notFound := some (n :: rest) }) :=
  find_miss_key t rl toks0 q cls kvs n rest hs hk hl fuel hf

/-- **miss at `name[idx]`** whose name is absent (whatever the index text: `new()`, `0`, …). -/
theorem C03_find_miss_keyidx (t : Val) (rl : Bool) (toks0 : List Str) (q : Pos) (cls : Cls)
    (kvs : List (Str × Val)) (name e : Str) (rest : List Str) (hs : Spells toks0 t q (.dict cls kvs))
    (hn : PlainKey name) (he : IdxExpr e) (hl : lookup name kvs = Option.none) (fuel : Nat)
    (hf : fuel ≥ 2 * toks0.length + 1) :
    ∃ fnd, findD fuel t [] false true (toks0 ++ (name ++ bracket e) :: rest) (.at []) rl slash
      = .ok (t, { parent := .at q, nameIdx := Option.none, value := Val.none, found := fnd,
                  notFound := some ((name ++ bracket e) :: rest) }) :=
  find_miss_keyidx t rl toks0 q cls kvs _ name e rest hs (split_bracket name e (Or.inr hn) he) hn.ne hn.notUp
    hn.keyTok.notStar hl fuel hf

/-! ## 2. a chain of fresh names -/

/-- **full statement (names).**  Below an existing dict node at `q`, a chain of fresh plain names
`n :: ns` creates exactly the nested dictionaries and stores `v` at the end; nothing else changes. -/
def C03_create_names_stmt : Prop :=
  ∀ (cls : Cls) (kvs : List (Str × Val)) (q : Pos) (_c kcls : Cls) (nkvs : List (Str × Val))
    (n : Str) (ns : List Str) (v t' : Val) (fuel : Nat),
    PlainPos q → getAt (.dict cls kvs) q = some (.dict kcls nkvs) → lookup n nkvs = Option.none →
    PlainKey n → (∀ m ∈ ns, PlainKey m) →
    setAt (.dict cls kvs) (q ++ [.key n]) (chain ns v) = some t' →
    fuel ≥ 2 * (q.length + ns.length + 1) →
    setItem fuel (.dict cls kvs) (slash ++ renderPos (q ++ (n :: ns).map Seg.key)) v = (t', .ok ())

/-- **C03 (names), proved.** -/
theorem C03_create_names : C03_create_names_stmt := by
  intro cls kvs q _ kcls nkvs n ns v t' fuel hp hget hl hn hns hset hf
  exact setItem_create_names cls kvs q kcls nkvs n ns v t' fuel hp hget hl hn hns hset (by omega)

/-- the creation always has a result: the reference tree exists whenever the parent does -/
theorem C03_create_names_total (t : Val) (q : Pos) (kcls : Cls) (nkvs : List (Str × Val)) (n : Str) (x : Val)
    (hget : getAt t q = some (.dict kcls nkvs)) : ∃ t', setAt t (q ++ [.key n]) x = some t' := by
  obtain ⟨t', ht'⟩ := setAt_isSome q t _ (.dict kcls (kvSet n x nkvs)) hget
  exact ⟨t', by rw [setAt_snoc q t (.key n) x _ (.dict kcls (kvSet n x nkvs)) hget (by simp [setChild])]; exact ht'⟩

/-! ## 3. element-creating steps: `name[new()]`, `name[0]`, `name[len]`, each optionally followed by
fresh names (`name[new()]/x/y` appends the dict `{x: {y: v}}`) -/

/-- **`name[new()]` appends exactly one element** to the list under `name`; where `name` holds a
non-list value that value is wrapped as the first element (`[old, v]`). -/
theorem C03_append_new (cls : Cls) (kvs : List (Str × Val)) (q : Pos) (kcls : Cls)
    (nkvs : List (Str × Val)) (name : Str) (old : Val) (tail : List Str) (v t' : Val) (fuel : Nat)
    (hp : PlainPos q) (hget : getAt (.dict cls kvs) q = some (.dict kcls nkvs)) (hn : PlainKey name)
    (hl : lookup name nkvs = some old) (ht : ∀ x ∈ tail, PlainKey x)
    (hset : setAt (.dict cls kvs) (q ++ [.key name]) (appendTo old (chain tail v)) = some t')
    (hf : fuel ≥ 4 * (q.length + 1)) :
    setItem fuel (.dict cls kvs)
      (slash ++ renderPos q ++ slash ++ (name ++ bracket sNew) ++ renderPos (tail.map Seg.key)) v = (t', .ok ()) :=
  setItem_new_existing cls kvs q kcls nkvs name old tail v t' fuel hp hget hn hl ht hset hf

/-- `appendTo` on a list is one more element at the end (so `len` grows by exactly one) … -/
theorem C03_appendTo_list (c : Cls) (xs : List Val) (x : Val) : appendTo (.list c xs) x = .list c (xs ++ [x]) := rfl
/-- … and on anything else the two-element list `[old, x]` -/
theorem C03_appendTo_wrap (old x : Val) (h : isList old = false) : appendTo old x = .list .n0 [old, x] :=
  appendTo_nonlist h x

/-- **`name[new()]` / `name[0]` on a fresh name** creates the one-element list. -/
theorem C03_new_on_fresh (cls : Cls) (kvs : List (Str × Val)) (q : Pos) (kcls : Cls)
    (nkvs : List (Str × Val)) (name e : Str) (tail : List Str) (v t' : Val) (fuel : Nat)
    (hp : PlainPos q) (hget : getAt (.dict cls kvs) q = some (.dict kcls nkvs)) (hn : PlainKey name)
    (he : e = sNew ∨ e = ['0']) (hl : lookup name nkvs = Option.none) (ht : ∀ x ∈ tail, PlainKey x)
    (hset : setAt (.dict cls kvs) (q ++ [.key name]) (.list .n0 [chain tail v]) = some t')
    (hf : fuel ≥ 2 * q.length + 1) :
    setItem fuel (.dict cls kvs)
      (slash ++ renderPos q ++ slash ++ (name ++ bracket e) ++ renderPos (tail.map Seg.key)) v = (t', .ok ()) :=
  setItem_elem_fresh cls kvs q kcls nkvs name e tail v t' fuel hp hget hn he hl ht hset hf

/-- **`name[len]` on an existing list of length `len`** appends exactly one element. -/
theorem C03_len_appends (cls : Cls) (kvs : List (Str × Val)) (q : Pos) (kcls : Cls)
    (nkvs : List (Str × Val)) (name : Str) (c : Cls) (xs : List Val) (tail : List Str) (v t' : Val) (fuel : Nat)
    (hp : PlainPos q) (hget : getAt (.dict cls kvs) q = some (.dict kcls nkvs)) (hn : PlainKey name)
    (hl : lookup name nkvs = some (.list c xs)) (ht : ∀ x ∈ tail, PlainKey x)
    (hset : setAt (.dict cls kvs) (q ++ [.key name]) (.list c (xs ++ [chain tail v])) = some t')
    (hf : fuel ≥ 2 * q.length + 2) :
    setItem fuel (.dict cls kvs)
      (slash ++ renderPos q ++ slash ++ (name ++ bracket (natStr xs.length)) ++ renderPos (tail.map Seg.key)) v
      = (t', .ok ()) :=
  setItem_len_existing cls kvs q kcls nkvs name c xs tail v t' fuel hp hget hn hl ht hset hf

/-! ## 4. frame and read-back -/

/-- **frame (names, fresh element list).**  The created slot `w` did not exist; every node that
existed keeps its position and value, except the ancestors of the new slot (which contain it). -/
theorem C03_frame_new_slot (t t' v x : Val) (w p : Pos) (hset : setAt t w v = some t')
    (hnew : getAt t w = Option.none) (hp : getAt t p = some x) (hnp : ¬ p <+: w) : getAt t' p = some x :=
  frame_new_slot t t' v x w p hset hnew hp hnp

/-- the slot a fresh name addresses does not exist before -/
theorem C03_fresh_slot (t : Val) (q : Pos) (kcls : Cls) (nkvs : List (Str × Val)) (n : Str)
    (hget : getAt t q = some (.dict kcls nkvs)) (hl : lookup n nkvs = Option.none) :
    getAt t (q ++ [.key n]) = Option.none := by
  rw [getAt_snoc, hget]; simp [child, hl]

/-- **frame (append).**  Appending to the list at `P` keeps every node that existed (also every
element of the list and everything below them) except the ancestors of the list. -/
theorem C03_frame_append (t t' : Val) (P : Pos) (c : Cls) (xs : List Val) (z x : Val) (p : Pos)
    (hset : setAt t P (.list c (xs ++ [z])) = some t') (hP : getAt t P = some (.list c xs))
    (hp : getAt t p = some x) (hnp : ¬ p <+: P) : getAt t' p = some x :=
  frame_append t t' P c xs z x p hset hP hp hnp

/-- **frame (wrap).**  Nodes outside the wrapped value keep their position; the wrapped value and
everything inside it moves below index 0. -/
theorem C03_frame_wrap (t t' : Val) (P : Pos) (old z x : Val) (p : Pos)
    (hset : setAt t P (.list .n0 [old, z]) = some t') (hP : getAt t P = some old) (hp : getAt t p = some x) :
    (¬ p <+: P → ¬ P <+: p → getAt t' p = some x) ∧ (∀ r, p = P ++ r → getAt t' (P ++ .idx 0 :: r) = some x) :=
  frame_wrap t t' P old z x p hset hP hp

/-- **read-back (names).**  `d[xpath]` is `v` afterwards, and reading does not change the tree. -/
theorem C03_read_back_names (cls : Cls) (kvs : List (Str × Val)) (q : Pos) (n : Str) (ns : List Str) (v t' : Val)
    (fuel : Nat) (hp : PlainPos q) (hn : PlainKey n) (hns : ∀ m ∈ ns, PlainKey m)
    (hset : setAt (.dict cls kvs) (q ++ [.key n]) (chain ns v) = some t')
    (hf : fuel ≥ 2 * (q.length + ns.length + 1)) :
    getItem fuel t' (slash ++ renderPos (q ++ (n :: ns).map Seg.key)) = (t', .ok v) :=
  readback_names cls kvs q n ns v t' fuel hp hn hns hset hf

/-- **read-back (elements).**  After `name[new()]…`, `name[0]…` (fresh name: `ys = []`),
`name[len]…` (`ys` = the old elements) or the wrap (`ys = [old]`), the value reads back through the
path with the index replaced by `last()`. -/
theorem C03_read_back_elem (cls : Cls) (kvs : List (Str × Val)) (q : Pos) (kcls : Cls) (nkvs : List (Str × Val))
    (name : Str) (c : Cls) (ys : List Val) (tail : List Str) (v t' : Val) (fuel : Nat)
    (hp : PlainPos q) (hget : getAt (.dict cls kvs) q = some (.dict kcls nkvs)) (hn : PlainKey name)
    (ht : ∀ x ∈ tail, PlainKey x)
    (hset : setAt (.dict cls kvs) (q ++ [.key name]) (.list c (ys ++ [chain tail v])) = some t')
    (hf : fuel ≥ 2 * (q.length + tail.length + 1)) :
    getItem fuel t'
      (slash ++ renderPos q ++ slash ++ (name ++ bracket sLast) ++ renderPos (tail.map Seg.key)) = (t', .ok v) :=
  readback_elem cls kvs q kcls nkvs name c ys tail v t' fuel hp hget hn ht hset hf

/-! ## 5. every path of the creation grammar -/

/-- **full statement (every creation path).**  `steps` is a creation path below the existing node
`cur` at `q`: the first step may be a fresh name, `n[new()]` (fresh or existing `n`), `n[0]` (fresh),
`n[len]`, or — below a list — `[new()]`/`[len]`; later steps are fresh names, `n[new()]`, `n[0]` and
(after an element-creating step) `[new()]`, `[0]` (`CStep.laterW`), in any order and number — `GW` only
asks that a bare index step is not written directly after a *name* step (that text is the step `n[e]`).
Then `d[path] = v` yields exactly `createIn` and nothing raises.

Proved: `C03_create_full`.  (Before the fixes the statement had to exclude element-creating steps that
follow one another — findings C03-a/C03-b — and a bare `[new()]` below an element of a plain `list` —
finding C03-c.) -/
def C03_create_stmt : Prop :=
  ∀ (cls : Cls) (kvs : List (Str × Val)) (q : Pos) (cur cur' : Val) (s : CStep) (steps : List CStep) (v t' : Val),
    PlainPos q → getAt (.dict cls kvs) q = some cur → s.first → (∀ x ∈ steps, x.laterW) → GW (s :: steps) →
    createIn cur (s :: steps) v = some cur' → setAt (.dict cls kvs) q cur' = some t' →
    ∃ n, ∀ fuel ≥ n,
      setItem fuel (.dict cls kvs) (slash ++ renderPos q ++ (s :: steps).flatMap renderCStep) v = (t', .ok ())

/-- **C03 (first step below a dict, later steps without bare indexes).**  The full statement for every
creation path whose first step is a name step or a named element-creating step (`cur` is then a
dict) and whose later steps are fresh names / `n[new()]` / `n[0]`: names become nested dictionaries,
every `n[new()]`/`n[0]`/`n[len]` appends exactly one element (creating the list, or wrapping a non-list
value as first element), in any order and of any length — the result is exactly `createIn`.
(Special case of `C03_create`; kept because the read-back theorems are stated for these paths.) -/
theorem C03_create_partial (cls : Cls) (kvs : List (Str × Val)) (q : Pos) (kcls : Cls) (nkvs : List (Str × Val))
    (s : CStep) (steps : List CStep) (v cur' t' : Val) (fuel : Nat)
    (hp : PlainPos q) (hget : getAt (.dict cls kvs) q = some (.dict kcls nkvs))
    (hfirst : s.first) (hidx : ∀ e, s ≠ .idx e) (hsteps : ∀ x ∈ steps, x.later)
    (hcreate : createIn (.dict kcls nkvs) (s :: steps) v = some cur')
    (hset : setAt (.dict cls kvs) q cur' = some t') (hf : fuel ≥ 4 * (q.length + 1)) :
    setItem fuel (.dict cls kvs) (slash ++ renderPos q ++ (s :: steps).flatMap renderCStep) v = (t', .ok ()) := by
  have hs : PlainKey s.nameOf := by
    cases s with
    | name n => exact hfirst
    | elem n e => exact hfirst
    | idx e => exact absurd rfl (hidx e)
  exact setItem_create_steps cls kvs q kcls nkvs s steps v cur' t' fuel hp hget hs hidx hsteps hcreate hset hf

/-- the reference result always exists once `createIn` is defined (the node at `q` exists) -/
theorem C03_create_total (t : Val) (q : Pos) (cur cur' : Val) (hget : getAt t q = some cur) :
    ∃ t', setAt t q cur' = some t' := setAt_isSome q t cur cur' hget

/-- **`[new()]` / `[len]` below a list that is an element of a list** — plain `list` or `n0list`
(fix C03-c) — optionally followed by later steps: exactly one element is appended to the addressed list. -/
theorem C03_append_in_list (cls : Cls) (kvs : List (Str × Val)) (q0 : Pos) (i : Nat) (c0 : Cls) (ys : List Val)
    (c : Cls) (xs : List Val) (e : Str) (steps : List CStep) (v t' : Val) (fuel : Nat)
    (hp : PlainPos q0) (hq0 : getAt (.dict cls kvs) q0 = some (.list c0 ys)) (hi : ys[i]? = some (.list c xs))
    (he : e = sNew ∨ e = natStr xs.length)
    (hsteps : ∀ x ∈ steps, x.laterW) (hg : GW (.idx e :: steps))
    (hset : setAt (.dict cls kvs) (q0 ++ [.idx i]) (.list c (xs ++ [fill steps v])) = some t')
    (hf : fuel ≥ 4 * (q0.length + 2)) :
    setItem fuel (.dict cls kvs)
      (slash ++ renderPos (q0 ++ [.idx i]) ++ (CStep.idx e :: steps).flatMap renderCStep) v = (t', .ok ()) :=
  setItem_create_idx_in_list cls kvs q0 i c0 ys c xs e steps v t' fuel hp hq0 hi he hsteps hg hset hf

/-- **C03 (every creation path).**  First step: fresh name, `n[new()]`, `n[0]`, `n[len]` below a dict,
`[new()]`/`[len]` below a list (held by a key, or an element of an enclosing list of either class);
later steps: fresh names, `n[new()]`, `n[0]`, `[new()]`, `[0]` in any order (`GW`: no bare index written
directly after a name step).  The result is exactly `createIn`; nothing raises.  No hypothesis beyond
those of `C03_create_stmt`. -/
theorem C03_create (cls : Cls) (kvs : List (Str × Val)) (q : Pos) (cur cur' : Val) (s : CStep) (steps : List CStep)
    (v t' : Val) (fuel : Nat)
    (hp : PlainPos q) (hget : getAt (.dict cls kvs) q = some cur) (hfirst : s.first)
    (hsteps : ∀ x ∈ steps, x.laterW) (hg : GW (s :: steps))
    (hcreate : createIn cur (s :: steps) v = some cur') (hset : setAt (.dict cls kvs) q cur' = some t')
    (hf : fuel ≥ 4 * (q.length + 1)) :
    setItem fuel (.dict cls kvs) (slash ++ renderPos q ++ (s :: steps).flatMap renderCStep) v = (t', .ok ()) :=
  setItem_create_any cls kvs q cur cur' s steps v t' fuel hp hget hfirst hsteps hg hcreate hset hf

/-- the full statement, proved -/
theorem C03_create_full : C03_create_stmt := by
  intro cls kvs q cur cur' s steps v t' hp hget hfirst hsteps hg hcreate hset
  exact ⟨4 * (q.length + 1), fun fuel hf =>
    C03_create cls kvs q cur cur' s steps v t' fuel hp hget hfirst hsteps hg hcreate hset hf⟩

/-- the grammar before the fixes (`GOk`: every element-creating step last or followed by a name; no later
bare index) is part of the whole grammar -/
theorem C03_GOk_inside (s : CStep) (steps : List CStep) (hsteps : ∀ x ∈ steps, x.later) :
    (∀ x ∈ steps, x.laterW) ∧ GW (s :: steps) :=
  ⟨fun x hx => CStep.laterW_of_later (hsteps x hx), GW_of_later s steps hsteps⟩

/-- **unrestricted statement (read back).**  After *any* successful `d[xpath] = v` the value reads
back through the same path with `new()` replaced by `last()`.  Not proved in this generality: it
quantifies over every path text (wildcards, conditions, `..`, non-canonical spellings) and over names
that contain the text `new()` themselves (which `replace` rewrites).  Proved for every creation path
without later bare index steps whose names are free of `(`: `C03_read_back`, `C03_read_back_any`; paths
with later bare indexes (`c[new()][0]/m`, which before fix C03-b stored `v` elsewhere) read back on
the instances below and in the evaluator. -/
def C03_read_back_stmt : Prop :=
  ∀ (t t' v : Val) (xp : Str) (fuel : Nat),
    setItem fuel t xp v = (t', .ok ()) →
    ∃ n, ∀ f ≥ n, (getItem f t' (replace sNew sLast xp)).2 = .ok v

/-- **C03 (read back, every path of `C03_create_partial`).**  After the creation
`d[//…q…/s/steps…] = v` (any path of the honoured grammar whose first step is below a dict: names,
`n[new()]`, `n[0]`, `n[len]` in any alternation, any length), `d[xpath.replace("new()", "last()")]`
returns `v` and leaves the tree as it is.  Hypothesis added to those of `C03_create_partial`: no
name on the path contains `(` (`NoParenPos q`, `NoParen x.nameOf`) — otherwise `replace` could
rewrite a *name* that contains the text `new()`. -/
theorem C03_read_back (cls : Cls) (kvs : List (Str × Val)) (q : Pos) (kcls : Cls) (nkvs : List (Str × Val))
    (s : CStep) (steps : List CStep) (v cur' t' : Val) (fuel : Nat)
    (hp : PlainPos q) (hget : getAt (.dict cls kvs) q = some (.dict kcls nkvs))
    (hfirst : s.first) (hidx : ∀ e, s ≠ .idx e) (hsteps : ∀ x ∈ steps, x.later)
    (hnq : NoParenPos q) (hnp : ∀ x ∈ s :: steps, NoParen x.nameOf)
    (hcreate : createIn (.dict kcls nkvs) (s :: steps) v = some cur')
    (hset : setAt (.dict cls kvs) q cur' = some t') (hf : fuel ≥ 2 * (q.length + steps.length + 1)) :
    getItem fuel t' (replace sNew sLast (slash ++ renderPos q ++ (s :: steps).flatMap renderCStep)) = (t', .ok v) :=
  getItem_readback_steps cls kvs q kcls nkvs s steps v cur' t' fuel hp hget hfirst hidx hsteps hnq hnp hcreate hset hf

/-- **C03 (read back, every path of `C03_create`).**  The same for every first step of the honoured
grammar, also a bare `[new()]`/`[len]` below a list (`//x[0][new()]/m` reads back through
`//x[0][last()]/m`).  No hypothesis about enclosing plain lists is needed here: the statement is
about the tree `createIn` describes. -/
theorem C03_read_back_any (cls : Cls) (kvs : List (Str × Val)) (q : Pos) (cur cur' : Val) (s : CStep)
    (steps : List CStep) (v t' : Val) (fuel : Nat)
    (hp : PlainPos q) (hget : getAt (.dict cls kvs) q = some cur) (hfirst : s.first)
    (hsteps : ∀ x ∈ steps, x.later) (hnq : NoParenPos q) (hnp : ∀ x ∈ s :: steps, NoParen x.nameOf)
    (hcreate : createIn cur (s :: steps) v = some cur') (hset : setAt (.dict cls kvs) q cur' = some t')
    (hf : fuel ≥ 2 * (q.length + steps.length + 1)) :
    getItem fuel t' (replace sNew sLast (slash ++ renderPos q ++ (s :: steps).flatMap renderCStep)) = (t', .ok v) :=
  getItem_readback_any cls kvs q cur cur' s steps v t' fuel hp hget hfirst hsteps hnq hnp hcreate hset hf

/-- the text that is read: every `new()` index has become `last()`, nothing else has changed -/
theorem C03_read_back_path (q : Pos) (steps : List CStep) (hq : NoParenPos q) (hsteps : ∀ x ∈ steps, x.noParen) :
    replace sNew sLast (slash ++ renderPos q ++ steps.flatMap renderCStep)
      = slash ++ renderPos q ++ (steps.map lastify).flatMap renderCStep :=
  replace_path q steps hq hsteps

/-- **create, then read back**: both halves of "after `d[xpath] = v` … `d[xpath]` is `v`" for the
paths of `C03_create_partial` in one statement. -/
theorem C03_create_then_read (cls : Cls) (kvs : List (Str × Val)) (q : Pos) (kcls : Cls) (nkvs : List (Str × Val))
    (s : CStep) (steps : List CStep) (v cur' t' : Val) (fuel : Nat)
    (hp : PlainPos q) (hget : getAt (.dict cls kvs) q = some (.dict kcls nkvs))
    (hfirst : s.first) (hidx : ∀ e, s ≠ .idx e) (hsteps : ∀ x ∈ steps, x.later)
    (hnq : NoParenPos q) (hnp : ∀ x ∈ s :: steps, NoParen x.nameOf)
    (hcreate : createIn (.dict kcls nkvs) (s :: steps) v = some cur')
    (hset : setAt (.dict cls kvs) q cur' = some t')
    (hf : fuel ≥ 4 * (q.length + 1)) (hf2 : fuel ≥ 2 * (q.length + steps.length + 1)) :
    let xp := slash ++ renderPos q ++ (s :: steps).flatMap renderCStep
    setItem fuel (.dict cls kvs) xp v = (t', .ok ()) ∧ getItem fuel t' (replace sNew sLast xp) = (t', .ok v) :=
  ⟨C03_create_partial cls kvs q kcls nkvs s steps v cur' t' fuel hp hget hfirst hidx hsteps hcreate hset hf,
   C03_read_back cls kvs q kcls nkvs s steps v cur' t' fuel hp hget hfirst hidx hsteps hnq hnp hcreate hset hf2⟩

/-- **full statement (no debris).**  A `d[xpath] = v` that raises leaves the tree as it was — every tree,
every path text, every value, every exception.  Proved: `C03_err_leaves_tree` (fix C03-a: `_add` leaves
nothing behind; fix C04-a: the search writes nothing). -/
def C03_err_leaves_tree_stmt : Prop :=
  ∀ (t t' v : Val) (xp : Str) (fuel : Nat) (e : PyErr), setItem fuel t xp v = (t', .error e) → t' = t

/-- after a raising `d[xpath] = v` the tree is the tree before the call or the one `_find` handed to
`_add` — whatever `_add` and the store did is gone (fix C03-a alone) -/
theorem C03_err_tree_is_search_tree (t t' v : Val) (xp : Str) (fuel : Nat) (e : PyErr)
    (h : setItem fuel t xp v = (t', .error e)) :
    t' = t ∨ ∃ r, findD fuel t [] false true (tokenize (if startsWith xp ['?'] then xp.drop 1 else xp)) (.at []) true
      slash = .ok (t', r) :=
  setItem_error_tree fuel t xp v t' e h

/-- the form of the statement that needs fix C03-a only: unchanged whenever the search returned the tree
it was given (kept so that the two repairs stay separable; `hpure` always holds after fix C04-a) -/
theorem C03_err_leaves_tree_partial (t t' v : Val) (xp : Str) (fuel : Nat) (e : PyErr)
    (h : setItem fuel t xp v = (t', .error e))
    (hpure : ∀ root1 r, findD fuel t [] false true (tokenize (if startsWith xp ['?'] then xp.drop 1 else xp)) (.at [])
      true slash = .ok (root1, r) → root1 = t) : t' = t := by
  rcases setItem_error_tree fuel t xp v t' e h with h1 | ⟨r, hr⟩
  · exact h1
  · exact hpure t' r hr

/-- **C03 (a refused assignment leaves the tree unchanged), the full statement, proved**: every tree,
every path text (creation paths of every shape, wildcards, conditions, malformed text), every value,
every exception class. -/
theorem C03_err_leaves_tree : C03_err_leaves_tree_stmt := by
  intro t t' v xp fuel e h
  refine C03_err_leaves_tree_partial t t' v xp fuel e h ?_
  intro root1 r hfind
  have := findD_any fuel t [] true true (tokenize (if startsWith xp ['?'] then xp.drop 1 else xp)) (.at []) slash
  rw [hfind] at this
  exact this.1

def exTree : Val := .dict .n0 [(['a'], .dict .n0 [])]

/-- former witnesses of C03-a (debris): the three paths are now honoured … -/
theorem C03_nested_new_ok :
    setItem 40 exTree ['a', '/', 'b', '[', 'n', 'e', 'w', '(', ')', ']', '[', 'n', 'e', 'w', '(', ')', ']'] (.str ['V'])
      = (.dict .n0 [(['a'], .dict .n0 [(['b'], .list .n0 [.list .n0 [.str ['V']]])])], .ok ()) := by
  decide
example : setItem 40 exTree ['m', '[', 'n', 'e', 'w', '(', ')', ']', '/', 'n', '[', 'n', 'e', 'w', '(', ')', ']'] (.str ['V'])
      = (.dict .n0 [(['a'], .dict .n0 []), (['m'], .list .n0 [.dict .n0 [(['n'], .list .n0 [.str ['V']])]])], .ok ()) := by
  decide
example : setItem 40 exTree ['n', '[', '0', ']', '[', '0', ']'] (.str ['V'])
      = (.dict .n0 [(['a'], .dict .n0 []), (['n'], .list .n0 [.list .n0 [.str ['V']]])], .ok ()) := by
  decide

/-- … and a creation that is refused at a deeper level (`n/m[3]`: `SyntaxError` at the second level, after
`n` had been inserted) leaves nothing behind -/
theorem C03_refused_leaves_nothing :
    setItem 40 exTree ['n', '/', 'm', '[', '3', ']'] (.str ['V']) = (exTree, .error .SyntaxError) := by
  decide
/-- the same through the theorem -/
example : (setItem 40 exTree ['n', '/', 'm', '[', '3', ']'] (.str ['V'])).1 = exTree :=
  C03_err_leaves_tree exTree _ (.str ['V']) ['n', '/', 'm', '[', '3', ']'] 40 .SyntaxError C03_refused_leaves_nothing

/-- former witness of C03-b (silent misplacement): `d['c[new()][0]/m'] = v` now creates `c: [[{m: v}]]` -/
theorem C03_nested_idx_ok :
    setItem 40 exTree ['c', '[', 'n', 'e', 'w', '(', ')', ']', '[', '0', ']', '/', 'm'] (.str ['V'])
      = (.dict .n0 [(['a'], .dict .n0 []), (['c'], .list .n0 [.list .n0 [.dict .n0 [(['m'], .str ['V'])]]])], .ok ()) := by
  decide

/-- former witness of C03-c: `[new()]` directly below a list that is an element of a plain `list` appends -/
theorem C03_new_in_plain_list_ok :
    setItem 40 (.dict .n0 [(['x'], .list .plain [.list .plain []])])
        ['x', '[', '0', ']', '[', 'n', 'e', 'w', '(', ')', ']'] (.str ['V'])
      = (.dict .n0 [(['x'], .list .plain [.list .plain [.str ['V']]])], .ok ()) := by
  decide

/-- the former finding C03-d: the search no longer converts the single value `k` before `_add` refuses
`x[5]` — the tree is exactly the one before the call (fix C04-a; `_add` converts only when it succeeds) -/
theorem C03_refused_no_wrap :
    setItem 40 (.dict .n0 [(['k'], .int 1)]) ['k', '[', 'n', 'e', 'w', '(', ')', ']', '/', 'x', '[', '5', ']'] (.str ['V'])
      = (.dict .n0 [(['k'], .int 1)], .error .SyntaxError) := by
  decide
/-- … while the honoured creation on the same name converts and appends -/
example : setItem 40 (.dict .n0 [(['k'], .int 1)]) ['k', '[', 'n', 'e', 'w', '(', ')', ']', '/', 'x'] (.str ['V'])
      = (.dict .n0 [(['k'], .list .n0 [.int 1, .dict .n0 [(['x'], .str ['V'])]])], .ok ()) := by
  decide

/-! ## Non-vacuity: the theorems instantiated on concrete trees (explicit char lists) -/

theorem pk_a : PlainKey ['a'] := ⟨by simp, by decide, by simp⟩
theorem pk_n : PlainKey ['n'] := ⟨by simp, by decide, by simp⟩
theorem pk_m : PlainKey ['m'] := ⟨by simp, by decide, by simp⟩
theorem pk_l : PlainKey ['l'] := ⟨by simp, by decide, by simp⟩
theorem pk_x : PlainKey ['x'] := ⟨by simp, by decide, by simp⟩
theorem pk_k : PlainKey ['k'] := ⟨by simp, by decide, by simp⟩

/-- a tree with a list `l`, a scalar `k` and an empty dict under `a` -/
def exTree2 : Val :=
  .dict .n0 [(['a'], .dict .n0 [(['l'], .list .n0 [.int 1]), (['k'], .str ['s'])])]

/-! ## 5b. an index step on a single value — the hidden list (fix C03-e)

Lookup reads a value that is not a list as the list of this one item: `d['a[0]']`, `d['a[-1]']`, `d['a[last()]']` are
`d['a']`.  The reading of C03 consistent with it: on the value of a key, `name[1]` **is** `name[len]` (the value is wrapped
as the first element and exactly one element is appended), index `0` / `-1` is the value itself (C02: it is replaced),
and every other index cannot be honoured: the assignment raises and the tree is unchanged.  `e : IdxSp` is any
spelling of the index (`1`, `0+1`, `last()`, `-1`, `last()-3`, …). -/

/-- **C03 (index on a single value).**  `old`, the value of `name` in the dict at `q`, is not a list.
1. *replace*: `//…q…/name[e]` with `e` denoting `0` or `-1` stores `v` in the slot of `old`;
2. *wrap and append*: `//…q…/name[e]/tail…` with `e` denoting `1` makes the slot `[old, chain tail v]` (`name[1]`:
   `[old, v]`; `name[1]/y`: `[old, {y: v}]`);
3. *refuse*: with `e` denoting anything else the call raises `SyntaxError` and the tree is the tree before the call. -/
theorem C03_index_on_single_value (cls : Cls) (kvs : List (Str × Val)) (q : Pos) (kcls : Cls) (nkvs : List (Str × Val))
    (name : Str) (old : Val) (e : IdxSp) (tail : List Str) (v : Val) (fuel : Nat)
    (hp : PlainPos q) (hget : getAt (.dict cls kvs) q = some (.dict kcls nkvs)) (hn : PlainKey name)
    (hl : lookup name nkvs = some old) (hs : isList old = false) (ht : ∀ x ∈ tail, PlainKey x)
    (hf : fuel ≥ 2 * q.length + 2) :
    ((e.val = 0 ∨ e.val = -1) → ∀ t', setAt (.dict cls kvs) (q ++ [.key name]) v = some t' →
      setItem fuel (.dict cls kvs) (slash ++ renderPos q ++ slash ++ (name ++ bracket e.text)) v = (t', .ok ())) ∧
    (e.val = 1 → ∀ t', setAt (.dict cls kvs) (q ++ [.key name]) (.list .n0 [old, chain tail v]) = some t' →
      setItem fuel (.dict cls kvs)
        (slash ++ renderPos q ++ slash ++ (name ++ bracket e.text) ++ renderPos (tail.map Seg.key)) v = (t', .ok ())) ∧
    ((e.val ≥ 2 ∨ e.val < -1) →
      setItem fuel (.dict cls kvs)
        (slash ++ renderPos q ++ slash ++ (name ++ bracket e.text) ++ renderPos (tail.map Seg.key)) v
        = (.dict cls kvs, .error .SyntaxError)) :=
  ⟨fun he t' hset => setItem_hidden_replace cls kvs q kcls nkvs name old e v t' fuel hp hget hn hl hs he hset hf,
   fun he t' hset => setItem_hidden_wrap cls kvs q kcls nkvs name old e tail v t' fuel hp hget hn hl hs he ht hset hf,
   fun he => setItem_hidden_refuse cls kvs q kcls nkvs name old e tail v fuel hp hget hn hl hs he ht hf⟩

/-- the reference trees of the first two cases always exist -/
theorem C03_index_on_single_value_total (t : Val) (q : Pos) (kcls : Cls) (nkvs : List (Str × Val)) (name : Str) (x : Val)
    (hget : getAt t q = some (.dict kcls nkvs)) : ∃ t', setAt t (q ++ [.key name]) x = some t' :=
  C03_create_names_total t q kcls nkvs name x hget

/-- the wrapped slot is `appendTo old …` of `C03_append_new`: `name[1]` on a single value does what `name[new()]` does -/
theorem C03_index_one_is_new (old x : Val) (h : isList old = false) : appendTo old x = .list .n0 [old, x] :=
  appendTo_nonlist h x

/-- what `_find` itself reports for an index on a single value is unchanged (lookups are what they were): the parent is
the temporary hidden list — a tuple in the implementation, so that nothing can be stored into it — and `__setitem__`
(`hiddenPlace`) resolves the place of the value itself -/
theorem C03_find_index_on_single_value (fuel : Nat) (root : Val) (entry rl : Bool) (P : Pos) (found : Str) (e : IdxSp)
    (old : Val) (rest : List Str) (hP : getAt root P = some old) (hl : isList old = false) :
    ((e.val = 0 ∨ e.val = -1) →
      findD (fuel + 1) root [] false entry [bracket e.text] (.at P) rl found
        = .ok (root, { parent := .wrap (.at P), nameIdx := some (bracket (intStr e.val)), value := old, found := found,
                       notFound := Option.none })) ∧
    ((e.val ≥ 1 ∨ e.val < -1) →
      findD (fuel + 1) root [] false entry (bracket e.text :: rest) (.at P) rl found
        = .ok (root, { parent := .wrap (.at P), nameIdx := some (bracket (intStr e.val)), value := Val.none, found := found,
                       notFound := some (bracket e.text :: rest) })) :=
  ⟨fun he => hidden_find_last fuel root entry rl P found _ _ _ old hP hl e.idxTok he,
   fun he => hidden_find_miss fuel root entry rl P found _ _ _ old rest hP hl e.idxTok he⟩

/-- the five lines of the finding (the former `C03_index_on_single_value_cex`), evaluated:
`d['a[1]'] = 'V'` on `{a: 1}` wraps and appends and reads back, -/
theorem C03_hidden_one_ok :
    setItem 40 (.dict .n0 [(['a'], .int 1)]) ['a', '[', '1', ']'] (.str ['V'])
      = (.dict .n0 [(['a'], .list .n0 [.int 1, .str ['V']])], .ok ()) ∧
    (getItem 40 (.dict .n0 [(['a'], .list .n0 [.int 1, .str ['V']])]) ['a', '[', '1', ']']).2 = .ok (.str ['V']) := by
  decide
/-- `d['a[0][1]'] = 'V'` on `{a: [5]}` (a single value that is an element of a list: no key could hold the new list)
is refused and changes nothing, -/
theorem C03_hidden_one_in_list_refused :
    setItem 40 (.dict .n0 [(['a'], .list .n0 [.int 5])]) ['a', '[', '0', ']', '[', '1', ']'] (.str ['V'])
      = (.dict .n0 [(['a'], .list .n0 [.int 5])], .error .SyntaxError) := by
  decide
/-- `d['a[1]/y'] = 'V'` on `{a: {x: 1}}` appends `{y: 'V'}` next to the wrapped dict, -/
theorem C03_hidden_one_tail_ok :
    setItem 40 (.dict .n0 [(['a'], .dict .n0 [(['x'], .int 1)])]) ['a', '[', '1', ']', '/', 'y'] (.str ['V'])
      = (.dict .n0 [(['a'], .list .n0 [.dict .n0 [(['x'], .int 1)], .dict .n0 [(['y'], .str ['V'])]])], .ok ()) := by
  decide
/-- `d['a[0]'] = 'V'` on `{a: 1}` replaces the value (C02), `d['a[2]'] = 'V'` is refused as before; the root and
`a[0][1]` on `{a: 1}` (after which `a[0][1]` would not lead to the new element) are refused as well -/
theorem C03_hidden_zero_two :
    setItem 40 (.dict .n0 [(['a'], .int 1)]) ['a', '[', '0', ']'] (.str ['V']) = (.dict .n0 [(['a'], .str ['V'])], .ok ()) ∧
    setItem 40 (.dict .n0 [(['a'], .int 1)]) ['a', '[', '2', ']'] (.str ['V'])
      = (.dict .n0 [(['a'], .int 1)], .error .SyntaxError) ∧
    setItem 40 (.dict .n0 [(['a'], .int 1)]) ['[', '1', ']'] (.str ['V']) = (.dict .n0 [(['a'], .int 1)], .error .SyntaxError) ∧
    setItem 40 (.dict .n0 [(['a'], .int 1)]) ['[', '0', ']'] (.str ['V']) = (.dict .n0 [(['a'], .int 1)], .error .TypeError) ∧
    setItem 40 (.dict .n0 [(['a'], .int 1)]) ['a', '[', '0', ']', '[', '1', ']'] (.str ['V'])
      = (.dict .n0 [(['a'], .int 1)], .error .SyntaxError) := by
  decide
/-- the same three kinds through the theorem (`exTree2`: `k` is the single value `'s'` in the dict `a`) -/
example : setItem 40 exTree2 ['/', '/', 'a', '/', 'k', '[', '1', ']', '/', 'x'] (.int 5)
    = (.dict .n0 [(['a'], .dict .n0 [(['l'], .list .n0 [.int 1]),
        (['k'], .list .n0 [.str ['s'], .dict .n0 [(['x'], .int 5)]])])], .ok ()) :=
  (C03_index_on_single_value .n0 _ [.key ['a']] .n0 _ ['k'] (.str ['s']) (.lit 1) [['x']] (.int 5) 40 ⟨pk_a, trivial⟩ rfl pk_k
    (by decide) rfl (by intro m hm; simp at hm; subst hm; exact pk_x) (by decide)).2.1 rfl _ (by decide)
example : setItem 40 exTree2 ['/', '/', 'a', '/', 'k', '[', 'l', 'a', 's', 't', '(', ')', ']'] (.int 5)
    = (.dict .n0 [(['a'], .dict .n0 [(['l'], .list .n0 [.int 1]), (['k'], .int 5)])], .ok ()) :=
  (C03_index_on_single_value .n0 _ [.key ['a']] .n0 _ ['k'] (.str ['s']) .last [] (.int 5) 40 ⟨pk_a, trivial⟩ rfl pk_k
    (by decide) rfl (by simp) (by decide)).1 (Or.inr rfl) _ (by decide)
example : setItem 40 exTree2 ['/', '/', 'a', '/', 'k', '[', '-', '2', ']', '/', 'x'] (.int 5) = (exTree2, .error .SyntaxError) :=
  (C03_index_on_single_value .n0 _ [.key ['a']] .n0 _ ['k'] (.str ['s']) (.neg 2) [['x']] (.int 5) 40 ⟨pk_a, trivial⟩ rfl pk_k
    (by decide) rfl (by intro m hm; simp at hm; subst hm; exact pk_x) (by decide)).2.2 (Or.inr (by decide))

/-! ## 5c. further hidden-list spellings of creation (fix C03-e): the index as a step of its own, a hidden index in the
middle of a creation path, the refusal for an element of a list -/

/-- **C03 (index `1` as a step of its own).**  `old`, the value of `name` in the dict at `q`, is not a list; `e` is any
spelling of `1`.  `//…q…/name/[e]/tail…` wraps `old` as the first element and appends exactly one element
(`chain tail v`) — the same tree `//…q…/name[e]/tail…` makes (`C03_index_on_single_value`, case 2). -/
theorem C03_index_own_step (cls : Cls) (kvs : List (Str × Val)) (q : Pos) (kcls : Cls) (nkvs : List (Str × Val))
    (name : Str) (old : Val) (e : IdxSp) (tail : List Str) (v : Val) (fuel : Nat)
    (hp : PlainPos q) (hget : getAt (.dict cls kvs) q = some (.dict kcls nkvs)) (hn : PlainKey name)
    (hl : lookup name nkvs = some old) (hs : isList old = false) (he : e.val = 1) (ht : ∀ x ∈ tail, PlainKey x)
    (hf : fuel ≥ 2 * q.length + 3) :
    ∀ t', setAt (.dict cls kvs) (q ++ [.key name]) (.list .n0 [old, chain tail v]) = some t' →
      setItem fuel (.dict cls kvs)
        (slash ++ renderPos (q ++ [.key name]) ++ slash ++ bracket e.text ++ renderPos (tail.map Seg.key)) v = (t', .ok ()) ∧
      setItem fuel (.dict cls kvs)
        (slash ++ renderPos q ++ slash ++ (name ++ bracket e.text) ++ renderPos (tail.map Seg.key)) v = (t', .ok ()) :=
  fun t' hset =>
    ⟨setItem_hidden_wrap_own_step cls kvs q kcls nkvs name old e tail v t' fuel hp hget hn hl hs he ht hset hf,
     setItem_hidden_wrap cls kvs q kcls nkvs name old e tail v t' fuel hp hget hn hl hs he ht hset (by omega)⟩

/-- **C03 (hidden index in the middle of a creation path).**  `name` holds a dict in which `n` is fresh; `e` is any
spelling of `0` / `-1`.  `//…q…/name[e]/n/ns…` creates exactly the chain `{n: {ns…: v}}` below `name` — the tree the
canonical path `//…q…/name/n/ns…` creates (`C03_create_names`). -/
theorem C03_create_hidden_middle (cls : Cls) (kvs : List (Str × Val)) (q : Pos) (kcls : Cls) (nkvs : List (Str × Val))
    (name : Str) (ocls : Cls) (okvs : List (Str × Val)) (e : IdxSp) (n : Str) (ns : List Str) (v : Val) (fuel : Nat)
    (hp : PlainPos q) (hget : getAt (.dict cls kvs) q = some (.dict kcls nkvs)) (hn : PlainKey name)
    (hl : lookup name nkvs = some (.dict ocls okvs)) (he : e.val = 0 ∨ e.val = -1)
    (hfresh : lookup n okvs = Option.none) (hnn : PlainKey n) (hns : ∀ m ∈ ns, PlainKey m)
    (hf : fuel ≥ 2 * q.length + 4) :
    ∀ t', setAt (.dict cls kvs) (q ++ [.key name] ++ [.key n]) (chain ns v) = some t' →
      setItem fuel (.dict cls kvs)
        (slash ++ renderPos q ++ slash ++ (name ++ bracket e.text) ++ renderPos ((n :: ns).map Seg.key)) v = (t', .ok ()) ∧
      setItem fuel (.dict cls kvs) (slash ++ renderPos (q ++ [.key name] ++ (n :: ns).map Seg.key)) v = (t', .ok ()) :=
  fun t' hset =>
    ⟨setItem_hidden_create_middle cls kvs q kcls nkvs name ocls okvs e n ns v t' fuel hp hget hn hl he hfresh hnn hns hset hf,
     setItem_create_below cls kvs q kcls nkvs name ocls okvs n ns v t' fuel hp hget hn hl hfresh hnn hns hset hf⟩

/-- **C03 (index on a single value that is an element of a list: refused).**  `old`, element `i` of a list, is not a
list; `e` denotes anything but `0` / `-1` (also `1`: no key could hold the new list).  `//…q0…[i][e]/tail…` and
`//…q0…[i]/[e]/tail…` raise `SyntaxError` and the tree is the tree before the call. -/
theorem C03_hidden_elem_refused (cls : Cls) (kvs : List (Str × Val)) (q0 : Pos) (i : Nat) (old : Val) (e : IdxSp)
    (tail : List Str) (v : Val) (fuel : Nat)
    (hp : PlainPos (q0 ++ [Seg.idx i])) (hP : getAt (.dict cls kvs) (q0 ++ [Seg.idx i]) = some old)
    (hs : isList old = false) (he : e.val ≥ 1 ∨ e.val < -1) (ht : ∀ x ∈ tail, PlainKey x)
    (hf : fuel ≥ 2 * (q0.length + 1) + 1) :
    setItem fuel (.dict cls kvs)
      (slash ++ renderPos (q0 ++ [Seg.idx i]) ++ bracket e.text ++ renderPos (tail.map Seg.key)) v
      = (.dict cls kvs, .error .SyntaxError) ∧
    setItem fuel (.dict cls kvs)
      (slash ++ renderPos (q0 ++ [Seg.idx i]) ++ slash ++ bracket e.text ++ renderPos (tail.map Seg.key)) v
      = (.dict cls kvs, .error .SyntaxError) :=
  ⟨setItem_hidden_elem_refuse cls kvs q0 i old e tail v fuel hp hP hs he ht hf,
   setItem_hidden_elem_refuse_own cls kvs q0 i old e tail v fuel hp hP hs he ht hf⟩

/-- a dict `o` and a list `l` with a single value as element 1, under `a` -/
def exTreeH : Val :=
  .dict .n0 [(['a'], .dict .n0 [(['o'], .dict .n0 [(['p'], .int 1)]), (['l'], .list .n0 [.int 5, .str ['s']])])]

/-- `d['//a/k/[0+1]/x'] = 5` on `exTree2`: `k` becomes `['s', {x: 5}]` -/
example : setItem 40 exTree2 ['/', '/', 'a', '/', 'k', '/', '[', '0', '+', '1', ']', '/', 'x'] (.int 5)
    = (.dict .n0 [(['a'], .dict .n0 [(['l'], .list .n0 [.int 1]),
        (['k'], .list .n0 [.str ['s'], .dict .n0 [(['x'], .int 5)]])])], .ok ()) :=
  (C03_index_own_step .n0 _ [.key ['a']] .n0 _ ['k'] (.str ['s']) (.plus 0 1) [['x']] (.int 5) 40 ⟨pk_a, trivial⟩ rfl pk_k
    (by decide) rfl (by decide) (by intro m hm; simp at hm; subst hm; exact pk_x) (by decide) _ (by decide)).1
/-- `d['//a/o[last()]/n/m'] = 5` on `exTreeH`: `{n: {m: 5}}` appears in `o`, as for `//a/o/n/m` -/
example : setItem 40 exTreeH ['/', '/', 'a', '/', 'o', '[', 'l', 'a', 's', 't', '(', ')', ']', '/', 'n', '/', 'm'] (.int 5)
    = (.dict .n0 [(['a'], .dict .n0 [(['o'], .dict .n0 [(['p'], .int 1), (['n'], .dict .n0 [(['m'], .int 5)])]),
        (['l'], .list .n0 [.int 5, .str ['s']])])], .ok ()) :=
  (C03_create_hidden_middle .n0 _ [.key ['a']] .n0 _ ['o'] .n0 [(['p'], .int 1)] .last ['n'] [['m']] (.int 5) 40 ⟨pk_a, trivial⟩ rfl
    (⟨by simp, by decide, by simp⟩ : PlainKey ['o']) (by decide) (Or.inr rfl) (by decide) pk_n
    (by intro m hm; simp at hm; subst hm; exact pk_m) (by decide) _ (by decide)).1
/-- `d['//a/l[1][1]/x'] = 5` on `exTreeH` (`l[1]` is the single value `'s'`): refused, nothing changes -/
example : setItem 40 exTreeH ['/', '/', 'a', '/', 'l', '[', '1', ']', '[', '1', ']', '/', 'x'] (.int 5)
    = (exTreeH, .error .SyntaxError) :=
  (C03_hidden_elem_refused .n0 _ [.key ['a'], .key ['l']] 1 (.str ['s']) (.lit 1) [['x']] (.int 5) 40
    ⟨pk_a, pk_l, trivial⟩ (by decide) rfl (Or.inl (by decide))
    (by intro m hm; simp at hm; subst hm; exact pk_x) (by decide)).1

/-- **C03 (hidden index as a step of its own in the middle of a creation path).**  The node at the plain position `P`
(the value of a key, an element of a list, or — `P = []` — the root) is a dict in which `n` is fresh; `e` is any spelling
of `0` / `-1`.  `//…P…/[e]/n/ns…` creates exactly the chain `{n: {ns…: v}}` in that dict. -/
theorem C03_create_hidden_middle_own (cls : Cls) (kvs : List (Str × Val)) (P : Pos) (ocls : Cls)
    (okvs : List (Str × Val)) (e : IdxSp) (n : Str) (ns : List Str) (v : Val) (fuel : Nat)
    (hp : PlainPos P) (hP : getAt (.dict cls kvs) P = some (.dict ocls okvs)) (he : e.val = 0 ∨ e.val = -1)
    (hfresh : lookup n okvs = Option.none) (hnn : PlainKey n) (hns : ∀ m ∈ ns, PlainKey m)
    (hf : fuel ≥ 2 * P.length + 2) :
    ∀ t', setAt (.dict cls kvs) (P ++ [.key n]) (chain ns v) = some t' →
      setItem fuel (.dict cls kvs) (slash ++ renderPos P ++ slash ++ bracket e.text ++ renderPos ((n :: ns).map Seg.key)) v
        = (t', .ok ()) :=
  fun t' hset => setItem_hidden_create_middle_own cls kvs P ocls okvs e n ns v t' fuel hp hP he hfresh hnn hns hset hf

/-- **C03 (hidden index on a list element in the middle of a creation path).**  Element `i` of a list is a dict in which
`n` is fresh: `//…q0…[i][e]/n/ns…` creates exactly the chain `{n: {ns…: v}}` in that dict. -/
theorem C03_create_hidden_middle_elem (cls : Cls) (kvs : List (Str × Val)) (q0 : Pos) (i : Nat) (ocls : Cls)
    (okvs : List (Str × Val)) (e : IdxSp) (n : Str) (ns : List Str) (v : Val) (fuel : Nat)
    (hp : PlainPos (q0 ++ [Seg.idx i])) (hP : getAt (.dict cls kvs) (q0 ++ [Seg.idx i]) = some (.dict ocls okvs))
    (he : e.val = 0 ∨ e.val = -1)
    (hfresh : lookup n okvs = Option.none) (hnn : PlainKey n) (hns : ∀ m ∈ ns, PlainKey m)
    (hf : fuel ≥ 2 * (q0.length + 1) + 2) :
    ∀ t', setAt (.dict cls kvs) (q0 ++ [Seg.idx i] ++ [.key n]) (chain ns v) = some t' →
      setItem fuel (.dict cls kvs)
        (slash ++ renderPos (q0 ++ [Seg.idx i]) ++ bracket e.text ++ renderPos ((n :: ns).map Seg.key)) v = (t', .ok ()) :=
  fun t' hset =>
    setItem_hidden_create_middle_elem cls kvs q0 i ocls okvs e n ns v t' fuel hp hP he hfresh hnn hns hset hf

/-- a list `l` whose element 1 is a dict, under `a` -/
def exTreeH2 : Val :=
  .dict .n0 [(['a'], .dict .n0 [(['l'], .list .n0 [.int 5, .dict .n0 [(['x'], .int 1)]])])]

/-- `d['//a/o/[0]/n/m'] = 5` on `exTreeH` -/
example : setItem 40 exTreeH ['/', '/', 'a', '/', 'o', '/', '[', '0', ']', '/', 'n', '/', 'm'] (.int 5)
    = (.dict .n0 [(['a'], .dict .n0 [(['o'], .dict .n0 [(['p'], .int 1), (['n'], .dict .n0 [(['m'], .int 5)])]),
        (['l'], .list .n0 [.int 5, .str ['s']])])], .ok ()) :=
  C03_create_hidden_middle_own .n0 _ [.key ['a'], .key ['o']] .n0 [(['p'], .int 1)] (.lit 0) ['n'] [['m']] (.int 5) 40
    ⟨pk_a, (⟨by simp, by decide, by simp⟩ : PlainKey ['o']), trivial⟩ rfl (Or.inl rfl) (by decide) pk_n
    (by intro m hm; simp at hm; subst hm; exact pk_m) (by decide) _ (by decide)
/-- `d['//[last()]/n'] = 5` on `exTreeH` (`P = []`: the root read as the list of this one item) -/
example : setItem 40 exTreeH ['/', '/', '[', 'l', 'a', 's', 't', '(', ')', ']', '/', 'n'] (.int 5)
    = (.dict .n0 [(['a'], .dict .n0 [(['o'], .dict .n0 [(['p'], .int 1)]), (['l'], .list .n0 [.int 5, .str ['s']])]),
        (['n'], .int 5)], .ok ()) :=
  C03_create_hidden_middle_own .n0 _ [] .n0 _ .last ['n'] [] (.int 5) 40 trivial rfl (Or.inr rfl) (by decide) pk_n
    (by simp) (by decide) _ (by decide)
/-- `d['//a/l[1][-1]/n'] = 5` on `exTreeH2` -/
example : setItem 40 exTreeH2 ['/', '/', 'a', '/', 'l', '[', '1', ']', '[', '-', '1', ']', '/', 'n'] (.int 5)
    = (.dict .n0 [(['a'], .dict .n0 [(['l'], .list .n0 [.int 5, .dict .n0 [(['x'], .int 1), (['n'], .int 5)]])])], .ok ()) :=
  C03_create_hidden_middle_elem .n0 _ [.key ['a'], .key ['l']] 1 .n0 [(['x'], .int 1)] (.neg 1) ['n'] [] (.int 5) 40
    ⟨pk_a, pk_l, trivial⟩ rfl (Or.inr rfl) (by decide) pk_n (by simp) (by decide) _ (by decide)

/-- **C03 (index on the root: refused).**  On a dict root, `[e]/tail…` and `//[e]/tail…` with `e` denoting anything but
`0` / `-1` (also `1`: no key holds the root) raise `SyntaxError` and the tree is the tree before the call. -/
theorem C03_hidden_root_refused (cls : Cls) (kvs : List (Str × Val)) (e : IdxSp) (tail : List Str) (v : Val)
    (fuel : Nat) (he : e.val ≥ 1 ∨ e.val < -1) (ht : ∀ x ∈ tail, PlainKey x) (hf : fuel ≥ 1) :
    setItem fuel (.dict cls kvs) (bracket e.text ++ renderPos (tail.map Seg.key)) v
      = (.dict cls kvs, .error .SyntaxError) ∧
    setItem fuel (.dict cls kvs) (slash ++ slash ++ bracket e.text ++ renderPos (tail.map Seg.key)) v
      = (.dict cls kvs, .error .SyntaxError) :=
  setItem_hidden_root_refuse cls kvs e tail v fuel he ht hf

/-- `d['[0+1]/x'] = 5` and `d['//[last()-1]/x'] = 5` on `exTreeH`: refused, nothing changes -/
example : setItem 40 exTreeH ['[', '0', '+', '1', ']', '/', 'x'] (.int 5) = (exTreeH, .error .SyntaxError) :=
  (C03_hidden_root_refused .n0 _ (.plus 0 1) [['x']] (.int 5) 40 (Or.inl (by decide))
    (by intro m hm; simp at hm; subst hm; exact pk_x) (by decide)).1
example : setItem 40 exTreeH ['/', '/', '[', 'l', 'a', 's', 't', '(', ')', '-', '1', ']', '/', 'x'] (.int 5)
    = (exTreeH, .error .SyntaxError) :=
  (C03_hidden_root_refused .n0 _ (.lastMinus 1) [['x']] (.int 5) 40 (Or.inr (by decide))
    (by intro m hm; simp at hm; subst hm; exact pk_x) (by decide)).2

/-- **C03 (index as a step of its own, refused).**  `old` at ANY plain position `P` (the value of a key or an element of
a list) is not a list: `//…P…/[e]/tail…` with `e` denoting `≥ 2` or `< -1` raises `SyntaxError` and the tree is the tree
before the call — as `name[e]` does (`C03_index_on_single_value`, case 3). -/
theorem C03_index_own_step_refused (cls : Cls) (kvs : List (Str × Val)) (P : Pos) (old : Val) (e : IdxSp)
    (tail : List Str) (v : Val) (fuel : Nat)
    (hp : PlainPos P) (hP : getAt (.dict cls kvs) P = some old) (hs : isList old = false)
    (he : e.val ≥ 2 ∨ e.val < -1) (ht : ∀ x ∈ tail, PlainKey x) (hf : fuel ≥ 2 * P.length + 1) :
    setItem fuel (.dict cls kvs) (slash ++ renderPos P ++ slash ++ bracket e.text ++ renderPos (tail.map Seg.key)) v
      = (.dict cls kvs, .error .SyntaxError) :=
  setItem_hidden_own_step_refuse cls kvs P old e tail v fuel hp hP hs he ht hf

/-- `d['//a/k/[last()-1]/x'] = 5` on `exTree2`: refused, nothing changes -/
example : setItem 40 exTree2 ['/', '/', 'a', '/', 'k', '/', '[', 'l', 'a', 's', 't', '(', ')', '-', '1', ']', '/', 'x'] (.int 5)
    = (exTree2, .error .SyntaxError) :=
  C03_index_own_step_refused .n0 _ [.key ['a'], .key ['k']] (.str ['s']) (.lastMinus 1) [['x']] (.int 5) 40
    ⟨pk_a, pk_k, trivial⟩ rfl rfl (Or.inr (by decide)) (by intro m hm; simp at hm; subst hm; exact pk_x) (by decide)

/-- `d['//a/n/m'] = 5` through `C03_create_names` -/
example : setItem 40 exTree2 ['/', '/', 'a', '/', 'n', '/', 'm'] (.int 5)
    = (.dict .n0 [(['a'], .dict .n0 [(['l'], .list .n0 [.int 1]), (['k'], .str ['s']),
        (['n'], .dict .n0 [(['m'], .int 5)])])], .ok ()) :=
  C03_create_names .n0 _ [.key ['a']] .n0 .n0 _ ['n'] [['m']] (.int 5) _ 40 ⟨pk_a, trivial⟩ rfl (by decide)
    pk_n (by intro m hm; simp at hm; subst hm; exact pk_m) (by decide) (by decide)

/-- `d['//a/l[new()]'] = 5` appends to the list (`C03_append_new`, list branch) -/
example : setItem 40 exTree2 ['/', '/', 'a', '/', 'l', '[', 'n', 'e', 'w', '(', ')', ']'] (.int 5)
    = (.dict .n0 [(['a'], .dict .n0 [(['l'], .list .n0 [.int 1, .int 5]), (['k'], .str ['s'])])], .ok ()) :=
  C03_append_new .n0 _ [.key ['a']] .n0 _ ['l'] (.list .n0 [.int 1]) [] (.int 5) _ 40 ⟨pk_a, trivial⟩ rfl pk_l
    (by decide) (by simp) (by decide) (by decide)

/-- `d['//a/k[new()]/x'] = 5` wraps the scalar and appends `{x: 5}` (`C03_append_new`, wrap branch, with a tail) -/
example : setItem 40 exTree2 ['/', '/', 'a', '/', 'k', '[', 'n', 'e', 'w', '(', ')', ']', '/', 'x'] (.int 5)
    = (.dict .n0 [(['a'], .dict .n0 [(['l'], .list .n0 [.int 1]),
        (['k'], .list .n0 [.str ['s'], .dict .n0 [(['x'], .int 5)]])])], .ok ()) :=
  C03_append_new .n0 _ [.key ['a']] .n0 _ ['k'] (.str ['s']) [['x']] (.int 5) _ 40 ⟨pk_a, trivial⟩ rfl pk_k
    (by decide) (by intro m hm; simp at hm; subst hm; exact pk_x) (by decide) (by decide)

/-- `d['//a/n[0]'] = 5` on a fresh name (`C03_new_on_fresh`) -/
example : setItem 40 exTree2 ['/', '/', 'a', '/', 'n', '[', '0', ']'] (.int 5)
    = (.dict .n0 [(['a'], .dict .n0 [(['l'], .list .n0 [.int 1]), (['k'], .str ['s']),
        (['n'], .list .n0 [.int 5])])], .ok ()) :=
  C03_new_on_fresh .n0 _ [.key ['a']] .n0 _ ['n'] ['0'] [] (.int 5) _ 40 ⟨pk_a, trivial⟩ rfl pk_n
    (Or.inr rfl) (by decide) (by simp) (by decide) (by decide)

/-- `d['//a/l[1]'] = 5` with `len = 1` (`C03_len_appends`) -/
example : setItem 40 exTree2 ['/', '/', 'a', '/', 'l', '[', '1', ']'] (.int 5)
    = (.dict .n0 [(['a'], .dict .n0 [(['l'], .list .n0 [.int 1, .int 5]), (['k'], .str ['s'])])], .ok ()) :=
  C03_len_appends .n0 _ [.key ['a']] .n0 _ ['l'] .n0 [.int 1] [] (.int 5) _ 40 ⟨pk_a, trivial⟩ rfl pk_l
    (by decide) (by simp) (by decide) (by decide)

/-- read-back through `last()` (`C03_read_back_elem`) -/
example : (getItem 40 (.dict .n0 [(['a'], .dict .n0 [(['l'], .list .n0 [.int 1, .int 5]), (['k'], .str ['s'])])])
    ['/', '/', 'a', '/', 'l', '[', 'l', 'a', 's', 't', '(', ')', ']']).2 = .ok (.int 5) := by
  have := C03_read_back_elem .n0 _ [.key ['a']] .n0 _ ['l'] .n0 [.int 1] [] (.int 5)
    (.dict .n0 [(['a'], .dict .n0 [(['l'], .list .n0 [.int 1, .int 5]), (['k'], .str ['s'])])]) 40 ⟨pk_a, trivial⟩
    (rfl : getAt exTree2 _ = _) pk_l (by simp) (by decide) (by decide)
  exact congrArg Prod.snd this

/-- `d['//a/n/m[new()]/x'] = 5`: names, then an element-creating step, then a name (`C03_create_partial`) -/
example : setItem 40 exTree2 ['/', '/', 'a', '/', 'n', '/', 'm', '[', 'n', 'e', 'w', '(', ')', ']', '/', 'x'] (.int 5)
    = (.dict .n0 [(['a'], .dict .n0 [(['l'], .list .n0 [.int 1]), (['k'], .str ['s']),
        (['n'], .dict .n0 [(['m'], .list .n0 [.dict .n0 [(['x'], .int 5)]])])])], .ok ()) :=
  C03_create_partial .n0 _ [.key ['a']] .n0 _ (.name ['n']) [.elem ['m'] ['n', 'e', 'w', '(', ')'], .name ['x']] (.int 5) _ _ 40
    ⟨pk_a, trivial⟩ rfl pk_n (by intro e h; cases h)
    (by intro x hx; simp at hx; rcases hx with rfl | rfl
        · exact ⟨pk_m, Or.inl (by decide)⟩
        · exact pk_x)
    rfl (by decide) (by decide)

/-- `d['//a/k[new()]/x/l[0]'] = 5`: wrap, name, fresh one-element list (`C03_create_partial`) -/
example : setItem 40 exTree2 ['/', '/', 'a', '/', 'k', '[', 'n', 'e', 'w', '(', ')', ']', '/', 'x', '/', 'l', '[', '0', ']'] (.int 5)
    = (.dict .n0 [(['a'], .dict .n0 [(['l'], .list .n0 [.int 1]),
        (['k'], .list .n0 [.str ['s'], .dict .n0 [(['x'], .dict .n0 [(['l'], .list .n0 [.int 5])])]])])], .ok ()) :=
  C03_create_partial .n0 _ [.key ['a']] .n0 _ (.elem ['k'] ['n', 'e', 'w', '(', ')']) [.name ['x'], .elem ['l'] ['0']] (.int 5) _ _ 40
    ⟨pk_a, trivial⟩ rfl pk_k (by intro e h; cases h)
    (by intro x hx; simp at hx; rcases hx with rfl | rfl
        · exact pk_x
        · exact ⟨pk_l, Or.inr rfl⟩)
    rfl (by decide) (by decide)

/-- read-back of `d['//a/k[new()]/x/l[0]'] = 5` through `'//a/k[last()]/x/l[0]'` (`C03_read_back`: wrap,
name, fresh one-element list) -/
theorem np (c : Char) (h : c ≠ '(' := by decide) : NoParen [c] := by
  intro x hx; simp at hx; subst hx; exact h
example : replace sNew sLast ['/', '/', 'a', '/', 'k', '[', 'n', 'e', 'w', '(', ')', ']', '/', 'x', '/', 'l', '[', '0', ']']
    = ['/', '/', 'a', '/', 'k', '[', 'l', 'a', 's', 't', '(', ')', ']', '/', 'x', '/', 'l', '[', '0', ']'] := by decide
example : getItem 40 (.dict .n0 [(['a'], .dict .n0 [(['l'], .list .n0 [.int 1]),
        (['k'], .list .n0 [.str ['s'], .dict .n0 [(['x'], .dict .n0 [(['l'], .list .n0 [.int 5])])]])])])
      (replace sNew sLast
        ['/', '/', 'a', '/', 'k', '[', 'n', 'e', 'w', '(', ')', ']', '/', 'x', '/', 'l', '[', '0', ']'])
    = (.dict .n0 [(['a'], .dict .n0 [(['l'], .list .n0 [.int 1]),
        (['k'], .list .n0 [.str ['s'], .dict .n0 [(['x'], .dict .n0 [(['l'], .list .n0 [.int 5])])]])])], .ok (.int 5)) :=
  C03_read_back .n0 _ [.key ['a']] .n0 _ (.elem ['k'] ['n', 'e', 'w', '(', ')']) [.name ['x'], .elem ['l'] ['0']] (.int 5) _ _ 40
    ⟨pk_a, trivial⟩ (rfl : getAt exTree2 _ = _) pk_k (by intro e h; cases h)
    (by intro x hx; simp at hx; rcases hx with rfl | rfl
        · exact pk_x
        · exact ⟨pk_l, Or.inr rfl⟩)
    ⟨np 'a', trivial⟩
    (by intro x hx; simp at hx; rcases hx with rfl | rfl | rfl
        · exact np 'k'
        · exact np 'x'
        · exact np 'l')
    rfl (by decide) (by decide)

/-- read-back of `d['//a/n/m[new()]/x'] = 5` through `'//a/n/m[last()]/x'` (names, element, name) -/
example : getItem 40 (.dict .n0 [(['a'], .dict .n0 [(['l'], .list .n0 [.int 1]), (['k'], .str ['s']),
        (['n'], .dict .n0 [(['m'], .list .n0 [.dict .n0 [(['x'], .int 5)]])])])])
      (replace sNew sLast ['/', '/', 'a', '/', 'n', '/', 'm', '[', 'n', 'e', 'w', '(', ')', ']', '/', 'x'])
    = (.dict .n0 [(['a'], .dict .n0 [(['l'], .list .n0 [.int 1]), (['k'], .str ['s']),
        (['n'], .dict .n0 [(['m'], .list .n0 [.dict .n0 [(['x'], .int 5)]])])])], .ok (.int 5)) :=
  C03_read_back .n0 _ [.key ['a']] .n0 _ (.name ['n']) [.elem ['m'] ['n', 'e', 'w', '(', ')'], .name ['x']] (.int 5) _ _ 40
    ⟨pk_a, trivial⟩ (rfl : getAt exTree2 _ = _) pk_n (by intro e h; cases h)
    (by intro x hx; simp at hx; rcases hx with rfl | rfl
        · exact ⟨pk_m, Or.inl (by decide)⟩
        · exact pk_x)
    ⟨np 'a', trivial⟩
    (by intro x hx; simp at hx; rcases hx with rfl | rfl | rfl
        · exact np 'n'
        · exact np 'm'
        · exact np 'x')
    rfl (by decide) (by decide)

/-- a path with a later bare index (`c[new()][0]/m`, the former witness of C03-b): the value now reads back
through `c[last()][0]/m` -/
example : (getItem 40 (.dict .n0 [(['a'], .dict .n0 []), (['c'], .list .n0 [.list .n0 [.dict .n0 [(['m'], .str ['V'])]]])])
      (replace sNew sLast ['c', '[', 'n', 'e', 'w', '(', ')', ']', '[', '0', ']', '/', 'm'])).2 = .ok (.str ['V']) := by
  decide

/-- lists inside lists: `x` is an `n0list` holding an `n0list`, `p` a plain list holding a plain list -/
def exTree3 : Val :=
  .dict .n0 [(['x'], .list .n0 [.list .n0 [.int 1]]), (['p'], .list .plain [.list .plain []])]
theorem pk_p : PlainKey ['p'] := ⟨by simp, by decide, by simp⟩

/-- `d['//x[0][new()]'] = 5` appends to the inner list (`C03_append_in_list`, enclosing `n0list`) -/
example : setItem 40 exTree3 ['/', '/', 'x', '[', '0', ']', '[', 'n', 'e', 'w', '(', ')', ']'] (.int 5)
    = (.dict .n0 [(['x'], .list .n0 [.list .n0 [.int 1, .int 5]]), (['p'], .list .plain [.list .plain []])], .ok ()) :=
  C03_append_in_list .n0 _ [.key ['x']] 0 .n0 [.list .n0 [.int 1]] .n0 [.int 1] sNew [] (.int 5) _ 40 ⟨pk_x, trivial⟩
    rfl rfl (Or.inl rfl) (by simp) trivial (by decide) (by decide)

/-- `d['//p[0][0]'] = 5` (`len = 0`) appends below a *plain* list (`C03_append_in_list`) -/
example : setItem 40 exTree3 ['/', '/', 'p', '[', '0', ']', '[', '0', ']'] (.int 5)
    = (.dict .n0 [(['x'], .list .n0 [.list .n0 [.int 1]]), (['p'], .list .plain [.list .plain [.int 5]])], .ok ()) :=
  C03_append_in_list .n0 _ [.key ['p']] 0 .plain [.list .plain []] .plain [] ['0'] [] (.int 5) _ 40 ⟨pk_p, trivial⟩
    rfl rfl (Or.inr (by decide)) (by simp) trivial (by decide) (by decide)

/-- `d['//p[0][new()]'] = 5`: `[new()]` below an element of a *plain* list (the former finding C03-c) -/
example : setItem 40 exTree3 ['/', '/', 'p', '[', '0', ']', '[', 'n', 'e', 'w', '(', ')', ']'] (.int 5)
    = (.dict .n0 [(['x'], .list .n0 [.list .n0 [.int 1]]), (['p'], .list .plain [.list .plain [.int 5]])], .ok ()) :=
  C03_append_in_list .n0 _ [.key ['p']] 0 .plain [.list .plain []] .plain [] sNew [] (.int 5) _ 40 ⟨pk_p, trivial⟩
    rfl rfl (Or.inl rfl) (by simp) trivial (by decide) (by decide)

/-- `d['//x[0][new()]/m'] = 5`: bare `[new()]` first step followed by a name (`C03_create`; the
enclosing list is an `n0list`) -/
example : setItem 40 exTree3 ['/', '/', 'x', '[', '0', ']', '[', 'n', 'e', 'w', '(', ')', ']', '/', 'm'] (.int 5)
    = (.dict .n0 [(['x'], .list .n0 [.list .n0 [.int 1, .dict .n0 [(['m'], .int 5)]]]),
        (['p'], .list .plain [.list .plain []])], .ok ()) :=
  C03_create .n0 _ [.key ['x'], .idx 0] (.list .n0 [.int 1]) _ (.idx ['n', 'e', 'w', '(', ')']) [.name ['m']] (.int 5) _ 40
    ⟨pk_x, trivial⟩ rfl trivial (by intro x hx; simp at hx; subst hx; exact pk_m) (by simp [GW, CStep.isName])
    rfl (by decide) (by decide)

/-- … and its read-back through `'//x[0][last()]/m'` (`C03_read_back_any`) -/
example : getItem 40 (.dict .n0 [(['x'], .list .n0 [.list .n0 [.int 1, .dict .n0 [(['m'], .int 5)]]]),
        (['p'], .list .plain [.list .plain []])])
      (replace sNew sLast ['/', '/', 'x', '[', '0', ']', '[', 'n', 'e', 'w', '(', ')', ']', '/', 'm'])
    = (.dict .n0 [(['x'], .list .n0 [.list .n0 [.int 1, .dict .n0 [(['m'], .int 5)]]]),
        (['p'], .list .plain [.list .plain []])], .ok (.int 5)) :=
  C03_read_back_any .n0 _ [.key ['x'], .idx 0] (.list .n0 [.int 1]) _ (.idx ['n', 'e', 'w', '(', ')']) [.name ['m']] (.int 5) _ 40
    ⟨pk_x, trivial⟩ (rfl : getAt exTree3 _ = _) trivial (by intro x hx; simp at hx; subst hx; exact pk_m)
    ⟨np 'x', trivial⟩
    (by intro x hx; simp at hx; rcases hx with rfl | rfl
        · intro c hc; simp [CStep.nameOf] at hc
        · exact np 'm')
    rfl (by decide) (by decide)

/-- `d['//x[new()]'] = 5`: bare `[new()]` below a list held by a key (`C03_create`, the text of `x[new()]`) -/
example : setItem 40 exTree3 ['/', '/', 'x', '[', 'n', 'e', 'w', '(', ')', ']'] (.int 5)
    = (.dict .n0 [(['x'], .list .n0 [.list .n0 [.int 1], .int 5]), (['p'], .list .plain [.list .plain []])], .ok ()) :=
  C03_create .n0 _ [.key ['x']] (.list .n0 [.list .n0 [.int 1]]) _ (.idx ['n', 'e', 'w', '(', ')']) [] (.int 5) _ 40
    ⟨pk_x, trivial⟩ rfl trivial (by simp) trivial rfl (by decide) (by decide)

/-- `d['//a/n[new()][new()]/m[0][0]'] = 5`: element-creating steps following one another, named and bare
(`C03_create` on a path that findings C03-a/C03-b excluded) -/
example : setItem 40 exTree2
      ['/', '/', 'a', '/', 'n', '[', 'n', 'e', 'w', '(', ')', ']', '[', 'n', 'e', 'w', '(', ')', ']', '/', 'm', '[', '0', ']', '[', '0', ']'] (.int 5)
    = (.dict .n0 [(['a'], .dict .n0 [(['l'], .list .n0 [.int 1]), (['k'], .str ['s']),
        (['n'], .list .n0 [.list .n0 [.dict .n0 [(['m'], .list .n0 [.list .n0 [.int 5]])]]])])], .ok ()) :=
  C03_create .n0 _ [.key ['a']] (.dict .n0 [(['l'], .list .n0 [.int 1]), (['k'], .str ['s'])]) _
    (.elem ['n'] ['n', 'e', 'w', '(', ')']) [.idx ['n', 'e', 'w', '(', ')'], .elem ['m'] ['0'], .idx ['0']] (.int 5) _ 40
    ⟨pk_a, trivial⟩ rfl pk_n
    (by intro x hx; simp at hx; rcases hx with rfl | rfl | rfl
        · exact Or.inl (by decide)
        · exact ⟨pk_m, Or.inr rfl⟩
        · exact Or.inr rfl)
    (by simp [GW, CStep.isName, CStep.isIdx]) rfl (by decide) (by decide)

/-- creations the code honours, evaluated directly (relative spellings as a user writes them) -/
example : setItem 40 exTree ['a', '/', 'n', '/', 'm'] (.int 5)
    = (.dict .n0 [(['a'], .dict .n0 [(['n'], .dict .n0 [(['m'], .int 5)])])], .ok ()) := by decide
example : setItem 40 exTree ['a', '/', 'l', '[', 'n', 'e', 'w', '(', ')', ']'] (.int 5)
    = (.dict .n0 [(['a'], .dict .n0 [(['l'], .list .n0 [.int 5])])], .ok ()) := by decide
example : setItem 40 exTree ['a', '/', 'l', '[', 'n', 'e', 'w', '(', ')', ']', '/', 'x'] (.int 5)
    = (.dict .n0 [(['a'], .dict .n0 [(['l'], .list .n0 [.dict .n0 [(['x'], .int 5)]])])], .ok ()) := by decide
/-- the reference semantics of the full statement on a mixed path `n/m[new()]/x` -/
example : createIn (.dict .n0 []) [.name ['n'], .elem ['m'] sNew, .name ['x']] (.int 5)
    = some (.dict .n0 [(['n'], .dict .n0 [(['m'], .list .n0 [.dict .n0 [(['x'], .int 5)]])])]) := by decide
example : (setItem 40 exTree ['a', '/', 'n', '/', 'm', '[', 'n', 'e', 'w', '(', ')', ']', '/', 'x'] (.int 5)).1
    = .dict .n0 [(['a'], .dict .n0 [(['n'], .dict .n0 [(['m'], .list .n0 [.dict .n0 [(['x'], .int 5)]])])])] := by decide

/-! ## 6. histories: creations interleaved with C02 writes and C05 deletions

`Hist.Op` is one call: a write to an existing node, a creation by a `CStep` path below an existing
dict node, a `delete` (with or without `recursively`) or a `pop` of an existing node — each with the
canonical path text of the node **in the state the call is made in**.  `Hist.applyOp` is the plain
nested dict/list model (`setAt`, `createIn`, `delAt`, `pruneUp`); `Hist.runOp` is the call through
`__setitem__` / `delete` / `pop`.  `Hist.ValidOps t ops` says that every operation is inside the
quantifier of C02/C03/C05 in the state it is applied to (the path is made of plain names, the
addressed node exists, `createIn` is defined).  Nothing is asked of the keys *inside* the tree or
inside written values: only the paths of the operations must be plain. -/

/-- **C03 (histories).**  After any finite interleaving of creations with C02 writes and C05
deletions/pops the tree equals the plain model that applied the same operations, no call raises,
and every `pop` returned the node it removed (`obs`). -/
theorem C03_history (fuel : Nat) (ops : List Hist.Op) (cls : Cls) (kvs : List (Str × Val))
    (hv : Hist.ValidOps (.dict cls kvs) ops) (hf : ∀ op ∈ ops, fuel ≥ Hist.opFuel op) :
    ∃ t' obs, Hist.applyOps (.dict cls kvs) ops = some (t', obs) ∧
      Hist.runOps fuel (.dict cls kvs) ops = (t', .ok obs) :=
  Hist.history fuel ops cls kvs hv hf

/-- one call of a history, on its own: model = reference, nothing raised -/
theorem C03_history_step (cls : Cls) (kvs : List (Str × Val)) (op : Hist.Op) (t' : Val) (fuel : Nat)
    (hv : Hist.ValidOp (.dict cls kvs) op) (ha : Hist.applyOp (.dict cls kvs) op = some t')
    (hf : fuel ≥ Hist.opFuel op) :
    Hist.runOp fuel (.dict cls kvs) op = (t', .ok (Hist.obsOp (.dict cls kvs) op)) :=
  Hist.runOp_ok cls kvs op t' fuel hv ha hf

/-- the root stays a dictionary of the same class along a history -/
theorem C03_history_root (cls : Cls) (kvs : List (Str × Val)) (op : Hist.Op) (t' : Val)
    (hv : Hist.ValidOp (.dict cls kvs) op) (ha : Hist.applyOp (.dict cls kvs) op = some t') :
    ∃ kvs', t' = .dict cls kvs' :=
  Hist.applyOp_dict_root cls kvs op t' hv ha

/-! Non-vacuity: a history with all kinds of call on `exTree2`
(`{a: {l: [1], k: 's'}}`):
1. `d['//a/n/m[new()]/x'] = 5` (creation: names, element, name),
2. `d['//a/l[0]'] = 7` (C02 write),
3. `d.delete('//a/n/m[0]/x', recursively=True)` (removes `x`, then the emptied dict `m[0]`; the list `m` stays),
4. `d.pop('//a/k', 'D')` (returns `'s'`),
5. `d['//a/k[new()]'] = 9` (creation on the name that has just been removed),
6. `d['//a/l[new()]'] = 8` (bare `[new()]` first step below the list `l`). -/
def exHistory : List Hist.Op :=
  [ .create [.key ['a']] (.name ['n']) [.elem ['m'] ['n', 'e', 'w', '(', ')'], .name ['x']] (.int 5),
    .write [.key ['a'], .key ['l'], .idx 0] (.int 7),
    .del [.key ['a'], .key ['n'], .key ['m'], .idx 0, .key ['x']] true,
    .pop [.key ['a'], .key ['k']] (.str ['D']) false,
    .create [.key ['a']] (.elem ['k'] ['n', 'e', 'w', '(', ')']) [] (.int 9),
    .create [.key ['a'], .key ['l']] (.idx ['n', 'e', 'w', '(', ')']) [] (.int 8) ]

theorem exHistory_valid : Hist.ValidOps exTree2 exHistory := by
  refine .cons (t' := .dict .n0 [(['a'], .dict .n0 [(['l'], .list .n0 [.int 1]), (['k'], .str ['s']),
      (['n'], .dict .n0 [(['m'], .list .n0 [.dict .n0 [(['x'], .int 5)]])])])]) ?_ (by decide) ?_
  · refine ⟨⟨pk_a, trivial⟩, pk_n, ?_, by simp [GOk, CStep.isName], (by intro h; cases h)⟩
    intro x hx; simp at hx; rcases hx with rfl | rfl
    · exact ⟨pk_m, Or.inl (by decide)⟩
    · exact pk_x
  refine .cons (t' := .dict .n0 [(['a'], .dict .n0 [(['l'], .list .n0 [.int 7]), (['k'], .str ['s']),
      (['n'], .dict .n0 [(['m'], .list .n0 [.dict .n0 [(['x'], .int 5)]])])])]) ?_ (by decide) ?_
  · exact ⟨⟨pk_a, pk_l, trivial⟩, by simp, _, rfl⟩
  refine .cons (t' := .dict .n0 [(['a'], .dict .n0 [(['l'], .list .n0 [.int 7]), (['k'], .str ['s']),
      (['n'], .dict .n0 [(['m'], .list .n0 [])])])]) ?_ (by decide) ?_
  · exact ⟨⟨pk_a, pk_n, pk_m, pk_x, trivial⟩, by simp, _, rfl⟩
  refine .cons (t' := .dict .n0 [(['a'], .dict .n0 [(['l'], .list .n0 [.int 7]),
      (['n'], .dict .n0 [(['m'], .list .n0 [])])])]) ?_ (by decide) ?_
  · exact ⟨⟨pk_a, pk_k, trivial⟩, by simp, _, rfl⟩
  refine .cons (t' := .dict .n0 [(['a'], .dict .n0 [(['l'], .list .n0 [.int 7]),
      (['n'], .dict .n0 [(['m'], .list .n0 [])]), (['k'], .list .n0 [.int 9])])]) ?_ (by decide) ?_
  · exact ⟨⟨pk_a, trivial⟩, pk_k, by simp, by simp [GOk], (by intro h; cases h)⟩
  refine .cons (t' := .dict .n0 [(['a'], .dict .n0 [(['l'], .list .n0 [.int 7, .int 8]),
      (['n'], .dict .n0 [(['m'], .list .n0 [])]), (['k'], .list .n0 [.int 9])])]) ?_ (by decide) (.nil _)
  · refine ⟨⟨pk_a, pk_l, trivial⟩, trivial, by simp, by simp [GOk], ?_⟩
    rintro _ ⟨q0, i, ys, hq, _⟩
    have := (List.append_inj' (show [Seg.key ['a']] ++ [Seg.key ['l']] = q0 ++ [Seg.idx i] from hq) rfl).2
    cases this

/-- the model run of that history, evaluated: final tree and what the calls returned -/
example : Hist.runOps 40 exTree2 exHistory
    = (.dict .n0 [(['a'], .dict .n0 [(['l'], .list .n0 [.int 7, .int 8]),
        (['n'], .dict .n0 [(['m'], .list .n0 [])]), (['k'], .list .n0 [.int 9])])],
       .ok [Option.none, Option.none, Option.none, some (.str ['s']), Option.none, Option.none]) := by decide
/-- … and the same through the theorem -/
example : ∃ t' obs, Hist.applyOps exTree2 exHistory = some (t', obs) ∧
    Hist.runOps 40 exTree2 exHistory = (t', .ok obs) :=
  C03_history 40 exHistory .n0 _ exHistory_valid (by decide)
/-- the path texts the six calls are made with -/
example : exHistory.map Hist.opPath =
    [['/', '/', 'a', '/', 'n', '/', 'm', '[', 'n', 'e', 'w', '(', ')', ']', '/', 'x'],
     ['/', '/', 'a', '/', 'l', '[', '0', ']'],
     ['/', '/', 'a', '/', 'n', '/', 'm', '[', '0', ']', '/', 'x'],
     ['/', '/', 'a', '/', 'k'],
     ['/', '/', 'a', '/', 'k', '[', 'n', 'e', 'w', '(', ')', ']'],
     ['/', '/', 'a', '/', 'l', '[', 'n', 'e', 'w', '(', ')', ']']] := by decide

end N0.C03
