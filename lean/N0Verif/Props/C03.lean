import N0Verif.Proofs.XPathStore
/-!
# C03 — assigning to a missing xpath creates exactly the missing chain; `new()` appends

`setItem` is the model of `__setitem__` (with `_add`); it returns the tree after the call and
whether the call raised — a failing creation leaves what it had already inserted.
-/
namespace N0.C03
open N0 N0.Py N0.Val N0.XPath

/-- nested dictionaries for a chain of names ending in `v` -/
def chain : List Str → Val → Val
  | [], v => v
  | n :: ns, v => .dict .n0 [(n, chain ns v)]

/-- **full statement (names).**  Below an existing dict node at `q`, a chain of fresh plain names
`n :: ns` creates exactly the nested dictionaries and stores `v` at the end; nothing else changes. -/
def C03_create_names_stmt : Prop :=
  ∀ (cls : Cls) (kvs : List (Str × Val)) (q : Pos) (c kcls : Cls) (nkvs : List (Str × Val))
    (n : Str) (ns : List Str) (v t' : Val) (fuel : Nat),
    PlainPos q → getAt (.dict cls kvs) q = some (.dict kcls nkvs) → lookup n nkvs = Option.none →
    PlainKey n → (∀ m ∈ ns, PlainKey m) →
    setAt (.dict cls kvs) (q ++ [.key n]) (chain ns v) = some t' →
    fuel ≥ 2 * (q.length + ns.length + 1) →
    setItem fuel (.dict cls kvs) (slash ++ renderPos (q ++ (n :: ns).map Seg.key)) v = (t', .ok ())

/-- **full statement (read back).**  After a successful `d[xpath] = v` the value reads back
through the same path with `new()` replaced by `last()`. -/
def C03_read_back_stmt : Prop :=
  ∀ (t t' v : Val) (xp : Str) (fuel : Nat),
    setItem fuel t xp v = (t', .ok ()) →
    ∃ n, ∀ f ≥ n, (getItem f t' (replace sNew sLast xp)).2 = .ok v

/-- **full statement (no misplacement / no debris).**  A creation that is refused leaves the tree
as it was.  False on the pinned tree: see the two counter-examples. -/
def C03_err_leaves_tree_stmt : Prop :=
  ∀ (t t' v : Val) (xp : Str) (fuel : Nat) (e : PyErr), setItem fuel t xp v = (t', .error e) → t' = t

def exTree : Val := .dict .n0 [(['a'], .dict .n0 [])]

/-- C03-a: `d['a/b[new()][new()]'] = v` raises after having inserted `b: [None, []]`-style debris -/
theorem C03_debris_cex :
    setItem 40 exTree ['a', '/', 'b', '[', 'n', 'e', 'w', '(', ')', ']', '[', 'n', 'e', 'w', '(', ')', ']'] (.str ['V'])
      = (.dict .n0 [(['a'], .dict .n0 [(['b'], .list .n0 [.none, .list .n0 []])])], .error .TypeError) := by
  decide

theorem C03_err_leaves_tree_false : ¬ C03_err_leaves_tree_stmt := by
  intro h
  have := h _ _ _ _ _ _ C03_debris_cex
  revert this; decide

/-- C03-b: `d['c[new()][0]/m'] = v` does not raise and does not store `v` under `m` -/
theorem C03_misplaced_cex :
    setItem 40 exTree ['c', '[', 'n', 'e', 'w', '(', ')', ']', '[', '0', ']', '/', 'm'] (.str ['V'])
      = (.dict .n0 [(['a'], .dict .n0 []), (['c'], .list .n0 [.none, .list .n0 [.str ['V']]])], .ok ()) := by
  decide

/-! Non-vacuity: creations the code honours. -/
example : setItem 40 exTree ['a', '/', 'n', '/', 'm'] (.int 5)
    = (.dict .n0 [(['a'], .dict .n0 [(['n'], .dict .n0 [(['m'], .int 5)])])], .ok ()) := by decide
example : setItem 40 exTree ['a', '/', 'l', '[', 'n', 'e', 'w', '(', ')', ']'] (.int 5)
    = (.dict .n0 [(['a'], .dict .n0 [(['l'], .list .n0 [.int 5])])], .ok ()) := by decide
example : setItem 40 exTree ['a', '/', 'l', '[', 'n', 'e', 'w', '(', ')', ']', '/', 'x'] (.int 5)
    = (.dict .n0 [(['a'], .dict .n0 [(['l'], .list .n0 [.dict .n0 [(['x'], .int 5)]])])], .ok ()) := by decide

end N0.C03
