import N0Verif.Proofs.ComparePerm
import N0Verif.Proofs.CompareKeyVals
import N0Verif.Proofs.CompositeKeysGenEq
/-!
# C08 — keyed unordered compare ignores order and classifies every record exactly once

Model: `N0Verif/Model/Compare.lean` (the code with fix patches C07-a, C08-a, C09-a, C07-b, C07-c, C09-b, C10-a and
C08-b, C10-c applied — the composite key is handed down unchanged to the keyed lists nested inside records, and the
key of a record is the JSON text of the dictionary of its key fields: `fieldsKey (recFields …)`).
`NoPathOpts cfg`: no `compare_only`, `exclude_xpaths`, `transform`; the composite key `cfg.ck` is
arbitrary (single field, several fields, given as `str` or tuple).  `keyP cfg` is the composite key of
a list element as a pure function; `PermTree v v'`: `v'` is `v` with the lists inside it permuted at
every depth; `UniqueKeys cfg v`: in every list inside `v` the composite keys are pairwise different, the
elements are not themselves lists and the key fields of records are scalars.
`UniqueVals cfg v`: the same stated on the VALUES of the key fields (`itemId`), with `KeyInjIn` — the key text tells
apart the items of one list that differ in their key-field values — as the bridge (fix C08-b makes it true of the
implementation: 7 / '7', None / 'None', a value containing ';field=' no longer share a key).
-/
namespace N0.C08
open N0 N0.Compare

/-- **C08 (permutation invariance).** With composite keys unique within each list, permuting the
lists of either operand — at any depth of the enclosing trees, also the keyed lists nested inside
records — never changes the verdict of the keyed compare … -/
theorem C08_perm_invariant (cfg : Cfg) (h : NoPathOpts cfg) (hd : cfg.direct = false) {a a' b b' : Val}
    (ha : PermTree a a') (hb : PermTree b b') (hua : UniqueKeys cfg a) (hub : UniqueKeys cfg b) :
    verdict (compareTop cfg a b) = verdict (compareTop cfg a' b') :=
  perm_invariant cfg h hd ha hb hua hub

/-- … nor the number of `differences` lines (`okD ∘ dE`: the count, or `none` for an exception). -/
theorem C08_perm_invariant_lines (cfg : Cfg) (h : NoPathOpts cfg) (hd : cfg.direct = false) {a a' b b' : Val}
    (ha : PermTree a a') (hb : PermTree b b') (hua : UniqueKeys cfg a) (hub : UniqueKeys cfg b) :
    okD (dE (compareTop cfg a b)) = okD (dE (compareTop cfg a' b')) :=
  perm_invariant_lines cfg h hd ha hb hua hub

/-- **C08 (permutation invariance, uniqueness stated on VALUES).**  `UniqueVals`: in every list the items have
pairwise different identities — the `(field, value)` pairs of the key fields of a record, the value of any other
item; nothing is said about texts.  `KeyInjIn`: within each list the key text (JSON text of the key fields, fix
C08-b) is injective on those identities — true of `json.dumps` on Python values, carried as a hypothesis because
floats are opaque lexemes in the model (cf. `KeyFaithfulOn` in C07); `C08_key_type_separation` proves the part of
it that the defect violated. -/
theorem C08_perm_invariant_values (cfg : Cfg) (h : NoPathOpts cfg) (hd : cfg.direct = false) {a a' b b' : Val}
    (ha : PermTree a a') (hb : PermTree b b') (hua : UniqueVals cfg a) (hub : UniqueVals cfg b)
    (hia : KeyInjIn cfg a) (hib : KeyInjIn cfg b) :
    verdict (compareTop cfg a b) = verdict (compareTop cfg a' b') :=
  ckv_perm_invariant cfg h hd ha hb hua hub hia hib

/-- `UniqueVals` + `KeyInjIn` give the `UniqueKeys` of the other theorems -/
theorem C08_unique_values_unique_keys (cfg : Cfg) (v : Val) (hu : UniqueVals cfg v) (hi : KeyInjIn cfg v) :
    UniqueKeys cfg v :=
  ckv_uniqueKeys cfg v hu hi

/-- **the key keeps types apart** (proved, no hypothesis on the values): two records keyed by one field whose values
are leaves of different type (`None`, `bool`, `int`, `str`; floats are opaque lexemes) never have the same key —
`{'id': 7}` / `{'id': '7'}`, `{'id': None}` / `{'id': 'None'}`, `True` / `'True'`, `1` / `True` -/
theorem C08_key_type_separation (cfg : Cfg) (f : Str) (hck : cfg.ck.pats = [f]) (c c' : Cls)
    (kvs kvs' : List (Str × Val)) (v w : Val)
    (hl : Val.lookup f kvs = some v) (hl' : Val.lookup f kvs' = some w)
    (hv : headClass v < 4) (hw : headClass w < 4) (hne : headClass v ≠ headClass w) :
    keyP cfg (.dict c kvs) ≠ keyP cfg (.dict c' kvs') :=
  ckv_type_sep cfg f hck c c' kvs kvs' v w hl hl' hv hw hne

/-- **C08 (classification).** One keyed level with unique keys, every option record: the result is
the results of the matched pairs (each left element whose key occurs on the right, compared with the
element carrying that key — `matchedRes`), followed by one self-unique entry for each left element whose
key is absent on the right and one other-unique entry for each right element whose key is absent on the
left (`keyedTail` of exactly those elements, each with its own index).  Every record is classified
exactly once. -/
theorem C08_classification (cfg : Cfg) (hd : cfg.direct = false) (site : Site) (p : Path)
    (hx : excluded cfg p = false) (c c' : Cls) (xs ys : List Val) (ks ko : List Str)
    (hks : keysOf cfg p 0 xs = .ok ks) (hko : keysOf cfg p 0 ys = .ok ko) (hn : ks.Nodup) (hno : ko.Nodup) :
    sub cfg site p (.list c xs) (.list c' ys) =
      seqR (matchedRes cfg p (.list .n0 xs) (.list .n0 ys) (mkEntries 0 ko ys) 0 ks xs)
        (.ok (keyedTail p
          ((mkEntries 0 ks xs).filter (fun e => (findKey e.1 (mkEntries 0 ko ys)).isNone))
          ((mkEntries 0 ko ys).filter (fun e => decide (e.1 ∉ ks))))) :=
  sub_keyed_char cfg hd site p hx c c' xs ys ks ko hks hko hn hno

/-- the same as a count: one line for a key present on the left only, the lines of the pair for a key
present on both sides (none if the pair is equal), one line for each key present on the right only -/
theorem C08_classification_lines (cfg : Cfg) (h : NoPathOpts cfg) (hd : cfg.direct = false) (site : Site)
    (p : Path) (c c' : Cls) (xs ys : List Val)
    (hn : (xs.map (keyP cfg)).Nodup) (hno : (ys.map (keyP cfg)).Nodup) :
    dE (sub cfg site p (.list c xs) (.list c' ys)) = levelD cfg xs ys :=
  sub_keyed_diffs cfg h hd site p c c' xs ys hn hno

/-- the number of lines does not depend on where the pair sits in the enclosing trees -/
theorem C08_prefix_independent (cfg : Cfg) (h : NoPathOpts cfg) (site : Site) (p p' : Path) (v w : Val) :
    (sub cfg site p v w).map (·.diffs) = (sub cfg site p' v w).map (·.diffs) :=
  sub_prefix_independent cfg h site p p' v w

/-- the hypothesis "unique within each list" is needed: two records with the same key -/
theorem C08_needs_unique_keys_cex :
    verdict (compareTop cexCfg (.list .n0 [cexRec 1 1, cexRec 1 2]) (.list .n0 [cexRec 1 1, cexRec 1 2])) = some true ∧
    verdict (compareTop cexCfg (.list .n0 [cexRec 1 1, cexRec 1 2]) (.list .n0 [cexRec 1 2, cexRec 1 1])) = some false :=
  perm_needs_unique_keys_cex

/-- a list nested directly in a list is keyed by its `str()`, which is not stable under permutation -/
theorem C08_needs_stable_keys_cex :
    verdict (compareTop cexCfg (.list .n0 [.list .n0 [.int 1, .int 2]]) (.list .n0 [.list .n0 [.int 1, .int 2]])) = some true ∧
    verdict (compareTop cexCfg (.list .n0 [.list .n0 [.int 2, .int 1]]) (.list .n0 [.list .n0 [.int 1, .int 2]])) = some false :=
  perm_needs_itemOk_cex

/-! Non-vacuity: `{'rows': [{'id': '1', 'items': [{'id': 'a', 'v': 1}, {'id': 'b', 'v': 2}]}, {'id': '2'}]}`
against the same tree with `rows` and the nested `items` swapped (the witness of the repaired defect
C08-a) and one payload leaf changed. -/
def idK : Str := ['i', 'd']
def item (i : Char) (v : Int) : Val := .dict .n0 [(idK, .str [i]), (['v'], .int v)]
def exA : Val := .dict .n0 [(['r'], .list .n0 [.dict .n0 [(idK, .str ['1']), (['t'], .list .n0 [item 'a' 1, item 'b' 2])], .dict .n0 [(idK, .str ['2'])]])]
def exA' : Val := .dict .n0 [(['r'], .list .n0 [.dict .n0 [(idK, .str ['2'])], .dict .n0 [(idK, .str ['1']), (['t'], .list .n0 [item 'b' 2, item 'a' 1])]])]
def exB : Val := .dict .n0 [(['r'], .list .n0 [.dict .n0 [(idK, .str ['1']), (['t'], .list .n0 [item 'a' 1, item 'b' 3])], .dict .n0 [(idK, .str ['2'])]])]
def exCfg : Cfg := { Cfg.default Flags.init false with ck := .many [idK] }
example : NoPathOpts exCfg := ⟨rfl, rfl, rfl⟩
example : PermTree exA exA' := by
  refine .dict _ (.cons _ (.list _ (List.Perm.swap _ _ []) (.cons (.dict _ (.cons _ (.str _) .nil)) (.cons (.dict _ (.cons _ (.str _) (.cons _ ?_ .nil))) .nil))) .nil)
  exact .list _ (List.Perm.swap _ _ []) (.cons (.dict _ (.cons _ (.str _) (.cons _ (.int _) .nil))) (.cons (.dict _ (.cons _ (.str _) (.cons _ (.int _) .nil))) .nil))
example : UniqueKeys exCfg exA := by
  simp [UniqueKeys, UniqueKeysK, UniqueKeysL, itemOk, exA, item, exCfg, Cfg.default, PatArg.pats, idK, Val.lookup, Val.isScalar]
  decide
example : (compareTop exCfg exA exA').map (·.diffs) = .ok 0 := by decide
example : (compareTop exCfg exA' exB).map (fun r => (r.diffs, r.notEqual.map (·.path)))
    = .ok (1, [[.key ['r'], .idx2 1 0, .key ['t'], .idx2 0 1, .key ['v']]]) := by decide

/-! The inputs of the repaired defect C08-b are inside the theorems: `[{'id': 7, 'v': 1}, {'id': '7', 'v': 2}]` against
itself reversed (before the fix: four differences, the same list against itself none), `{'id': 7}` against
`{'id': '7'}` (two unique records, not one "not equal" leaf), and a value that imitates the old separator. -/
def r7i : Val := .dict .n0 [(idK, .int 7), (['v'], .int 1)]
def r7s : Val := .dict .n0 [(idK, .str ['7']), (['v'], .int 2)]
theorem C08_int_str_key_fixed :
    (compareTop exCfg (.list .n0 [r7i, r7s]) (.list .n0 [r7s, r7i])).map (·.diffs) = .ok 0 ∧
    (compareTop exCfg (.list .n0 [r7i]) (.list .n0 [.dict .n0 [(idK, .str ['7']), (['v'], .int 1)]])).map
      (fun r => (r.diffs, r.selfUnique.length, r.otherUnique.length, r.notEqual.length)) = .ok (2, 1, 1, 0) := by
  decide
example : keyP exCfg r7i ≠ keyP exCfg r7s :=
  C08_key_type_separation exCfg idK rfl _ _ _ _ (.int 7) (.str ['7']) rfl rfl (by decide) (by decide) (by decide)
example : UniqueVals exCfg (.list .n0 [r7i, r7s]) := by
  simp [UniqueVals, UniqueValsL, UniqueValsK, itemOk, itemId, recFields, setField, r7i, r7s, exCfg, Cfg.default, PatArg.pats, idK, Val.lookup, Val.isScalar]
example : KeyInjIn exCfg (.list .n0 [r7i, r7s]) := by
  simp only [KeyInjIn, KeyInjInL, KeyInjInK, r7i, r7s, List.mem_cons, List.not_mem_nil, or_false, and_true]
  intro x hx y hy
  rcases hx with rfl | rfl <;> rcases hy with rfl | rfl <;> decide
/-- `{'a': '1;b=2'}` and `{'a': '1', 'b': '2'}` under `composite_key=('a', 'b')`: different keys (unique on each side) -/
theorem C08_separator_fixed :
    (compareTop { exCfg with ck := .many [['a'], ['b']] }
      (.list .n0 [.dict .n0 [(['a'], .str ['1', ';', 'b', '=', '2'])]])
      (.list .n0 [.dict .n0 [(['a'], .str ['1']), (['b'], .str ['2'])]])).map
      (fun r => (r.diffs, r.selfUnique.length, r.otherUnique.length, r.notEqual.length)) = .ok (2, 1, 1, 0) := by
  decide

/-! ### Source tie: the record branch of `generate_composite_keys` regenerated from the Python text
(`Gen/CompositeKeysPy.lean`, written by `harness/translate_py_keys.py` on every run; lemmas in
`Proofs/CompositeKeysGenEq.lean`) -/

/-- one iteration of the translated `for key in elements_for_composite_key` (`if key in line`, the transform lookup
with `prefix[line_i]/key`, `key_fields[key] = …`) is one step of the model's `recordFields` -/
theorem C08_generated_keys_step (cfg : Cfg) (q : Path) (kvs acc : List (Str × Val)) (key : Str) :
    Gen.CompositeKeysPy.RecordKey.step cfg.tr (cfg.tr.map (·.pat)) q kvs acc key =
      (match Val.lookup key kvs with
       | none => acc
       | some v => setField key (transformAt cfg (q ++ [.key key]) v) acc) :=
  Gen.CompositeKeysPy.step_eq cfg q kvs acc key

/-- the translated record branch (str → one-element list, the loop over the key fields, JSON text of the key fields
or the empty key) computes the model's record key, for every option record, item path and record -/
theorem C08_generated_keys_record (cfg : Cfg) (q : Path) (kvs : List (Str × Val)) :
    Gen.CompositeKeysPy.recordKey cfg.ck cfg.tr q kvs = fieldsKey (recordFields cfg q kvs cfg.ck.pats []) :=
  Gen.CompositeKeysPy.recordKey_eq cfg q kvs

/-- … which is the key `keyOf` gives item `i` of the list at `p` when it is a dictionary (of either class) -/
theorem C08_generated_keys_keyOf (cfg : Cfg) (p : Path) (i : Nat) (o : Cls) (kvs : List (Str × Val)) :
    keyOf cfg p i (.dict o kvs) = .ok (Gen.CompositeKeysPy.recordKey cfg.ck cfg.tr (p ++ [.idx i]) kvs) :=
  Gen.CompositeKeysPy.keyOf_dict_eq cfg p i o kvs

/-- … and the keys `keysOf` gives a list of records are, item by item, the keys of the translated code -/
theorem C08_generated_keys_records (cfg : Cfg) (p : Path) (i : Nat) (rs : List (Cls × List (Str × Val))) :
    keysOf cfg p i (rs.map (fun r => Val.dict r.1 r.2)) = .ok (Gen.CompositeKeysPy.recordKeys cfg p i rs) :=
  Gen.CompositeKeysPy.keysOf_records_eq cfg p i rs

/-- non-vacuity: key fields `id`, `x`, `k` (given as a tuple) on a record with a falsy `id` and no `x`; the transform
registered for `rows[1]/k` is applied to `k` -/
example :
    Gen.CompositeKeysPy.recordKey (.many [['i', 'd'], ['x'], ['k']]) [⟨"rows[1]/k".toList, fun _ => .str ['Z']⟩]
      [.key ['r', 'o', 'w', 's'], .idx 1] [(['k'], .str ['a']), (['i', 'd'], .int 0)]
      = "{\"id\": 0, \"k\": \"Z\"}".toList := by
  decide +kernel

/-- non-vacuity: a `str` composite key; a record without the field keeps the empty key -/
example :
    Gen.CompositeKeysPy.recordKey (.one ['i', 'd']) [] [.key ['p'], .idx 0] [(['a'], .int 1)] = [] ∧
    Gen.CompositeKeysPy.recordKey (.one ['i', 'd']) [] [.key ['p'], .idx 0] [(['i', 'd'], .none)]
      = "{\"id\": null}".toList := by
  decide +kernel

/-- non-vacuity of the step: a present field is assigned, an absent one leaves the fields alone -/
example :
    Gen.CompositeKeysPy.RecordKey.step [] [] [.idx 0] [(['a'], .bool false)] [] ['a'] = [(['a'], .bool false)] ∧
    Gen.CompositeKeysPy.RecordKey.step [] [] [.idx 0] [(['a'], .bool false)] [] ['b'] = [] := by
  decide +kernel

/-- non-vacuity of the list form: two records, the second without the key field -/
example :
    Gen.CompositeKeysPy.recordKeys (Cfg.mk Flags.init false (.one ['i', 'd']) (.many []) (.many []) []) [.key ['p']] 0
      [(.n0, [(['i', 'd'], .str ['7'])]), (.plain, [(['b'], .int 7)])] = ["{\"id\": \"7\"}".toList, []] := by
  decide +kernel

end N0.C08
