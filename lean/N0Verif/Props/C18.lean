import N0Verif.Proofs.NXmlStr
import N0Verif.Proofs.NXmlDD
/-!
# C18 — n0xml keeps document order and its searches return only real nodes

Only property statements live here; definitions of the specification side (`flatKids`,
`elemAt`, `valueOf`, …) and helper lemmas are in `Proofs/NXml.lean`.  The model
(`Model/NXml.lean`) follows `n0struct_xml.py` with fixes C18-a, C18-b, C18-c, C18-d, C18-e applied; its input
is the element tree ElementTree reports (the XML parser is trusted).
-/
namespace N0.C18
open N0 N0.Py N0.NXml

/-! ### a document used by the non-vacuity examples:
`<r><a>x</a><b><a>1</a><c/></b><a y="2">z</a></r>` -/
def s (x : String) : Str := x.toList
def exDoc : Elem :=
  .mk (s "r") none [] [
    .mk (s "a") (some (s "x")) [] [],
    .mk (s "b") none [] [.mk (s "a") (some (s "1")) [] [], .mk (s "c") none [] []],
    .mk (s "a") (some (s "z")) [(s "y", s "2")] []]

/-- **C18 (parse).**  The structure n0xml builds has, in document order, exactly the
elements ElementTree reports below the root: depth, tag, attributes, and the text of every
element without children (n0xml does not keep the text of elements that have children). -/
theorem C18_parse_preserves (e : Elem) : flatVal 0 (parseNode e) = flatKids 0 e.kids := by
  cases e with
  | mk tag text attrib kids => simp [parseNode, flatVal, flat_parseKids, Elem.kids]

example : flatVal 0 (parseNode exDoc) =
    [⟨0, s "a", [], some (some (s "x"))⟩, ⟨0, s "b", [], none⟩, ⟨1, s "a", [], some (some (s "1"))⟩,
     ⟨1, s "c", [], some none⟩, ⟨0, s "a", [(s "y", s "2")], some (some (s "z"))⟩] := by decide

/-- **C18 (get).**  `get` with explicit per-tag indexes (`tag[k]` at every step, list form)
returns exactly the stored value of the ElementTree element at that position, and the default
(`none`) when there is no such element. -/
theorem C18_get_positional (e : Elem) (st : Str × Nat) (p : List (Str × Nat))
    (hp : ∀ q ∈ st :: p, goodTag q.1 = true) :
    getL (parseNode e) ((st :: p).map renderStep) = .ok ((elemAt e (st :: p)).map valueOf) := by
  have h := getL_valueOf e st p hp
  cases e with
  | mk tag text attrib kids =>
    cases kids with
    | nil =>
      obtain ⟨t, k⟩ := st
      have hg := hp (t, k) (by simp)
      simp [parseNode, parseKids, getL, renderStep, getStep_indexed t hg k, scanItems, elemAt,
        Elem.kids, kthTag]
    | cons c cs =>
      have : parseNode (.mk tag text attrib (c :: cs)) = valueOf (.mk tag text attrib (c :: cs)) := by
        simp [parseNode, valueOf, parseElem]
      rw [this]; exact h

example : getL (parseNode exDoc) ([(s "b", 0), (s "a", 0)].map renderStep) = .ok (some (.text (some (s "1")))) := by decide
example : getL (parseNode exDoc) ([(s "a", 1)].map renderStep) = .ok (some (.text (some (s "z")))) := by decide
example : getL (parseNode exDoc) ([(s "a", 2)].map renderStep) = .ok none := by decide
example : getL (parseNode exDoc) ([(s "b", 0), (s "c", 0), (s "a", 0)].map renderStep) = .ok none := by decide

/-- **C18 (findall resolves).**  Every `(path, value)` pair `findall` returns — any expression
(any list of steps: names, `*`, `**`, indexes, `text()` conditions, `..`), both `find_first`
modes — resolves through `get` to that same value.  Tags of the document must be addressable
(`goodV`: no `/`, no `[`). -/
theorem C18_findall_resolves (findFirst : Bool) (root : XVal) (hg : goodV root = true)
    (sought : List Str) (hs : List Hit) (h : findallL findFirst root sought = .ok (some hs)) :
    ∀ p ∈ hs, getL root p.1 = .ok (some p.2) :=
  findallL_resolves findFirst root hg sought hs h

/-- the same for the string form of the expression -/
theorem C18_findall_resolves_str (findFirst : Bool) (e : Elem) (hg : goodV (parseNode e) = true)
    (xp : Str) (hs : List Hit) (h : findall findFirst (parseNode e) xp = .ok (some hs)) :
    ∀ p ∈ hs, getL (parseNode e) p.1 = .ok (some p.2) :=
  findallL_resolves findFirst (parseNode e) hg (xpSteps xp) hs h

example : goodV (parseNode exDoc) = true := by decide
example : findall false (parseNode exDoc) (s "**/a[text()!=z]/../c") =
    .ok (some [([s "b", s "c"], .text none)]) := by decide +kernel
example : findall false (parseNode exDoc) (s "a[*]") =
    .ok (some [([s "a[0]"], .text (some (s "x"))), ([s "a[1]"], .text (some (s "z")))]) := by decide +kernel
example : findall false (parseNode exDoc) (s "../a") = .ok none := by decide +kernel

/-- **C18 (conditions).**  For an expression made of plain steps — a name or `*`, an optional
`[i]`/`[*]`, an optional `[text() op v]` — `findall` returns exactly what the sibling-filter
semantics `selP` prescribes: at every step, in document order, exactly the siblings whose tag
matches (`tagTest`, see `C18_tagTest_plain`), whose per-tag index (`countTag`: number of earlier
siblings with the same tag) passes `idxOk` and whose value passes `condHolds`; nothing else, nothing
twice.  Unbounded in the number of steps and in the document. -/
theorem C18_conditions_exact (root : XVal) (ss : List Str) (sts : List Step)
    (h : AllSimple ss sts) : findallL false root ss = .ok (some (selP sts [] root)) :=
  findallL_simple root ss sts h

/-- for a plain step the tag test is: same tag, or the step is `*` -/
theorem C18_tagTest_plain (st : Step) (h : st.tag ≠ star2) (t : Str) :
    tagTest st t 0 = (t == st.tag || st.tag == star) := tagTest_simple st h t

/-- one step spelled out: the hits of `findall([step])` on the sibling list `items` -/
theorem C18_conditions_exact_one (items : List Item) (step : Str) (st : Step) (h : Simple step st) :
    findallL false (.nodes items) [step] =
      .ok (some (selG st 0 (fun p v => [(p, v)]) [] [] items)) := by
  have := findallL_simple (.nodes items) [step] [st] (.cons h .nil)
  simpa [selP] using this

example : AllSimple [s "a[1]", s "*[text()!=none]"]
    [⟨s "a", some (some 1), none⟩, ⟨s "*", none, some (s "!=", s "none")⟩] := by
  refine .cons ⟨by decide +kernel, by decide, by decide⟩ (.cons ⟨by decide +kernel, by decide, by decide⟩ .nil)
example : findallL false (parseNode exDoc) [s "a[text()!=x]"] =
    .ok (some [([s "a[1]"], .text (some (s "z")))]) := by decide +kernel
example : findallL false (parseNode exDoc) [s "*", s "a[0]"] =
    .ok (some [([s "b", s "a"], .text (some (s "1")))]) := by decide +kernel

/-- **C18 (`**`).**  `findall('**')` returns every leaf (every value that is not a list of
subnodes, i.e. the text of every element without children) exactly once, in document order, each
with its positional path; nothing for a document without elements (fix C18-b). -/
theorem C18_deep_wildcard (root : XVal) :
    findallL false root [star2] = .ok (some (leavesV [] root)) := findallL_deep root

theorem C18_deep_wildcard_str (e : Elem) :
    findall false (parseNode e) (s "**") = .ok (some (leavesV [] (parseNode e))) := by
  have : xpSteps (s "**") = [star2] := by decide +kernel
  simp [findall, this, findallL_deep]

example : leavesV [] (parseNode exDoc) =
    [([s "a"], .text (some (s "x"))), ([s "b", s "a"], .text (some (s "1"))),
     ([s "b", s "c"], .text none), ([s "a[1]"], .text (some (s "z")))] := by decide +kernel
example : findall false (parseNode (.mk (s "r") none [] [])) (s "**") = .ok (some []) := by decide +kernel

/-! ### `findfirst` and `in` -/

/-- what `bool(findall(...))` is -/
def nonEmpty : Option (List Hit) → Bool
  | some (_ :: _) => true
  | _ => false

/-- **C18 (findfirst).**  For **every** expression — any list of steps: names, `*`, `**`, indexes,
`text()` conditions, `..`, any length — `findfirst` is the first `findall` result, and the empty
tuple (`none`) when `findall` returns an empty list or `None`.  (Code with fix C18-d; on the
unfixed code the statement is false for a filtered `**` step directly followed by `..`.) -/
theorem C18_findfirst (root : XVal) (sought : List Str) (r : Option (List Hit))
    (h : findallL false root sought = .ok r) : findfirstL root sought = .ok (firstOf r) :=
  (findfirst_all root sought r h).1

/-- **C18 (in).**  For every expression, `xp in doc` is true exactly when `findall(xp)` is a
non-empty list (fix C18-a applied). -/
theorem C18_in_iff (root : XVal) (sought : List Str) (r : Option (List Hit))
    (h : findallL false root sought = .ok r) : containsL root sought = .ok (nonEmpty r) := by
  rw [(findfirst_all root sought r h).2.1]
  cases r with
  | none => rfl
  | some l => cases l <;> rfl

/-- with `find_first=True` `findall` returns a prefix of what it returns otherwise — `None`
exactly when the full search returns `None` — for every expression -/
theorem C18_find_first_prefix (root : XVal) (sought : List Str) (r : Option (List Hit))
    (h : findallL false root sought = .ok r) :
    ∃ r', findallL true root sought = .ok r' ∧
      ((∃ l l', r = some l ∧ r' = some l' ∧ l' <+: l) ∨ (r = none ∧ r' = none)) :=
  (findfirst_all root sought r h).2.2.1

/-- `findall` returns `None` only when a `..` leaves the node the search started from: the static
classification `kindL` of the step list says which expressions can (`false`), and then the result
is `None` or `[]`; an expression without `..` is never of that kind -/
theorem C18_findall_none (root : XVal) (sought : List Str) (r : Option (List Hit))
    (h : findallL false root sought = .ok r) :
    (kindL sought = true → r ≠ none) ∧ (kindL sought = false → r = none ∨ r = some []) ∧
    (NoUp sought → r ≠ none) :=
  ⟨(findfirst_all root sought r h).2.2.2.1, (findfirst_all root sought r h).2.2.2.2,
    fun hs => (findfirst_all root sought r h).2.2.2.1 (kindL_noUp sought hs)⟩

example : NoUp [s "**", s "a[text()!=z]"] := by
  intro x hx
  simp at hx
  rcases hx with rfl | rfl <;> decide
example : findallL false (parseNode exDoc) [s "a[*]"] =
    .ok (some [([s "a[0]"], .text (some (s "x"))), ([s "a[1]"], .text (some (s "z")))]) := by decide +kernel
example : findallL true (parseNode exDoc) [s "a[*]"] =
    .ok (some [([s "a[0]"], .text (some (s "x")))]) := by decide +kernel

/-- `<r><a><b/><b/></a><a/></r>` -/
def cexDoc : Elem :=
  .mk (s "r") none [] [
    .mk (s "a") none [] [.mk (s "b") none [] [], .mk (s "b") none [] []],
    .mk (s "a") none [] []]

/-- the witness of the former finding C18-d (`**[1]/..` on `<r><a><b/><b/></a><a/></r>`): with the
fix `findall` lists both parents of a second-of-its-tag element, the first `<a>` and the root, and
`findfirst` is the first of them (before the fix `findall` returned the root only) -/
example :
    findallL false (parseNode cexDoc) [s "**[1]", s ".."]
      = .ok (some [([s "a[0]"], .nodes [(s "b", [], .text none), (s "b", [], .text none)]),
                   ([], parseNode cexDoc)]) ∧
    findfirstL (parseNode cexDoc) [s "**[1]", s ".."]
      = .ok (some ([s "a[0]"], .nodes [(s "b", [], .text none), (s "b", [], .text none)])) ∧
    filteredDeepUp [s "**[1]", s ".."] = true := by decide +kernel

example : containsL (parseNode cexDoc) [s "**[1]", s ".."] = .ok true := by decide +kernel
example : containsL (parseNode exDoc) [s "b", s "zz"] = .ok false ∧
    findallL false (parseNode exDoc) [s "b", s "zz"] = .ok (some []) := by decide +kernel
/-- an expression of the second kind: `None`, and `in` is false -/
example : containsL (parseNode exDoc) [s "..", s "a"] = .ok false ∧
    findallL false (parseNode exDoc) [s "..", s "a"] = .ok none ∧ kindL [s "..", s "a"] = false := by
  refine ⟨by decide +kernel, by decide +kernel, ?_⟩
  have e : s ".." = dotdot := by decide +kernel
  rw [e, kindL_up]
/-- a `..` that stays inside: first kind -/
example : findallL false (parseNode exDoc) [s "b", s "a", s "..", s "c"] =
      .ok (some [([s "b", s "c"], .text none)]) ∧
    kindL [s "b", s "a", s "..", s "c"] = true := by
  refine ⟨by decide +kernel, ?_⟩
  have e : s ".." = dotdot := by decide +kernel
  have hc : s "c" ≠ dotdot := by decide +kernel
  have ha : s "a" ≠ dotdot := by decide +kernel
  have hb : s "b" ≠ dotdot := by decide +kernel
  have h1 : kindL [s "c"] = true := kindL_of_rest _ _ hc kindL_nil
  have h2 : kindL [s "..", s "c"] = false := by rw [e]; exact kindL_up _
  have h3 : kindL [s "a", s "..", s "c"] = true := by
    rw [kindL_skip _ _ ha h2]; simpa using h1
  exact kindL_of_rest _ _ hb h3
example : findfirstL (parseNode exDoc) [s "**", s "a"] = .ok (some ([s "b", s "a"], .text (some (s "1")))) := by
  decide +kernel

/-! ### the string forms

The theorems above speak about step lists (an official calling convention of `get`/`findall`).
Here they are lifted to the strings the test-suite uses: result paths joined with `/`, positional
paths `t1[k1]/…/tn[kn]`, and expressions of the property's grammar (`renderExpr`). -/

/-- **C18 (get, string form).**  `get('t1[k1]/…/tn[kn]')` — the string — returns the stored value
of the ElementTree element at that position, the default when there is none (tags addressable and
not empty: `goodTagS`). -/
theorem C18_get_positional_str (e : Elem) (st : Str × Nat) (p : List (Str × Nat))
    (hp : ∀ q ∈ st :: p, goodTagS q.1 = true) :
    getS (parseNode e) (renderIdxPath (st :: p)) = .ok ((elemAt e (st :: p)).map valueOf) := by
  rw [getS_renderIdxPath _ _ hp]
  exact C18_get_positional e st p (fun q hq => goodTagS_goodTag _ (hp q hq))

example : renderIdxPath [(s "b", 0), (s "a", 0)] = s "b[0]/a[0]" := by decide +kernel
example : getS (parseNode exDoc) (s "b[0]/a[0]") = .ok (some (.text (some (s "1")))) := by decide +kernel
example : getS (parseNode exDoc) (s "a[2]") = .ok none := by decide +kernel

/-- **C18 (findall resolves, string form).**  Every `(path, value)` pair `findall(xp)` returns —
any expression string, both `find_first` modes — satisfies `get('/'.join(path)) == value`
(document tags addressable and not empty: `goodVS`). -/
theorem C18_findall_resolves_get_str (findFirst : Bool) (root : XVal) (hg : goodVS root = true)
    (xp : Str) (hs : List Hit) (h : findall findFirst root xp = .ok (some hs)) :
    ∀ p ∈ hs, getS root (join ['/'] p.1) = .ok (some p.2) := fun p hp =>
  getS_of_getL root p.1 p.2 hg
    (findallL_resolves findFirst root (goodVS_goodV root hg) (xpSteps xp) hs h p hp)

/-- the same for the list form of the expression -/
theorem C18_findallL_resolves_get_str (findFirst : Bool) (root : XVal) (hg : goodVS root = true)
    (sought : List Str) (hs : List Hit) (h : findallL findFirst root sought = .ok (some hs)) :
    ∀ p ∈ hs, getS root (join ['/'] p.1) = .ok (some p.2) := fun p hp =>
  getS_of_getL root p.1 p.2 hg (findallL_resolves findFirst root (goodVS_goodV root hg) sought hs h p hp)

/-- **C18 (`**`, string form).**  Every leaf `findall('**')` lists resolves through the string
form of `get` to its text. -/
theorem C18_deep_wildcard_resolves_str (root : XVal) (hg : goodVS root = true) :
    ∀ p ∈ leavesV [] root, getS root (join ['/'] p.1) = .ok (some p.2) :=
  C18_findallL_resolves_get_str false root hg [star2] _ (findallL_deep root)

example : goodVS (parseNode exDoc) = true := by decide +kernel
example : join ['/'] [s "b", s "a"] = s "b/a" := by decide +kernel
example : getS (parseNode exDoc) (s "b/a") = .ok (some (.text (some (s "1")))) := by decide +kernel
example : getS (parseNode exDoc) (s "a[1]") = .ok (some (.text (some (s "z")))) := by decide +kernel

/-- **C18 (expressions as strings).**  For an expression of the property's grammar — tokens `..`
or `tag[idx][text() op v]` with `tag` a name, `*` or `**`, `idx` absent, `[*]` or `[i]`, `op` `=` or
`!=` (`WfTok`) — whose text contains no `**/**` (which `findall` collapses): what `findall` reads
from the rendered string (`**/**` loop, `replace("/[","[").strip('/').split('/')`, the `'..'`
test and the step parser standing for the regex) is exactly the expression. -/
theorem C18_parse_render (e : List Tok) (hne : e ≠ []) (hwf : ∀ t ∈ e, WfTok t)
    (hN : isInfix starsPat (renderExpr e) = false) :
    parseExpr (renderExpr e) = some e ∧ xpSteps (renderExpr e) = e.map renderTok :=
  ⟨parseExpr_renderExpr e hne hwf hN, xpSteps_render e hne hwf hN⟩

/-- the hypothesis about the text, structurally: the rendering of a grammar expression contains no
`**/**` when no plain `**` token is directly followed by a token whose tag is `**` (`NoDD`) -/
theorem C18_parse_render_noDD (e : List Tok) (hne : e ≠ []) (hwf : ∀ t ∈ e, WfTok t) (hdd : NoDD e) :
    parseExpr (renderExpr e) = some e ∧ xpSteps (renderExpr e) = e.map renderTok :=
  C18_parse_render e hne hwf (renderExpr_noStars e hwf hdd)

/-- so `findall` on the rendered string is `findall` on the list of rendered steps -/
theorem C18_findall_rendered (findFirst : Bool) (root : XVal) (e : List Tok) (hne : e ≠ [])
    (hwf : ∀ t ∈ e, WfTok t) (hN : isInfix starsPat (renderExpr e) = false) :
    findall findFirst root (renderExpr e) = findallL findFirst root (e.map renderTok) := by
  unfold findall
  rw [xpSteps_render e hne hwf hN]

/-- one step: the step parser returns the groups the step was rendered from -/
theorem C18_parseStep_render (st : Step) (h : WfStep st) : parseStep (renderStepE st) = some st :=
  parseStep_render st h

/-! ### the `**/**` collapse (`while True: normalized = xpath.replace("**/**", "**") …`)

`normXp xp` is the text the loop of `findall` ends with (`xpSteps xp = splitPath (normXp xp)`);
`ddNF` is a strategy-independent normal form (leftmost rewriting `**/**` → `**`); `ddRun k` is the
text of `k + 1` consecutive `**` steps (`**`, `**/**`, `**/**/**`, …); `collapseDD` drops every plain
`**` token that is directly followed by a token with tag `**` (`Proofs/NXmlDD.lean`). -/

/-- **C18 (`**/**`: the normalisation).**  For every expression text: what the loop returns contains
no `**/**` any more — so it is not the join of any step list in which a step ending in `**` (a plain
`**` in particular) is directly followed by a step beginning with `**` —, normalising again changes
nothing, `findall` reads the same steps from the normalised text, and the result does not depend on
the replacement strategy of `str.replace` (it is the normal form `ddNF`). -/
theorem C18_dd_collapse_idem (xp : Str) :
    isInfix starsPat (normXp xp) = false ∧
    (∀ (pre post : List Str) (x y : Str),
      normXp xp ≠ join ['/'] (pre ++ (x ++ star2) :: (star2 ++ y) :: post)) ∧
    normXp (normXp xp) = normXp xp ∧ xpSteps (normXp xp) = xpSteps xp ∧ normXp xp = ddNF xp :=
  ⟨normXp_noDD xp, noDD_steps _ (normXp_noDD xp), normXp_idem xp, xpSteps_norm xp, normXp_eq xp⟩

/-- the same on the grammar of the property: the token list `findall` ends with has no plain `**`
directly before a `**…` token, collapsing is idempotent and only drops tokens -/
theorem C18_dd_collapse_tokens (e : List Tok) :
    NoDD (collapseDD e) ∧ collapseDD (collapseDD e) = collapseDD e ∧ ∀ t ∈ collapseDD e, t ∈ e :=
  ⟨collapseDD_NoDD e, collapseDD_idem e, collapseDD_mem e⟩

/-- **C18 (`**/**`: same result).**  An expression with a run of `k + 1` consecutive `**` steps —
anywhere: `a` is what precedes the run (empty or ending in `/`, or anything else), `b` what follows
(`/x…`, or the index / condition of the last `**`) — gives exactly the result of the expression with
the run collapsed to one `**`: the same `(path, value)` pairs in the same order (no duplicates
added, none lost), the same `None`, the same exception; likewise `findfirst` and `in`. -/
theorem C18_dd_collapse_same_result (findFirst : Bool) (root : XVal) (a b : Str) (k : Nat) :
    findall findFirst root (a ++ ddRun k ++ b) = findall findFirst root (a ++ star2 ++ b) ∧
    findfirst root (a ++ ddRun k ++ b) = findfirst root (a ++ star2 ++ b) ∧
    contains root (a ++ ddRun k ++ b) = contains root (a ++ star2 ++ b) := by
  unfold findall findfirst contains
  rw [xpSteps_run]
  exact ⟨rfl, rfl, rfl⟩

/-- one `**/**` anywhere in the text (also inside a longer run, overlapping occurrences included) -/
theorem C18_dd_collapse_one (findFirst : Bool) (root : XVal) (a b : Str) :
    findall findFirst root (a ++ starsPat ++ b) = findall findFirst root (a ++ star2 ++ b) := by
  unfold findall
  rw [xpSteps_rewrite]

/-- **C18 (parse ∘ render, `**/**` allowed).**  `C18_parse_render` without the hypothesis on the
text: for every non-empty grammar expression, what `findall` reads from the rendered string is the
collapsed token list, and the search is the list-form search for its rendered steps. -/
theorem C18_parse_render_dd (e : List Tok) (hne : e ≠ []) (hwf : ∀ t ∈ e, WfTok t) :
    parseExpr (renderExpr e) = some (collapseDD e) ∧
    xpSteps (renderExpr e) = (collapseDD e).map renderTok ∧
    ∀ findFirst root, findall findFirst root (renderExpr e) =
      findallL findFirst root ((collapseDD e).map renderTok) :=
  ⟨parseExpr_renderExpr_dd e hne hwf, xpSteps_render_dd e hne hwf,
    fun _ _ => by unfold findall; rw [xpSteps_render_dd e hne hwf]⟩

/-- `<r><a><c><b>1</b><d><b>3</b></d></c><b>2</b></a><b>4</b></r>` -/
def exDocD : Elem :=
  .mk (s "r") none [] [
    .mk (s "a") none [] [
      .mk (s "c") none [] [.mk (s "b") (some (s "1")) [] [],
        .mk (s "d") none [] [.mk (s "b") (some (s "3")) [] []]],
      .mk (s "b") (some (s "2")) [] []],
    .mk (s "b") (some (s "4")) [] []]

example : normXp (s "a/**/**/**/b") = s "a/**/b" := by decide +kernel
example : normXp (s "**/**/x") = s "**/x" := by decide +kernel
example : normXp (s "a/**/**/**/**/**[1]/b") = s "a/**[1]/b" := by decide +kernel
example : s "a/**/**/**/b" = s "a/" ++ ddRun 2 ++ s "/b" := by decide
example : s "**/**/a" = [] ++ ddRun 1 ++ s "/a" := by decide
example : xpSteps (s "a/**/**/**/b") = [s "a", s "**", s "b"] := by decide +kernel
example : findall false (parseNode exDocD) (s "a/**/**/**/b") =
    .ok (some [([s "a", s "c", s "b"], .text (some (s "1"))),
               ([s "a", s "c", s "d", s "b"], .text (some (s "3")))]) := by decide +kernel
example : findall false (parseNode exDocD) (s "a/**/b") =
    .ok (some [([s "a", s "c", s "b"], .text (some (s "1"))),
               ([s "a", s "c", s "d", s "b"], .text (some (s "3")))]) := by decide +kernel
example : findall false (parseNode exDoc) (s "**/**/a") =
    .ok (some [([s "b", s "a"], .text (some (s "1")))]) := by decide +kernel
/-- the list form is *not* normalised: two `**` steps need two levels in between -/
example : findallL false (parseNode exDocD) [s "a", s "**", s "**", s "b"] =
    .ok (some [([s "a", s "c", s "d", s "b"], .text (some (s "3")))]) := by decide +kernel
example : collapseDD [some ⟨s "a", none, none⟩, some stDeep, some stDeep, some ⟨s "**", some (some 1), none⟩,
      some ⟨s "b", none, none⟩] =
    [some ⟨s "a", none, none⟩, some ⟨s "**", some (some 1), none⟩, some ⟨s "b", none, none⟩] := by decide
example : renderExpr [some ⟨s "a", none, none⟩, some stDeep, some stDeep, some ⟨s "**", some (some 1), none⟩,
      some ⟨s "b", none, none⟩] = s "a/**/**/**[1]/b" := by decide +kernel
example : ∀ t ∈ [some ⟨s "a", none, none⟩, some stDeep, some stDeep, (some ⟨s "b", none, none⟩ : Tok)],
    WfTok t := by
  intro t ht
  simp at ht
  rcases ht with rfl | rfl | rfl
  · exact ⟨Or.inr (Or.inr ⟨by decide, by decide, by decide⟩), trivial⟩
  · exact ⟨Or.inr (Or.inl rfl), trivial⟩
  · exact ⟨Or.inr (Or.inr ⟨by decide, by decide, by decide⟩), trivial⟩

/-! ### a step is read whole (fix C18-e)

Before the fix the step regex was applied with `re.match`, had no end anchor and its tag class was
`[a-zA-Z0-9_]+`: `item-id`, `item-id[0]`, `item-id[text()=2]` were all read as the step `item`. -/

/-- **C18 (only real nodes: the step is read whole).**  Whatever the step parser (which stands for
`re.fullmatch` of the step regex) accepts, it has consumed: the text of the step is the tag
followed by what the index / condition groups read — nothing between the tag and the first `[`,
nothing left over — and a step read without index and condition *is* its tag. -/
theorem C18_step_whole (step : Str) (st : Step) (h : parseStep step = some st) :
    ∃ mid, step = st.tag ++ mid ∧ (mid = [] ∨ mid.head? = some '[') ∧
      (st.idx = none → st.cond = none → mid = []) := parseStep_whole step st h

/-- **C18 (only real nodes: a name selects by the whole name).**  For a name `t` — a word character
followed by word characters, `.` and `-`, e.g. `item-id`, `a.b`, `é` — `findall([t])` returns, in
document order, exactly the siblings whose tag **equals** `t` (each with its positional path). -/
theorem C18_name_step (items : List Item) (t : Str) (hne : t ≠ [])
    (hh : ∀ c, t.head? = some c → isWord c = true) (hw : ∀ c ∈ t, isNameChar c = true) :
    findallL false (.nodes items) [t] =
        .ok (some (selG ⟨t, none, none⟩ 0 (fun p v => [(p, v)]) [] [] items)) ∧
      ∀ tag, tagTest ⟨t, none, none⟩ tag 0 = (tag == t) := by
  have hwf : WfStep ⟨t, none, none⟩ := ⟨Or.inr (Or.inr ⟨hne, hh, hw⟩), trivial⟩
  have hr : renderStepE ⟨t, none, none⟩ = t := by simp [renderStepE, renderIdx, renderCond]
  have hns : isNameChar '*' = false := by decide
  have h2 : t ≠ star2 := by
    intro e; subst e
    have := hw '*' (by simp [star2]); rw [hns] at this; cases this
  have h1 : t ≠ star := by
    intro e; subst e
    have := hw '*' (by simp [star]); rw [hns] at this; cases this
  have hp := parseStep_render _ hwf
  have hd := renderStepE_ne_dotdot _ hwf
  rw [hr] at hp hd
  refine ⟨C18_conditions_exact_one items t ⟨t, none, none⟩ ⟨hp, h2, hd⟩, fun tag => ?_⟩
  rw [C18_tagTest_plain _ h2]
  have : ((t == star) = false) := by simpa using h1
  simp [this]

/-- `<r><item>1</item><item-id>2</item-id><item.x>3</item.x><item>4</item><é>5</é></r>` -/
def exDocN : Elem :=
  .mk (s "r") none [] [
    .mk (s "item") (some (s "1")) [] [], .mk (s "item-id") (some (s "2")) [] [],
    .mk (s "item.x") (some (s "3")) [] [], .mk (s "item") (some (s "4")) [] [],
    .mk (s "é") (some (s "5")) [] []]

example : parseStep (s "item-id") = some ⟨s "item-id", none, none⟩ := by decide +kernel
example : parseStep (s "item-id[0][text()=2]") = some ⟨s "item-id", some (some 0), some (s "=", s "2")⟩ := by
  decide +kernel
/-- what the unfixed code truncated now does not parse (`ValueError`) -/
example : parseStep (s "a[x]") = none ∧ parseStep (s "a[1]x") = none ∧ parseStep (s "a[1") = none ∧
    parseStep (s "a[text()=]") = none ∧ parseStep (s ".") = none ∧ parseStep (s "-a") = none := by
  decide +kernel
example : findall false (parseNode exDocN) (s "item-id") = .ok (some [([s "item-id"], .text (some (s "2")))]) := by
  decide +kernel
example : findall false (parseNode exDocN) (s "item-id[0]") = .ok (some [([s "item-id"], .text (some (s "2")))]) := by
  decide +kernel
example : findall false (parseNode exDocN) (s "item-id[text()=2]") =
    .ok (some [([s "item-id"], .text (some (s "2")))]) := by decide +kernel
example : findall false (parseNode exDocN) (s "item") =
    .ok (some [([s "item"], .text (some (s "1"))), ([s "item[1]"], .text (some (s "4")))]) := by decide +kernel
example : findall false (parseNode exDocN) (s "é") = .ok (some [([s "é"], .text (some (s "5")))]) := by decide +kernel
example : findall false (parseNode exDocN) (s "item.x") = .ok (some [([s "item.x"], .text (some (s "3")))]) := by
  decide +kernel
example : findall false (parseNode exDocN) (s "item-zz") = .ok (some []) := by decide +kernel
example : contains (parseNode exDocN) (s "item-zz") = .ok false := by decide +kernel
example : findall false (parseNode exDocN) (s "item-id[1]x") = .error .ValueError := by decide +kernel
example : (s "item-id") ≠ [] ∧ (∀ c, (s "item-id").head? = some c → isWord c = true) ∧
    (∀ c ∈ s "item-id", isNameChar c = true) ∧ (∀ c ∈ s "é", isNameChar c = true) := by decide +kernel

/-- `**/a[1][text()!=z]/../*[*]` -/
def exExpr : List Tok :=
  [some ⟨star2, none, none⟩, some ⟨s "a", some (some 1), some (opNe, s "z")⟩, none,
   some ⟨star, some none, none⟩, some ⟨s "b_2", none, some (opEq, s "none")⟩]

example : renderExpr exExpr = s "**/a[1][text()!=z]/../*[*]/b_2[text()=none]" := by decide +kernel
example : isInfix starsPat (renderExpr exExpr) = false := by decide +kernel
example : ∀ t ∈ exExpr, WfTok t := by
  intro t ht
  simp only [exExpr, List.mem_cons, List.not_mem_nil, or_false] at ht
  rcases ht with rfl | rfl | rfl | rfl | rfl
  · exact ⟨Or.inr (Or.inl rfl), trivial⟩
  · refine ⟨Or.inr (Or.inr ⟨by decide +kernel, by decide +kernel⟩), Or.inr rfl, by decide +kernel, by decide +kernel, ?_⟩
    intro h; revert h; decide
  · trivial
  · exact ⟨Or.inl rfl, trivial⟩
  · refine ⟨Or.inr (Or.inr ⟨by decide +kernel, by decide +kernel⟩), Or.inl rfl, by decide +kernel, by decide +kernel, ?_⟩
    intro _; decide +kernel
example : parseExpr (s "**/a[1][text()!=z]/../*[*]/b_2[text()=none]") = some exExpr := by decide +kernel
example : NoDD exExpr := by
  refine ⟨?_, ?_, ?_, ?_, trivial⟩
  · rintro ⟨_, st, h, ht⟩
    cases h
    revert ht; decide +kernel
  · rintro ⟨h, _⟩; revert h; decide +kernel
  · rintro ⟨h, _⟩; cases h
  · rintro ⟨h, _⟩; revert h; decide +kernel

/-- **C18 (findfirst / in, string form).**  For every expression string. -/
theorem C18_findfirst_str (root : XVal) (xp : Str) (r : Option (List Hit))
    (h : findall false root xp = .ok r) :
    findfirst root xp = .ok (firstOf r) ∧ contains root xp = .ok (nonEmpty r) :=
  ⟨C18_findfirst root (xpSteps xp) r h, C18_in_iff root (xpSteps xp) r h⟩

example : findall false (parseNode cexDoc) (s "**[1]/..") =
      .ok (some [([s "a[0]"], .nodes [(s "b", [], .text none), (s "b", [], .text none)]), ([], parseNode cexDoc)]) ∧
    findfirst (parseNode cexDoc) (s "**[1]/..") =
      .ok (some ([s "a[0]"], .nodes [(s "b", [], .text none), (s "b", [], .text none)])) := by decide +kernel

/-! ### attributes -/

/-- `<r><p k="1"><q/></p><p n="2" k="3">t</p></r>`: attributes on an element with children and on a leaf -/
def exDocA : Elem :=
  .mk (s "r") none [(s "root", s "0")] [
    .mk (s "p") none [(s "k", s "1")] [.mk (s "q") none [] []],
    .mk (s "p") (some (s "t")) [(s "n", s "2"), (s "k", s "3")] []]

/-- **C18 (attributes).**  `get_attrib` with explicit per-tag indexes (list form) returns exactly
the attributes — names, values, order — ElementTree reports for the element at that position,
whether or not it has children; the default (`none`) when there is no such element.
(`C18_parse_preserves` already states that the parsed structure carries every element's
attributes in document order; the root's own attributes are not kept by n0xml.) -/
theorem C18_get_attrib_positional (e : Elem) (st : Str × Nat) (p : List (Str × Nat))
    (hp : ∀ q ∈ st :: p, goodTag q.1 = true) :
    getAttrL (parseNode e) ((st :: p).map renderStep) = .ok ((elemAt e (st :: p)).map attribOf) :=
  getAttrL_parseNode e st p hp

/-- the same for the string `t1[k1]/…/tn[kn]` -/
theorem C18_get_attrib_positional_str (e : Elem) (st : Str × Nat) (p : List (Str × Nat))
    (hp : ∀ q ∈ st :: p, goodTagS q.1 = true) :
    getAttrS (parseNode e) (renderIdxPath (st :: p)) = .ok ((elemAt e (st :: p)).map attribOf) := by
  rw [getAttrS_renderIdxPath _ _ (by simp) hp]
  exact getAttrL_parseNode e st p (fun q hq => goodTagS_goodTag _ (hp q hq))

example : getAttrS (parseNode exDocA) (s "p[0]") = .ok (some [(s "k", s "1")]) := by decide +kernel
example : getAttrS (parseNode exDocA) (s "p[1]") = .ok (some [(s "n", s "2"), (s "k", s "3")]) := by decide +kernel
example : getAttrS (parseNode exDocA) (s "p[0]/q[0]") = .ok (some []) := by decide +kernel
example : getAttrS (parseNode exDocA) (s "p[2]") = .ok none := by decide +kernel
example : flatVal 0 (parseNode exDocA) =
    [⟨0, s "p", [(s "k", s "1")], none⟩, ⟨1, s "q", [], some none⟩,
     ⟨0, s "p", [(s "n", s "2"), (s "k", s "3")], some (some (s "t"))⟩] := by decide +kernel

end N0.C18
