import N0Verif.Proofs.CsvFile
import N0Verif.Proofs.CsvEnc
import N0Verif.Proofs.CsvReader
import N0Verif.Proofs.CsvFileBin
/-!
# C14 — loading a CSV file reproduces the saved table under every header mode

Only property statements live here; helper lemmas are in `Proofs/CsvFile.lean`, the model in
`Model/CsvFile.lean` (it follows the code with fix patches C14-a … C14-e applied).

Reading of the property.  A *table* is an optional header `hdr` (unique names) and a list of
`rows` of text cells; an empty row is written by `csv.writer` as a blank line, so the *data rows*
are the non-empty ones (`dataRows`).  The file is `fileOf bom d eol header rows`: an optional BOM
followed by what `save_csv` (= `csv.writer`, model validated against the bytes on disk) writes.
"Reproduces the saved table" is `records (loadCsv opts file) = .ok (expected records)`, where a
record is the insertion-ordered list of `(key, cell or None)`; `zipPad names row` is the record
"each name ↦ the cell at its position, `None` when the row is short, surplus cells dropped"
(characterised by `C14_padding`, `C14_surplus_dropped`), `cellAt hdr row c` the cell of column `c`.
-/
namespace N0.C14
open N0 N0.Py N0.Csv N0.CsvFile N0.C13 N0.CsvReader

/-- delimiters of the property: a single character, not the quote, CR, LF or U+FEFF -/
def GoodDelim14 (d : Char) : Prop := GoodDelim d ∧ d ≠ bomChar

/-- cells (and names) of the property: no line break, no U+FEFF -/
def CellsOK (rows : List (List Str)) : Prop := NoBreakRows rows ∧ NoBomRows rows

/-- the decoded content of the file: optional BOM, then what `save_csv` writes -/
def fileOf (bom : Bool) (d : Char) (eol : Str) (header : Option (List Str))
    (rows : List (List Str)) : Str :=
  withBom bom (saveCsv d eol header rows)

/-- the rows a file written from `(header, rows)` contains -/
def allRows (header : Option (List Str)) (rows : List (List Str)) : List (List Str) :=
  match header with
  | some h => if h.isEmpty then rows else h :: rows
  | none => rows

theorem fileOf_eq (bom : Bool) (d : Char) (eol : Str) (header : Option (List Str))
    (rows : List (List Str)) :
    fileOf bom d eol header rows = withBom bom (written d eol (allRows header rows)) := by
  unfold fileOf allRows
  cases header with
  | none => rw [saveCsv_none]
  | some h =>
    cases h with
    | nil => simp [saveCsv, written]
    | cons x xs => rw [saveCsv_header _ _ _ _ (by simp)]; simp

/-! ## header taken from the file -/

/-- **C14 (header from the file).**  `column_names` not given and the header announced in one of
the documented ways (`FromFile`: `header_is_mandatory=True`; legacy `contains_header=True`;
`contains_header="<first name>"`; `contains_header=[names…]`): the first non-blank line is the
header, and there is one record per non-empty data row, in order, each name mapped to the saved
cell (`None` where the row is short, surplus cells dropped) — for LF and CRLF, with or without BOM. -/
theorem C14_header_from_file (d : Char) (hd : GoodDelim14 d) (eol : Str) (he : Eol eol) (bom : Bool)
    (hdr : List Str) (hne : hdr ≠ []) (hnd : hdr.Nodup) (rows : List (List Str))
    (hc : CellsOK (hdr :: rows))
    (o : Opts) (hp : Plain o d) (hb : o.binary = false) (hcn : o.columnNames = .none)
    (hm : FromFile o hdr) :
    records (loadCsv o (fileOf bom d eol (some hdr) rows))
      = .ok ((dataRows rows).map (zipPad (hdr.map Key.name))) := by
  obtain ⟨n, hn, hcn', hdec⟩ := fromFile_norm o hdr hcn hm
  unfold fileOf
  rw [saveCsv_header d eol hdr rows hne,
    loadCsv_text_written o hb d hd.1 hd.2 hp eol he bom (hdr :: rows) hc.1 hc.2 n hn hdr
      (dataRows rows) (dataRows_cons_ne hdr rows hne)]
  exact outcome_header o n hdr _ hdec hnd hcn'

/-! ## header given by the caller -/

/-- **C14 (subset / order).**  `column_names = sel` (unique names, all in the file's header, any
order): the header line is recognised and skipped and every record consists of exactly the
requested columns, in the requested order, each with the cell of that column. -/
theorem C14_subset_order (d : Char) (hd : GoodDelim14 d) (eol : Str) (he : Eol eol) (bom : Bool)
    (hdr : List Str) (hne : hdr ≠ []) (hnd : hdr.Nodup) (rows : List (List Str))
    (hc : CellsOK (hdr :: rows))
    (sel : List Str) (hs : sel ≠ []) (hsn : sel.Nodup) (hsub : ∀ m ∈ sel, m ∈ hdr)
    (o : Opts) (hp : Plain o d) (hb : o.binary = false) (hru : o.returnUnknown = false)
    (hm : Given o sel hdr) :
    records (loadCsv o (fileOf bom d eol (some hdr) rows))
      = .ok ((dataRows rows).map (fun r => sel.map (fun c => (Key.name c, cellAt hdr r c)))) := by
  obtain ⟨n, hn, hcn', hdec⟩ := given_norm o sel hdr hs hsn hsub hm
  unfold fileOf
  rw [saveCsv_header d eol hdr rows hne,
    loadCsv_text_written o hb d hd.1 hd.2 hp eol he bom (hdr :: rows) hc.1 hc.2 n hn hdr
      (dataRows rows) (dataRows_cons_ne hdr rows hne)]
  exact outcome_select o hru n hdr sel _ hdec hnd hcn' hsn

/-- **C14 (header given and in the file).**  `column_names` equal to the file's header: the same
records as when the header is taken from the file. -/
theorem C14_header_given_both (d : Char) (hd : GoodDelim14 d) (eol : Str) (he : Eol eol) (bom : Bool)
    (hdr : List Str) (hne : hdr ≠ []) (hnd : hdr.Nodup) (rows : List (List Str))
    (hc : CellsOK (hdr :: rows))
    (o : Opts) (hp : Plain o d) (hb : o.binary = false) (hru : o.returnUnknown = false)
    (hm : Given o hdr hdr) :
    records (loadCsv o (fileOf bom d eol (some hdr) rows))
      = .ok ((dataRows rows).map (zipPad (hdr.map Key.name))) := by
  rw [C14_subset_order d hd eol he bom hdr hne hnd rows hc hdr hne hnd (fun _ h => h) o hp hb hru hm]
  congr 1
  apply List.map_congr_left
  intro r _
  exact (zipPad_eq_cellAt hdr hnd r).symm

/-- **C14 (header given by the caller only; a missing optional header is not consumed).**
The file has no header line, `column_names = names` and the header is not mandatory; the first
data row lacks at least one of the names, so it is not mistaken for a header: after
`seek(file_offset)` it is read again and is the **first record**; all rows are keyed by `names`. -/
theorem C14_header_given_only (d : Char) (hd : GoodDelim14 d) (eol : Str) (he : Eol eol) (bom : Bool)
    (names : List Str) (hs : names ≠ []) (hsn : names.Nodup) (rows : List (List Str))
    (hc : CellsOK rows) (first : List Str) (rest : List (List Str))
    (hrows : dataRows rows = first :: rest) (hmiss : ∃ m ∈ names, m ∉ first)
    (o : Opts) (hp : Plain o d) (hb : o.binary = false)
    (mand : MandArg) (hmand : mand = .none ∨ mand = .bool false) (hm : NamesOnly o names mand) :
    records (loadCsv o (fileOf bom d eol none rows))
      = .ok ((first :: rest).map (zipPad (names.map Key.name))) := by
  have hmo : mand ≠ .other := by rcases hmand with h | h <;> simp [h]
  have hn := namesOnly_norm o names mand hmo hs hsn hm
  have hmd : mandDefault mand = false := by rcases hmand with h | h <;> simp [h, mandDefault]
  unfold fileOf
  rw [saveCsv_none,
    loadCsv_text_written o hb d hd.1 hd.2 hp eol he bom rows hc.1 hc.2 _ hn first rest hrows]
  have hdec := headerDecision_missing o (mandDefault mand) names first hs hmiss
  rw [hmd] at hdec hn ⊢
  simp only [Bool.false_eq_true, if_false] at hdec
  exact outcome_data o _ first rest hdec (by simpa [dataNames] using nodup_map_name names hsn)

/-- the second half of "refused rather than consumed as data": under the hypotheses of
`C14_header_given_only` the first record is the one of the first line -/
theorem C14_missing_optional_not_consumed (d : Char) (hd : GoodDelim14 d) (eol : Str) (he : Eol eol)
    (bom : Bool) (names : List Str) (hs : names ≠ []) (hsn : names.Nodup) (rows : List (List Str))
    (hc : CellsOK rows) (first : List Str) (rest : List (List Str))
    (hrows : dataRows rows = first :: rest) (hmiss : ∃ m ∈ names, m ∉ first)
    (o : Opts) (hp : Plain o d) (hb : o.binary = false)
    (mand : MandArg) (hmand : mand = .none ∨ mand = .bool false) (hm : NamesOnly o names mand) :
    ∃ tl, records (loadCsv o (fileOf bom d eol none rows))
      = .ok (zipPad (names.map Key.name) first :: tl) :=
  ⟨_, C14_header_given_only d hd eol he bom names hs hsn rows hc first rest hrows hmiss o hp hb
    mand hmand hm⟩

/-- **C14 (a missing mandatory header is refused).**  Same file and names, but
`header_is_mandatory=True`: `ReferenceError`; with `raise_exception=False` the iteration ends
without yielding anything (in neither case is a record produced from the first line). -/
theorem C14_missing_mandatory_refused (d : Char) (hd : GoodDelim14 d) (eol : Str) (he : Eol eol)
    (bom : Bool) (names : List Str) (hs : names ≠ []) (hsn : names.Nodup) (rows : List (List Str))
    (hc : CellsOK rows) (first : List Str) (rest : List (List Str))
    (hrows : dataRows rows = first :: rest) (hmiss : ∃ m ∈ names, m ∉ first)
    (o : Opts) (hp : Plain o d) (hb : o.binary = false) (hm : NamesOnly o names (.bool true)) :
    records (loadCsv o (fileOf bom d eol none rows))
      = if o.raiseExc then .error .ReferenceError else .ok [] := by
  have hn := namesOnly_norm o names (.bool true) (by simp) hs hsn hm
  unfold fileOf
  rw [saveCsv_none,
    loadCsv_text_written o hb d hd.1 hd.2 hp eol he bom rows hc.1 hc.2 _ hn first rest hrows]
  have hdec := headerDecision_missing o true names first hs hmiss
  simp only [mandDefault] at hn ⊢
  unfold outcome
  rw [hdec]
  cases o.raiseExc <;> rfl

/-! ## no header -/

/-- **C14 (positional).**  Nothing announced (`NoHeaderOpts`), no header line: every data row,
the first one included, becomes a record keyed by the positions `0 … len(first row) − 1`. -/
theorem C14_positional (d : Char) (hd : GoodDelim14 d) (eol : Str) (he : Eol eol) (bom : Bool)
    (rows : List (List Str)) (hc : CellsOK rows) (first : List Str) (rest : List (List Str))
    (hrows : dataRows rows = first :: rest)
    (o : Opts) (hp : Plain o d) (hb : o.binary = false) (hm : NoHeaderOpts o) :
    records (loadCsv o (fileOf bom d eol none rows))
      = .ok ((first :: rest).map (zipPad (positions first.length))) := by
  obtain ⟨n, hn, hcn', hdec⟩ := noHeader_norm o hm first
  unfold fileOf
  rw [saveCsv_none,
    loadCsv_text_written o hb d hd.1 hd.2 hp eol he bom rows hc.1 hc.2 n hn first rest hrows]
  have hdn : dataNames n first = positions first.length := by simp [dataNames, hcn']
  rw [outcome_data o n first rest hdec (by rw [hdn]; exact nodup_positions _), hdn]

/-- **C14 (empty file).**  A file without any non-empty row (no header, no data) is refused with
`EOFError` (explicit branch "Empty file or file only with spaces"), whatever valid options. -/
theorem C14_empty_file_refused (d : Char) (hd : GoodDelim14 d) (eol : Str) (he : Eol eol) (bom : Bool)
    (rows : List (List Str)) (hc : CellsOK rows) (hrows : dataRows rows = [])
    (o : Opts) (hp : Plain o d) (hb : o.binary = false) (n : Norm) (hn : normalise o = .ok n) :
    loadCsv o (fileOf bom d eol none rows) = .error .EOFError := by
  unfold fileOf
  rw [saveCsv_none]
  exact loadCsv_text_empty o hb d hd.1 hd.2 hp eol he bom rows hc.1 hc.2 n hn hrows

/-! ## padding -/

/-- **C14 (padding, surplus).**  The record of a row has exactly the names as keys, in order;
the `i`-th value is the `i`-th cell, `None` when the row has no `i`-th cell; cells beyond the
last name do not appear. -/
theorem C14_padding (names : List Key) (row : List Str) :
    (zipPad names row).length = names.length
      ∧ ∀ i : Nat, (zipPad names row)[i]? = names[i]?.map (fun k => (k, row[i]?)) :=
  ⟨zipPad_length names row, zipPad_getElem? names row⟩

/-! ## line endings, BOM, binary mode -/

/-- **C14 (LF/CRLF, BOM invariance).**  For **every** option record (also stripping options,
`skip_empty_lines=False`, invalid combinations …) in text mode, the result — records, original
lines, or the exception — is the same for LF and CRLF files, with or without a BOM. -/
theorem C14_lf_crlf_bom_invariant (d : Char) (hd : GoodDelim14 d) (e₁ e₂ : Str) (h₁ : Eol e₁)
    (h₂ : Eol e₂) (b₁ b₂ : Bool) (header : Option (List Str)) (rows : List (List Str))
    (hc : CellsOK (allRows header rows)) (o : Opts) (hb : o.binary = false) :
    loadCsv o (fileOf b₁ d e₁ header rows) = loadCsv o (fileOf b₂ d e₂ header rows) := by
  unfold loadCsv
  rw [fileOf_eq, fileOf_eq, hb,
    physLines_text d hd.1 hd.2 e₁ h₁ b₁ _ hc.1 hc.2, physLines_text d hd.1 hd.2 e₂ h₂ b₂ _ hc.1 hc.2]

/-- **C14 (binary read mode).**  On the same characters (for a byte file: the table of encoded
cells and names), binary mode yields the same records as text mode, for LF and CRLF, under every
header option. -/
theorem C14_binary_same (d : Char) (hd : GoodDelim14 d) (eol : Str) (he : Eol eol)
    (header : Option (List Str)) (rows : List (List Str)) (hc : CellsOK (allRows header rows))
    (o : Opts) (hp : Plain o d) (hb : o.binary = false) :
    records (loadCsv { o with binary := true } (fileOf false d eol header rows))
      = records (loadCsv o (fileOf false d eol header rows)) := by
  have hp' : Plain { o with binary := true } d := ⟨hp.delim, hp.skip, hp.sl, hp.sf⟩
  rw [fileOf_eq]
  cases hn : normalise o with
  | error e =>
    unfold loadCsv
    rw [loadLines_norm_error o e hn, loadLines_norm_error _ e (by rw [normalise_binary]; exact hn)]
  | ok n =>
    cases hall : dataRows (allRows header rows) with
    | nil =>
      rw [loadCsv_text_empty o hb d hd.1 hd.2 hp eol he false _ hc.1 hc.2 n hn hall]
      have : loadCsv { o with binary := true } (withBom false (written d eol (allRows header rows)))
          = .error .EOFError := by
        unfold loadCsv
        simp only [withBom, Bool.false_eq_true, if_false]
        rw [physLines_bin d hd.1 eol he _ hc.1]
        apply loadLines_empty _ n (by rw [normalise_binary]; exact hn)
        rw [← hall]
        exact lines_written _ d hd.1 hp' eol he.isEol he.ne_nil _ hc.1
      rw [this]
    | cons h rest =>
      rw [loadCsv_text_written o hb d hd.1 hd.2 hp eol he false _ hc.1 hc.2 n hn h rest hall]
      have := loadCsv_bin_written { o with binary := true } rfl d hd.1 hp' eol he _ hc.1 n
        (by rw [normalise_binary]; exact hn) h rest hall
      simp only [withBom, Bool.false_eq_true, if_false]
      rw [this]
      rfl

/-- **C14 (encoding commutes with writing).**  For every byte encoder that is transparent on
ASCII and maps other characters to bytes ≥ 0x80 (UTF-8, latin-1, cp1252 …; an arbitrary function
here, so the codec is not trusted), an ASCII delimiter and LF/CRLF: the encoded bytes of the file
`save_csv` writes are the file of the table of encoded cells and names. -/
theorem C14_encoding_commutes (e : Char → Str) (he : AsciiTransparent e) (d : Char)
    (hda : d.toNat < 128) (eol : Str) (heol : Eol eol) (header : Option (List Str))
    (rows : List (List Str)) :
    encS e (fileOf false d eol header rows)
      = fileOf false d eol (header.map (fun h => h.map (encS e))) (encRows e rows) := by
  have ha : AsciiDialect d eol := ⟨hda, by
    intro c hc
    rcases heol.isEol c hc with h | h <;> subst h <;> decide⟩
  unfold fileOf withBom
  simp only [Bool.false_eq_true, if_false]
  exact (saveCsv_enc e he d eol ha header rows).symm

/-- **C14 (binary read mode yields the same table as encoded bytes).**  Reading the encoded bytes
of a saved table in binary mode gives the records that text mode gives for the table of encoded
cells and names — to which the header-mode theorems above apply (the names the caller passes are
bytes) — for LF and CRLF, under every header option. -/
theorem C14_binary_encoded (e : Char → Str) (he : AsciiTransparent e) (d : Char)
    (hd : GoodDelim14 d) (hda : d.toNat < 128) (eol : Str) (heol : Eol eol)
    (header : Option (List Str)) (rows : List (List Str))
    (hc : NoBreakRows (allRows header rows))
    (o : Opts) (hp : Plain o d) (hb : o.binary = false) :
    records (loadCsv { o with binary := true } (encS e (fileOf false d eol header rows)))
      = records (loadCsv o
          (fileOf false d eol (header.map (fun h => h.map (encS e))) (encRows e rows))) := by
  rw [C14_encoding_commutes e he d hda eol heol header rows]
  have hall : allRows (header.map (fun h => h.map (encS e))) (encRows e rows)
      = encRows e (allRows header rows) := by
    cases header with
    | none => rfl
    | some h => cases h <;> simp [allRows, encRows]
  apply C14_binary_same d hd eol heol _ _ _ o hp hb
  rw [hall]
  exact ⟨noBreakRows_enc e he _ hc, noBomRows_enc e he _⟩

/-! ## non-vacuity: concrete tables and options that meet the hypotheses -/

section NonVacuity

private def hdrAB : List Str := [['a'], ['b', ',']]
private def rowsX : List (List Str) := [[['1'], ['"', '2']], [], [['3']], [['4'], [], ['6']]]

example : GoodDelim14 ',' := ⟨⟨by decide, by decide, by decide⟩, by decide⟩
example : Eol CRLF := Or.inr rfl
example : CellsOK (hdrAB :: rowsX) := by
  unfold CellsOK NoBreakRows NoBomRows NoBreak hdrAB rowsX
  decide
example : Plain ({ } : Opts) ',' := ⟨rfl, rfl, rfl, rfl⟩
example : FromFile { mandatory := .bool true } hdrAB := .mandatory rfl rfl
example : FromFile { containsHeader := .bool true } hdrAB := .legacy rfl (Or.inl rfl)
example : FromFile { containsHeader := .str ['a'] } hdrAB := .first ['a'] rfl (by simp) rfl (by simp)
example : FromFile { containsHeader := .list [['b', ',']], mandatory := .bool true } hdrAB :=
  .names [['b', ',']] rfl (by simp) (by simp) (by simp [hdrAB]) (by simp)
example : Given { columnNames := .list [['b', ','], ['a']] } [['b', ','], ['a']] hdrAB :=
  .plain rfl (Or.inl rfl) (by simp)
example : NoHeaderOpts { containsHeader := .bool false } := ⟨rfl, Or.inr rfl, Or.inl rfl⟩
example : NamesOnly { columnNames := .list hdrAB, mandatory := .bool true } hdrAB (.bool true) :=
  ⟨rfl, rfl, rfl⟩

-- header from the file, CRLF + BOM, quoted name, quoted cell, blank line, short and long rows
example : records (loadCsv { containsHeader := .bool true } (fileOf true ',' CRLF (some hdrAB) rowsX))
    = .ok [[(.name ['a'], some ['1']), (.name ['b', ','], some ['"', '2'])],
           [(.name ['a'], some ['3']), (.name ['b', ','], none)],
           [(.name ['a'], some ['4']), (.name ['b', ','], some [])]] := by decide
-- subset and order
example : records (loadCsv { columnNames := .list [['b', ','], ['a']] } (fileOf false ',' LF (some hdrAB) rowsX))
    = .ok [[(.name ['b', ','], some ['"', '2']), (.name ['a'], some ['1'])],
           [(.name ['b', ','], none), (.name ['a'], some ['3'])],
           [(.name ['b', ','], some []), (.name ['a'], some ['4'])]] := by decide
-- positional: the first line is data
example : records (loadCsv { } (fileOf false ',' LF none rowsX))
    = .ok [[(.pos 0, some ['1']), (.pos 1, some ['"', '2'])],
           [(.pos 0, some ['3']), (.pos 1, none)],
           [(.pos 0, some ['4']), (.pos 1, some [])]] := by decide
-- names given, header missing: refused when mandatory, first line kept as data otherwise
example : loadCsv { columnNames := .list hdrAB, mandatory := .bool true } (fileOf true ',' LF none rowsX)
    = .error .ReferenceError := by decide
example : loadCsv { columnNames := .list hdrAB, mandatory := .bool true, raiseExc := false }
    (fileOf true ',' LF none rowsX) = .ok [] := by decide
example : (records (loadCsv { columnNames := .list hdrAB } (fileOf true ',' LF none rowsX))).map List.length
    = .ok 3 := by decide
-- binary mode, CRLF
example : records (loadCsv { mandatory := .bool true, binary := true } (fileOf false ',' CRLF (some hdrAB) rowsX))
    = records (loadCsv { mandatory := .bool true } (fileOf true ',' LF (some hdrAB) rowsX)) := by decide
-- the other branches of the decision table (not properties, shown reachable)
example : loadCsv { containsHeader := .bool true, mandatory := .bool false } [] = .error .SyntaxError := by decide
example : loadCsv { } [] = .error .EOFError := by decide
example : loadCsv { mandatory := .bool true } ['a', ',', 'a', '\n', '1'] = .error .KeyError := by decide
example : loadCsv { } ['"', 'a', '"', 'b'] = .error .ValueError := by decide

-- an ASCII-transparent encoder: latin-1-like (identity below 256, `?` above)
private def enc1 (c : Char) : Str := if c.toNat < 256 then [c] else [Char.ofNat 0xBF]
example : AsciiTransparent enc1 := by
  refine ⟨?_, ?_, ?_, ?_⟩
  · intro c hc; have : c.toNat < 256 := by omega
    simp [enc1, this]
  · intro c hc b hb
    unfold enc1 at hb
    split at hb
    · simp at hb; subst hb; exact hc
    · simp at hb; subst hb; decide
  · intro c; unfold enc1; split <;> simp
  · intro c b hb
    unfold enc1 at hb
    split at hb
    · simp at hb; subst hb; assumption
    · simp at hb; subst hb; decide

end NonVacuity

/-! ## "… and all agree with the standard csv reader"

`readerRecords d lines` is `list(csv.reader(lines, delimiter=d, strict=True))` (model of CPython's
`_csv.c` state machine, `Model/CsvReader.lean`), `RErr.csv` is `csv.Error`. -/

/-- **C14 (the line parsers agree, library generator).**  On every line the library generator
produces from a row of fields without line breaks (any CR/LF line ending, also none), `csv.reader`
and `parse_complex_csv_line` both return exactly the row.  The row `['']` is excluded: the library
writes it as a blank line (`C14_reader_blank_line`). -/
theorem C14_agrees_with_csv_reader (d : Char) (hd : GoodDelim d) (row : List Str) (hrow : row ≠ [])
    (hlone : row ≠ [[]]) (hf : ∀ g ∈ row, NoBreak g) (eol : Str) (he : IsEol eol) :
    readerRecords d [gen d row eol] = .ok [row] ∧ parse d (gen d row eol) = .ok row := by
  refine ⟨?_, C13_roundtrip d hd row hrow hf eol he⟩
  cases row with
  | nil => exact absurd rfl hrow
  | cons f fs =>
    unfold gen
    simp only
    rw [gen_acc_dropLast]
    unfold readerRecords
    rw [csvr_reader_rowStr d hd _ (needsQuote_adequate d) f fs hf (by
      intro h1 h2; subst h1; subst h2; exact absurd rfl hlone) eol he]

/-- **C14 (the line parsers agree, csv.writer).**  The same for every line `csv.writer`
(`QUOTE_MINIMAL`) writes — `save_csv` writes its files with it — for every non-empty row. -/
theorem C14_agrees_with_csv_reader_writer (d : Char) (hd : GoodDelim d) (row : List Str)
    (hrow : row ≠ []) (hf : ∀ g ∈ row, NoBreak g) (term : Str) (he : IsEol term) :
    readerRecords d [writerLine d term row] = .ok [row] ∧ parse d (writerLine d term row) = .ok row := by
  refine ⟨?_, C13_roundtrip_writer d hd row hrow hf term he⟩
  cases row with
  | nil => exact absurd rfl hrow
  | cons f fs =>
    unfold writerLine
    simp only
    rw [join_eq_rowStr]
    unfold readerRecords
    rw [csvr_reader_rowStr d hd _ (writer_adequate d term _) f fs hf (by
      intro h1 h2; subst h1; subst h2; simp [writerNeedsQuote]) term he]

/-- the quoted field at the end of `body` is not closed (the library parser's state after `body`) -/
def OpenQuote (d : Char) (body : Str) : Prop :=
  ∃ st, run d St.init body = .ok st ∧ st.qb = true ∧ st.ex = false

/-- **C14 (where the two line parsers agree, exactly).**  On an arbitrary physical line
`body ++ eol` (`body` not empty, no line break inside): the library parser refuses it
(`ValueError`) only if `csv.reader` does (`csv.Error`); if the library parser accepts it and the
last quoted field is closed, `csv.reader` returns the same fields; if the last quoted field is
still open, the library parser accepts the line and `csv.reader` refuses it (strict mode,
"unexpected end of data"). -/
theorem C14_reader_vs_parse (d : Char) (hd : GoodDelim d) (body : Str) (hb : NoBreak body)
    (hne : body ≠ []) (eol : Str) (he : IsEol eol) :
    (∀ e, parse d (body ++ eol) = .error e → readerRecords d [body ++ eol] = .error .csv)
    ∧ (∀ fs, parse d (body ++ eol) = .ok fs → ¬ OpenQuote d body →
        readerRecords d [body ++ eol] = .ok [fs])
    ∧ (OpenQuote d body → readerRecords d [body ++ eol] = .error .csv
        ∧ ∃ fs, parse d (body ++ eol) = .ok fs) := by
  have hp : parse d (body ++ eol) = (run d St.init body >>= fun st => pure (st.out ++ [st.field])) := by
    unfold parse
    rw [rstrip_crlf_append body eol hb he]
  have hr := csvr_reader_line d hd body hb hne eol he
  unfold readerRecords
  rw [hr, hp]
  cases hrun : run d St.init body with
  | error e =>
    refine ⟨fun _ _ => rfl, ?_, ?_⟩
    · intro fs h; simp [bind, Except.bind] at h
    · rintro ⟨st, h, _⟩; rw [hrun] at h; cases h
  | ok st =>
    simp only [bind, Except.bind, pure, Except.pure]
    refine ⟨fun e h => (by cases h), ?_, ?_⟩
    · intro fs h hopen
      cases h
      have : (st.qb && !st.ex) = false := by
        cases hq : st.qb <;> cases hx : st.ex <;> simp
        exact hopen ⟨st, hrun, hq, hx⟩
      simp [this]
    · rintro ⟨st', h, hq, hx⟩
      rw [hrun] at h
      cases h
      simp [hq, hx]

/-- **C14 (closing the open quote).**  In the third case of `C14_reader_vs_parse` the library
parser behaves as if the missing closing quote were there: with it, `csv.reader` returns the
fields the library parser returns without it. -/
theorem C14_reader_open_quote_closed (d : Char) (hd : GoodDelim d) (body : Str) (hb : NoBreak body)
    (eol : Str) (he : IsEol eol) (ho : OpenQuote d body) :
    ∃ fs, parse d (body ++ eol) = .ok fs ∧ readerRecords d [body ++ ['"'] ++ eol] = .ok [fs] := by
  obtain ⟨st, hrun, hq, hx⟩ := ho
  have hb' : NoBreak (body ++ ['"']) := by
    constructor <;> intro h <;> rw [List.mem_append] at h <;> rcases h with h | h
    · exact hb.1 h
    · simp at h
    · exact hb.2 h
    · simp at h
  have hd' : ¬ ('"' = d) := fun h => hd.1 h.symm
  have hrun' : run d St.init (body ++ ['"']) = .ok { st with ex := true } := by
    rw [run_append, hrun]
    obtain ⟨field, out, qb, ex⟩ := st
    simp only at hq hx
    subst hq; subst hx
    simp [bind, Except.bind, run, step, hd']
  refine ⟨st.out ++ [st.field], ?_, ?_⟩
  · unfold parse
    rw [rstrip_crlf_append body eol hb he, hrun]
    rfl
  · unfold readerRecords
    rw [csvr_reader_line d hd _ hb' (by simp) eol he, hrun']
    simp [hq]

/-- **C14 (blank line).**  The one other difference: on a blank line `csv.reader` yields the
empty record `[]`, the library parser the single empty field `['']` (so `load_csv` with
`skip_empty_lines=False` makes a record of it, `C14_keep_empty_lines`). -/
theorem C14_reader_blank_line (d : Char) (eol : Str) (he : IsEol eol) :
    readerRecords d [eol] = .ok [[]] ∧ parse d eol = .ok [[]] := by
  constructor
  · unfold readerRecords
    rw [csvr_readerAux_cons d eol [] RSt.init (csvr_reader_blank d eol he) rfl]
    rfl
  · unfold parse
    have := rstrip_crlf_append [] eol ⟨by simp, by simp⟩ he
    rw [List.nil_append] at this
    rw [this]
    rfl

/-- counter-example to unrestricted agreement: an unterminated quoted field -/
theorem C14_reader_open_quote_cex :
    parse ',' ['"', 'a', ',', 'b'] = .ok [['a', ',', 'b']]
      ∧ readerRecords ',' [['"', 'a', ',', 'b']] = .error .csv := by decide

/-- counter-example: the library generator writes the row `['']` as a blank line, which
`csv.reader` reads as `[]` -/
theorem C14_reader_lone_empty_cex :
    parse ',' (gen ',' [[]] ['\n']) = .ok [[]] ∧ readerRecords ',' [gen ',' [[]] ['\n']] = .ok [[]] := by
  decide

/-- **C14 (csv.reader reads the saved file back as the table).**  Over the lines of the file
`save_csv` wrote (text mode, `newline=''`, `utf-8-sig`), `csv.reader` yields the rows of the table,
header first — an empty row as the empty record; with `C14_positional` / `C14_header_from_file`
this is "`load_csv` agrees with the standard csv reader" on whole files. -/
theorem C14_reader_reads_saved_file (d : Char) (hd : GoodDelim14 d) (eol : Str) (he : Eol eol)
    (bom : Bool) (header : Option (List Str)) (rows : List (List Str))
    (hc : CellsOK (allRows header rows)) :
    readerRecords d (nlLines (decodeSig (fileOf bom d eol header rows)))
      = .ok (allRows header rows) := by
  rw [fileOf_eq, csvr_nlLines_file d hd.1 hd.2 eol he bom _ hc.1 hc.2]
  unfold readerRecords
  rw [csvr_readerAux_written d hd.1 eol he.isEol _ hc.1]

section NonVacuityReader
example : readerRecords ',' [gen ',' [['a', ',', '"'], ['"'], [], ['"', 'x', '"']] ['\r', '\n']]
    = .ok [[['a', ',', '"'], ['"'], [], ['"', 'x', '"']]] := by decide
example : readerRecords ';' [writerLine ';' ['\n'] [[]]] = .ok [[[]]] := by decide
-- all three clauses of `C14_reader_vs_parse` are inhabited
example : parse ',' ['"', 'a', '"', 'b'] = .error .ValueError
    ∧ readerRecords ',' [['"', 'a', '"', 'b']] = .error .csv := by decide
example : ¬ OpenQuote ',' ['a', '"', 'b'] := by
  rintro ⟨st, h, hq, _⟩
  have : run ',' St.init ['a', '"', 'b'] = .ok ⟨['a', '"', 'b'], [], false, false⟩ := by decide
  rw [this] at h; cases h; cases hq
example : OpenQuote ',' ['"', 'a'] := ⟨⟨['a'], [], true, false⟩, by decide, rfl, rfl⟩
-- a record over two physical lines (outside the theorems, inside the model)
example : readerRecords ',' [['"', 'a', '\n'], ['b', '"', ',', 'c', '\n']]
    = .ok [[['a', '\n', 'b'], ['c']]] := by decide
end NonVacuityReader

/-! ## load_native_csv (csv.DictReader) on saved files

`nativeCsv no file` is `list(load_native_csv(path, …))` (model in `Model/CsvReader.lean`, with
fix C14-f).  A `DictReader` row `nativeRec names row` is the named part `zipPad names row`
(`C14_native_record`) plus the surplus cells under the key `None`; "the same records as
`load_csv`" is equality of the named parts (`NRec.row`). -/

/-- a `DictReader` row over unique names: the named part is `load_csv`'s record, the surplus
cells (which `load_csv` drops) are kept under the key `None` -/
theorem C14_native_record (names : List Str) (hn : names.Nodup) (row : List Str) :
    (nativeRec names row).row = zipPad (names.map Key.name) row
      ∧ (nativeRec names row).rest
          = if names.length < row.length then some (row.drop names.length) else none := by
  rw [nativeRec_nodup names hn]
  exact ⟨rfl, rfl⟩

/-- **C14 (load_native_csv, header given and in the file).**  `column_names = hdr` and
`contains_header` true (the default): the header line is checked and skipped, blank lines are
skipped, one row per non-empty data row — the records `load_csv` yields in the same mode. -/
theorem C14_native_header_given_both (d : Char) (hd : GoodDelim14 d) (eol : Str) (he : Eol eol)
    (bom : Bool) (hdr : List Str) (hne : hdr ≠ []) (hnd : hdr.Nodup) (rows : List (List Str))
    (hc : CellsOK (hdr :: rows)) (re : Bool)
    (o : Opts) (hp : Plain o d) (hb : o.binary = false) (hru : o.returnUnknown = false)
    (hm : Given o hdr hdr) :
    nativeCsv { columnNames := .list hdr, delim := d, containsHeader := true, raiseExc := re }
        (fileOf bom d eol (some hdr) rows)
      = .ok ((dataRows rows).map (nativeRec hdr))
    ∧ records (loadCsv o (fileOf bom d eol (some hdr) rows))
      = .ok (((dataRows rows).map (nativeRec hdr)).map NRec.row) := by
  constructor
  · unfold fileOf
    rw [saveCsv_header d eol hdr rows hne]
    obtain ⟨h1, h2⟩ := csvr_native_file
      { columnNames := .list hdr, delim := d, containsHeader := true, raiseExc := re } d hd.1 hd.2
      rfl eol he bom (hdr :: rows) hc.1 hc.2
    rw [h1]
    exact csvr_native_given_header _ hdr hne hnd rfl rfl _ rows h2
  · rw [C14_header_given_both d hd eol he bom hdr hne hnd rows hc o hp hb hru hm, List.map_map]
    congr 1
    apply List.map_congr_left
    intro r _
    exact ((C14_native_record hdr hnd r).1).symm

/-- **C14 (load_native_csv, names given, no header line).**  `column_names = names`,
`contains_header` false: every non-empty row is a record keyed by the names (no condition on the
first row — nothing is looked for); under the hypotheses of `C14_header_given_only` these are
`load_csv`'s records. -/
theorem C14_native_names_only (d : Char) (hd : GoodDelim14 d) (eol : Str) (he : Eol eol)
    (bom : Bool) (names : List Str) (hsn : names.Nodup) (rows : List (List Str))
    (hc : CellsOK rows) (re : Bool) :
    nativeCsv { columnNames := .list names, delim := d, containsHeader := false, raiseExc := re }
        (fileOf bom d eol none rows)
      = .ok ((dataRows rows).map (nativeRec names))
    ∧ ∀ (o : Opts) (first : List Str) (rest : List (List Str)) (mand : MandArg),
        names ≠ [] → dataRows rows = first :: rest → (∃ m ∈ names, m ∉ first) → Plain o d →
        o.binary = false → (mand = .none ∨ mand = .bool false) → NamesOnly o names mand →
        records (loadCsv o (fileOf bom d eol none rows))
          = .ok (((dataRows rows).map (nativeRec names)).map NRec.row) := by
  constructor
  · unfold fileOf
    rw [saveCsv_none]
    obtain ⟨h1, h2⟩ := csvr_native_file
      { columnNames := .list names, delim := d, containsHeader := false, raiseExc := re } d hd.1 hd.2
      rfl eol he bom rows hc.1 hc.2
    rw [h1]
    exact csvr_native_names_only _ names hsn rfl rfl _ rows h2
  · intro o first rest mand hs hrows hmiss hp hb hmand hm
    rw [C14_header_given_only d hd eol he bom names hs hsn rows hc first rest hrows hmiss o hp hb
      mand hmand hm, hrows, List.map_map]
    congr 1
    apply List.map_congr_left
    intro r _
    exact ((C14_native_record names hsn r).1).symm

/-- **C14 (load_native_csv, header taken from the file).**  `column_names` absent (with fix
C14-f: whatever `contains_header`, also the default `True`): the first line gives the names; the
records are those of `load_csv` with the header taken from the file. -/
theorem C14_native_header_from_file (d : Char) (hd : GoodDelim14 d) (eol : Str) (he : Eol eol)
    (bom : Bool) (hdr : List Str) (hne : hdr ≠ []) (hnd : hdr.Nodup) (rows : List (List Str))
    (hc : CellsOK (hdr :: rows)) (ch re : Bool)
    (o : Opts) (hp : Plain o d) (hb : o.binary = false) (hcn : o.columnNames = .none)
    (hm : FromFile o hdr) :
    nativeCsv { columnNames := .none, delim := d, containsHeader := ch, raiseExc := re }
        (fileOf bom d eol (some hdr) rows)
      = .ok ((dataRows rows).map (nativeRec hdr))
    ∧ records (loadCsv o (fileOf bom d eol (some hdr) rows))
      = .ok (((dataRows rows).map (nativeRec hdr)).map NRec.row) := by
  constructor
  · unfold fileOf
    rw [saveCsv_header d eol hdr rows hne]
    obtain ⟨h1, h2⟩ := csvr_native_file
      { columnNames := .none, delim := d, containsHeader := ch, raiseExc := re } d hd.1 hd.2
      rfl eol he bom (hdr :: rows) hc.1 hc.2
    rw [h1]
    exact csvr_native_from_file _ hdr rfl _ rows h2
  · rw [C14_header_from_file d hd eol he bom hdr hne hnd rows hc o hp hb hcn hm, List.map_map]
    congr 1
    apply List.map_congr_left
    intro r _
    exact ((C14_native_record hdr hnd r).1).symm

/-- **C14 (load_native_csv refuses a missing header).**  `column_names = names`,
`contains_header` true, but the first non-blank row is not exactly the names: `ReferenceError`,
or nothing at all with `raise_exception=False` — as `load_csv` (`C14_missing_mandatory_refused`). -/
theorem C14_native_missing_refused (d : Char) (hd : GoodDelim14 d) (eol : Str) (he : Eol eol)
    (bom : Bool) (names : List Str) (hsn : names.Nodup) (rows : List (List Str))
    (hc : CellsOK rows) (first : List Str) (rest : List (List Str))
    (hrows : dataRows rows = first :: rest) (hdiff : first ≠ names) (re : Bool) :
    nativeCsv { columnNames := .list names, delim := d, containsHeader := true, raiseExc := re }
        (fileOf bom d eol none rows)
      = if re then .error (.py .ReferenceError) else .ok [] := by
  unfold fileOf
  rw [saveCsv_none]
  obtain ⟨h1, h2⟩ := csvr_native_file
    { columnNames := .list names, delim := d, containsHeader := true, raiseExc := re } d hd.1 hd.2
    rfl eol he bom rows hc.1 hc.2
  rw [h1]
  exact csvr_native_refused _ names hsn rfl rfl _ rows first rest hrows hdiff h2

/-! ## load_simple_csv -/

/-- **C14 (load_simple_csv = load_csv without quotes).**  On **every** file that contains no
quote character and for **every** option record (text mode; `load_simple_csv` has no
`return_unknown_fields`), `load_simple_csv` — plain `split` — returns what `load_csv` returns:
records, original lines or the exception. -/
theorem C14_simple_no_quote (o : Opts) (hb : o.binary = false) (hru : o.returnUnknown = false)
    (file : Str) (hq : '"' ∉ file) : loadSimple o file = loadCsv o file :=
  csvr_loadSimple_no_quote o hb hru file hq

/-- **C14 (load_simple_csv on saved tables).**  For a table saved by `save_csv` whose cells and
names contain neither the delimiter nor a quote (and no row is the single empty cell, which
`csv.writer` writes as `""`): the same result as `load_csv` under every header mode and every
strip / skip option — so all the C14 theorems apply to `load_simple_csv`. -/
theorem C14_simple_saved_table (d : Char) (hd : GoodDelim14 d) (eol : Str) (he : Eol eol)
    (bom : Bool) (header : Option (List Str)) (rows : List (List Str))
    (hr : ∀ r ∈ allRows header rows, (∀ f ∈ r, PlainCell d f) ∧ r ≠ [[]])
    (o : Opts) (hb : o.binary = false) (hru : o.returnUnknown = false) :
    loadSimple o (fileOf bom d eol header rows) = loadCsv o (fileOf bom d eol header rows) := by
  apply C14_simple_no_quote o hb hru
  rw [fileOf_eq]
  exact csvr_written_no_quote d hd.1.1 eol he _ hr bom

/-- counter-example outside that domain: a quoted cell keeps its quotes under `load_simple_csv` -/
theorem C14_simple_quote_cex :
    records (loadSimple { } ['"', 'a', '"', '\n']) = .ok [[(.pos 0, some ['"', 'a', '"'])]]
      ∧ records (loadCsv { } ['"', 'a', '"', '\n']) = .ok [[(.pos 0, some ['a'])]] :=
  ⟨by decide, by decide⟩

/-! ## strip_field / strip_line / skip_empty_lines=False in closed form -/

/-- **C14 (strip_field).**  `strip_field=True` (header taken from the file, announced in one of
the documented ways for the *stripped* names): names and cells are the written ones with their
surrounding blanks removed (`pyStrip` = `str.strip()`; see `C14_strip_padded`). -/
theorem C14_strip_field (d : Char) (hd : GoodDelim14 d) (eol : Str) (he : Eol eol) (bom : Bool)
    (hdr : List Str) (hne : hdr ≠ []) (hnd : (hdr.map pyStrip).Nodup) (rows : List (List Str))
    (hc : CellsOK (hdr :: rows))
    (o : Opts) (hp : StripField o d) (hcn : o.columnNames = .none)
    (hm : FromFile o (hdr.map pyStrip)) :
    records (loadCsv o (fileOf bom d eol (some hdr) rows))
      = .ok ((dataRows rows).map
          (fun r => zipPad ((hdr.map pyStrip).map Key.name) (r.map pyStrip))) := by
  obtain ⟨n, hn, hcn', hdec⟩ := fromFile_norm o (hdr.map pyStrip) hcn hm
  unfold fileOf
  rw [saveCsv_header d eol hdr rows hne,
    csvr_loadCsv_strip_field o d hd.1 hd.2 hp eol he bom (hdr :: rows) hc.1 hc.2 n hn hdr
      (dataRows rows) (dataRows_cons_ne hdr rows hne),
    outcome_header o n _ _ hdec hnd hcn', List.map_map]
  rfl

/-- **C14 (strip_field, positional).**  The same without a header: positions of the first row. -/
theorem C14_strip_field_positional (d : Char) (hd : GoodDelim14 d) (eol : Str) (he : Eol eol)
    (bom : Bool) (rows : List (List Str)) (hc : CellsOK rows) (first : List Str)
    (rest : List (List Str)) (hrows : dataRows rows = first :: rest)
    (o : Opts) (hp : StripField o d) (hm : NoHeaderOpts o) :
    records (loadCsv o (fileOf bom d eol none rows))
      = .ok ((first :: rest).map (fun r => zipPad (positions first.length) (r.map pyStrip))) := by
  obtain ⟨n, hn, hcn', hdec⟩ := noHeader_norm o hm (first.map pyStrip)
  unfold fileOf
  rw [saveCsv_none,
    csvr_loadCsv_strip_field o d hd.1 hd.2 hp eol he bom rows hc.1 hc.2 n hn first rest hrows]
  have hdn : dataNames n (first.map pyStrip) = positions first.length := by
    simp [dataNames, hcn']
  rw [outcome_data o n _ _ hdec (by rw [hdn]; exact nodup_positions _), hdn]
  simp [List.map_map]

/-- what `pyStrip` removes: exactly the blanks around a core that has none at its ends -/
theorem C14_strip_padded (l c r : Str) (hl : ∀ x ∈ l, isPySpace x = true)
    (hr : ∀ x ∈ r, isPySpace x = true) (hc : OuterClean isPySpace c) :
    pyStrip (l ++ c ++ r) = c :=
  stripWith_padded isPySpace l c r hl hr hc

/-- **C14 (strip_line on clean lines).**  `strip_line=True` strips the *line*, not the cells; on
a saved table none of whose written lines begins or ends with a blank it changes nothing, under
every header option. -/
theorem C14_strip_line_clean (d : Char) (hd : GoodDelim14 d) (eol : Str) (he : Eol eol) (bom : Bool)
    (header : Option (List Str)) (rows : List (List Str)) (hc : CellsOK (allRows header rows))
    (hcl : ∀ r ∈ allRows header rows, OuterClean isPySpace (bodyOf d LF r))
    (o : Opts) (hp : Plain o d) (hb : o.binary = false) :
    records (loadCsv { o with stripLine := true } (fileOf bom d eol header rows))
      = records (loadCsv o (fileOf bom d eol header rows)) := by
  rw [fileOf_eq]
  exact csvr_strip_line_clean o hb d hd.1 hd.2 hp eol he bom _ hc.1 hc.2 hcl

/-- `C14_strip_line_clean` with its hypothesis on the cells: the delimiter is not a blank and no
cell or name begins or ends with a blank -/
theorem C14_strip_line_clean_cells (d : Char) (hd : GoodDelim14 d) (hdb : isPySpace d = false)
    (eol : Str) (he : Eol eol) (bom : Bool)
    (header : Option (List Str)) (rows : List (List Str)) (hc : CellsOK (allRows header rows))
    (hcl : ∀ r ∈ allRows header rows, ∀ f ∈ r, OuterClean isPySpace f)
    (o : Opts) (hp : Plain o d) (hb : o.binary = false) :
    records (loadCsv { o with stripLine := true } (fileOf bom d eol header rows))
      = records (loadCsv o (fileOf bom d eol header rows)) :=
  C14_strip_line_clean d hd eol he bom header rows hc
    (fun r hr => bodyOf_outerClean isPySpace d LF hdb (by decide) r (hcl r hr)) o hp hb

/-- counter-example: `strip_line` is not `strip_field` — outer blanks of a line written from
quoted cells survive, and a blank-only first cell before a blank delimiter disappears -/
theorem C14_strip_line_cex :
    records (loadCsv { stripLine := true, delim := '\t' } ['\t', 'a', '\n'])
      = .ok [[(.pos 0, some ['a'])]]
    ∧ records (loadCsv { delim := '\t' } ['\t', 'a', '\n'])
      = .ok [[(.pos 0, some []), (.pos 1, some ['a'])]] := ⟨by decide, by decide⟩

/-- **C14 (skip_empty_lines=False).**  Header taken from the file: **every** row after the header
yields a record, in order; an empty row (a blank line) yields the record of the single empty cell
— first name ↦ `''`, the other names ↦ `None` (`cellsOfRow [] = ['']`). -/
theorem C14_keep_empty_lines (d : Char) (hd : GoodDelim14 d) (eol : Str) (he : Eol eol) (bom : Bool)
    (hdr : List Str) (hne : hdr ≠ []) (hnd : hdr.Nodup) (rows : List (List Str))
    (hc : CellsOK (hdr :: rows))
    (o : Opts) (hp : KeepEmpty o d) (hb : o.binary = false) (hcn : o.columnNames = .none)
    (hm : FromFile o hdr) :
    records (loadCsv o (fileOf bom d eol (some hdr) rows))
      = .ok (rows.map (fun r => zipPad (hdr.map Key.name) (cellsOfRow r))) := by
  obtain ⟨n, hn, hcn', hdec⟩ := fromFile_norm o hdr hcn hm
  unfold fileOf
  rw [saveCsv_header d eol hdr rows hne,
    csvr_loadCsv_keep o hb d hd.1 hd.2 hp eol he bom hdr hne rows hc.1 hc.2 n hn,
    outcome_header o n _ _ hdec hnd hcn', List.map_map]
  rfl

/-- **C14 (skip_empty_lines=False, positional).**  No header, the first row not empty: every
row, blank lines included, keyed by the positions of the first row.  (Blank lines *before* the
first non-blank line are skipped whatever `skip_empty_lines`: the leading-blank loop of
`load_csv` does not consult it — model `skipBlank`, stream `csvfile.load/*`.) -/
theorem C14_keep_empty_lines_positional (d : Char) (hd : GoodDelim14 d) (eol : Str) (he : Eol eol)
    (bom : Bool) (first : List Str) (hne : first ≠ []) (rest : List (List Str))
    (hc : CellsOK (first :: rest))
    (o : Opts) (hp : KeepEmpty o d) (hb : o.binary = false) (hm : NoHeaderOpts o) :
    records (loadCsv o (fileOf bom d eol none (first :: rest)))
      = .ok ((first :: rest).map (fun r => zipPad (positions first.length) (cellsOfRow r))) := by
  obtain ⟨n, hn, hcn', hdec⟩ := noHeader_norm o hm first
  unfold fileOf
  rw [saveCsv_none,
    csvr_loadCsv_keep o hb d hd.1 hd.2 hp eol he bom first hne rest hc.1 hc.2 n hn]
  have hdn : dataNames n first = positions first.length := by simp [dataNames, hcn']
  rw [outcome_data o n _ _ hdec (by rw [hdn]; exact nodup_positions _), hdn]
  have : cellsOfRow first = first := by
    cases first with
    | nil => exact absurd rfl hne
    | cons _ _ => rfl
  simp [List.map_map, this]

/-! ## the strip options in binary read mode (finding C14-g)

In binary mode the cells are `bytes`; `strip_field` / `strip_line` call `bytes.strip()`, which
removes ASCII blanks only (`asciiStrip`), while text mode removes every `str.isspace()` character
(`pyStrip`: also `\x1c`–`\x1f`, U+0085, U+00A0, U+2003 …).  So "binary read mode yields the same
table as encoded bytes" holds under the strip options exactly outside the class of C14-g
(`EdgeAscii`: `str.strip()` removes from the cell what `bytes.strip()` removes). -/

/-- a cell outside the class of C14-g: `str.strip()` removes from it exactly what `bytes.strip()`
removes (no `\x1c`–`\x1f`, U+0085, U+00A0 … at an edge once the ASCII blanks are gone) -/
def EdgeAscii (f : Str) : Prop := pyStrip f = asciiStrip f

/-- **C14 (strip_field, binary read mode: what the code does).**  On any byte table,
`strip_field=True` with `read_mode='b'` yields the table of `bytes.strip()`-ed names and cells. -/
theorem C14_strip_field_binary (d : Char) (hd : GoodDelim14 d) (eol : Str) (he : Eol eol)
    (hdr : List Str) (hne : hdr ≠ []) (hnd : (hdr.map asciiStrip).Nodup) (rows : List (List Str))
    (hc : NoBreakRows (hdr :: rows))
    (o : Opts) (hp : StripFieldBin o d) (hcn : o.columnNames = .none)
    (hm : FromFile o (hdr.map asciiStrip)) :
    records (loadCsv o (fileOf false d eol (some hdr) rows))
      = .ok ((dataRows rows).map
          (fun r => zipPad ((hdr.map asciiStrip).map Key.name) (r.map asciiStrip))) := by
  obtain ⟨n, hn, hcn', hdec⟩ := fromFile_norm o (hdr.map asciiStrip) hcn hm
  unfold fileOf withBom
  simp only [Bool.false_eq_true, if_false]
  rw [saveCsv_header d eol hdr rows hne,
    csvb_loadCsv_strip_field o d hd.1 hp eol he (hdr :: rows) hc n hn hdr
      (dataRows rows) (dataRows_cons_ne hdr rows hne),
    outcome_header o n _ _ hdec hnd hcn', List.map_map]
  rfl

/-- the full statement "binary read mode yields the same table as encoded bytes" under
`strip_field=True`: reading the encoded bytes of a saved table in binary mode gives the records
of `C14_strip_field` (the table of `str.strip()`-ed names and cells), encoded.  **False**
(`C14_binary_strip_field_cex`, finding C14-g); proved outside the class of the finding as
`C14_binary_strip_field_partial`. -/
def C14_binary_strip_field_stmt : Prop :=
  ∀ (e : Char → Str), AsciiTransparent e → ∀ (d : Char), GoodDelim14 d → d.toNat < 128 →
  ∀ (eol : Str), Eol eol → ∀ (hdr : List Str), hdr ≠ [] →
    (hdr.map (fun f => encS e (pyStrip f))).Nodup → ∀ (rows : List (List Str)),
    NoBreakRows (hdr :: rows) →
  ∀ (o : Opts), StripFieldBin o d → o.columnNames = .none →
    FromFile o (hdr.map (fun f => encS e (pyStrip f))) →
    records (loadCsv o (encS e (fileOf false d eol (some hdr) rows)))
      = .ok ((dataRows rows).map (fun r =>
          zipPad ((hdr.map (fun f => encS e (pyStrip f))).map Key.name)
            (r.map (fun f => encS e (pyStrip f)))))

/-- **C14 (binary read mode = encoded text-mode table, strip_field; outside C14-g).**  For every
ASCII-transparent byte encoder and every table none of whose names / cells has a non-ASCII-blank
`str.isspace()` character at an edge (`EdgeAscii`), `strip_field=True` in binary mode on the
encoded file yields the text-mode records of `C14_strip_field`, encoded. -/
theorem C14_binary_strip_field_partial (e : Char → Str) (he : AsciiTransparent e) (d : Char)
    (hd : GoodDelim14 d) (hda : d.toNat < 128) (eol : Str) (heol : Eol eol)
    (hdr : List Str) (hne : hdr ≠ [])
    (hnd : (hdr.map (fun f => encS e (pyStrip f))).Nodup) (rows : List (List Str))
    (hc : NoBreakRows (hdr :: rows))
    (hedge : ∀ r ∈ hdr :: rows, ∀ f ∈ r, EdgeAscii f)
    (o : Opts) (hp : StripFieldBin o d) (hcn : o.columnNames = .none)
    (hm : FromFile o (hdr.map (fun f => encS e (pyStrip f)))) :
    records (loadCsv o (encS e (fileOf false d eol (some hdr) rows)))
      = .ok ((dataRows rows).map (fun r =>
          zipPad ((hdr.map (fun f => encS e (pyStrip f))).map Key.name)
            (r.map (fun f => encS e (pyStrip f))))) := by
  have hcell : ∀ r ∈ hdr :: rows, r.map (fun f => encS e (pyStrip f))
      = (r.map (encS e)).map asciiStrip := by
    intro r hr
    rw [List.map_map]
    apply List.map_congr_left
    intro f hf
    simp only [Function.comp]
    rw [csvb_asciiStrip_encS e he f, ← hedge r hr f hf]
  have hh := hcell hdr (by simp)
  rw [C14_encoding_commutes e he d hda eol heol (some hdr) rows]
  simp only [Option.map_some]
  have hc' : NoBreakRows (hdr.map (encS e) :: encRows e rows) := by
    have := noBreakRows_enc e he (hdr :: rows) hc
    simpa [encRows] using this
  rw [hh] at hnd hm ⊢
  rw [C14_strip_field_binary d hd eol heol (hdr.map (encS e)) (by simpa using hne) hnd
    (encRows e rows) hc' o hp hcn hm, csvb_dataRows_encRows]
  congr 1
  unfold encRows
  rw [List.map_map]
  apply List.map_congr_left
  intro r hr
  have hr' : r ∈ hdr :: rows := by
    have : r ∈ rows := by
      unfold dataRows at hr
      exact (List.mem_filter.mp hr).1
    simp [this]
  simp only [Function.comp]
  rw [hcell r hr']

/-- **C14 (strip_field, binary read mode, positional).**  The same without a header. -/
theorem C14_strip_field_binary_positional (d : Char) (hd : GoodDelim14 d) (eol : Str) (he : Eol eol)
    (rows : List (List Str)) (hc : NoBreakRows rows) (first : List Str)
    (rest : List (List Str)) (hrows : dataRows rows = first :: rest)
    (o : Opts) (hp : StripFieldBin o d) (hm : NoHeaderOpts o) :
    records (loadCsv o (fileOf false d eol none rows))
      = .ok ((first :: rest).map (fun r => zipPad (positions first.length) (r.map asciiStrip))) := by
  obtain ⟨n, hn, hcn', hdec⟩ := noHeader_norm o hm (first.map asciiStrip)
  unfold fileOf withBom
  simp only [Bool.false_eq_true, if_false]
  rw [saveCsv_none,
    csvb_loadCsv_strip_field o d hd.1 hp eol he rows hc n hn first rest hrows]
  have hdn : dataNames n (first.map asciiStrip) = positions first.length := by
    simp [dataNames, hcn']
  rw [outcome_data o n _ _ hdec (by rw [hdn]; exact nodup_positions _), hdn]
  simp [List.map_map]

/-- **C14 (binary read mode = encoded text-mode table, strip_field, positional; outside C14-g).**
The records of `C14_strip_field_positional`, encoded. -/
theorem C14_binary_strip_field_positional_partial (e : Char → Str) (he : AsciiTransparent e)
    (d : Char) (hd : GoodDelim14 d) (hda : d.toNat < 128) (eol : Str) (heol : Eol eol)
    (rows : List (List Str)) (hc : NoBreakRows rows) (first : List Str) (rest : List (List Str))
    (hrows : dataRows rows = first :: rest)
    (hedge : ∀ r ∈ rows, ∀ f ∈ r, EdgeAscii f)
    (o : Opts) (hp : StripFieldBin o d) (hm : NoHeaderOpts o) :
    records (loadCsv o (encS e (fileOf false d eol none rows)))
      = .ok ((first :: rest).map (fun r =>
          zipPad (positions first.length) (r.map (fun f => encS e (pyStrip f))))) := by
  have hcell : ∀ r ∈ rows, r.map (fun f => encS e (pyStrip f))
      = (r.map (encS e)).map asciiStrip := by
    intro r hr
    rw [List.map_map]
    apply List.map_congr_left
    intro f hf
    simp only [Function.comp]
    rw [csvb_asciiStrip_encS e he f, ← hedge r hr f hf]
  rw [C14_encoding_commutes e he d hda eol heol none rows]
  simp only [Option.map_none]
  have hrows' : dataRows (encRows e rows) = first.map (encS e) :: encRows e rest := by
    rw [csvb_dataRows_encRows, hrows]; rfl
  rw [C14_strip_field_binary_positional d hd eol heol (encRows e rows)
    (noBreakRows_enc e he rows hc) _ _ hrows' o hp hm]
  congr 1
  have hmem : ∀ r ∈ first :: rest, r ∈ rows := by
    intro r hr
    rw [← hrows] at hr
    unfold dataRows at hr
    exact (List.mem_filter.mp hr).1
  have : first.map (encS e) :: encRows e rest = (first :: rest).map (List.map (encS e)) := rfl
  rw [this, List.map_map, List.length_map]
  apply List.map_congr_left
  intro r hr
  simp only [Function.comp]
  rw [hcell r (hmem r hr)]

private def nbsp : Char := Char.ofNat 0xA0
private def bC2 : Char := Char.ofNat 0xC2
private def fsep : Char := Char.ofNat 0x1C

/-- **C14-g, on the model** (the code does the same: replayed by the harness).  The file
`x\xa0` + LF (UTF-8 bytes `78 C2 A0 0A`), `strip_field=True`: text mode yields the cell `x`,
binary mode the bytes `78 C2 A0` — not the encoding of `x`.  The file `\x1c` + LF with
`strip_line=True`: text mode sees only blank lines (`EOFError`), binary mode yields a record. -/
theorem C14_binary_strip_cex :
    records (loadCsv { stripField := true } ['x', nbsp, '\n']) = .ok [[(.pos 0, some ['x'])]]
    ∧ records (loadCsv { stripField := true, binary := true } ['x', bC2, nbsp, '\n'])
        = .ok [[(.pos 0, some ['x', bC2, nbsp])]]
    ∧ loadCsv { stripLine := true } [fsep, '\n'] = .error .EOFError
    ∧ records (loadCsv { stripLine := true, binary := true } [fsep, '\n'])
        = .ok [[(.pos 0, some [fsep])]] :=
  ⟨by decide, by decide, by decide, by decide⟩

/-- a UTF-8-like encoder, exact on ASCII and on U+00A0 (`C2 A0`) -/
private def encN (c : Char) : Str :=
  if c.toNat < 128 then [c] else if c = nbsp then [bC2, nbsp] else [Char.ofNat 0xBF]

private theorem encN_transparent : AsciiTransparent encN := by
  refine ⟨?_, ?_, ?_, ?_⟩
  · intro c hc; simp [encN, hc]
  · intro c hc b hb
    unfold encN at hb
    split at hb
    · omega
    · split at hb
      · simp at hb; rcases hb with hb | hb <;> subst hb <;> decide
      · simp at hb; subst hb; decide
  · intro c; unfold encN; split
    · simp
    · split <;> simp
  · intro c b hb
    unfold encN at hb
    split at hb
    · simp at hb; subst hb; omega
    · split at hb
      · simp at hb; rcases hb with hb | hb <;> subst hb <;> decide
      · simp at hb; subst hb; decide

/-- **C14-g: the full statement fails** — table `h` / `x\xa0`, `header_is_mandatory=True`,
`strip_field=True`, `read_mode='b'`: the record holds `x\xc2\xa0`, not the encoding of `x`. -/
theorem C14_binary_strip_field_cex : ¬ C14_binary_strip_field_stmt := by
  intro h
  have := h encN encN_transparent ',' ⟨⟨by decide, by decide, by decide⟩, by decide⟩ (by decide)
    LF (Or.inl rfl) [['h']] (by simp) (by decide) [[['x', nbsp]]]
    (by unfold NoBreakRows NoBreak; decide)
    { stripField := true, binary := true, mandatory := .bool true } ⟨rfl, rfl, rfl, rfl, rfl⟩ rfl
    (.mandatory rfl rfl)
  revert this
  decide

/-- **C14 (strip_line on clean lines, binary read mode).**  As `C14_strip_line_clean`, for
`read_mode='b'`: on a byte table none of whose written lines begins or ends with an ASCII blank
(in particular: with a `str.isspace()` character), `strip_line=True` changes nothing — so, by
`C14_binary_encoded`, binary mode with `strip_line=True` still yields the encoded table. -/
theorem C14_strip_line_clean_binary (d : Char) (hd : GoodDelim14 d) (eol : Str) (he : Eol eol)
    (header : Option (List Str)) (rows : List (List Str)) (hc : NoBreakRows (allRows header rows))
    (hcl : ∀ r ∈ allRows header rows, OuterClean isAsciiWsByte (bodyOf d LF r))
    (o : Opts) (hp : Plain o d) (hb : o.binary = true) :
    records (loadCsv { o with stripLine := true } (fileOf false d eol header rows))
      = records (loadCsv o (fileOf false d eol header rows)) := by
  rw [fileOf_eq]
  simp only [withBom, Bool.false_eq_true, if_false]
  exact csvb_strip_line_clean o hb d hd.1 hp eol he _ hc hcl

/-- the hypothesis of `C14_strip_line_clean` (no `str.isspace()` character at an end of a written
line) implies the one of `C14_strip_line_clean_binary` -/
theorem C14_outer_clean_bytes (s : Str) (h : OuterClean isPySpace s) :
    OuterClean isAsciiWsByte s :=
  csvb_outerClean_mono isPySpace isAsciiWsByte csvb_ascii_ws_is_space s h

/-- **load_native_csv, blank line before the header** (the standard `csv.DictReader`'s reading,
not the table): left to find the field names itself (`column_names=None`), `DictReader` takes the
first record even when it is the empty one, so every line comes back under the key `None`
(`rest`), the header line included — while `load_csv` skips the blank line and yields the table.
This is why `C14_native_header_from_file` is stated for files that begin with the header. -/
theorem C14_native_leading_blank_cex :
    nativeCsv { } ['\n', 'a', ',', 'b', '\n', '1', ',', '2', '\n']
      = .ok [⟨[], some [['a'], ['b']]⟩, ⟨[], some [['1'], ['2']]⟩]
    ∧ records (loadCsv { mandatory := .bool true } ['\n', 'a', ',', 'b', '\n', '1', ',', '2', '\n'])
      = .ok [[(.name ['a'], some ['1']), (.name ['b'], some ['2'])]] := ⟨by decide, by decide⟩

section NonVacuityReaders
private def hdrP : List Str := [[' ', 'a'], ['b', ' ', ' ']]
private def rowsP : List (List Str) := [[['1', ' '], [' ', '"', '2']], [], [[' ']], [['4'], [' '], ['6']]]

example : StripField { stripField := true, mandatory := .bool true } ',' := ⟨rfl, rfl, rfl, rfl, rfl⟩
example : KeepEmpty { skipEmpty := false } ',' := ⟨rfl, rfl, rfl, rfl⟩
example : (hdrP.map pyStrip).Nodup := by decide
example : FromFile { stripField := true, mandatory := .bool true } (hdrP.map pyStrip) := .mandatory rfl rfl
example : records (loadCsv { stripField := true, mandatory := .bool true } (fileOf true ',' CRLF (some hdrP) rowsP))
    = .ok [[(.name ['a'], some ['1']), (.name ['b'], some ['"', '2'])],
           [(.name ['a'], some []), (.name ['b'], none)],
           [(.name ['a'], some ['4']), (.name ['b'], some [])]] := by decide
example : records (loadCsv { skipEmpty := false, mandatory := .bool true } (fileOf false ',' LF (some hdrAB) rowsX))
    = .ok [[(.name ['a'], some ['1']), (.name ['b', ','], some ['"', '2'])],
           [(.name ['a'], some []), (.name ['b', ','], none)],
           [(.name ['a'], some ['3']), (.name ['b', ','], none)],
           [(.name ['a'], some ['4']), (.name ['b', ','], some [])]] := by decide
example : OuterClean isPySpace ['a', ' ', 'b'] := by
  constructor <;> intro x hx <;> simp at hx <;> subst hx <;> decide
example : PlainCell ',' ['a', ' ', 'b'] := by unfold PlainCell NoBreak; decide
-- strip options in binary read mode: a table with U+00A0 *inside* cells and ASCII blanks around them is
-- outside the class of C14-g; its UTF-8 bytes read with `strip_field=True`, `read_mode='b'`
private def hdrN : List Str := [[' ', 'a', Char.ofNat 0xA0, 'b'], ['c', '\t']]
private def rowsN : List (List Str) := [[['1', ' '], [' ', '2', Char.ofNat 0xA0, '3', ' ']], [], [['3']]]
example : ∀ r ∈ hdrN :: rowsN, ∀ f ∈ r, EdgeAscii f := by unfold EdgeAscii; decide
example : StripFieldBin { stripField := true, binary := true, mandatory := .bool true } ',' :=
  ⟨rfl, rfl, rfl, rfl, rfl⟩
example : records (loadCsv { stripField := true, binary := true, mandatory := .bool true }
      (encS encN (fileOf false ',' CRLF (some hdrN) rowsN)))
    = .ok [[(.name ['a', bC2, nbsp, 'b'], some ['1']), (.name ['c'], some ['2', bC2, nbsp, '3'])],
           [(.name ['a', bC2, nbsp, 'b'], some ['3']), (.name ['c'], none)]] := by decide
example : ¬ EdgeAscii ['x', Char.ofNat 0xA0] := by unfold EdgeAscii; decide
example : ¬ EdgeAscii [Char.ofNat 0x1C, 'z'] := by unfold EdgeAscii; decide
private def rowC : List Str := [[Char.ofNat 0xC2, Char.ofNat 0xA0, 'x'], ['y']]
example : OuterClean isAsciiWsByte (bodyOf ',' LF rowC) := by
  have h1 : (bodyOf ',' LF rowC).head? = some (Char.ofNat 0xC2) := by decide
  have h2 : (bodyOf ',' LF rowC).getLast? = some 'y' := by decide
  constructor
  · intro x hx; rw [h1] at hx; cases hx; decide
  · intro x hx; rw [h2] at hx; cases hx; decide
-- load_native_csv: default arguments (fix C14-f), surplus cells under the key None, blank line skipped
example : nativeCsv { } (fileOf true ',' CRLF (some hdrAB) rowsX)
    = .ok [⟨[(.name ['a'], some ['1']), (.name ['b', ','], some ['"', '2'])], none⟩,
           ⟨[(.name ['a'], some ['3']), (.name ['b', ','], none)], none⟩,
           ⟨[(.name ['a'], some ['4']), (.name ['b', ','], some [])], some [['6']]⟩] := by decide
example : nativeCsv { columnNames := .list hdrAB } (fileOf false ',' LF none rowsX)
    = .error (.py .ReferenceError) := by decide
example : nativeCsv { columnNames := .list hdrAB, raiseExc := false } (fileOf false ',' LF none rowsX)
    = .ok [] := by decide
example : nativeCsv { } ['a', '\n', '"', 'b', '\n'] = .error .csv := by decide
example : nativeCsv { columnNames := .list [['a'], ['a']] } [] = .error (.py .SyntaxError) := by decide
-- load_simple_csv: binary mode cannot work (str argument to bytes.rstrip)
example : loadSimple { binary := true } ['a', '\n'] = .error .TypeError := by decide
end NonVacuityReaders

end N0.C14
