import N0Verif.Proofs.Compare
import N0Verif.Proofs.CompareFlags
import N0Verif.Proofs.CompareKeyed
import N0Verif.Proofs.CompareDefaultTight
/-!
# C07 — the compare verdict is exact

Model: `N0Verif/Model/Compare.lean` (the code with fix patches C07-a, C08-a, C09-a, C07-b, C07-c, C09-b, C10-a and C07-d, C08-b, C10-c applied;
the numeric delta of a not-equal pair is a flag of the entry — `NE.delta` — and never raises, fix C07-d).
Only property statements live here; helper lemmas are in `Proofs/Compare*.lean`.
-/
namespace N0.C07
open N0 N0.Compare

/-- **C07 (flag machine).** Every configuration reachable through any history of
`set__flag_compare_*` calls satisfies the invariant `FlagInv` … -/
theorem C07_reachable (seq : List (Setter × Bool)) : FlagInv (Flags.init.run seq) :=
  flagInv_run seq Flags.init (by decide)

/-- … and every configuration satisfying the invariant is reached by some history.  The
theorems below are stated for **every** flag record, which therefore covers exactly (and more
than) the reachable ones. -/
theorem C07_reachable_iff (f : Flags) : FlagInv f ↔ ∃ seq, Flags.init.run seq = f :=
  ⟨fun h => ⟨historyFor f, historyFor_run f h⟩, fun ⟨seq, h⟩ => h ▸ C07_reachable seq⟩

/-- **C07 (ordered comparison).** For recursively converted trees with roots of the same kind,
under every flag record, `direct_compare` returns a result, and its `differences` list is empty
iff the trees are structurally equal (`deq`: same constructor, same key set with equal values,
same list length and order, leaves equal with equal type, `None` equal only to `None`). -/
theorem C07_direct_exact (fl : Flags) (a b : Val) (ha : isN0 a = true) (hb : isN0 b = true)
    (hr : RootPair a b) :
    ∃ r, compareTop (Cfg.default fl true) a b = .ok r ∧ (r.diffs = 0 ↔ deq a b = true) := by
  rw [compareTop_eq_sub _ a b hr]
  exact sub_direct_exact _ (noOpts_default fl true) rfl .entry [] a b ha hb (rootPair_ty hr).1 (rootPair_ty hr).2

/-- **C07 (default comparison).** For recursively converted trees with roots of the same kind, under every flag
record, `compare` (no composite key, no options) returns a result, and its `differences` list is empty iff the trees
are equal up to the order of the non-record items inside each list (`eqv`: dictionaries with the same key set and
`eqv` values; lists whose record items are pairwise `eqv` in order and whose non-record items are the same up to
structural equality `deq` — every item occurs, up to `deq`, equally often in both lists; in particular `1`, `'1'`,
`1.0`, `True`, `None`, `'None'`, `''` are all different items, and a nested list does not depend on the order of the
keys of the dictionaries inside it: the classes of the fixed findings C07-b and C07-c are inside the theorem).

The one hypothesis left, `KeyFaithfulOn a b`, is a statement about the key function, not about the inputs: the
key of the non-record list items of the two trees — `json.dumps(item, sort_keys=True, default=repr)`, `jsonVal` —
identifies them exactly up to `deq` and is never empty.  It is true of `json.dumps` on genuine Python values; it is
not derivable in the model, where floats are opaque lexemes (`C07_float_lexeme_cex`: the lexeme `1`), and it
cannot be dropped (`C07_key_hypothesis_tight`). -/
theorem C07_default_exact (fl : Flags) (a b : Val) (ha : isN0 a = true) (hb : isN0 b = true)
    (hr : RootPair a b) (hc : KeyFaithfulOn a b) :
    ∃ r, compareTop (Cfg.default fl false) a b = .ok r ∧ (r.diffs = 0 ↔ eqv a b) :=
  default_exact fl a b ha hb hr hc

/-- the statement without any hypothesis on the key; false **in the model only** (`C07_float_lexeme_cex`: a float
whose lexeme is `1` has the key of the `int` 1 — not a Python value), not a finding -/
def C07_default_exact_stmt : Prop :=
  ∀ (fl : Flags) (a b : Val), isN0 a = true → isN0 b = true → RootPair a b → uniqKeys a = true →
    uniqKeys b = true → ∃ r, compareTop (Cfg.default fl false) a b = .ok r ∧ (r.diffs = 0 ↔ eqv a b)

theorem C07_float_lexeme_cex :
    (compareTop (Cfg.default Flags.init false) cexF1 cexF2).map Res.diffs = .ok 2 ∧ eqv cexF1 cexF2 ∧
      jsonVal (.flt ['1']) = jsonVal (.int 1) :=
  ⟨float_lexeme_cex.1, float_lexeme_eqv, float_lexeme_cex.2.2.2.2.2.2⟩

/-- **finding C07-e** (open): the two float zeros.  In Python `0.0 == -0.0` (and `direct_compare` reports nothing), but
the key of a non-record list item is its JSON text and `json.dumps` writes `0.0` and `-0.0`: the default compare of
`{'a': [0.0]}` against `{'a': [-0.0]}` reports both items as unique.  In the model floats are opaque lexemes (two
lexemes are two values), so the model can only show the two keys and the two lines; that the two values are equal
is the Python fact the harness oracle (`eqv` with `==`) supplies — evaluator `verdict/floats`, classifier
`negzero_class`.  `KeyFaithfulOn` holds for this pair in the model (`deq` on lexemes), the float model is what hides it. -/
theorem C07_negzero_cex :
    jsonVal (.flt ['0', '.', '0']) ≠ jsonVal (.flt ['-', '0', '.', '0']) ∧
    (compareTop (Cfg.default Flags.init false) (.dict .n0 [(['a'], .list .n0 [.flt ['0', '.', '0']])])
      (.dict .n0 [(['a'], .list .n0 [.flt ['-', '0', '.', '0']])])).map
        (fun r => (r.diffs, r.selfUnique.length, r.otherUnique.length)) = .ok (2, 1, 1) := by
  decide

theorem C07_default_exact_stmt_false_in_model : ¬ C07_default_exact_stmt := by
  intro h
  obtain ⟨h1, h3, h4, h5, h6, h7, _⟩ := float_lexeme_cex
  obtain ⟨r, hr, hiff⟩ := h Flags.init cexF1 cexF2 h3 h4 h5 h6 h7
  rw [hr] at h1
  have : r.diffs = 2 := by simpa [Except.map] using h1
  have := hiff.2 float_lexeme_eqv
  omega

/-- **the hypothesis on the key is tight.**  For ANY two distinct leaves (scalars or `None`) with the same key, the
lists `[x, y]` and `[y, x]` are equal up to order and the default comparison reports two differences. -/
theorem C07_key_hypothesis_tight (fl : Flags) (x y : Val) (hx : DtLeaf x) (hy : DtLeaf y) (hne : x ≠ y)
    (hs : jsonVal x = jsonVal y) :
    (∃ r, compareTop (Cfg.default fl false) (.list .n0 [x, y]) (.list .n0 [y, x]) = .ok r ∧ r.diffs = 2) ∧
      eqv (.list .n0 [x, y]) (.list .n0 [y, x]) :=
  dt_tight fl x y hx hy hne hs

/-- fixed finding C07-b: `{'a': [1, '1']}` and `{'a': ['1', 1]}` are equal up to order and nothing is reported
(keys `1` and `"1"`; before the fix `str(1) == str('1')` paired `1` with `'1'`: two differences) -/
theorem C07_collision_fixed :
    (compareTop (Cfg.default Flags.init false) cexA cexB).map Res.diffs = .ok 0 ∧
      isN0 cexA = true ∧ isN0 cexB = true ∧ RootPair cexA cexB ∧ uniqKeys cexA = true ∧ uniqKeys cexB = true :=
  collision_fixed

/-- fixed: the empty string has the key `""`, not the key `''` of every record: `['', {}]` vs `[{}, '']` -/
theorem C07_emptykey_fixed :
    (compareTop (Cfg.default Flags.init false) cexE1 cexE2).map Res.diffs = .ok 0 :=
  emptykey_fixed

/-- fixed finding C07-c: `{'a': [[{'x': 1, 'y': 2}]]}` vs `{'a': [[{'y': 2, 'x': 1}]]}` — the key of the nested list
is written with sorted dictionary keys, the two inner lists meet and are compared key by key -/
theorem C07_keyorder_fixed :
    (compareTop (Cfg.default Flags.init false) cexO1 cexO2).map Res.diffs = .ok 0 ∧
      jsonVal (.list .n0 [.dict .n0 [(['x'], .int 1), (['y'], .int 2)]])
        = jsonVal (.list .n0 [.dict .n0 [(['y'], .int 2), (['x'], .int 1)]]) ∧
      deq (.list .n0 [.dict .n0 [(['x'], .int 1), (['y'], .int 2)]])
        (.list .n0 [.dict .n0 [(['y'], .int 2), (['x'], .int 1)]]) = true :=
  keyorder_fixed

/-- a tree (unique dictionary keys) compared with itself reports nothing -/
theorem C07_default_refl (fl : Flags) (a : Val) (ha : isN0 a = true) (hr : RootPair a a)
    (hua : uniqKeys a = true) (hc : KeyFaithfulOn a a) :
    ∃ r, compareTop (Cfg.default fl false) a a = .ok r ∧ r.diffs = 0 :=
  default_refl fl a ha hr hua hc

/-- **C07 (flags only add detail).** For every option record and every two flag records the two
runs either fail with the same exception class or both return, with the same number of `differences`
lines and the same core entries (`CoreEq`: differing pairs, type clashes — wherever the types flag
files them —, unique items with their places); numeric deltas, equal-lists and whether the place is
shown are the detail that varies.  Both entry points, all options. -/
theorem C07_flags_only_add_detail (cfg : Cfg) (fl' : Flags) (a b : Val) :
    RelE cfg.fl.types fl'.types (compareTop cfg a b) (compareTop (cfg.withFlags fl') a b) :=
  compareTop_flags cfg fl' a b

/-- in particular the verdict (`differences` empty / not empty / exception) is the same -/
theorem C07_verdict_flags (cfg : Cfg) (fl' : Flags) (a b : Val) :
    verdict (compareTop cfg a b) = verdict (compareTop (cfg.withFlags fl') a b) := by
  have h := compareTop_flags cfg fl' a b
  cases h1 : compareTop cfg a b with
  | error e =>
    cases h2 : compareTop (cfg.withFlags fl') a b with
    | error e' => rfl
    | ok r' => rw [h1, h2] at h; exact h.elim
  | ok r =>
    cases h2 : compareTop (cfg.withFlags fl') a b with
    | error e' => rw [h1, h2] at h; exact h.elim
    | ok r' =>
      rw [h1, h2] at h
      simp only [verdict]
      rw [h.diffs]

/-! Non-vacuity: reachable configurations, equal and unequal pairs through every branch. -/
example : FlagInv (Flags.init.run [(.equal, true), (.elements, true), (.records, false)]) := by decide
example : Flags.init.run [(.equal, true), (.elements, true), (.records, false)]
    = ⟨false, false, true, false, true, true⟩ := by decide
example : ¬ FlagInv ⟨false, false, true, true, true, true⟩ := by decide

/-- `{'a': [1, {'w': [None]}], 'b': 'x'}` and the same tree with the keys in the other order -/
def exA : Val := .dict .n0 [(['a'], .list .n0 [.int 1, .dict .n0 [(['w'], .list .n0 [.none])]]), (['b'], .str ['x'])]
def exA' : Val := .dict .n0 [(['b'], .str ['x']), (['a'], .list .n0 [.int 1, .dict .n0 [(['w'], .list .n0 [.none])]])]
example : isN0 exA = true ∧ deq exA exA' = true := by decide
example : RootPair exA exA' := by simp [RootPair, exA, exA']
example : (compareTop (Cfg.default Flags.init true) exA exA').map (·.diffs) = .ok 0 := by decide

/-- `True` is not `1`, a shorter list, an extra key on each side: four lines -/
def exB : Val := .dict .n0 [(['a'], .list .n0 [.bool true, .int 2]), (['k'], .none)]
def exB' : Val := .dict .n0 [(['a'], .list .n0 [.int 1]), (['f'], .none)]
example : deq exB exB' = false := by decide
example : (compareTop (Cfg.default Flags.init true) exB exB').map (·.diffs) = .ok 4 := by decide

/-- the same pair under all flags switched: two type clashes move to `difftypes`, the count stays -/
example : (compareTop (Cfg.default Flags.init true) exB exB').map (fun r => (r.diffs, r.diffTypes.length))
    = .ok (4, 0) := by decide
example : (compareTop (Cfg.default ⟨true, true, true, true, false, false⟩ true) exB exB').map (fun r => (r.diffs, r.diffTypes.length))
    = .ok (4, 1) := by decide

/-- `{'a': [1, {'k': None}, 'x', [2]]}` vs `{'a': [[2], 'x', {'k': None}, 1]}`: the non-record items are
permuted, nothing is reported by `compare`, four lines by `direct_compare` -/
def exP : Val := .dict .n0 [(['a'], .list .n0 [.int 1, .dict .n0 [(['k'], .none)], .str ['x'], .list .n0 [.int 2]])]
def exP' : Val := .dict .n0 [(['a'], .list .n0 [.list .n0 [.int 2], .str ['x'], .dict .n0 [(['k'], .none)], .int 1])]
example : isN0 exP = true ∧ isN0 exP' = true ∧ uniqKeys exP = true ∧ uniqKeys exP' = true := by decide
example : (compareTop (Cfg.default Flags.init false) exP exP').map Res.diffs = .ok 0 := by decide
example : (compareTop (Cfg.default Flags.init true) exP exP').map Res.diffs = .ok 4 := by decide
/-- non-vacuity of `C07_default_exact`: the key is faithful on the non-record items of this pair -/
example : KeyFaithfulOn exP exP' := by
  have h1 : ∀ x ∈ listItems exP ++ listItems exP', ∀ y ∈ listItems exP ++ listItems exP',
      (jsonVal x = jsonVal y ↔ deq x y = true) := by decide
  have h2 : ∀ x ∈ listItems exP ++ listItems exP', jsonVal x ≠ [] := by decide
  exact ⟨fun x y hx hy => h1 x hx y hy, h2⟩
/-- … and on the pair of fixed finding C07-c (a nested list holding a dictionary with two keys) -/
example : KeyFaithfulOn cexO1 cexO2 := by
  have h1 : ∀ x ∈ listItems cexO1 ++ listItems cexO2, ∀ y ∈ listItems cexO1 ++ listItems cexO2,
      (jsonVal x = jsonVal y ↔ deq x y = true) := by decide
  have h2 : ∀ x ∈ listItems cexO1 ++ listItems cexO2, jsonVal x ≠ [] := by decide
  exact ⟨fun x y hx hy => h1 x hx y hy, h2⟩
example : eqv cexO1 cexO2 := by
  obtain ⟨r, hr, hiff⟩ := C07_default_exact Flags.init cexO1 cexO2 (by decide) (by decide) trivial (by
    have h1 : ∀ x ∈ listItems cexO1 ++ listItems cexO2, ∀ y ∈ listItems cexO1 ++ listItems cexO2,
        (jsonVal x = jsonVal y ↔ deq x y = true) := by decide
    have h2 : ∀ x ∈ listItems cexO1 ++ listItems cexO2, jsonVal x ≠ [] := by decide
    exact ⟨fun x y hx hy => h1 x hx y hy, h2⟩)
  have h0 := keyorder_fixed.1
  rw [hr] at h0
  exact hiff.1 (by simpa [Except.map] using h0)
/-- the keys of its non-record items: `1`, `"x"`, `[2]` -/
example : jsonVal (.int 1) = ['1'] ∧ jsonVal (.str ['x']) = ['"', 'x', '"'] ∧ jsonVal (.list .n0 [.int 2]) = ['[', '2', ']'] := by
  decide
/-- a cross-type pair `1` against `'1'`: unique on both sides now (two lines), and not `eqv` -/
example : (compareTop (Cfg.default Flags.init false) (.list .n0 [.int 1]) (.list .n0 [.str ['1']])).map
    (fun r => (r.diffs, r.selfUnique.length, r.otherUnique.length)) = .ok (2, 1, 1) := by decide
/-- non-vacuity of the tightness theorem: the float lexeme `1` against the `int` 1 -/
example : DtLeaf (.flt ['1']) ∧ DtLeaf (.int 1) ∧ Val.flt ['1'] ≠ .int 1 ∧ jsonVal (.flt ['1']) = jsonVal (.int 1) := by
  refine ⟨Or.inl rfl, Or.inl rfl, by decide, by decide⟩

end N0.C07
