import N0Verif.Proofs.Compare
import N0Verif.Proofs.CompareFlags
import N0Verif.Proofs.CompareKeyed
import N0Verif.Proofs.CompareDefaultTight
/-!
# C07 — the compare verdict is exact

Model: `N0Verif/Model/Compare.lean` (the code with fix patches C07-a, C08-a, C09-a applied).
Only property statements live here; helper lemmas are in `Proofs/Compare*.lean`.
-/
namespace N0.C07
open N0 N0.Compare

/-- **C07 (flag machine).** Every configuration reachable through any history of
`set__flag_compare_*` calls satisfies the invariant `FlagInv` … -/
theorem C07_reachable (seq : List (Setter × Bool)) : FlagInv (Flags.init.run seq) :=
  flagInv_run seq Flags.init (by decide)

/-- … and every configuration satisfying the invariant is reached by some history.  The
theorems below are stated for **every** flag record, which therefore covers exactly (and more
than) the reachable ones. -/
theorem C07_reachable_iff (f : Flags) : FlagInv f ↔ ∃ seq, Flags.init.run seq = f :=
  ⟨fun h => ⟨historyFor f, historyFor_run f h⟩, fun ⟨seq, h⟩ => h ▸ C07_reachable seq⟩

/-- **C07 (ordered comparison).** For recursively converted trees with roots of the same kind,
under every flag record, `direct_compare` returns a result, and its `differences` list is empty
iff the trees are structurally equal (`deq`: same constructor, same key set with equal values,
same list length and order, leaves equal with equal type, `None` equal only to `None`). -/
theorem C07_direct_exact (fl : Flags) (a b : Val) (ha : isN0 a = true) (hb : isN0 b = true)
    (hr : RootPair a b) :
    ∃ r, compareTop (Cfg.default fl true) a b = .ok r ∧ (r.diffs = 0 ↔ deq a b = true) := by
  rw [compareTop_eq_sub _ a b hr]
  exact sub_direct_exact _ (noOpts_default fl true) rfl .entry [] a b ha hb (rootPair_ty hr).1 (rootPair_ty hr).2

/-- **C07 (default comparison).** For recursively converted trees with unique dictionary keys and
roots of the same kind, under every flag record, `compare` (no composite key, no options) returns a
result, and its `differences` list is empty iff the trees are equal up to the order of the non-record
items inside each list (`eqv`: dictionaries with the same key set and `eqv` values; lists whose record
items are pairwise `eqv` in order and whose non-record items are equal as multisets under strict
equality) — **under the hypothesis `NoStrCollision`**: `str()` is injective on the non-record list
items of both trees and never yields the empty string (the key of every record).  The hypothesis is
finding C07-b; `C07_collision_cex` and `C07_emptykey_cex` show that both halves are needed. -/
theorem C07_default_exact_partial (fl : Flags) (a b : Val) (ha : isN0 a = true) (hb : isN0 b = true)
    (hr : RootPair a b) (hua : uniqKeys a = true) (hub : uniqKeys b = true) (hc : NoStrCollision a b) :
    ∃ r, compareTop (Cfg.default fl false) a b = .ok r ∧ (r.diffs = 0 ↔ eqv a b) :=
  default_exact_uniq fl a b ha hb hr hua hub hc

/-- **C07 (default comparison, the collision hypothesis made local and one-sided).**  The same equivalence
under much less than `NoStrCollision`:
* `DtLocalOK b` — in every list of the RIGHT operand (at every depth) two items with the same key (`str()` of
  a non-record item, `''` for every record) are both records or identical.  This is exactly the class of
  finding C07-b (`[1, '1']`, `['', {}]`, `[None, 'None']` inside one list); `str()` collisions between items of
  two different lists — `[1]` against `['1']` — are allowed (they are reported as a difference, rightly);
  nothing is asked of the lists of the left operand;
* `DtNestedInj a b` — `str()` determines the *lists nested directly in lists* (they are keyed by `str()`,
  finding C07-c territory; vacuous when no list is an item of a list; true of `repr` on genuine Python values —
  needed in the model only because floats are opaque lexemes, `C07_nested_needed_cex`). -/
theorem C07_default_exact_local (fl : Flags) (a b : Val) (ha : isN0 a = true) (hb : isN0 b = true)
    (hr : RootPair a b) (hua : uniqKeys a = true) (hub : uniqKeys b = true)
    (hlb : DtLocalOK b) (hn : DtNestedInj a b) :
    ∃ r, compareTop (Cfg.default fl false) a b = .ok r ∧ (r.diffs = 0 ↔ eqv a b) :=
  dt_default_exact_right fl a b ha hb hr hua hub hlb hn

/-- the local hypotheses follow from `NoStrCollision` (so `C07_default_exact_partial` is a special case) … -/
theorem C07_local_of_noStrCollision (a b : Val) (hc : NoStrCollision a b) :
    DtLocalOK a ∧ DtLocalOK b ∧ DtNestedInj a b :=
  dt_of_noStrCollision a b hc

/-- … and are strictly weaker: `{'a': [1, {'k': None}]}` against `{'a': ['1', {'k': None}]}` -/
theorem C07_local_strictly_weaker :
    ¬ NoStrCollision dtExA dtExB ∧ DtLocalOK dtExA ∧ DtLocalOK dtExB ∧ DtNestedInj dtExA dtExB :=
  ⟨dtEx_not_noStrCollision, dtEx_local⟩

/-- **the excluded class is tight (1).**  For ANY two distinct leaves (scalars or `None`) with the same
`str()`, the lists `[x, y]` and `[y, x]` are equal up to order and the default comparison reports two
differences: every member of the class of C07-b gives a wrong verdict. -/
theorem C07_collision_class_tight (fl : Flags) (x y : Val) (hx : DtLeaf x) (hy : DtLeaf y) (hne : x ≠ y)
    (hs : pyStr x = pyStr y) :
    (∃ r, compareTop (Cfg.default fl false) (.list .n0 [x, y]) (.list .n0 [y, x]) = .ok r ∧ r.diffs = 2) ∧
      eqv (.list .n0 [x, y]) (.list .n0 [y, x]) :=
  dt_tight fl x y hx hy hne hs

/-- **tight (2).**  For ANY leaf with an empty `str()` and any record `R` (equal to itself): `[x, R]` against
`[R, x]`. -/
theorem C07_collision_class_tight_rec (fl : Flags) (x : Val) (c : Cls) (kvs : List (Str × Val)) (hx : DtLeaf x)
    (hs : pyStr x = []) (hR : eqv (.dict c kvs) (.dict c kvs)) :
    (∃ r, compareTop (Cfg.default fl false) (.list .n0 [x, .dict c kvs]) (.list .n0 [.dict c kvs, x]) = .ok r ∧
        r.diffs = 2) ∧
      eqv (.list .n0 [x, .dict c kvs]) (.list .n0 [.dict c kvs, x]) :=
  dt_tight_rec fl x c kvs hx hs hR

/-- the hypothesis on nested lists cannot be dropped in the model: two non-identical inner lists with the same
`str()` (a float lexeme `1, 1` makes `repr` ambiguous), free of local collisions, compared equal by the code,
while the outer lists are not equal up to order -/
theorem C07_nested_needed_cex :
    (compareTop (Cfg.default Flags.init false) dtNestA dtNestB).map Res.diffs = .ok 0 ∧ ¬ eqv dtNestA dtNestB ∧
      DtLocalOK dtNestA ∧ DtLocalOK dtNestB ∧ isN0 dtNestA = true ∧ isN0 dtNestB = true ∧
      uniqKeys dtNestA = true ∧ uniqKeys dtNestB = true ∧ ¬ DtNestedInj dtNestA dtNestB :=
  dt_nested_needed_cex

/-- the full-strength statement (no collision hypothesis); refuted on the pinned tree by
`C07_collision_cex`, i.e. a finding, not a gap -/
def C07_default_exact_stmt : Prop :=
  ∀ (fl : Flags) (a b : Val), isN0 a = true → isN0 b = true → RootPair a b → uniqKeys a = true →
    uniqKeys b = true → ∃ r, compareTop (Cfg.default fl false) a b = .ok r ∧ (r.diffs = 0 ↔ eqv a b)

/-- finding C07-b: `{'a': [1, '1']}` and `{'a': ['1', 1]}` are equal up to order, but `str(1) == str('1')`
pairs `1` with `'1'` and two differences are reported -/
theorem C07_collision_cex :
    (compareTop (Cfg.default Flags.init false) cexA cexB).map Res.diffs = .ok 2 ∧ eqv cexA cexB ∧
      isN0 cexA = true ∧ isN0 cexB = true ∧ RootPair cexA cexB ∧ uniqKeys cexA = true ∧ uniqKeys cexB = true :=
  collision_cex

theorem C07_default_exact_refuted : ¬ C07_default_exact_stmt := by
  intro h
  obtain ⟨h1, h2, h3, h4, h5, h6, h7⟩ := collision_cex
  obtain ⟨r, hr, hiff⟩ := h Flags.init cexA cexB h3 h4 h5 h6 h7
  rw [hr] at h1
  have : r.diffs = 2 := by simpa [Except.map] using h1
  have := hiff.2 h2
  omega

/-- the empty string has the key of a record: `['', {}]` vs `[{}, '']` (injectivity alone is not enough) -/
theorem C07_emptykey_cex :
    (compareTop (Cfg.default Flags.init false) cexE1 cexE2).map Res.diffs = .ok 2 ∧ eqv cexE1 cexE2 ∧
      (∀ x ∈ listItems cexE1 ++ listItems cexE2, ∀ y ∈ listItems cexE1 ++ listItems cexE2, pyStr x = pyStr y → x = y) :=
  emptykey_cex

/-- a tree compared with itself reports nothing (default comparison, no collision) -/
theorem C07_default_refl (fl : Flags) (a : Val) (ha : isN0 a = true) (hr : RootPair a a)
    (hua : uniqKeys a = true) (hc : NoStrCollision a a) :
    ∃ r, compareTop (Cfg.default fl false) a a = .ok r ∧ r.diffs = 0 :=
  default_refl fl a ha hr hua hc

/-- **C07 (flags only add detail).** For every option record and every two flag records the two
runs either fail with the same exception class or both return, with the same number of `differences`
lines and the same core entries (`CoreEq`: differing pairs, type clashes — wherever the types flag
files them —, unique items with their places); numeric deltas, equal-lists and whether the place is
shown are the detail that varies.  Both entry points, all options. -/
theorem C07_flags_only_add_detail (cfg : Cfg) (fl' : Flags) (a b : Val) :
    RelE cfg.fl.types fl'.types (compareTop cfg a b) (compareTop (cfg.withFlags fl') a b) :=
  compareTop_flags cfg fl' a b

/-- in particular the verdict (`differences` empty / not empty / exception) is the same -/
theorem C07_verdict_flags (cfg : Cfg) (fl' : Flags) (a b : Val) :
    verdict (compareTop cfg a b) = verdict (compareTop (cfg.withFlags fl') a b) := by
  have h := compareTop_flags cfg fl' a b
  cases h1 : compareTop cfg a b with
  | error e =>
    cases h2 : compareTop (cfg.withFlags fl') a b with
    | error e' => rfl
    | ok r' => rw [h1, h2] at h; exact h.elim
  | ok r =>
    cases h2 : compareTop (cfg.withFlags fl') a b with
    | error e' => rw [h1, h2] at h; exact h.elim
    | ok r' =>
      rw [h1, h2] at h
      simp only [verdict]
      rw [h.diffs]

/-! Non-vacuity: reachable configurations, equal and unequal pairs through every branch. -/
example : FlagInv (Flags.init.run [(.equal, true), (.elements, true), (.records, false)]) := by decide
example : Flags.init.run [(.equal, true), (.elements, true), (.records, false)]
    = ⟨false, false, true, false, true, true⟩ := by decide
example : ¬ FlagInv ⟨false, false, true, true, true, true⟩ := by decide

/-- `{'a': [1, {'w': [None]}], 'b': 'x'}` and the same tree with the keys in the other order -/
def exA : Val := .dict .n0 [(['a'], .list .n0 [.int 1, .dict .n0 [(['w'], .list .n0 [.none])]]), (['b'], .str ['x'])]
def exA' : Val := .dict .n0 [(['b'], .str ['x']), (['a'], .list .n0 [.int 1, .dict .n0 [(['w'], .list .n0 [.none])]])]
example : isN0 exA = true ∧ deq exA exA' = true := by decide
example : RootPair exA exA' := by simp [RootPair, exA, exA']
example : (compareTop (Cfg.default Flags.init true) exA exA').map (·.diffs) = .ok 0 := by decide

/-- `True` is not `1`, a shorter list, an extra key on each side: four lines -/
def exB : Val := .dict .n0 [(['a'], .list .n0 [.bool true, .int 2]), (['k'], .none)]
def exB' : Val := .dict .n0 [(['a'], .list .n0 [.int 1]), (['f'], .none)]
example : deq exB exB' = false := by decide
example : (compareTop (Cfg.default Flags.init true) exB exB').map (·.diffs) = .ok 4 := by decide

/-- the same pair under all flags switched: two type clashes move to `difftypes`, the count stays -/
example : (compareTop (Cfg.default Flags.init true) exB exB').map (fun r => (r.diffs, r.diffTypes.length))
    = .ok (4, 0) := by decide
example : (compareTop (Cfg.default ⟨true, true, true, true, false, false⟩ true) exB exB').map (fun r => (r.diffs, r.diffTypes.length))
    = .ok (4, 1) := by decide

/-- `{'a': [1, {'k': None}, 'x', [2]]}` vs `{'a': [[2], 'x', {'k': None}, 1]}`: the non-record items are
permuted, the hypothesis of `C07_default_exact_partial` holds and nothing is reported -/
def exP : Val := .dict .n0 [(['a'], .list .n0 [.int 1, .dict .n0 [(['k'], .none)], .str ['x'], .list .n0 [.int 2]])]
def exP' : Val := .dict .n0 [(['a'], .list .n0 [.list .n0 [.int 2], .str ['x'], .dict .n0 [(['k'], .none)], .int 1])]
example : NoStrCollision exP exP' := by
  unfold NoStrCollision
  constructor <;> decide
example : isN0 exP = true ∧ isN0 exP' = true ∧ uniqKeys exP = true ∧ uniqKeys exP' = true := by decide
example : (compareTop (Cfg.default Flags.init false) exP exP').map Res.diffs = .ok 0 := by decide
example : (compareTop (Cfg.default Flags.init true) exP exP').map Res.diffs = .ok 4 := by decide

/-- non-vacuity of `C07_default_exact_local`: a cross-list collision (`1` against `'1'`), one line, not `eqv` -/
example : isN0 dtExA = true ∧ isN0 dtExB = true ∧ uniqKeys dtExA = true ∧ uniqKeys dtExB = true := by decide
example : RootPair dtExA dtExB := by simp [RootPair, dtExA, dtExB]
example : (compareTop (Cfg.default Flags.init false) dtExA dtExB).map Res.diffs = .ok 1 := by decide
/-- non-vacuity of the tightness theorems: `1`/`'1'`, `None`/`'None'`, `''` next to `{}` -/
example : DtLeaf (.int 1) ∧ DtLeaf (.str ['1']) ∧ Val.int 1 ≠ .str ['1'] ∧ pyStr (.int 1) = pyStr (.str ['1']) := by
  refine ⟨Or.inl rfl, Or.inl rfl, by decide, by decide⟩
example : DtLeaf .none ∧ DtLeaf (.str ['N', 'o', 'n', 'e']) ∧ pyStr .none = pyStr (.str ['N', 'o', 'n', 'e']) := by
  refine ⟨Or.inr rfl, Or.inl rfl, by decide⟩
example : DtLeaf (.str []) ∧ pyStr (.str []) = [] ∧ eqv (.dict .n0 []) (.dict .n0 []) := by
  refine ⟨Or.inl rfl, rfl, by simp [eqv, eqvK]⟩

end N0.C07
