import N0Verif.Proofs.FindAll
import N0Verif.Proofs.FindAllDesc
import N0Verif.Proofs.FindAllList
import N0Verif.Proofs.FindAllTail
import N0Verif.Proofs.FindAllTailLists
import N0Verif.Proofs.FindAllTailN
import N0Verif.Props.C01
/-!
# C19 — dictionary findall returns complete, resolvable, history-independent results

Only property statements live here; the lemmas are in `Proofs/FindAll.lean`,
`Proofs/FindAllDesc.lean` and `Proofs/FindAllList.lean` (list-rooted containers), the model in
`Model/FindAll.lean` (it follows the code with `fixes/C19-a.patch` … `fixes/C19-f.patch` applied:
since C19-d a name / index step on a final element is a miss of that branch, since C19-e `findall`
hands `raise_exception` on to `_findall` — `findallTop … re`, default `true`; `findfirst` searches
with `false`; since C19-f a `text()` condition compares a node that is not a string instead of
raising AttributeError).  Every theorem about `findallTop` holds for both modes.

Reading.  The engine keeps two mutable default arguments.  The model threads the contents of the
two objects a call receives in and out of every call (`Out.fl`, `Out.ps`), and the top-level entry
`findallTop st t e` starts from the contents `st` of the module-level default objects and returns
their contents after the search.  "The result never depends on earlier searches" is then: a search
started from the fresh defaults `([], {})` leaves them `([], {})` — for every tree, expression,
fuel and outcome, exceptions included — hence in every sequence of searches each one runs from
the fresh state and returns what it returns when run alone.
"Resolves to the identical value" = resolves through the item-access model (C01 engine) to the
node at the same position; object identity is checked on the implementation by the harness.
-/
namespace N0.C19
open N0 N0.Py N0.Val N0.XPath N0.FindAll

/-! ## 1. history independence -/

/-- **State invariant.**  A search that starts from the fresh default objects leaves them
fresh: `found_xpath_list` is still `[]` and `parent_nodes_stack` still `{}`, whatever the tree,
the expression and the outcome (result, `None` or any exception). -/
theorem C19_state_invariant (fuel : Nat) (t : Val) (e : Str) (re : Bool) :
    (findallTop fuel fresh t e re).state = fresh :=
  findallTop_state fuel t e re

/-- The two halves in general form: the stack object a call of `_findall` receives is never
modified, and an empty path list stays empty (the in-place updates of the last element happen
only after the local name was rebound to a fresh list, or raise before writing). -/
theorem C19_objects_untouched (re : Bool) (fuel : Nat) (node : Val) (toks : List Str) (fl : FL) (ps : PS) :
    (fa re fuel node toks fl ps).ps = ps ∧ (fa re fuel node toks [] ps).fl = [] :=
  ⟨fa_ps re fuel node toks fl ps, fa_fl_nil re fuel node toks ps⟩

/-- **History independence.**  For every sequence of searches (on the same or on different
trees) run one after the other through the shared default objects, each result equals the
result of the same search run alone on a fresh module, and the defaults are fresh at the end. -/
theorem C19_history_independent (fuel : Nat) (hist : List (Val × Str)) :
    runHist fuel fresh hist = (hist.map (fun te => (findallTop fuel fresh te.1 te.2).res), fresh) :=
  runHist_fresh fuel hist

/-- the same for a history in which every search has its own mode (`findall(xp, raise_exception)`) -/
theorem C19_history_independent_modes (fuel : Nat) (hist : List (Val × Str × Bool)) :
    runHistM fuel fresh hist =
      (hist.map (fun te => (findallTop fuel fresh te.1 te.2.1 te.2.2).res), fresh) :=
  runHistM_fresh fuel hist

/-- **The result depends only on the tree and the expression.**  Whatever searches (on dict- or
list-rooted containers, succeeding or raising) were run before in the same process, the outcome of
a search is the outcome of `findallTop fuel fresh t e` — a function of `t` and `e` alone. -/
theorem C19_depends_only (fuel : Nat) (hist : List (Val × Str)) (t : Val) (e : Str) :
    (runHist fuel fresh (hist ++ [(t, e)])).1 =
      (runHist fuel fresh hist).1 ++ [(findallTop fuel fresh t e).res] := by
  rw [C19_history_independent, C19_history_independent]
  simp

/-- … and of the mode (`raise_exception`) given to this search, whatever the modes before -/
theorem C19_depends_only_modes (fuel : Nat) (hist : List (Val × Str × Bool)) (t : Val) (e : Str) (re : Bool) :
    (runHistM fuel fresh (hist ++ [(t, e, re)])).1 =
      (runHistM fuel fresh hist).1 ++ [(findallTop fuel fresh t e re).res] := by
  rw [C19_history_independent_modes, C19_history_independent_modes]
  simp

/-- the same for `findfirst` (it calls `findall` once) -/
theorem C19_findfirst_state (fuel : Nat) (t : Val) (e : Str) (re : Bool) :
    (findfirstTop fuel fresh t e re).2 = fresh := by
  have := findallTop_state fuel t e false
  unfold findfirstTop
  simp only
  split
  · exact this
  · split <;> exact this

/-- **A call changes at most the last element of the list object it received** (the only in-place
updates are `found_xpath_list[-1] += …` and `found_xpath_list[-1] = …`): all elements but the
last are as they were, for every call, outcome and starting contents. -/
theorem C19_list_changes_last_only (re : Bool) (fuel : Nat) (node : Val) (toks : List Str) (fl : FL) (ps : PS) :
    (fa re fuel node toks fl ps).fl.dropLast = fl.dropLast :=
  fa_dl re fuel node toks fl ps

/-- **The model returns values only, and only values of the tree.**  `findallTop` is a function of
the tree, the expression and the contents of the defaults.  The model does **not** thread the tree:
the tree is an argument and is not part of what a search returns (`Out` = result, contents of the
two default objects), so "the tree component is returned unchanged" is true by construction and has
no content as a theorem.  The claim is therefore checked where it has content, on the implementation:
stream `fa.pure` (driver operation of `Drv/FindAllList.lean`) compares, for dict- and list-rooted
containers, the model's answer *followed by the tree it was given* with the real result *followed by
the encoding of the real container after the call*; the evaluators `search`/`history`/`mixed` compare
the encoding before and after.  What can be said inside the model: every value of the returned
mapping occurs in the tree searched (it is the tree, an element of a list or the value of an entry of
a dictionary occurring in it) — the search neither invents nor rebuilds values — for both roots.
That the result depends on nothing but the tree and the expression is `C19_depends_only`. -/
theorem C19_pure (fuel : Nat) (t : Val) (e : Str) (re : Bool) (f : Found)
    (h : (findallTop fuel fresh t e re).res = .ok (some f)) : ∀ kv ∈ f, Sub t kv.2 :=
  fa_sub t re fuel t (tokens e) [] [] Sub.refl (by intro kv hkv; cases hkv) f h

/-! ## 2. exact paths -/

/-- **An exact path finds exactly its node.**  For a dict-rooted tree and a non-root position
`p` made of plain keys and of indexes of list elements that are containers (`PathOk`), searching
the canonical xpath of `p` (`"//" + names joined by "/"`, `"[i]"` appended, as `xpath()` writes
it) returns exactly one pair: that xpath and the node at `p`; the defaults are untouched. -/
theorem C19_exact_path (cls : Cls) (kvs : List (Str × Val)) (k : Str) (rest : Pos) (c : Val)
    (h : PathOk (.dict cls kvs) (.key k :: rest) c) (fuel : Nat) (hf : fuel > rest.length + 1)
    (re : Bool := true) :
    findallTop fuel fresh (.dict cls kvs) (slash ++ renderPos (.key k :: rest)) re =
      ⟨.ok (some [(slash ++ renderPos (.key k :: rest), c)]), [], []⟩ := by
  have hp := h.plain
  show fa re fuel _ (tokens _) [] [] = _
  rw [tokens_render k rest hp, fa_exact re (.key k :: rest) _ c [] [] fuel h (by simpa using hf),
    keyOf_flPath k rest hp]
  rfl

/-- `PathOk` is what the property's quantifier gives: the position exists and leads to `c` -/
theorem C19_pathOk_getAt {v c : Val} {p : Pos} (h : PathOk v p c) : getAt v p = some c ∧ PlainPos p :=
  ⟨h.getAt, h.plain⟩

/-- **The key of an exact-path result resolves through item access to the identical value**
(model of `n0dict.__getitem__`, C01 engine), and the lookup leaves the tree as it is. -/
theorem C19_resolves (cls : Cls) (kvs : List (Str × Val)) (k : Str) (rest : Pos) (c : Val)
    (h : PathOk (.dict cls kvs) (.key k :: rest) c) (fuel : Nat) (hf : fuel ≥ 2 * (rest.length + 1))
    (xp : Str) (v : Val) (re : Bool)
    (hm : ∀ f, (findallTop fuel fresh (.dict cls kvs) (slash ++ renderPos (.key k :: rest)) re).res = .ok (some f) →
      (xp, v) ∈ f) :
    getItem fuel (.dict cls kvs) xp = (.dict cls kvs, .ok v) := by
  have hex := C19_exact_path cls kvs k rest c h fuel (by omega) re
  have := hm _ (by rw [hex])
  simp only [List.mem_singleton, Prod.mk.injEq] at this
  obtain ⟨rfl, rfl⟩ := this
  exact (C01.C01_resolves_node cls kvs (.key k :: rest) v Val.none h.plain (by simp) h.getAt fuel
    (by simpa using hf)).1

/-! ## 3. findfirst -/

/-- **findfirst as documented**: the search runs with `raise_exception=False`
(`findall(node, xpath, False)`, which since C19-e reaches `_findall`); what that search still raises
is raised; nothing found (`None` or an empty mapping) is `IndexError`, or `(None, None)` when
`raise_exception` is false; exactly one pair is returned as it is; several pairs are `IndexError`,
or the first pair when `raise_exception` is false. -/
theorem C19_findfirst (fuel : Nat) (st : Defaults) (t : Val) (e : Str) (re : Bool) :
    (findfirstTop fuel st t e re).1 =
      match (findallTop fuel st t e false).res with
      | .error x => .error x
      | .ok f =>
        match f.getD [] with
        | [] => if re then .error .IndexError else .ok Option.none
        | [kv] => .ok (some kv)
        | kv :: _ :: _ => if re then .error .IndexError else .ok (some kv) := by
  unfold findfirstTop
  simp only
  cases (findallTop fuel st t e false).res with
  | error x => rfl
  | ok f =>
    simp only
    cases f.getD [] with
    | nil => rfl
    | cons kv more =>
      cases more with
      | nil => simp
      | cons _ _ => cases re <;> simp

/-- **A miss is never an exception of the search when `raise_exception=False`.**  For every tree,
expression, starting contents of the defaults and fuel, `findall(xpath, False)` does not raise
IndexError or KeyError — the two exceptions `_findall` uses for "not there" (index out of range, a
scalar where a container is expected, an index on a dictionary, `'..'` above the root) — and since
C19-d a step on a final element is a plain miss.  What may still be raised comes from the
expression, not from the tree (TypeError / ValueError / SyntaxError of a malformed step; since
C19-f nothing else: `C19_exceptions_from_expression`). -/
theorem C19_findall_quiet (fuel : Nat) (st : Defaults) (t : Val) (e : Str) :
    (findallTop fuel st t e false).res ≠ .error .IndexError ∧
    (findallTop fuel st t e false).res ≠ .error .KeyError :=
  fa_noMiss fuel t (tokens e) st.1 st.2

/-- **findfirst signals "none" as documented.**  `findfirst(xpath, False)` never raises IndexError
or KeyError: a miss of any kind is `(None, None)`.  `findfirst(xpath)` (`raise_exception=True`)
never raises KeyError: its only signal for none / many is its own IndexError. -/
theorem C19_findfirst_signals (fuel : Nat) (st : Defaults) (t : Val) (e : Str) :
    ((findfirstTop fuel st t e false).1 ≠ .error .IndexError ∧
     (findfirstTop fuel st t e false).1 ≠ .error .KeyError) ∧
    (findfirstTop fuel st t e true).1 ≠ .error .KeyError := by
  have hq := C19_findall_quiet fuel st t e
  rw [C19_findfirst, C19_findfirst]
  cases hr : (findallTop fuel st t e false).res with
  | error x =>
    rw [hr] at hq
    simp only
    have h1 : x ≠ .IndexError := fun h => hq.1 (by rw [h])
    have h2 : x ≠ .KeyError := fun h => hq.2 (by rw [h])
    exact ⟨⟨fun h => h1 (by cases h; rfl), fun h => h2 (by cases h; rfl)⟩, fun h => h2 (by cases h; rfl)⟩
  | ok f =>
    simp only
    cases f.getD [] with
    | nil => simp
    | cons kv more => cases more <;> simp

/-- a name / index / `[*]` step applied to a final element (fix C19-d): a miss of that branch —
`None`, objects untouched — in both modes (before the fix: `KeyError("Internal error…")`) -/
theorem C19_scalar_step_miss (re : Bool) (fuel : Nat) (node : Val) (tok : Str) (rest : List Str)
    (fl : FL) (ps : PS) (hn : FindAll.isContainer node = false)
    (hc : (∃ n, classify tok = .name n) ∨ (∃ i, classify tok = .idx i) ∨ classify tok = .star) :
    fa re (fuel + 1) node (tok :: rest) fl ps = ⟨.ok Option.none, fl, ps⟩ := by
  cases node <;> simp only [FindAll.isContainer, Bool.true_eq_false] at hn <;>
    rcases hc with ⟨n, h⟩ | ⟨i, h⟩ | h <;> simp only [fa, step, h, stepName, stepIdx, stepStar]

/-! ## 3a. `text()` conditions on nodes that are not strings (fix C19-f)

Before the fix the `text()` branch evaluated `parent_node.lower()`: AttributeError for an int, float,
bool, None, dict or list node, in both modes, which left every loop above it — one such leaf under a
fan-out or a wildcard aborted a search with real matches (`'*/n[text()=v]'` on
`{'x': {'n': 1}, 'y': {'n': 'v'}}`). -/

/-- **No search raises AttributeError**: for every tree, expression, starting contents of the
defaults, fuel and mode. -/
theorem C19_text_never_attribute_error (fuel : Nat) (st : Defaults) (t : Val) (e : Str) (re : Bool) :
    (findallTop fuel st t e re).res ≠ .error .AttributeError :=
  fa_no_attribute_error re fuel t (tokens e) st.1 st.2

/-- the same for `findfirst` -/
theorem C19_findfirst_never_attribute_error (fuel : Nat) (st : Defaults) (t : Val) (e : Str) (re : Bool) :
    (findfirstTop fuel st t e re).1 ≠ .error .AttributeError := by
  have hq := C19_text_never_attribute_error fuel st t e false
  rw [C19_findfirst]
  cases hr : (findallTop fuel st t e false).res with
  | error x =>
    rw [hr] at hq
    simp only
    exact fun h => hq (by cases h; rfl)
  | ok f =>
    simp only
    cases f.getD [] with
    | nil => cases re <;> simp
    | cons kv more => cases more <;> cases re <;> simp

/-- **Which exceptions a search can raise at all.**  With `raise_exception=False` every exception
comes from a token of the expression (TypeError: malformed bracket / unknown condition, ValueError:
`int()` or the unpacking of the condition, SyntaxError: `eval` of `last()…`); with
`raise_exception=True` IndexError and KeyError in addition.  (`OutOfFuel`, `Unsupported` are the
model's own markers.)  Nothing is raised because of the *kind of a node*. -/
theorem C19_exceptions_from_expression (fuel : Nat) (st : Defaults) (t : Val) (e : Str) (re : Bool) (x : PyErr)
    (h : (findallTop fuel st t e re).res = .error x) :
    x = .TypeError ∨ x = .ValueError ∨ x = .SyntaxError ∨ x = .Unsupported ∨ x = .OutOfFuel ∨
    (re = true ∧ (x = .IndexError ∨ x = .KeyError)) := by
  refine fa_errIn re (Q := fun x => x = .TypeError ∨ x = .ValueError ∨ x = .SyntaxError ∨ x = .Unsupported ∨
      x = .OutOfFuel ∨ (re = true ∧ (x = .IndexError ∨ x = .KeyError)))
    (by simp) ?_ (fun hre => by simp [hre]) (fun hre => by simp [hre]) fuel t (tokens e) st.1 st.2 x h
  intro y hy
  rcases hy with h | h | h | h <;> simp [h]

/-- **What a `text()` step does, for every kind of node**: it compares (`textEq`) and either misses
this branch (`None`, both objects untouched) or goes on in the same node with the same list object
and the node registered in a copy of the stack.  It never raises by itself. -/
theorem C19_text_step (re : Bool) (fuel : Nat) (node : Val) (tok : Str) (rest : List Str) (eq : Bool) (v : Str)
    (fl : FL) (ps : PS) (hc : classify tok = .text eq v) (b : Bool) (hb : textEq node v = .ok b) :
    fa re (fuel + 1) node (tok :: rest) fl ps =
      if b = eq then
        ⟨(fa re fuel node rest fl (push ps fl node)).res, (fa re fuel node rest fl (push ps fl node)).fl, ps⟩
      else ⟨.ok Option.none, fl, ps⟩ := by
  simp only [fa, step, hc, stepText, hb]
  cases b <;> cases eq <;> simp

/-- **On string nodes nothing changed**: the case-insensitive comparison of the texts. -/
theorem C19_text_str_unchanged (s v : Str) (hs : ∀ c ∈ s, c.toNat < 128) :
    textEq (.str s) v = .ok (lower s == lower v) := by
  have : s.any (fun c => decide (c.toNat ≥ 128)) = false := by
    rw [List.any_eq_false]
    intro c hc
    have := hs c hc
    simp only [ge_iff_le, decide_eq_true_eq, Nat.not_le]
    exact this
  simp only [textEq, this, Bool.false_eq_true, if_false]

/-- **What is selected among nodes that are not strings**: an int node equals the expected text iff
`int(expected)` succeeds and is that number (`'01'`, `' 1 '`, `'+1'` equal `1`); a bool node is the
int `1` / `0`; None, a dict and a list equal no text — so `=` misses them and `!=` selects them. -/
theorem C19_text_nonstr_selects (v : Str) :
    (∀ i, textEq (.int i) v = .ok (pyInt v == some i)) ∧
    (∀ b, textEq (.bool b) v = .ok (pyInt v == some (if b then 1 else 0))) ∧
    textEq .none v = .ok false ∧
    (∀ c xs, textEq (.list c xs) v = .ok false) ∧
    (∀ c kvs, textEq (.dict c kvs) v = .ok false) :=
  ⟨fun _ => rfl, fun _ => rfl, rfl, fun _ _ => rfl, fun _ _ => rfl⟩

/-- a float node: `float(expected)` is outside the model (`Unsupported`), except that a text with a
character no float literal contains is not equal to it (`float()` refuses it) -/
theorem C19_text_float_node (r v : Str) (hv : pyInt v = Option.none) :
    textEq (.flt r) v = if v.all floatLitChar then .error .Unsupported else .ok false := by
  simp only [textEq, hv]

/-- a float node and an integer literal below 10^15 (converted exactly by `float()`): equal iff the
node prints as that integer followed by `.0` (`-0.0` equals `0`) -/
theorem C19_text_float_node_int (r v : Str) (i : Int) (hv : pyInt v = some i) (hi : i.natAbs < 10 ^ 15) :
    textEq (.flt r) v = .ok (r == intRepr i ++ ['.', '0'] || (i == 0 && r == ['-', '0', '.', '0'])) := by
  simp only [textEq, hv, hi, if_true]

/-- **findall and item access select the same nodes**: on every node that is neither a string nor a
float the comparison is the one item access makes for `[text()=v]` (`XPath.textEqCond`, the model
of `n0dict._find`); on a string node item access compares case-sensitively, findall
case-insensitively (unchanged), so item access selects a subset. -/
theorem C19_text_agrees_item_access (node : Val) (v : Str) (hs : ∀ s, node ≠ .str s) (hf : ∀ r, node ≠ .flt r) :
    textEq node v = .ok (textEqCond node (.str v)) := by
  cases node with
  | str s => exact absurd rfl (hs s)
  | flt r => exact absurd rfl (hf r)
  | _ => rfl

theorem C19_text_str_item_access_subset (s v : Str) (hs : ∀ c ∈ s, c.toNat < 128)
    (h : textEqCond (.str s) (.str v) = true) : textEq (.str s) v = .ok true := by
  rw [C19_text_str_unchanged s v hs]
  simp only [textEqCond, pyEqCond, decide_eq_true_eq] at h
  subst h
  simp

-- non-vacuity of the C19-f theorems: a `text()` token, every kind of node
example : classify ['[', 't', 'e', 'x', 't', '(', ')', '=', '0', '1', ']'] = .text true ['0', '1'] ∧ classify ['[', 't', 'e', 'x', 't', '(', ')', '!', '=', 'v', ']'] = .text false ['v'] := by decide
example : textEq (.int 1) ['0', '1'] = .ok true ∧ textEq (.int 1) ['1', '.', '0'] = .ok false ∧
    textEq (.bool true) ['1'] = .ok true ∧ textEq (.bool true) ['t', 'r', 'u', 'e'] = .ok false ∧
    textEq .none ['n', 'o', 'n', 'e'] = .ok false ∧ textEq (.str ['V']) ['v'] = .ok true ∧
    textEqCond (.str ['V']) (.str ['v']) = false ∧ textEqCond (.str ['v']) (.str ['v']) = true ∧
    textEq (.flt ['1', '.', '5']) ['z', 'z'] = .ok false ∧ textEq (.flt ['1', '.', '5']) ['1', '.', '5'] = .error .Unsupported ∧
    textEq (.flt ['1', '.', '0']) ['0', '1'] = .ok true ∧ textEq (.flt ['1', '.', '5']) ['1'] = .ok false ∧
    pyInt ['z', 'z'] = Option.none ∧ pyInt ['0', '1'] = some 1 := by decide
example : fa true 5 (.int 1) [['[', 't', 'e', 'x', 't', '(', ')', '=', '0', '1', ']']] [['n']] [] = ⟨.ok (some [(['/', '/', 'n'], .int 1)]), [['n']], []⟩ ∧
    fa true 5 .none [['[', 't', 'e', 'x', 't', '(', ')', '=', '0', '1', ']']] [['n']] [] = ⟨.ok Option.none, [['n']], []⟩ ∧
    fa true 5 (.dict .n0 []) [['[', 't', 'e', 'x', 't', '(', ')', '!', '=', 'v', ']']] [['n']] [] = ⟨.ok (some [(['/', '/', 'n'], .dict .n0 [])]), [['n']], []⟩ := by decide
example : (findallTop 20 fresh (.dict .n0 []) ['[', 'x']).res = .error .TypeError ∧
    (findallTop 20 fresh (.dict .n0 []) ['[', '5', ']'] true).res = .error .IndexError ∧
    (findallTop 20 fresh (.dict .n0 []) ['[', '5', ']'] false).res = .ok Option.none := by decide

/-! ## 4. name on a list -/

/-- **A name applied to a list is the `[*]` step followed by the name**: the search re-enters the
same node with `"[*]"` prepended, which visits every element in order (`starLoop`) with the path
`…[i]` and merges what the elements return. -/
theorem C19_fanout (re : Bool) (fuel : Nat) (cls : Cls) (xs : List Val) (name : Str) (rest : List Str)
    (fl : FL) (ps : PS) (hn : classify name = .name name) :
    fa re (fuel + 2) (.list cls xs) (name :: rest) fl ps =
      stepStar (fa re fuel) re (.list cls xs) (name :: rest) fl ps := by
  have hs : classify ['[', '*', ']'] = .star := by decide
  simp only [fa, step, hn, stepName, hs]

/-- **Fan-out over all elements.**  When every element of the list is a dictionary or a list, a
name applied to the list returns the outcomes of *all* elements, element `i` searched for the
same expression under the path `…[i]`, merged in order (`mergeAll`: `dict.update`, the first
exception wins). -/
theorem C19_fanout_all (re : Bool) (fuel : Nat) (cls : Cls) (xs : List Val) (name : Str) (rest : List Str)
    (fl : FL) (ps : PS) (hn : classify name = .name name) (hfl : fl ≠ [])
    (hall : ∀ x ∈ xs, FindAll.isContainer x = true) :
    (fa re (fuel + 2) (.list cls xs) (name :: rest) fl ps).res =
      mergeAll (fanCalls (fun c cur => fa re fuel c (name :: rest) cur (push ps cur (.list cls xs)))
        fl.dropLast (fl.getLast?.getD []) 0 xs) [] := by
  rw [C19_fanout re fuel cls xs name rest fl ps hn]
  have he : fl.isEmpty = false := by cases fl with | nil => exact absurd rfl hfl | cons _ _ => rfl
  simp only [stepStar, he, Bool.false_eq_true, if_false]
  exact starLoop_fan _ re _ (fun c cur => fa_dl re fuel c _ cur _) xs hall 0 fl []

/-! ## 5. the descendant wildcard `'//*/name'`

Hypotheses on the tree (structural, `Proofs/FindAllDesc.lean`): `KeysOkV t` — every key is a plain
name and no dictionary lists a key twice (a Python `dict` cannot; the model's association lists
could); `ContOkV t` — every list contains only dictionaries or lists (the property's quantifier).
`descV name t` lists, in document order, the positions (relative to `t`) whose last segment is the
key `name`, with the node there: for a dictionary its own entry `name` first, then what lies below
each child in the order of the keys; for a list what lies below each element in order. -/

/-- **Completeness of the descendant wildcard, in document order.**  On a dict-rooted tree whose
lists contain only containers, `'//*/name'` returns exactly the pairs (canonical xpath of `p`,
node at `p`) for the positions `p` of `descV`, in that order — the `*` step first tries `name` on
the current node and then descends with the `*` kept into every container child. -/
theorem C19_descendant_complete (cls : Cls) (kvs : List (Str × Val)) (name : Str) (hn : PlainKey name)
    (hk : KeysOkV (.dict cls kvs)) (hc : ContOkV (.dict cls kvs)) (re : Bool := true) :
    ∃ n, ∀ fuel ≥ n,
      (findallTop fuel fresh (.dict cls kvs) (['/', '/', '*', '/'] ++ name) re).res =
        .ok (some ((descV name (.dict cls kvs)).map (fun pv => (slash ++ renderPos pv.1, pv.2)))) := by
  obtain ⟨n, hN⟩ := fad_descendant re hn cls kvs hk hc
  refine ⟨n, fun fuel hf => ?_⟩
  show (fa re fuel _ (tokens _) [] []).res = _
  rw [fad_tokens_desc hn]
  exact hN fuel hf

/-- **Both inclusions**: `descV` lists a pair `(p, w)` iff `p` ends with the key `name` and the
node at `p` is `w` — every node called `name`, at any depth, reachable through dictionaries and
lists, and nothing else. -/
theorem C19_descendant_positions (t : Val) (name : Str) (hk : KeysOkV t) (p : Pos) (w : Val) :
    (p, w) ∈ descV name t ↔ (∃ q, p = q ++ [.key name]) ∧ getAt t p = some w :=
  (fad_desc_mem name).1 t hk p w

/-- no position is listed twice, and distinct positions have distinct canonical xpaths (so that
`dict.update` never overwrites a pair) -/
theorem C19_descendant_distinct (t : Val) (name : Str) (hk : KeysOkV t) :
    (descV name t).Pairwise (fun a b => a.1 ≠ b.1) ∧
    ∀ p q : Pos, PlainPos p → PlainPos q → slash ++ renderPos p = slash ++ renderPos q → p = q :=
  ⟨((fad_desc_distinct name).1 t hk).1, fun p q hp hq h => fad_renderPos_inj p q hp hq (List.append_cancel_left h)⟩

/-- every list of the tree contains only dictionaries or lists (the property's quantifier) and
every key is a plain name -/
def GoodTree (t : Val) : Prop :=
  ∀ p v, getAt t p = some v → PlainPos p ∧
    (∀ cls xs, v = .list cls xs → ∀ x ∈ xs, FindAll.isContainer x = true)

/-- the structural hypotheses say what `GoodTree` says (and that keys are not repeated) -/
theorem C19_goodTree_of_ok (t : Val) (hk : KeysOkV t) (hc : ContOkV t) : GoodTree t := by
  intro p v h
  refine ⟨(fad_keysOk_getAt p hk h).1, ?_⟩
  intro cls xs hv x hx
  have := fad_contOk_getAt p hc h
  subst hv
  simp only [ContOkV] at this
  exact fad_contOk_mem this hx

/-- the statement in the form "found iff it is a node called `name`" (membership, both ways) -/
theorem C19_descendant_complete_iff (cls : Cls) (kvs : List (Str × Val)) (name : Str) (hn : PlainKey name)
    (hk : KeysOkV (.dict cls kvs)) (hc : ContOkV (.dict cls kvs)) (re : Bool := true) :
    ∃ n, ∀ fuel ≥ n, ∃ f,
      (findallTop fuel fresh (.dict cls kvs) (['/', '/', '*', '/'] ++ name) re).res = .ok (some f) ∧
      ∀ xp v, (xp, v) ∈ f ↔
        ∃ p, getAt (.dict cls kvs) (p ++ [.key name]) = some v ∧ xp = slash ++ renderPos (p ++ [.key name]) := by
  obtain ⟨n, hN⟩ := C19_descendant_complete cls kvs name hn hk hc re
  refine ⟨n, fun fuel hf => ⟨_, hN fuel hf, fun xp v => ?_⟩⟩
  simp only [List.mem_map, Prod.mk.injEq]
  constructor
  · rintro ⟨⟨p, w⟩, hm, rfl, rfl⟩
    obtain ⟨⟨q, rfl⟩, hg⟩ := (C19_descendant_positions _ name hk p w).1 hm
    exact ⟨q, hg, rfl⟩
  · rintro ⟨q, hg, rfl⟩
    exact ⟨(q ++ [.key name], v), (C19_descendant_positions _ name hk _ v).2 ⟨⟨q, rfl⟩, hg⟩, rfl, rfl⟩

/-- **Completeness of the descendant wildcard with a two-step tail, `'//*/name/sub'`.**  On a
dict-rooted tree with `KeysOkV`, `ContOkV` in which no entry called `name` is a list (`NnlV`: below a
list the step `sub` fans out, which has its own rendering), the result is exactly — in document
order — the entries `sub` of the dictionaries called `name`, at any depth
(`tailOf sub (descV name root)`).  A node called `name` that is a final element, or a dictionary
without `sub`, is a miss of that branch (fix C19-d: before, the first such node aborted the whole
search with `KeyError("Internal error…")`) and the search goes on with the other branches. -/
theorem C19_descendant_tail (cls : Cls) (kvs : List (Str × Val)) (name sub : Str)
    (hn : PlainKey name) (hs : PlainKey sub)
    (hk : KeysOkV (.dict cls kvs)) (hc : ContOkV (.dict cls kvs)) (hl : NnlV name (.dict cls kvs))
    (re : Bool := true) :
    ∃ n, ∀ fuel ≥ n,
      (findallTop fuel fresh (.dict cls kvs) (['/', '/', '*', '/'] ++ name ++ ['/'] ++ sub) re).res =
        .ok (some ((tailOf sub (descV name (.dict cls kvs))).map (fun pv => (slash ++ renderPos pv.1, pv.2)))) := by
  obtain ⟨n, hN⟩ := fat_descendant re hn hs cls kvs hk hc hl
  refine ⟨n, fun fuel hf => ?_⟩
  show (fa re fuel _ (tokens _) [] []).res = _
  rw [fat_tokens hn hs]
  exact hN fuel hf

/-- **Both inclusions**: the pairs listed are exactly the nodes at the positions that end with the
keys `name`, `sub` — every such node, at any depth, and nothing else -/
theorem C19_descendant_tail_positions (t : Val) (name sub : Str) (hk : KeysOkV t) (p : Pos) (v : Val) :
    (p, v) ∈ tailOf sub (descV name t) ↔
      ∃ q, p = q ++ [.key name, .key sub] ∧ getAt t p = some v :=
  fat_tail_mem_getAt name sub t hk p v

/-- the statement in the form "found iff it is the node at a position `…/name/sub`" -/
theorem C19_descendant_tail_iff (cls : Cls) (kvs : List (Str × Val)) (name sub : Str)
    (hn : PlainKey name) (hs : PlainKey sub)
    (hk : KeysOkV (.dict cls kvs)) (hc : ContOkV (.dict cls kvs)) (hl : NnlV name (.dict cls kvs))
    (re : Bool := true) :
    ∃ n, ∀ fuel ≥ n, ∃ f,
      (findallTop fuel fresh (.dict cls kvs) (['/', '/', '*', '/'] ++ name ++ ['/'] ++ sub) re).res = .ok (some f) ∧
      ∀ xp v, (xp, v) ∈ f ↔
        ∃ q, getAt (.dict cls kvs) (q ++ [.key name, .key sub]) = some v ∧
          xp = slash ++ renderPos (q ++ [.key name, .key sub]) := by
  obtain ⟨n, hN⟩ := C19_descendant_tail cls kvs name sub hn hs hk hc hl re
  refine ⟨n, fun fuel hf => ⟨_, hN fuel hf, fun xp v => ?_⟩⟩
  simp only [List.mem_map, Prod.mk.injEq]
  constructor
  · rintro ⟨⟨p, w⟩, hm, rfl, rfl⟩
    obtain ⟨q, rfl, hg⟩ := (C19_descendant_tail_positions _ name sub hk p w).1 hm
    exact ⟨q, hg, rfl⟩
  · rintro ⟨q, hg, rfl⟩
    exact ⟨(q ++ [.key name, .key sub], v), (C19_descendant_tail_positions _ name sub hk _ v).2 ⟨q, rfl, hg⟩, rfl, rfl⟩

/-! ## 6. every key resolves

`FadInv` (`Proofs/FindAllDesc.lean`) is the invariant "the found-path list always renders the
position of the current node": the list is the text of groups (a key and the integer indexes
appended to it — negative ones as written, `last()-k` as the integer it evaluates to) that spell a
walk from the root to the node, and every proper prefix of the list that is registered in the
stack is registered with the node it leads to (what `'..'` relies on).  It is preserved by every
branch of `_findall` (`fad_step_ok`: name, `*` self check and descent, name on a list, integer
index, `[*]` loop with its in-place updates, `'..'`, `text()` condition — which since
`fixes/C19-c.patch` only filters), for every fuel, with the state threading of the model. -/

/-- **Every key spells the position of its value.**  For every expression, every pair `(xp, v)` of
the result has `xp = "//" ++ steps` for steps (plain keys, attached integer indexes) along which
plain Python indexing from the root reaches `v`. -/
theorem C19_keys_spell (cls : Cls) (kvs : List (Str × Val)) (e : Str) (hk : KeysOkV (.dict cls kvs))
    (fuel : Nat) (re : Bool) (f : Found) (h : (findallTop fuel fresh (.dict cls kvs) e re).res = .ok (some f))
    (xp : Str) (v : Val) (hm : (xp, v) ∈ f) :
    ∃ steps, PlainSteps steps ∧ xp = renderSp .two steps ∧ stepsGet (.dict cls kvs) steps = some v := by
  obtain ⟨gs, hp, hkey, hget⟩ := fad_findall_spells cls kvs hk e fuel f re h (xp, v) hm
  exact ⟨stepsOfG gs, fad_plainSteps gs hp, hkey.trans (fad_keyOf_renderSp gs hp), hget⟩

/-- **Every key of every result resolves through item access (and `get`) to the value found**
(model of `n0dict.__getitem__`, C01 engine; `C01_spellings_string`), whatever the expression —
names, `*`, indexes in every spelling, `[*]`, `'..'`, `text()` conditions — and the lookup leaves
the tree as it is. -/
theorem C19_resolves_all (cls : Cls) (kvs : List (Str × Val)) (e : Str) (hk : KeysOkV (.dict cls kvs))
    (fuel : Nat) (re : Bool) (f : Found) (h : (findallTop fuel fresh (.dict cls kvs) e re).res = .ok (some f))
    (xp : Str) (v : Val) (hm : (xp, v) ∈ f) :
    ∃ n, ∀ fuel' ≥ n, getItem fuel' (.dict cls kvs) xp = (.dict cls kvs, .ok v) ∧
      ∀ d, get fuel' (.dict cls kvs) xp d = (.dict cls kvs, .ok v) := by
  obtain ⟨steps, hp, rfl, hget⟩ := C19_keys_spell cls kvs e hk fuel re f h xp v hm
  by_cases hne : steps = []
  · subst hne
    rw [fad_stepsGet_nil] at hget
    cases hget
    refine ⟨1, fun fuel' hf => ?_⟩
    obtain ⟨k, rfl⟩ : ∃ k, fuel' = k + 1 := ⟨fuel' - 1, by omega⟩
    exact ⟨fad_getItem_root k cls kvs, fun d => fad_get_root k cls kvs d⟩
  · exact ⟨2 * steps.length, fun fuel' hf =>
      ⟨(C01.C01_spellings_string cls kvs .two steps v Val.none hp hne hget fuel' hf).1,
       fun d => (C01.C01_spellings_string cls kvs .two steps v d hp hne hget fuel' hf).2⟩⟩

/-! ## findings and non-vacuity -/

def exTree : Val :=
  .dict .n0 [(['a'], .dict .plain [(['b'], .dict .plain [(['c'], .int 1)]), (['k'], .str ['V'])]),
             (['l'], .list .n0 [.dict .n0 [(['n'], .int 1)], .list .plain [.dict .plain [(['n'], .int 5)]]]),
             (['n'], .int 0)]

/-- **C19-c (fixed by `fixes/C19-c.patch`).**  A `text()` condition is no longer kept in the key:
the witness of the former finding returns the xpath of the node, which item access resolves (the
comparison of findall is case-insensitive, `<>` is an operator item access does not know). -/
theorem C19_text_key_fixed :
    (findallTop 20 fresh exTree ['a', '/', 'k', '[', 't', 'e', 'x', 't', '(', ')', '=', 'v', ']']).res
      = .ok (some [(['/', '/', 'a', '/', 'k'], .str ['V'])]) ∧
    (findallTop 20 fresh exTree ['a', '/', 'k', '[', 't', 'e', 'x', 't', '(', ')', '<', '>', 'w', ']']).res
      = .ok (some [(['/', '/', 'a', '/', 'k'], .str ['V'])]) ∧
    getItem 20 exTree ['/', '/', 'a', '/', 'k'] = (exTree, .ok (.str ['V'])) := by decide

/-- the trees of the former finding C19-f: `{'x': {'n': 1}, 'y': {'n': 'v'}}` and
`{'r': [{'name': 'a', 'id': 1}, {'name': 'b', 'id': None}]}` -/
def exNum : Val :=
  .dict .n0 [(['x'], .dict .n0 [(['n'], .int 1)]), (['y'], .dict .n0 [(['n'], .str ['v'])])]
def exRecs : Val :=
  .dict .n0 [(['r'], .list .n0 [.dict .n0 [(['n', 'a', 'm', 'e'], .str ['a']), (['i', 'd'], .int 1)],
                                .dict .n0 [(['n', 'a', 'm', 'e'], .str ['b']), (['i', 'd'], .none)]])]

/-- **C19-f (fixed by `fixes/C19-f.patch`).**  A numeric / None leaf under a wildcard or a fan-out no
longer aborts the search (before: AttributeError in both modes); the numeric node is compared as a
number, as item access does; `!=` selects the node that has no text. -/
theorem C19_text_nonstr_fixed :
    (findallTop 20 fresh exNum ['*', '/', 'n', '[', 't', 'e', 'x', 't', '(', ')', '=', 'v', ']']).res = .ok (some [(['/', '/', 'y', '/', 'n'], .str ['v'])]) ∧
    (findallTop 20 fresh exNum ['*', '/', 'n', '[', 't', 'e', 'x', 't', '(', ')', '=', 'v', ']'] false).res = .ok (some [(['/', '/', 'y', '/', 'n'], .str ['v'])]) ∧
    (findfirstTop 20 fresh exNum ['*', '/', 'n', '[', 't', 'e', 'x', 't', '(', ')', '=', 'v', ']'] false).1 = .ok (some (['/', '/', 'y', '/', 'n'], .str ['v'])) ∧
    (findallTop 20 fresh exNum ['*', '/', 'n', '[', 't', 'e', 'x', 't', '(', ')', '=', '0', '1', ']']).res = .ok (some [(['/', '/', 'x', '/', 'n'], .int 1)]) ∧
    getItem 20 exNum ['x', '/', 'n', '[', 't', 'e', 'x', 't', '(', ')', '=', '1', ']'] = (exNum, .ok (.int 1)) ∧
    (findallTop 20 fresh exRecs ['r', '/', 'i', 'd', '[', 't', 'e', 'x', 't', '(', ')', '=', '1', ']', '/', '.', '.', '/', 'n', 'a', 'm', 'e']).res = .ok (some [(['/', '/', 'r', '[', '0', ']', '/', 'n', 'a', 'm', 'e'], .str ['a'])]) ∧
    (findallTop 20 fresh exRecs ['r', '/', 'i', 'd', '[', 't', 'e', 'x', 't', '(', ')', '!', '=', '1', ']', '/', '.', '.', '/', 'n', 'a', 'm', 'e']).res = .ok (some [(['/', '/', 'r', '[', '1', ']', '/', 'n', 'a', 'm', 'e'], .str ['b'])]) := by
  refine ⟨?_, ?_, ?_, ?_, ?_, ?_, ?_⟩ <;> decide

/-- outside the quantifier: a list of scalars under a wildcard raises -/
theorem C19_scalar_in_list_cex :
    (findallTop 20 fresh (.dict .n0 [(['s'], .list .n0 [.int 1])]) ['/', '/', '*', '/', 'n']).res
      = .error .IndexError := by decide

/-- the tree of the former findings C19-d / C19-e:
`{'x': {'name': 'n'}, 'y': {'name': {'first': 'f'}}, 'a': {'b': 'x'}, 'l': [{'name': 'q'}]}` -/
def exMiss : Val :=
  .dict .n0 [(['x'], .dict .n0 [(['n', 'a', 'm', 'e'], .str ['n'])]),
             (['y'], .dict .n0 [(['n', 'a', 'm', 'e'], .dict .n0 [(['f', 'i', 'r', 's', 't'], .str ['f'])])]),
             (['a'], .dict .n0 [(['b'], .str ['x'])]),
             (['l'], .list .n0 [.dict .n0 [(['n', 'a', 'm', 'e'], .str ['q'])]])]

/-- **C19-d (fixed by `fixes/C19-d.patch`).**  A step below a final element is a miss of that branch:
`'//*/name/first'` goes on after `x/name` (a string) and finds `//y/name/first`; `'a/b/c'` is `None`
like `'a/zz'` (before the fix both raised `KeyError("Internal error…")`). -/
theorem C19_step_below_scalar_fixed :
    (findallTop 20 fresh exMiss ['/', '/', '*', '/', 'n', 'a', 'm', 'e', '/', 'f', 'i', 'r', 's', 't']).res
      = .ok (some [(['/', '/', 'y', '/', 'n', 'a', 'm', 'e', '/', 'f', 'i', 'r', 's', 't'], .str ['f'])]) ∧
    (findallTop 20 fresh exMiss ['a', '/', 'b', '/', 'c']).res = .ok Option.none ∧
    (findallTop 20 fresh exMiss ['a', '/', 'z', 'z']).res = .ok Option.none ∧
    (findallTop 20 fresh exMiss ['a', '/', 'b', '[', '0', ']']).res = .ok Option.none :=
  ⟨by decide, by decide, by decide, by decide⟩

/-- **C19-e (fixed by `fixes/C19-e.patch`).**  `raise_exception=False` reaches `_findall`:
`findfirst(…, False)` answers `(None, None)` for every kind of miss (an index out of range, `'..'`
above the root, a step below a final element), `findfirst(…)` signals it with its own IndexError,
`findall(…, False)` returns `None` where `findall(…)` raises. -/
theorem C19_raise_exception_threaded :
    (findfirstTop 20 fresh exMiss ['l', '[', '5', ']', '/', 'n', 'a', 'm', 'e'] false).1 = .ok Option.none ∧
    (findfirstTop 20 fresh exMiss ['.', '.'] false).1 = .ok Option.none ∧
    (findfirstTop 20 fresh exMiss ['a', '/', 'b', '/', 'c'] false).1 = .ok Option.none ∧
    (findfirstTop 20 fresh exMiss ['l', '[', '5', ']', '/', 'n', 'a', 'm', 'e'] true).1 = .error .IndexError ∧
    (findfirstTop 20 fresh exMiss ['.', '.'] true).1 = .error .IndexError ∧
    (findallTop 20 fresh exMiss ['l', '[', '5', ']'] false).res = .ok Option.none ∧
    (findallTop 20 fresh exMiss ['l', '[', '5', ']']).res = .error .IndexError ∧
    (findallTop 20 fresh exMiss ['.', '.']).res = .error .KeyError :=
  ⟨by decide, by decide, by decide, by decide, by decide, by decide, by decide, by decide⟩

-- `C19_descendant_tail`: the hypotheses hold for `exMiss` (no entry `name` is a list); the nodes it must find:
-- `x/name` is a final element (a miss), `y/name` a dictionary with `first`, `l[0]/name` a final element
example : KeysOkV exMiss ∧ ContOkV exMiss ∧ NnlV ['n', 'a', 'm', 'e'] exMiss := by
  have pk : ∀ k : Str, k ≠ [] → (∀ c ∈ k, plainChar c = true) → k ≠ ['.', '.'] → PlainKey k :=
    fun k h1 h2 h3 => ⟨h1, h2, h3⟩
  simp only [exMiss, KeysOkV, KeysOkK, KeysOkL, ContOkV, ContOkK, ContOkL, NnlV, NnlK, NnlL, lookup, FindAll.isContainer]
  refine ⟨?_, by decide, ?_⟩
  · repeat' apply And.intro
    all_goals first | exact pk _ (by decide) (by decide) (by decide) | trivial | decide
  · repeat' apply And.intro
    all_goals first | trivial | (intro c xs h; revert h; simp)
example : tailOf ['f', 'i', 'r', 's', 't'] (descV ['n', 'a', 'm', 'e'] exMiss) =
    [([.key ['y'], .key ['n', 'a', 'm', 'e'], .key ['f', 'i', 'r', 's', 't']], .str ['f'])] := by
  simp [exMiss, descV, descK, descL, lookup, tailOf, tl1]
-- `C19_scalar_step_miss`: its hypotheses hold for a string node and a name / an index / `[*]`
example : FindAll.isContainer (.str ['x']) = false ∧ classify ['c'] = .name ['c'] ∧
    classify ['[', '0', ']'] = .idx 0 ∧ classify ['[', '*', ']'] = .star := by decide
-- `C19_findall_quiet` / `C19_findfirst_signals`: what is still raised with `raise_exception=False`
-- comes from the expression (a malformed step), a found pair is returned as before
example : (findallTop 20 fresh exMiss ['a', '/', '[', 'x'] false).res = .error .TypeError ∧
    (findfirstTop 20 fresh exMiss ['a', '/', 'b'] false).1 = .ok (some (['/', '/', 'a', '/', 'b'], .str ['x'])) := by
  decide
-- a history with modes: the raising search, its quiet twin, a search after both
example : (runHistM 20 fresh [(exMiss, ['l', '[', '5', ']'], true), (exMiss, ['l', '[', '5', ']'], false),
      (exMiss, ['a', '/', 'b'], true)]).1
    = [.error .IndexError, .ok Option.none, .ok (some [(['/', '/', 'a', '/', 'b'], .str ['x'])])] := by decide

-- non-vacuity of `C19_exact_path` / `C19_resolves`: key, index, index, key
example : PathOk exTree [.key ['l'], .idx 1, .idx 0, .key ['n']] (.int 5) := by
  refine ⟨⟨by decide, by decide, by decide⟩, _, _, _, rfl, rfl, ?_⟩
  refine ⟨_, _, _, rfl, rfl, rfl, ?_⟩
  refine ⟨_, _, _, rfl, rfl, rfl, ?_⟩
  exact ⟨⟨by decide, by decide, by decide⟩, _, _, _, rfl, rfl, rfl⟩
example : findallTop 20 fresh exTree ['/', '/', 'l', '[', '1', ']', '[', '0', ']', '/', 'n']
    = ⟨.ok (some [(['/', '/', 'l', '[', '1', ']', '[', '0', ']', '/', 'n'], .int 5)]), [], []⟩ := by decide
-- descendant wildcard, fan-out, `..`, `last()`, the repaired leading index on a list root
example : (findallTop 20 fresh exTree ['/', '/', '*', '/', 'n']).res
    = .ok (some [(['/', '/', 'n'], .int 0), (['/', '/', 'l', '[', '0', ']', '/', 'n'], .int 1),
                 (['/', '/', 'l', '[', '1', ']', '[', '0', ']', '/', 'n'], .int 5)]) := by decide
example : (findallTop 20 fresh exTree ['l', '/', 'n']).res
    = .ok (some [(['/', '/', 'l', '[', '0', ']', '/', 'n'], .int 1),
                 (['/', '/', 'l', '[', '1', ']', '[', '0', ']', '/', 'n'], .int 5)]) := by decide
example : (findallTop 20 fresh exTree ['a', '/', 'b', '/', '.', '.', '/', 'k']).res
    = .ok (some [(['/', '/', 'a', '/', 'k'], .str ['V'])]) := by decide
example : (findallTop 20 fresh exTree ['l', '[', 'l', 'a', 's', 't', '(', ')', '-', '1', ']', '/', 'n']).res
    = .ok (some [(['/', '/', 'l', '[', '-', '2', ']', '/', 'n'], .int 1)]) := by decide
example : (findallTop 20 fresh (.list .n0 [.dict .n0 [(['n'], .int 1)]]) ['[', '0', ']', '/', 'n']).res
    = .ok (some [(['/', '/', '[', '0', ']', '/', 'n'], .int 1)]) := by decide
-- a history: the second search equals the search run alone, although the first one raised
example : (runHist 20 fresh [(exTree, ['.', '.']), (exTree, ['n'])]).1
    = [.error .KeyError, .ok (some [(['/', '/', 'n'], .int 0)])] := by decide
-- findfirst: many / none
example : (findfirstTop 20 fresh exTree ['l', '/', 'n'] true).1 = .error .IndexError := by decide
example : (findfirstTop 20 fresh exTree ['z'] false).1 = .ok Option.none := by decide
example : classify ['n'] = .name ['n'] := by decide
-- `C19_pure`, `C19_list_changes_last_only`: a search that returns container nodes; a call that really writes
example : Sub exTree (.int 0) := Sub.entry (t := exTree) (k := ['n']) (Sub.refl (t := exTree)) (by simp)
example : (fa true 20 (.list .n0 [.dict .n0 []]) [['[', '0', ']']] [['l']] []).fl = [['l', '[', '0', ']']] := by decide
-- `C19_fanout_all`: both elements are visited
example : (fa true 20 (.list .n0 [.dict .n0 [(['n'], .int 1)], .dict .n0 [(['n'], .int 2)]]) [['n']] [['l']] []).res
    = .ok (some [(['/', '/', 'l', '[', '0', ']', '/', 'n'], .int 1), (['/', '/', 'l', '[', '1', ']', '/', 'n'], .int 2)]) := by decide

-- `C19_descendant_complete` & co.: the tree satisfies the hypotheses; the nodes it must find
example : KeysOkV exTree ∧ ContOkV exTree := by
  have pk : ∀ c : Char, plainChar c = true → PlainKey [c] :=
    fun c h => ⟨by simp, by simpa using h, by simp⟩
  simp only [exTree, KeysOkV, KeysOkK, KeysOkL, ContOkV, ContOkK, ContOkL, lookup, FindAll.isContainer]
  refine ⟨?_, by decide⟩
  repeat' apply And.intro
  all_goals first | exact pk _ (by decide) | trivial | decide
example : descV ['n'] exTree = [([.key ['n']], .int 0), ([.key ['l'], .idx 0, .key ['n']], .int 1),
    ([.key ['l'], .idx 1, .idx 0, .key ['n']], .int 5)] := by
  simp [exTree, descV, descK, descL, lookup]
-- `C19_keys_spell` / `C19_resolves_all`: negative index, `[*]` on a nested list, name, `'..'`
-- (a `text()` condition followed by `'..'`: below; ending in a condition: `C19_text_key_fixed`)
def exExpr : Str := ['l', '[', '-', '1', ']', '/', '[', '*', ']', '/', 'n', '/', '.', '.']
example : (findallTop 20 fresh exTree exExpr).res
    = .ok (some [(['/', '/', 'l', '[', '-', '1', ']', '[', '0', ']'], .dict .plain [(['n'], .int 5)])]) := by decide
example : getItem 20 exTree ['/', '/', 'l', '[', '-', '1', ']', '[', '0', ']']
    = (exTree, .ok (.dict .plain [(['n'], .int 5)])) := by decide
example : (findallTop 20 fresh exTree ['a', '/', 'k', '[', 't', 'e', 'x', 't', '(', ')', '=', 'v', ']', '/', '.', '.', '/', 'b']).res
    = .ok (some [(['/', '/', 'a', '/', 'b'], .dict .plain [(['c'], .int 1)])]) := by decide
-- the hypothesis "no key twice" is needed: on an association list that repeats a key the second
-- entry is visited by `*` and overwrites the pair of the first
example : (findallTop 20 fresh (.dict .n0 [(['a'], .dict .n0 [(['n'], .int 1)]), (['a'], .dict .n0 [(['n'], .int 2)])])
    ['/', '/', '*', '/', 'n']).res = .ok (some [(['/', '/', 'a', '/', 'n'], .int 2)]) := by decide

/-! ## 7. list-rooted containers (`n0list.findall`)

`n0list.findall(xpath)` calls the same `findall(self, xpath)` as `n0dict.findall` does, so the
model's entry point is the same `findallTop`, applied to `.list cls xs`.  The search starts on a
list node with an empty path list: the first `[*]`/index step rebinds the local name to `[""]`, the
first element of the path list carries no name (`"[1][0]"`) and the keys reported are
`"//" ++ "[1][0]/a/b[2]"` — the canonical xpath of a position `p` below a list root is
`'/' :: '/' :: renderPos p`.  Sections 1 and 3 (`C19_state_invariant`, `C19_history_independent`,
`C19_depends_only`, `C19_pure`, `C19_findfirst`, …) and `C19_fanout`, `C19_descendant_positions`,
`C19_descendant_distinct` quantify over every `Val` and hold for list roots as stated. -/

/-- **An exact path finds exactly its node (list root).**  For a list-rooted tree and a position
`[n] ++ rest` made of indexes of container elements and plain keys (`PathOk`), searching its
canonical xpath — with the prefix `//` as `findall` reports it, with `/`, or with none
(`//[1]/a`, `/[1]/a`, `[1]/a`) — returns exactly one pair: `"//" ++` rendered position and the node
there; the defaults are untouched. -/
theorem C19_exact_path_list (cls : Cls) (xs : List Val) (n : Nat) (rest : Pos) (c : Val)
    (h : PathOk (.list cls xs) (.idx n :: rest) c) (lead : Lead) (fuel : Nat) (hf : fuel > rest.length + 1)
    (re : Bool := true) :
    findallTop fuel fresh (.list cls xs) (leadStr lead ++ renderPos (.idx n :: rest)) re =
      ⟨.ok (some [('/' :: '/' :: renderPos (.idx n :: rest), c)]), [], []⟩ := by
  have hp : PlainPos (.idx n :: rest) := h.plain
  show fa re fuel _ (tokens _) [] [] = _
  rw [fal_tokens_render lead n rest hp, fa_exact re (.idx n :: rest) _ c [] [] fuel h (by simpa using hf),
    fal_keyOf_rooted (q := .idx n :: rest) trivial (by simp) hp]
  rfl

/-- **Fan-out at the list root.**  A name applied to a list root whose elements are dictionaries
or lists returns the outcomes of *all* elements, element `i` searched for the same expression under
the path `[i]`, merged in order (`C19_fanout_all` requires a non-empty path list, i.e. a list below
the root; this is the case of the root itself). -/
theorem C19_fanout_all_root (re : Bool) (fuel : Nat) (cls : Cls) (xs : List Val) (name : Str) (rest : List Str)
    (ps : PS) (hn : classify name = .name name) (hall : ∀ x ∈ xs, FindAll.isContainer x = true) :
    (fa re (fuel + 2) (.list cls xs) (name :: rest) [] ps).res =
      mergeAll (fanCalls (fun c cur => fa re fuel c (name :: rest) cur (push ps cur (.list cls xs)))
        [] [] 0 xs) [] :=
  fal_fanout_root re fuel cls xs name rest ps hn hall

/-- **Completeness of the descendant wildcard on a list root, in document order.**  On a
list-rooted tree whose lists (the root included) contain only containers, `'//*/name'` returns
exactly the pairs (`"//" ++` rendered `p`, node at `p`) for the positions `p` of `descV` — every
node called `name` at any depth below the elements (`C19_descendant_positions`), element by
element, a dictionary's own entry first, nothing else. -/
theorem C19_descendant_complete_list (cls : Cls) (xs : List Val) (name : Str) (hn : PlainKey name)
    (hk : KeysOkV (.list cls xs)) (hc : ContOkV (.list cls xs)) (re : Bool := true) :
    ∃ n, ∀ fuel ≥ n,
      (findallTop fuel fresh (.list cls xs) (['/', '/', '*', '/'] ++ name) re).res =
        .ok (some ((descV name (.list cls xs)).map (fun pv => ('/' :: '/' :: renderPos pv.1, pv.2)))) := by
  obtain ⟨n, hN⟩ := fal_descendant re hn cls xs hk hc
  refine ⟨n, fun fuel hf => ?_⟩
  show (fa re fuel _ (tokens _) [] []).res = _
  rw [fad_tokens_desc hn]
  exact hN fuel hf

/-- the statement in the form "found iff it is a node called `name`" (membership, both ways) -/
theorem C19_descendant_complete_iff_list (cls : Cls) (xs : List Val) (name : Str) (hn : PlainKey name)
    (hk : KeysOkV (.list cls xs)) (hc : ContOkV (.list cls xs)) (re : Bool := true) :
    ∃ n, ∀ fuel ≥ n, ∃ f,
      (findallTop fuel fresh (.list cls xs) (['/', '/', '*', '/'] ++ name) re).res = .ok (some f) ∧
      ∀ xp v, (xp, v) ∈ f ↔
        ∃ p, getAt (.list cls xs) (p ++ [.key name]) = some v ∧ xp = '/' :: '/' :: renderPos (p ++ [.key name]) := by
  obtain ⟨n, hN⟩ := C19_descendant_complete_list cls xs name hn hk hc re
  refine ⟨n, fun fuel hf => ⟨_, hN fuel hf, fun xp v => ?_⟩⟩
  simp only [List.mem_map, Prod.mk.injEq]
  constructor
  · rintro ⟨⟨p, w⟩, hm, rfl, rfl⟩
    obtain ⟨⟨q, rfl⟩, hg⟩ := (C19_descendant_positions _ name hk p w).1 hm
    exact ⟨q, hg, rfl⟩
  · rintro ⟨q, hg, rfl⟩
    exact ⟨(q ++ [.key name], v), (C19_descendant_positions _ name hk _ v).2 ⟨⟨q, rfl⟩, hg⟩, rfl, rfl⟩

/-- **Every key spells the position of its value (list root).**  For every expression, every pair
`(xp, v)` of a result on a list root has `xp = "//" ++ steps` — first the integer indexes applied at
the root (`[1][0]`, negative ones and `last()-k` as the integer written/evaluated), then plain keys
with their attached indexes — and plain Python indexing along `steps` from the root reaches `v`.
Proved through the invariant `FalInv` (`Proofs/FindAllList.lean`) over every branch of `_findall`
with the state threading of the model, the rebinding of the empty path list to `[""]` included. -/
theorem C19_keys_spell_list (cls : Cls) (xs : List Val) (e : Str) (hk : KeysOkV (.list cls xs))
    (fuel : Nat) (re : Bool) (f : Found) (h : (findallTop fuel fresh (.list cls xs) e re).res = .ok (some f))
    (xp : Str) (v : Val) (hm : (xp, v) ∈ f) :
    ∃ steps, PlainSteps steps ∧ xp = renderSp .two steps ∧ stepsGet (.list cls xs) steps = some v := by
  obtain ⟨is, gs, hp, hh, hkey, hget⟩ := fal_findall_spells cls xs hk e fuel f re h (xp, v) hm
  exact ⟨falSteps is gs, fal_plainSteps is gs hp, hkey.trans (fal_keyOf_renderSp is gs hh hp), hget⟩

/-- **Every key of every result on a list root resolves through item access and `get` on the
`n0list` to the value found** (model of `n0list.__getitem__`/`get`, C01 engine;
`C01_spellings_string_list`; the key `'//'` = the root itself), whatever the expression, and the
lookup leaves the tree as it is. -/
theorem C19_resolves_all_list (cls : Cls) (xs : List Val) (e : Str) (hk : KeysOkV (.list cls xs))
    (fuel : Nat) (re : Bool) (f : Found) (h : (findallTop fuel fresh (.list cls xs) e re).res = .ok (some f))
    (xp : Str) (v : Val) (hm : (xp, v) ∈ f) :
    ∃ n, ∀ fuel' ≥ n, getItem fuel' (.list cls xs) xp = (.list cls xs, .ok v) ∧
      ∀ d, get fuel' (.list cls xs) xp d = (.list cls xs, .ok v) := by
  obtain ⟨steps, hp, rfl, hget⟩ := C19_keys_spell_list cls xs e hk fuel re f h xp v hm
  by_cases hne : steps = []
  · subst hne
    rw [fad_stepsGet_nil] at hget
    cases hget
    refine ⟨1, fun fuel' hf => ?_⟩
    obtain ⟨k, rfl⟩ : ∃ k, fuel' = k + 1 := ⟨fuel' - 1, by omega⟩
    exact ⟨fal_getItem_root k cls xs, fun d => fal_get_root k cls xs d⟩
  · exact ⟨2 * steps.length, fun fuel' hf =>
      ⟨(C01.C01_spellings_string_list cls xs .two steps v Val.none hp hne hget fuel' hf).1,
       fun d => (C01.C01_spellings_string_list cls xs .two steps v d hp hne hget fuel' hf).2⟩⟩

/-- **The key of an exact-path result on a list root resolves** through item access and `get` to
the node at that position, tree unchanged (`C01_list_root_node` covers the spellings `[1]/a` and
`/[1]/a`; the `//` spelling `findall` reports goes through `C01_spellings_string_list`). -/
theorem C19_resolves_list (cls : Cls) (xs : List Val) (n : Nat) (rest : Pos) (c : Val)
    (hk : KeysOkV (.list cls xs)) (h : PathOk (.list cls xs) (.idx n :: rest) c) (lead : Lead)
    (fuel : Nat) (hf : fuel > rest.length + 1) :
    ∃ m, ∀ fuel' ≥ m,
      getItem fuel' (.list cls xs) ('/' :: '/' :: renderPos (.idx n :: rest)) = (.list cls xs, .ok c) ∧
      ∀ d, get fuel' (.list cls xs) ('/' :: '/' :: renderPos (.idx n :: rest)) d = (.list cls xs, .ok c) := by
  have hex := C19_exact_path_list cls xs n rest c h lead fuel hf
  exact C19_resolves_all_list cls xs _ hk fuel true _ (by rw [hex]) _ c (by simp)

/-- a list root: dict elements, a nested list with a dict and a list of lists, an empty dict -/
def exList : Val :=
  .list .n0 [.dict .n0 [(['n'], .int 1), (['s'], .list .n0 [.dict .n0 [(['n'], .int 2)]])],
             .list .plain [.dict .plain [(['n'], .int 5)],
                           .list .plain [.dict .plain [(['x'], .dict .plain [(['n'], .str ['V'])])]]],
             .dict .n0 []]

/-- a list root whose elements are scalars (outside the quantifier of the descendant theorem) -/
def exScalars : Val := .list .n0 [.int 1, .str ['x'], .none]

/-- outside the quantifier: scalars directly in the list root under a wildcard / a name raise -/
theorem C19_scalar_in_list_root_cex :
    (findallTop 20 fresh exScalars ['/', '/', '*', '/', 'n']).res = .error .IndexError ∧
    (findallTop 20 fresh exScalars ['n']).res = .error .IndexError ∧
    (findallTop 20 fresh exScalars ['[', '0', ']']).res = .error .IndexError := by decide

-- `C19_descendant_complete_list` & co.: the hypotheses hold, four nodes at depths 2..5 in document order
example : KeysOkV exList ∧ ContOkV exList := by
  have pk : ∀ c : Char, plainChar c = true → PlainKey [c] :=
    fun c h => ⟨by simp, by simpa using h, by simp⟩
  simp only [exList, KeysOkV, KeysOkK, KeysOkL, ContOkV, ContOkK, ContOkL, lookup, FindAll.isContainer]
  refine ⟨?_, by decide⟩
  repeat' apply And.intro
  all_goals first | exact pk _ (by decide) | trivial | decide
example : descV ['n'] exList = [([.idx 0, .key ['n']], .int 1), ([.idx 0, .key ['s'], .idx 0, .key ['n']], .int 2),
    ([.idx 1, .idx 0, .key ['n']], .int 5), ([.idx 1, .idx 1, .idx 0, .key ['x'], .key ['n']], .str ['V'])] := by
  simp [exList, descV, descK, descL, lookup]
example : (findallTop 20 fresh exList ['/', '/', '*', '/', 'n']).res
    = .ok (some [(['/', '/', '[', '0', ']', '/', 'n'], .int 1),
                 (['/', '/', '[', '0', ']', '/', 's', '[', '0', ']', '/', 'n'], .int 2),
                 (['/', '/', '[', '1', ']', '[', '0', ']', '/', 'n'], .int 5),
                 (['/', '/', '[', '1', ']', '[', '1', ']', '[', '0', ']', '/', 'x', '/', 'n'], .str ['V'])]) := by decide
-- an empty list root: nothing to find, an empty mapping (not an exception)
example : (findallTop 20 fresh (.list .n0 []) ['/', '/', '*', '/', 'n']).res = .ok (some []) := by decide
-- `C19_exact_path_list`: index, index, index, key, key; the three prefixes
example : PathOk exList [.idx 1, .idx 1, .idx 0, .key ['x'], .key ['n']] (.str ['V']) := by
  refine ⟨_, _, _, rfl, rfl, rfl, ?_⟩
  refine ⟨_, _, _, rfl, rfl, rfl, ?_⟩
  refine ⟨_, _, _, rfl, rfl, rfl, ?_⟩
  refine ⟨⟨by decide, by decide, by decide⟩, _, _, _, rfl, rfl, ?_⟩
  exact ⟨⟨by decide, by decide, by decide⟩, _, _, _, rfl, rfl, rfl⟩
example : findallTop 20 fresh exList ['[', '1', ']', '[', '1', ']', '[', '0', ']', '/', 'x', '/', 'n']
    = ⟨.ok (some [(['/', '/', '[', '1', ']', '[', '1', ']', '[', '0', ']', '/', 'x', '/', 'n'], .str ['V'])]), [], []⟩ := by decide
example : findallTop 20 fresh exList ['/', '/', '[', '0', ']', '/', 's']
    = ⟨.ok (some [(['/', '/', '[', '0', ']', '/', 's'], .list .n0 [.dict .n0 [(['n'], .int 2)]])]), [], []⟩ := by decide
-- `C19_fanout_all_root`: a name at the root visits the dict elements and, through the nested list, its elements
example : (findallTop 20 fresh (.list .n0 [.dict .n0 [(['n'], .int 1)], .list .n0 [.dict .n0 [(['n'], .int 2)]], .dict .n0 []]) ['n']).res
    = .ok (some [(['/', '/', '[', '0', ']', '/', 'n'], .int 1), (['/', '/', '[', '1', ']', '[', '0', ']', '/', 'n'], .int 2)]) := by decide
-- `C19_keys_spell_list` / `C19_resolves_all_list`: negative index and `last()` at the root, `[*]`, `'..'`, `text()`
def exListExpr : Str := ['[', '-', '2', ']', '/', '[', 'l', 'a', 's', 't', '(', ')', ']', '/', '[', '*', ']', '/', 'x', '/', '.', '.']
example : (findallTop 20 fresh exList exListExpr).res
    = .ok (some [(['/', '/', '[', '-', '2', ']', '[', '-', '1', ']', '[', '0', ']'],
        .dict .plain [(['x'], .dict .plain [(['n'], .str ['V'])])])]) := by decide
example : getItem 20 exList ['/', '/', '[', '-', '2', ']', '[', '-', '1', ']', '[', '0', ']']
    = (exList, .ok (.dict .plain [(['x'], .dict .plain [(['n'], .str ['V'])])])) := by decide
example : (findallTop 20 fresh exList ['[', '1', ']', '[', '1', ']', '/', 'x', '/', 'n', '[', 't', 'e', 'x', 't', '(', ')', '=', 'v', ']']).res
    = .ok (some [(['/', '/', '[', '1', ']', '[', '1', ']', '[', '0', ']', '/', 'x', '/', 'n'], .str ['V'])]) := by decide
-- the root itself under the key `'//'` (steps = []), also when its elements are scalars; `'..'` above the root
example : (findallTop 20 fresh exScalars ['/', '/']).res = .ok (some [(['/', '/'], exScalars)]) := by decide
example : getItem 20 exScalars ['/', '/'] = (exScalars, .ok exScalars) := by decide
example : KeysOkV exScalars := by simp [exScalars, KeysOkV, KeysOkL]
example : (findallTop 20 fresh exList ['[', '0', ']', '/', '.', '.']).res = .error .KeyError := by decide
-- history: list-rooted and dict-rooted searches interleaved, one raising; findfirst none / many on a list root
example : (runHist 20 fresh [(exList, ['n']), (exTree, ['.', '.']), (exScalars, ['n']), (exList, ['n'])]).1
    = [.ok (some [(['/', '/', '[', '0', ']', '/', 'n'], .int 1), (['/', '/', '[', '1', ']', '[', '0', ']', '/', 'n'], .int 5)]),
       .error .KeyError, .error .IndexError,
       .ok (some [(['/', '/', '[', '0', ']', '/', 'n'], .int 1), (['/', '/', '[', '1', ']', '[', '0', ']', '/', 'n'], .int 5)])] := by decide
example : (findfirstTop 20 fresh exList ['n'] true).1 = .error .IndexError := by decide
example : (findfirstTop 20 fresh exList ['n'] false).1 = .ok (some (['/', '/', '[', '0', ']', '/', 'n'], .int 1)) := by decide
example : (findfirstTop 20 fresh exList ['z'] true).1 = .error .IndexError := by decide
example : (findfirstTop 20 fresh exList ['z'] false).1 = .ok Option.none := by decide
example : (findfirstTop 20 fresh exList ['[', '2', ']'] true).1 = .ok (some (['/', '/', '[', '2', ']'], .dict .n0 [])) := by decide


/-! ## two-step tails with lists under `name` (`Proofs/FindAllTailLists.lean`) -/

/-- **`'//*/name/sub'`, lists under `name` included.**  On a dict root with `KeysOkV`, `ContOkV` (no
hypothesis about what the entries called `name` hold) the search returns, for every fuel above a
bound, **exactly** the pairs of the DFS reference `tailOfL sub (descV name root)`: below every node
called `name` (any depth, document order) the entry `sub` of the node itself when it is a dictionary,
of every element in order when it is a list (lists of lists recursively: `subV`), nothing below a
final element — under the canonical xpaths `…/name[i]/sub`, `…/name[i][j]/sub`. -/
theorem C19_descendant_tail_lists (cls : Cls) (kvs : List (Str × Val)) (name sub : Str)
    (hn : PlainKey name) (hs : PlainKey sub)
    (hk : KeysOkV (.dict cls kvs)) (hc : ContOkV (.dict cls kvs)) (re : Bool := true) :
    ∃ n, ∀ fuel ≥ n,
      (findallTop fuel fresh (.dict cls kvs) (['/', '/', '*', '/'] ++ name ++ ['/'] ++ sub) re).res =
        .ok (some ((tailOfL sub (descV name (.dict cls kvs))).map (fun pv => (slash ++ renderPos pv.1, pv.2)))) := by
  obtain ⟨n, hN⟩ := fatl_descendant re hn hs cls kvs hk hc
  refine ⟨n, fun fuel hf => ?_⟩
  show (fa re fuel _ (tokens _) [] []).res = _
  rw [fat_tokens hn hs]
  exact hN fuel hf

/-- the reference lists no position twice and only plain positions (so no key is reported twice) -/
theorem C19_descendant_tail_lists_distinct (t : Val) (name sub : Str) (hs : PlainKey sub) (hk : KeysOkV t) :
    (tailOfL sub (descV name t)).Pairwise (fun a b => a.1 ≠ b.1) ∧ ∀ pv ∈ tailOfL sub (descV name t), PlainPos pv.1 :=
  ⟨fatl_tail_distinct name sub _ ((fad_desc_distinct name).1 _ hk).1
      (fun b hb => (((fad_desc_mem name).1 _ hk b.1 b.2).1 hb).1),
    fatl_tail_plain hs _ (fad_desc_plain hk)⟩

/-- when no node called `name` is a list the reference is the one of `C19_descendant_tail` -/
theorem C19_descendant_tail_lists_agrees (sub : Str) (l : List (Pos × Val)) (h : ∀ b ∈ l, ∀ c xs, b.2 ≠ .list c xs) :
    tailOfL sub l = tailOf sub l := fatl_tailOfL_eq sub l h

/-- a tree with lists under `name`: a list of dictionaries (one without `sub`) and a nested list, a
dictionary, and a list directly in the root -/
def exTailL : Val :=
  .dict .n0 [(['x'], .dict .n0 [(['n', 'a', 'm', 'e'], .list .n0 [.dict .n0 [(['s', 'u', 'b'], .str ['a'])],
                .dict .n0 [(['o'], .int 1)], .list .n0 [.dict .n0 [(['s', 'u', 'b'], .str ['b'])]]])]),
             (['y'], .dict .n0 [(['n', 'a', 'm', 'e'], .dict .n0 [(['s', 'u', 'b'], .str ['c'])])]),
             (['n', 'a', 'm', 'e'], .list .n0 [.dict .n0 [(['s', 'u', 'b'], .str ['d'])]])]

-- non-vacuity of `C19_descendant_tail_lists`: the hypotheses hold for `exTailL`, the reference is not empty, and the
-- model's answer is what the real code returns (`{'//name[0]/sub': 'd', '//x/name[0]/sub': 'a', '//x/name[2][0]/sub': 'b',
-- '//y/name/sub': 'c'}`, both modes)
example : KeysOkV exTailL ∧ ContOkV exTailL := by
  have pk : ∀ k : Str, k ≠ [] → (∀ c ∈ k, plainChar c = true) → k ≠ ['.', '.'] → PlainKey k :=
    fun k h1 h2 h3 => ⟨h1, h2, h3⟩
  simp only [exTailL, KeysOkV, KeysOkK, KeysOkL, ContOkV, ContOkK, ContOkL, lookup, FindAll.isContainer]
  refine ⟨?_, by decide⟩
  repeat' apply And.intro
  all_goals first | exact pk _ (by decide) (by decide) (by decide) | trivial | decide
example : tailOfL ['s', 'u', 'b'] (descV ['n', 'a', 'm', 'e'] exTailL) =
    [([.key ['n', 'a', 'm', 'e'], .idx 0, .key ['s', 'u', 'b']], .str ['d']),
     ([.key ['x'], .key ['n', 'a', 'm', 'e'], .idx 0, .key ['s', 'u', 'b']], .str ['a']),
     ([.key ['x'], .key ['n', 'a', 'm', 'e'], .idx 2, .idx 0, .key ['s', 'u', 'b']], .str ['b']),
     ([.key ['y'], .key ['n', 'a', 'm', 'e'], .key ['s', 'u', 'b']], .str ['c'])] := by
  simp [exTailL, descV, descK, descL, lookup, tailOfL, tl1L, subV, subL]
example : ∀ re, (findallTop 20 fresh exTailL "//*/name/sub".toList re).res =
    .ok (some [("//name[0]/sub".toList, .str ['d']), ("//x/name[0]/sub".toList, .str ['a']),
      ("//x/name[2][0]/sub".toList, .str ['b']), ("//y/name/sub".toList, .str ['c'])]) := by
  decide +kernel


/-- **`'//*/name/sub'` on a list root (`n0list`), lists under `name` included**: exactly the pairs of the DFS
reference `tailOfL sub (descV name root)`, keys `"//" ++` rendered position (`//[0]/name[1][0]/sub`),
document order -/
theorem C19_descendant_tail_lists_list_root (cls : Cls) (xs : List Val) (name sub : Str)
    (hn : PlainKey name) (hs : PlainKey sub)
    (hk : KeysOkV (.list cls xs)) (hc : ContOkV (.list cls xs)) (re : Bool := true) :
    ∃ n, ∀ fuel ≥ n,
      (findallTop fuel fresh (.list cls xs) (['/', '/', '*', '/'] ++ name ++ ['/'] ++ sub) re).res =
        .ok (some ((tailOfL sub (descV name (.list cls xs))).map (fun pv => ('/' :: '/' :: renderPos pv.1, pv.2)))) := by
  obtain ⟨n, hN⟩ := fatl_descendant_list re hn hs cls xs hk hc
  refine ⟨n, fun fuel hf => ?_⟩
  show (fa re fuel _ (tokens _) [] []).res = _
  rw [fat_tokens hn hs]
  exact hN fuel hf

/-- a list root: a dictionary whose `name` is a list (dictionary, nested list, dictionary without `sub`),
and a nested list with a dictionary whose `name` is a dictionary -/
def exTailLR : Val :=
  .list .n0 [.dict .n0 [(['n', 'a', 'm', 'e'], .list .n0 [.dict .n0 [(['s', 'u', 'b'], .str ['a'])],
                .list .n0 [.dict .n0 [(['s', 'u', 'b'], .str ['b'])]], .dict .n0 [(['o'], .int 1)]])],
             .list .n0 [.dict .n0 [(['n', 'a', 'm', 'e'], .dict .n0 [(['s', 'u', 'b'], .str ['c'])])]]]

-- non-vacuity of `C19_descendant_tail_lists_list_root`; the real code returns
-- `{'//[0]/name[0]/sub': 'a', '//[0]/name[1][0]/sub': 'b', '//[1][0]/name/sub': 'c'}` (both modes)
example : KeysOkV exTailLR ∧ ContOkV exTailLR := by
  have pk : ∀ k : Str, k ≠ [] → (∀ c ∈ k, plainChar c = true) → k ≠ ['.', '.'] → PlainKey k :=
    fun k h1 h2 h3 => ⟨h1, h2, h3⟩
  simp only [exTailLR, KeysOkV, KeysOkK, KeysOkL, ContOkV, ContOkK, ContOkL, lookup, FindAll.isContainer]
  refine ⟨?_, by decide⟩
  repeat' apply And.intro
  all_goals first | exact pk _ (by decide) (by decide) (by decide) | trivial | decide
example : tailOfL ['s', 'u', 'b'] (descV ['n', 'a', 'm', 'e'] exTailLR) =
    [([.idx 0, .key ['n', 'a', 'm', 'e'], .idx 0, .key ['s', 'u', 'b']], .str ['a']),
     ([.idx 0, .key ['n', 'a', 'm', 'e'], .idx 1, .idx 0, .key ['s', 'u', 'b']], .str ['b']),
     ([.idx 1, .idx 0, .key ['n', 'a', 'm', 'e'], .key ['s', 'u', 'b']], .str ['c'])] := by
  simp [exTailLR, descV, descK, descL, lookup, tailOfL, tl1L, subV, subL]
example : ∀ re, (findallTop 20 fresh exTailLR "//*/name/sub".toList re).res =
    .ok (some [("//[0]/name[0]/sub".toList, .str ['a']), ("//[0]/name[1][0]/sub".toList, .str ['b']),
      ("//[1][0]/name/sub".toList, .str ['c'])]) := by
  decide +kernel


/-- **Both inclusions for the fan-out reference**: the pairs listed are exactly the nodes at the positions
`… name`, any number of list indexes, `sub` — every such node, at any depth, and nothing else -/
theorem C19_descendant_tail_lists_positions (t : Val) (name sub : Str) (hk : KeysOkV t) (p : Pos) (v : Val) :
    (p, v) ∈ tailOfL sub (descV name t) ↔
      ∃ (q : Pos) (is : List Nat), p = q ++ [.key name] ++ is.map Seg.idx ++ [.key sub] ∧ getAt t p = some v :=
  fatl_tail_mem_getAt name sub t hk p v

/-- the statement in the form "found iff it is the node at a position `…/name[i]…[j]/sub`" (dict root) -/
theorem C19_descendant_tail_lists_iff (cls : Cls) (kvs : List (Str × Val)) (name sub : Str)
    (hn : PlainKey name) (hs : PlainKey sub)
    (hk : KeysOkV (.dict cls kvs)) (hc : ContOkV (.dict cls kvs)) (re : Bool := true) :
    ∃ n, ∀ fuel ≥ n, ∃ f,
      (findallTop fuel fresh (.dict cls kvs) (['/', '/', '*', '/'] ++ name ++ ['/'] ++ sub) re).res = .ok (some f) ∧
      ∀ xp v, (xp, v) ∈ f ↔
        ∃ (q : Pos) (is : List Nat),
          getAt (.dict cls kvs) (q ++ [.key name] ++ is.map Seg.idx ++ [.key sub]) = some v ∧
          xp = slash ++ renderPos (q ++ [.key name] ++ is.map Seg.idx ++ [.key sub]) := by
  obtain ⟨n, hN⟩ := C19_descendant_tail_lists cls kvs name sub hn hs hk hc re
  refine ⟨n, fun fuel hf => ⟨_, hN fuel hf, fun xp v => ?_⟩⟩
  simp only [List.mem_map, Prod.mk.injEq]
  constructor
  · rintro ⟨⟨p, w⟩, hm, rfl, rfl⟩
    obtain ⟨q, is, rfl, hg⟩ := (C19_descendant_tail_lists_positions _ name sub hk p w).1 hm
    exact ⟨q, is, hg, rfl⟩
  · rintro ⟨q, is, hg, rfl⟩
    exact ⟨(_, v), (C19_descendant_tail_lists_positions _ name sub hk _ v).2 ⟨q, is, rfl, hg⟩, rfl, rfl⟩

/-- the same on a list root -/
theorem C19_descendant_tail_lists_iff_list_root (cls : Cls) (xs : List Val) (name sub : Str)
    (hn : PlainKey name) (hs : PlainKey sub)
    (hk : KeysOkV (.list cls xs)) (hc : ContOkV (.list cls xs)) (re : Bool := true) :
    ∃ n, ∀ fuel ≥ n, ∃ f,
      (findallTop fuel fresh (.list cls xs) (['/', '/', '*', '/'] ++ name ++ ['/'] ++ sub) re).res = .ok (some f) ∧
      ∀ xp v, (xp, v) ∈ f ↔
        ∃ (q : Pos) (is : List Nat),
          getAt (.list cls xs) (q ++ [.key name] ++ is.map Seg.idx ++ [.key sub]) = some v ∧
          xp = '/' :: '/' :: renderPos (q ++ [.key name] ++ is.map Seg.idx ++ [.key sub]) := by
  obtain ⟨n, hN⟩ := C19_descendant_tail_lists_list_root cls xs name sub hn hs hk hc re
  refine ⟨n, fun fuel hf => ⟨_, hN fuel hf, fun xp v => ?_⟩⟩
  simp only [List.mem_map, Prod.mk.injEq]
  constructor
  · rintro ⟨⟨p, w⟩, hm, rfl, rfl⟩
    obtain ⟨q, is, rfl, hg⟩ := (C19_descendant_tail_lists_positions _ name sub hk p w).1 hm
    exact ⟨q, is, hg, rfl⟩
  · rintro ⟨q, is, hg, rfl⟩
    exact ⟨(_, v), (C19_descendant_tail_lists_positions _ name sub hk _ v).2 ⟨q, is, rfl, hg⟩, rfl, rfl⟩

-- non-vacuity of the membership forms: the position `x/name[2][0]/sub` of `exTailL` holds `'b'`
example : getAt exTailL ([.key ['x']] ++ [.key ['n', 'a', 'm', 'e']] ++ [2, 0].map Seg.idx ++ [.key ['s', 'u', 'b']])
    = some (.str ['b']) := by decide
example : getAt exTailLR ([.idx 0] ++ [.key ['n', 'a', 'm', 'e']] ++ [1, 0].map Seg.idx ++ [.key ['s', 'u', 'b']])
    = some (.str ['b']) := by decide

/-! ## 9. the descendant search with a tail of any length, `'//*/name/s1/…/sk'`

`joinSl name subs` is `'/'.join([name] + subs)`; `tailN subs` iterates the one-step tail function of
`C19_descendant_tail` (`tailOf`) along `subs` — `tailN [sub] = tailOf sub`, `tailN [] = id` (`'//*/name'`).
Hypothesis `NnlsV (name :: subs).dropLast root`: no entry called like a NON-final step is a list (the
last step may hold anything). -/

/-- **`'//*/name/s1/…/sk'` on a dict root, any k**: for every tree (any size and depth), every plain
names, both modes: exactly the pairs of the reference `tailN subs (descV name root)` — below every
node called `name` (any depth, document order) the node reached by the keys `s1 … sk` through
dictionaries — keys `"//" ++` rendered position, no key twice (`C19_descendant_tail_n_distinct`).  A
walk that meets a missing key or a final element is a miss of that branch only. -/
theorem C19_descendant_tail_n (cls : Cls) (kvs : List (Str × Val)) (name : Str) (subs : List Str)
    (hn : PlainKey name) (hs : ∀ s ∈ subs, PlainKey s)
    (hk : KeysOkV (.dict cls kvs)) (hc : ContOkV (.dict cls kvs))
    (hl : NnlsV (name :: subs).dropLast (.dict cls kvs)) (re : Bool := true) :
    ∃ n, ∀ fuel ≥ n,
      (findallTop fuel fresh (.dict cls kvs) (['/', '/', '*', '/'] ++ joinSl name subs) re).res =
        .ok (some ((tailN subs (descV name (.dict cls kvs))).map (fun pv => (slash ++ renderPos pv.1, pv.2)))) := by
  obtain ⟨n, hN⟩ := fatn_descendant re hn hs cls kvs hk hc hl
  refine ⟨n, fun fuel hf => ?_⟩
  show (fa re fuel _ (tokens _) [] []).res = _
  rw [fatn_tokens hn hs]
  exact hN fuel hf

/-- the reference lists no position twice and only plain positions (so no key is reported twice) -/
theorem C19_descendant_tail_n_distinct (t : Val) (name : Str) (subs : List Str) (hs : ∀ s ∈ subs, PlainKey s)
    (hk : KeysOkV t) :
    (tailN subs (descV name t)).Pairwise (fun a b => a.1 ≠ b.1) ∧ ∀ pv ∈ tailN subs (descV name t), PlainPos pv.1 :=
  ⟨fatn_tail_distinct subs _ ((fad_desc_distinct name).1 _ hk).1, fatn_tail_plain subs hs _ (fad_desc_plain hk)⟩

/-- one step is the reference of `C19_descendant_tail`; below one node the reference is the walk along the keys -/
theorem C19_descendant_tail_n_ref (sub : Str) (subs : List Str) (l : List (Pos × Val)) (p : Pos) (v : Val) :
    tailN [sub] l = tailOf sub l ∧
    tailN subs [(p, v)] = (match walkN subs v with
      | some x => [(p ++ subs.map Seg.key, x)]
      | Option.none => []) :=
  ⟨rfl, tailN_single subs p v⟩

/-- **Both inclusions**: the pairs listed are exactly the nodes at the positions that end with the keys
`name, s1, …, sk` — every such node, at any depth, and nothing else -/
theorem C19_descendant_tail_n_positions (t : Val) (name : Str) (subs : List Str) (hk : KeysOkV t) (p : Pos) (v : Val) :
    (p, v) ∈ tailN subs (descV name t) ↔
      ∃ q, p = q ++ (name :: subs).map Seg.key ∧ getAt t p = some v :=
  fatn_tail_mem_getAt name subs t hk p v

/-- the statement in the form "found iff it is the node at a position `…/name/s1/…/sk`" -/
theorem C19_descendant_tail_n_iff (cls : Cls) (kvs : List (Str × Val)) (name : Str) (subs : List Str)
    (hn : PlainKey name) (hs : ∀ s ∈ subs, PlainKey s)
    (hk : KeysOkV (.dict cls kvs)) (hc : ContOkV (.dict cls kvs))
    (hl : NnlsV (name :: subs).dropLast (.dict cls kvs)) (re : Bool := true) :
    ∃ n, ∀ fuel ≥ n, ∃ f,
      (findallTop fuel fresh (.dict cls kvs) (['/', '/', '*', '/'] ++ joinSl name subs) re).res = .ok (some f) ∧
      ∀ xp v, (xp, v) ∈ f ↔
        ∃ q, getAt (.dict cls kvs) (q ++ (name :: subs).map Seg.key) = some v ∧
          xp = slash ++ renderPos (q ++ (name :: subs).map Seg.key) := by
  obtain ⟨n, hN⟩ := C19_descendant_tail_n cls kvs name subs hn hs hk hc hl re
  refine ⟨n, fun fuel hf => ⟨_, hN fuel hf, fun xp v => ?_⟩⟩
  simp only [List.mem_map, Prod.mk.injEq]
  constructor
  · rintro ⟨⟨p, w⟩, hm, rfl, rfl⟩
    obtain ⟨q, rfl, hg⟩ := (C19_descendant_tail_n_positions _ name subs hk p w).1 hm
    exact ⟨q, hg, rfl⟩
  · rintro ⟨q, hg, rfl⟩
    exact ⟨(q ++ (name :: subs).map Seg.key, v),
      (C19_descendant_tail_n_positions _ name subs hk _ v).2 ⟨q, rfl, hg⟩, rfl, rfl⟩

/-- a tree for tails of three and four steps: `a/b/c` at the root (a dictionary), below `x`, nested below
`a/b` itself, below a list element; branches that miss (`x/z/a/b` a final element, `l[1]/a` an integer,
`y/a` without `b`) -/
def exTailN : Val :=
  .dict .n0 [(['x'], .dict .n0 [(['a'], .dict .n0 [(['b'], .dict .n0 [(['c'], .str ['p']), (['o'], .int 1)])]),
                               (['z'], .dict .n0 [(['a'], .dict .n0 [(['b'], .str ['f'])])])]),
             (['a'], .dict .n0 [(['b'], .dict .n0 [(['c'], .dict .n0 [(['d'], .str ['q'])]),
                               (['a'], .dict .n0 [(['b'], .dict .n0 [(['c'], .str ['r'])])])])]),
             (['l'], .list .n0 [.dict .n0 [(['a'], .dict .n0 [(['b'], .dict .n0 [(['c'], .str ['s'])])])],
                               .dict .n0 [(['a'], .int 5)]]),
             (['y'], .dict .n0 [(['a'], .dict .n0 [(['k'], .int 1)])])]

-- non-vacuity of `C19_descendant_tail_n` (k = 3 and k = 4): the hypotheses hold for `exTailN`, the references are
-- not empty, and the model's answers are what the real code returns for `findall('//*/a/b/c')`
-- (`{'//a/b/c': {'d': 'q'}, '//x/a/b/c': 'p', '//a/b/a/b/c': 'r', '//l[0]/a/b/c': 's'}`) and
-- `findall('//*/a/b/c/d')` (`{'//a/b/c/d': 'q'}`), both modes
example : KeysOkV exTailN ∧ ContOkV exTailN ∧ NnlsV ([['a'], ['b'], ['c']] : List Str).dropLast exTailN ∧
    NnlsV ([['a'], ['b'], ['c'], ['d']] : List Str).dropLast exTailN := by
  have pk : ∀ k : Str, k ≠ [] → (∀ c ∈ k, plainChar c = true) → k ≠ ['.', '.'] → PlainKey k :=
    fun k h1 h2 h3 => ⟨h1, h2, h3⟩
  simp only [exTailN, KeysOkV, KeysOkK, KeysOkL, ContOkV, ContOkK, ContOkL, NnlsV, NnlsK, NnlsL, lookup,
    FindAll.isContainer, List.dropLast]
  refine ⟨?_, by decide, ?_, ?_⟩
  · repeat' apply And.intro
    all_goals first | exact pk _ (by decide) (by decide) (by decide) | trivial | decide
  · repeat' apply And.intro
    all_goals first | trivial | (intro n hn c xs h; revert h; simp at hn; rcases hn with rfl | rfl <;> simp)
  · repeat' apply And.intro
    all_goals first | trivial | (intro n hn c xs h; revert h; simp at hn; rcases hn with rfl | rfl | rfl <;> simp)
example : joinSl ['a'] [['b'], ['c']] = "a/b/c".toList ∧ joinSl ['a'] [['b'], ['c'], ['d']] = "a/b/c/d".toList := by
  decide
example : tailN [['b'], ['c']] (descV ['a'] exTailN) =
    [([.key ['a'], .key ['b'], .key ['c']], .dict .n0 [(['d'], .str ['q'])]),
     ([.key ['x'], .key ['a'], .key ['b'], .key ['c']], .str ['p']),
     ([.key ['a'], .key ['b'], .key ['a'], .key ['b'], .key ['c']], .str ['r']),
     ([.key ['l'], .idx 0, .key ['a'], .key ['b'], .key ['c']], .str ['s'])] := by
  simp [exTailN, descV, descK, descL, lookup, tailN, tailOf, tl1]
example : tailN [['b'], ['c'], ['d']] (descV ['a'] exTailN) =
    [([.key ['a'], .key ['b'], .key ['c'], .key ['d']], .str ['q'])] := by
  simp [exTailN, descV, descK, descL, lookup, tailN, tailOf, tl1]
example : ∀ re, (findallTop 30 fresh exTailN "//*/a/b/c".toList re).res =
    .ok (some [("//a/b/c".toList, .dict .n0 [(['d'], .str ['q'])]), ("//x/a/b/c".toList, .str ['p']),
      ("//a/b/a/b/c".toList, .str ['r']), ("//l[0]/a/b/c".toList, .str ['s'])]) := by
  decide +kernel
example : ∀ re, (findallTop 30 fresh exTailN "//*/a/b/c/d".toList re).res =
    .ok (some [("//a/b/c/d".toList, .str ['q'])]) := by
  decide +kernel


/-- **`'//*/name/s1/…/sk'` on a list root (`n0list`), any k**: exactly the pairs of the same reference
`tailN subs (descV name root)`, keys `"//" ++` rendered position (`//[0]/x/a/b/c`), document order -/
theorem C19_descendant_tail_n_list_root (cls : Cls) (xs : List Val) (name : Str) (subs : List Str)
    (hn : PlainKey name) (hs : ∀ s ∈ subs, PlainKey s)
    (hk : KeysOkV (.list cls xs)) (hc : ContOkV (.list cls xs))
    (hl : NnlsV (name :: subs).dropLast (.list cls xs)) (re : Bool := true) :
    ∃ n, ∀ fuel ≥ n,
      (findallTop fuel fresh (.list cls xs) (['/', '/', '*', '/'] ++ joinSl name subs) re).res =
        .ok (some ((tailN subs (descV name (.list cls xs))).map (fun pv => ('/' :: '/' :: renderPos pv.1, pv.2)))) := by
  obtain ⟨n, hN⟩ := fatn_descendant_list re hn hs cls xs hk hc hl
  refine ⟨n, fun fuel hf => ?_⟩
  show (fa re fuel _ (tokens _) [] []).res = _
  rw [fatn_tokens hn hs]
  exact hN fuel hf

/-- a list root for tails of three and four steps: matches in a dictionary element, below `x` (a dictionary),
in a nested list below `z`; `[1][0]/a/b` a final element and `[2]/a` an integer miss -/
def exTailNR : Val :=
  .list .n0 [.dict .n0 [(['a'], .dict .n0 [(['b'], .dict .n0 [(['c'], .str ['p'])])]),
                        (['x'], .dict .n0 [(['a'], .dict .n0 [(['b'], .dict .n0 [(['c'], .dict .n0 [(['d'], .str ['q'])])])])])],
             .list .n0 [.dict .n0 [(['a'], .dict .n0 [(['b'], .str ['f'])])],
                        .dict .n0 [(['z'], .dict .n0 [(['a'], .dict .n0 [(['b'], .dict .n0 [(['c'], .str ['r'])])])])]],
             .dict .n0 [(['a'], .int 5)]]

-- non-vacuity of `C19_descendant_tail_n_list_root` (k = 3, 4); the real code returns
-- `{'//[0]/a/b/c': 'p', '//[0]/x/a/b/c': {'d': 'q'}, '//[1][1]/z/a/b/c': 'r'}` and `{'//[0]/x/a/b/c/d': 'q'}` (both modes)
example : KeysOkV exTailNR ∧ ContOkV exTailNR ∧ NnlsV ([['a'], ['b'], ['c']] : List Str).dropLast exTailNR ∧
    NnlsV ([['a'], ['b'], ['c'], ['d']] : List Str).dropLast exTailNR := by
  have pk : ∀ k : Str, k ≠ [] → (∀ c ∈ k, plainChar c = true) → k ≠ ['.', '.'] → PlainKey k :=
    fun k h1 h2 h3 => ⟨h1, h2, h3⟩
  simp only [exTailNR, KeysOkV, KeysOkK, KeysOkL, ContOkV, ContOkK, ContOkL, NnlsV, NnlsK, NnlsL, lookup,
    FindAll.isContainer, List.dropLast]
  refine ⟨?_, by decide, ?_, ?_⟩
  · repeat' apply And.intro
    all_goals first | exact pk _ (by decide) (by decide) (by decide) | trivial | decide
  · repeat' apply And.intro
    all_goals first | trivial | (intro n hn c xs h; revert h; simp at hn; rcases hn with rfl | rfl <;> simp)
  · repeat' apply And.intro
    all_goals first | trivial | (intro n hn c xs h; revert h; simp at hn; rcases hn with rfl | rfl | rfl <;> simp)
example : tailN [['b'], ['c']] (descV ['a'] exTailNR) =
    [([.idx 0, .key ['a'], .key ['b'], .key ['c']], .str ['p']),
     ([.idx 0, .key ['x'], .key ['a'], .key ['b'], .key ['c']], .dict .n0 [(['d'], .str ['q'])]),
     ([.idx 1, .idx 1, .key ['z'], .key ['a'], .key ['b'], .key ['c']], .str ['r'])] := by
  simp [exTailNR, descV, descK, descL, lookup, tailN, tailOf, tl1]
example : ∀ re, (findallTop 30 fresh exTailNR "//*/a/b/c".toList re).res =
    .ok (some [("//[0]/a/b/c".toList, .str ['p']), ("//[0]/x/a/b/c".toList, .dict .n0 [(['d'], .str ['q'])]),
      ("//[1][1]/z/a/b/c".toList, .str ['r'])]) := by
  decide +kernel
example : ∀ re, (findallTop 30 fresh exTailNR "//*/a/b/c/d".toList re).res =
    .ok (some [("//[0]/x/a/b/c/d".toList, .str ['q'])]) := by
  decide +kernel

-- non-vacuity of the membership forms: the position `a/b/a/b/c` of `exTailN` holds `'r'`
example : getAt exTailN ([.key ['a'], .key ['b']] ++ ([['a'], ['b'], ['c']] : List Str).map Seg.key) = some (.str ['r']) := by
  decide

end N0.C19
