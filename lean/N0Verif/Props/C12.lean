import N0Verif.Proofs.XmlLists
/-!
# C12 — XML export is well-formed and loads back to the same tree

Only property statements live here; helper lemmas are in `Proofs/Xml.lean` (reader machine, one
element) and `Proofs/XmlLists.lean` (repeated elements, the induction over trees, `@` keys).

**Partial by nature.**  The XML parser (expat) and `xmltodict` are external code.  `xmlRead` is a
reader for exactly the fragment the writer emits, fused with `xmltodict`'s element handler; it is
the *meaning* given here to "well-formed" and "loads back" and is tied to the real parser only
differentially (harness streams `xml.load`, `xml.read`).  The writer `toXml` is the model of
`n0dict_.to_xml`/`__xml` (with the fixes C12-a, C12-c, C12-d, C12-b applied, in this order), its constants are regenerated
from the source on every run (`Gen/XmlConsts.lean`).
-/
namespace N0.C12
open N0 N0.Py N0.Xml

/-! ## the translated table -/

/-- **C12 (entities).**  Every entity the writer can emit is one of XML's five predefined
entities, and it stands for the very character it replaces.  Decided over the table regenerated
from the source (`html_entities` on the pinned tree fails this: 28 HTML names). -/
theorem C12_entities_are_xml :
    ∀ p ∈ Gen.XmlConsts.writerTable, ∃ q ∈ predefined, q.2.toNat = p.1 ∧ p.2 = '&' :: q.1 ++ [';'] := by
  decide

/-- the markup characters are in the table, and the CDATA markers are XML's -/
theorem C12_config_ok : cfgOk Cfg.gen = true := by decide

/-- the HTML name the pinned tree emitted for U+20AC is not an XML entity: the reader (like expat)
rejects the document (finding C12-a, fixed by `xml_entities`) -/
theorem C12_html_entity_undefined_cex :
    readStatus ['<', 'a', '>', '&', 'e', 'u', 'r', 'o', ';', '<', '/', 'a', '>'] = some .malformed := by decide

/-- a lower-case CDATA marker is not XML: passing such a value through unescaped (as the pinned
tree did) gives an ill-formed document (finding C12-c, fixed by the exact CDATA test) -/
theorem C12_lowercase_cdata_cex :
    readStatus ['<', 'a', '>', '<', '!', '[', 'c', 'd', 'a', 't', 'a', '[', 'x', ']', ']', '>', '<', '/', 'a', '>'] = some .malformed := by
  decide

/-! ## text is escaped -/

/-- **C12 (escaping).**  Any text over XML characters, escaped with the writer's table and placed
in an element, is read back as exactly that text (not merely up to white space). -/
theorem C12_text_escaped (k s : Str) (hk : isName k = true) (hs : isXmlText s = true) :
    xmlRead (openTag k [] ++ escape Cfg.gen.table s ++ closeTag k) = .ok (Elem.mk k s []) := by
  have htb : tableOk Cfg.gen.table = true := by decide
  have hre := ReadsElem.elem hk (ReadsIn.escape htb s hs)
  obtain ⟨c, cs, rfl, hc, _⟩ := isName_cons hk
  have hq : c ≠ '?' := by intro h; subst h; revert hc; decide
  exact xmlRead_of_elem _ _ c (cs ++ '>' :: (escape Cfg.gen.table s ++ closeTag (c :: cs)))
    (by simp [openTag, List.append_assoc]) hq hre

/-- the same for every table that satisfies the decidable side condition -/
theorem C12_text_escaped_any_table (tb : List (Nat × Str)) (htb : tableOk tb = true) (k s : Str)
    (hk : isName k = true) (hs : isXmlText s = true) :
    xmlRead (openTag k [] ++ escape tb s ++ closeTag k) = .ok (Elem.mk k s []) := by
  have hre := ReadsElem.elem hk (ReadsIn.escape htb s hs)
  obtain ⟨c, cs, rfl, hc, _⟩ := isName_cons hk
  have hq : c ≠ '?' := by intro h; subst h; revert hc; decide
  exact xmlRead_of_elem _ _ c (cs ++ '>' :: (escape tb s ++ closeTag (c :: cs)))
    (by simp [openTag, List.append_assoc]) hq hre

/-! ## the property, full strength: every XML-shaped tree, repeated elements included

`xmlShaped true t`: one root element that is not itself repeated; ASCII element names, unique per
record; values are text over XML characters, `None`, numbers, nested records and **repeated
elements** -- non-empty lists whose items are text, records, `None` or numbers (anything but a list). -/

/-- **C12 (well-formed).**  For every XML-shaped tree, every indent, either quote and every encoding
name, `to_xml` succeeds and the reader accepts the document. -/
theorem C12_wellformed (o : Opts) (t : Val) (ho : isGoodOpts o = true) (ht : xmlShaped true t = true) :
    ∃ s, toXml Cfg.gen o t = .ok s ∧ WellFormed s := by
  obtain ⟨s, e, h1, h2, _⟩ := toXml_reads Cfg.gen C12_config_ok o ho true t ht
  exact ⟨s, h1, e, h2⟩

/-- **C12 (round trip).**  Loading the export gives the tree up to XML's normalisations
(`normRoot`: numbers become text, `''`/`{}`/`None` coincide, surrounding white space is dropped, a
CDATA value stands for its content, a list of two or more items comes back as the plain list of the
normalised items and a list of one item as the item itself -- `C12_norm_one_item`,
`C12_norm_repeated`). -/
theorem C12_roundtrip (o : Opts) (t : Val) (ho : isGoodOpts o = true) (ht : xmlShaped true t = true) :
    ∃ s, toXml Cfg.gen o t = .ok s ∧ loadXml s = .ok (normRoot Cfg.gen t) := by
  obtain ⟨s, e, h1, h2, h3, h4, h5⟩ := toXml_reads Cfg.gen C12_config_ok o ho true t ht
  exact ⟨s, h1, by rw [loadXml_of_read h4 h5 h2, h3]⟩

/-- **C12 (options).**  indent, encoding and quote change the layout only: both documents load to
the same tree. -/
theorem C12_layout_only (o o' : Opts) (t : Val) (ho : isGoodOpts o = true) (ho' : isGoodOpts o' = true)
    (ht : xmlShaped true t = true) :
    ∃ s s', toXml Cfg.gen o t = .ok s ∧ toXml Cfg.gen o' t = .ok s' ∧ loadXml s = loadXml s' := by
  obtain ⟨s, h1, h2⟩ := C12_roundtrip o t ho ht
  obtain ⟨s', h1', h2'⟩ := C12_roundtrip o' t ho' ht
  exact ⟨s, s', h1, h1', by rw [h2, h2']⟩

/-- the three theorems hold for every configuration that passes the decidable side condition
(so a harmless change of the table, e.g. adding `'` -> `&apos;`, re-proves itself), with or without
repeated elements in the quantifier -/
theorem C12_roundtrip_any_config (cfg : Cfg) (hcfg : cfgOk cfg = true) (o : Opts) (lists : Bool) (t : Val)
    (ho : isGoodOpts o = true) (ht : xmlShaped lists t = true) :
    ∃ s, toXml cfg o t = .ok s ∧ WellFormed s ∧ loadXml s = .ok (normRoot cfg t) := by
  obtain ⟨s, e, h1, h2, h3, h4, h5⟩ := toXml_reads cfg hcfg o ho lists t ht
  exact ⟨s, h1, ⟨e, h2⟩, by rw [loadXml_of_read h4 h5 h2, h3]⟩

/-! ## the normal form of a repeated element (`xmltodict`'s convention, part of `normalise`) -/

/-- a list of one item loads back as the item itself: XML cannot tell `<a>x</a>` from a one-item
repetition -/
theorem C12_norm_one_item (cfg : Cfg) (c : Cls) (x : Val) : normalise cfg (.list c [x]) = normalise cfg x := by
  simp [normalise, normList]

/-- two or more items load back as the plain list of the normalised items -/
theorem C12_norm_repeated (cfg : Cfg) (c : Cls) (x y : Val) (xs : List Val) :
    normalise cfg (.list c (x :: y :: xs)) = .list .plain (normalise cfg x :: normalise cfg y :: normList cfg xs) := by
  simp [normalise, normList]

/-! ## the boundary: attributes (`@` keys) and `#text` are not exported -/

/-- **C12 (attributes).**  A record with an `@` key holding text or a number -- after any number of
XML-shaped entries, whatever follows -- cannot be exported: `to_xml` raises `NotImplementedError`
(the branch "Export of attibtures is not supported yet").  So `xmltodict`'s attribute convention
is outside the writer, and `xmlShaped` rightly allows names only. -/
theorem C12_attribute_not_implemented (o : Opts) (c c' : Cls) (r k : Str) (pre rest : List (Str × Val)) (v : Val)
    (hn : keysNodup pre = true) (hs : shapedKvs true pre = true) (hv : isScalarVal v = true) :
    toXml Cfg.gen o (.dict c [(r, .dict c' (pre ++ ('@' :: k, v) :: rest))]) = .error .NotImplementedError :=
  toXml_attr_not_implemented Cfg.gen C12_config_ok o true c c' r k pre rest v hn hs hv

def optsDefault : Opts := { indent := 4, encoding := some ['u', 't', 'f', '-', '8'], quote := ['"'] }

/-- `{'r': {'@id': None, 'a': 'x'}}` -/
def attrNone : Val :=
  .dict .n0 [(['r'], .dict .plain [(['@', 'i', 'd'], .none), (['a'], .str ['x'])])]

/-- its export: the attribute value is `str(None)` and the key is written once more as an element
`<@id/>`, which is not a name -/
def attrNoneXml : Str :=
  ['<', '?', 'x', 'm', 'l', ' ', 'v', 'e', 'r', 's', 'i', 'o', 'n', '=', '"', '1', '.', '0', '"', ' ', 'e', 'n', 'c', 'o', 'd', 'i', 'n', 'g', '=', '"', 'u', 't', 'f', '-', '8', '"', '?', '>', '\n', '<', 'r', ' ', 'i', 'd', '=', '"', 'N', 'o', 'n', 'e', '"', '>', '\n', ' ', ' ', ' ', ' ', '<', '@', 'i', 'd', '/', '>', '\n', ' ', ' ', ' ', ' ', '<', 'a', '>', 'x', '<', '/', 'a', '>', '\n', '<', '/', 'r', '>']

/-- an `@` key holding `None` does not raise; the document has the attribute `id="None"` *and* an
element `<@id/>` (no XML parser accepts it: checked on the implementation only, attributes are
outside the reader model) -/
theorem C12_attribute_none_text : toXml Cfg.gen optsDefault attrNone = .ok attrNoneXml := by decide +kernel

/-- `{'r': {'#text': 'x'}}` -/
def hashText : Val :=
  .dict .n0 [(['r'], .dict .plain [(['#', 't', 'e', 'x', 't'], .str ['x'])])]

def hashTextXml : Str :=
  ['<', '?', 'x', 'm', 'l', ' ', 'v', 'e', 'r', 's', 'i', 'o', 'n', '=', '"', '1', '.', '0', '"', ' ', 'e', 'n', 'c', 'o', 'd', 'i', 'n', 'g', '=', '"', 'u', 't', 'f', '-', '8', '"', '?', '>', '\n', '<', 'r', '>', '<', '#', 't', 'e', 'x', 't', '>', 'x', '<', '/', '#', 't', 'e', 'x', 't', '>', '<', '/', 'r', '>']

/-- `xmltodict`'s `#text` key is written as an element `<#text>`: the reader (like expat) rejects it -/
theorem C12_hash_text_cex :
    toXml Cfg.gen optsDefault hashText = .ok hashTextXml ∧ readStatus hashTextXml = some .malformed := by
  decide +kernel

/-! ## the former list export (findings C12-b, C12-d, fixed) -/

/-- `{'r': {'a': ['x', 'y']}}` -/
def listWitness : Val :=
  .dict .n0 [(['r'], .dict .plain [(['a'], .list .plain [.str ['x'], .str ['y']])])]

/-- `{'r': {'a': ['<']}}` -/
def listTextWitness : Val :=
  .dict .n0 [(['r'], .dict .plain [(['a'], .list .plain [.str ['<']])])]

/-- what the pinned tree wrote for `listWitness`: one wrapper element `<a>\nx\ny\n    </a>` -/
def listWrapperXml : Str :=
  ['<', '?', 'x', 'm', 'l', ' ', 'v', 'e', 'r', 's', 'i', 'o', 'n', '=', '"', '1', '.', '0', '"', ' ', 'e', 'n', 'c', 'o', 'd', 'i', 'n', 'g', '=', '"', 'u', 't', 'f', '-', '8', '"', '?', '>', '\n', '<', 'r', '>', '\n', ' ', ' ', ' ', ' ', '<', 'a', '>', '\n', 'x', '\n', 'y', '\n', ' ', ' ', ' ', ' ', '<', '/', 'a', '>', '\n', '<', '/', 'r', '>']

/-- what the pinned tree wrote for `listTextWitness`: a raw `<` inside `<a>` -/
def listTextRawXml : Str :=
  ['<', '?', 'x', 'm', 'l', ' ', 'v', 'e', 'r', 's', 'i', 'o', 'n', '=', '"', '1', '.', '0', '"', ' ', 'e', 'n', 'c', 'o', 'd', 'i', 'n', 'g', '=', '"', 'u', 't', 'f', '-', '8', '"', '?', '>', '\n', '<', 'r', '>', '\n', ' ', ' ', ' ', ' ', '<', 'a', '>', '\n', '<', '\n', ' ', ' ', ' ', ' ', '<', '/', 'a', '>', '\n', '<', '/', 'r', '>']

/-- `listWitness.to_xml()` now: one element per item -/
def listWitnessXml : Str :=
  ['<', '?', 'x', 'm', 'l', ' ', 'v', 'e', 'r', 's', 'i', 'o', 'n', '=', '"', '1', '.', '0', '"', ' ', 'e', 'n', 'c', 'o', 'd', 'i', 'n', 'g', '=', '"', 'u', 't', 'f', '-', '8', '"', '?', '>', '\n', '<', 'r', '>', '\n', ' ', ' ', ' ', ' ', '<', 'a', '>', 'x', '<', '/', 'a', '>', '\n', ' ', ' ', ' ', ' ', '<', 'a', '>', 'y', '<', '/', 'a', '>', '\n', '<', '/', 'r', '>']

/-- `listTextWitness.to_xml()` now -/
def listTextWitnessXml : Str :=
  ['<', '?', 'x', 'm', 'l', ' ', 'v', 'e', 'r', 's', 'i', 'o', 'n', '=', '"', '1', '.', '0', '"', ' ', 'e', 'n', 'c', 'o', 'd', 'i', 'n', 'g', '=', '"', 'u', 't', 'f', '-', '8', '"', '?', '>', '\n', '<', 'r', '>', '<', 'a', '>', '&', 'l', 't', ';', '<', '/', 'a', '>', '<', '/', 'r', '>']

theorem listWitness_xml : toXml Cfg.gen optsDefault listWitness = .ok listWitnessXml := by decide +kernel

theorem listTextWitness_xml : toXml Cfg.gen optsDefault listTextWitness = .ok listTextWitnessXml := by decide +kernel

/-- **C12-b (fixed).**  The wrapper form loads back merged, `{'r': {'a': 'x\ny'}}`, which is not the
normal form of the tree; the export of the repaired writer loads back as the list. -/
theorem C12_list_wrapper_merged_cex :
    loadXml listWrapperXml = .ok (.dict .n0 [(['r'], .dict .n0 [(['a'], .str ['x', '\n', 'y'])])]) ∧
    loadXml listWrapperXml ≠ .ok (normRoot Cfg.gen listWitness) ∧
    loadXml listWitnessXml = .ok (.dict .n0 [(['r'], .dict .n0 [(['a'], .list .plain [.str ['x'], .str ['y']])])]) := by
  decide +kernel

/-- **C12-d (fixed).**  The reader (like expat) rejects the document with the raw `<`; the export
of the repaired writer is accepted and loads back as the text (a one-item list: the item). -/
theorem C12_list_text_unescaped_cex :
    readStatus listTextRawXml = some .malformed ∧
    loadXml listTextWitnessXml = .ok (.dict .n0 [(['r'], .dict .n0 [(['a'], .str ['<'])])]) := by
  decide +kernel

/-! ## non-vacuity -/

/-- `{'r': {'a': '<& ', 'Parm': {'ParmCode': 'x', 'Value': True}, 'c': '<![CDATA[ x<y ]]>', 'n': None,
'f': 1.5, 'd': {'e': 'a\nb', 'z': {}}}}` -/
def exTree : Val :=
  .dict .n0 [(['r'], .dict .plain [
    (['a'], .str ['<', '&', ' ']),
    (['P', 'a', 'r', 'm'], .dict .plain [(['P', 'a', 'r', 'm', 'C', 'o', 'd', 'e'], .str ['x']), (['V', 'a', 'l', 'u', 'e'], .bool true)]),
    (['c'], .str ['<', '!', '[', 'C', 'D', 'A', 'T', 'A', '[', ' ', 'x', '<', 'y', ' ', ']', ']', '>']),
    (['n'], .none),
    (['f'], .flt ['1', '.', '5']),
    (['d'], .dict .plain [(['e'], .str ['a', '\n', 'b']), (['z'], .dict .plain [])])])]

example : xmlShaped false exTree = true := by decide
example : isGoodOpts optsDefault = true ∧ isGoodOpts { indent := 0, encoding := none, quote := ['\''] } = true := by decide
def optsBare : Opts := { indent := 0, encoding := none, quote := ['\''] }

/-- `exTree.to_xml()` -/
def exTreeXml : Str :=
  ['<', '?', 'x', 'm', 'l', ' ', 'v', 'e', 'r', 's', 'i', 'o', 'n', '=', '"', '1', '.', '0', '"', ' ', 'e', 'n', 'c', 'o', 'd', 'i', 'n', 'g', '=', '"', 'u', 't', 'f', '-', '8', '"', '?', '>', '\n', '<', 'r', '>', '\n', ' ', ' ', ' ', ' ', '<', 'a', '>', '&', 'l', 't', ';', '&', 'a', 'm', 'p', ';', ' ', '<', '/', 'a', '>', ' ', ' ', ' ', ' ', '<', 'P', 'a', 'r', 'm', '>', '<', 'P', 'a', 'r', 'm', 'C', 'o', 'd', 'e', '>', 'x', '<', '/', 'P', 'a', 'r', 'm', 'C', 'o', 'd', 'e', '>', '<', 'V', 'a', 'l', 'u', 'e', '>', 'T', 'r', 'u', 'e', '<', '/', 'V', 'a', 'l', 'u', 'e', '>', '<', '/', 'P', 'a', 'r', 'm', '>', '\n', ' ', ' ', ' ', ' ', '<', 'c', '>', '\n', ' ', ' ', ' ', ' ', ' ', ' ', ' ', ' ', '<', '!', '[', 'C', 'D', 'A', 'T', 'A', '[', ' ', 'x', '<', 'y', ' ', ']', ']', '>', '\n', ' ', ' ', ' ', ' ', '<', '/', 'c', '>', '\n', ' ', ' ', ' ', ' ', '<', 'n', '/', '>', '\n', ' ', ' ', ' ', ' ', '<', 'f', '>', '1', '.', '5', '<', '/', 'f', '>', '\n', ' ', ' ', ' ', ' ', '<', 'd', '>', '\n', ' ', ' ', ' ', ' ', ' ', ' ', ' ', ' ', '<', 'e', '>', 'a', '\n', 'b', '<', '/', 'e', '>', '\n', ' ', ' ', ' ', ' ', ' ', ' ', ' ', ' ', '<', 'z', '/', '>', '\n', ' ', ' ', ' ', ' ', '<', '/', 'd', '>', '\n', '<', '/', 'r', '>']

/-- `exTree.to_xml(indent=0, encoding=None, quote="'")` -/
def exTreeXml0 : Str :=
  ['<', 'r', '>', '\n', '<', 'a', '>', '&', 'l', 't', ';', '&', 'a', 'm', 'p', ';', ' ', '<', '/', 'a', '>', '<', 'P', 'a', 'r', 'm', '>', '<', 'P', 'a', 'r', 'm', 'C', 'o', 'd', 'e', '>', 'x', '<', '/', 'P', 'a', 'r', 'm', 'C', 'o', 'd', 'e', '>', '<', 'V', 'a', 'l', 'u', 'e', '>', 'T', 'r', 'u', 'e', '<', '/', 'V', 'a', 'l', 'u', 'e', '>', '<', '/', 'P', 'a', 'r', 'm', '>', '\n', '<', 'c', '>', '\n', '<', '!', '[', 'C', 'D', 'A', 'T', 'A', '[', ' ', 'x', '<', 'y', ' ', ']', ']', '>', '\n', '<', '/', 'c', '>', '\n', '<', 'n', '/', '>', '\n', '<', 'f', '>', '1', '.', '5', '<', '/', 'f', '>', '\n', '<', 'd', '>', '\n', '<', 'e', '>', 'a', '\n', 'b', '<', '/', 'e', '>', '\n', '<', 'z', '/', '>', '\n', '<', '/', 'd', '>', '\n', '<', '/', 'r', '>']

example : toXml Cfg.gen optsDefault exTree = .ok exTreeXml := by decide +kernel
example : toXml Cfg.gen optsBare exTree = .ok exTreeXml0 := by decide +kernel
example : loadXml exTreeXml = .ok (normRoot Cfg.gen exTree) := by decide +kernel
example : loadXml exTreeXml0 = .ok (normRoot Cfg.gen exTree) := by decide +kernel
example : readStatus exTreeXml = none := by decide +kernel
/-- the normal form is not the identity on the example: text stripped, CDATA unwrapped, numbers text -/
example : normRoot Cfg.gen exTree =
    .dict .n0 [(['r'], .dict .n0 [
      (['a'], .str ['<', '&']),
      (['P', 'a', 'r', 'm'], .dict .n0 [(['P', 'a', 'r', 'm', 'C', 'o', 'd', 'e'], .str ['x']), (['V', 'a', 'l', 'u', 'e'], .str ['T', 'r', 'u', 'e'])]),
      (['c'], .str ['x', '<', 'y']),
      (['n'], .none),
      (['f'], .str ['1', '.', '5']),
      (['d'], .dict .n0 [(['e'], .str ['a', '\n', 'b']), (['z'], .none)])])] := by decide
example : isName ['P', 'a', 'r', 'm'] = true ∧ isXmlText ['<', '&', '"', '\'', '>', ']', ']', '>', Char.ofNat 0x20AC] = true := by decide
/-- lists are inside the quantifier; `xmlShaped false` is the list-free part of it -/
example : xmlShaped true listWitness = true ∧ xmlShaped false listWitness = false ∧ xmlShaped true exTree = true := by decide

/-- `{'r': {'a': ['<&', 'y'], 'one': ['x'], 'Parm': [{'ParmCode': 'x', 'Value': True}, {'ParmCode': 'p', 'Value': None}],
'rec': [{'k': '1', 'l': ['u', ' v ']}, {}], 'mix': [None, 7, '<![CDATA[ x<y ]]>'], 'n': 'end'}}`:
repeated text (escaped), a one-item list, repeated records under a layout key, records holding a
repeated element, an empty record as item, mixed items -/
def exListTree : Val :=
  .dict .n0 [(['r'], .dict .plain [(['a'], .list .plain [.str ['<', '&'], .str ['y']]), (['o', 'n', 'e'], .list .plain [.str ['x']]), (['P', 'a', 'r', 'm'], .list .plain [.dict .plain [(['P', 'a', 'r', 'm', 'C', 'o', 'd', 'e'], .str ['x']), (['V', 'a', 'l', 'u', 'e'], .bool true)], .dict .plain [(['P', 'a', 'r', 'm', 'C', 'o', 'd', 'e'], .str ['p']), (['V', 'a', 'l', 'u', 'e'], .none)]]), (['r', 'e', 'c'], .list .plain [.dict .plain [(['k'], .str ['1']), (['l'], .list .plain [.str ['u'], .str [' ', 'v', ' ']])], .dict .plain []]), (['m', 'i', 'x'], .list .plain [.none, .int 7, .str ['<', '!', '[', 'C', 'D', 'A', 'T', 'A', '[', ' ', 'x', '<', 'y', ' ', ']', ']', '>']]), (['n'], .str ['e', 'n', 'd'])])]

/-- `exListTree.to_xml()` -/
def exListTreeXml : Str :=
  ['<', '?', 'x', 'm', 'l', ' ', 'v', 'e', 'r', 's', 'i', 'o', 'n', '=', '"', '1', '.', '0', '"', ' ', 'e', 'n', 'c', 'o', 'd', 'i', 'n', 'g', '=', '"', 'u', 't', 'f', '-', '8', '"', '?', '>', '\n', '<', 'r', '>', '\n', ' ', ' ', ' ', ' ', '<', 'a', '>', '&', 'l', 't', ';', '&', 'a', 'm', 'p', ';', '<', '/', 'a', '>', '\n', ' ', ' ', ' ', ' ', '<', 'a', '>', 'y', '<', '/', 'a', '>', '\n', ' ', ' ', ' ', ' ', '<', 'o', 'n', 'e', '>', 'x', '<', '/', 'o', 'n', 'e', '>', ' ', ' ', ' ', ' ', '<', 'P', 'a', 'r', 'm', '>', '<', 'P', 'a', 'r', 'm', 'C', 'o', 'd', 'e', '>', 'x', '<', '/', 'P', 'a', 'r', 'm', 'C', 'o', 'd', 'e', '>', '<', 'V', 'a', 'l', 'u', 'e', '>', 'T', 'r', 'u', 'e', '<', '/', 'V', 'a', 'l', 'u', 'e', '>', '<', '/', 'P', 'a', 'r', 'm', '>', ' ', ' ', ' ', ' ', '<', 'P', 'a', 'r', 'm', '>', '<', 'P', 'a', 'r', 'm', 'C', 'o', 'd', 'e', '>', 'p', '<', '/', 'P', 'a', 'r', 'm', 'C', 'o', 'd', 'e', '>', '<', 'V', 'a', 'l', 'u', 'e', '/', '>', '<', '/', 'P', 'a', 'r', 'm', '>', '\n', ' ', ' ', ' ', ' ', '<', 'r', 'e', 'c', '>', '\n', ' ', ' ', ' ', ' ', ' ', ' ', ' ', ' ', '<', 'k', '>', '1', '<', '/', 'k', '>', '\n', ' ', ' ', ' ', ' ', ' ', ' ', ' ', ' ', '<', 'l', '>', 'u', '<', '/', 'l', '>', '\n', ' ', ' ', ' ', ' ', ' ', ' ', ' ', ' ', '<', 'l', '>', ' ', 'v', ' ', '<', '/', 'l', '>', '\n', ' ', ' ', ' ', ' ', '<', '/', 'r', 'e', 'c', '>', '\n', ' ', ' ', ' ', ' ', '<', 'r', 'e', 'c', '/', '>', '\n', ' ', ' ', ' ', ' ', '<', 'm', 'i', 'x', '/', '>', '\n', ' ', ' ', ' ', ' ', '<', 'm', 'i', 'x', '>', '7', '<', '/', 'm', 'i', 'x', '>', '\n', ' ', ' ', ' ', ' ', '<', 'm', 'i', 'x', '>', '\n', ' ', ' ', ' ', ' ', ' ', ' ', ' ', ' ', '<', '!', '[', 'C', 'D', 'A', 'T', 'A', '[', ' ', 'x', '<', 'y', ' ', ']', ']', '>', '\n', ' ', ' ', ' ', ' ', '<', '/', 'm', 'i', 'x', '>', '\n', ' ', ' ', ' ', ' ', '<', 'n', '>', 'e', 'n', 'd', '<', '/', 'n', '>', '\n', '<', '/', 'r', '>']

/-- `exListTree.to_xml(indent=0, encoding=None, quote="'")` -/
def exListTreeXml0 : Str :=
  ['<', 'r', '>', '\n', '<', 'a', '>', '&', 'l', 't', ';', '&', 'a', 'm', 'p', ';', '<', '/', 'a', '>', '\n', '<', 'a', '>', 'y', '<', '/', 'a', '>', '\n', '<', 'o', 'n', 'e', '>', 'x', '<', '/', 'o', 'n', 'e', '>', '<', 'P', 'a', 'r', 'm', '>', '<', 'P', 'a', 'r', 'm', 'C', 'o', 'd', 'e', '>', 'x', '<', '/', 'P', 'a', 'r', 'm', 'C', 'o', 'd', 'e', '>', '<', 'V', 'a', 'l', 'u', 'e', '>', 'T', 'r', 'u', 'e', '<', '/', 'V', 'a', 'l', 'u', 'e', '>', '<', '/', 'P', 'a', 'r', 'm', '>', '<', 'P', 'a', 'r', 'm', '>', '<', 'P', 'a', 'r', 'm', 'C', 'o', 'd', 'e', '>', 'p', '<', '/', 'P', 'a', 'r', 'm', 'C', 'o', 'd', 'e', '>', '<', 'V', 'a', 'l', 'u', 'e', '/', '>', '<', '/', 'P', 'a', 'r', 'm', '>', '\n', '<', 'r', 'e', 'c', '>', '\n', '<', 'k', '>', '1', '<', '/', 'k', '>', '\n', '<', 'l', '>', 'u', '<', '/', 'l', '>', '\n', '<', 'l', '>', ' ', 'v', ' ', '<', '/', 'l', '>', '\n', '<', '/', 'r', 'e', 'c', '>', '\n', '<', 'r', 'e', 'c', '/', '>', '\n', '<', 'm', 'i', 'x', '/', '>', '\n', '<', 'm', 'i', 'x', '>', '7', '<', '/', 'm', 'i', 'x', '>', '\n', '<', 'm', 'i', 'x', '>', '\n', '<', '!', '[', 'C', 'D', 'A', 'T', 'A', '[', ' ', 'x', '<', 'y', ' ', ']', ']', '>', '\n', '<', '/', 'm', 'i', 'x', '>', '\n', '<', 'n', '>', 'e', 'n', 'd', '<', '/', 'n', '>', '\n', '<', '/', 'r', '>']

/-- what both load back as -/
def exListTreeNorm : Val :=
  .dict .n0 [(['r'], .dict .n0 [(['a'], .list .plain [.str ['<', '&'], .str ['y']]), (['o', 'n', 'e'], .str ['x']), (['P', 'a', 'r', 'm'], .list .plain [.dict .n0 [(['P', 'a', 'r', 'm', 'C', 'o', 'd', 'e'], .str ['x']), (['V', 'a', 'l', 'u', 'e'], .str ['T', 'r', 'u', 'e'])], .dict .n0 [(['P', 'a', 'r', 'm', 'C', 'o', 'd', 'e'], .str ['p']), (['V', 'a', 'l', 'u', 'e'], .none)]]), (['r', 'e', 'c'], .list .plain [.dict .n0 [(['k'], .str ['1']), (['l'], .list .plain [.str ['u'], .str ['v']])], .none]), (['m', 'i', 'x'], .list .plain [.none, .str ['7'], .str ['x', '<', 'y']]), (['n'], .str ['e', 'n', 'd'])])]

example : xmlShaped true exListTree = true := by decide
example : toXml Cfg.gen optsDefault exListTree = .ok exListTreeXml := by decide +kernel
example : toXml Cfg.gen optsBare exListTree = .ok exListTreeXml0 := by decide +kernel
example : normRoot Cfg.gen exListTree = exListTreeNorm := by decide +kernel
example : loadXml exListTreeXml = .ok exListTreeNorm := by decide +kernel
example : loadXml exListTreeXml0 = .ok exListTreeNorm := by decide +kernel
example : readStatus exListTreeXml = none := by decide +kernel
/-- the hypotheses of `C12_attribute_not_implemented`: `{'r': {'a': ['x', 'y'], '@id': '7', 'b': None}}` -/
example : keysNodup [(['a'], Val.list .plain [.str ['x'], .str ['y']])] = true ∧
    shapedKvs true [(['a'], Val.list .plain [.str ['x'], .str ['y']])] = true ∧ isScalarVal (.str ['7']) = true := by decide
example : toXml Cfg.gen optsDefault
    (.dict .n0 [(['r'], .dict .plain ([(['a'], Val.list .plain [.str ['x'], .str ['y']])] ++ ('@' :: ['i', 'd'], .str ['7']) :: [(['b'], .none)]))])
    = .error .NotImplementedError := by decide +kernel

end N0.C12
