import N0Verif.Proofs.Xml
/-!
# C12 — XML export is well-formed and loads back to the same tree

Only property statements live here; helper lemmas are in `Proofs/Xml.lean`.

**Partial by nature.**  The XML parser (expat) and `xmltodict` are external code.  `xmlRead` is a
reader for exactly the fragment the writer emits, fused with `xmltodict`'s element handler; it is
the *meaning* given here to "well-formed" and "loads back" and is tied to the real parser only
differentially (harness streams `xml.load`, `xml.read`).  The writer `toXml` is the model of
`n0dict_.to_xml`/`__xml` (with the fixes C12-a, C12-c applied), its constants are regenerated
from the source on every run (`Gen/XmlConsts.lean`).
-/
namespace N0.C12
open N0 N0.Py N0.Xml

/-! ## the translated table -/

/-- **C12 (entities).**  Every entity the writer can emit is one of XML's five predefined
entities, and it stands for the very character it replaces.  Decided over the table regenerated
from the source (`html_entities` on the pinned tree fails this: 28 HTML names). -/
theorem C12_entities_are_xml :
    ∀ p ∈ Gen.XmlConsts.writerTable, ∃ q ∈ predefined, q.2.toNat = p.1 ∧ p.2 = '&' :: q.1 ++ [';'] := by
  decide

/-- the markup characters are in the table, and the CDATA markers are XML's -/
theorem C12_config_ok : cfgOk Cfg.gen = true := by decide

/-- the HTML name the pinned tree emitted for U+20AC is not an XML entity: the reader (like expat)
rejects the document (finding C12-a, fixed by `xml_entities`) -/
theorem C12_html_entity_undefined_cex :
    readStatus ['<', 'a', '>', '&', 'e', 'u', 'r', 'o', ';', '<', '/', 'a', '>'] = some .malformed := by decide

/-- a lower-case CDATA marker is not XML: passing such a value through unescaped (as the pinned
tree did) gives an ill-formed document (finding C12-c, fixed by the exact CDATA test) -/
theorem C12_lowercase_cdata_cex :
    readStatus ['<', 'a', '>', '<', '!', '[', 'c', 'd', 'a', 't', 'a', '[', 'x', ']', ']', '>', '<', '/', 'a', '>'] = some .malformed := by
  decide

/-! ## text is escaped -/

/-- **C12 (escaping).**  Any text over XML characters, escaped with the writer's table and placed
in an element, is read back as exactly that text (not merely up to white space). -/
theorem C12_text_escaped (k s : Str) (hk : isName k = true) (hs : isXmlText s = true) :
    xmlRead (openTag k [] ++ escape Cfg.gen.table s ++ closeTag k) = .ok (Elem.mk k s []) := by
  have htb : tableOk Cfg.gen.table = true := by decide
  have hre := ReadsElem.elem hk (ReadsIn.escape htb s hs)
  obtain ⟨c, cs, rfl, hc, _⟩ := isName_cons hk
  have hq : c ≠ '?' := by intro h; subst h; revert hc; decide
  exact xmlRead_of_elem _ _ c (cs ++ '>' :: (escape Cfg.gen.table s ++ closeTag (c :: cs)))
    (by simp [openTag, List.append_assoc]) hq hre

/-- the same for every table that satisfies the decidable side condition -/
theorem C12_text_escaped_any_table (tb : List (Nat × Str)) (htb : tableOk tb = true) (k s : Str)
    (hk : isName k = true) (hs : isXmlText s = true) :
    xmlRead (openTag k [] ++ escape tb s ++ closeTag k) = .ok (Elem.mk k s []) := by
  have hre := ReadsElem.elem hk (ReadsIn.escape htb s hs)
  obtain ⟨c, cs, rfl, hc, _⟩ := isName_cons hk
  have hq : c ≠ '?' := by intro h; subst h; revert hc; decide
  exact xmlRead_of_elem _ _ c (cs ++ '>' :: (escape tb s ++ closeTag (c :: cs)))
    (by simp [openTag, List.append_assoc]) hq hre

/-! ## full statements (repeated elements included) -/

/-- full strength: every XML-shaped tree, lists of text and of records included -/
def C12_wellformed_stmt : Prop :=
  ∀ (o : Opts) (t : Val), isGoodOpts o = true → xmlShaped true t = true →
    ∃ s, toXml Cfg.gen o t = .ok s ∧ WellFormed s

def C12_roundtrip_stmt : Prop :=
  ∀ (o : Opts) (t : Val), isGoodOpts o = true → xmlShaped true t = true →
    ∃ s, toXml Cfg.gen o t = .ok s ∧ loadXml s = .ok (normRoot Cfg.gen t)

def C12_layout_only_stmt : Prop :=
  ∀ (o o' : Opts) (t : Val), isGoodOpts o = true → isGoodOpts o' = true → xmlShaped true t = true →
    ∃ s s', toXml Cfg.gen o t = .ok s ∧ toXml Cfg.gen o' t = .ok s' ∧ loadXml s = loadXml s'

/-! ## what is proved: trees without lists -/

/-- **C12 (well-formed), list-free part.**  For every XML-shaped tree without lists (one root
element, ASCII names, text over XML characters, numbers, `None`, nested dicts — the layout keys
`Parm`/`ParmCode`/`Value` and CDATA values included), every indent, either quote and every
encoding name, `to_xml` succeeds and the reader accepts the document. -/
theorem C12_wellformed_partial (o : Opts) (t : Val) (ho : isGoodOpts o = true) (ht : xmlShaped false t = true) :
    ∃ s, toXml Cfg.gen o t = .ok s ∧ WellFormed s := by
  obtain ⟨s, e, h1, h2, _⟩ := toXml_reads Cfg.gen C12_config_ok o ho t ht
  exact ⟨s, h1, e, h2⟩

/-- **C12 (round trip), list-free part.**  Loading the export gives the tree up to XML's
normalisations (`normRoot`: numbers become text, `''`/`{}`/`None` coincide, surrounding white space
is dropped, a CDATA value stands for its content). -/
theorem C12_roundtrip_partial (o : Opts) (t : Val) (ho : isGoodOpts o = true) (ht : xmlShaped false t = true) :
    ∃ s, toXml Cfg.gen o t = .ok s ∧ loadXml s = .ok (normRoot Cfg.gen t) := by
  obtain ⟨s, e, h1, h2, h3, h4, h5⟩ := toXml_reads Cfg.gen C12_config_ok o ho t ht
  exact ⟨s, h1, by rw [loadXml_of_read h4 h5 h2, h3]⟩

/-- **C12 (options), list-free part.**  indent, encoding and quote change the layout only: both
documents load to the same tree. -/
theorem C12_layout_only_partial (o o' : Opts) (t : Val) (ho : isGoodOpts o = true) (ho' : isGoodOpts o' = true)
    (ht : xmlShaped false t = true) :
    ∃ s s', toXml Cfg.gen o t = .ok s ∧ toXml Cfg.gen o' t = .ok s' ∧ loadXml s = loadXml s' := by
  obtain ⟨s, h1, h2⟩ := C12_roundtrip_partial o t ho ht
  obtain ⟨s', h1', h2'⟩ := C12_roundtrip_partial o' t ho' ht
  exact ⟨s, s', h1, h1', by rw [h2, h2']⟩

/-- the three theorems hold for every configuration that passes the decidable side condition
(so a harmless change of the table, e.g. adding `'` -> `&apos;`, re-proves itself) -/
theorem C12_roundtrip_any_config (cfg : Cfg) (hcfg : cfgOk cfg = true) (o : Opts) (t : Val)
    (ho : isGoodOpts o = true) (ht : xmlShaped false t = true) :
    ∃ s, toXml cfg o t = .ok s ∧ WellFormed s ∧ loadXml s = .ok (normRoot cfg t) := by
  obtain ⟨s, e, h1, h2, h3, h4, h5⟩ := toXml_reads cfg hcfg o ho t ht
  exact ⟨s, h1, ⟨e, h2⟩, by rw [loadXml_of_read h4 h5 h2, h3]⟩

/-! ## counter-examples: repeated elements (findings C12-b, C12-d) -/

def optsDefault : Opts := { indent := 4, encoding := some ['u', 't', 'f', '-', '8'], quote := ['"'] }

/-- `{'r': {'a': ['x', 'y']}}` -/
def listWitness : Val :=
  .dict .n0 [(['r'], .dict .plain [(['a'], .list .plain [.str ['x'], .str ['y']])])]

/-- `{'r': {'a': ['<']}}` -/
def listTextWitness : Val :=
  .dict .n0 [(['r'], .dict .plain [(['a'], .list .plain [.str ['<']])])]

/-- `to_xml()` of `listWitness` -/
def listWitnessXml : Str :=
  ['<', '?', 'x', 'm', 'l', ' ', 'v', 'e', 'r', 's', 'i', 'o', 'n', '=', '"', '1', '.', '0', '"', ' ', 'e', 'n', 'c', 'o', 'd', 'i', 'n', 'g', '=', '"', 'u', 't', 'f', '-', '8', '"', '?', '>', '\n', '<', 'r', '>', '\n', ' ', ' ', ' ', ' ', '<', 'a', '>', '\n', 'x', '\n', 'y', '\n', ' ', ' ', ' ', ' ', '<', '/', 'a', '>', '\n', '<', '/', 'r', '>']

/-- `to_xml()` of `listTextWitness` -/
def listTextWitnessXml : Str :=
  ['<', '?', 'x', 'm', 'l', ' ', 'v', 'e', 'r', 's', 'i', 'o', 'n', '=', '"', '1', '.', '0', '"', ' ', 'e', 'n', 'c', 'o', 'd', 'i', 'n', 'g', '=', '"', 'u', 't', 'f', '-', '8', '"', '?', '>', '\n', '<', 'r', '>', '\n', ' ', ' ', ' ', ' ', '<', 'a', '>', '\n', '<', '\n', ' ', ' ', ' ', ' ', '<', '/', 'a', '>', '\n', '<', '/', 'r', '>']

theorem listWitness_xml : toXml Cfg.gen optsDefault listWitness = .ok listWitnessXml := by decide

theorem listTextWitness_xml : toXml Cfg.gen optsDefault listTextWitness = .ok listTextWitnessXml := by decide

/-- what the merged list loads as: `{'r': {'a': 'x\ny'}}` -/
theorem C12_list_merged_value :
    loadXml listWitnessXml = .ok (.dict .n0 [(['r'], .dict .n0 [(['a'], .str ['x', '\n', 'y'])])]) := by decide +kernel

/-- **C12-b.**  A list is written inside one wrapper element and loads back merged:
`{'r': {'a': ['x', 'y']}}` comes back as `{'r': {'a': 'x\ny'}}`. -/
theorem C12_list_merged_cex : ¬ C12_roundtrip_stmt := by
  intro h
  obtain ⟨s, h1, h2⟩ := h optsDefault listWitness (by decide) (by decide)
  rw [listWitness_xml] at h1
  injection h1 with h1
  subst h1
  rw [C12_list_merged_value] at h2
  revert h2
  decide

/-- the reader (like expat) rejects the export of `{'r': {'a': ['<']}}` -/
theorem C12_list_text_unescaped_status : readStatus listTextWitnessXml = some .malformed := by decide

/-- **C12-d.**  Text items of a list are written unescaped: `{'r': {'a': ['<']}}` is exported as
an ill-formed document. -/
theorem C12_list_text_unescaped_cex : ¬ C12_wellformed_stmt := by
  intro h
  obtain ⟨s, h1, e, h2⟩ := h optsDefault listTextWitness (by decide) (by decide)
  rw [listTextWitness_xml] at h1
  injection h1 with h1
  subst h1
  have := C12_list_text_unescaped_status
  simp [readStatus, h2] at this

/-! ## non-vacuity -/

/-- `{'r': {'a': '<& ', 'Parm': {'ParmCode': 'x', 'Value': True}, 'c': '<![CDATA[ x<y ]]>', 'n': None,
'f': 1.5, 'd': {'e': 'a\nb', 'z': {}}}}` -/
def exTree : Val :=
  .dict .n0 [(['r'], .dict .plain [
    (['a'], .str ['<', '&', ' ']),
    (['P', 'a', 'r', 'm'], .dict .plain [(['P', 'a', 'r', 'm', 'C', 'o', 'd', 'e'], .str ['x']), (['V', 'a', 'l', 'u', 'e'], .bool true)]),
    (['c'], .str ['<', '!', '[', 'C', 'D', 'A', 'T', 'A', '[', ' ', 'x', '<', 'y', ' ', ']', ']', '>']),
    (['n'], .none),
    (['f'], .flt ['1', '.', '5']),
    (['d'], .dict .plain [(['e'], .str ['a', '\n', 'b']), (['z'], .dict .plain [])])])]

example : xmlShaped false exTree = true := by decide
example : isGoodOpts optsDefault = true ∧ isGoodOpts { indent := 0, encoding := none, quote := ['\''] } = true := by decide
def optsBare : Opts := { indent := 0, encoding := none, quote := ['\''] }

/-- `exTree.to_xml()` -/
def exTreeXml : Str :=
  ['<', '?', 'x', 'm', 'l', ' ', 'v', 'e', 'r', 's', 'i', 'o', 'n', '=', '"', '1', '.', '0', '"', ' ', 'e', 'n', 'c', 'o', 'd', 'i', 'n', 'g', '=', '"', 'u', 't', 'f', '-', '8', '"', '?', '>', '\n', '<', 'r', '>', '\n', ' ', ' ', ' ', ' ', '<', 'a', '>', '&', 'l', 't', ';', '&', 'a', 'm', 'p', ';', ' ', '<', '/', 'a', '>', ' ', ' ', ' ', ' ', '<', 'P', 'a', 'r', 'm', '>', '<', 'P', 'a', 'r', 'm', 'C', 'o', 'd', 'e', '>', 'x', '<', '/', 'P', 'a', 'r', 'm', 'C', 'o', 'd', 'e', '>', '<', 'V', 'a', 'l', 'u', 'e', '>', 'T', 'r', 'u', 'e', '<', '/', 'V', 'a', 'l', 'u', 'e', '>', '<', '/', 'P', 'a', 'r', 'm', '>', '\n', ' ', ' ', ' ', ' ', '<', 'c', '>', '\n', ' ', ' ', ' ', ' ', ' ', ' ', ' ', ' ', '<', '!', '[', 'C', 'D', 'A', 'T', 'A', '[', ' ', 'x', '<', 'y', ' ', ']', ']', '>', '\n', ' ', ' ', ' ', ' ', '<', '/', 'c', '>', '\n', ' ', ' ', ' ', ' ', '<', 'n', '/', '>', '\n', ' ', ' ', ' ', ' ', '<', 'f', '>', '1', '.', '5', '<', '/', 'f', '>', '\n', ' ', ' ', ' ', ' ', '<', 'd', '>', '\n', ' ', ' ', ' ', ' ', ' ', ' ', ' ', ' ', '<', 'e', '>', 'a', '\n', 'b', '<', '/', 'e', '>', '\n', ' ', ' ', ' ', ' ', ' ', ' ', ' ', ' ', '<', 'z', '/', '>', '\n', ' ', ' ', ' ', ' ', '<', '/', 'd', '>', '\n', '<', '/', 'r', '>']

/-- `exTree.to_xml(indent=0, encoding=None, quote="'")` -/
def exTreeXml0 : Str :=
  ['<', 'r', '>', '\n', '<', 'a', '>', '&', 'l', 't', ';', '&', 'a', 'm', 'p', ';', ' ', '<', '/', 'a', '>', '<', 'P', 'a', 'r', 'm', '>', '<', 'P', 'a', 'r', 'm', 'C', 'o', 'd', 'e', '>', 'x', '<', '/', 'P', 'a', 'r', 'm', 'C', 'o', 'd', 'e', '>', '<', 'V', 'a', 'l', 'u', 'e', '>', 'T', 'r', 'u', 'e', '<', '/', 'V', 'a', 'l', 'u', 'e', '>', '<', '/', 'P', 'a', 'r', 'm', '>', '\n', '<', 'c', '>', '\n', '<', '!', '[', 'C', 'D', 'A', 'T', 'A', '[', ' ', 'x', '<', 'y', ' ', ']', ']', '>', '\n', '<', '/', 'c', '>', '\n', '<', 'n', '/', '>', '\n', '<', 'f', '>', '1', '.', '5', '<', '/', 'f', '>', '\n', '<', 'd', '>', '\n', '<', 'e', '>', 'a', '\n', 'b', '<', '/', 'e', '>', '\n', '<', 'z', '/', '>', '\n', '<', '/', 'd', '>', '\n', '<', '/', 'r', '>']

example : toXml Cfg.gen optsDefault exTree = .ok exTreeXml := by decide +kernel
example : toXml Cfg.gen optsBare exTree = .ok exTreeXml0 := by decide +kernel
example : loadXml exTreeXml = .ok (normRoot Cfg.gen exTree) := by decide +kernel
example : loadXml exTreeXml0 = .ok (normRoot Cfg.gen exTree) := by decide +kernel
example : readStatus exTreeXml = none := by decide +kernel
/-- the normal form is not the identity on the example: text stripped, CDATA unwrapped, numbers text -/
example : normRoot Cfg.gen exTree =
    .dict .n0 [(['r'], .dict .n0 [
      (['a'], .str ['<', '&']),
      (['P', 'a', 'r', 'm'], .dict .n0 [(['P', 'a', 'r', 'm', 'C', 'o', 'd', 'e'], .str ['x']), (['V', 'a', 'l', 'u', 'e'], .str ['T', 'r', 'u', 'e'])]),
      (['c'], .str ['x', '<', 'y']),
      (['n'], .none),
      (['f'], .str ['1', '.', '5']),
      (['d'], .dict .n0 [(['e'], .str ['a', '\n', 'b']), (['z'], .none)])])] := by decide
example : isName ['P', 'a', 'r', 'm'] = true ∧ isXmlText ['<', '&', '"', '\'', '>', ']', ']', '>', Char.ofNat 0x20AC] = true := by decide
/-- lists are inside the full statements' quantifier -/
example : xmlShaped true listWitness = true ∧ xmlShaped false listWitness = false := by decide

end N0.C12
