import N0Verif.Proofs.Tlv
import N0Verif.Proofs.Fwf
import N0Verif.Proofs.TlvGenEq
import N0Verif.Proofs.TlvGenWriterEq
import N0Verif.Proofs.FwfGenEq
/-!
# C16 — positional record codecs (TLV, fixed-width) round-trip, refuse, and terminate

Only property statements live here; helper lemmas are in `Proofs/Tlv.lean`, `Proofs/Fwf.lean`.
The models follow the code with the fixes C16-a (`parse_tlv` rejects a negative length),
C16-b (`load_fwf` appends a tuple to `failed_rows`), C16-d (a failed validation of a column
without `error_message` contributes a default message instead of raising `TypeError`) and C16-c (`generate_tlv` refuses a
`len_padding` that `int()` does not read through: probe `int(pad + pad + '1') == 1`) applied.
Paddings are in the scope of the `int()` model (`padInScope`: Latin-1 or a listed blank); a
Unicode decimal zero such as U+0660, which the real `int()` reads through, is outside it.
-/
namespace N0.C16
open N0 N0.Py N0.Tlv N0.Fwf

/-! ## TLV parser on arbitrary input: termination and tiling -/

/-- **C16 (tiling).**  For *every* function used as `int()` that rejects the empty string, every
input and all field widths: the parser ends normally or with `ValueError` (never out of fuel);
the cells of the yielded triplets concatenate to the consumed prefix of the input — to the whole
input when it ends normally; the start offsets strictly increase; every triplet starts inside the
input, exactly where the cells of its predecessors end (no gap, no overlap); and every triplet is
cut out of the input at its offset, its length being the non-negative number `int()` read. -/
theorem C16_tlv_tiles (pyInt : Str → Option Int) (hE : pyInt [] = none) (s : Str) (tl ll : Nat) :
    let r := parseTlv pyInt s tl ll
    (r.status = .done ∨ r.status = .raised .ValueError)
    ∧ r.trips.flatMap Trip.cells = s.take r.off
    ∧ (r.status = .done → r.trips.flatMap Trip.cells = s)
    ∧ List.Pairwise (· < ·) (r.trips.map Trip.off)
    ∧ (∀ pre t post, r.trips = pre ++ t :: post →
        t.off = (pre.flatMap Trip.cells).length ∧ t.off < s.length)
    ∧ (∀ t ∈ r.trips,
        t.tag = slice s t.off (t.off + tl)
        ∧ t.lenText = slice s (t.off + tl) (t.off + tl + ll)
        ∧ pyInt t.lenText = some t.len ∧ 0 ≤ t.len
        ∧ t.value = slice s (t.off + tl + ll) (t.off + tl + ll + t.len.toNat)
        ∧ t.next = t.off + tl + ll + t.len.toNat) := by
  intro r
  by_cases hs : s.isEmpty = true
  · have : r = { trips := [], off := 0, status := .done } := by
      simp [r, parseTlv, parseTlvFuel, parseWith, hs]
    rw [this]
    have : s = [] := by simpa using hs
    simp [this]
  · have hr : r = loop (step pyInt s tl ll) s.length (s.length + 1) 0 := by
      simp [r, parseTlv, parseTlvFuel, parseWith, hs]
    obtain ⟨hT, hdone, hst, hfuel⟩ := loop_spec (pyInt := pyInt) (s := s) (tl := tl) (ll := ll) hE
      (s.length + 1) 0
    rw [← hr] at hT hdone hst hfuel
    have hnf := hfuel (by omega)
    have hcat : r.trips.flatMap Trip.cells = s.take r.off := by
      rw [hT.concat]; simp [slice]
    refine ⟨?_, hcat, ?_, hT.increasing, ?_, ?_⟩
    · rcases hst with h | h | h
      · exact .inl h
      · exact .inr h
      · exact absurd h hnf
    · intro hd
      rw [hcat, List.take_of_length_le (hdone hd)]
    · intro pre t post heq
      obtain ⟨h1, _, h3⟩ := hT.split pre t post heq
      refine ⟨?_, h3⟩
      rw [h1, slice_length]; omega
    · intro t ht
      obtain ⟨w, _⟩ := hT.wellCut t ht
      refine ⟨w.tag, w.lenText, w.int, w.nonneg, ?_, w.next⟩
      rw [w.value, w.next]

/-- **C16 (termination).**  Same generality: the fuel `|s| + 1` is never exhausted, every larger
fuel gives the very same run (so the fuelled model *is* the `while` loop), and at most `|s|`
triplets are yielded. -/
theorem C16_tlv_terminates (pyInt : Str → Option Int) (hE : pyInt [] = none) (s : Str) (tl ll : Nat) :
    (parseTlv pyInt s tl ll).status ≠ .raised .OutOfFuel
    ∧ (∀ fuel, s.length + 1 ≤ fuel → parseTlvFuel pyInt s tl ll fuel = parseTlv pyInt s tl ll)
    ∧ (parseTlv pyInt s tl ll).trips.length ≤ s.length := by
  by_cases hs : s.isEmpty = true
  · simp [parseTlv, parseTlvFuel, parseWith, hs]
  · have hr : ∀ fuel, parseTlvFuel pyInt s tl ll fuel = loop (step pyInt s tl ll) s.length fuel 0 := by
      intro fuel; simp [parseTlvFuel, parseWith, hs]
    obtain ⟨hT, _, _, hfuel⟩ := loop_spec (pyInt := pyInt) (s := s) (tl := tl) (ll := ll) hE
      (s.length + 1) 0
    refine ⟨?_, ?_, ?_⟩
    · rw [parseTlv, hr]; exact hfuel (by omega)
    · intro fuel hf
      rw [parseTlv, hr, hr]
      exact loop_fuel_irrelevant hE _ _ _ (by omega) (by omega)
    · rw [parseTlv, hr]
      have := hT.count
      omega

/-- The hypothesis `pyInt [] = none` cannot be dropped: with an `int()` that reads the empty
string as `0` and both widths `0` the loop never leaves offset 0 (Python's `int('')` raises). -/
theorem C16_tlv_needs_empty_rejected :
    ∀ fuel, (parseTlvFuel (fun _ => some 0) ['a'] 0 0 fuel).status = .raised .OutOfFuel := by
  intro fuel
  have : ∀ fuel, (loop (step (fun _ => some 0) ['a'] 0 0) 1 fuel 0).status = .raised .OutOfFuel := by
    intro fuel
    induction fuel with
    | zero => rfl
    | succ f ih =>
      have hs : step (fun _ => some 0) ['a'] 0 0 0
          = .ok { tag := [], lenText := [], len := 0, value := [], off := 0, next := 0 } := by decide
      simp only [loop, hs]
      exact ih
  simpa [parseTlvFuel, parseWith] using this fuel

/-! ### the defect repaired by fix C16-a (kept as theorems about the pre-fix step) -/

/-- before the fix, `parse_tlv('AA-05')` never terminated: the iteration at offset 0 yields
`('AA', -5, '')` and returns to offset 0, so every fuel is exhausted -/
theorem C16_tlv_loop_cex :
    stepOld pyInt "AA-05".toList 2 3 0
      = .ok { tag := "AA".toList, lenText := "-05".toList, len := -5, value := [], off := 0, next := 0 }
    ∧ ∀ fuel, (parseTlvOld pyInt "AA-05".toList 2 3 fuel).status = .raised .OutOfFuel := by
  have hs : stepOld pyInt "AA-05".toList 2 3 0
      = .ok { tag := "AA".toList, lenText := "-05".toList, len := -5, value := [], off := 0, next := 0 } := by
    decide
  refine ⟨hs, ?_⟩
  intro fuel
  have : ∀ fuel, (loop (stepOld pyInt "AA-05".toList 2 3) 5 fuel 0).status = .raised .OutOfFuel := by
    intro fuel
    induction fuel with
    | zero => rfl
    | succ f ih =>
      simp only [loop, hs]
      exact ih
  simpa [parseTlvOld, parseWith] using this fuel

/-- before the fix, `parse_tlv('0-2', 1, 2)` finished normally with two triplets that overlap:
the second starts at offset 1, inside the cells of the first -/
theorem C16_tlv_overlap_cex :
    let r := parseTlvOld pyInt "0-2".toList 1 2 4
    r.status = .done
    ∧ r.trips.map Trip.view = [("0".toList, -2, []), ("-".toList, 2, [])]
    ∧ r.trips.map Trip.off = [0, 1]
    ∧ r.trips.flatMap Trip.cells ≠ "0-2".toList := by
  decide

/-- the fixed code raises `ValueError` on both inputs, before yielding anything -/
theorem C16_tlv_fixed_witnesses :
    parseTlv pyInt "AA-05".toList 2 3 = { trips := [], off := 0, status := .raised .ValueError }
    ∧ parseTlv pyInt "0-2".toList 1 2 = { trips := [], off := 0, status := .raised .ValueError } := by
  decide

/-! ## generate_tlv then parse_tlv -/

/-- **C16 (TLV round trip, any reader).**  For every `int()` that reads the length field back
when it is padded with a padding the generator accepts (`IntReads`): whatever text
`generate_tlv` returns parses back, in order, to one `(tag padded to the tag width, len(value),
value)` per entry. -/
theorem C16_tlv_roundtrip (pyInt : Str → Option Int) (tl ll : Nat) (tp lp : Char)
    (hI : lenPadOk lp = true → IntReads pyInt ll lp) (d : List (Str × Str)) (g : Str)
    (hgen : generateTlv tl ll tp lp d = .ok g) :
    (parseTlv pyInt g tl ll).status = .done
      ∧ (parseTlv pyInt g tl ll).trips.map Trip.view = d.map (expected tl tp) := by
  obtain ⟨hp, hg⟩ := generateTlv_ok hgen
  have hlen := generated_length hg
  by_cases hs : g.isEmpty = true
  · have hg0 : g = [] := by simpa using hs
    have hd : d = [] := by
      rw [hg0] at hlen
      exact List.eq_nil_of_length_eq_zero (by simpa using hlen)
    subst hd
    simp [parseTlv, parseTlvFuel, parseWith, hs]
  · have := loop_generated (pyInt := pyInt) (hI hp) d g hg [] (g.length + 1) (by omega)
    simp only [List.nil_append, List.length_nil] at this
    simp only [parseTlv, parseTlvFuel, parseWith, hs]
    exact ⟨this.1, this.2.2⟩

/-- Python's `int()` (as modelled by `pyInt`) reads a length field padded with `'0'` or with any
character it strips -/
theorem C16_pyint_reads_padded (ll : Nat) (lp : Char) (hlp : lp = '0' ∨ isIntSpace lp = true) :
    IntReads pyInt ll lp := by
  intro n _
  unfold rjust
  rcases hlp with h | h
  · subst h; exact pyInt_zero_padded _ n
  · exact pyInt_blank_padded _ n lp h

/-- **the probe of `generate_tlv` is exact**: `int(pad + pad + '1') == 1` holds exactly for `'0'`
and the characters `int()` strips — nothing that round-trips is refused, nothing that is
accepted fails to round-trip (signs, `_`, other digits, `\x1c`..`\x1f`, letters fail it) -/
theorem C16_tlv_padding_probe_exact (lp : Char) :
    lenPadOk lp = true ↔ (lp = '0' ∨ isIntSpace lp = true) := lenPadOk_iff lp

/-- … in particular `int()` reads the field with every padding `generate_tlv` accepts -/
theorem C16_pyint_reads_accepted (ll : Nat) (lp : Char) (hp : lenPadOk lp = true) :
    IntReads pyInt ll lp :=
  C16_pyint_reads_padded ll lp (lenPadOk_reads hp)

theorem C16_pyint_rejects_empty : pyInt [] = none := pyInt_nil

/-- **C16 (TLV round trip, concrete `int()`), no hypothesis on the paddings**: every text that
`generate_tlv` returns — whatever the mapping, the widths and the paddings — parses back to one
`(padded tag, len(value), value)` per entry, in order. -/
theorem C16_tlv_roundtrip_pyint (tl ll : Nat) (tp lp : Char) (d : List (Str × Str)) (g : Str)
    (hgen : generateTlv tl ll tp lp d = .ok g) :
    (parseTlv pyInt g tl ll).status = .done
      ∧ (parseTlv pyInt g tl ll).trips.map Trip.view = d.map (expected tl tp) :=
  C16_tlv_roundtrip pyInt tl ll tp lp (C16_pyint_reads_accepted ll lp) d g hgen

/-- **C16 (acceptance).**  Generation returns a text exactly when every tag and every length fits
its field and `len_padding` passes the probe (`'0'` or a character `int()` strips:
`C16_tlv_padding_probe_exact`). -/
theorem C16_tlv_accepts (tl ll : Nat) (tp lp : Char) (d : List (Str × Str)) :
    (∃ g, generateTlv tl ll tp lp d = .ok g) ↔ (Fits tl ll d ∧ lenPadOk lp = true) := by
  constructor
  · rintro ⟨g, h⟩
    obtain ⟨hp, hg⟩ := generateTlv_ok h
    exact ⟨(genEntries_ok_iff tl ll tp lp d).mp ⟨g, hg⟩, hp⟩
  · rintro ⟨hf, hp⟩
    rw [generateTlv_accepted hp]
    exact (genEntries_ok_iff tl ll tp lp d).mpr hf

/-- **C16 (refusal).**  If some tag or length does not fit, or the length padding is one that
`parse_tlv` could not read through, generation raises `AssertionError` and returns no text — and
conversely any failure of the generator is that refusal. -/
theorem C16_tlv_refuses (tl ll : Nat) (tp lp : Char) (d : List (Str × Str)) :
    ((¬ Fits tl ll d ∨ lenPadOk lp = false) → generateTlv tl ll tp lp d = .error .AssertionError)
    ∧ (∀ e, generateTlv tl ll tp lp d = .error e →
        e = .AssertionError ∧ (¬ Fits tl ll d ∨ lenPadOk lp = false)) := by
  have key : ∀ e, generateTlv tl ll tp lp d = .error e → e = .AssertionError := by
    intro e h
    cases hp : lenPadOk lp with
    | false => rw [generateTlv_refused hp] at h; cases h; rfl
    | true => rw [generateTlv_accepted hp] at h; exact genEntries_error tl ll tp lp d e h
  constructor
  · intro hbad
    cases h : generateTlv tl ll tp lp d with
    | ok g =>
      have := (C16_tlv_accepts tl ll tp lp d).mp ⟨g, h⟩
      rcases hbad with hb | hb
      · exact absurd this.1 hb
      · rw [this.2] at hb; cases hb
    | error e => rw [key e h]
  · intro e h
    refine ⟨key e h, ?_⟩
    by_cases hf : Fits tl ll d
    · right
      cases hp : lenPadOk lp with
      | false => rfl
      | true =>
        obtain ⟨g, hg⟩ := (C16_tlv_accepts tl ll tp lp d).mpr ⟨hf, hp⟩
        rw [hg] at h; cases h
    · exact Or.inl hf

/-- **C16 (refusal of a padding that cannot be read back; finding C16-c, fixed).**  A
`len_padding` that fails the probe — neither `'0'` nor a character `int()` strips — is refused
for every mapping and every width, before anything is written.  (Before the fix `generate_tlv({'A':'x'}, len_padding='x')`
returned `'A xx1x'`, which `parse_tlv` cannot read: `int('xx1')` raises.) -/
theorem C16_tlv_refuses_bad_padding (tl ll : Nat) (tp lp : Char) (hp : lenPadOk lp = false)
    (d : List (Str × Str)) : generateTlv tl ll tp lp d = .error .AssertionError :=
  generateTlv_refused hp tl ll tp d

/-- the former witness of C16-c: the mapping fits, the padding `'x'` is refused; the text the
unfixed code wrote (the entry loop alone) does not parse back and `int()` does not read a field
padded with `'x'`, so the refusal is what keeps "round-trip or refuse" true -/
theorem C16_tlv_badpad_refused :
    Fits 2 3 [("A".toList, "x".toList)]
    ∧ generateTlv 2 3 ' ' 'x' [("A".toList, "x".toList)] = .error .AssertionError
    ∧ genEntries 2 3 ' ' 'x' [("A".toList, "x".toList)] = .ok "A xx1x".toList
    ∧ parseTlv pyInt "A xx1x".toList 2 3 = { trips := [], off := 0, status := .raised .ValueError }
    ∧ ¬ IntReads pyInt 3 'x' := by
  refine ⟨by intro e he; simp at he; subst he; decide, by decide, by decide, by decide, ?_⟩
  intro h
  have := h 1 (by decide)
  revert this
  decide

/-! ## the definitions regenerated from the Python source of `parse_tlv` equal the hand-written model

`Gen/TlvPy.lean` is rewritten by `harness/translate_py_tlv.py` on every run; these theorems are re-checked against
the new text (field widths are natural numbers, as in the model). -/

/-- **generated loop body = model step**: one iteration of the translated `while` body yields the triple of
`Tlv.step` and continues at its `next` offset (or raises the same exception). -/
theorem C16_generated_step_eq (s : Str) (tl ll off : Nat) :
    Gen.TlvPy.ParseTlv.step s tl ll ⟨off⟩ = (Tlv.step pyInt s tl ll off).map TlvGenEq.viewStep :=
  TlvGenEq.step_eq s tl ll off

/-- **generated loop test** -/
theorem C16_generated_cond_eq (s : Str) (tl ll : Int) (off : Nat) :
    Gen.TlvPy.ParseTlv.cond s tl ll ⟨off⟩ = decide (off < s.length) := TlvGenEq.cond_eq s tl ll off

/-- **generated generator = model**, for every fuel: the yielded triples are the views of the model's triplets and
the iteration ends the same way (normally / with the same exception / out of fuel). -/
theorem C16_generated_parse_eq (s : Str) (tl ll fuel : Nat) :
    Gen.TlvPy.parseTlv s tl ll fuel = TlvGenEq.viewRes (parseTlvFuel pyInt s tl ll fuel) :=
  TlvGenEq.parseTlv_eq s tl ll fuel

/-- **C16 (termination) for the translated code**: with fuel `|s| + 1` the translated generator ends normally or
with `ValueError` — never out of fuel — and yields at most `|s|` triples. -/
theorem C16_tlv_terminates_generated (s : Str) (tl ll : Nat) :
    let r := Gen.TlvPy.parseTlv s tl ll (s.length + 1)
    (r.2 = none ∨ r.2 = some .ValueError) ∧ r.1.length ≤ s.length := by
  intro r
  have h : r = TlvGenEq.viewRes (parseTlv pyInt s tl ll) := TlvGenEq.parseTlv_eq s tl ll _
  have h1 := (C16_tlv_tiles pyInt C16_pyint_rejects_empty s tl ll).1
  have h2 := (C16_tlv_terminates pyInt C16_pyint_rejects_empty s tl ll).2.2
  rw [h]
  refine ⟨?_, by simpa [TlvGenEq.viewRes] using h2⟩
  rcases h1 with h1 | h1 <;> simp [TlvGenEq.viewRes, TlvGenEq.statusOpt, h1]

/-! ## the definitions regenerated from the Python source of `generate_tlv` equal the hand-written model

`Gen/TlvGenPy.lean` is rewritten by `harness/translate_py_tlvgen.py` on every run (the element of the generator
expression, the `''.join(… for …)`, the statements in front of the `return`); these theorems are re-checked against the
new text.  Scope, as in the model: field widths are natural numbers, the paddings are single characters (the
translated code takes them as `str`: `[tp]`, `[lp]`). -/

/-- **generated entry = model entry**: the width checks (which one raises, in which order), `ljust` of the tag,
`rjust` of the decimal length, the concatenation -/
theorem C16_generated_gen_entry_eq (d : List (Str × Str)) (tl ll : Nat) (tp lp : Char) (tag value : Str) :
    Gen.TlvGenPy.GenerateTlv.entry d tl ll [tp] [lp] tag value = genEntry tl ll tp lp tag value :=
  TlvGenWriterEq.entry_eq d tl ll tp lp tag value

/-- **generated `''.join(entry for tag, value in d.items())` = model**, for every list of entries -/
theorem C16_generated_gen_entries_eq (d0 d : List (Str × Str)) (tl ll : Nat) (tp lp : Char) :
    Gen.TlvGenPy.joinMapE (fun p => Gen.TlvGenPy.GenerateTlv.entry d0 tl ll [tp] [lp] p.1 p.2) d
      = genEntries tl ll tp lp d :=
  TlvGenWriterEq.entries_eq d0 tl ll tp lp d

/-- **generated readability guard = `lenPadOk`**: the statements in front of the `return` raise `AssertionError`
exactly when the probe of the one-character `len_padding` fails (widths and tag padding are not looked at) -/
theorem C16_generated_gen_guard_eq (d : List (Str × Str)) (tl ll : Int) (tp : Str) (lp : Char) :
    Gen.TlvGenPy.GenerateTlv.guard d tl ll tp [lp] = if lenPadOk lp then .ok () else .error .AssertionError :=
  TlvGenWriterEq.guard_eq d tl ll tp lp

/-- a `len_padding` that is not one character is not probed by the generated guard -/
theorem C16_generated_gen_guard_skips (d : List (Str × Str)) (tl ll : Int) (tp lp : Str) (h : lp.length ≠ 1) :
    Gen.TlvGenPy.GenerateTlv.guard d tl ll tp lp = .ok () :=
  TlvGenWriterEq.guard_skips d tl ll tp lp h

/-- **generated `generate_tlv` = model `generateTlv`** -/
theorem C16_generated_gen_eq (d : List (Str × Str)) (tl ll : Nat) (tp lp : Char) :
    Gen.TlvGenPy.generateTlv d tl ll [tp] [lp] = generateTlv tl ll tp lp d :=
  TlvGenWriterEq.generateTlv_eq d tl ll tp lp

/-! ## fragments of `parse_fwf_row` / `generate_fwf_row` regenerated from the Python source equal the hand-written model

`Gen/FwfPy.lean` is rewritten by `harness/translate_py_fwf.py` on every run: the statements of the column loop of
`parse_fwf_row` that compute `column_value` from offset / width / till, and the statements of the column loop of
`generate_fwf_row` that render the selected value into `rendered_row`.  Scope, as in the model: natural numbers (or
`None`) for offsets, widths, sizes. -/

/-- **generated slice computation = `colValue`**: which of offset / width / till decide, `till` defaulting to
`offset + width`, the slice `incoming_row[offset:till]`; it never raises -/
theorem C16_generated_fwf_slice_eq (row : Str) (c : PCol) :
    Gen.FwfPy.ParseFwfRow.colValue row (c.offset.map Int.ofNat) (c.width.map Int.ofNat) (c.till.map Int.ofNat)
      = .ok (colValue row c) :=
  FwfGenEq.colValue_eq row c

/-- **generated cell rendering = `place`**: `str()` of the value, `zfill` for `type == 'int'` else `ljust`, truncation
to `size`, splice between `rendered_row[:offset]` and `rendered_row[till:]` (`ty` = `column_format.get('type')`) -/
theorem C16_generated_gen_fwf_cell_eq (c : GCol) (v : Val) (r : Str) (ty : Option Str)
    (h : c.isInt = decide (ty = some "int".toList)) :
    Gen.FwfPy.GenerateFwfRow.place r v c.size c.offset c.till ty = place c v r :=
  FwfGenEq.place_eq c v r ty h

/-! Non-vacuity -/
example : pyInt [] = none := by decide
example : pyInt " +1_0\t".toList = some 10 := by decide
example : Fits 2 3 [("A".toList, "x".toList), ("BB".toList, "hello world".toList)] := by
  intro e he
  simp at he
  rcases he with h | h <;> subst h <;> decide
example : (parseTlv pyInt "A 001xBB011hello world".toList 2 3).trips.map Trip.view
    = [("A ".toList, 1, "x".toList), ("BB".toList, 11, "hello world".toList)] := by decide
example : (parseTlv pyInt "AA005ab".toList 2 3).status = .done := by decide
example : ¬ Fits 1 3 [("BB".toList, [])] := by
  intro h; have := h ("BB".toList, []) (by simp); revert this; decide
-- the round-trip theorem is not vacuous: generation succeeds with the default and with a blank padding
example : generateTlv 2 3 ' ' '0' [("A".toList, "x".toList), ("BB".toList, "hello world".toList)]
    = .ok "A 001xBB011hello world".toList := by decide
example : generateTlv 2 3 '_' '\t' [("A".toList, "x".toList)] = .ok "A_\t\t1x".toList := by decide
example : lenPadOk '0' = true ∧ lenPadOk ' ' = true ∧ lenPadOk (Char.ofNat 11) = true ∧ lenPadOk (Char.ofNat 0xA0) = true
    ∧ lenPadOk (Char.ofNat 0x85) = true ∧ lenPadOk (Char.ofNat 0x2003) = true ∧ lenPadOk 'x' = false ∧ lenPadOk '-' = false
    ∧ lenPadOk '+' = false ∧ lenPadOk '_' = false ∧ lenPadOk '1' = false ∧ lenPadOk (Char.ofNat 0x1C) = false := by decide
example : generateTlv 2 3 ' ' (Char.ofNat 0xA0) [("A".toList, "x".toList)]
    = .ok ['A', ' ', Char.ofNat 0xA0, Char.ofNat 0xA0, '1', 'x'] := by decide
example : padInScope (Char.ofNat 0xA0) = true ∧ padInScope (Char.ofNat 0x2003) = true ∧ padInScope (Char.ofNat 0x660) = false := by decide

/-! ## fixed-width rows -/

/-- **C16 (fixed-width row round trip).**  For a layout whose columns end at `offset + size` and do
not overlap, and a non-empty filler: if `generate_fwf_row` returns `text`, then parsing `text` with
the corresponding parser layout (columns described by `width` or by `till`, any `validate`) returns
one entry per column, and every column that was written — from the record, else from its mapping
expression — reads back as `str(value)` padded (blanks on the right, or zeros on the left for
`type == 'int'`) or truncated to the column size. -/
theorem C16_fwf_roundtrip (rec : Rec) (fmt : List GCol) (filler text : Str)
    (hc : Consistent fmt) (hfill : filler ≠ []) (hg : genRow rec fmt filler = .ok text)
    (useWidth validate : Bool) :
    parseRow text (fmt.map (readBack useWidth)) validate
      = .ok (.parsed (fmt.map (fun c => (c.name, colValue text (readBack useWidth c)))))
    ∧ ∀ c ∈ fmt, ∀ v sv, source rec c = some (.ok v) → pyStr v = .ok sv →
        colValue text (readBack useWidth c) = some (padOrTrunc c.isInt c.size sv) := by
  unfold genRow at hg
  split at hg
  · cases hg
  · rename_i hne
    have hne' : fmt ≠ [] := by intro h; subst h; simp at hne
    constructor
    · rw [parseRow_plain text validate _ (by simpa using hne') (.inr (by simp [readBack]))]
      simp [List.map_map, Function.comp_def, readBack]
    · intro c hcm v sv hsrc hsv
      have hlen := filler_length (rowLen fmt) filler hfill
      obtain ⟨_, _, h3⟩ := genCols_spec rec fmt _ text hg
        (fun x hx => ⟨hc.1 x hx, Nat.le_trans (till_le_rowLen fmt x hx) hlen⟩) hc.2
      have := h3 c hcm v sv hsrc hsv
      cases useWidth
      · simpa [colValue, readBack] using this
      · rw [hc.1 c hcm] at this
        simpa [colValue, readBack] using this

/-- a column that is not written (not in the record, no mapping) keeps the filler -/
theorem C16_fwf_absent_is_filler (rec : Rec) (fmt : List GCol) (ch : Char) (text : Str)
    (hc : Consistent fmt) (hg : genRow rec fmt [ch] = .ok text) (useWidth : Bool) :
    ∀ c ∈ fmt, source rec c = none →
      colValue text (readBack useWidth c) = some (List.replicate c.size ch) := by
  intro c hcm hsrc
  unfold genRow at hg
  split at hg
  · cases hg
  · have hlen := filler_length (rowLen fmt) [ch] (by simp)
    obtain ⟨_, h2, _⟩ := genCols_spec rec fmt _ text hg
      (fun x hx => ⟨hc.1 x hx, Nat.le_trans (till_le_rowLen fmt x hx) hlen⟩) hc.2
    have hfr := h2 c.offset c.till (fun x hx hsx => by
      rcases pairwise_disjoint_forall fmt hc.2 x hx c hcm with h | h
      · subst h; exact absurd hsrc hsx
      · exact h)
    have hrep : (List.replicate (rowLen fmt) [ch]).flatten = List.replicate (rowLen fmt) ch := by
      simp
    rw [hrep, slice_replicate _ _ _ _ (till_le_rowLen fmt c hcm)] at hfr
    have hsz : c.till - c.offset = c.size := by have := hc.1 c hcm; omega
    rw [hsz] at hfr
    cases useWidth
    · simpa [colValue, readBack] using hfr
    · rw [hc.1 c hcm] at hfr
      simpa [colValue, readBack] using hfr

/-- the text written into a column always has exactly the column's size -/
theorem C16_fwf_cell_size (isInt : Bool) (size : Nat) (sv : Str) :
    (padOrTrunc isInt size sv).length = size := padOrTrunc_length isInt size sv

/-- **C16 (a failing validation never raises; fix C16-d).**  In the model's scope (a row of text,
offsets / widths natural numbers or `None`, validations total functions, `error_message` a string
or absent) `parse_fwf_row` has exactly one way of raising: `SyntaxError` for an empty layout.  In
particular no `TypeError`, whatever validations fail and whether or not the column names an
`error_message`.  (On the real code the other exceptions that remain possible come from outside
this scope: whatever an `eval`'d validation expression itself raises — `SyntaxError`, `NameError`,
… —, `TypeError` for an offset / width / till that is not an integer, for an `error_message` that
is neither `None` nor a string, or for a row that cannot be sliced.) -/
theorem C16_fwf_parse_raises_only_empty_layout (row : Str) (fmt : List PCol) (validate : Bool) :
    (∀ e, parseRow row fmt validate = .error e ↔ (e = .SyntaxError ∧ fmt = []))
    ∧ parseRow row fmt validate ≠ .error .TypeError
    ∧ (fmt ≠ [] → ∃ res, parseRow row fmt validate = .ok res) := by
  refine ⟨fun e => ⟨parseRow_error row validate fmt e, ?_⟩, ?_, fun h => ⟨_, parseRow_ok row validate fmt h⟩⟩
  · rintro ⟨rfl, rfl⟩; rfl
  · intro h
    have := (parseRow_error row validate fmt _ h).1
    cases this

/-- **C16 (every row is classified; fix C16-d).**  With validation on and a non-empty layout a row
is accepted — one entry per column, in layout order — iff every validation of every column holds
(each seeing the columns parsed before it: `allValid`), and rejected with the row itself and a
message otherwise: there is no third outcome. -/
theorem C16_fwf_row_classified (row : Str) (fmt : List PCol) (hne : fmt ≠ []) :
    (allValid row fmt [] = true →
      parseRow row fmt true = .ok (.parsed (fmt.map (fun c => (c.name, colValue row c)))))
    ∧ (allValid row fmt [] = false → ∃ msg, parseRow row fmt true = .ok (.rejected row msg)) := by
  rw [parseRow_ok row true fmt hne]
  obtain ⟨h1, h2⟩ := parseCols_classify row fmt []
  refine ⟨fun h => ?_, fun h => ?_⟩
  · rw [h1 h]; simp
  · obtain ⟨msg, hm⟩ := h2 h
    exact ⟨msg, by rw [hm]⟩

/-- the message of a rejected row: one entry per failed validation of the first column that has a
failed validation, joined with `';'` — the column's `error_message` when it has one, else
`"Validation rule #<index> for '<column>' failed"` -/
theorem C16_fwf_reject_message (c : PCol) (v : Option Str) (row : Str) (acc : Row) :
    (failedMsgs c v row acc 0 c.validations).length
        = (c.validations.filter (fun f => !f v row acc)).length
    ∧ (∀ i, failMsg c i = match c.errorMessage with
        | some m => m
        | none => "Validation rule #".toList ++ natRepr i ++ " for '".toList ++ c.name ++ "' failed".toList) :=
  ⟨failedMsgs_length c v row acc 0 c.validations, fun _ => rfl⟩

/-- the audit's witness: column `a` with `validations = ["column_value == 'ok'"]` and no
`error_message`.  Before fix C16-d the row `'no'` raised `TypeError` (`";".join([None])`); now it
is rejected with the default message, and the file `ok / no / ok` loads with the middle line
reported once -/
theorem C16_fwf_nomsg_witness :
    let fmt : List PCol :=
      [{ name := ['a'], offset := some 0, width := some 2, till := none,
         validations := [fun v _ _ => v == some ['o', 'k']], errorMessage := none }]
    let msg : Str := -- "Validation rule #0 for 'a' failed"
      ['V', 'a', 'l', 'i', 'd', 'a', 't', 'i', 'o', 'n', ' ', 'r', 'u', 'l', 'e', ' ', '#', '0', ' ', 'f', 'o', 'r', ' ', '\'', 'a', '\'', ' ', 'f', 'a', 'i', 'l', 'e', 'd']
    parseRow ['n', 'o'] fmt true = .ok (.rejected ['n', 'o'] msg)
    ∧ loadFwf [['o', 'k'], ['n', 'o'], ['o', 'k']] fmt [] [] true none
      = .ok { accepted := [[(['a'], some ['o', 'k'])], [(['a'], some ['o', 'k'])]],
              rejected := [{ line := some 2, row := ['n', 'o'], msg := msg }] } := by
  decide

/-! Non-vacuity (classification): both outcomes occur, with and without `error_message`, with
several failed validations, and a later column sees the earlier ones -/
def exVCols : List PCol :=
  [{ name := ['a'], offset := some 0, width := some 1, till := none,
     validations := [fun v _ _ => v == some ['x'], fun v _ _ => v != some ['y']], errorMessage := some ['E'] },
   { name := ['b'], offset := some 1, width := none, till := some 2,
     validations := [fun _ _ acc => acc.length == 1, fun v _ _ => v == some ['1']], errorMessage := none }]

example : allValid ['x', '1'] exVCols [] = true := by decide
example : parseRow ['x', '1'] exVCols true = .ok (.parsed [(['a'], some ['x']), (['b'], some ['1'])]) := by decide
example : allValid ['y', '1'] exVCols [] = false := by decide
example : parseRow ['y', '1'] exVCols true = .ok (.rejected ['y', '1'] ['E', ';', 'E']) := by decide
example : allValid ['x', '2'] exVCols [] = false := by decide
example : parseRow ['x', '2'] exVCols true = .ok (.rejected ['x', '2']
    -- "Validation rule #1 for 'b' failed"
    ['V', 'a', 'l', 'i', 'd', 'a', 't', 'i', 'o', 'n', ' ', 'r', 'u', 'l', 'e', ' ', '#', '1', ' ', 'f', 'o', 'r', ' ',
     '\'', 'b', '\'', ' ', 'f', 'a', 'i', 'l', 'e', 'd']) := by decide
example : parseRow ['y', '2'] exVCols false = .ok (.parsed [(['a'], some ['y']), (['b'], some ['2'])]) := by decide
example : parseRow ['y', '2'] [] true = .error .SyntaxError := by decide
example : loadFwf [['x', '1']] [] exVCols exVCols true none = .error .SyntaxError := by decide

/-- `load_fwf` (over the lines read) raises only `SyntaxError`, and only for a missing header
layout: no line of text can make it raise -/
theorem C16_fwf_load_raises_only_without_header (lines : List Str) (hdr body ftr : List PCol)
    (validate : Bool) (ret : Option Str) :
    (∀ e, loadFwf lines hdr body ftr validate ret = .error e ↔ (e = .SyntaxError ∧ hdr = []))
    ∧ (hdr ≠ [] → ∃ st, loadFwf lines hdr body ftr validate ret = .ok st) := by
  refine ⟨fun e => ⟨loadFwf_error lines hdr body ftr validate ret e, ?_⟩,
    loadFwf_total lines hdr body ftr validate ret⟩
  rintro ⟨rfl, rfl⟩
  simp [loadFwf]

/-- **C16 (every row exactly once).**  Whenever a header layout is given, `load_fwf` returns (fix
C16-d: no line and no failing validation makes it raise) and — with the header layout for the
first line, the footer layout for the last one and the body layout in between (defaults as in
the code) — `successfully_parsed_rows` is exactly the list of the rows that non-blank lines parse
to, `failed_rows` exactly the list of the non-blank lines whose validation failed, both in file
order; every non-blank line contributes to exactly one of the two lists (so their lengths add up
to the number of non-blank lines), and a rejected entry carries its own line. -/
theorem C16_fwf_every_row_once (lines : List Str) (hdr body ftr : List PCol) (validate : Bool)
    (ret : Option Str) (hh : hdr ≠ []) :
    let body' := if body.isEmpty then hdr else body
    let ftr' := if ftr.isEmpty then body' else ftr
    ∃ st, loadFwf lines hdr body ftr validate ret = .ok st
    ∧ st.accepted = lines.zipIdx.filterMap (accOf hdr body' ftr' validate ret lines.length)
    ∧ st.rejected = lines.zipIdx.filterMap (rejOf hdr body' ftr' validate lines.length)
    ∧ (∀ x ∈ lines.zipIdx, x.1.isEmpty = false →
        (∃ r, accOf hdr body' ftr' validate ret lines.length x = some r
              ∧ rejOf hdr body' ftr' validate lines.length x = none)
        ∨ (∃ j, rejOf hdr body' ftr' validate lines.length x = some j ∧ j.row = x.1
              ∧ accOf hdr body' ftr' validate ret lines.length x = none))
    ∧ st.accepted.length + st.rejected.length = (lines.filter (fun l => !l.isEmpty)).length
    ∧ (validate = false → st.rejected = []) := by
  intro body' ftr'
  obtain ⟨st, h⟩ := loadFwf_total lines hdr body ftr validate ret hh
  refine ⟨st, h, ?_⟩
  revert body' ftr'
  intro body' ftr'
  have key : st.accepted = lines.zipIdx.filterMap (accOf hdr body' ftr' validate ret lines.length)
      ∧ st.rejected = lines.zipIdx.filterMap (rejOf hdr body' ftr' validate lines.length)
      ∧ (∀ x ∈ lines.zipIdx, x.1.isEmpty = false →
          ∃ res, parseRow x.1 (layoutAt hdr body' ftr' lines.length x.2) validate = .ok res) :=
    loadFwf_spec lines hdr body ftr validate ret st h
  clear_value body' ftr'
  obtain ⟨h1, h2, h3⟩ := key
  have hx : ∀ x ∈ lines.zipIdx, x.1.isEmpty = false →
      (∃ r, accOf hdr body' ftr' validate ret lines.length x = some r
            ∧ rejOf hdr body' ftr' validate lines.length x = none)
      ∨ (∃ j, rejOf hdr body' ftr' validate lines.length x = some j ∧ j.row = x.1
            ∧ accOf hdr body' ftr' validate ret lines.length x = none) := by
    intro x hxm hne
    obtain ⟨res, hres⟩ := h3 x hxm hne
    cases res with
    | parsed r =>
      exact .inl ⟨addOriginal ret x.1 r, by simp [accOf, hne, hres], by simp [rejOf, hne, hres]⟩
    | rejected rw' msg =>
      have := (parseRow_rejected _ _ _ _ _ hres).1
      exact .inr ⟨_, by simp only [rejOf, hne, hres, Bool.false_eq_true, if_false]; rfl, this,
        by simp [accOf, hne, hres]⟩
  refine ⟨h1, h2, hx, ?_, ?_⟩
  · rw [h1, h2, ← filter_zipIdx_length lines 0]
    apply partition_count
    intro x hxm
    constructor
    · intro hp
      have : x.1.isEmpty = true := by simpa using hp
      simp [accOf, rejOf, this]
    · intro hp
      have hne : x.1.isEmpty = false := by simpa using hp
      rcases hx x hxm hne with ⟨r, hr, hj⟩ | ⟨j, hj, _, hr⟩
      · exact .inl ⟨by simp [hr], hj⟩
      · exact .inr ⟨hr, by simp [hj]⟩
  · intro hv
    rw [h2]
    apply List.filterMap_eq_nil_iff.mpr
    intro x hxm
    unfold rejOf
    split
    · rfl
    · split
      · rename_i rw' msg hres
        have := (parseRow_rejected _ _ _ _ _ hres).2
        rw [hv] at this; cases this
      · rfl

/-- the defect repaired by fix C16-b, on the model of the fixed code: a file whose first line is
rejected and whose second line is accepted now loads, the rejected line is reported once with its
line number (before the fix `failed_rows.append(i, *parsed_row)` raised `TypeError`) -/
theorem C16_fwf_rejected_midfile :
    loadFwf ["ab".toList, "cd".toList]
      [{ name := "a".toList, offset := some 0, width := some 1, till := none,
         validations := [fun v _ _ => v == some "c".toList], errorMessage := some "E".toList }]
      [] [] true none
    = .ok { accepted := [[("a".toList, some "c".toList)]],
            rejected := [{ line := some 1, row := "ab".toList, msg := "E".toList }] } := by
  decide

/-! Non-vacuity (fixed-width) -/
def exLayout : List GCol :=
  [{ name := "id".toList, offset := 0, till := 4, size := 4, isInt := true, mapping := none },
   { name := "nm".toList, offset := 5, till := 8, size := 3, isInt := false, mapping := none }]

example : Consistent exLayout := by
  refine ⟨by intro c hc; simp [exLayout] at hc; rcases hc with h | h <;> subst h <;> rfl, ?_⟩
  simp [exLayout]

example : genRow [("id".toList, .int (-7)), ("nm".toList, .str "abcdef".toList)] exLayout ".".toList
    = .ok "-007.abc".toList := by decide

example : genRow [("id".toList, .int 5)] exLayout ".".toList = .ok "0005....".toList := by decide

example : parseRow "-007.abc".toList (exLayout.map (readBack true)) true
    = .ok (.parsed [("id".toList, some "-007".toList), ("nm".toList, some "abc".toList)]) := by decide

example : Gen.TlvPy.parseTlv "A 001xBB011hello world".toList 2 3 23
    = ([("A ".toList, 1, "x".toList), ("BB".toList, 11, "hello world".toList)], none) := by decide +kernel
example : (Gen.TlvPy.parseTlv "AA-05".toList 2 3 6).2 = some .ValueError := by decide +kernel

-- the generated writer: both width checks, both paddings, the guard (accepting, refusing, skipping)
example : Gen.TlvGenPy.GenerateTlv.entry [] 2 3 [' '] ['0'] "A".toList "hello world".toList
    = .ok "A 011hello world".toList := by decide +kernel
example : Gen.TlvGenPy.GenerateTlv.entry [] 2 3 [' '] ['0'] "ABC".toList "x".toList = .error .AssertionError := by
  decide +kernel
example : Gen.TlvGenPy.GenerateTlv.entry [] 2 1 [' '] ['0'] "A".toList "hello world".toList
    = .error .AssertionError := by decide +kernel
example : Gen.TlvGenPy.GenerateTlv.guard [] 2 3 [' '] ['0'] = .ok () := by decide +kernel
example : Gen.TlvGenPy.GenerateTlv.guard [] 2 3 [' '] ['x'] = .error .AssertionError := by decide +kernel
example : Gen.TlvGenPy.GenerateTlv.guard [] 2 3 [' '] "xy".toList = .ok () := by decide +kernel
example : Gen.TlvGenPy.generateTlv [("A".toList, "x".toList), ("BB".toList, "hello world".toList)] 2 3 [' '] [' ']
    = .ok "A   1xBB 11hello world".toList := by decide +kernel
example : Gen.TlvGenPy.generateTlv [("A".toList, "x".toList), ("BBB".toList, "y".toList)] 2 3 [' '] ['0']
    = .error .AssertionError := by decide +kernel

-- the generated fragments of the fixed-width codec: by width, by till (till wins), no position; int and text cells
example : Gen.FwfPy.ParseFwfRow.colValue "-007.abc".toList (some 5) (some 3) none = .ok (some "abc".toList) := by
  decide +kernel
example : Gen.FwfPy.ParseFwfRow.colValue "-007.abc".toList (some 0) (some 2) (some 4) = .ok (some "-007".toList) := by
  decide +kernel
example : Gen.FwfPy.ParseFwfRow.colValue "-007.abc".toList none (some 3) (some 4) = .ok none := by decide +kernel
example : Gen.FwfPy.ParseFwfRow.colValue "-007.abc".toList (some 1) none none = .ok none := by decide +kernel
example : Gen.FwfPy.GenerateFwfRow.place "........".toList (.int (-7)) 4 0 4 (some "int".toList)
    = .ok "-007....".toList := by decide +kernel
example : Gen.FwfPy.GenerateFwfRow.place "........".toList (.str "abcdef".toList) 3 5 8 none
    = .ok ".....abc".toList := by decide +kernel
example : Gen.FwfPy.GenerateFwfRow.place "........".toList (.str "a".toList) 3 5 8 (some "str".toList)
    = .ok ".....a  ".toList := by decide +kernel

end N0.C16
