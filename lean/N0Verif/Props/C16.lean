import N0Verif.Proofs.Tlv
/-!
# C16 — positional record codecs (TLV, fixed-width) round-trip, refuse, and terminate

Only property statements live here; helper lemmas are in `Proofs/Tlv.lean`, `Proofs/Fwf.lean`.
The models follow the code with the fixes C16-a (`parse_tlv` rejects a negative length) and
C16-b (`load_fwf` appends a tuple to `failed_rows`) applied.
-/
namespace N0.C16
open N0 N0.Py N0.Tlv

/-! ## TLV parser on arbitrary input: termination and tiling -/

/-- **C16 (tiling).**  For *every* function used as `int()` that rejects the empty string, every
input and all field widths: the parser ends normally or with `ValueError` (never out of fuel);
the cells of the yielded triplets concatenate to the consumed prefix of the input — to the whole
input when it ends normally; the start offsets strictly increase; every triplet starts inside the
input, exactly where the cells of its predecessors end (no gap, no overlap); and every triplet is
cut out of the input at its offset, its length being the non-negative number `int()` read. -/
theorem C16_tlv_tiles (pyInt : Str → Option Int) (hE : pyInt [] = none) (s : Str) (tl ll : Nat) :
    let r := parseTlv pyInt s tl ll
    (r.status = .done ∨ r.status = .raised .ValueError)
    ∧ r.trips.flatMap Trip.cells = s.take r.off
    ∧ (r.status = .done → r.trips.flatMap Trip.cells = s)
    ∧ List.Pairwise (· < ·) (r.trips.map Trip.off)
    ∧ (∀ pre t post, r.trips = pre ++ t :: post →
        t.off = (pre.flatMap Trip.cells).length ∧ t.off < s.length)
    ∧ (∀ t ∈ r.trips,
        t.tag = slice s t.off (t.off + tl)
        ∧ t.lenText = slice s (t.off + tl) (t.off + tl + ll)
        ∧ pyInt t.lenText = some t.len ∧ 0 ≤ t.len
        ∧ t.value = slice s (t.off + tl + ll) (t.off + tl + ll + t.len.toNat)
        ∧ t.next = t.off + tl + ll + t.len.toNat) := by
  intro r
  by_cases hs : s.isEmpty = true
  · have : r = { trips := [], off := 0, status := .done } := by
      simp [r, parseTlv, parseTlvFuel, parseWith, hs]
    rw [this]
    have : s = [] := by simpa using hs
    simp [this]
  · have hr : r = loop (step pyInt s tl ll) s.length (s.length + 1) 0 := by
      simp [r, parseTlv, parseTlvFuel, parseWith, hs]
    obtain ⟨hT, hdone, hst, hfuel⟩ := loop_spec (pyInt := pyInt) (s := s) (tl := tl) (ll := ll) hE
      (s.length + 1) 0
    rw [← hr] at hT hdone hst hfuel
    have hnf := hfuel (by omega)
    have hcat : r.trips.flatMap Trip.cells = s.take r.off := by
      rw [hT.concat]; simp [slice]
    refine ⟨?_, hcat, ?_, hT.increasing, ?_, ?_⟩
    · rcases hst with h | h | h
      · exact .inl h
      · exact .inr h
      · exact absurd h hnf
    · intro hd
      rw [hcat, List.take_of_length_le (hdone hd)]
    · intro pre t post heq
      obtain ⟨h1, _, h3⟩ := hT.split pre t post heq
      refine ⟨?_, h3⟩
      rw [h1, slice_length]; omega
    · intro t ht
      obtain ⟨w, _⟩ := hT.wellCut t ht
      refine ⟨w.tag, w.lenText, w.int, w.nonneg, ?_, w.next⟩
      rw [w.value, w.next]

/-- **C16 (termination).**  Same generality: the fuel `|s| + 1` is never exhausted, every larger
fuel gives the very same run (so the fuelled model *is* the `while` loop), and at most `|s|`
triplets are yielded. -/
theorem C16_tlv_terminates (pyInt : Str → Option Int) (hE : pyInt [] = none) (s : Str) (tl ll : Nat) :
    (parseTlv pyInt s tl ll).status ≠ .raised .OutOfFuel
    ∧ (∀ fuel, s.length + 1 ≤ fuel → parseTlvFuel pyInt s tl ll fuel = parseTlv pyInt s tl ll)
    ∧ (parseTlv pyInt s tl ll).trips.length ≤ s.length := by
  by_cases hs : s.isEmpty = true
  · simp [parseTlv, parseTlvFuel, parseWith, hs]
  · have hr : ∀ fuel, parseTlvFuel pyInt s tl ll fuel = loop (step pyInt s tl ll) s.length fuel 0 := by
      intro fuel; simp [parseTlvFuel, parseWith, hs]
    obtain ⟨hT, _, _, hfuel⟩ := loop_spec (pyInt := pyInt) (s := s) (tl := tl) (ll := ll) hE
      (s.length + 1) 0
    refine ⟨?_, ?_, ?_⟩
    · rw [parseTlv, hr]; exact hfuel (by omega)
    · intro fuel hf
      rw [parseTlv, hr, hr]
      exact loop_fuel_irrelevant hE _ _ _ (by omega) (by omega)
    · rw [parseTlv, hr]
      have := hT.count
      omega

/-- The hypothesis `pyInt [] = none` cannot be dropped: with an `int()` that reads the empty
string as `0` and both widths `0` the loop never leaves offset 0 (Python's `int('')` raises). -/
theorem C16_tlv_needs_empty_rejected :
    ∀ fuel, (parseTlvFuel (fun _ => some 0) ['a'] 0 0 fuel).status = .raised .OutOfFuel := by
  intro fuel
  have : ∀ fuel, (loop (step (fun _ => some 0) ['a'] 0 0) 1 fuel 0).status = .raised .OutOfFuel := by
    intro fuel
    induction fuel with
    | zero => rfl
    | succ f ih =>
      have hs : step (fun _ => some 0) ['a'] 0 0 0
          = .ok { tag := [], lenText := [], len := 0, value := [], off := 0, next := 0 } := by decide
      simp only [loop, hs]
      exact ih
  simpa [parseTlvFuel, parseWith] using this fuel

/-! ### the defect repaired by fix C16-a (kept as theorems about the pre-fix step) -/

/-- before the fix, `parse_tlv('AA-05')` never terminated: the iteration at offset 0 yields
`('AA', -5, '')` and returns to offset 0, so every fuel is exhausted -/
theorem C16_tlv_loop_cex :
    stepOld pyInt "AA-05".toList 2 3 0
      = .ok { tag := "AA".toList, lenText := "-05".toList, len := -5, value := [], off := 0, next := 0 }
    ∧ ∀ fuel, (parseTlvOld pyInt "AA-05".toList 2 3 fuel).status = .raised .OutOfFuel := by
  have hs : stepOld pyInt "AA-05".toList 2 3 0
      = .ok { tag := "AA".toList, lenText := "-05".toList, len := -5, value := [], off := 0, next := 0 } := by
    decide
  refine ⟨hs, ?_⟩
  intro fuel
  have : ∀ fuel, (loop (stepOld pyInt "AA-05".toList 2 3) 5 fuel 0).status = .raised .OutOfFuel := by
    intro fuel
    induction fuel with
    | zero => rfl
    | succ f ih =>
      simp only [loop, hs]
      exact ih
  simpa [parseTlvOld, parseWith] using this fuel

/-- before the fix, `parse_tlv('0-2', 1, 2)` finished normally with two triplets that overlap:
the second starts at offset 1, inside the cells of the first -/
theorem C16_tlv_overlap_cex :
    let r := parseTlvOld pyInt "0-2".toList 1 2 4
    r.status = .done
    ∧ r.trips.map Trip.view = [("0".toList, -2, []), ("-".toList, 2, [])]
    ∧ r.trips.map Trip.off = [0, 1]
    ∧ r.trips.flatMap Trip.cells ≠ "0-2".toList := by
  decide

/-- the fixed code raises `ValueError` on both inputs, before yielding anything -/
theorem C16_tlv_fixed_witnesses :
    parseTlv pyInt "AA-05".toList 2 3 = { trips := [], off := 0, status := .raised .ValueError }
    ∧ parseTlv pyInt "0-2".toList 1 2 = { trips := [], off := 0, status := .raised .ValueError } := by
  decide

/-! ## generate_tlv then parse_tlv -/

/-- **C16 (TLV round trip).**  For every `int()` that reads the zero/blank padded length field
back (`IntReads`): if every tag and every length fits its field, generation succeeds and parsing
the text returns, in order, one `(tag padded to the tag width, len(value), value)` per entry. -/
theorem C16_tlv_roundtrip (pyInt : Str → Option Int) (tl ll : Nat) (tp lp : Char)
    (hI : IntReads pyInt ll lp) (d : List (Str × Str)) (hf : Fits tl ll d) :
    ∃ g, generateTlv tl ll tp lp d = .ok g
      ∧ (parseTlv pyInt g tl ll).status = .done
      ∧ (parseTlv pyInt g tl ll).trips.map Trip.view = d.map (expected tl tp) := by
  obtain ⟨g, hg⟩ := (generateTlv_ok_iff tl ll tp lp d).mpr hf
  refine ⟨g, hg, ?_⟩
  have hlen := generated_length hg
  by_cases hs : g.isEmpty = true
  · have hg0 : g = [] := by simpa using hs
    have hd : d = [] := by
      rw [hg0] at hlen
      exact List.eq_nil_of_length_eq_zero (by simpa using hlen)
    subst hd
    simp [parseTlv, parseTlvFuel, parseWith, hs]
  · have := loop_generated (pyInt := pyInt) hI d g hg [] (g.length + 1) (by omega)
    simp only [List.nil_append, List.length_nil] at this
    simp only [parseTlv, parseTlvFuel, parseWith, hs]
    exact ⟨this.1, this.2.2⟩

/-- Python's `int()` (as modelled by `pyInt`) reads a length field padded with `'0'` or with any
character it strips -/
theorem C16_pyint_reads_padded (ll : Nat) (lp : Char) (hlp : lp = '0' ∨ isIntSpace lp = true) :
    IntReads pyInt ll lp := by
  intro n _
  unfold rjust
  rcases hlp with h | h
  · subst h; exact pyInt_zero_padded _ n
  · exact pyInt_blank_padded _ n lp h

theorem C16_pyint_rejects_empty : pyInt [] = none := pyInt_nil

/-- **C16 (TLV round trip, concrete `int()`).** -/
theorem C16_tlv_roundtrip_pyint (tl ll : Nat) (tp lp : Char) (hlp : lp = '0' ∨ isIntSpace lp = true)
    (d : List (Str × Str)) (hf : Fits tl ll d) :
    ∃ g, generateTlv tl ll tp lp d = .ok g
      ∧ (parseTlv pyInt g tl ll).status = .done
      ∧ (parseTlv pyInt g tl ll).trips.map Trip.view = d.map (expected tl tp) :=
  C16_tlv_roundtrip pyInt tl ll tp lp (C16_pyint_reads_padded ll lp hlp) d hf

/-- **C16 (refusal).**  If some tag or length does not fit, generation raises `AssertionError`
(for every padding) — and conversely any failure of the generator is that refusal. -/
theorem C16_tlv_refuses (tl ll : Nat) (tp lp : Char) (d : List (Str × Str)) :
    (¬ Fits tl ll d → generateTlv tl ll tp lp d = .error .AssertionError)
    ∧ (∀ e, generateTlv tl ll tp lp d = .error e → e = .AssertionError ∧ ¬ Fits tl ll d) := by
  constructor
  · intro hnf
    cases h : generateTlv tl ll tp lp d with
    | ok g => exact absurd ((generateTlv_ok_iff tl ll tp lp d).mp ⟨g, h⟩) hnf
    | error e => rw [generateTlv_error tl ll tp lp d e h]
  · intro e h
    refine ⟨generateTlv_error tl ll tp lp d e h, ?_⟩
    intro hf
    obtain ⟨g, hg⟩ := (generateTlv_ok_iff tl ll tp lp d).mpr hf
    rw [hg] at h; cases h

/-- open finding C16-c: with `len_padding='x'` a mapping that fits is written without refusal,
and the text does not parse back (`int('xx1')` raises) — `IntReads` fails for this padding -/
theorem C16_tlv_badpad_cex :
    Fits 2 3 [("A".toList, "x".toList)]
    ∧ generateTlv 2 3 ' ' 'x' [("A".toList, "x".toList)] = .ok "A xx1x".toList
    ∧ parseTlv pyInt "A xx1x".toList 2 3 = { trips := [], off := 0, status := .raised .ValueError }
    ∧ ¬ IntReads pyInt 3 'x' := by
  refine ⟨by intro e he; simp at he; subst he; decide, by decide, by decide, ?_⟩
  intro h
  have := h 1 (by decide)
  revert this
  decide

/-! Non-vacuity -/
example : pyInt [] = none := by decide
example : pyInt " +1_0\t".toList = some 10 := by decide
example : Fits 2 3 [("A".toList, "x".toList), ("BB".toList, "hello world".toList)] := by
  intro e he
  simp at he
  rcases he with h | h <;> subst h <;> decide
example : (parseTlv pyInt "A 001xBB011hello world".toList 2 3).trips.map Trip.view
    = [("A ".toList, 1, "x".toList), ("BB".toList, 11, "hello world".toList)] := by decide
example : (parseTlv pyInt "AA005ab".toList 2 3).status = .done := by decide
example : ¬ Fits 1 3 [("BB".toList, [])] := by
  intro h; have := h ("BB".toList, []) (by simp); revert this; decide

end N0.C16
