import N0Verif.Proofs.Files2
/-!
# C15 — text and bytes saved to a file load back unchanged under every EOL/mode

Only property statements live here; helper lemmas are in `Proofs/Files.lean`, `Proofs/FilesCodec.lean`
(codecs), `Proofs/Files2.lean` (binary `load_lines`, non-ASCII EOLs) and `Py/Lemmas.lean` (`replace_roundtrip`).
The model (`Model/Files.lean`) follows the code with the fixes `C15-close`, `C15-a`, `C15-c` and `C15-d` applied.

Vocabulary (defined in `Proofs/Files.lean`):
* `SaveMode m` — `m` is one of `t`, `b`, `wt`, `wb`, `at`; `TextMode m` — `t`, `wt`, `at`;
* `isStdEol eol` — `eol` is `"\r\n"`, `"\n"` or `"\r"`; every other EOL (LFCR, custom) takes the manual path;
* `Codec.Good c` — the assumptions on the encoding: stateless character-wise encoder, ASCII-compatible,
  `dec (enc s) = s`.  `c.encode s = c.bom ++ enc s` is Python's `s.encode(encoding)`.  It is a theorem for
  the four codec models `utf8`, `utf8sig`, `latin1`, `cp1252` (`C15_codecs_good`);
* `c.enc s = some y` — the text `s` is encodable (no `UnicodeEncodeError`) and `y` are its bytes;
* `Fresh fs p m` — the previous content of the file plays no role: a truncating mode, or `at` on a missing file;
* `EolDisjoint eol text` — the EOL is not empty and its characters other than `'\n'` do not occur in the text;
* `unlines ls` — every line followed by `'\n'`; `unlinesB e ls` — every byte line followed by the EOL bytes `e`;
* `lineOk e l` — `(l + e).find(e) == len(l)`: the first occurrence of the EOL in line + EOL is the one at the end;
* `markFirst bom ls` — the lines with the codec's signature in front of the first one;
* `Codec.Sync c lead` — the codec is self-synchronising (a character = a lead byte + non-lead bytes, no code is a
  prefix of another one); a theorem for the four codec models (`C15_codecs_sync`).

The model writes through: "after `save_file` returns the data is completely on disk" is **not**
a theorem here (see the notes; the harness observes it on the real code).
-/
namespace N0.C15
open N0 N0.Py N0.Files

/-- **C15 (bytes on disk).**  For every text, each of the modes `t b wt wb` (and `at` on a missing
file), every EOL — standard, LFCR or custom — and every codec: `save_file` succeeds as soon as the
replaced text and the EOL are encodable, the file then holds exactly
`text.replace('\n', EOL).encode(encoding)`, and no other file changes. -/
theorem C15_disk_bytes (c : Codec) (fs : FS) (p text m eol tag : Str) (y e : Bytes)
    (hm : SaveMode m) (hf : Fresh fs p m)
    (henc : c.enc (replace lf eol text) = some y) (heol : c.enc eol = some e) :
    (saveFile c fs p (.str text) m eol tag).2 = .ok ()
    ∧ (saveFile c fs p (.str text) m eol tag).1 p = c.encode (replace lf eol text)
    ∧ ∀ q, q ≠ p → (saveFile c fs p (.str text) m eol tag).1 q = fs q := by
  rw [saveFile_str c fs p text m eol tag y e hm henc heol, startContent_fresh hf]
  refine ⟨rfl, ?_, ?_⟩
  · simp [FS.write, mark, startContent_fresh hf, Codec.encode, henc]
  · intro q hq; simp [FS.write, hq]

/-- **C15 (dict payload).**  A dict is stored as the text `key=value` joined by `'\n'`. -/
theorem C15_disk_dict (c : Codec) (fs : FS) (p : Str) (kvs : List (Str × Str)) (m eol tag : Str) (y e : Bytes)
    (hm : SaveMode m) (hf : Fresh fs p m)
    (henc : c.enc (replace lf eol (join lf (kvs.map (fun kv => kv.1 ++ tag ++ kv.2)))) = some y)
    (heol : c.enc eol = some e) :
    (saveFile c fs p (.dict kvs) m eol tag).1 p
      = c.encode (replace lf eol (join lf (kvs.map (fun kv => kv.1 ++ tag ++ kv.2)))) := by
  rw [saveFile_dict]
  exact (C15_disk_bytes c fs p _ m eol tag y e hm hf henc heol).2.1

/-- **C15 (list-level core of the round trip).**  Replacing every `'\n'` by the EOL and then every
EOL by `'\n'` (Python's left-to-right `str.replace`) is the identity when EOL and text are disjoint. -/
theorem C15_replace_roundtrip (eol text : Str) (h : EolDisjoint eol text) :
    replace eol lf (replace lf eol text) = text :=
  replace_roundtrip eol text h

/-- **C15 (round trip).**  For a text whose only line separator is `'\n'` (no `'\r'`, and none of
the characters of a custom EOL), saved under any of the modes with an ASCII EOL — LF, CRLF, CR,
LFCR or custom — `load_file` with the same EOL and encoding returns the text. -/
theorem C15_roundtrip (c : Codec) (g : c.Good) (fs : FS) (p text m eol tag : Str) (y : Bytes)
    (hm : SaveMode m) (hf : Fresh fs p m) (ha : IsAscii eol) (hd : EolDisjoint eol text) (hcr : NoCR text)
    (henc : c.enc (replace lf eol text) = some y) :
    loadFile c (saveFile c fs p (.str text) m eol tag).1 p ['t'] eol = .ok (.str text) := by
  have heol := g.enc_ascii eol ha
  have hdisk := (C15_disk_bytes c fs p text m eol tag y eol hm hf henc heol).2.1
  simp only [Codec.encode, henc, Option.map_some] at hdisk
  exact filesLoad_encoded c g _ p text eol y ha hd hcr henc hdisk

/-- **C15 (round trip, standard EOL)** — the special case with no condition on the EOL. -/
theorem C15_roundtrip_std (c : Codec) (g : c.Good) (fs : FS) (p text m eol tag : Str) (y : Bytes)
    (hm : SaveMode m) (hf : Fresh fs p m) (hstd : isStdEol eol = true) (hcr : NoCR text)
    (henc : c.enc (replace lf eol text) = some y) :
    loadFile c (saveFile c fs p (.str text) m eol tag).1 p ['t'] eol = .ok (.str text) :=
  C15_roundtrip c g fs p text m eol tag y hm hf (std_ascii eol hstd) (eolDisjoint_std eol text hstd hcr) hcr henc

/-- **C15 (bytes are stored verbatim)** under every mode, EOL and codec; `at` appends. -/
theorem C15_bytes_verbatim (c : Codec) (fs : FS) (p : Str) (b : Bytes) (m eol tag : Str) (e : Bytes)
    (hm : SaveMode m) (heol : c.enc eol = some e) :
    (saveFile c fs p (.bytes b) m eol tag).2 = .ok ()
    ∧ (saveFile c fs p (.bytes b) m eol tag).1 p = some (startContent fs p m ++ b)
    ∧ ∀ q, q ≠ p → (saveFile c fs p (.bytes b) m eol tag).1 q = fs q := by
  rw [saveFile_bytes c fs p b m eol tag e hm heol]
  refine ⟨rfl, by simp [FS.write], ?_⟩
  intro q hq; simp [FS.write, hq]

/-- **C15 (bytes, truncating modes):** the file is exactly the payload -/
theorem C15_bytes_fresh (c : Codec) (fs : FS) (p : Str) (b : Bytes) (m eol tag : Str) (e : Bytes)
    (hm : SaveMode m) (hf : Fresh fs p m) (heol : c.enc eol = some e) :
    (saveFile c fs p (.bytes b) m eol tag).1 p = some b := by
  rw [(C15_bytes_verbatim c fs p b m eol tag e hm heol).2.1, startContent_fresh hf]; rfl

/-- **C15 (bytes, append):** the payload is added to the existing content -/
theorem C15_bytes_append (c : Codec) (fs : FS) (p : Str) (old b : Bytes) (eol tag : Str) (e : Bytes)
    (hold : fs p = some old) (heol : c.enc eol = some e) :
    (saveFile c fs p (.bytes b) ['a', 't'] eol tag).1 p = some (old ++ b) := by
  rw [(C15_bytes_verbatim c fs p b ['a', 't'] eol tag e (by simp [SaveMode]) heol).2.1]
  simp [startContent, hold]

/-- **C15 (bytes load verbatim):** `load_file(read_mode='b')` returns the file content, whatever
the EOL and the encoding -/
theorem C15_bytes_load (c : Codec) (fs : FS) (p eol : Str) (data : Bytes) (h : fs p = some data) :
    loadFile c fs p ['b'] eol = .ok (.bytes data) :=
  loadFile_b c fs p eol data h

/-- **C15 (lines).**  A list of lines (no line break inside a line) saved through a text mode with a
standard EOL is stored one line per EOL — the file is the encoding of the lines each followed by
the EOL, as one stream — and `load_lines` returns exactly those lines. -/
theorem C15_lines (c : Codec) (g : c.Good) (fs : FS) (p : Str) (ls : List Str) (m eol tag : Str) (y : Bytes)
    (hm : TextMode m) (hf : Fresh fs p m) (hstd : isStdEol eol = true)
    (hl : ∀ l ∈ ls, NoCR l ∧ NoLF l)
    (henc : c.enc (replace lf eol (unlines ls)) = some y) :
    (saveFile c fs p (.lines (ls.map Line.str)) m eol tag).2 = .ok ()
    ∧ (saveFile c fs p (.lines (ls.map Line.str)) m eol tag).1 p = some ((if ls.isEmpty then [] else c.bom) ++ y)
    ∧ loadLines c (saveFile c fs p (.lines (ls.map Line.str)) m eol tag).1 p ['t'] eol
        = .ok (ls.map Loaded.str) := by
  rw [saveFile_lines_text c g fs p ls m eol tag y hm hstd henc, startContent_fresh hf]
  have hdisk : (fs.write p ([] ++ (if ([] : Bytes).isEmpty && !ls.isEmpty then c.bom else []) ++ y)) p
      = some ((if ls.isEmpty then [] else c.bom) ++ y) := by
    cases ls <;> simp [FS.write]
  refine ⟨rfl, hdisk, ?_⟩
  cases hls : ls with
  | nil =>
    subst hls
    have hy : y = [] := by
      have h' : c.enc [] = some y := by simpa [unlines, replace_nil] using henc
      rw [g.enc_nil] at h'; exact (Option.some.inj h').symm
    subst hy
    have hd : (fs.write p ([] ++ (if ([] : Bytes).isEmpty && !([] : List Str).isEmpty then c.bom else []) ++ [])) p
        = some [] := by simp [FS.write]
    rw [loadLines_text c _ p eol [] [] hstd hd (decodeStream_nil c g)]
    rfl
  | cons l0 ls0 =>
    rw [← hls]
    have hne : ls.isEmpty = false := by rw [hls]; rfl
    have hdisk2 : (fs.write p ([] ++ (if ([] : Bytes).isEmpty && !ls.isEmpty then c.bom else []) ++ y)) p
        = some (c.bom ++ y) := by rw [hdisk, hne]; simp
    dsimp only
    rw [loadLines_text c _ p eol _ _ hstd hdisk2 ((decodeStream_bom_append c y).trans (g.decode_bom_enc henc))]
    rw [univNL_replace eol _ hstd (noCR_unlines ls (fun l hl' => (hl l hl').1)),
      textLines_unlines ls (fun l hl' => (hl l hl').2), List.map_map]
    congr 1
    apply List.map_congr_left
    intro l hl'
    simp only [Function.comp]
    rw [rstrip_line l (hl l hl').1 (hl l hl').2]

/-- **C15 (lines on disk).**  Under *every* mode and EOL — text layer or manual path — the file
holds the lines, each followed by the EOL, encoded as one stream: one start-of-stream mark at
most, at offset 0 (none for an empty list).  Full statement; it was refuted on the code before
fix `C15-a` (every line and every EOL carried its own mark). -/
theorem C15_lines_disk (c : Codec) (g : c.Good) (fs : FS) (p : Str) (ls : List Str) (m eol tag : Str)
    (y e : Bytes) (hm : SaveMode m) (hf : Fresh fs p m) (hl : ∀ l ∈ ls, NoLF l) (heol : c.enc eol = some e)
    (henc : c.enc (replace lf eol (unlines ls)) = some y) :
    (saveFile c fs p (.lines (ls.map Line.str)) m eol tag).2 = .ok ()
    ∧ (saveFile c fs p (.lines (ls.map Line.str)) m eol tag).1 p = some ((if ls.isEmpty then [] else c.bom) ++ y) := by
  by_cases ht : textLayer m eol = true
  · have ht' : (m = ['t'] ∨ m = ['w', 't'] ∨ m = ['a', 't']) ∧ isStdEol eol = true := by
      simpa [textLayer, Bool.and_eq_true, Bool.or_eq_true, or_assoc] using ht
    rw [saveFile_lines_text c g fs p ls m eol tag y ht'.1 ht'.2 henc, startContent_fresh hf]
    refine ⟨rfl, ?_⟩
    cases ls <;> simp [FS.write]
  · have ht' : textLayer m eol = false := by simpa using ht
    rw [saveFile_lines_bin c g fs p ls m eol tag y e hm ht' hl heol henc, startContent_fresh hf]
    refine ⟨rfl, ?_⟩
    cases ls <;> simp [FS.write]

/-- the former witness of finding C15-b on the concrete `utf-8-sig` model, after the fix:
`save_file(p, ['a'], 'wb', encoding='utf-8-sig', EOL='\n')` writes `BOM a \n` (was `BOM a BOM \n`) -/
theorem C15_lines_bom_witness_fixed :
    (saveFile utf8sig (fun _ => none) ['f'] (.lines [.str ['a']]) ['w', 'b'] ['\n'] ['=']).1 ['f']
      = some (bomUtf8 ++ ['a', '\n']) := by decide

/-- **C15 (append).**  `at` on a file with content adds the encoded text to it — one stream, no
second start-of-stream mark — under every EOL and every codec.  Full statement; it was refuted on
the code before fix `C15-a` (custom EOL + a mark-emitting codec wrote the mark in the middle). -/
theorem C15_append (c : Codec) (fs : FS) (p : Str) (old : Bytes) (text eol tag : Str) (y e : Bytes)
    (hold : fs p = some old) (hne : old ≠ []) (heol : c.enc eol = some e)
    (henc : c.enc (replace lf eol text) = some y) :
    (saveFile c fs p (.str text) ['a', 't'] eol tag).2 = .ok ()
    ∧ (saveFile c fs p (.str text) ['a', 't'] eol tag).1 p = some (old ++ y)
    ∧ ∀ q, q ≠ p → (saveFile c fs p (.str text) ['a', 't'] eol tag).1 q = fs q := by
  rw [saveFile_str c fs p text ['a', 't'] eol tag y e (by simp [SaveMode]) henc heol]
  have hs : startContent fs p ['a', 't'] = old := by simp [startContent, hold]
  have hne' : old.isEmpty = false := by cases old <;> simp_all
  refine ⟨rfl, by simp [FS.write, mark, hs, hne'], ?_⟩
  intro q hq; simp [FS.write, hq]

/-- **C15 (append, lines).**  The same for a list of lines appended to a file with content. -/
theorem C15_append_lines (c : Codec) (g : c.Good) (fs : FS) (p : Str) (old : Bytes) (ls : List Str) (eol tag : Str)
    (y e : Bytes) (hold : fs p = some old) (hne : old ≠ []) (hl : ∀ l ∈ ls, NoLF l) (heol : c.enc eol = some e)
    (henc : c.enc (replace lf eol (unlines ls)) = some y) :
    (saveFile c fs p (.lines (ls.map Line.str)) ['a', 't'] eol tag).1 p = some (old ++ y) := by
  have hs : startContent fs p ['a', 't'] = old := by simp [startContent, hold]
  have hne' : old.isEmpty = false := by cases old <;> simp_all
  by_cases hstd : isStdEol eol = true
  · rw [saveFile_lines_text c g fs p ls ['a', 't'] eol tag y (by simp [TextMode]) hstd henc, hs]
    simp [FS.write, hne']
  · have ht' : textLayer ['a', 't'] eol = false := by simp [textLayer, hstd]
    rw [saveFile_lines_bin c g fs p ls ['a', 't'] eol tag y e (by simp [SaveMode]) ht' hl heol henc, hs]
    simp [FS.write, hne']

/-- the former witness of finding C15-a on the concrete `utf-8-sig` model, after the fix:
`save_file(p,'1\n','wt',EOL='|',…); save_file(p,'2\n','at',EOL='|',encoding='utf-8-sig')` → `BOM 1|2|`
(was `BOM 1| BOM 2|`) -/
theorem C15_append_bom_witness_fixed :
    (saveFile utf8sig
      (saveFile utf8sig (fun _ => none) ['f'] (.str ['1', '\n']) ['w', 't'] ['|'] ['=']).1
      ['f'] (.str ['2', '\n']) ['a', 't'] ['|'] ['=']).1 ['f']
      = some (bomUtf8 ++ ['1', '|', '2', '|']) := by decide

/-- **C15 (append round trip).**  A text saved, a second text appended with `at`, same ASCII EOL
(standard, LFCR or custom): the file is the encoding of the concatenation as one stream and loads
back as the concatenation. -/
theorem C15_append_roundtrip (c : Codec) (g : c.Good) (fs : FS) (p s1 s2 m eol tag : Str) (y1 y2 : Bytes)
    (hm : SaveMode m) (hf : Fresh fs p m) (ha : IsAscii eol) (hd : EolDisjoint eol (s1 ++ s2))
    (h1 : NoCR s1) (h2 : NoCR s2)
    (e1 : c.enc (replace lf eol s1) = some y1) (e2 : c.enc (replace lf eol s2) = some y2) :
    (saveFile c (saveFile c fs p (.str s1) m eol tag).1 p (.str s2) ['a', 't'] eol tag).1 p
        = c.encode (replace lf eol (s1 ++ s2))
    ∧ loadFile c (saveFile c (saveFile c fs p (.str s1) m eol tag).1 p (.str s2) ['a', 't'] eol tag).1 p ['t'] eol
        = .ok (.str (s1 ++ s2)) := by
  have heol := g.enc_ascii eol ha
  have hd1 := (C15_disk_bytes c fs p s1 m eol tag y1 eol hm hf e1 heol).2.1
  simp only [Codec.encode, e1, Option.map_some] at hd1
  have e12 : c.enc (replace lf eol (s1 ++ s2)) = some (y1 ++ y2) := by
    rw [show lf = ['\n'] from rfl, replace_lf_append]; exact g.enc_append_of e1 e2
  have hdisk : (saveFile c (saveFile c fs p (.str s1) m eol tag).1 p (.str s2) ['a', 't'] eol tag).1 p
      = some (c.bom ++ (y1 ++ y2)) := by
    by_cases hemp : c.bom ++ y1 = []
    · -- nothing on disk yet: the append starts a fresh stream
      rw [saveFile_str c _ p s2 ['a', 't'] eol tag y2 eol (by simp [SaveMode]) e2 heol]
      have hs : startContent (saveFile c fs p (.str s1) m eol tag).1 p ['a', 't'] = [] := by
        simp [startContent, hd1, hemp]
      have hb : c.bom = [] := (List.append_eq_nil_iff.mp hemp).1
      have hy : y1 = [] := (List.append_eq_nil_iff.mp hemp).2
      simp [FS.write, mark, hs, hb, hy]
    · rw [(C15_append c _ p (c.bom ++ y1) s2 eol tag y2 eol hd1 hemp heol e2).2.1]
      simp
  refine ⟨by simp [hdisk, Codec.encode, e12], ?_⟩
  exact filesLoad_encoded c g _ p (s1 ++ s2) eol (y1 ++ y2) ha hd (by
    unfold NoCR at *; simp only [List.mem_append, not_or]; exact ⟨h1, h2⟩) e12 hdisk

/-! ### The concrete codecs: the assumptions discharged

`Codec.Good` is a theorem for each of the four codec models (`Proofs/FilesCodec.lean`): utf-8 and
utf-8-sig (1–4 byte forms, strict decoder), latin-1, and cp1252 — a table codec whose table is
generated from the interpreter (`Gen/Cp1252.lean`).  The statements below are the instances of
`C15_disk_bytes`, `C15_roundtrip` and `C15_lines` without the abstract hypothesis; for utf-8 and
utf-8-sig every text is encodable, so no encodability hypothesis is left either. -/

/-- **the four codecs satisfy the assumptions** -/
theorem C15_codecs_good : utf8.Good ∧ utf8sig.Good ∧ latin1.Good ∧ cp1252.Good :=
  ⟨utf8_good, utf8sig_good, latin1_good, cp1252_good⟩

/-- **C15 (bytes on disk, utf-8)**: every text, every EOL: the file is the utf-8 form of `text.replace('\n', EOL)` -/
theorem C15_disk_bytes_utf8 (fs : FS) (p text m eol tag : Str) (hm : SaveMode m) (hf : Fresh fs p m) :
    (saveFile utf8 fs p (.str text) m eol tag).2 = .ok ()
    ∧ (saveFile utf8 fs p (.str text) m eol tag).1 p = some (utf8Enc (replace lf eol text))
    ∧ ∀ q, q ≠ p → (saveFile utf8 fs p (.str text) m eol tag).1 q = fs q := by
  have h := C15_disk_bytes utf8 fs p text m eol tag (utf8Enc (replace lf eol text)) (utf8Enc eol) hm hf rfl rfl
  exact ⟨h.1, by rw [h.2.1]; rfl, h.2.2⟩

/-- **C15 (bytes on disk, utf-8-sig)**: the signature once, at offset 0, then the utf-8 form -/
theorem C15_disk_bytes_utf8sig (fs : FS) (p text m eol tag : Str) (hm : SaveMode m) (hf : Fresh fs p m) :
    (saveFile utf8sig fs p (.str text) m eol tag).2 = .ok ()
    ∧ (saveFile utf8sig fs p (.str text) m eol tag).1 p = some (bomUtf8 ++ utf8Enc (replace lf eol text))
    ∧ ∀ q, q ≠ p → (saveFile utf8sig fs p (.str text) m eol tag).1 q = fs q := by
  have h := C15_disk_bytes utf8sig fs p text m eol tag (utf8Enc (replace lf eol text)) (utf8Enc eol) hm hf rfl rfl
  exact ⟨h.1, by rw [h.2.1]; rfl, h.2.2⟩

/-- **C15 (bytes on disk, cp1252)**: an encodable text and an ASCII EOL -/
theorem C15_disk_bytes_cp1252 (fs : FS) (p text m eol tag : Str) (y : Bytes) (hm : SaveMode m) (hf : Fresh fs p m)
    (ha : IsAscii eol) (henc : cp1252.enc (replace lf eol text) = some y) :
    (saveFile cp1252 fs p (.str text) m eol tag).2 = .ok ()
    ∧ (saveFile cp1252 fs p (.str text) m eol tag).1 p = some y
    ∧ ∀ q, q ≠ p → (saveFile cp1252 fs p (.str text) m eol tag).1 q = fs q := by
  have h := C15_disk_bytes cp1252 fs p text m eol tag y eol hm hf henc (cp1252_good.enc_ascii eol ha)
  refine ⟨h.1, ?_, h.2.2⟩
  rw [h.2.1, Codec.encode, henc]; rfl

/-- **C15 (round trip, utf-8)**: no hypothesis on the codec, none on encodability -/
theorem C15_roundtrip_utf8 (fs : FS) (p text m eol tag : Str)
    (hm : SaveMode m) (hf : Fresh fs p m) (ha : IsAscii eol) (hd : EolDisjoint eol text) (hcr : NoCR text) :
    loadFile utf8 (saveFile utf8 fs p (.str text) m eol tag).1 p ['t'] eol = .ok (.str text) :=
  C15_roundtrip utf8 utf8_good fs p text m eol tag _ hm hf ha hd hcr rfl

/-- **C15 (round trip, utf-8-sig)** -/
theorem C15_roundtrip_utf8sig (fs : FS) (p text m eol tag : Str)
    (hm : SaveMode m) (hf : Fresh fs p m) (ha : IsAscii eol) (hd : EolDisjoint eol text) (hcr : NoCR text) :
    loadFile utf8sig (saveFile utf8sig fs p (.str text) m eol tag).1 p ['t'] eol = .ok (.str text) :=
  C15_roundtrip utf8sig utf8sig_good fs p text m eol tag _ hm hf ha hd hcr rfl

/-- **C15 (round trip, cp1252)**: every text the generated table can encode -/
theorem C15_roundtrip_cp1252 (fs : FS) (p text m eol tag : Str) (y : Bytes)
    (hm : SaveMode m) (hf : Fresh fs p m) (ha : IsAscii eol) (hd : EolDisjoint eol text) (hcr : NoCR text)
    (henc : cp1252.enc (replace lf eol text) = some y) :
    loadFile cp1252 (saveFile cp1252 fs p (.str text) m eol tag).1 p ['t'] eol = .ok (.str text) :=
  C15_roundtrip cp1252 cp1252_good fs p text m eol tag y hm hf ha hd hcr henc

/-- **C15 (round trip, latin-1)** -/
theorem C15_roundtrip_latin1 (fs : FS) (p text m eol tag : Str) (y : Bytes)
    (hm : SaveMode m) (hf : Fresh fs p m) (ha : IsAscii eol) (hd : EolDisjoint eol text) (hcr : NoCR text)
    (henc : latin1.enc (replace lf eol text) = some y) :
    loadFile latin1 (saveFile latin1 fs p (.str text) m eol tag).1 p ['t'] eol = .ok (.str text) :=
  C15_roundtrip latin1 latin1_good fs p text m eol tag y hm hf ha hd hcr henc

/-- **C15 (lines, utf-8)** -/
theorem C15_lines_utf8 (fs : FS) (p : Str) (ls : List Str) (m eol tag : Str)
    (hm : TextMode m) (hf : Fresh fs p m) (hstd : isStdEol eol = true) (hl : ∀ l ∈ ls, NoCR l ∧ NoLF l) :
    (saveFile utf8 fs p (.lines (ls.map Line.str)) m eol tag).2 = .ok ()
    ∧ (saveFile utf8 fs p (.lines (ls.map Line.str)) m eol tag).1 p = some (utf8Enc (replace lf eol (unlines ls)))
    ∧ loadLines utf8 (saveFile utf8 fs p (.lines (ls.map Line.str)) m eol tag).1 p ['t'] eol
        = .ok (ls.map Loaded.str) := by
  have h := C15_lines utf8 utf8_good fs p ls m eol tag _ hm hf hstd hl rfl
  refine ⟨h.1, ?_, h.2.2⟩
  rw [h.2.1]; cases ls <;> rfl

/-- **C15 (lines, utf-8-sig)**: one signature at offset 0 (none for an empty list) -/
theorem C15_lines_utf8sig (fs : FS) (p : Str) (ls : List Str) (m eol tag : Str)
    (hm : TextMode m) (hf : Fresh fs p m) (hstd : isStdEol eol = true) (hl : ∀ l ∈ ls, NoCR l ∧ NoLF l) :
    (saveFile utf8sig fs p (.lines (ls.map Line.str)) m eol tag).2 = .ok ()
    ∧ (saveFile utf8sig fs p (.lines (ls.map Line.str)) m eol tag).1 p
        = some ((if ls.isEmpty then [] else bomUtf8) ++ utf8Enc (replace lf eol (unlines ls)))
    ∧ loadLines utf8sig (saveFile utf8sig fs p (.lines (ls.map Line.str)) m eol tag).1 p ['t'] eol
        = .ok (ls.map Loaded.str) :=
  C15_lines utf8sig utf8sig_good fs p ls m eol tag _ hm hf hstd hl rfl

/-- **C15 (lines, cp1252)** -/
theorem C15_lines_cp1252 (fs : FS) (p : Str) (ls : List Str) (m eol tag : Str) (y : Bytes)
    (hm : TextMode m) (hf : Fresh fs p m) (hstd : isStdEol eol = true) (hl : ∀ l ∈ ls, NoCR l ∧ NoLF l)
    (henc : cp1252.enc (replace lf eol (unlines ls)) = some y) :
    (saveFile cp1252 fs p (.lines (ls.map Line.str)) m eol tag).2 = .ok ()
    ∧ (saveFile cp1252 fs p (.lines (ls.map Line.str)) m eol tag).1 p = some y
    ∧ loadLines cp1252 (saveFile cp1252 fs p (.lines (ls.map Line.str)) m eol tag).1 p ['t'] eol
        = .ok (ls.map Loaded.str) := by
  have h := C15_lines cp1252 cp1252_good fs p ls m eol tag y hm hf hstd hl henc
  refine ⟨h.1, ?_, h.2.2⟩
  rw [h.2.1]; cases ls <;> rfl

/-- **C15 (utf-8 decoder is strict)**: the decoder of the model accepts exactly the encoder's
output — `decode ∘ encode = id`, and nothing else decodes (overlong forms, encoded surrogates,
values above U+10FFFF, truncated sequences are `UnicodeDecodeError`). -/
theorem C15_utf8_strict (b : Bytes) (s : Str) : utf8.dec b = some s ↔ utf8.enc s = some b := by
  show utf8Dec b = some s ↔ some (utf8Enc s) = some b
  rw [utf8Dec_eq_some_iff]; simp

/-- **C15 (utf-8-sig signature)**: a fresh encoder writes it once at position 0; the reader skips
it once (a second one is the character U+FEFF); a text-mode read of a file that is a strict prefix
of the signature yields the empty text while `bytes.decode` raises. -/
theorem C15_utf8sig_bom (s : Str) :
    utf8sig.encode s = some (bomUtf8 ++ utf8Enc s)
    ∧ utf8sig.decode (bomUtf8 ++ utf8Enc s) = some s
    ∧ utf8sig.decode (bomUtf8 ++ (bomUtf8 ++ utf8Enc s)) = some (Char.ofNat 0xFEFF :: s)
    ∧ utf8sig.decodeStream [Char.ofNat 0xEF] = some [] ∧ utf8sig.decodeStream [Char.ofNat 0xEF, Char.ofNat 0xBB] = some []
    ∧ utf8sig.decode [Char.ofNat 0xEF] = none ∧ utf8sig.decode [Char.ofNat 0xEF, Char.ofNat 0xBB] = none :=
  ⟨rfl, utf8sig_decode_bom s, utf8sig_decode_bom_twice s, utf8sig_decodeStream_prefix.1, utf8sig_decodeStream_prefix.2.1,
   utf8sig_decodeStream_prefix.2.2.1, utf8sig_decodeStream_prefix.2.2.2⟩

/-! ## `load_lines` in binary mode

`load_lines(p, read_mode, encoding, EOL)` with `'b' in read_mode` — or with a non-standard EOL — returns
`data.split(EOL.encode(encoding)[len(signature):])` without the empty piece that follows the last EOL
(fixes `C15-c`, `C15-d`). -/

/-- **C15 (lines, binary round trip), any kind of line.**  A list of lines (`bytes`, `str` or other
objects; `ys` their byte forms) saved on the manual path — `b`/`wb`, or any mode with a non-standard
EOL — is stored one line per EOL (signature once, in front), and `load_lines` in binary mode (or
with the same non-standard EOL) returns exactly the byte lines — the first one behind the
signature of a BOM codec — provided every stored line satisfies `lineOk`: the first occurrence of
the EOL bytes in line + EOL is the one at the end. -/
theorem C15_lines_roundtrip_binary_gen (c : Codec) (fs : FS) (p : Str) (xs : List Line) (ys : List Bytes)
    (m eol tag rm : Str) (e : Bytes) (hm : SaveMode m) (hpath : textLayer m eol = false) (hf : Fresh fs p m)
    (hc : LinesConv c xs ys) (heol : c.enc eol = some e) (hne : e ≠ [])
    (hok : ∀ l ∈ markFirst c.bom ys, lineOk e l = true)
    (hrm : (rm.contains 'b' || !isStdEol eol) = true) :
    (saveFile c fs p (.lines xs) m eol tag).2 = .ok ()
    ∧ (saveFile c fs p (.lines xs) m eol tag).1 p = some ((if ys.isEmpty then [] else c.bom) ++ unlinesB e ys)
    ∧ loadLines c (saveFile c fs p (.lines xs) m eol tag).1 p rm eol = .ok ((markFirst c.bom ys).map Loaded.bytes) := by
  rw [files2_saveFile_lines_manual c fs p xs ys m eol tag e hm hpath hc heol, startContent_fresh hf]
  have hdisk : (fs.write p ([] ++ (if ([] : Bytes).isEmpty && !ys.isEmpty then c.bom else []) ++ unlinesB e ys)) p
      = some (unlinesB e (markFirst c.bom ys)) := by
    rw [files2_unlinesB_markFirst]; cases ys <;> simp [FS.write]
  refine ⟨rfl, ?_, ?_⟩
  · dsimp only
    rw [hdisk, files2_unlinesB_markFirst]
  · dsimp only
    rw [files2_loadLines_split c _ p rm eol _ e hrm heol hne hdisk, files2_split_unlines e hne _ hok,
      files2_dropLastEmpty_snoc]

/-- **C15 (lines, binary round trip).**  A list of `bytes` lines saved with `wb` (any of the modes on
the manual path) and a standard or custom EOL, loaded with `load_lines(…, 'b', encoding, EOL)`:
exactly the lines come back, for every codec without signature (utf-8, latin-1, cp1252). -/
theorem C15_lines_roundtrip_binary (c : Codec) (fs : FS) (p : Str) (ls : List Bytes) (m eol tag rm : Str) (e : Bytes)
    (hm : SaveMode m) (hpath : textLayer m eol = false) (hf : Fresh fs p m) (hbom : c.bom = [])
    (heol : c.enc eol = some e) (hne : e ≠ []) (hok : ∀ l ∈ ls, lineOk e l = true)
    (hrm : (rm.contains 'b' || !isStdEol eol) = true) :
    (saveFile c fs p (.lines (ls.map Line.bytes)) m eol tag).2 = .ok ()
    ∧ (saveFile c fs p (.lines (ls.map Line.bytes)) m eol tag).1 p = some (unlinesB e ls)
    ∧ loadLines c (saveFile c fs p (.lines (ls.map Line.bytes)) m eol tag).1 p rm eol = .ok (ls.map Loaded.bytes) := by
  have hmf : markFirst c.bom ls = ls := by rw [hbom]; cases ls <;> rfl
  have h := C15_lines_roundtrip_binary_gen c fs p _ ls m eol tag rm e hm hpath hf (files2_linesConv_bytes c ls) heol hne
    (by rw [hmf]; exact hok) hrm
  rw [hmf, hbom] at h
  refine ⟨h.1, ?_, h.2.2⟩
  rw [h.2.1]; cases ls <;> rfl

/-- **C15 (lines, binary round trip: the condition is exact).**  Under the hypotheses of
`C15_lines_roundtrip_binary`, `load_lines` returns the lines **iff** every line satisfies `lineOk`. -/
theorem C15_lines_roundtrip_binary_iff (c : Codec) (fs : FS) (p : Str) (ls : List Bytes) (m eol tag rm : Str) (e : Bytes)
    (hm : SaveMode m) (hpath : textLayer m eol = false) (hf : Fresh fs p m) (hbom : c.bom = [])
    (heol : c.enc eol = some e) (hne : e ≠ []) (hrm : (rm.contains 'b' || !isStdEol eol) = true) :
    loadLines c (saveFile c fs p (.lines (ls.map Line.bytes)) m eol tag).1 p rm eol = .ok (ls.map Loaded.bytes)
      ↔ ∀ l ∈ ls, lineOk e l = true := by
  constructor
  · intro h
    have hdisk : (saveFile c fs p (.lines (ls.map Line.bytes)) m eol tag).1 p = some (unlinesB e ls) := by
      rw [files2_saveFile_lines_manual c fs p _ ls m eol tag e hm hpath (files2_linesConv_bytes c ls) heol,
        startContent_fresh hf, hbom]
      simp [FS.write]
    rw [files2_loadLines_split c _ p rm eol _ e hrm heol hne hdisk] at h
    have h' := congrArg (List.map (fun v => match v with | Loaded.bytes b => b | Loaded.str x => x)) (Except.ok.inj h)
    simp only [List.map_map] at h'
    have hid : ∀ xs : List Bytes, List.map ((fun v => match v with | Loaded.bytes b => b | Loaded.str x => x) ∘ Loaded.bytes) xs = xs := by
      intro xs; induction xs with
      | nil => rfl
      | cons x xs ih => simp only [List.map_cons, Function.comp, ih]
    rw [hid, hid] at h'
    exact (files2_dropLastEmpty_split_iff e hne ls).mp h'
  · intro hok
    exact (C15_lines_roundtrip_binary c fs p ls m eol tag rm e hm hpath hf hbom heol hne hok hrm).2.2

/-- **C15 (lines, binary round trip, standard EOL).**  LF, CRLF, CR under an ASCII-compatible codec
without signature: it is enough that no line contains the first byte of the EOL (`'\n'` for LF,
`'\r'` for CR and CRLF). -/
theorem C15_lines_roundtrip_binary_std (c : Codec) (g : c.Good) (fs : FS) (p : Str) (ls : List Bytes) (m eol tag rm : Str)
    (hm : m = ['b'] ∨ m = ['w', 'b']) (hf : Fresh fs p m) (hbom : c.bom = []) (hstd : isStdEol eol = true)
    (hok : ∀ l ∈ ls, ∀ x ∈ eol.head?, x ∉ l) (hrm : rm.contains 'b' = true) :
    loadLines c (saveFile c fs p (.lines (ls.map Line.bytes)) m eol tag).1 p rm eol = .ok (ls.map Loaded.bytes) := by
  have heol := g.enc_ascii eol (std_ascii eol hstd)
  have hm' : SaveMode m := by rcases hm with rfl | rfl <;> simp [SaveMode]
  have hpath : textLayer m eol = false := by rcases hm with rfl | rfl <;> simp [textLayer]
  have hne : eol ≠ [] := (eolDisjoint_std eol [] hstd (by simp [NoCR])).1
  refine (C15_lines_roundtrip_binary c fs p ls m eol tag rm eol hm' hpath hf hbom heol hne ?_ (by rw [hrm]; rfl)).2.2
  intro l hl
  cases eol with
  | nil => exact absurd rfl hne
  | cons e0 es => exact files2_lineOk_of_head e0 es l (hok l hl e0 (by simp))

/-- **C15 (lines of `str`, binary round trip).**  A list of `str` saved in binary mode comes back as the
encoded lines. -/
theorem C15_lines_roundtrip_binary_str (c : Codec) (fs : FS) (p : Str) (ls : List Str) (f : Str → Bytes)
    (m eol tag rm : Str) (e : Bytes) (hm : SaveMode m) (hpath : textLayer m eol = false) (hf : Fresh fs p m)
    (henc : ∀ l ∈ ls, c.enc l = some (f l)) (heol : c.enc eol = some e) (hne : e ≠ [])
    (hok : ∀ l ∈ markFirst c.bom (ls.map f), lineOk e l = true)
    (hrm : (rm.contains 'b' || !isStdEol eol) = true) :
    loadLines c (saveFile c fs p (.lines (ls.map Line.str)) m eol tag).1 p rm eol
      = .ok ((markFirst c.bom (ls.map f)).map Loaded.bytes) :=
  (C15_lines_roundtrip_binary_gen c fs p _ _ m eol tag rm e hm hpath hf (files2_linesConv_str c ls f henc) heol hne hok hrm).2.2

/-- the condition on a line, as a statement about positions: no occurrence of the EOL in
line + EOL starts inside the line -/
theorem C15_lineOk_iff (e l : Bytes) :
    lineOk e l = true ↔ ∀ k, k < l.length → ¬ e <+: (l ++ e).drop k := files2_lineOk_iff e l

/-- for a self-synchronising codec the condition on the encoded line follows from the same
condition on the characters: an encoded EOL never starts in the middle of a character -/
theorem C15_lineOk_encoded (c : Codec) (g : c.Good) (lead : Char → Bool) (sy : c.Sync lead) (eol l : Str) (ye yl : Bytes)
    (he : c.enc eol = some ye) (hl : c.enc l = some yl) (h : lineOk eol l = true) : lineOk ye yl = true :=
  files2_lineOk_enc g sy eol ye he l yl hl h

/-- **the condition is needed (1)**: a line that contains the EOL is cut there -/
theorem C15_lines_binary_contains_cex :
    loadLines utf8 (saveFile utf8 (fun _ => none) ['f'] (.lines [.bytes ['a', '|', 'b']]) ['w', 'b'] ['|'] ['=']).1
      ['f'] ['b'] ['|'] = .ok [.bytes ['a'], .bytes ['b']] := by decide

/-- **the condition is needed (2)**: `'a|'` does not contain the EOL `'||'`, but its end and the
beginning of the EOL spell it: `a|||` is split as `a`, `|` -/
theorem C15_lines_binary_overlap_cex :
    lineOk ['|', '|'] ['a', '|'] = false
    ∧ loadLines utf8 (saveFile utf8 (fun _ => none) ['f'] (.lines [.bytes ['a', '|']]) ['w', 'b'] ['|', '|'] ['=']).1
      ['f'] ['b'] ['|', '|'] = .ok [.bytes ['a'], .bytes ['|']] := by decide

/-- … whereas a line ending with `'\r'` is fine under CRLF (`a\r\r\n` → `a\r`) -/
theorem C15_lines_binary_cr_crlf :
    lineOk ['\r', '\n'] ['a', '\r'] = true
    ∧ loadLines utf8 (saveFile utf8 (fun _ => none) ['f'] (.lines [.bytes ['a', '\r']]) ['w', 'b'] ['\r', '\n'] ['=']).1
      ['f'] ['b'] ['\r', '\n'] = .ok [.bytes ['a', '\r']] := by decide

/-- **a signature codec**: the file starts with the signature, binary `load_lines` returns raw bytes,
so the first line comes back behind it (`c.bom = []` is needed for "exactly the lines") -/
theorem C15_lines_binary_bom_cex :
    loadLines utf8sig (saveFile utf8sig (fun _ => none) ['f'] (.lines [.bytes ['a'], .bytes ['b']]) ['w', 'b'] ['\n'] ['=']).1
      ['f'] ['b'] ['\n'] = .ok [.bytes (bomUtf8 ++ ['a']), .bytes ['b']] := by decide

/-- an empty EOL: `save_file` writes the lines back to back, `split(b'')` raises `ValueError` -/
theorem C15_lines_binary_empty_eol :
    loadLines utf8 (saveFile utf8 (fun _ => none) ['f'] (.lines [.bytes ['a']]) ['w', 'b'] [] ['=']).1
      ['f'] ['b'] [] = .error .ValueError := by decide

/-- the former behaviour (before fix `C15-d`: `[a, b, b'']` and `[b'']`) on the repaired model: the
terminator of the last line starts no further line, an empty file has no line, a last line without
terminator and empty lines inside are kept -/
theorem C15_lines_binary_trailing_fixed :
    loadLines utf8 (FS.write (fun _ => none) ['f'] ['a', '\n', 'b', '\n']) ['f'] ['b'] ['\n'] = .ok [.bytes ['a'], .bytes ['b']]
    ∧ loadLines utf8 (FS.write (fun _ => none) ['f'] []) ['f'] ['b'] ['\n'] = .ok []
    ∧ loadLines utf8 (FS.write (fun _ => none) ['f'] ['a', '\n', 'b']) ['f'] ['b'] ['\n'] = .ok [.bytes ['a'], .bytes ['b']]
    ∧ loadLines utf8 (FS.write (fun _ => none) ['f'] ['a', '\n', '\n']) ['f'] ['b'] ['\n'] = .ok [.bytes ['a'], .bytes []] := by
  decide

/-! ## custom EOLs with non-ASCII characters

`save_file` writes the EOL in the file's encoding; since fix `C15-c` `load_file` / `load_lines` look for
exactly those bytes.  The replacement is done on *bytes*; for a self-synchronising codec it coincides
with the replacement on characters — an encoded EOL occurs in encoded text only as the encoding of an
occurrence of the EOL. -/

/-- **the four codecs are self-synchronising** -/
theorem C15_codecs_sync : utf8.Sync utf8Lead ∧ utf8sig.Sync utf8Lead ∧ latin1.Sync (fun _ => true) ∧ cp1252.Sync (fun _ => true) :=
  ⟨utf8_sync, utf8sig_sync, latin1_sync, cp1252_sync⟩

/-- **C15 (byte-level replace = character-level replace).**  `enc(s).replace(enc(old), enc(new))`
is `enc(s.replace(old, new))` for a `Good`, self-synchronising codec: an occurrence of the encoded
`old` never straddles a character boundary. -/
theorem C15_replace_encoded (c : Codec) (g : c.Good) (lead : Char → Bool) (sy : c.Sync lead) (old new s : Str) (yo yn ys : Bytes)
    (hne : old ≠ []) (ho : c.enc old = some yo) (hn : c.enc new = some yn) (hs : c.enc s = some ys) :
    c.enc (replace old new s) = some (replace yo yn ys) :=
  files2_replace_enc g sy old new yo yn hne ho hn s.length s ys (Nat.le_refl _) hs

/-- **C15 (bytes on disk, any EOL).**  The file is the encoded text in which every `'\n'` byte is
replaced by the encoded EOL (ASCII or not), behind the codec's signature. -/
theorem C15_disk_bytes_eol (c : Codec) (g : c.Good) (lead : Char → Bool) (sy : c.Sync lead) (fs : FS)
    (p text m eol tag : Str) (y0 e : Bytes) (hm : SaveMode m) (hf : Fresh fs p m)
    (henc : c.enc text = some y0) (heol : c.enc eol = some e) :
    (saveFile c fs p (.str text) m eol tag).2 = .ok ()
    ∧ (saveFile c fs p (.str text) m eol tag).1 p = some (c.bom ++ replace lf e y0) := by
  have hlf : c.enc lf = some lf := g.ascii '\n' (by decide)
  have hr := C15_replace_encoded c g lead sy lf eol text lf e y0 (by simp [lf]) hlf heol henc
  have h := C15_disk_bytes c fs p text m eol tag _ e hm hf hr heol
  refine ⟨h.1, ?_⟩
  rw [h.2.1, Codec.encode, hr]; rfl

/-- **C15 (what `load_file` returns, custom EOL, ASCII or not).**  For a `Good`, self-synchronising
codec, an encodable non-standard EOL whose first byte is not a byte of the codec's signature:
`load_file` of the saved file returns `text.replace('\n', EOL).replace(EOL, '\n')` — the byte-level
search finds exactly the character-level occurrences of the EOL. -/
theorem C15_load_eol (c : Codec) (g : c.Good) (lead : Char → Bool) (sy : c.Sync lead) (fs : FS)
    (p text m eol tag : Str) (y e : Bytes) (hm : SaveMode m) (hf : Fresh fs p m)
    (hstd : isStdEol eol = false) (hne : eol ≠ []) (heol : c.enc eol = some e)
    (hb : ∀ x ∈ c.bom, e.head? ≠ some x) (henc : c.enc (replace lf eol text) = some y) :
    loadFile c (saveFile c fs p (.str text) m eol tag).1 p ['t'] eol
      = .ok (.str (replace eol lf (replace lf eol text))) := by
  have hdisk := (C15_disk_bytes c fs p text m eol tag y e hm hf henc heol).2.1
  simp only [Codec.encode, henc, Option.map_some] at hdisk
  exact files2_load_custom c g sy _ p _ eol y e hstd hne heol hb henc hdisk

/-- **C15 (round trip ⇔ character-level condition)**: under the hypotheses of `C15_load_eol` the
text loads back iff putting the EOL in and taking it out again, on *characters*, is the identity. -/
theorem C15_roundtrip_eol_iff (c : Codec) (g : c.Good) (lead : Char → Bool) (sy : c.Sync lead) (fs : FS)
    (p text m eol tag : Str) (y e : Bytes) (hm : SaveMode m) (hf : Fresh fs p m)
    (hstd : isStdEol eol = false) (hne : eol ≠ []) (heol : c.enc eol = some e)
    (hb : ∀ x ∈ c.bom, e.head? ≠ some x) (henc : c.enc (replace lf eol text) = some y) :
    loadFile c (saveFile c fs p (.str text) m eol tag).1 p ['t'] eol = .ok (.str text)
      ↔ replace eol lf (replace lf eol text) = text := by
  rw [C15_load_eol c g lead sy fs p text m eol tag y e hm hf hstd hne heol hb henc]
  constructor
  · intro h; injection h with h; injection h
  · intro h; rw [h]

/-- **C15 (round trip, every EOL — ASCII or not).**  Text without `'\r'`, an encodable EOL none of
whose characters other than `'\n'` occurs in the text and whose first byte is not a byte of the
signature: `load_file` with the same EOL and encoding returns the text. -/
theorem C15_roundtrip_eol (c : Codec) (g : c.Good) (lead : Char → Bool) (sy : c.Sync lead) (fs : FS)
    (p text m eol tag : Str) (y e : Bytes) (hm : SaveMode m) (hf : Fresh fs p m)
    (hd : EolDisjoint eol text) (hcr : NoCR text) (heol : c.enc eol = some e)
    (hb : ∀ x ∈ c.bom, e.head? ≠ some x) (henc : c.enc (replace lf eol text) = some y) :
    loadFile c (saveFile c fs p (.str text) m eol tag).1 p ['t'] eol = .ok (.str text) := by
  by_cases hstd : isStdEol eol = true
  · exact C15_roundtrip_std c g fs p text m eol tag y hm hf hstd hcr henc
  · rw [C15_load_eol c g lead sy fs p text m eol tag y e hm hf (by simpa using hstd) hd.1 heol hb henc,
      show lf = ['\n'] from rfl, replace_roundtrip eol text hd]

/-- **C15 (round trip, utf-8, every EOL)**: no encodability hypothesis, no condition on bytes -/
theorem C15_roundtrip_eol_utf8 (fs : FS) (p text m eol tag : Str)
    (hm : SaveMode m) (hf : Fresh fs p m) (hd : EolDisjoint eol text) (hcr : NoCR text) :
    loadFile utf8 (saveFile utf8 fs p (.str text) m eol tag).1 p ['t'] eol = .ok (.str text) :=
  C15_roundtrip_eol utf8 utf8_good utf8Lead utf8_sync fs p text m eol tag _ _ hm hf hd hcr rfl
    (by intro x hx; simp [utf8] at hx) rfl

/-- **C15 (round trip, utf-8-sig, every EOL)**: the only extra condition is that the EOL does not
begin with U+FEFF, the character whose encoding is the signature -/
theorem C15_roundtrip_eol_utf8sig (fs : FS) (p text m eol tag : Str)
    (hm : SaveMode m) (hf : Fresh fs p m) (hd : EolDisjoint eol text) (hcr : NoCR text)
    (hb : eol.head? ≠ some (Char.ofNat 0xFEFF)) :
    loadFile utf8sig (saveFile utf8sig fs p (.str text) m eol tag).1 p ['t'] eol = .ok (.str text) := by
  by_cases hstd : isStdEol eol = true
  · exact C15_roundtrip_std utf8sig utf8sig_good fs p text m eol tag _ hm hf hstd hcr rfl
  · have hdisk := (C15_disk_bytes_utf8sig fs p text m eol tag hm hf).2.1
    rw [files2_load_custom_utf8sig _ p _ eol (by simpa using hstd) hd.1 hb hdisk,
      show lf = ['\n'] from rfl, replace_roundtrip eol text hd]

/-- **C15 (round trip, latin-1, every encodable EOL)** -/
theorem C15_roundtrip_eol_latin1 (fs : FS) (p text m eol tag : Str) (y e : Bytes)
    (hm : SaveMode m) (hf : Fresh fs p m) (hd : EolDisjoint eol text) (hcr : NoCR text)
    (heol : latin1.enc eol = some e) (henc : latin1.enc (replace lf eol text) = some y) :
    loadFile latin1 (saveFile latin1 fs p (.str text) m eol tag).1 p ['t'] eol = .ok (.str text) :=
  C15_roundtrip_eol latin1 latin1_good _ latin1_sync fs p text m eol tag y e hm hf hd hcr heol
    (by intro x hx; simp [latin1] at hx) henc

/-- **C15 (round trip, cp1252, every encodable EOL)** — e.g. `'€'`, `'§'` -/
theorem C15_roundtrip_eol_cp1252 (fs : FS) (p text m eol tag : Str) (y e : Bytes)
    (hm : SaveMode m) (hf : Fresh fs p m) (hd : EolDisjoint eol text) (hcr : NoCR text)
    (heol : cp1252.enc eol = some e) (henc : cp1252.enc (replace lf eol text) = some y) :
    loadFile cp1252 (saveFile cp1252 fs p (.str text) m eol tag).1 p ['t'] eol = .ok (.str text) :=
  C15_roundtrip_eol cp1252 cp1252_good _ cp1252_sync fs p text m eol tag y e hm hf hd hcr heol
    (by intro x hx; simp [cp1252, tableCodec] at hx) henc

/-- **C15 (append round trip, every EOL — ASCII or not).**  A text saved, a second one appended with `at`,
same encodable EOL: one stream on disk, and it loads back as the concatenation. -/
theorem C15_append_roundtrip_eol (c : Codec) (g : c.Good) (lead : Char → Bool) (sy : c.Sync lead) (fs : FS)
    (p s1 s2 m eol tag : Str) (y1 y2 e : Bytes) (hm : SaveMode m) (hf : Fresh fs p m)
    (hd : EolDisjoint eol (s1 ++ s2)) (h1 : NoCR s1) (h2 : NoCR s2) (heol : c.enc eol = some e)
    (hb : ∀ x ∈ c.bom, e.head? ≠ some x)
    (e1 : c.enc (replace lf eol s1) = some y1) (e2 : c.enc (replace lf eol s2) = some y2) :
    (saveFile c (saveFile c fs p (.str s1) m eol tag).1 p (.str s2) ['a', 't'] eol tag).1 p
        = c.encode (replace lf eol (s1 ++ s2))
    ∧ loadFile c (saveFile c (saveFile c fs p (.str s1) m eol tag).1 p (.str s2) ['a', 't'] eol tag).1 p ['t'] eol
        = .ok (.str (s1 ++ s2)) := by
  have hd1 := (C15_disk_bytes c fs p s1 m eol tag y1 e hm hf e1 heol).2.1
  simp only [Codec.encode, e1, Option.map_some] at hd1
  have e12 : c.enc (replace lf eol (s1 ++ s2)) = some (y1 ++ y2) := by
    rw [show lf = ['\n'] from rfl, replace_lf_append]; exact g.enc_append_of e1 e2
  have hdisk : (saveFile c (saveFile c fs p (.str s1) m eol tag).1 p (.str s2) ['a', 't'] eol tag).1 p
      = some (c.bom ++ (y1 ++ y2)) := by
    by_cases hemp : c.bom ++ y1 = []
    · rw [saveFile_str c _ p s2 ['a', 't'] eol tag y2 e (by simp [SaveMode]) e2 heol]
      have hs : startContent (saveFile c fs p (.str s1) m eol tag).1 p ['a', 't'] = [] := by
        simp [startContent, hd1, hemp]
      have hb' : c.bom = [] := (List.append_eq_nil_iff.mp hemp).1
      have hy : y1 = [] := (List.append_eq_nil_iff.mp hemp).2
      simp [FS.write, mark, hs, hb', hy]
    · rw [(C15_append c _ p (c.bom ++ y1) s2 eol tag y2 e hd1 hemp heol e2).2.1]
      simp
  refine ⟨by simp [hdisk, Codec.encode, e12], ?_⟩
  have hcr : NoCR (s1 ++ s2) := by
    unfold NoCR at *; simp only [List.mem_append, not_or]; exact ⟨h1, h2⟩
  by_cases hstd : isStdEol eol = true
  · exact filesLoad_encoded c g _ p (s1 ++ s2) eol (y1 ++ y2) (std_ascii eol hstd) hd hcr e12 hdisk
  · rw [files2_load_custom c g sy _ p _ eol (y1 ++ y2) e (by simpa using hstd) hd.1 heol hb e12 hdisk,
      show lf = ['\n'] from rfl, replace_roundtrip eol _ hd]

/-- **an EOL the encoding cannot represent**: `save_file` raises (`UnicodeEncodeError`, a `ValueError`)
before the file is opened — even for a bytes payload — and, since fix `C15-c`, so do `load_file` and
`load_lines` -/
theorem C15_eol_unencodable (c : Codec) (fs : FS) (p text m eol tag rm : Str) (y : Bytes) (hm : SaveMode m)
    (hstd : isStdEol eol = false) (henc : c.enc (replace lf eol text) = some y) (heol : c.enc eol = none) :
    saveFile c fs p (.str text) m eol tag = (fs, .error .ValueError)
    ∧ loadLines c fs p rm eol = .error .ValueError := by
  constructor
  · have hb : ∀ mode2 mode3, setB mode2 = .ok mode3 →
        saveBinary c fs p (.s text) mode2 eol = (fs, .error .ValueError) := by
      intro mode2 mode3 hs
      simp [saveBinary, hs, henc, Buf.isBytes, heol]
    rcases hm with rfl | rfl | rfl | rfl | rfl
    · have hn : normMode ['t'] false = .ok ['w', 't'] := by decide
      simp only [saveFile, Payload.isBytes, hn, toBuf, hstd, Bool.not_false, Bool.or_true, if_true]
      exact hb _ ['w', 'b'] (by decide)
    · have hn : normMode ['b'] false = .ok ['w', 'b'] := by decide
      simp only [saveFile, Payload.isBytes, hn, toBuf, hstd, Bool.not_false, Bool.or_true, if_true]
      exact hb _ ['w', 'b'] (by decide)
    · have hn : normMode ['w', 't'] false = .ok ['w', 't'] := by decide
      simp only [saveFile, Payload.isBytes, hn, toBuf, hstd, Bool.not_false, Bool.or_true, if_true]
      exact hb _ ['w', 'b'] (by decide)
    · have hn : normMode ['w', 'b'] false = .ok ['w', 'b'] := by decide
      simp only [saveFile, Payload.isBytes, hn, toBuf, hstd, Bool.not_false, Bool.or_true, if_true]
      exact hb _ ['w', 'b'] (by decide)
    · have hn : normMode ['a', 't'] false = .ok ['a', 't'] := by decide
      simp only [saveFile, Payload.isBytes, hn, toBuf, hstd, Bool.not_false, Bool.or_true, if_true]
      exact hb _ ['a', 'b'] (by decide)
  · simp [loadLines, hstd, heol]

/-- `'→'` has no cp1252 / latin-1 form: `load_file` raises as well -/
theorem C15_eol_unencodable_load :
    cp1252.enc ['→'] = none ∧ latin1.enc ['→'] = none
    ∧ loadFile cp1252 (FS.write (fun _ => none) ['f'] ['a']) ['f'] ['t'] ['→'] = .error .ValueError
    ∧ loadFile latin1 (FS.write (fun _ => none) ['f'] ['a']) ['f'] ['t'] ['→'] = .error .ValueError := by
  decide +kernel

/-- **the character-level condition is needed**: EOL `'§§'`, text `'§\n'` — the EOL's character occurs
in the text; `§§§` is read back as `'\n§'` (first match wins), in every encoding -/
theorem C15_eol_overlap_cex :
    loadFile utf8 (saveFile utf8 (fun _ => none) ['f'] (.str ['§', '\n']) ['w', 't'] ['§', '§'] ['=']).1 ['f'] ['t'] ['§', '§']
      = .ok (.str ['\n', '§'])
    ∧ loadFile latin1 (saveFile latin1 (fun _ => none) ['f'] (.str ['§', '\n']) ['w', 't'] ['§', '§'] ['=']).1 ['f'] ['t'] ['§', '§']
      = .ok (.str ['\n', '§']) := by decide

/-- **the condition on the signature is needed**: with utf-8-sig and the EOL U+FEFF the signature itself
is an occurrence of the encoded EOL: `'a\n'` is stored as `BOM a BOM` and read back as `'\na\n'` -/
theorem C15_eol_bom_cex :
    (saveFile utf8sig (fun _ => none) ['f'] (.str ['a', '\n']) ['w', 't'] [Char.ofNat 0xFEFF] ['=']).1 ['f']
      = some (bomUtf8 ++ ['a'] ++ bomUtf8)
    ∧ loadFile utf8sig (saveFile utf8sig (fun _ => none) ['f'] (.str ['a', '\n']) ['w', 't'] [Char.ofNat 0xFEFF] ['=']).1
        ['f'] ['t'] [Char.ofNat 0xFEFF] = .ok (.str ['\n', 'a', '\n']) := by decide

/-- the former witness of finding C15-c, after the fix: `save_file(p, 'a\nb\n', EOL='§', encoding='latin-1')`
stores `a A7 b A7`; `load_file` returns the text (was `'a§b§'`: the loader looked for `C2 A7`), binary
`load_lines` the two lines (was one line, the whole file); the same for cp1252 and `'€'` (byte `80`) -/
theorem C15_eol_latin1_witness_fixed :
    (saveFile latin1 (fun _ => none) ['f'] (.str ['a', '\n', 'b', '\n']) ['w', 't'] ['§'] ['=']).1 ['f']
      = some ['a', Char.ofNat 0xA7, 'b', Char.ofNat 0xA7]
    ∧ loadFile latin1 (saveFile latin1 (fun _ => none) ['f'] (.str ['a', '\n', 'b', '\n']) ['w', 't'] ['§'] ['=']).1
        ['f'] ['t'] ['§'] = .ok (.str ['a', '\n', 'b', '\n'])
    ∧ loadLines latin1 (saveFile latin1 (fun _ => none) ['f'] (.str ['a', '\n', 'b', '\n']) ['w', 't'] ['§'] ['=']).1
        ['f'] ['b'] ['§'] = .ok [.bytes ['a'], .bytes ['b']]
    ∧ loadFile cp1252 (saveFile cp1252 (fun _ => none) ['f'] (.str ['a', '\n']) ['w', 't'] ['€'] ['=']).1
        ['f'] ['t'] ['€'] = .ok (.str ['a', '\n']) := by decide +kernel

/-! ### Non-vacuity: concrete inhabitants of the hypotheses, exercising every path -/

example : latin1.Good := latin1_good
example : asciiSig.Good := asciiSig_good
example : SaveMode ['a', 't'] ∧ TextMode ['t'] := by simp [SaveMode, TextMode]
example : EolDisjoint ['\n', '\r'] ['a', '\n', '\n', 'b'] ∧ EolDisjoint ['|', '~', '|'] ['a', '\n'] := by
  unfold EolDisjoint; decide
example : IsAscii ['|', '~', '|'] := by unfold IsAscii; decide
-- text layer, CRLF, mark written once and skipped on read; leading / consecutive / trailing newlines
example : loadFile asciiSig (saveFile asciiSig (fun _ => none) ['f'] (.str ['\n', 'a', '\n', '\n', 'b', '\n']) ['t']
    ['\r', '\n'] ['=']).1 ['f'] ['t'] ['\r', '\n'] = .ok (.str ['\n', 'a', '\n', '\n', 'b', '\n']) := by decide
-- manual path, custom EOL, latin-1 non-ASCII text
example : loadFile latin1 (saveFile latin1 (fun _ => none) ['f'] (.str ['é', '\n', 'ÿ']) ['w', 't']
    ['|', '~', '|'] ['=']).1 ['f'] ['t'] ['|', '~', '|'] = .ok (.str ['é', '\n', 'ÿ']) := by decide
-- LFCR
example : (saveFile latin1 (fun _ => none) ['f'] (.str ['a', '\n']) ['b'] ['\n', '\r'] ['=']).1 ['f']
    = some ['a', '\n', '\r'] := by decide
-- lines, CR, text layer; append keeps one stream
example : loadLines asciiSig (saveFile asciiSig (fun _ => none) ['f'] (.lines [.str ['a'], .str [], .str ['b', ' ']])
    ['w', 't'] ['\r'] ['=']).1 ['f'] ['t'] ['\r'] = .ok [.str ['a'], .str [], .str ['b', ' ']] := by decide
example : (saveFile asciiSig (saveFile asciiSig (fun _ => none) ['f'] (.str ['1', '\n']) ['w', 't'] ['\n'] ['=']).1
    ['f'] (.str ['2']) ['a', 't'] ['\n'] ['=']).1 ['f'] = some (bomUtf8 ++ ['1', '\n', '2']) := by decide
-- bytes under a text mode
example : (saveFile utf8sig (fun _ => none) ['f'] (.bytes ['\r', '\n', 'x']) ['t'] ['|'] ['=']).1 ['f']
    = some ['\r', '\n', 'x'] := by decide

-- the concrete codecs: 1-4 byte forms through the manual path (custom EOL) and the text layer
example : loadFile utf8sig (saveFile utf8sig (fun _ => none) ['f'] (.str ['é', '\n', '€', '😀', '\n']) ['w', 't']
    ['|', '~', '|'] ['=']).1 ['f'] ['t'] ['|', '~', '|'] = .ok (.str ['é', '\n', '€', '😀', '\n']) := by decide
example : (saveFile utf8 (fun _ => none) ['f'] (.str ['é', '\n']) ['t'] ['\r', '\n'] ['=']).1 ['f']
    = some [Char.ofNat 0xC3, Char.ofNat 0xA9, '\r', '\n'] := by decide
-- cp1252 through the generated table: U+20AC is byte 0x80, U+0081 has no byte, byte 0x81 no character
example : cp1252.enc ['€', 'a', 'ÿ'] = some [Char.ofNat 0x80, 'a', 'ÿ'] ∧ cp1252.enc [Char.ofNat 0x81] = none
    ∧ cp1252.dec [Char.ofNat 0x80] = some ['€'] ∧ cp1252.dec [Char.ofNat 0x81] = none := by decide +kernel
example : loadFile cp1252 (saveFile cp1252 (fun _ => none) ['f'] (.str ['€', '\n', 'é']) ['a', 't'] ['\n', '\r'] ['=']).1
    ['f'] ['t'] ['\n', '\r'] = .ok (.str ['€', '\n', 'é']) := by decide +kernel
-- lines and append on the manual path with a signature codec (the former findings): one signature
example : (saveFile utf8sig (fun _ => none) ['f'] (.lines [.str ['a'], .bytes ['b'], .other ['7']]) ['b'] [';'] ['=']).1 ['f']
    = some (bomUtf8 ++ ['a', ';', 'b', ';', '7', ';']) := by decide
example : (saveFile utf8sig (FS.write (fun _ => none) ['f'] ['x']) ['f'] (.lines [.str ['a']]) ['a', 't'] [';'] ['=']).1 ['f']
    = some ['x', 'a', ';'] := by decide

-- binary load_lines: lineOk inhabitants (LF, a multi-byte EOL, a line ending with a prefix of CRLF)
example : lineOk ['\n'] ['a', 'b'] = true ∧ lineOk ['<', '>'] ['a', '<', 'b', '>'] = true
    ∧ lineOk ['\r', '\n'] ['\n', '\r'] = true := by decide
example : LinesConv utf8 [.bytes ['a'], .str ['é'], .other ['7']] [['a'], [Char.ofNat 0xC3, Char.ofNat 0xA9], ['7']] := by
  simp only [LinesConv, convLine]; decide
example : loadLines latin1 (saveFile latin1 (fun _ => none) ['f'] (.lines [.bytes ['a'], .bytes [], .bytes ['b', '\n']])
    ['w', 'b'] ['\r', '\n'] ['=']).1 ['f'] ['b'] ['\r', '\n'] = .ok [.bytes ['a'], .bytes [], .bytes ['b', '\n']] := by decide
example : loadLines utf8 (saveFile utf8 (fun _ => none) ['f'] (.lines [.str ['é'], .str ['a']])
    ['a', 't'] ['§', '\n'] ['=']).1 ['f'] ['t'] ['§', '\n']
    = .ok [.bytes [Char.ofNat 0xC3, Char.ofNat 0xA9], .bytes ['a']] := by decide
-- non-ASCII EOLs: 2- and 3-byte utf-8 EOL sharing bytes with the text ('©' = C2 A9 next to '§' = C2 A7; '→\n')
example : EolDisjoint ['§'] ['©', '\n', 'é'] ∧ EolDisjoint ['→', '\n'] ['a', '\n', '\n'] := by
  unfold EolDisjoint; decide
example : loadFile utf8 (saveFile utf8 (fun _ => none) ['f'] (.str ['©', '\n', 'é']) ['w', 't'] ['§'] ['=']).1
    ['f'] ['t'] ['§'] = .ok (.str ['©', '\n', 'é']) := by decide
example : loadFile utf8sig (saveFile utf8sig (fun _ => none) ['f'] (.str ['a', '\n', '\n']) ['t'] ['→', '\n'] ['=']).1
    ['f'] ['t'] ['→', '\n'] = .ok (.str ['a', '\n', '\n']) := by decide
example : cp1252.enc ['€', '§'] = some [Char.ofNat 0x80, Char.ofNat 0xA7] := by decide +kernel
-- append with a non-ASCII EOL (cp1252 '€' = byte 80); the hypotheses on the signature for utf-8-sig
example : loadFile cp1252 (saveFile cp1252 (saveFile cp1252 (fun _ => none) ['f'] (.str ['a', '\n']) ['w', 't'] ['€'] ['=']).1
    ['f'] (.str ['é', '\n']) ['a', 't'] ['€'] ['=']).1 ['f'] ['t'] ['€'] = .ok (.str ['a', '\n', 'é', '\n']) := by decide +kernel
example : ∀ x ∈ utf8sig.bom, (utf8Enc ['§']).head? ≠ some x := by decide
example : (['→', '\n'] : Str).head? ≠ some (Char.ofNat 0xFEFF) := by decide
example : utf8sig.Sync utf8Lead ∧ cp1252.Sync (fun _ => true) := ⟨utf8sig_sync, cp1252_sync⟩

end N0.C15
