import N0Verif.Proofs.FilesCodec
/-!
# C15 — text and bytes saved to a file load back unchanged under every EOL/mode

Only property statements live here; helper lemmas are in `Proofs/Files.lean`, `Proofs/FilesCodec.lean`
(codecs) and `Py/Lemmas.lean` (`replace_roundtrip`).  The model (`Model/Files.lean`) follows the code
with the fixes `C15-close` and `C15-a` applied.

Vocabulary (defined in `Proofs/Files.lean`):
* `SaveMode m` — `m` is one of `t`, `b`, `wt`, `wb`, `at`; `TextMode m` — `t`, `wt`, `at`;
* `isStdEol eol` — `eol` is `"\r\n"`, `"\n"` or `"\r"`; every other EOL (LFCR, custom) takes the manual path;
* `Codec.Good c` — the assumptions on the encoding: stateless character-wise encoder, ASCII-compatible,
  `dec (enc s) = s`.  `c.encode s = c.bom ++ enc s` is Python's `s.encode(encoding)`.  It is a theorem for
  the four codec models `utf8`, `utf8sig`, `latin1`, `cp1252` (`C15_codecs_good`);
* `c.enc s = some y` — the text `s` is encodable (no `UnicodeEncodeError`) and `y` are its bytes;
* `Fresh fs p m` — the previous content of the file plays no role: a truncating mode, or `at` on a missing file;
* `EolDisjoint eol text` — the EOL is not empty and its characters other than `'\n'` do not occur in the text;
* `unlines ls` — every line followed by `'\n'`.

The model writes through: "after `save_file` returns the data is completely on disk" is **not**
a theorem here (see the notes; the harness observes it on the real code).
-/
namespace N0.C15
open N0 N0.Py N0.Files

/-- **C15 (bytes on disk).**  For every text, each of the modes `t b wt wb` (and `at` on a missing
file), every EOL — standard, LFCR or custom — and every codec: `save_file` succeeds as soon as the
replaced text and the EOL are encodable, the file then holds exactly
`text.replace('\n', EOL).encode(encoding)`, and no other file changes. -/
theorem C15_disk_bytes (c : Codec) (fs : FS) (p text m eol tag : Str) (y e : Bytes)
    (hm : SaveMode m) (hf : Fresh fs p m)
    (henc : c.enc (replace lf eol text) = some y) (heol : c.enc eol = some e) :
    (saveFile c fs p (.str text) m eol tag).2 = .ok ()
    ∧ (saveFile c fs p (.str text) m eol tag).1 p = c.encode (replace lf eol text)
    ∧ ∀ q, q ≠ p → (saveFile c fs p (.str text) m eol tag).1 q = fs q := by
  rw [saveFile_str c fs p text m eol tag y e hm henc heol, startContent_fresh hf]
  refine ⟨rfl, ?_, ?_⟩
  · simp [FS.write, mark, startContent_fresh hf, Codec.encode, henc]
  · intro q hq; simp [FS.write, hq]

/-- **C15 (dict payload).**  A dict is stored as the text `key=value` joined by `'\n'`. -/
theorem C15_disk_dict (c : Codec) (fs : FS) (p : Str) (kvs : List (Str × Str)) (m eol tag : Str) (y e : Bytes)
    (hm : SaveMode m) (hf : Fresh fs p m)
    (henc : c.enc (replace lf eol (join lf (kvs.map (fun kv => kv.1 ++ tag ++ kv.2)))) = some y)
    (heol : c.enc eol = some e) :
    (saveFile c fs p (.dict kvs) m eol tag).1 p
      = c.encode (replace lf eol (join lf (kvs.map (fun kv => kv.1 ++ tag ++ kv.2)))) := by
  rw [saveFile_dict]
  exact (C15_disk_bytes c fs p _ m eol tag y e hm hf henc heol).2.1

/-- **C15 (list-level core of the round trip).**  Replacing every `'\n'` by the EOL and then every
EOL by `'\n'` (Python's left-to-right `str.replace`) is the identity when EOL and text are disjoint. -/
theorem C15_replace_roundtrip (eol text : Str) (h : EolDisjoint eol text) :
    replace eol lf (replace lf eol text) = text :=
  replace_roundtrip eol text h

/-- **C15 (round trip).**  For a text whose only line separator is `'\n'` (no `'\r'`, and none of
the characters of a custom EOL), saved under any of the modes with an ASCII EOL — LF, CRLF, CR,
LFCR or custom — `load_file` with the same EOL and encoding returns the text. -/
theorem C15_roundtrip (c : Codec) (g : c.Good) (fs : FS) (p text m eol tag : Str) (y : Bytes)
    (hm : SaveMode m) (hf : Fresh fs p m) (ha : IsAscii eol) (hd : EolDisjoint eol text) (hcr : NoCR text)
    (henc : c.enc (replace lf eol text) = some y) :
    loadFile c (saveFile c fs p (.str text) m eol tag).1 p ['t'] eol = .ok (.str text) := by
  have heol := g.enc_ascii eol ha
  have hdisk := (C15_disk_bytes c fs p text m eol tag y eol hm hf henc heol).2.1
  simp only [Codec.encode, henc, Option.map_some] at hdisk
  exact filesLoad_encoded c g _ p text eol y ha hd hcr henc hdisk

/-- **C15 (round trip, standard EOL)** — the special case with no condition on the EOL. -/
theorem C15_roundtrip_std (c : Codec) (g : c.Good) (fs : FS) (p text m eol tag : Str) (y : Bytes)
    (hm : SaveMode m) (hf : Fresh fs p m) (hstd : isStdEol eol = true) (hcr : NoCR text)
    (henc : c.enc (replace lf eol text) = some y) :
    loadFile c (saveFile c fs p (.str text) m eol tag).1 p ['t'] eol = .ok (.str text) :=
  C15_roundtrip c g fs p text m eol tag y hm hf (std_ascii eol hstd) (eolDisjoint_std eol text hstd hcr) hcr henc

/-- **C15 (bytes are stored verbatim)** under every mode, EOL and codec; `at` appends. -/
theorem C15_bytes_verbatim (c : Codec) (fs : FS) (p : Str) (b : Bytes) (m eol tag : Str) (e : Bytes)
    (hm : SaveMode m) (heol : c.enc eol = some e) :
    (saveFile c fs p (.bytes b) m eol tag).2 = .ok ()
    ∧ (saveFile c fs p (.bytes b) m eol tag).1 p = some (startContent fs p m ++ b)
    ∧ ∀ q, q ≠ p → (saveFile c fs p (.bytes b) m eol tag).1 q = fs q := by
  rw [saveFile_bytes c fs p b m eol tag e hm heol]
  refine ⟨rfl, by simp [FS.write], ?_⟩
  intro q hq; simp [FS.write, hq]

/-- **C15 (bytes, truncating modes):** the file is exactly the payload -/
theorem C15_bytes_fresh (c : Codec) (fs : FS) (p : Str) (b : Bytes) (m eol tag : Str) (e : Bytes)
    (hm : SaveMode m) (hf : Fresh fs p m) (heol : c.enc eol = some e) :
    (saveFile c fs p (.bytes b) m eol tag).1 p = some b := by
  rw [(C15_bytes_verbatim c fs p b m eol tag e hm heol).2.1, startContent_fresh hf]; rfl

/-- **C15 (bytes, append):** the payload is added to the existing content -/
theorem C15_bytes_append (c : Codec) (fs : FS) (p : Str) (old b : Bytes) (eol tag : Str) (e : Bytes)
    (hold : fs p = some old) (heol : c.enc eol = some e) :
    (saveFile c fs p (.bytes b) ['a', 't'] eol tag).1 p = some (old ++ b) := by
  rw [(C15_bytes_verbatim c fs p b ['a', 't'] eol tag e (by simp [SaveMode]) heol).2.1]
  simp [startContent, hold]

/-- **C15 (bytes load verbatim):** `load_file(read_mode='b')` returns the file content, whatever
the EOL and the encoding -/
theorem C15_bytes_load (c : Codec) (fs : FS) (p eol : Str) (data : Bytes) (h : fs p = some data) :
    loadFile c fs p ['b'] eol = .ok (.bytes data) :=
  loadFile_b c fs p eol data h

/-- **C15 (lines).**  A list of lines (no line break inside a line) saved through a text mode with a
standard EOL is stored one line per EOL — the file is the encoding of the lines each followed by
the EOL, as one stream — and `load_lines` returns exactly those lines. -/
theorem C15_lines (c : Codec) (g : c.Good) (fs : FS) (p : Str) (ls : List Str) (m eol tag : Str) (y : Bytes)
    (hm : TextMode m) (hf : Fresh fs p m) (hstd : isStdEol eol = true)
    (hl : ∀ l ∈ ls, NoCR l ∧ NoLF l)
    (henc : c.enc (replace lf eol (unlines ls)) = some y) :
    (saveFile c fs p (.lines (ls.map Line.str)) m eol tag).2 = .ok ()
    ∧ (saveFile c fs p (.lines (ls.map Line.str)) m eol tag).1 p = some ((if ls.isEmpty then [] else c.bom) ++ y)
    ∧ loadLines c (saveFile c fs p (.lines (ls.map Line.str)) m eol tag).1 p ['t'] eol
        = .ok (ls.map Loaded.str) := by
  rw [saveFile_lines_text c g fs p ls m eol tag y hm hstd henc, startContent_fresh hf]
  have hdisk : (fs.write p ([] ++ (if ([] : Bytes).isEmpty && !ls.isEmpty then c.bom else []) ++ y)) p
      = some ((if ls.isEmpty then [] else c.bom) ++ y) := by
    cases ls <;> simp [FS.write]
  refine ⟨rfl, hdisk, ?_⟩
  cases hls : ls with
  | nil =>
    subst hls
    have hy : y = [] := by
      have h' : c.enc [] = some y := by simpa [unlines, replace_nil] using henc
      rw [g.enc_nil] at h'; exact (Option.some.inj h').symm
    subst hy
    have hd : (fs.write p ([] ++ (if ([] : Bytes).isEmpty && !([] : List Str).isEmpty then c.bom else []) ++ [])) p
        = some [] := by simp [FS.write]
    rw [loadLines_text c _ p eol [] [] hstd hd (decodeStream_nil c g)]
    rfl
  | cons l0 ls0 =>
    rw [← hls]
    have hne : ls.isEmpty = false := by rw [hls]; rfl
    have hdisk2 : (fs.write p ([] ++ (if ([] : Bytes).isEmpty && !ls.isEmpty then c.bom else []) ++ y)) p
        = some (c.bom ++ y) := by rw [hdisk, hne]; simp
    dsimp only
    rw [loadLines_text c _ p eol _ _ hstd hdisk2 ((decodeStream_bom_append c y).trans (g.decode_bom_enc henc))]
    rw [univNL_replace eol _ hstd (noCR_unlines ls (fun l hl' => (hl l hl').1)),
      textLines_unlines ls (fun l hl' => (hl l hl').2), List.map_map]
    congr 1
    apply List.map_congr_left
    intro l hl'
    simp only [Function.comp]
    rw [rstrip_line l (hl l hl').1 (hl l hl').2]

/-- **C15 (lines on disk).**  Under *every* mode and EOL — text layer or manual path — the file
holds the lines, each followed by the EOL, encoded as one stream: one start-of-stream mark at
most, at offset 0 (none for an empty list).  Full statement; it was refuted on the code before
fix `C15-a` (every line and every EOL carried its own mark). -/
theorem C15_lines_disk (c : Codec) (g : c.Good) (fs : FS) (p : Str) (ls : List Str) (m eol tag : Str)
    (y e : Bytes) (hm : SaveMode m) (hf : Fresh fs p m) (hl : ∀ l ∈ ls, NoLF l) (heol : c.enc eol = some e)
    (henc : c.enc (replace lf eol (unlines ls)) = some y) :
    (saveFile c fs p (.lines (ls.map Line.str)) m eol tag).2 = .ok ()
    ∧ (saveFile c fs p (.lines (ls.map Line.str)) m eol tag).1 p = some ((if ls.isEmpty then [] else c.bom) ++ y) := by
  by_cases ht : textLayer m eol = true
  · have ht' : (m = ['t'] ∨ m = ['w', 't'] ∨ m = ['a', 't']) ∧ isStdEol eol = true := by
      simpa [textLayer, Bool.and_eq_true, Bool.or_eq_true, or_assoc] using ht
    rw [saveFile_lines_text c g fs p ls m eol tag y ht'.1 ht'.2 henc, startContent_fresh hf]
    refine ⟨rfl, ?_⟩
    cases ls <;> simp [FS.write]
  · have ht' : textLayer m eol = false := by simpa using ht
    rw [saveFile_lines_bin c g fs p ls m eol tag y e hm ht' hl heol henc, startContent_fresh hf]
    refine ⟨rfl, ?_⟩
    cases ls <;> simp [FS.write]

/-- the former witness of finding C15-b on the concrete `utf-8-sig` model, after the fix:
`save_file(p, ['a'], 'wb', encoding='utf-8-sig', EOL='\n')` writes `BOM a \n` (was `BOM a BOM \n`) -/
theorem C15_lines_bom_witness_fixed :
    (saveFile utf8sig (fun _ => none) ['f'] (.lines [.str ['a']]) ['w', 'b'] ['\n'] ['=']).1 ['f']
      = some (bomUtf8 ++ ['a', '\n']) := by decide

/-- **C15 (append).**  `at` on a file with content adds the encoded text to it — one stream, no
second start-of-stream mark — under every EOL and every codec.  Full statement; it was refuted on
the code before fix `C15-a` (custom EOL + a mark-emitting codec wrote the mark in the middle). -/
theorem C15_append (c : Codec) (fs : FS) (p : Str) (old : Bytes) (text eol tag : Str) (y e : Bytes)
    (hold : fs p = some old) (hne : old ≠ []) (heol : c.enc eol = some e)
    (henc : c.enc (replace lf eol text) = some y) :
    (saveFile c fs p (.str text) ['a', 't'] eol tag).2 = .ok ()
    ∧ (saveFile c fs p (.str text) ['a', 't'] eol tag).1 p = some (old ++ y)
    ∧ ∀ q, q ≠ p → (saveFile c fs p (.str text) ['a', 't'] eol tag).1 q = fs q := by
  rw [saveFile_str c fs p text ['a', 't'] eol tag y e (by simp [SaveMode]) henc heol]
  have hs : startContent fs p ['a', 't'] = old := by simp [startContent, hold]
  have hne' : old.isEmpty = false := by cases old <;> simp_all
  refine ⟨rfl, by simp [FS.write, mark, hs, hne'], ?_⟩
  intro q hq; simp [FS.write, hq]

/-- **C15 (append, lines).**  The same for a list of lines appended to a file with content. -/
theorem C15_append_lines (c : Codec) (g : c.Good) (fs : FS) (p : Str) (old : Bytes) (ls : List Str) (eol tag : Str)
    (y e : Bytes) (hold : fs p = some old) (hne : old ≠ []) (hl : ∀ l ∈ ls, NoLF l) (heol : c.enc eol = some e)
    (henc : c.enc (replace lf eol (unlines ls)) = some y) :
    (saveFile c fs p (.lines (ls.map Line.str)) ['a', 't'] eol tag).1 p = some (old ++ y) := by
  have hs : startContent fs p ['a', 't'] = old := by simp [startContent, hold]
  have hne' : old.isEmpty = false := by cases old <;> simp_all
  by_cases hstd : isStdEol eol = true
  · rw [saveFile_lines_text c g fs p ls ['a', 't'] eol tag y (by simp [TextMode]) hstd henc, hs]
    simp [FS.write, hne']
  · have ht' : textLayer ['a', 't'] eol = false := by simp [textLayer, hstd]
    rw [saveFile_lines_bin c g fs p ls ['a', 't'] eol tag y e (by simp [SaveMode]) ht' hl heol henc, hs]
    simp [FS.write, hne']

/-- the former witness of finding C15-a on the concrete `utf-8-sig` model, after the fix:
`save_file(p,'1\n','wt',EOL='|',…); save_file(p,'2\n','at',EOL='|',encoding='utf-8-sig')` → `BOM 1|2|`
(was `BOM 1| BOM 2|`) -/
theorem C15_append_bom_witness_fixed :
    (saveFile utf8sig
      (saveFile utf8sig (fun _ => none) ['f'] (.str ['1', '\n']) ['w', 't'] ['|'] ['=']).1
      ['f'] (.str ['2', '\n']) ['a', 't'] ['|'] ['=']).1 ['f']
      = some (bomUtf8 ++ ['1', '|', '2', '|']) := by decide

/-- **C15 (append round trip).**  A text saved, a second text appended with `at`, same ASCII EOL
(standard, LFCR or custom): the file is the encoding of the concatenation as one stream and loads
back as the concatenation. -/
theorem C15_append_roundtrip (c : Codec) (g : c.Good) (fs : FS) (p s1 s2 m eol tag : Str) (y1 y2 : Bytes)
    (hm : SaveMode m) (hf : Fresh fs p m) (ha : IsAscii eol) (hd : EolDisjoint eol (s1 ++ s2))
    (h1 : NoCR s1) (h2 : NoCR s2)
    (e1 : c.enc (replace lf eol s1) = some y1) (e2 : c.enc (replace lf eol s2) = some y2) :
    (saveFile c (saveFile c fs p (.str s1) m eol tag).1 p (.str s2) ['a', 't'] eol tag).1 p
        = c.encode (replace lf eol (s1 ++ s2))
    ∧ loadFile c (saveFile c (saveFile c fs p (.str s1) m eol tag).1 p (.str s2) ['a', 't'] eol tag).1 p ['t'] eol
        = .ok (.str (s1 ++ s2)) := by
  have heol := g.enc_ascii eol ha
  have hd1 := (C15_disk_bytes c fs p s1 m eol tag y1 eol hm hf e1 heol).2.1
  simp only [Codec.encode, e1, Option.map_some] at hd1
  have e12 : c.enc (replace lf eol (s1 ++ s2)) = some (y1 ++ y2) := by
    rw [show lf = ['\n'] from rfl, replace_lf_append]; exact g.enc_append_of e1 e2
  have hdisk : (saveFile c (saveFile c fs p (.str s1) m eol tag).1 p (.str s2) ['a', 't'] eol tag).1 p
      = some (c.bom ++ (y1 ++ y2)) := by
    by_cases hemp : c.bom ++ y1 = []
    · -- nothing on disk yet: the append starts a fresh stream
      rw [saveFile_str c _ p s2 ['a', 't'] eol tag y2 eol (by simp [SaveMode]) e2 heol]
      have hs : startContent (saveFile c fs p (.str s1) m eol tag).1 p ['a', 't'] = [] := by
        simp [startContent, hd1, hemp]
      have hb : c.bom = [] := (List.append_eq_nil_iff.mp hemp).1
      have hy : y1 = [] := (List.append_eq_nil_iff.mp hemp).2
      simp [FS.write, mark, hs, hb, hy]
    · rw [(C15_append c _ p (c.bom ++ y1) s2 eol tag y2 eol hd1 hemp heol e2).2.1]
      simp
  refine ⟨by simp [hdisk, Codec.encode, e12], ?_⟩
  exact filesLoad_encoded c g _ p (s1 ++ s2) eol (y1 ++ y2) ha hd (by
    unfold NoCR at *; simp only [List.mem_append, not_or]; exact ⟨h1, h2⟩) e12 hdisk

/-! ### The concrete codecs: the assumptions discharged

`Codec.Good` is a theorem for each of the four codec models (`Proofs/FilesCodec.lean`): utf-8 and
utf-8-sig (1–4 byte forms, strict decoder), latin-1, and cp1252 — a table codec whose table is
generated from the interpreter (`Gen/Cp1252.lean`).  The statements below are the instances of
`C15_disk_bytes`, `C15_roundtrip` and `C15_lines` without the abstract hypothesis; for utf-8 and
utf-8-sig every text is encodable, so no encodability hypothesis is left either. -/

/-- **the four codecs satisfy the assumptions** -/
theorem C15_codecs_good : utf8.Good ∧ utf8sig.Good ∧ latin1.Good ∧ cp1252.Good :=
  ⟨utf8_good, utf8sig_good, latin1_good, cp1252_good⟩

/-- **C15 (bytes on disk, utf-8)**: every text, every EOL: the file is the utf-8 form of `text.replace('\n', EOL)` -/
theorem C15_disk_bytes_utf8 (fs : FS) (p text m eol tag : Str) (hm : SaveMode m) (hf : Fresh fs p m) :
    (saveFile utf8 fs p (.str text) m eol tag).2 = .ok ()
    ∧ (saveFile utf8 fs p (.str text) m eol tag).1 p = some (utf8Enc (replace lf eol text))
    ∧ ∀ q, q ≠ p → (saveFile utf8 fs p (.str text) m eol tag).1 q = fs q := by
  have h := C15_disk_bytes utf8 fs p text m eol tag (utf8Enc (replace lf eol text)) (utf8Enc eol) hm hf rfl rfl
  exact ⟨h.1, by rw [h.2.1]; rfl, h.2.2⟩

/-- **C15 (bytes on disk, utf-8-sig)**: the signature once, at offset 0, then the utf-8 form -/
theorem C15_disk_bytes_utf8sig (fs : FS) (p text m eol tag : Str) (hm : SaveMode m) (hf : Fresh fs p m) :
    (saveFile utf8sig fs p (.str text) m eol tag).2 = .ok ()
    ∧ (saveFile utf8sig fs p (.str text) m eol tag).1 p = some (bomUtf8 ++ utf8Enc (replace lf eol text))
    ∧ ∀ q, q ≠ p → (saveFile utf8sig fs p (.str text) m eol tag).1 q = fs q := by
  have h := C15_disk_bytes utf8sig fs p text m eol tag (utf8Enc (replace lf eol text)) (utf8Enc eol) hm hf rfl rfl
  exact ⟨h.1, by rw [h.2.1]; rfl, h.2.2⟩

/-- **C15 (bytes on disk, cp1252)**: an encodable text and an ASCII EOL -/
theorem C15_disk_bytes_cp1252 (fs : FS) (p text m eol tag : Str) (y : Bytes) (hm : SaveMode m) (hf : Fresh fs p m)
    (ha : IsAscii eol) (henc : cp1252.enc (replace lf eol text) = some y) :
    (saveFile cp1252 fs p (.str text) m eol tag).2 = .ok ()
    ∧ (saveFile cp1252 fs p (.str text) m eol tag).1 p = some y
    ∧ ∀ q, q ≠ p → (saveFile cp1252 fs p (.str text) m eol tag).1 q = fs q := by
  have h := C15_disk_bytes cp1252 fs p text m eol tag y eol hm hf henc (cp1252_good.enc_ascii eol ha)
  refine ⟨h.1, ?_, h.2.2⟩
  rw [h.2.1, Codec.encode, henc]; rfl

/-- **C15 (round trip, utf-8)**: no hypothesis on the codec, none on encodability -/
theorem C15_roundtrip_utf8 (fs : FS) (p text m eol tag : Str)
    (hm : SaveMode m) (hf : Fresh fs p m) (ha : IsAscii eol) (hd : EolDisjoint eol text) (hcr : NoCR text) :
    loadFile utf8 (saveFile utf8 fs p (.str text) m eol tag).1 p ['t'] eol = .ok (.str text) :=
  C15_roundtrip utf8 utf8_good fs p text m eol tag _ hm hf ha hd hcr rfl

/-- **C15 (round trip, utf-8-sig)** -/
theorem C15_roundtrip_utf8sig (fs : FS) (p text m eol tag : Str)
    (hm : SaveMode m) (hf : Fresh fs p m) (ha : IsAscii eol) (hd : EolDisjoint eol text) (hcr : NoCR text) :
    loadFile utf8sig (saveFile utf8sig fs p (.str text) m eol tag).1 p ['t'] eol = .ok (.str text) :=
  C15_roundtrip utf8sig utf8sig_good fs p text m eol tag _ hm hf ha hd hcr rfl

/-- **C15 (round trip, cp1252)**: every text the generated table can encode -/
theorem C15_roundtrip_cp1252 (fs : FS) (p text m eol tag : Str) (y : Bytes)
    (hm : SaveMode m) (hf : Fresh fs p m) (ha : IsAscii eol) (hd : EolDisjoint eol text) (hcr : NoCR text)
    (henc : cp1252.enc (replace lf eol text) = some y) :
    loadFile cp1252 (saveFile cp1252 fs p (.str text) m eol tag).1 p ['t'] eol = .ok (.str text) :=
  C15_roundtrip cp1252 cp1252_good fs p text m eol tag y hm hf ha hd hcr henc

/-- **C15 (round trip, latin-1)** -/
theorem C15_roundtrip_latin1 (fs : FS) (p text m eol tag : Str) (y : Bytes)
    (hm : SaveMode m) (hf : Fresh fs p m) (ha : IsAscii eol) (hd : EolDisjoint eol text) (hcr : NoCR text)
    (henc : latin1.enc (replace lf eol text) = some y) :
    loadFile latin1 (saveFile latin1 fs p (.str text) m eol tag).1 p ['t'] eol = .ok (.str text) :=
  C15_roundtrip latin1 latin1_good fs p text m eol tag y hm hf ha hd hcr henc

/-- **C15 (lines, utf-8)** -/
theorem C15_lines_utf8 (fs : FS) (p : Str) (ls : List Str) (m eol tag : Str)
    (hm : TextMode m) (hf : Fresh fs p m) (hstd : isStdEol eol = true) (hl : ∀ l ∈ ls, NoCR l ∧ NoLF l) :
    (saveFile utf8 fs p (.lines (ls.map Line.str)) m eol tag).2 = .ok ()
    ∧ (saveFile utf8 fs p (.lines (ls.map Line.str)) m eol tag).1 p = some (utf8Enc (replace lf eol (unlines ls)))
    ∧ loadLines utf8 (saveFile utf8 fs p (.lines (ls.map Line.str)) m eol tag).1 p ['t'] eol
        = .ok (ls.map Loaded.str) := by
  have h := C15_lines utf8 utf8_good fs p ls m eol tag _ hm hf hstd hl rfl
  refine ⟨h.1, ?_, h.2.2⟩
  rw [h.2.1]; cases ls <;> rfl

/-- **C15 (lines, utf-8-sig)**: one signature at offset 0 (none for an empty list) -/
theorem C15_lines_utf8sig (fs : FS) (p : Str) (ls : List Str) (m eol tag : Str)
    (hm : TextMode m) (hf : Fresh fs p m) (hstd : isStdEol eol = true) (hl : ∀ l ∈ ls, NoCR l ∧ NoLF l) :
    (saveFile utf8sig fs p (.lines (ls.map Line.str)) m eol tag).2 = .ok ()
    ∧ (saveFile utf8sig fs p (.lines (ls.map Line.str)) m eol tag).1 p
        = some ((if ls.isEmpty then [] else bomUtf8) ++ utf8Enc (replace lf eol (unlines ls)))
    ∧ loadLines utf8sig (saveFile utf8sig fs p (.lines (ls.map Line.str)) m eol tag).1 p ['t'] eol
        = .ok (ls.map Loaded.str) :=
  C15_lines utf8sig utf8sig_good fs p ls m eol tag _ hm hf hstd hl rfl

/-- **C15 (lines, cp1252)** -/
theorem C15_lines_cp1252 (fs : FS) (p : Str) (ls : List Str) (m eol tag : Str) (y : Bytes)
    (hm : TextMode m) (hf : Fresh fs p m) (hstd : isStdEol eol = true) (hl : ∀ l ∈ ls, NoCR l ∧ NoLF l)
    (henc : cp1252.enc (replace lf eol (unlines ls)) = some y) :
    (saveFile cp1252 fs p (.lines (ls.map Line.str)) m eol tag).2 = .ok ()
    ∧ (saveFile cp1252 fs p (.lines (ls.map Line.str)) m eol tag).1 p = some y
    ∧ loadLines cp1252 (saveFile cp1252 fs p (.lines (ls.map Line.str)) m eol tag).1 p ['t'] eol
        = .ok (ls.map Loaded.str) := by
  have h := C15_lines cp1252 cp1252_good fs p ls m eol tag y hm hf hstd hl henc
  refine ⟨h.1, ?_, h.2.2⟩
  rw [h.2.1]; cases ls <;> rfl

/-- **C15 (utf-8 decoder is strict)**: the decoder of the model accepts exactly the encoder's
output — `decode ∘ encode = id`, and nothing else decodes (overlong forms, encoded surrogates,
values above U+10FFFF, truncated sequences are `UnicodeDecodeError`). -/
theorem C15_utf8_strict (b : Bytes) (s : Str) : utf8.dec b = some s ↔ utf8.enc s = some b := by
  show utf8Dec b = some s ↔ some (utf8Enc s) = some b
  rw [utf8Dec_eq_some_iff]; simp

/-- **C15 (utf-8-sig signature)**: a fresh encoder writes it once at position 0; the reader skips
it once (a second one is the character U+FEFF); a text-mode read of a file that is a strict prefix
of the signature yields the empty text while `bytes.decode` raises. -/
theorem C15_utf8sig_bom (s : Str) :
    utf8sig.encode s = some (bomUtf8 ++ utf8Enc s)
    ∧ utf8sig.decode (bomUtf8 ++ utf8Enc s) = some s
    ∧ utf8sig.decode (bomUtf8 ++ (bomUtf8 ++ utf8Enc s)) = some (Char.ofNat 0xFEFF :: s)
    ∧ utf8sig.decodeStream [Char.ofNat 0xEF] = some [] ∧ utf8sig.decodeStream [Char.ofNat 0xEF, Char.ofNat 0xBB] = some []
    ∧ utf8sig.decode [Char.ofNat 0xEF] = none ∧ utf8sig.decode [Char.ofNat 0xEF, Char.ofNat 0xBB] = none :=
  ⟨rfl, utf8sig_decode_bom s, utf8sig_decode_bom_twice s, utf8sig_decodeStream_prefix.1, utf8sig_decodeStream_prefix.2.1,
   utf8sig_decodeStream_prefix.2.2.1, utf8sig_decodeStream_prefix.2.2.2⟩

/-! ### Non-vacuity: concrete inhabitants of the hypotheses, exercising every path -/

example : latin1.Good := latin1_good
example : asciiSig.Good := asciiSig_good
example : SaveMode ['a', 't'] ∧ TextMode ['t'] := by simp [SaveMode, TextMode]
example : EolDisjoint ['\n', '\r'] ['a', '\n', '\n', 'b'] ∧ EolDisjoint ['|', '~', '|'] ['a', '\n'] := by
  unfold EolDisjoint; decide
example : IsAscii ['|', '~', '|'] := by unfold IsAscii; decide
-- text layer, CRLF, mark written once and skipped on read; leading / consecutive / trailing newlines
example : loadFile asciiSig (saveFile asciiSig (fun _ => none) ['f'] (.str ['\n', 'a', '\n', '\n', 'b', '\n']) ['t']
    ['\r', '\n'] ['=']).1 ['f'] ['t'] ['\r', '\n'] = .ok (.str ['\n', 'a', '\n', '\n', 'b', '\n']) := by decide
-- manual path, custom EOL, latin-1 non-ASCII text
example : loadFile latin1 (saveFile latin1 (fun _ => none) ['f'] (.str ['é', '\n', 'ÿ']) ['w', 't']
    ['|', '~', '|'] ['=']).1 ['f'] ['t'] ['|', '~', '|'] = .ok (.str ['é', '\n', 'ÿ']) := by decide
-- LFCR
example : (saveFile latin1 (fun _ => none) ['f'] (.str ['a', '\n']) ['b'] ['\n', '\r'] ['=']).1 ['f']
    = some ['a', '\n', '\r'] := by decide
-- lines, CR, text layer; append keeps one stream
example : loadLines asciiSig (saveFile asciiSig (fun _ => none) ['f'] (.lines [.str ['a'], .str [], .str ['b', ' ']])
    ['w', 't'] ['\r'] ['=']).1 ['f'] ['t'] ['\r'] = .ok [.str ['a'], .str [], .str ['b', ' ']] := by decide
example : (saveFile asciiSig (saveFile asciiSig (fun _ => none) ['f'] (.str ['1', '\n']) ['w', 't'] ['\n'] ['=']).1
    ['f'] (.str ['2']) ['a', 't'] ['\n'] ['=']).1 ['f'] = some (bomUtf8 ++ ['1', '\n', '2']) := by decide
-- bytes under a text mode
example : (saveFile utf8sig (fun _ => none) ['f'] (.bytes ['\r', '\n', 'x']) ['t'] ['|'] ['=']).1 ['f']
    = some ['\r', '\n', 'x'] := by decide

-- the concrete codecs: 1-4 byte forms through the manual path (custom EOL) and the text layer
example : loadFile utf8sig (saveFile utf8sig (fun _ => none) ['f'] (.str ['é', '\n', '€', '😀', '\n']) ['w', 't']
    ['|', '~', '|'] ['=']).1 ['f'] ['t'] ['|', '~', '|'] = .ok (.str ['é', '\n', '€', '😀', '\n']) := by decide
example : (saveFile utf8 (fun _ => none) ['f'] (.str ['é', '\n']) ['t'] ['\r', '\n'] ['=']).1 ['f']
    = some [Char.ofNat 0xC3, Char.ofNat 0xA9, '\r', '\n'] := by decide
-- cp1252 through the generated table: U+20AC is byte 0x80, U+0081 has no byte, byte 0x81 no character
example : cp1252.enc ['€', 'a', 'ÿ'] = some [Char.ofNat 0x80, 'a', 'ÿ'] ∧ cp1252.enc [Char.ofNat 0x81] = none
    ∧ cp1252.dec [Char.ofNat 0x80] = some ['€'] ∧ cp1252.dec [Char.ofNat 0x81] = none := by decide +kernel
example : loadFile cp1252 (saveFile cp1252 (fun _ => none) ['f'] (.str ['€', '\n', 'é']) ['a', 't'] ['\n', '\r'] ['=']).1
    ['f'] ['t'] ['\n', '\r'] = .ok (.str ['€', '\n', 'é']) := by decide +kernel
-- lines and append on the manual path with a signature codec (the former findings): one signature
example : (saveFile utf8sig (fun _ => none) ['f'] (.lines [.str ['a'], .bytes ['b'], .other ['7']]) ['b'] [';'] ['=']).1 ['f']
    = some (bomUtf8 ++ ['a', ';', 'b', ';', '7', ';']) := by decide
example : (saveFile utf8sig (FS.write (fun _ => none) ['f'] ['x']) ['f'] (.lines [.str ['a']]) ['a', 't'] [';'] ['=']).1 ['f']
    = some ['x', 'a', ';'] := by decide

end N0.C15
