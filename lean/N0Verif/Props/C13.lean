import N0Verif.Proofs.Csv
import N0Verif.Proofs.CsvGenEq
/-!
# C13 — a CSV line parses back to the fields it was generated from

Only property statements live here; helper lemmas are in `Proofs/Csv.lean` and
`Proofs/CsvGenEq.lean`.

The `C13_generated_*` theorems tie the hand-written model to the source a second time: the
definitions of `Gen/CsvPy.lean` are regenerated from the Python text on every run
(`harness/translate_py_csv.py`) and proved equal to the model, so the round-trip theorems hold for
the translated code (`C13_roundtrip_generated`, `C13_roundtrip_generated_bytes`).
-/
namespace N0.C13
open N0 N0.Py N0.Csv

/-- the delimiters the property quantifies over: a single character that is
neither the quote nor a line-break character -/
def GoodDelim (d : Char) : Prop := d ≠ '"' ∧ d ≠ '\r' ∧ d ≠ '\n'

/-- line endings of the property: none, LF, CRLF (any string of CR/LF characters works) -/
def IsEol (e : Str) : Prop := ∀ c ∈ e, c = '\r' ∨ c = '\n'

theorem rstrip_row (d : Char) (hd : GoodDelim d) (q : Str → Bool) (f : Str) (fs : List Str)
    (hf : ∀ g ∈ f :: fs, NoBreak g) (eol : Str) (he : IsEol eol) :
    rstrip crlf (rowStr d q f fs ++ eol) = rowStr d q f fs := by
  apply rstrip_append
  · intro c hc
    rcases he c hc with h | h <;> simp [crlf, h]
  · intro c hc
    have hmem : c ∈ rowStr d q f fs := List.mem_of_getLast? hc
    have hne : c ≠ '\r' ∧ c ≠ '\n' := by
      rcases rowStr_mem d q f fs c hmem with h | h | ⟨g, hg, hcg⟩
      · subst h; exact ⟨hd.2.1, hd.2.2⟩
      · subst h; exact ⟨by decide, by decide⟩
      · have := hf g hg
        exact ⟨fun h => this.1 (h ▸ hcg), fun h => this.2 (h ▸ hcg)⟩
    simp [crlf, hne.1, hne.2]

/-- general form: any adequate quoting decision round-trips -/
theorem parse_rowStr (d : Char) (hd : GoodDelim d) (q : Str → Bool) (hq : Adequate d q)
    (f : Str) (fs : List Str) (hf : ∀ g ∈ f :: fs, NoBreak g) (eol : Str) (he : IsEol eol) :
    parse d (rowStr d q f fs ++ eol) = .ok (f :: fs) := by
  unfold parse
  rw [rstrip_row d hd q f fs hf eol he]
  obtain ⟨st, h1, h2⟩ := run_row d hd.1 q hq [] f fs
  have h1' : run d St.init (rowStr d q f fs) = .ok st := h1
  rw [h1']
  simp [bind, Except.bind, pure, Except.pure] at h2 ⊢
  exact h2

theorem needsQuote_adequate (d : Char) : Adequate d (needsQuote d) := by
  intro f h
  unfold needsQuote
  rcases h with h | h
  · simp [h]
  · simp [h]

theorem writer_adequate (d : Char) (term : Str) (single : Bool) :
    Adequate d (writerNeedsQuote d term single) := by
  intro f h
  unfold writerNeedsQuote
  rcases h with h | h
  · have : f.any (fun c => c = d || c = '"' || term.contains c) = true := by
      rw [List.any_eq_true]; exact ⟨d, h, by simp⟩
    rw [this]; rfl
  · cases f with
    | nil => simp at h
    | cons c f =>
      simp at h; subst h
      simp

/-- **C13 (library generator).**  For every non-empty row of fields without line
breaks, every admissible delimiter and every CR/LF line ending, parsing the
generated line returns exactly the row. -/
theorem C13_roundtrip (d : Char) (hd : GoodDelim d) (row : List Str) (hrow : row ≠ [])
    (hf : ∀ g ∈ row, NoBreak g) (eol : Str) (he : IsEol eol) :
    parse d (gen d row eol) = .ok row := by
  cases row with
  | nil => exact absurd rfl hrow
  | cons f fs =>
    unfold gen
    simp only
    rw [gen_acc_dropLast]
    exact parse_rowStr d hd _ (needsQuote_adequate d) f fs hf eol he

/-- **C13 (standard csv writer, minimal quoting).** -/
theorem C13_roundtrip_writer (d : Char) (hd : GoodDelim d) (row : List Str) (hrow : row ≠ [])
    (hf : ∀ g ∈ row, NoBreak g) (term : Str) (he : IsEol term) :
    parse d (writerLine d term row) = .ok row := by
  cases row with
  | nil => exact absurd rfl hrow
  | cons f fs =>
    unfold writerLine
    simp only
    rw [join_eq_rowStr]
    exact parse_rowStr d hd _ (writer_adequate d term _) f fs hf term he

/-- **C13 (field count).** the number of parsed fields equals the number written -/
theorem C13_field_count (d : Char) (hd : GoodDelim d) (row : List Str) (hrow : row ≠ [])
    (hf : ∀ g ∈ row, NoBreak g) (eol : Str) (he : IsEol eol) :
    (parse d (gen d row eol)).map List.length = .ok row.length := by
  rw [C13_roundtrip d hd row hrow hf eol he]; rfl

/-- The parser is total on generated lines and raises only `ValueError` otherwise. -/
theorem C13_only_valueerror (d : Char) (line : Str) (e : PyErr)
    (h : parse d line = .error e) : e = .ValueError := by
  unfold parse at h
  have key : ∀ (s : Str) (st : St) (e : PyErr), run d st s = .error e → e = .ValueError := by
    intro s
    induction s with
    | nil => intro st e h; simp [run] at h
    | cons c s ih =>
      intro st e h
      simp only [run] at h
      cases hs : step d st c with
      | error e' =>
        rw [hs] at h
        simp [bind, Except.bind] at h
        subst h
        unfold step at hs
        split at hs
        · simp at hs
        · split at hs
          · split at hs
            · simp at hs
            · split at hs
              · split at hs <;> simp at hs
              · simp at hs
          · split at hs
            · simpa using hs.symm
            · simp at hs
      | ok st' =>
        rw [hs] at h
        exact ih st' e h
  cases hr : run d St.init (rstrip crlf line) with
  | error e' =>
    rw [hr] at h
    simp [bind, Except.bind] at h
    subst h
    exact key _ _ _ hr
  | ok st =>
    rw [hr] at h
    simp [bind, Except.bind, pure, Except.pure] at h

/-! ## the definitions regenerated from the Python source equal the hand-written model

The generated functions take the parameters of the Python functions in source order (`line,
delimiter` / `row, delimiter, EOL`) with the delimiter as a string; the model is about one-character
delimiters, hence `[d]`. -/

/-- **generated parser = model (str lines).** -/
theorem C13_generated_parse_eq (d : Char) (line : Str) :
    Gen.CsvPy.parseStr line [d] = parse d line := CsvGenEq.parseStr_eq d line

/-- **generated parser = model (bytes lines; a byte is the character with the same code).** -/
theorem C13_generated_parse_bytes_eq (d : Char) (line : Str) :
    Gen.CsvPy.parseBytes line [d] = parse d line := CsvGenEq.parseBytes_eq d line

/-- **generated row generator = model (rows of strings); the generated code never raises.** -/
theorem C13_generated_gen_eq (d : Char) (row : List Str) (eol : Str) :
    Gen.CsvPy.genRow row [d] eol = .ok (gen d row eol) := CsvGenEq.genRow_eq d row eol

/-- **C13 for the translated code.**  The round trip, stated on the definitions regenerated from
the Python source: generating a line and parsing it returns the row. -/
theorem C13_roundtrip_generated (d : Char) (hd : GoodDelim d) (row : List Str) (hrow : row ≠ [])
    (hf : ∀ g ∈ row, NoBreak g) (eol : Str) (he : IsEol eol) :
    (Gen.CsvPy.genRow row [d] eol).bind (fun line => Gen.CsvPy.parseStr line [d]) = .ok row := by
  rw [C13_generated_gen_eq]
  simp only [Except.bind]
  rw [C13_generated_parse_eq]
  exact C13_roundtrip d hd row hrow hf eol he

/-- the same with the bytes specialisation of the parser (the generated text is a row of
one-byte characters) -/
theorem C13_roundtrip_generated_bytes (d : Char) (hd : GoodDelim d) (row : List Str) (hrow : row ≠ [])
    (hf : ∀ g ∈ row, NoBreak g) (eol : Str) (he : IsEol eol) :
    (Gen.CsvPy.genRow row [d] eol).bind (fun line => Gen.CsvPy.parseBytes line [d]) = .ok row := by
  rw [C13_generated_gen_eq]
  simp only [Except.bind]
  rw [C13_generated_parse_bytes_eq]
  exact C13_roundtrip d hd row hrow hf eol he

/-- the translated parser raises only `ValueError` -/
theorem C13_only_valueerror_generated (d : Char) (line : Str) (e : PyErr)
    (h : Gen.CsvPy.parseStr line [d] = .error e) : e = .ValueError :=
  C13_only_valueerror d line e (by rw [← C13_generated_parse_eq]; exact h)

/-! Non-vacuity: concrete rows that meet the hypotheses and exercise every branch. -/
example : GoodDelim ',' := by unfold GoodDelim; decide
example : parse ',' (gen ',' [['a', ',', '"'], ['"'], [], ['"', 'x', '"']] ['\r', '\n'])
    = .ok [['a', ',', '"'], ['"'], [], ['"', 'x', '"']] := by decide
example : parse ';' (writerLine ';' ['\n'] [[]]) = .ok [[]] := by decide
/-! the generated definitions compute (and are not trivially equal to the model: they are separate
definitions over their own state structures) -/
example : Gen.CsvPy.genRow [['a', ',', '"'], ['"'], []] [','] ['\r', '\n']
    = .ok ['"', 'a', ',', '"', '"', '"', ',', '"', '"', '"', '"', ',', '\r', '\n'] := by decide
example : Gen.CsvPy.parseStr ['"', 'a', ',', '"', '"', '"', ',', '"', '"', '"', '"', ',', '\r', '\n'] [',']
    = .ok [['a', ',', '"'], ['"'], []] := by decide
example : Gen.CsvPy.parseBytes ['"', 'a', '"', 'b'] [','] = .error .ValueError := by decide

end N0.C13
