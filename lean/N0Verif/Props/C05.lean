import N0Verif.Proofs.XPathDelete
import N0Verif.Props.C01
/-!
# C05 — delete and pop remove exactly the addressed node

Reference semantics: `Val.delAt t p` (a dict entry disappears, later list elements shift down,
nothing else changes).
-/
namespace N0.C05
open N0 N0.Py N0.Val N0.XPath

theorem delAt_isSome : ∀ (p : Pos) (t c : Val), p ≠ [] → getAt t p = some c → ∃ t', delAt t p = some t'
  | [], _, _, h, _ => absurd rfl h
  | [s], t, c, _, hg => by
      obtain ⟨x, hc, _⟩ := getAt_cons_some hg
      cases s with
      | key k =>
        obtain ⟨cls, kvs, rfl, hl⟩ := child_key_some hc
        exact ⟨.dict cls (kvDel k kvs), by simp [delAt, delChild, kvHas, hl]⟩
      | idx n =>
        obtain ⟨cls, xs, rfl, _, hlt⟩ := child_idx_some hc
        exact ⟨.list cls (xs.eraseIdx n), by simp [delAt, delChild, hlt]⟩
  | s :: s2 :: rest, t, c, _, hg => by
      obtain ⟨x, hc, hr⟩ := getAt_cons_some hg
      obtain ⟨x', hx'⟩ := delAt_isSome (s2 :: rest) x c (by simp) hr
      obtain ⟨t', ht'⟩ := setChild_isSome_of_child hc x'
      refine ⟨t', ?_⟩
      rw [delAt]
      · simp [hc, hx', ht', bind, Option.bind]
      · intro h; cases h

/-- **C05 (delete, any spelling, token level).**  Whatever token list spells the position of an
existing node (index steps in any of the spellings of C01), `delete` removes exactly that node:
the result is `delAt t p`, and nothing is raised. -/
theorem C05_delete_spelled (fuel : Nat) (toks : List Str) (t : Val) (p : Pos) (c t' : Val)
    (hs : Spells toks t p c) (hne : toks ≠ []) (hdel : delAt t p = some t')
    (hf : fuel ≥ 2 * toks.length) :
    deleteLoop fuel toks false t toks.length true = (t', .ok ()) :=
  deleteLoop_spelled fuel toks t p c t' hs hne hdel hf

/-- **C05 (delete).**  `d.delete(xpath)` on the canonical path of an existing node of a
dict-rooted tree yields exactly `delAt t p`. -/
theorem C05_delete (cls : Cls) (kvs : List (Str × Val)) (p : Pos) (c : Val)
    (hp : PlainPos p) (hne : p ≠ []) (hget : getAt (.dict cls kvs) p = some c)
    (fuel : Nat) (hf : fuel ≥ 2 * p.length) :
    ∃ t', delAt (.dict cls kvs) p = some t' ∧
      delete fuel (.dict cls kvs) (slash ++ renderPos p) false = (t', .ok ()) := by
  obtain ⟨t', ht'⟩ := delAt_isSome p _ c hne hget
  refine ⟨t', ht', ?_⟩
  have hs := spells_merged p (.dict cls kvs) c hp hget
  have hlen := mergedToks_length_le p
  have htok : tokenize (slash ++ renderPos p) = mergedToks p := tokenize_render p hp
  unfold delete deleteTokens
  simp only [htok]
  exact deleteLoop_spelled fuel _ _ p c t' hs (mergedToks_ne_nil p hne) ht' (by omega)

/-- **C05 (pop, hit).**  `pop` returns the value lookup returns and has the effect of `delete`. -/
theorem C05_pop_hit (cls : Cls) (kvs : List (Str × Val)) (p : Pos) (c d : Val)
    (hp : PlainPos p) (hne : p ≠ []) (hget : getAt (.dict cls kvs) p = some c)
    (fuel : Nat) (hf : fuel ≥ 2 * p.length) :
    ∃ t', delAt (.dict cls kvs) p = some t' ∧
      pop fuel (.dict cls kvs) (slash ++ renderPos p) d false = .ok (t', c) := by
  obtain ⟨t', ht', hdel⟩ := C05_delete cls kvs p c hp hne hget fuel hf
  refine ⟨t', ht', ?_⟩
  have hget' := (N0.C01.C01_resolves_node cls kvs p c d hp hne hget fuel hf).1
  unfold pop
  rw [hget']
  simp only [hdel]

/-- **C05 (pop, miss).**  When item access raises (the path does not resolve) and leaves the
tree as it was, `pop` returns the default and changes nothing. -/
theorem C05_pop_miss (fuel : Nat) (t : Val) (xp : Str) (d : Val) (r : Bool) (e : PyErr)
    (hmiss : getItem fuel t xp = (t, .error e)) (h1 : e ≠ .OutOfFuel) (h2 : e ≠ .Unsupported) :
    pop fuel t xp d r = .ok (t, d) := by
  unfold pop
  rw [hmiss]
  cases e <;> simp_all

/-- a dict entry removed by `delAt` is gone (keys are unique) -/
theorem kvDel_lookup (k : Str) : ∀ kvs : List (Str × Val), PlainKvs kvs → lookup k (kvDel k kvs) = Option.none
  | [], _ => by simp [kvDel, lookup]
  | (k', x) :: kvs, h => by
      by_cases hk : k = k'
      · subst hk
        simp only [kvDel, if_true]
        exact h.2.1
      · simp [kvDel, hk, lookup, kvDel_lookup k kvs h.2.2.2]

/-- **C05 (a popped dict entry is no longer present).** -/
theorem C05_pop_not_present (t t' : Val) (q : Pos) (k : Str) (cls : Cls) (kvs : List (Str × Val))
    (hq : getAt t q = some (.dict cls kvs)) (hu : PlainKvs kvs)
    (hdel : delAt t (q ++ [.key k]) = some t') : getAt t' (q ++ [.key k]) = Option.none := by
  by_cases hh : kvHas k kvs = true
  · have hsn := delAt_snoc q t (.key k) (.dict cls kvs) (.dict cls (kvDel k kvs)) hq (by simp [delChild, hh])
    rw [hsn] at hdel
    rw [getAt_snoc, getAt_setAt_same q t t' _ hdel (fun _ _ => trivial)]
    simp [child, kvDel_lookup k kvs hu]
  · rw [delAt_key_missing t q k cls kvs hq (by simpa using hh)] at hdel
    cases hdel

/-- full statement for `recursively=True` (ancestors that became empty dictionaries are removed
as well): kept visible; the model runs it and the correspondence streams compare it with the
implementation, the closed form below is not proved yet. -/
def pruneUp : Val → Pos → Nat → Val
  | t, _, 0 => t
  | t, q, k + 1 =>
    match getAt t (q.take (k + 1)) with
    | some (.dict _ []) => pruneUp ((delAt t (q.take (k + 1))).getD t) q k
    | _ => pruneUp t q k

def C05_delete_recursive_stmt : Prop :=
  ∀ (cls : Cls) (kvs : List (Str × Val)) (p : Pos) (c t' : Val) (fuel : Nat),
    PlainPos p → p ≠ [] → getAt (.dict cls kvs) p = some c → delAt (.dict cls kvs) p = some t' →
    fuel ≥ 2 * p.length →
    delete fuel (.dict cls kvs) (slash ++ renderPos p) true = (pruneUp t' p.dropLast (p.length - 1), .ok ())

/-! Non-vacuity. -/
def exTree : Val :=
  .dict .n0 [(['a'], .dict .plain [(['b'], .list .plain [.int 1, .list .n0 [.str ['x'], .none]])]),
             (['k'], .bool true)]

example : (delete 20 exTree ['a', '/', 'b', '[', '1', ']', '[', '0', ']'] false) =
    (.dict .n0 [(['a'], .dict .plain [(['b'], .list .plain [.int 1, .list .n0 [.none]])]), (['k'], .bool true)], .ok ()) := by
  decide
example : pop 20 exTree ['/', '/', 'k'] (.str ['D']) false
    = .ok (.dict .n0 [(['a'], .dict .plain [(['b'], .list .plain [.int 1, .list .n0 [.str ['x'], .none]])])], .bool true) := by
  decide
example : pop 20 exTree ['z', '/', 'y'] (.str ['D']) false = .ok (exTree, .str ['D']) := by decide

end N0.C05
