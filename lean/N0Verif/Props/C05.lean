import N0Verif.Proofs.XPathDelete
import N0Verif.Proofs.XPathDeleteRec
import N0Verif.Proofs.XPathSpellings
import N0Verif.Props.C01
import N0Verif.Proofs.XPathHistory
import N0Verif.Proofs.XPathHidden
import N0Verif.Proofs.XPathMiss
import N0Verif.Proofs.XPathHiddenPop
/-!
# C05 — delete and pop remove exactly the addressed node

Reference semantics: `Val.delAt t p` (a dict entry disappears, later list elements shift down,
nothing else changes).
-/
namespace N0.C05
open N0 N0.Py N0.Val N0.XPath

theorem delAt_isSome (p : Pos) (t c : Val) (hne : p ≠ []) (hg : getAt t p = some c) :
    ∃ t', delAt t p = some t' := delAt_isSome' p t c hne hg

/-- **C05 (delete, any spelling, token level).**  Whatever token list spells the position of an
existing node (index steps in any of the spellings of C01), `delete` removes exactly that node:
the result is `delAt t p`, and nothing is raised. -/
theorem C05_delete_spelled (fuel : Nat) (toks : List Str) (t : Val) (p : Pos) (c t' : Val)
    (hs : Spells toks t p c) (hne : toks ≠ []) (hdel : delAt t p = some t')
    (hf : fuel ≥ 2 * toks.length) :
    deleteLoop fuel toks false t toks.length true = (t', .ok ()) :=
  deleteLoop_spelled fuel toks t p c t' hs hne hdel hf

/-- **C05 (delete).**  `d.delete(xpath)` on the canonical path of an existing node of a
dict-rooted tree yields exactly `delAt t p`. -/
theorem C05_delete (cls : Cls) (kvs : List (Str × Val)) (p : Pos) (c : Val)
    (hp : PlainPos p) (hne : p ≠ []) (hget : getAt (.dict cls kvs) p = some c)
    (fuel : Nat) (hf : fuel ≥ 2 * p.length) :
    ∃ t', delAt (.dict cls kvs) p = some t' ∧
      delete fuel (.dict cls kvs) (slash ++ renderPos p) false = (t', .ok ()) := by
  obtain ⟨t', ht'⟩ := delAt_isSome p _ c hne hget
  refine ⟨t', ht', ?_⟩
  have hs := spells_merged p (.dict cls kvs) c hp hget
  have hlen := mergedToks_length_le p
  have htok : tokenize (slash ++ renderPos p) = mergedToks p := tokenize_render p hp
  unfold delete deleteTokens
  simp only [stripQ_slash, htok]
  exact deleteLoop_spelled fuel _ _ p c t' hs (mergedToks_ne_nil p hne) ht' (by omega)

/-- **C05 (pop, hit).**  `pop` returns the value lookup returns and has the effect of `delete`. -/
theorem C05_pop_hit (cls : Cls) (kvs : List (Str × Val)) (p : Pos) (c d : Val)
    (hp : PlainPos p) (hne : p ≠ []) (hget : getAt (.dict cls kvs) p = some c)
    (fuel : Nat) (hf : fuel ≥ 2 * p.length) :
    ∃ t', delAt (.dict cls kvs) p = some t' ∧
      pop fuel (.dict cls kvs) (slash ++ renderPos p) d false = .ok (t', c) := by
  obtain ⟨t', ht', hdel⟩ := C05_delete cls kvs p c hp hne hget fuel hf
  refine ⟨t', ht', ?_⟩
  have hget' := (N0.C01.C01_resolves_node cls kvs p c d hp hne hget fuel hf).1
  unfold pop
  rw [stripQ_slash, hget']
  simp only [hdel]

/-- **C05 (pop, miss).**  When item access raises (the path does not resolve) and leaves the
tree as it was, `pop` returns the default and changes nothing.  The path is taken without a leading '?'
(`stripQ`, fix C05-c; `stripQ xp = xp` for every other path, `stripQ_noQ`): with the '?' item access would answer ''
instead of raising, and `pop` returned that '' instead of the caller's default. -/
theorem C05_pop_miss (fuel : Nat) (t : Val) (xp : Str) (d : Val) (r : Bool) (e : PyErr)
    (hmiss : getItem fuel t (stripQ xp) = (t, .error e)) (h1 : e ≠ .OutOfFuel) (h2 : e ≠ .Unsupported) :
    pop fuel t xp d r = .ok (t, d) := by
  unfold pop
  rw [hmiss]
  cases e <;> simp_all

/-- a dict entry removed by `delAt` is gone (keys are unique) -/
theorem kvDel_lookup (k : Str) : ∀ kvs : List (Str × Val), PlainKvs kvs → lookup k (kvDel k kvs) = Option.none
  | [], _ => by simp [kvDel, lookup]
  | (k', x) :: kvs, h => by
      by_cases hk : k = k'
      · subst hk
        simp only [kvDel, if_true]
        exact h.2.1
      · simp [kvDel, hk, lookup, kvDel_lookup k kvs h.2.2.2]

/-- **C05 (a popped dict entry is no longer present).** -/
theorem C05_pop_not_present (t t' : Val) (q : Pos) (k : Str) (cls : Cls) (kvs : List (Str × Val))
    (hq : getAt t q = some (.dict cls kvs)) (hu : PlainKvs kvs)
    (hdel : delAt t (q ++ [.key k]) = some t') : getAt t' (q ++ [.key k]) = Option.none := by
  by_cases hh : kvHas k kvs = true
  · have hsn := delAt_snoc q t (.key k) (.dict cls kvs) (.dict cls (kvDel k kvs)) hq (by simp [delChild, hh])
    rw [hsn] at hdel
    rw [getAt_snoc, getAt_setAt_same q t t' _ hdel (fun _ _ => trivial)]
    simp [child, kvDel_lookup k kvs hu]
  · rw [delAt_key_missing t q k cls kvs hq (by simpa using hh)] at hdel
    cases hdel

/-! ### `recursively=True`

Reference: `pruneUp t q k` (defined in `Proofs/XPathDeleteRec.lean`) visits the *position* prefixes
of `q` of length `k, k-1, …, 1`, deepest first, and removes each one that is an empty dictionary at
the moment it is visited.  Its defining equations: -/

theorem pruneUp_zero (t : Val) (q : Pos) : pruneUp t q 0 = t := rfl

theorem pruneUp_succ (t : Val) (q : Pos) (k : Nat) :
    pruneUp t q (k + 1) =
      match getAt t (q.take (k + 1)) with
      | some (.dict _ []) => pruneUp ((delAt t (q.take (k + 1))).getD t) q k
      | _ => pruneUp t q k := by
  rw [pruneUp, pruneStep]
  cases hg : getAt t (q.take (k + 1)) with
  | none => rfl
  | some v =>
    cases v with
    | dict cls kvs => cases kvs <;> simp [isEmptyDict]
    | _ => simp [isEmptyDict]

/-- **C05 (delete recursively, any spelling, token level).**  Whatever token list spells the
position of an existing node, `delete(…, recursively=True)` removes that node and then exactly
the ancestors that became empty dictionaries, deepest first (a position skipped by a merged token
`key[i]` holds a list and is never removed). -/
theorem C05_delete_recursive_spelled (fuel : Nat) (toks : List Str) (t : Val) (p : Pos) (c t' : Val)
    (hs : Spells toks t p c) (hne : toks ≠ []) (hdel : delAt t p = some t')
    (hf : fuel ≥ 2 * toks.length) :
    deleteLoop fuel toks true t toks.length true = (pruneUp t' p.dropLast (p.length - 1), .ok ()) :=
  deleteLoop_rec_spelled fuel toks t p c t' hs hne hdel hf

/-- **C05 (delete recursively).**  Closed form of `d.delete(xpath, recursively=True)` on the
canonical path of an existing node of a dict-rooted tree with plain keys. -/
theorem C05_delete_recursive (cls : Cls) (kvs : List (Str × Val)) (p : Pos) (c t' : Val) (fuel : Nat)
    (hp : PlainPos p) (hne : p ≠ []) (hget : getAt (.dict cls kvs) p = some c)
    (hdel : delAt (.dict cls kvs) p = some t') (hf : fuel ≥ 2 * p.length) :
    delete fuel (.dict cls kvs) (slash ++ renderPos p) true
      = (pruneUp t' p.dropLast (p.length - 1), .ok ()) := by
  have hs := spells_merged p (.dict cls kvs) c hp hget
  have hlen := mergedToks_length_le p
  have htok : tokenize (slash ++ renderPos p) = mergedToks p := tokenize_render p hp
  unfold delete deleteTokens
  simp only [stripQ_slash, htok]
  exact deleteLoop_rec_spelled fuel _ _ p c t' hs (mergedToks_ne_nil p hne) hdel (by omega)

/-- **nothing else is removed**: when the parent of the deleted node is not an empty dictionary
afterwards (it is a list, or a dictionary that still has entries), `recursively=True` removes the
addressed node only. -/
theorem C05_delete_recursive_stops (cls : Cls) (kvs : List (Str × Val)) (p : Pos) (c t' pv : Val) (fuel : Nat)
    (hp : PlainPos p) (hne : p ≠ []) (hget : getAt (.dict cls kvs) p = some c)
    (hdel : delAt (.dict cls kvs) p = some t') (hf : fuel ≥ 2 * p.length)
    (hpar : getAt t' p.dropLast = some pv) (hnonempty : isEmptyDict pv = false) :
    delete fuel (.dict cls kvs) (slash ++ renderPos p) true = (t', .ok ()) := by
  rw [C05_delete_recursive cls kvs p c t' fuel hp hne hget hdel hf]
  have hl : p.dropLast.length = p.length - 1 := by simp
  rw [← hl, pruneUp_stop p.dropLast.length t' p.dropLast pv (Nat.le_refl _)
    (by rw [List.take_of_length_le (Nat.le_refl _)]; exact hpar) (fun _ => hnonempty)]

/-- **C05 (pop, hit, recursively).**  `pop(…, recursively=True)` returns the value lookup returns
and has the effect of `delete(…, recursively=True)`. -/
theorem C05_pop_hit_recursive (cls : Cls) (kvs : List (Str × Val)) (p : Pos) (c d : Val)
    (hp : PlainPos p) (hne : p ≠ []) (hget : getAt (.dict cls kvs) p = some c)
    (fuel : Nat) (hf : fuel ≥ 2 * p.length) :
    ∃ t', delAt (.dict cls kvs) p = some t' ∧
      pop fuel (.dict cls kvs) (slash ++ renderPos p) d true
        = .ok (pruneUp t' p.dropLast (p.length - 1), c) := by
  obtain ⟨t', ht'⟩ := delAt_isSome p _ c hne hget
  refine ⟨t', ht', ?_⟩
  have hdel := C05_delete_recursive cls kvs p c t' fuel hp hne hget ht' hf
  have hget' := (N0.C01.C01_resolves_node cls kvs p c d hp hne hget fuel hf).1
  unfold pop
  rw [stripQ_slash, hget']
  simp only [hdel]

/-! ### every spelling lookup accepts, at the string level -/

/-- **C05 (delete, every spelling).**  Whatever spelling of the path of an existing node is used
(`renderSp`: prefix none, `/` or `//`; `a[i][j]`, `a[i]/[j]` or `a/[i]/[j]`; each index as `i`,
`-k`, `last()`, `last()-k` or `i+j`), `delete` removes exactly the node plain Python indexing
reaches (`posOf`), and with `recursively=True` additionally the emptied dictionary ancestors. -/
theorem C05_delete_spellings (cls : Cls) (kvs : List (Str × Val)) (lead : Lead) (steps : List StepSp)
    (c : Val) (hp : PlainSteps steps) (hne : steps ≠ [])
    (hget : stepsGet (.dict cls kvs) steps = some c) (fuel : Nat) (hf : fuel ≥ 2 * steps.length) :
    let t := Val.dict cls kvs
    let p := posOf t steps
    ∃ t', delAt t p = some t' ∧
      delete fuel t (renderSp lead steps) false = (t', .ok ()) ∧
      delete fuel t (renderSp lead steps) true = (pruneUp t' p.dropLast (p.length - 1), .ok ()) := by
  intro t p
  have hs := spells_steps steps t c hp hget
  have hpne : p ≠ [] := spells_pos_ne_nil hs (toksOf_ne_nil steps hne)
  obtain ⟨t', ht'⟩ := delAt_isSome p t c hpne hs.getAt
  refine ⟨t', ht', ?_, ?_⟩
  · simpa using delete_spelling fuel cls kvs lead steps c t' false hp hne hget ht' hf
  · simpa using delete_spelling fuel cls kvs lead steps c t' true hp hne hget ht' hf

/-- **C05 (pop, every spelling).** -/
theorem C05_pop_spellings (cls : Cls) (kvs : List (Str × Val)) (lead : Lead) (steps : List StepSp)
    (c d : Val) (hp : PlainSteps steps) (hne : steps ≠ [])
    (hget : stepsGet (.dict cls kvs) steps = some c) (fuel : Nat) (hf : fuel ≥ 2 * steps.length) :
    let t := Val.dict cls kvs
    let p := posOf t steps
    ∃ t', delAt t p = some t' ∧
      pop fuel t (renderSp lead steps) d false = .ok (t', c) ∧
      pop fuel t (renderSp lead steps) d true = .ok (pruneUp t' p.dropLast (p.length - 1), c) := by
  intro t p
  obtain ⟨t', ht', h1, h2⟩ := C05_delete_spellings cls kvs lead steps c hp hne hget fuel hf
  have hgi := (N0.C01.C01_spellings_string cls kvs lead steps c d hp hne hget fuel hf).1
  refine ⟨t', ht', ?_, ?_⟩
  · unfold pop; rw [stripQ_noQ _ (renderSp_noQ lead steps hp hne), hgi]; simp only [h1]
  · unfold pop; rw [stripQ_noQ _ (renderSp_noQ lead steps hp hne), hgi]; simp only [h2]; rfl

/-! ### the '?' spelling (fix C05-c)

Lookup and assignment read a leading '?' as "do not raise for a miss" and resolve the rest: `d['?a/b']` is `d['a/b']` for
every path that resolves, so `'?' + xpath` is a spelling lookup accepts.  Before the fix `delete` took the '?' as a part of
the first name (KeyError for an existing node), and `pop`, which swallows whatever `delete` raises, returned the value and
left it in the tree; for a miss it returned the '' of `d['?…']` instead of the caller's default. -/

/-- **C05 ('?' is not a part of the path).**  `delete('?' + xpath)` is `delete(xpath)` and `pop('?' + xpath, d)` is
`pop(xpath, d)`, whatever the path, the tree and the outcome are (`xpath` itself not starting with a second '?'). -/
theorem C05_qmark (fuel : Nat) (t : Val) (xp : Str) (d : Val) (r : Bool) (hq : startsWith xp ['?'] = false) :
    delete fuel t ('?' :: xp) r = delete fuel t xp r ∧ pop fuel t ('?' :: xp) d r = pop fuel t xp d r := by
  constructor
  · unfold delete deleteTokens; rw [stripQ_q, stripQ_noQ _ hq]
  · unfold pop; rw [stripQ_q, stripQ_noQ _ hq]

/-- **C05 (delete and pop, every spelling, with '?').**  The statement of `C05_delete_spellings` / `C05_pop_spellings` for
`'?' + spelling`: the node plain Python indexing reaches is removed (with `recursively=True` also the emptied dictionary
ancestors), `pop` returns its value - which is therefore not present afterwards. -/
theorem C05_qmark_spellings (cls : Cls) (kvs : List (Str × Val)) (lead : Lead) (steps : List StepSp)
    (c d : Val) (hp : PlainSteps steps) (hne : steps ≠ [])
    (hget : stepsGet (.dict cls kvs) steps = some c) (fuel : Nat) (hf : fuel ≥ 2 * steps.length) :
    let t := Val.dict cls kvs
    let p := posOf t steps
    ∃ t', delAt t p = some t' ∧
      delete fuel t ('?' :: renderSp lead steps) false = (t', .ok ()) ∧
      delete fuel t ('?' :: renderSp lead steps) true = (pruneUp t' p.dropLast (p.length - 1), .ok ()) ∧
      pop fuel t ('?' :: renderSp lead steps) d false = .ok (t', c) ∧
      pop fuel t ('?' :: renderSp lead steps) d true = .ok (pruneUp t' p.dropLast (p.length - 1), c) := by
  intro t p
  have hq := renderSp_noQ lead steps hp hne
  obtain ⟨t', ht', h1, h2⟩ := C05_delete_spellings cls kvs lead steps c hp hne hget fuel hf
  obtain ⟨t2, ht2, h3, h4⟩ := C05_pop_spellings cls kvs lead steps c d hp hne hget fuel hf
  have : t2 = t' := by
    have := ht'.symm.trans ht2
    exact (Option.some.inj this).symm
  subst this
  refine ⟨t2, ht', ?_, ?_, ?_, ?_⟩
  · rw [(C05_qmark fuel _ _ d false hq).1]; exact h1
  · rw [(C05_qmark fuel _ _ d true hq).1]; exact h2
  · rw [(C05_qmark fuel _ _ d false hq).2]; exact h3
  · rw [(C05_qmark fuel _ _ d true hq).2]; exact h4

/-- **C05 (pop of a missing '?' path).**  When item access on `xpath` raises and leaves the tree alone, `pop('?' + xpath, d)`
returns `d` - the caller's default, not the '' item access gives for the '?' path - and changes nothing. -/
theorem C05_qmark_pop_miss (fuel : Nat) (t : Val) (xp : Str) (d : Val) (r : Bool) (e : PyErr)
    (hmiss : getItem fuel t xp = (t, .error e)) (h1 : e ≠ .OutOfFuel) (h2 : e ≠ .Unsupported) :
    pop fuel t ('?' :: xp) d r = .ok (t, d) :=
  C05_pop_miss fuel t ('?' :: xp) d r e (by rw [stripQ_q]; exact hmiss) h1 h2

/-- the witnesses of the finding on `{a: 1, d: {b: 'x'}, h: [1, 2]}`: `pop('?a')`, `pop('?d/b')`, `pop('?h[0]')` return the
value and remove it, `pop('?zz', 'D')` and `pop('?h[9]', 'D')` return 'D', `delete('?a')` removes `a` -/
def exQ : Val :=
  .dict .n0 [(['a'], .int 1), (['d'], .dict .n0 [(['b'], .str ['x'])]), (['h'], .list .n0 [.int 1, .int 2])]
theorem C05_qmark_ok :
    pop 20 exQ ['?', 'a'] Val.none false
      = .ok (.dict .n0 [(['d'], .dict .n0 [(['b'], .str ['x'])]), (['h'], .list .n0 [.int 1, .int 2])], .int 1) ∧
    pop 20 exQ ['?', 'd', '/', 'b'] Val.none false
      = .ok (.dict .n0 [(['a'], .int 1), (['d'], .dict .n0 []), (['h'], .list .n0 [.int 1, .int 2])], .str ['x']) ∧
    pop 20 exQ ['?', 'h', '[', '0', ']'] Val.none false
      = .ok (.dict .n0 [(['a'], .int 1), (['d'], .dict .n0 [(['b'], .str ['x'])]), (['h'], .list .n0 [.int 2])], .int 1) ∧
    pop 20 exQ ['?', 'z', 'z'] (.str ['D']) false = .ok (exQ, .str ['D']) ∧
    pop 20 exQ ['?', 'h', '[', '9', ']'] (.str ['D']) false = .ok (exQ, .str ['D']) ∧
    delete 20 exQ ['?', 'a'] false
      = (.dict .n0 [(['d'], .dict .n0 [(['b'], .str ['x'])]), (['h'], .list .n0 [.int 1, .int 2])], .ok ()) := by
  decide
-- the hypotheses of `C05_qmark_spellings` / `C05_qmark_pop_miss` are inhabited
example : ∃ t', delAt exQ (posOf exQ [.key ['h'], .idx .last false]) = some t' ∧
    delete 20 exQ ('?' :: renderSp .rel [.key ['h'], .idx .last false]) false = (t', .ok ()) ∧
    pop 20 exQ ('?' :: renderSp .rel [.key ['h'], .idx .last false]) (.str ['D']) false = .ok (t', .int 2) := by
  obtain ⟨t', h0, h1, _, h3, _⟩ := C05_qmark_spellings .n0
    [(['a'], .int 1), (['d'], .dict .n0 [(['b'], .str ['x'])]), (['h'], .list .n0 [.int 1, .int 2])] .rel [.key ['h'], .idx .last false] (.int 2) (.str ['D'])
    ⟨⟨by simp, by intro x hx; simp at hx; subst hx; decide, by simp⟩, trivial⟩ (by simp) (by decide) 20 (by decide)
  exact ⟨t', h0, h1, h3⟩
example : pop 20 exQ ('?' :: ['z', 'z', '/', 'y']) (.str ['D']) true = .ok (exQ, .str ['D']) :=
  C05_qmark_pop_miss 20 exQ _ _ true .IndexError (by decide) (by decide) (by decide)

/-! ### frame: what `delAt` leaves alone -/

/-- **frame (dict entry).**  Removing the entry `k` of the dictionary at `q` changes no position
that diverges from `q ++ [k]` (neither a prefix of it nor below it). -/
theorem C05_frame_dict (t t' : Val) (q : Pos) (k : Str) (r : Pos)
    (hdel : delAt t (q ++ [.key k]) = some t') (hd : Diverge (q ++ [.key k]) r) :
    getAt t' r = getAt t r :=
  getAt_delAt_key_frame t t' q k r hdel hd

/-- **frame (list element).**  Removing element `n` of the list at `q`: positions diverging from
`q` keep their value, elements before `n` keep their index, later ones shift down by one, and the
list itself is the old one with element `n` erased. -/
theorem C05_frame_list (t t' : Val) (q : Pos) (n : Nat)
    (hdel : delAt t (q ++ [.idx n]) = some t') :
    (∀ r, Diverge q r → getAt t' r = getAt t r) ∧
    (∀ m r', m < n → getAt t' (q ++ .idx m :: r') = getAt t (q ++ .idx m :: r')) ∧
    (∀ m r', n ≤ m → getAt t' (q ++ .idx m :: r') = getAt t (q ++ .idx (m + 1) :: r')) ∧
    (∃ cls xs, getAt t q = some (.list cls xs) ∧ n < xs.length ∧
      getAt t' q = some (.list cls (xs.eraseIdx n))) :=
  getAt_delAt_idx_frame t t' q n hdel

/-! Non-vacuity. -/
def exTree : Val :=
  .dict .n0 [(['a'], .dict .plain [(['b'], .list .plain [.int 1, .list .n0 [.str ['x'], .none]])]),
             (['k'], .bool true)]

example : (delete 20 exTree ['a', '/', 'b', '[', '1', ']', '[', '0', ']'] false) =
    (.dict .n0 [(['a'], .dict .plain [(['b'], .list .plain [.int 1, .list .n0 [.none]])]), (['k'], .bool true)], .ok ()) := by
  decide
example : pop 20 exTree ['/', '/', 'k'] (.str ['D']) false
    = .ok (.dict .n0 [(['a'], .dict .plain [(['b'], .list .plain [.int 1, .list .n0 [.str ['x'], .none]])])], .bool true) := by
  decide
example : pop 20 exTree ['z', '/', 'y'] (.str ['D']) false = .ok (exTree, .str ['D']) := by decide


/-- `recursively=True`: `/a/b[0]/c` is removed, then the emptied `b[0]` (a dict inside a list:
the merged token `b[0]`), then nothing else (`b` is a list, `a` still has it) -/
def exRec : Val :=
  .dict .n0 [(['a'], .dict .plain [(['b'], .list .plain [.dict .plain [(['c'], .int 1)]])]), (['k'], .bool true)]

example : delete 20 exRec ['/', '/', 'a', '/', 'b', '[', '0', ']', '/', 'c'] true =
    (.dict .n0 [(['a'], .dict .plain [(['b'], .list .plain [])]), (['k'], .bool true)], .ok ()) := by decide
example : delete 20 exRec ['/', '/', 'a', '/', 'b', '[', '0', ']', '/', 'c'] false =
    (.dict .n0 [(['a'], .dict .plain [(['b'], .list .plain [.dict .plain []])]), (['k'], .bool true)], .ok ()) := by decide
example : pruneUp (.dict .n0 [(['a'], .dict .plain [(['b'], .list .plain [.dict .plain []])]), (['k'], .bool true)])
    [.key ['a'], .key ['b'], .idx 0] 3 =
    .dict .n0 [(['a'], .dict .plain [(['b'], .list .plain [])]), (['k'], .bool true)] := by decide

/-- a chain of dictionaries that all become empty is removed up to the first ancestor with another entry -/
def exChain : Val :=
  .dict .n0 [(['a'], .dict .n0 [(['b'], .dict .n0 [(['c'], .int 1)])]), (['k'], .bool true)]

example : delete 20 exChain ['a', '/', 'b', '/', 'c'] true = (.dict .n0 [(['k'], .bool true)], .ok ()) := by decide
example : pop 20 exChain ['/', 'a', '/', 'b', '/', 'c'] (.str ['D']) true = .ok (.dict .n0 [(['k'], .bool true)], .int 1) := by
  decide
-- the hypotheses of `C05_delete_recursive_stops` are inhabited (parent keeps another entry)
example : getAt (.dict .n0 [(['a'], .int 1), (['k'], .bool true)]) [.key ['a']] = some (.int 1) ∧
    delAt (.dict .n0 [(['a'], .int 1), (['k'], .bool true)]) [.key ['a']] = some (.dict .n0 [(['k'], .bool true)]) ∧
    isEmptyDict (.dict .n0 [(['k'], .bool true)]) = false := by decide
-- frame lemmas: a diverging position / a shifted list element
example : Diverge ([.key ['a']] ++ [.key ['b']]) [.key ['k']] := by simp [Diverge]
example : delAt exTree ([.key ['a'], .key ['b'], .idx 1] ++ [.idx 0]) =
    some (.dict .n0 [(['a'], .dict .plain [(['b'], .list .plain [.int 1, .list .n0 [.none]])]), (['k'], .bool true)]) := by
  decide


-- a spelling: `//a/b/[last()]/c` addresses `/a/b[0]/c` of `exRec`
example : renderSp .two [.key ['a'], .key ['b'], .idx .last true, .key ['c']] =
    ['/', '/', 'a', '/', 'b', '/', '[', 'l', 'a', 's', 't', '(', ')', ']', '/', 'c'] ∧
    stepsGet exRec [.key ['a'], .key ['b'], .idx .last true, .key ['c']] = some (.int 1) ∧
    posOf exRec [.key ['a'], .key ['b'], .idx .last true, .key ['c']] = [.key ['a'], .key ['b'], .idx 0, .key ['c']] := by
  decide
example : delete 20 exRec (renderSp .two [.key ['a'], .key ['b'], .idx .last true, .key ['c']]) true =
    (.dict .n0 [(['a'], .dict .plain [(['b'], .list .plain [])]), (['k'], .bool true)], .ok ()) := by decide

/-! ### sequences mixing deletes with C02/C03 writes

`Hist.Op` (defined in `Proofs/XPathHistory.lean`, see `Props/C03.lean` §6): a write to an existing node,
a creation below an existing dict node, a `delete` or a `pop` of an existing node (both with and
without `recursively`), each called with the canonical path of the node in the **current** state.
Reference: `Hist.applyOp` (`setAt`, `createIn`, `delAt`, `pruneUp` on plain trees). -/

/-- **C05 (histories).**  After any sequence mixing deletes and pops with C02/C03 writes the tree
equals the plain model that applied the same operations; nothing raises; the list `obs` of what the
calls returned holds, for every `pop`, the node that lookup returned in the state before it. -/
theorem C05_history (fuel : Nat) (ops : List Hist.Op) (cls : Cls) (kvs : List (Str × Val))
    (hv : Hist.ValidOps (.dict cls kvs) ops) (hf : ∀ op ∈ ops, fuel ≥ Hist.opFuel op) :
    ∃ t' obs, Hist.applyOps (.dict cls kvs) ops = some (t', obs) ∧
      Hist.runOps fuel (.dict cls kvs) ops = (t', .ok obs) :=
  Hist.history fuel ops cls kvs hv hf

/-- the reference semantics of a `delete`/`pop` inside a history is the one of `C05_delete` /
`C05_delete_recursive` -/
theorem C05_history_delRef (t : Val) (p : Pos) (d : Val) :
    Hist.applyOp t (.del p false) = delAt t p ∧
    Hist.applyOp t (.pop p d false) = delAt t p ∧
    Hist.applyOp t (.del p true) = (delAt t p).map (fun t' => pruneUp t' p.dropLast (p.length - 1)) ∧
    Hist.applyOp t (.pop p d true) = (delAt t p).map (fun t' => pruneUp t' p.dropLast (p.length - 1)) ∧
    Hist.obsOp t (.pop p d false) = getAt t p := by
  refine ⟨?_, ?_, rfl, rfl, rfl⟩ <;> simp [Hist.applyOp, Hist.delRef]

/-- **a popped dict entry is not present afterwards**, also inside a history (the state `t` is any
state the history has reached) -/
theorem C05_history_pop_gone (t t' : Val) (q : Pos) (k : Str) (d : Val) (cls : Cls) (kvs : List (Str × Val))
    (hq : getAt t q = some (.dict cls kvs)) (hu : PlainKvs kvs)
    (ha : Hist.applyOp t (.pop (q ++ [.key k]) d false) = some t') : getAt t' (q ++ [.key k]) = Option.none := by
  have : delAt t (q ++ [.key k]) = some t' := by simpa [Hist.applyOp, Hist.delRef] using ha
  exact C05_pop_not_present t t' q k cls kvs hq hu this

/-! Non-vacuity: on `exChain` (`{a: {b: {c: 1}}, k: True}`)
1. `d.pop('//a/b/c', 'D', recursively=True)` returns 1 and removes `c`, `b`, `a`;
2. `d['//a/b[new()]/c'] = 2` re-creates below the root;
3. `d['//k'] = {…}` overwrites a scalar by a container (C02);
4. `d.delete('//k/z')` removes an entry of the container just written;
5. `d.delete('//a/b[0]')` removes the list element (the list stays, empty). -/
theorem pk (c : Char) (h : plainChar c = true := by decide) : PlainKey [c] :=
  ⟨by simp, by intro x hx; simp at hx; subst hx; exact h, by simp⟩

def exHistory : List Hist.Op :=
  [ .pop [.key ['a'], .key ['b'], .key ['c']] (.str ['D']) true,
    .create [] (.name ['a']) [.elem ['b'] ['n', 'e', 'w', '(', ')'], .name ['c']] (.int 2),
    .write [.key ['k']] (.dict .plain [(['z'], .int 0), (['y'], .none)]),
    .del [.key ['k'], .key ['z']] false,
    .del [.key ['a'], .key ['b'], .idx 0] false ]

theorem exHistory_valid : Hist.ValidOps exChain exHistory := by
  refine .cons (t' := .dict .n0 [(['k'], .bool true)]) ?_ (by decide) ?_
  · exact ⟨⟨pk 'a', pk 'b', pk 'c', trivial⟩, by simp, _, rfl⟩
  refine .cons (t' := .dict .n0 [(['k'], .bool true),
      (['a'], .dict .n0 [(['b'], .list .n0 [.dict .n0 [(['c'], .int 2)]])])]) ?_ (by decide) ?_
  · refine ⟨trivial, pk 'a', ?_, by simp [GOk, CStep.isName], (by intro h; cases h)⟩
    intro x hx; simp at hx; rcases hx with rfl | rfl
    · exact ⟨pk 'b', Or.inl (by decide)⟩
    · exact pk 'c'
  refine .cons (t' := .dict .n0 [(['k'], .dict .plain [(['z'], .int 0), (['y'], .none)]),
      (['a'], .dict .n0 [(['b'], .list .n0 [.dict .n0 [(['c'], .int 2)]])])]) ?_ (by decide) ?_
  · exact ⟨⟨pk 'k', trivial⟩, by simp, _, rfl⟩
  refine .cons (t' := .dict .n0 [(['k'], .dict .plain [(['y'], .none)]),
      (['a'], .dict .n0 [(['b'], .list .n0 [.dict .n0 [(['c'], .int 2)]])])]) ?_ (by decide) ?_
  · exact ⟨⟨pk 'k', pk 'z', trivial⟩, by simp, _, rfl⟩
  refine .cons (t' := .dict .n0 [(['k'], .dict .plain [(['y'], .none)]),
      (['a'], .dict .n0 [(['b'], .list .n0 [])])]) ?_ (by decide) (.nil _)
  · exact ⟨⟨pk 'a', pk 'b', trivial⟩, by simp, _, rfl⟩

example : Hist.runOps 40 exChain exHistory
    = (.dict .n0 [(['k'], .dict .plain [(['y'], .none)]), (['a'], .dict .n0 [(['b'], .list .n0 [])])],
       .ok [some (.int 1), Option.none, Option.none, Option.none, Option.none]) := by decide
example : ∃ t' obs, Hist.applyOps exChain exHistory = some (t', obs) ∧
    Hist.runOps 40 exChain exHistory = (t', .ok obs) :=
  C05_history 40 exHistory .n0 _ exHistory_valid (by decide)
example : exHistory.map Hist.opPath =
    [['/', '/', 'a', '/', 'b', '/', 'c'],
     ['/', '/', 'a', '/', 'b', '[', 'n', 'e', 'w', '(', ')', ']', '/', 'c'],
     ['/', '/', 'k'], ['/', '/', 'k', '/', 'z'], ['/', '/', 'a', '/', 'b', '[', '0', ']']] := by decide

/-! ## hidden lists (fix C03-e)

Lookup reads a value that is not a list as the list of this one item (`d['a[0]']`, `d['a[-1]']`, `d['a[last()]']` are
`d['a']`); "accepts every spelling of the path that lookup accepts" therefore includes these spellings, and what has to
be removed is the node lookup returns.  Before the fix `delete` deleted from the temporary list `_find` had built: it
returned without error and removed nothing, and `pop` returned a value that was still present afterwards. -/

/-- **C05 (delete through a hidden list).**  `d.delete('//…q…/name[e]')`, `e` any spelling of `0` or `-1`, on the
single value `old` of `name` removes exactly `name` (`delAt`) and raises nothing. -/
theorem C05_delete_hidden_list (cls : Cls) (kvs : List (Str × Val)) (q : Pos) (kcls : Cls) (nkvs : List (Str × Val))
    (name : Str) (old : Val) (e : IdxSp) (fuel : Nat)
    (hp : PlainPos q) (hget : getAt (.dict cls kvs) q = some (.dict kcls nkvs)) (hn : PlainKey name)
    (hl : lookup name nkvs = some old) (hs : isList old = false) (he : e.val = 0 ∨ e.val = -1)
    (hf : fuel ≥ 2 * q.length + 2) :
    ∃ t', delAt (.dict cls kvs) (q ++ [.key name]) = some t' ∧
      delete fuel (.dict cls kvs) (slash ++ renderPos q ++ slash ++ (name ++ bracket e.text)) false = (t', .ok ()) := by
  have hP : getAt (.dict cls kvs) (q ++ [Seg.key name]) = some old := by
    rw [getAt_snoc, hget]; simp [child, hl]
  obtain ⟨t', ht'⟩ := delAt_isSome (q ++ [.key name]) _ old (by simp) hP
  exact ⟨t', ht', delete_hidden cls kvs q kcls nkvs name old e t' fuel hp hget hn hl hs he ht' hf⟩

/-- the witnesses of the finding, evaluated on `{a: 1, o: {p: {q: 1}}, h: [1, {x: 1}, {}]}`: `delete('a[0]')` removes `a`;
`pop('a[0]')` returns `1` and removes it; recursive pruning sees the real ancestors (`o[0]/p/q`, `o/p[0]/q` remove `o` as
the plain path does); an index written as a step of its own after an element of a list (`h[1][0]/x`) prunes `h[1]` once and
leaves the element that shifts into its place alone; an item that does not exist (`a[3]`) raises -/
def exHidden : Val :=
  .dict .n0 [(['a'], .int 1), (['o'], .dict .n0 [(['p'], .dict .n0 [(['q'], .int 1)])]),
             (['h'], .list .n0 [.int 1, .dict .n0 [(['x'], .int 1)], .dict .n0 []])]
theorem C05_hidden_list_ok :
    delete 40 exHidden ['a', '[', '0', ']'] false
      = (.dict .n0 [(['o'], .dict .n0 [(['p'], .dict .n0 [(['q'], .int 1)])]),
                    (['h'], .list .n0 [.int 1, .dict .n0 [(['x'], .int 1)], .dict .n0 []])], .ok ()) ∧
    pop 40 exHidden ['a', '[', '-', '1', ']'] (.str ['D']) false
      = .ok (.dict .n0 [(['o'], .dict .n0 [(['p'], .dict .n0 [(['q'], .int 1)])]),
                        (['h'], .list .n0 [.int 1, .dict .n0 [(['x'], .int 1)], .dict .n0 []])], .int 1) ∧
    delete 40 exHidden ['o', '[', '0', ']', '/', 'p', '/', 'q'] true
      = (.dict .n0 [(['a'], .int 1), (['h'], .list .n0 [.int 1, .dict .n0 [(['x'], .int 1)], .dict .n0 []])], .ok ()) ∧
    delete 40 exHidden ['o', '/', 'p', '[', '0', ']', '/', 'q'] true = delete 40 exHidden ['o', '/', 'p', '/', 'q'] true ∧
    delete 40 exHidden ['h', '[', '1', ']', '[', '0', ']', '/', 'x'] true
      = (.dict .n0 [(['a'], .int 1), (['o'], .dict .n0 [(['p'], .dict .n0 [(['q'], .int 1)])]),
                    (['h'], .list .n0 [.int 1, .dict .n0 []])], .ok ()) ∧
    delete 40 exHidden ['a', '[', '3', ']'] false = (exHidden, .error .TypeError) := by
  decide
/-- … and through the theorem -/
example : ∃ t', delAt exHidden [.key ['a']] = some t' ∧
    delete 40 exHidden ['/', '/', 'a', '[', 'l', 'a', 's', 't', '(', ')', ']'] false = (t', .ok ()) :=
  C05_delete_hidden_list .n0 _ [] .n0 _ ['a'] (.int 1) .last 40 trivial rfl (pk 'a') (by decide) rfl (Or.inr rfl) (by decide)

/-! ### missing paths: which kinds of miss are proved to be a miss (worker `c05miss`)

`C05_pop_miss` is conditional on item access raising.  The theorems below discharge that hypothesis, unbounded in the size
and depth of the tree, for the three kinds of missing path below an existing node of a dict-rooted tree with plain keys,
in every spelling of the family of `C05_delete_spellings` (prefix none, `/`, `//` - the canonical path of `xpath()` is
`renderSp .two` with literal attached indexes; index steps attached or separate, `i`, `-k`, `last()`, `last()-k`, `i+j`):
an unknown key, a name step below a scalar, an index out of range.  What the real code does (checked on the checkout):
`d[xp]` raises IndexError, `d.pop(xp, D)` returns `D`, `d.pop(xp)` returns `None` (`if_not_found=None`; `pop` never raises),
`d.delete(xp)` raises KeyError (unknown key: `del parent_node[None]`) / IndexError (below a leaf: the exception of `_find`);
the tree is unchanged in every case. -/

/-- **C05 (pop of a missing path: unknown key).**  `steps` spell the path of an existing dict node, `k` is a key that node
does not have, `tail` is whatever follows it: item access raises IndexError, `pop` returns the default - `None` when called
without one - and the tree is unchanged, with and without `recursively`. -/
theorem C05_pop_miss_unknown_key (cls : Cls) (kvs : List (Str × Val)) (lead : Lead) (steps tail : List StepSp)
    (k : Str) (cls' : Cls) (kvs' : List (Str × Val)) (d : Val) (r : Bool)
    (hp : PlainSteps (steps ++ .key k :: tail))
    (hget : stepsGet (.dict cls kvs) steps = some (.dict cls' kvs')) (hl : lookup k kvs' = Option.none)
    (hlead : lead ≠ .rel ∨ steps ≠ [] ∨ tail ≠ []) (fuel : Nat) (hf : fuel ≥ 2 * steps.length + 1) :
    let t := Val.dict cls kvs
    let xp := renderSp lead (steps ++ .key k :: tail)
    getItem fuel t xp = (t, .error .IndexError) ∧ pop fuel t xp d r = .ok (t, d) ∧
    pop fuel t xp Val.none r = .ok (t, Val.none) := by
  intro t xp
  have h := (miss_unknown_key fuel cls kvs lead steps tail k cls' kvs' hp hget hl hlead hf).1
  have hq := renderSp_noQ lead (steps ++ .key k :: tail) hp (by simp)
  exact ⟨(api_of_miss fuel t xp hq h d r).1, (api_of_miss fuel t xp hq h d r).2.2.2,
    (api_of_miss fuel t xp hq h Val.none r).2.2.2⟩

/-- **C05 (delete of a missing path: unknown key).**  Same paths: `delete` raises KeyError, with and without
`recursively`, and leaves the tree as it was. -/
theorem C05_delete_miss_unknown_key (cls : Cls) (kvs : List (Str × Val)) (lead : Lead) (steps tail : List StepSp)
    (k : Str) (cls' : Cls) (kvs' : List (Str × Val)) (r : Bool)
    (hp : PlainSteps (steps ++ .key k :: tail))
    (hget : stepsGet (.dict cls kvs) steps = some (.dict cls' kvs')) (hl : lookup k kvs' = Option.none)
    (hlead : lead ≠ .rel ∨ steps ≠ [] ∨ tail ≠ []) (fuel : Nat) (hf : fuel ≥ 2 * steps.length + 1) :
    delete fuel (.dict cls kvs) (renderSp lead (steps ++ .key k :: tail)) r = (.dict cls kvs, .error .KeyError) :=
  (miss_unknown_key fuel cls kvs lead steps tail k cls' kvs' hp hget hl hlead hf).2 r

/-- **C05 (pop of a missing path: a name step below a leaf).**  `steps` spell the path of an existing node that is neither
a dict nor a list; a name step `k` (and whatever else) follows. -/
theorem C05_pop_miss_below_leaf (cls : Cls) (kvs : List (Str × Val)) (lead : Lead) (steps tail : List StepSp)
    (k : Str) (c d : Val) (r : Bool) (hp : PlainSteps (steps ++ .key k :: tail))
    (hget : stepsGet (.dict cls kvs) steps = some c) (hleaf : isList c = false ∧ isDict c = false)
    (fuel : Nat) (hf : fuel ≥ 2 * steps.length + 1) :
    let t := Val.dict cls kvs
    let xp := renderSp lead (steps ++ .key k :: tail)
    getItem fuel t xp = (t, .error .IndexError) ∧ pop fuel t xp d r = .ok (t, d) ∧
    pop fuel t xp Val.none r = .ok (t, Val.none) := by
  intro t xp
  have h := (miss_below_leaf fuel cls kvs lead steps tail k c hp hget hleaf.1 hleaf.2 hf).1
  have hq := renderSp_noQ lead (steps ++ .key k :: tail) hp (by simp)
  exact ⟨(api_of_miss fuel t xp hq h d r).1, (api_of_miss fuel t xp hq h d r).2.2.2,
    (api_of_miss fuel t xp hq h Val.none r).2.2.2⟩

/-- **C05 (delete of a missing path: a name step below a leaf).**  `delete` raises IndexError (the exception of `_find`
passes through), tree unchanged. -/
theorem C05_delete_miss_below_leaf (cls : Cls) (kvs : List (Str × Val)) (lead : Lead) (steps tail : List StepSp)
    (k : Str) (c : Val) (r : Bool) (hp : PlainSteps (steps ++ .key k :: tail))
    (hget : stepsGet (.dict cls kvs) steps = some c) (hleaf : isList c = false ∧ isDict c = false)
    (fuel : Nat) (hf : fuel ≥ 2 * steps.length + 1) :
    delete fuel (.dict cls kvs) (renderSp lead (steps ++ .key k :: tail)) r = (.dict cls kvs, .error .IndexError) :=
  (miss_below_leaf fuel cls kvs lead steps tail k c hp hget hleaf.1 hleaf.2 hf).2 r

/-- **C05 (pop of a missing path: index out of range).**  The unconditional form of `C05_pop_miss` for the misses of
`C01_out_of_range_miss` (`stepsMiss`: the steps walk along existing nodes and then index a list out of range). -/
theorem C05_pop_miss_out_of_range (cls : Cls) (kvs : List (Str × Val)) (lead : Lead) (steps : List StepSp) (d : Val)
    (r : Bool) (hp : PlainSteps steps) (hmiss : stepsMiss (.dict cls kvs) steps = true)
    (fuel : Nat) (hf : fuel ≥ 2 * steps.length) :
    pop fuel (.dict cls kvs) (renderSp lead steps) d r = .ok (.dict cls kvs, d) :=
  pop_of_indexError fuel _ _ d r
    (renderSp_noQ lead steps hp (by rintro rfl; rw [stepsMiss_nil] at hmiss; cases hmiss))
    (N0.C01.C01_out_of_range_miss _ (Or.inl ⟨cls, kvs, rfl⟩) lead steps d hp hmiss fuel hf).1

/-- **C05 (delete of a missing path: index out of range).**  Same paths: `delete` raises IndexError (`del parent_node[i]` on
the list), with and without `recursively`, tree unchanged. -/
theorem C05_delete_miss_out_of_range (cls : Cls) (kvs : List (Str × Val)) (lead : Lead) (steps : List StepSp)
    (r : Bool) (hp : PlainSteps steps) (hmiss : stepsMiss (.dict cls kvs) steps = true)
    (fuel : Nat) (hf : fuel ≥ 2 * steps.length) :
    delete fuel (.dict cls kvs) (renderSp lead steps) r = (.dict cls kvs, .error .IndexError) :=
  delete_out_of_range fuel cls kvs lead steps r hp hmiss hf

/-- **C05 (missing paths below the canonical path of a node).**  `slash ++ renderPos p` is the path `xpath()` gives the node at
`p` (C01); followed by `/k`: when the node is a dict without the key `k`, item access raises IndexError, `pop` returns the
default, `delete` raises KeyError; when the node is a scalar, item access and `delete` raise IndexError, `pop` returns the
default; the tree is unchanged every time. -/
theorem C05_miss_canonical (cls : Cls) (kvs : List (Str × Val)) (p : Pos) (k : Str) (c d : Val) (r : Bool)
    (hp : PlainPos p) (hk : PlainKey k) (hget : getAt (.dict cls kvs) p = some c)
    (fuel : Nat) (hf : fuel ≥ 2 * p.length + 1) :
    let t := Val.dict cls kvs
    let xp := slash ++ renderPos p ++ '/' :: k
    ((∃ cls' kvs', c = .dict cls' kvs' ∧ lookup k kvs' = Option.none) →
      getItem fuel t xp = (t, .error .IndexError) ∧ pop fuel t xp d r = .ok (t, d) ∧
      delete fuel t xp r = (t, .error .KeyError)) ∧
    (isList c = false ∧ isDict c = false →
      getItem fuel t xp = (t, .error .IndexError) ∧ pop fuel t xp d r = .ok (t, d) ∧
      delete fuel t xp r = (t, .error .IndexError)) := by
  intro t xp
  have hxp : renderSp .two (canonSteps p ++ .key k :: []) = xp := canon_path cls kvs p c k hget
  have hps : PlainSteps (canonSteps p ++ .key k :: []) :=
    (plainSteps_append _ _).2 ⟨plainSteps_canon p hp, hk, trivial⟩
  have hsg := stepsGet_canon p _ c hget
  have hf' : fuel ≥ 2 * (canonSteps p).length + 1 := by rw [canonSteps_length]; exact hf
  constructor
  · rintro ⟨cls', kvs', rfl, hl⟩
    have h1 := C05_pop_miss_unknown_key cls kvs .two (canonSteps p) [] k cls' kvs' d r hps hsg hl (Or.inl (by decide)) fuel hf'
    have h2 := C05_delete_miss_unknown_key cls kvs .two (canonSteps p) [] k cls' kvs' r hps hsg hl (Or.inl (by decide)) fuel hf'
    rw [hxp] at h1 h2
    exact ⟨h1.1, h1.2.1, h2⟩
  · intro hleaf
    have h1 := C05_pop_miss_below_leaf cls kvs .two (canonSteps p) [] k c d r hps hsg hleaf fuel hf'
    have h2 := C05_delete_miss_below_leaf cls kvs .two (canonSteps p) [] k c r hps hsg hleaf fuel hf'
    rw [hxp] at h1 h2
    exact ⟨h1.1, h1.2.1, h2⟩

/-! Non-vacuity: `exHidden` = `{a: 1, o: {p: {q: 1}}, h: [1, {x: 1}, {}]}`.  Unknown key below `h[-2]` written `//h/[last()-1]/zz[0]/y`
(the miss carries an index and a further step); a name step below the leaf `o/p/q`; the canonical path of `xpath()` is a member of
the family; the model evaluates to what the theorems say. -/
example : renderSp .two [.key ['o'], .key ['p'], .key ['q'], .key ['z']] = ['/', '/', 'o', '/', 'p', '/', 'q', '/', 'z'] ∧
    renderSp .two [.key ['h'], .idx (.lit 1) false, .key ['z']] = slash ++ renderPos [.key ['h'], .idx 1, .key ['z']] := by decide
example : pop 40 exHidden ['/', '/', 'h', '/', '[', 'l', 'a', 's', 't', '(', ')', '-', '1', ']', '/', 'z', 'z', '[', '0', ']', '/', 'y']
      (.str ['D']) true = .ok (exHidden, .str ['D']) :=
  (C05_pop_miss_unknown_key .n0 _ .two [.key ['h'], .idx (.lastMinus 1) true] [.idx (.lit 0) false, .key ['y']] ['z', 'z'] .n0
    [(['x'], .int 1)] (.str ['D']) true ⟨pk 'h', ⟨by decide, by decide, by decide⟩, pk 'y', trivial⟩ rfl rfl (Or.inl (by decide)) 40
    (by decide)).2.1
example : delete 40 exHidden ['z', 'z'] false = (exHidden, .error .KeyError) ∧
    delete 40 exHidden ['/', 'z', 'z'] true = (exHidden, .error .KeyError) :=
  ⟨by decide, C05_delete_miss_unknown_key .n0 _ .one [] [] ['z', 'z'] .n0 _ true ⟨⟨by decide, by decide, by decide⟩, trivial⟩ rfl rfl
    (Or.inl (by decide)) 40 (by decide)⟩
example : delete 40 exHidden ['o', '/', 'p', '/', 'q', '/', 'z'] true = (exHidden, .error .IndexError) :=
  C05_delete_miss_below_leaf .n0 _ .rel [.key ['o'], .key ['p'], .key ['q']] [] ['z'] (.int 1) true
    ⟨pk 'o', pk 'p', pk 'q', pk 'z', trivial⟩ rfl ⟨rfl, rfl⟩ 40 (by decide)
example : (getItem 40 exHidden ['o', '/', 'p', '/', 'q', '/', 'z']) = (exHidden, .error .IndexError) ∧
    pop 40 exHidden ['o', '/', 'p', '/', 'q', '/', 'z'] Val.none false = .ok (exHidden, Val.none) :=
  have h := C05_pop_miss_below_leaf .n0 _ .rel [.key ['o'], .key ['p'], .key ['q']] [] ['z'] (.int 1) Val.none false
    ⟨pk 'o', pk 'p', pk 'q', pk 'z', trivial⟩ rfl ⟨rfl, rfl⟩ 40 (by decide)
  ⟨h.1, h.2.2⟩
example : pop 40 exHidden ['h', '[', '3', ']', '/', 'x'] (.str ['D']) false = .ok (exHidden, .str ['D']) :=
  C05_pop_miss_out_of_range .n0 _ .rel [.key ['h'], .idx (.lit 3) false, .key ['x']] (.str ['D']) false
    ⟨pk 'h', pk 'x', trivial⟩ (by decide) 40 (by decide)

example : delete 40 exHidden ['/', '/', 'h', '[', '-', '4', ']', '/', 'x'] true = (exHidden, .error .IndexError) :=
  C05_delete_miss_out_of_range .n0 _ .two [.key ['h'], .idx (.neg 4) false, .key ['x']] true
    ⟨pk 'h', pk 'x', trivial⟩ (by decide) 40 (by decide)

-- the canonical form: `//h[1]/zz` (unknown key of the dict `h[1]`), `//h[1]/x/zz` (below the leaf `h[1]/x`)
example : slash ++ renderPos [.key ['h'], .idx 1] ++ '/' :: ['z', 'z'] = ['/', '/', 'h', '[', '1', ']', '/', 'z', 'z'] := by decide
example : delete 40 exHidden ['/', '/', 'h', '[', '1', ']', '/', 'z', 'z'] false = (exHidden, .error .KeyError) :=
  ((C05_miss_canonical .n0 _ [.key ['h'], .idx 1] ['z', 'z'] _ Val.none false ⟨pk 'h', trivial⟩ ⟨by decide, by decide, by decide⟩
    rfl 40 (by decide)).1 ⟨.n0, _, rfl, rfl⟩).2.2
example : pop 40 exHidden ['/', '/', 'h', '[', '1', ']', '/', 'x', '/', 'z', 'z'] (.int 7) true = .ok (exHidden, .int 7) :=
  ((C05_miss_canonical .n0 _ [.key ['h'], .idx 1, .key ['x']] ['z', 'z'] _ (.int 7) true ⟨pk 'h', pk 'x', trivial⟩
    ⟨by decide, by decide, by decide⟩ rfl 40 (by decide)).2 ⟨rfl, rfl⟩).2.1

/-! ### pop and recursive delete through a hidden spelling (worker `c05hidden`) -/

/-- **C05 (pop through a hidden list).**  `d.pop('//…q…/name[e]', d, recursively)`, `e` any spelling of `0` or `-1`, on the
single value `old` of `name` returns `old` — the value lookup returns for that spelling — and yields the tree `delete`
yields: `delAt` of the real position for `recursively=False`, `pruneUp` of it over the real ancestors for
`recursively=True`.  The default `d` is not used. -/
theorem C05_pop_hidden_list (cls : Cls) (kvs : List (Str × Val)) (q : Pos) (kcls : Cls) (nkvs : List (Str × Val))
    (name : Str) (old d : Val) (e : IdxSp) (fuel : Nat)
    (hp : PlainPos q) (hget : getAt (.dict cls kvs) q = some (.dict kcls nkvs)) (hn : PlainKey name)
    (hl : lookup name nkvs = some old) (hs : isList old = false) (he : e.val = 0 ∨ e.val = -1)
    (hf : fuel ≥ 2 * q.length + 2) :
    ∃ t', delAt (.dict cls kvs) (q ++ [.key name]) = some t' ∧
      getItem fuel (.dict cls kvs) (slash ++ renderPos q ++ slash ++ (name ++ bracket e.text)) = (.dict cls kvs, .ok old) ∧
      pop fuel (.dict cls kvs) (slash ++ renderPos q ++ slash ++ (name ++ bracket e.text)) d false = .ok (t', old) ∧
      pop fuel (.dict cls kvs) (slash ++ renderPos q ++ slash ++ (name ++ bracket e.text)) d true
        = .ok (pruneUp t' q q.length, old) ∧
      (∀ r, (delete fuel (.dict cls kvs) (slash ++ renderPos q ++ slash ++ (name ++ bracket e.text)) r).2 = .ok () ∧
        pop fuel (.dict cls kvs) (slash ++ renderPos q ++ slash ++ (name ++ bracket e.text)) d r
          = .ok ((delete fuel (.dict cls kvs) (slash ++ renderPos q ++ slash ++ (name ++ bracket e.text)) r).1, old)) := by
  have hP : getAt (.dict cls kvs) (q ++ [Seg.key name]) = some old := by
    rw [getAt_snoc, hget]; simp [child, hl]
  obtain ⟨t', ht'⟩ := delAt_isSome (q ++ [.key name]) _ old (by simp) hP
  refine ⟨t', ht', getItem_hidden cls kvs q kcls nkvs name old e fuel hp hget hn hl hs he hf,
    pop_hidden cls kvs q kcls nkvs name old d e t' fuel false hp hget hn hl hs he ht' hf,
    pop_hidden cls kvs q kcls nkvs name old d e t' fuel true hp hget hn hl hs he ht' hf, ?_⟩
  intro r
  rw [pop_hidden cls kvs q kcls nkvs name old d e t' fuel r hp hget hn hl hs he ht' hf]
  cases r with
  | false => rw [delete_hidden cls kvs q kcls nkvs name old e t' fuel hp hget hn hl hs he ht' hf]; exact ⟨rfl, rfl⟩
  | true => rw [delete_rec_hidden cls kvs q kcls nkvs name old e t' fuel hp hget hn hl hs he ht' hf]; exact ⟨rfl, rfl⟩

/-- **C05 (recursive delete through a hidden list).**  `d.delete('//…q…/name[e]', recursively=True)`, `e` any spelling of
`0` or `-1`, on the single value of `name`: `name` is removed, then the real ancestors that became empty dictionaries,
deepest first (`pruneUp` over the position `q` of the parent) — exactly the result of the canonical path `//…q…/name`. -/
theorem C05_delete_rec_hidden_list (cls : Cls) (kvs : List (Str × Val)) (q : Pos) (kcls : Cls) (nkvs : List (Str × Val))
    (name : Str) (old : Val) (e : IdxSp) (fuel : Nat)
    (hp : PlainPos q) (hget : getAt (.dict cls kvs) q = some (.dict kcls nkvs)) (hn : PlainKey name)
    (hl : lookup name nkvs = some old) (hs : isList old = false) (he : e.val = 0 ∨ e.val = -1)
    (hf : fuel ≥ 2 * q.length + 2) :
    ∃ t', delAt (.dict cls kvs) (q ++ [.key name]) = some t' ∧
      delete fuel (.dict cls kvs) (slash ++ renderPos q ++ slash ++ (name ++ bracket e.text)) true
        = (pruneUp t' q q.length, .ok ()) ∧
      delete fuel (.dict cls kvs) (slash ++ renderPos q ++ slash ++ (name ++ bracket e.text)) true
        = delete fuel (.dict cls kvs) (slash ++ renderPos (q ++ [.key name])) true := by
  have hP : getAt (.dict cls kvs) (q ++ [Seg.key name]) = some old := by
    rw [getAt_snoc, hget]; simp [child, hl]
  obtain ⟨t', ht'⟩ := delAt_isSome (q ++ [.key name]) _ old (by simp) hP
  exact ⟨t', ht', delete_rec_hidden cls kvs q kcls nkvs name old e t' fuel hp hget hn hl hs he ht' hf,
    delete_rec_hidden_eq_canonical cls kvs q kcls nkvs name old e fuel hp hget hn hl hs he hf⟩

/-- non-vacuity on `exHidden`: `//o/p/q[last()]` (the single value `1` of `q`, two dict ancestors that become empty) -/
example : slash ++ renderPos [.key ['o'], .key ['p']] ++ slash ++ (['q'] ++ bracket IdxSp.last.text)
    = ['/', '/', 'o', '/', 'p', '/', 'q', '[', 'l', 'a', 's', 't', '(', ')', ']'] := by decide
example : ∃ t', delAt exHidden [.key ['o'], .key ['p'], .key ['q']] = some t' ∧
    delete 40 exHidden ['/', '/', 'o', '/', 'p', '/', 'q', '[', 'l', 'a', 's', 't', '(', ')', ']'] true
      = (pruneUp t' [.key ['o'], .key ['p']] 2, .ok ()) ∧
    delete 40 exHidden ['/', '/', 'o', '/', 'p', '/', 'q', '[', 'l', 'a', 's', 't', '(', ')', ']'] true
      = delete 40 exHidden ['/', '/', 'o', '/', 'p', '/', 'q'] true :=
  C05_delete_rec_hidden_list .n0 _ [.key ['o'], .key ['p']] .n0 _ ['q'] (.int 1) .last 40 ⟨pk 'o', pk 'p', trivial⟩ rfl (pk 'q')
    (by decide) rfl (Or.inr rfl) (by decide)
example : pruneUp (.dict .n0 [(['a'], .int 1), (['o'], .dict .n0 [(['p'], .dict .n0 [])]),
      (['h'], .list .n0 [.int 1, .dict .n0 [(['x'], .int 1)], .dict .n0 []])]) [.key ['o'], .key ['p']] 2
    = .dict .n0 [(['a'], .int 1), (['h'], .list .n0 [.int 1, .dict .n0 [(['x'], .int 1)], .dict .n0 []])] := by decide
example : ∃ t', delAt exHidden [.key ['o'], .key ['p'], .key ['q']] = some t' ∧
    getItem 40 exHidden ['/', '/', 'o', '/', 'p', '/', 'q', '[', '0', ']'] = (exHidden, .ok (.int 1)) ∧
    pop 40 exHidden ['/', '/', 'o', '/', 'p', '/', 'q', '[', '0', ']'] (.str ['D']) false = .ok (t', .int 1) ∧
    pop 40 exHidden ['/', '/', 'o', '/', 'p', '/', 'q', '[', '0', ']'] (.str ['D']) true
      = .ok (pruneUp t' [.key ['o'], .key ['p']] 2, .int 1) :=
  let ⟨t', h1, h2, h3, h4, _⟩ := C05_pop_hidden_list .n0 _ [.key ['o'], .key ['p']] .n0 _ ['q'] (.int 1) (.str ['D']) (.lit 0) 40
    ⟨pk 'o', pk 'p', trivial⟩ rfl (pk 'q') (by decide) rfl (Or.inl rfl) (by decide)
  ⟨t', h1, h2, h3, h4⟩
/-- the same instances evaluated (compared with the real code: `pop('//o/p/q[0]', 'D', recursively=True)` returns `1` and
leaves `{a: 1, h: [...]}`; with `recursively=False` it leaves `o: {p: {}}`) -/
example : pop 40 exHidden ['/', '/', 'o', '/', 'p', '/', 'q', '[', '0', ']'] (.str ['D']) true
      = .ok (.dict .n0 [(['a'], .int 1), (['h'], .list .n0 [.int 1, .dict .n0 [(['x'], .int 1)], .dict .n0 []])], .int 1) ∧
    pop 40 exHidden ['/', '/', 'o', '/', 'p', '/', 'q', '[', '0', ']'] (.str ['D']) false
      = .ok (.dict .n0 [(['a'], .int 1), (['o'], .dict .n0 [(['p'], .dict .n0 [])]),
          (['h'], .list .n0 [.int 1, .dict .n0 [(['x'], .int 1)], .dict .n0 []])], .int 1) := by decide

/-- **C05 (hidden list around an ELEMENT of a list).**  `…h[i][e]`, `e` any spelling of `0` or `-1`, on an element
`old` of a list that is not a list itself (`q0 ++ [idx i]` is its position): lookup returns `old`; `delete` and `pop`
through that spelling are `delete` / `pop` of the canonical path `…h[i]` — the element is removed (`delAt`, later
elements shift down), with `recursively=True` followed by `pruneUp` over the real ancestors; `pop` returns `old`. -/
theorem C05_delete_hidden_list_elem (cls : Cls) (kvs : List (Str × Val)) (q0 : Pos) (i : Nat) (old d : Val) (e : IdxSp)
    (fuel : Nat)
    (hp : PlainPos (q0 ++ [Seg.idx i])) (hget : getAt (.dict cls kvs) (q0 ++ [Seg.idx i]) = some old)
    (hs : isList old = false) (he : e.val = 0 ∨ e.val = -1) (hf : fuel ≥ 2 * (q0.length + 1) + 1) :
    ∃ t', delAt (.dict cls kvs) (q0 ++ [Seg.idx i]) = some t' ∧
      getItem fuel (.dict cls kvs) (slash ++ renderPos (q0 ++ [Seg.idx i]) ++ bracket e.text) = (.dict cls kvs, .ok old) ∧
      delete fuel (.dict cls kvs) (slash ++ renderPos (q0 ++ [Seg.idx i]) ++ bracket e.text) false = (t', .ok ()) ∧
      delete fuel (.dict cls kvs) (slash ++ renderPos (q0 ++ [Seg.idx i]) ++ bracket e.text) true
        = (pruneUp t' q0 q0.length, .ok ()) ∧
      pop fuel (.dict cls kvs) (slash ++ renderPos (q0 ++ [Seg.idx i]) ++ bracket e.text) d false = .ok (t', old) ∧
      pop fuel (.dict cls kvs) (slash ++ renderPos (q0 ++ [Seg.idx i]) ++ bracket e.text) d true
        = .ok (pruneUp t' q0 q0.length, old) ∧
      ∀ r, delete fuel (.dict cls kvs) (slash ++ renderPos (q0 ++ [Seg.idx i]) ++ bracket e.text) r
        = delete fuel (.dict cls kvs) (slash ++ renderPos (q0 ++ [Seg.idx i])) r := by
  have hne : q0 ++ [Seg.idx i] ≠ [] := by simp
  have hf' : fuel ≥ 2 * (q0 ++ [Seg.idx i]).length := by simp; omega
  obtain ⟨t', ht', hdel⟩ := C05_delete cls kvs _ old hp hne hget fuel hf'
  have hrec := C05_delete_recursive cls kvs _ old t' fuel hp hne hget ht' hf'
  simp only [List.dropLast_concat, List.length_append, List.length_cons, List.length_nil, Nat.zero_add,
    Nat.add_sub_cancel] at hrec
  have hd := delete_hidden_elem cls kvs q0 i old e fuel
  have hpop := pop_hidden_elem cls kvs q0 i old d e fuel
  refine ⟨t', ht', getItem_hidden_elem cls kvs q0 i old e fuel hp hget hs he hf, ?_, ?_, ?_, ?_,
    fun r => hd r hp hget hs he hf⟩
  · rw [hd false hp hget hs he hf, hdel]
  · rw [hd true hp hget hs he hf, hrec]
  · rw [hpop false hp hget hs he hf, hdel]
  · rw [hpop true hp hget hs he hf, hrec]

/-- non-vacuity on `exHidden`: `//h[1][last()]` is the element `{x: 1}` of `h`; `h[2]` shifts into its place -/
example : slash ++ renderPos ([.key ['h']] ++ [Seg.idx 1]) ++ bracket IdxSp.last.text
    = ['/', '/', 'h', '[', '1', ']', '[', 'l', 'a', 's', 't', '(', ')', ']'] := by decide
example : ∃ t', delAt exHidden [.key ['h'], .idx 1] = some t' ∧
    getItem 40 exHidden ['/', '/', 'h', '[', '1', ']', '[', 'l', 'a', 's', 't', '(', ')', ']']
      = (exHidden, .ok (.dict .n0 [(['x'], .int 1)])) ∧
    delete 40 exHidden ['/', '/', 'h', '[', '1', ']', '[', 'l', 'a', 's', 't', '(', ')', ']'] false = (t', .ok ()) ∧
    pop 40 exHidden ['/', '/', 'h', '[', '1', ']', '[', 'l', 'a', 's', 't', '(', ')', ']'] (.str ['D']) true
      = .ok (pruneUp t' [.key ['h']] 1, .dict .n0 [(['x'], .int 1)]) :=
  let ⟨t', h1, h2, h3, _, _, h6, _⟩ := C05_delete_hidden_list_elem .n0 _ [.key ['h']] 1 (.dict .n0 [(['x'], .int 1)]) (.str ['D'])
    .last 40 ⟨pk 'h', trivial⟩ rfl rfl (Or.inr rfl) (by decide)
  ⟨t', h1, h2, h3, h6⟩
/-- the same instance evaluated (the real code: `d.pop('//h[1][last()]', 'D', recursively=True)` returns `{'x': 1}` and
leaves `h: [1, {}]`) -/
example : pop 40 exHidden ['/', '/', 'h', '[', '1', ']', '[', 'l', 'a', 's', 't', '(', ')', ']'] (.str ['D']) true
    = .ok (.dict .n0 [(['a'], .int 1), (['o'], .dict .n0 [(['p'], .dict .n0 [(['q'], .int 1)])]),
        (['h'], .list .n0 [.int 1, .dict .n0 []])], .dict .n0 [(['x'], .int 1)]) := by decide

end N0.C05
