import N0Verif.Proofs.CompareCount
/-!
# C09 — compare reports are faithful to the operands and leave them untouched

Model: `N0Verif/Model/Compare.lean` (the code with fix patches C07-a, C08-a, C09-a applied).
Operand purity is immediate in a pure model (values are immutable); it is carried by the
correspondence harness (deep copies before/after), not claimed as a theorem.
-/
namespace N0.C09
open N0 N0.Compare

/-- **C09 (one line per entry).** For every option record, every flag record and both entry points,
`differences` holds exactly one line per structured entry (`not_equal`, `self_unique`,
`other_unique`, `difftypes`). -/
theorem C09_one_line_per_entry (cfg : Cfg) (a b : Val) (r : Res) (h : compareTop cfg a b = .ok r) :
    r.diffs = r.notEqual.length + r.selfUnique.length + r.otherUnique.length + r.diffTypes.length :=
  compareTop_balanced cfg a b r h

end N0.C09
