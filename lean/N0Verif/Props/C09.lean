import N0Verif.Proofs.CompareCount
import N0Verif.Proofs.CompareFaithful
/-!
# C09 — compare reports are faithful to the operands and leave them untouched

Model: `N0Verif/Model/Compare.lean` (the code with fix patches C07-a, C08-a, C09-a applied).
Operand purity is immediate in a pure model (values are immutable); it is carried by the
correspondence harness (deep copies before/after), not claimed as a theorem.
-/
namespace N0.C09
open N0 N0.Compare

/-- **C09 (one line per entry).** For every option record, every flag record and both entry points,
`differences` holds exactly one line per structured entry (`not_equal`, `self_unique`,
`other_unique`, `difftypes`). -/
theorem C09_one_line_per_entry (cfg : Cfg) (a b : Val) (r : Res) (h : compareTop cfg a b = .ok r) :
    r.diffs = r.notEqual.length + r.selfUnique.length + r.otherUnique.length + r.diffTypes.length :=
  compareTop_balanced cfg a b r h

/-- **C09 (not-equal entries are faithful).** For trees with unique dictionary keys (what Python
guarantees), every option and flag record and both entry points: the path of every not-equal entry
resolves in the left operand (left index of `[i]<>[j]`) and in the right operand (right index) to
exactly the reported pair of original values … -/
theorem C09_not_equal_faithful (cfg : Cfg) (a b : Val) (r : Res) (hw : wf a = true) (hw' : wf b = true)
    (h : compareTop cfg a b = .ok r) :
    ∀ e ∈ r.notEqual, getAt .left e.path a = some e.l ∧ getAt .right e.path b = some e.r :=
  notEqual_faithful cfg a b r hw hw' h

/-- … which really differ (without `transform`; with a transform the *transformed* values differ and
the originals are shown). -/
theorem C09_not_equal_differ (cfg : Cfg) (a b : Val) (r : Res) (htr : cfg.tr = [])
    (h : compareTop cfg a b = .ok r) : ∀ e ∈ r.notEqual, e.l ≠ e.r :=
  notEqual_differ cfg a b r htr h

/-- **C09 (type clashes are faithful).** The left value is at the reported path, the types really differ;
the right value is at the same path for `direct_compare`.  (Inside a keyed list a clash is reported at
`prefix[i]` with the left index only — counter-example `C09_clash_right_index_cex`.) -/
theorem C09_difftypes_faithful (cfg : Cfg) (a b : Val) (r : Res) (hw : wf a = true) (hw' : wf b = true)
    (h : compareTop cfg a b = .ok r) :
    ∀ e ∈ r.diffTypes, getAt .left e.path a = some e.l ∧ (cfg.tr = [] → tyOf e.l ≠ tyOf e.r)
      ∧ (cfg.direct = true → getAt .right e.path b = some e.r) :=
  diffTypes_faithful cfg a b r hw hw' h

/-- the right value of a type clash inside a keyed list is *not* at the reported path: `['1']` vs
`[None, 1]` pairs left 0 with right 1 (same `str()`), reports the clash at `[0]`, where the right
operand holds `None`.  Needs a `str()` collision (finding C07-b). -/
theorem C09_clash_right_index_cex :
    compareTop (Cfg.default ⟨true, false, false, false, false, true⟩ false)
        (.list .n0 [.str ['1']]) (.list .n0 [.none, .int 1])
      = .ok { diffs := 2, diffTypes := [⟨[.idx 0], .str ['1'], .int 1⟩], otherUnique := [⟨[.idx 0], .none⟩] }
    ∧ getAt .right [.idx 0] (.list .n0 [.none, .int 1]) = some .none :=
  diffTypes_right_keyed_cex

/-- **C09 (unique entries are present on their side).** -/
theorem C09_unique_faithful (cfg : Cfg) (a b : Val) (r : Res) (hw : wf a = true) (hw' : wf b = true)
    (h : compareTop cfg a b = .ok r) :
    (∀ e ∈ r.selfUnique, getAt .left e.path a = some e.v) ∧
    (∀ e ∈ r.otherUnique, getAt .right e.path b = some e.v) :=
  unique_faithful cfg a b r hw hw' h

/-! Non-vacuity: a pair whose report has a `[i]<>[j]` entry, a unique entry and a type clash. -/
def exL : Val := .dict .n0 [(['r'], .list .n0 [.dict .n0 [(['i'], .str ['1']), (['v'], .int 1)], .dict .n0 [(['i'], .str ['2']), (['v'], .int 2)], .int 7])]
def exR : Val := .dict .n0 [(['r'], .list .n0 [.dict .n0 [(['i'], .str ['2']), (['v'], .str ['2'])], .dict .n0 [(['i'], .str ['1']), (['v'], .int 5)]])]
def exCfg : Cfg := { Cfg.default Flags.init false with ck := .one ['i'] }
example : wf exL = true ∧ wf exR = true := by decide
example : (compareTop exCfg exL exR).map (fun r => (r.diffs, r.notEqual.map (·.path), r.selfUnique.map (·.path)))
    = .ok (3, [[.key ['r'], .idx2 0 1, .key ['v']], [.key ['r'], .idx2 1 0, .key ['v']]], [[.key ['r'], .idx 2]]) := by decide
example : getAt .left [.key ['r'], .idx2 0 1, .key ['v']] exL = some (.int 1)
    ∧ getAt .right [.key ['r'], .idx2 0 1, .key ['v']] exR = some (.int 5) := by decide

end N0.C09
