import N0Verif.Proofs.CompareCount
import N0Verif.Proofs.CompareFaithful
import N0Verif.Proofs.CompareSwap
import N0Verif.Proofs.CompareSwapKeyed
import N0Verif.Proofs.CompareFrame
/-!
# C09 — compare reports are faithful to the operands and leave them untouched

Model: `N0Verif/Model/Compare.lean` (the code with fix patches C07-a, C08-a, C09-a, C07-b, C07-c, C09-b, C10-a applied).
Operand purity is immediate in a pure model (values are immutable); it is carried by the
correspondence harness (deep copies before/after), not claimed as a theorem.  What is NOT immediate is the
frame statement at the end of this file: which part of the operands the result depends on — the class tags
(`n0dict`/`n0list` against plain `dict`/`list`) of the nodes below the roots (`C09_frame*`).
-/
namespace N0.C09
open N0 N0.Compare

/-- **C09 (one line per entry).** For every option record, every flag record and both entry points,
`differences` holds exactly one line per structured entry (`not_equal`, `self_unique`,
`other_unique`, `difftypes`). -/
theorem C09_one_line_per_entry (cfg : Cfg) (a b : Val) (r : Res) (h : compareTop cfg a b = .ok r) :
    r.diffs = r.notEqual.length + r.selfUnique.length + r.otherUnique.length + r.diffTypes.length :=
  compareTop_balanced cfg a b r h

/-- **C09 (not-equal entries are faithful).** For trees with unique dictionary keys (what Python
guarantees), every option and flag record and both entry points: the path of every not-equal entry
resolves in the left operand (left index of `[i]<>[j]`) and in the right operand (right index) to
exactly the reported pair of original values … -/
theorem C09_not_equal_faithful (cfg : Cfg) (a b : Val) (r : Res) (hw : wf a = true) (hw' : wf b = true)
    (h : compareTop cfg a b = .ok r) :
    ∀ e ∈ r.notEqual, getAt .left e.path a = some e.l ∧ getAt .right e.path b = some e.r :=
  notEqual_faithful cfg a b r hw hw' h

/-- … which really differ (without `transform`; with a transform the *transformed* values differ and
the originals are shown). -/
theorem C09_not_equal_differ (cfg : Cfg) (a b : Val) (r : Res) (htr : cfg.tr = [])
    (h : compareTop cfg a b = .ok r) : ∀ e ∈ r.notEqual, e.l ≠ e.r :=
  notEqual_differ cfg a b r htr h

/-- **C09 (type clashes are faithful).** The left value is at the reported path in the left operand, the right
value at the same path in the right operand (right index of `[i]<>[j]`), and the types really differ — both entry
points (since fix C09-b a clash inside a keyed list carries both indexes, `C09_clash_keyed_example`). -/
theorem C09_difftypes_faithful (cfg : Cfg) (a b : Val) (r : Res) (hw : wf a = true) (hw' : wf b = true)
    (h : compareTop cfg a b = .ok r) :
    ∀ e ∈ r.diffTypes, getAt .left e.path a = some e.l ∧ (cfg.tr = [] → tyOf e.l ≠ tyOf e.r)
      ∧ getAt .right e.path b = some e.r :=
  diffTypes_faithful cfg a b r hw hw' h

/-- a type clash inside a keyed list: the record `{i: '1'}` at left index 0 is paired by its composite key with the
plain `dict` `{i: '1'}` at right index 1; the clash is reported at `[0]<>[1]`, which resolves on the right to that
plain `dict` (before fix C09-b: at `[0]`, where the right operand holds `{}`). -/
theorem C09_clash_keyed_example :
    compareTop { Cfg.default ⟨true, false, false, false, false, true⟩ false with ck := .one ['i'] }
        (.list .n0 [.dict .n0 [(['i'], .str ['1'])]])
        (.list .n0 [.dict .n0 [], .dict .plain [(['i'], .str ['1'])]])
      = .ok { diffs := 2,
              diffTypes := [⟨[.idx2 0 1], .dict .n0 [(['i'], .str ['1'])], .dict .plain [(['i'], .str ['1'])]⟩],
              otherUnique := [⟨[.idx 0], .dict .n0 []⟩] }
    ∧ getAt .right [.idx2 0 1] (.list .n0 [.dict .n0 [], .dict .plain [(['i'], .str ['1'])]])
        = some (.dict .plain [(['i'], .str ['1'])]) :=
  diffTypes_right_keyed_example

/-- **C09 (unique entries are present on their side).** -/
theorem C09_unique_faithful (cfg : Cfg) (a b : Val) (r : Res) (hw : wf a = true) (hw' : wf b = true)
    (h : compareTop cfg a b = .ok r) :
    (∀ e ∈ r.selfUnique, getAt .left e.path a = some e.v) ∧
    (∀ e ∈ r.otherUnique, getAt .right e.path b = some e.v) :=
  unique_faithful cfg a b r hw hw' h

/-- **C09 (unique entries are absent on the other side).** The parent of a self-unique entry resolves
on the other side; for a dictionary entry the key is missing in the other dictionary, for a list item
of `direct_compare` the index lies beyond the other list.  (For the keyed walk see
`C09_keyed_no_common_key_left`.) -/
theorem C09_self_unique_absent (cfg : Cfg) (a b : Val) (r : Res) (hw : wf a = true) (hw' : wf b = true)
    (h : compareTop cfg a b = .ok r) :
    ∀ e ∈ r.selfUnique, ∃ q s, e.path = q ++ [s] ∧
      ((∃ k c kvs, s = .key k ∧ getAt .right q b = some (.dict c kvs) ∧ Val.lookup k kvs = none) ∨
       (∃ i c ys, s = .idx i ∧ getAt .right q b = some (.list c ys) ∧ (cfg.direct = true → ys.length ≤ i))) :=
  selfUnique_absent cfg a b r hw hw' h

theorem C09_other_unique_absent (cfg : Cfg) (a b : Val) (r : Res) (hw : wf a = true) (hw' : wf b = true)
    (h : compareTop cfg a b = .ok r) :
    ∀ e ∈ r.otherUnique, ∃ q s, e.path = q ++ [s] ∧
      ((∃ k c kvs, s = .key k ∧ getAt .left q a = some (.dict c kvs) ∧ Val.lookup k kvs = none) ∨
       (∃ i c xs, s = .idx i ∧ getAt .left q a = some (.list c xs) ∧ (cfg.direct = true → xs.length ≤ i))) :=
  otherUnique_absent cfg a b r hw hw' h

/-- keyed walk: after the pairing no key is left unmatched on both sides — the unique entries emitted at
this level come from remaining entries `sr'`, `orr'` of the two key tables with disjoint keys -/
theorem C09_keyed_no_common_key_left (cfg : Cfg) (p : Path) (sa oa : Val) (xs ys : List Val) (ks ko : List Str)
    (r : Res) (hlen : ks.length = xs.length)
    (h : keyedWalk cfg p sa oa 0 xs ks (mkEntries 0 ks xs) (mkEntries 0 ko ys) = .ok r) :
    ∃ (sr' orr' : List KE) (lsu lou : List UE),
      r.selfUnique = lsu ++ sr'.map (fun e => ⟨p ++ [.idx e.2.1], e.2.2⟩) ∧
      r.otherUnique = lou ++ orr'.map (fun e => ⟨p ++ [.idx e.2.1], e.2.2⟩) ∧
      (∀ e ∈ sr', e ∈ mkEntries 0 ks xs) ∧ (∀ e ∈ orr', e ∈ mkEntries 0 ko ys) ∧
      (∀ e ∈ sr', ∀ e' ∈ orr', e.1 ≠ e'.1) :=
  keyedWalk_tail_disjoint cfg p sa oa xs ys ks ko r hlen h

/-- **C09 (swap, ordered comparison).** For `direct_compare`, every flag record, composite key,
`compare_only` and `exclude_xpaths` (no `transform`): swapping the operands swaps the two unique
lists and mirrors each pair — as multisets (`List.Perm`: the dictionary walk visits the keys in the
order of its left operand) — and keeps the number of lines. -/
theorem C09_swap_partial (cfg : Cfg) (a b : Val) (r : Res) (htr : cfg.tr = []) (hd : cfg.direct = true)
    (hw : wf a = true) (hw' : wf b = true) (h : compareTop cfg a b = .ok r) :
    ∃ r', compareTop cfg b a = .ok r' ∧
      (r'.notEqual.Perm r.mirror.notEqual ∧ r'.selfUnique.Perm r.mirror.selfUnique ∧
       r'.otherUnique.Perm r.mirror.otherUnique ∧ r'.diffTypes.Perm r.mirror.diffTypes ∧ r'.diffs = r.diffs) :=
  swap_direct cfg a b r htr hd hw hw' h

/-- the keyed entry point, as first stated (hypotheses: no transform, the types flag off,
`exclude_xpaths`/`compare_only` invariant under mirroring of `[i]<>[j]` (`C09_swap_keyed_exclude_cex`), unique
dictionary keys, pairwise different item keys in every list).  **Proved**: `C09_swap`; the hypotheses on the item
keys and on the types flag turned out to be unnecessary (`C09_swap_keyed`). -/
def C09_swap_stmt : Prop := swap_keyed_stmt

theorem C09_swap : C09_swap_stmt := swap_keyed_stmt_holds

/-- **C09 (swap, keyed/default comparison, every flag record).** For `compare` (`n0list.compare`/`n0dict.compare`),
every composite key, **every flag record** (since fix C09-b the place of a type clash is mirrored like every other
place), no `transform`, `exclude_xpaths`/`compare_only` that do not distinguish `[i]<>[j]` from `[j]<>[i]`, trees
with unique dictionary keys — and **no assumption on the item keys** (repeated composite keys are allowed: the n-th
item with key K on one side is paired with the n-th item with key K on the other side, whichever side drives the
loop): swapping the operands swaps the two unique lists and mirrors each pair and each type clash (`[i]<>[j]` becomes
`[j]<>[i]`), as multisets of entries, and keeps the number of lines. -/
theorem C09_swap_keyed (cfg : Cfg) (a b : Val) (r : Res) (htr : cfg.tr = []) (hd : cfg.direct = false)
    (hex : ∀ p, excluded cfg (mirrorPath p) = excluded cfg p) (hon : ∀ p, onlyOk cfg (mirrorPath p) = onlyOk cfg p)
    (hw : wf a = true) (hw' : wf b = true) (h : compareTop cfg a b = .ok r) :
    ∃ r', compareTop cfg b a = .ok r' ∧
      (r'.notEqual.Perm r.mirror.notEqual ∧ r'.selfUnique.Perm r.mirror.selfUnique ∧
       r'.otherUnique.Perm r.mirror.otherUnique ∧ r'.diffTypes.Perm r.mirror.diffTypes ∧ r'.diffs = r.diffs) :=
  swap_keyed cfg a b r htr hd hex hon hw hw' h

/-- the same statement as a relation (`SwV` = the four lists mirrored as multisets, same number of lines) -/
theorem C09_swap_keyed_all_flags (cfg : Cfg) (a b : Val) (r : Res) (htr : cfg.tr = []) (hd : cfg.direct = false)
    (hex : ∀ p, excluded cfg (mirrorPath p) = excluded cfg p) (hon : ∀ p, onlyOk cfg (mirrorPath p) = onlyOk cfg p)
    (hw : wf a = true) (hw' : wf b = true) (h : compareTop cfg a b = .ok r) :
    ∃ r', compareTop cfg b a = .ok r' ∧ SwV r r' :=
  compareTop_swap_keyed cfg a b r htr hd ⟨hex, hon⟩ hw hw' h

/-- **C09 (swap, both entry points, every flag record)**: `C09_swap_partial` and `C09_swap_keyed` together — no
transform, mirror-invariant path filters (for `direct_compare` paths have no `[i]<>[j]`; the hypothesis is only used
by the keyed entry point), unique dictionary keys. -/
theorem C09_swap_all (cfg : Cfg) (a b : Val) (r : Res) (htr : cfg.tr = [])
    (hex : ∀ p, excluded cfg (mirrorPath p) = excluded cfg p) (hon : ∀ p, onlyOk cfg (mirrorPath p) = onlyOk cfg p)
    (hw : wf a = true) (hw' : wf b = true) (h : compareTop cfg a b = .ok r) :
    ∃ r', compareTop cfg b a = .ok r' ∧
      (r'.notEqual.Perm r.mirror.notEqual ∧ r'.selfUnique.Perm r.mirror.selfUnique ∧
       r'.otherUnique.Perm r.mirror.otherUnique ∧ r'.diffTypes.Perm r.mirror.diffTypes ∧ r'.diffs = r.diffs) := by
  cases hd : cfg.direct with
  | true => exact swap_direct cfg a b r htr hd hw hw' h
  | false => exact swap_keyed cfg a b r htr hd hex hon hw hw' h

/-- in particular the verdict of `compare` does not depend on the order of the operands -/
theorem C09_swap_keyed_verdict (cfg : Cfg) (a b : Val) (r : Res) (htr : cfg.tr = []) (hd : cfg.direct = false)
    (hex : ∀ p, excluded cfg (mirrorPath p) = excluded cfg p) (hon : ∀ p, onlyOk cfg (mirrorPath p) = onlyOk cfg p)
    (hw : wf a = true) (hw' : wf b = true) (h : compareTop cfg a b = .ok r) :
    verdict (compareTop cfg b a) = verdict (compareTop cfg a b) :=
  verdict_swap_keyed cfg a b r htr hd ⟨hex, hon⟩ hw hw' h

/-- without path filters the mirror-invariance hypotheses hold -/
theorem C09_swap_keyed_default_filters (cfg : Cfg) (h : NoPathOpts cfg) :
    (∀ p, excluded cfg (mirrorPath p) = excluded cfg p) ∧ (∀ p, onlyOk cfg (mirrorPath p) = onlyOk cfg p) :=
  ⟨(swk_mirrorInv_noPathOpts h).excl, (swk_mirrorInv_noPathOpts h).only⟩

/-- the full-strength statement — both entry points, **every** option record (transform and path filters included) —
is false: see `C09_swap_transform_cex` (transform) and `C09_swap_keyed_exclude_cex` (a pattern naming `[0]<>[1]`);
every flag record is covered by `C09_swap_all` -/
def C09_swap_full_stmt : Prop :=
  ∀ (cfg : Cfg) (a b : Val) (r : Res), wf a = true → wf b = true → compareTop cfg a b = .ok r →
    ∃ r', compareTop cfg b a = .ok r' ∧
      (r'.notEqual.Perm r.mirror.notEqual ∧ r'.selfUnique.Perm r.mirror.selfUnique ∧
       r'.otherUnique.Perm r.mirror.otherUnique ∧ r'.diffTypes.Perm r.mirror.diffTypes ∧ r'.diffs = r.diffs)

theorem C09_swap_full_refuted : ¬ C09_swap_full_stmt := by
  intro h
  obtain ⟨r', hr', _⟩ := h swapCexCfg (.dict .n0 [(['k'], .none)]) (.dict .n0 [(['k'], .int 3)]) {}
    (by decide) (by decide) swap_transform_cex.1
  rw [swap_transform_cex.2] at hr'
  cases hr'

/-- the types flag on: the place of a clash found inside a keyed list is mirrored (`[0]<>[1]` / `[1]<>[0]`;
before fix C09-b each run used the index of its own left operand only) -/
theorem C09_swap_keyed_types_example :
    (compareTop { Cfg.default ⟨true, false, false, false, false, true⟩ false with ck := .one ['i'] }
        (.list .n0 [.dict .n0 [(['i'], .str ['1'])]])
        (.list .n0 [.dict .n0 [], .dict .plain [(['i'], .str ['1'])]])).map (fun r => r.diffTypes.map (·.path))
      = .ok [[.idx2 0 1]] ∧
    (compareTop { Cfg.default ⟨true, false, false, false, false, true⟩ false with ck := .one ['i'] }
        (.list .n0 [.dict .n0 [], .dict .plain [(['i'], .str ['1'])]])
        (.list .n0 [.dict .n0 [(['i'], .str ['1'])]])).map (fun r => r.diffTypes.map (·.path))
      = .ok [[.idx2 1 0]] :=
  swap_keyed_types_example

/-- with a transform that changes types the ordered comparison is not symmetric either: `{k: None}` vs
`{k: 3}` under a function mapping everything to a list returns normally one way and raises `TypeError`
the other way (the `elif` chain runs on the original left value).  Outside `LeafTransform`. -/
theorem C09_swap_transform_cex :
    compareTop swapCexCfg (.dict .n0 [(['k'], .none)]) (.dict .n0 [(['k'], .int 3)]) = .ok {} ∧
    compareTop swapCexCfg (.dict .n0 [(['k'], .int 3)]) (.dict .n0 [(['k'], .none)]) = .error .TypeError :=
  swap_transform_cex

/-- an `exclude_xpaths` pattern naming a paired index `[0]<>[1]` is not mirror-invariant -/
theorem C09_swap_keyed_exclude_cex :
    (compareTop swapKeyedCexCfg
        (.list .n0 [.dict .n0 [(['i', 'd'], .str ['a']), (['v'], .int 1)]])
        (.list .n0 [.dict .n0 [(['i', 'd'], .str ['z']), (['v'], .int 0)],
                    .dict .n0 [(['i', 'd'], .str ['a']), (['v'], .int 2)]])).map (·.diffs) = .ok 1 ∧
    (compareTop swapKeyedCexCfg
        (.list .n0 [.dict .n0 [(['i', 'd'], .str ['z']), (['v'], .int 0)],
                    .dict .n0 [(['i', 'd'], .str ['a']), (['v'], .int 2)]])
        (.list .n0 [.dict .n0 [(['i', 'd'], .str ['a']), (['v'], .int 1)]])).map (·.diffs) = .ok 2 :=
  swap_keyed_exclude_cex

/-! ### frame: the class tags below the roots -/

/-- the unrestricted statement "the result does not depend on the class tags below the roots (the code wraps
sub-nodes with `n0list(...)`/`n0dict(...)` before recursing)", with `toN0` = `convert_recursively` and
`Res.mapV toN0` = the same result with the shown values converted — **false**: `C09_tags_irrelevant_refuted` -/
def C09_tags_irrelevant_stmt : Prop := frame_stmt

theorem C09_tags_irrelevant_refuted : ¬ C09_tags_irrelevant_stmt := frame_stmt_false

/-- the tags matter in exactly three places: (1) `type(a) == type(b)` — an `n0dict` against a plain `dict`
under the same key is a type clash … -/
theorem C09_frame_clash_cex :
    (compareTop (Cfg.default Flags.init false) (.dict .n0 [(['a'], .dict .n0 [])]) (.dict .n0 [(['a'], .dict .plain [])])).map
        (·.diffs) = .ok 1 ∧
    (compareTop (Cfg.default Flags.init false) (toN0 (.dict .n0 [(['a'], .dict .n0 [])]))
        (toN0 (.dict .n0 [(['a'], .dict .plain [])]))).map (·.diffs) = .ok 0 :=
  frame_clash_cex

/-- … (2) `direct_compare` on a plain list nested in a list: `AttributeError` … -/
theorem C09_frame_attr_cex :
    compareTop (Cfg.default Flags.init true) (.list .n0 [.list .plain [.int 1]]) (.list .n0 [.list .plain [.int 1]])
      = .error .AttributeError ∧
    (compareTop (Cfg.default Flags.init true) (toN0 (.list .n0 [.list .plain [.int 1]]))
        (toN0 (.list .n0 [.list .plain [.int 1]]))).map (·.diffs) = .ok 0 :=
  frame_attr_cex

/-- … (3) `compare` on a plain `dict` that is a list item: `TypeError`. -/
theorem C09_frame_type_cex :
    compareTop (Cfg.default Flags.init false) (.list .n0 [.dict .plain [(['k'], .int 1)]])
        (.list .n0 [.dict .plain [(['k'], .int 1)]]) = .error .TypeError ∧
    (compareTop (Cfg.default Flags.init false) (toN0 (.list .n0 [.dict .plain [(['k'], .int 1)]]))
        (toN0 (.list .n0 [.dict .plain [(['k'], .int 1)]]))).map (·.diffs) = .ok 0 :=
  frame_type_cex

/-- **C09 (frame).**  `transform` functions that do not look at containers (`LeafTransform`: identity on
containers, scalars to scalars, `None` to a scalar or `None`; in particular no transform, `C09_frame_no_transform`),
every other option and flag record, both entry points; roots of the same
kind; below the roots every dictionary carries one tag `cd` and every list one tag `cl` (`tagsKids`).  Then the
run on `(a, b)` and the run on the recursively converted trees `(toN0 a, toN0 b)` are related by `FrameRel`:
the first returns `r` ⇒ the second returns `r` with the shown values converted; the first raises `e` ⇒ the
second raises `e` too, **or** `e` is one of the two `isinstance` exceptions (`AttributeError`/`TypeError`) and
the walked mode meets a plain container of the kind it checks (`TagErr`: `direct_compare` with plain lists,
`compare` with plain dictionaries). -/
theorem C09_frame (cfg : Cfg) (hl : LeafTransform cfg) (cd cl : Cls) (a b : Val) (hr : RootPair a b)
    (ha : tagsKids cd cl a = true) (hb : tagsKids cd cl b = true) :
    FrameRel (TagErr cfg cd cl) (compareTop cfg a b) (compareTop cfg (toN0 a) (toN0 b)) :=
  frame_compareTop cfg hl cd cl a b hr ha hb

/-- when `TagErr` is excluded the run IS the run on the converted trees (exception class included) … -/
theorem C09_frame_exact (cfg : Cfg) (hl : LeafTransform cfg) (cd cl : Cls) (hT : ¬ TagErr cfg cd cl) (a b : Val)
    (hr : RootPair a b) (ha : tagsKids cd cl a = true) (hb : tagsKids cd cl b = true) :
    compareTop cfg (toN0 a) (toN0 b) = (compareTop cfg a b).map (Res.mapV toN0) :=
  frame_exact cfg hl cd cl hT a b hr ha hb

/-- … in particular for `compare()` on trees as `n0dict(json_text)` builds them — `n0dict`s everywhere, plain
lists: the theorems stated for recursively converted trees (`isN0`, C07) describe these runs too … -/
theorem C09_frame_loaded (cfg : Cfg) (hl : LeafTransform cfg) (hd : cfg.direct = false) (a b : Val)
    (hr : RootPair a b) (ha : tagsKids .n0 .plain a = true) (hb : tagsKids .n0 .plain b = true) :
    compareTop cfg (toN0 a) (toN0 b) = (compareTop cfg a b).map (Res.mapV toN0) :=
  frame_keyed_loaded cfg hl hd a b hr ha hb

/-- … and for `direct_compare` on trees with `n0list`s and plain dictionaries. -/
theorem C09_frame_direct (cfg : Cfg) (hl : LeafTransform cfg) (hd : cfg.direct = true) (a b : Val)
    (hr : RootPair a b) (ha : tagsKids .plain .n0 a = true) (hb : tagsKids .plain .n0 b = true) :
    compareTop cfg (toN0 a) (toN0 b) = (compareTop cfg a b).map (Res.mapV toN0) :=
  frame_direct_plainDicts cfg hl hd a b hr ha hb

theorem C09_frame_verdict (cfg : Cfg) (hl : LeafTransform cfg) (cd cl : Cls) (hT : ¬ TagErr cfg cd cl) (a b : Val)
    (hr : RootPair a b) (ha : tagsKids cd cl a = true) (hb : tagsKids cd cl b = true) :
    verdict (compareTop cfg (toN0 a) (toN0 b)) = verdict (compareTop cfg a b) :=
  frame_verdict cfg hl cd cl hT a b hr ha hb

/-- the hypothesis on `transform` holds when there is none -/
theorem C09_frame_no_transform (cfg : Cfg) (h : cfg.tr = []) : LeafTransform cfg := leafTransform_nil h

/-- non-vacuity: `{'r': [1, {'k': [2]}]}` against `{'r': [{'k': [3]}, 1]}` with plain lists and `n0dict`s -/
example : tagsKids .n0 .plain frLoadedA = true ∧ tagsKids .n0 .plain frLoadedB = true ∧
    (compareTop (Cfg.default Flags.init false) frLoadedA frLoadedB).map (fun r => (r.diffs, r.selfUnique.map (·.path)))
      = .ok (2, [[.key ['r'], .idx2 1 0, .key ['k'], .idx 0]]) ∧
    (compareTop (Cfg.default Flags.init false) (toN0 frLoadedA) (toN0 frLoadedB)).map
        (fun r => (r.diffs, r.selfUnique.map (·.path)))
      = .ok (2, [[.key ['r'], .idx2 1 0, .key ['k'], .idx 0]]) := frLoaded_example
example : RootPair frLoadedA frLoadedB := by simp [RootPair, frLoadedA, frLoadedB]
example : ¬ TagErr (Cfg.default Flags.init false) .n0 .plain := by simp [TagErr, Cfg.default]
example : TagErr (Cfg.default Flags.init true) .n0 .plain := by simp [TagErr, Cfg.default]

/-! Non-vacuity: a pair whose report has a `[i]<>[j]` entry, a unique entry and a type clash. -/
def exL : Val := .dict .n0 [(['r'], .list .n0 [.dict .n0 [(['i'], .str ['1']), (['v'], .int 1)], .dict .n0 [(['i'], .str ['2']), (['v'], .int 2)], .int 7])]
def exR : Val := .dict .n0 [(['r'], .list .n0 [.dict .n0 [(['i'], .str ['2']), (['v'], .str ['2'])], .dict .n0 [(['i'], .str ['1']), (['v'], .int 5)]])]
def exCfg : Cfg := { Cfg.default Flags.init false with ck := .one ['i'] }
example : wf exL = true ∧ wf exR = true := by decide
example : (compareTop exCfg exL exR).map (fun r => (r.diffs, r.notEqual.map (·.path), r.selfUnique.map (·.path)))
    = .ok (3, [[.key ['r'], .idx2 0 1, .key ['v']], [.key ['r'], .idx2 1 0, .key ['v']]], [[.key ['r'], .idx 2]]) := by decide
example : getAt .left [.key ['r'], .idx2 0 1, .key ['v']] exL = some (.int 1)
    ∧ getAt .right [.key ['r'], .idx2 0 1, .key ['v']] exR = some (.int 5) := by decide

/-! Non-vacuity of `C09_swap_keyed`: the same pair swapped — `[0]<>[1]` becomes `[1]<>[0]`, the unique item
moves to the other list; and a pair with a REPEATED composite key (second `i=1` record) and the items `1` / `'1'`,
which no longer meet (keys `1` and `"1"`). -/
example : exCfg.tr = [] ∧ exCfg.direct = false := by decide
example : (compareTop exCfg exR exL).map (fun r => (r.diffs, r.notEqual.map (·.path), r.otherUnique.map (·.path)))
    = .ok (3, [[.key ['r'], .idx2 0 1, .key ['v']], [.key ['r'], .idx2 1 0, .key ['v']]], [[.key ['r'], .idx 2]]) := by decide
def exDupL : Val := .list .n0 [.dict .n0 [(['i'], .str ['1']), (['v'], .int 1)], .int 1, .dict .n0 [(['i'], .str ['1']), (['v'], .int 2)]]
def exDupR : Val := .list .n0 [.str ['1'], .dict .n0 [(['i'], .str ['1']), (['v'], .int 2)], .dict .n0 [(['i'], .str ['1']), (['v'], .int 2)], .dict .n0 [(['i'], .str ['1']), (['v'], .int 3)]]
example : wf exDupL = true ∧ wf exDupR = true := by decide
example : (compareTop exCfg exDupL exDupR).map (fun r => (r.diffs, r.notEqual.map (fun e => (e.path, e.kind))))
    = .ok (4, [([.idx2 0 1, .key ['v']], .lst)]) := by decide
example : (compareTop exCfg exDupL exDupR).map (fun r => (r.selfUnique.map (·.path), r.otherUnique.map (·.path)))
    = .ok ([[.idx 1]], [[.idx 0], [.idx 3]]) := by decide
example : (compareTop exCfg exDupR exDupL).map (fun r => (r.diffs, r.notEqual.map (fun e => (e.path, e.kind))))
    = .ok (4, [([.idx2 1 0, .key ['v']], .lst)]) := by decide
example : (compareTop exCfg exDupR exDupL).map (fun r => (r.selfUnique.map (·.path), r.otherUnique.map (·.path)))
    = .ok ([[.idx 0], [.idx 3]], [[.idx 1]]) := by decide

end N0.C09
