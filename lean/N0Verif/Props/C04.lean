import N0Verif.Model.XPathApi
/-!
# C04 — lookups are total and pure: a miss yields the default, never a change

`getItem`, `get`, `first` are the models of item access, `get` and `first` (dict- and
list-rooted).  Each returns the tree after the call together with the outcome.
-/
namespace N0.C04
open N0 N0.Py N0.Val N0.XPath

/-- the exception classes item access may raise on a miss -/
def allowed (e : PyErr) : Bool :=
  e = .KeyError || e = .IndexError || e = .ValueError || e = .TypeError || e = .SyntaxError

/-- **default exactly when item access raises** (dict root, no `?` prefix): `get` returns what
item access returns, and the caller's default exactly when item access raises one of the
funnelled classes (a plain missing key included); any other class would escape from both. -/
theorem C04_default_iff_miss (fuel : Nat) (cls : Cls) (kvs : List (Str × Val)) (s : Str) (d : Val)
    (hq : startsWith s ['?'] = false) :
    XPath.get fuel (.dict cls kvs) s d =
      (match getItem fuel (.dict cls kvs) s with
       | (t', .ok v) => (t', .ok v)
       | (t', .error e) =>
          if caught e || (e = .KeyError && !hasPathChar s) then (t', .ok d) else (t', .error e)) := by
  unfold XPath.get getItem getCore
  simp only [hq, Bool.false_eq_true, if_false]
  by_cases hp : hasPathChar s = true
  · simp only [hp, if_true]
    cases hfind : findD fuel (.dict cls kvs) [] false true (tokenize s) (.at []) true slash with
    | error e =>
      by_cases hc : caught e = true
      · simp [hc]
      · simp [hc]
    | ok pr =>
      obtain ⟨root', r⟩ := pr
      by_cases hf : r.isFound = true
      · simp [hf]
      · simp [hf, caught]
  · simp only [hp, Bool.false_eq_true, if_false]
    cases lookup s kvs with
    | some v => simp
    | none => simp [caught]

/-- the same equation for `first`, which additionally unwraps a single match -/
def unwrap1 : Val → Val
  | .list _ [x] => x
  | v => v

theorem C04_first_eq (fuel : Nat) (t : Val) (s : Str) (d : Val) :
    first fuel t s d =
      (match getCore fuel t s d false false with
       | (t', .ok v) => (t', .ok (unwrap1 v))
       | (t', .error e) => (t', .error e)) := by
  unfold first
  cases h : getCore fuel t s d false false with
  | mk t' res =>
    cases res with
    | error e => rfl
    | ok v => cases v <;> try rfl
              rename_i c xs
              cases xs with
              | nil => rfl
              | cons x xs => cases xs <;> rfl

/-- **`?`-prefixed paths**: item access does not raise any of the funnelled classes (a miss
yields `''`), and a plain missing key yields `''` as well (dict root) -/
theorem C04_qmark (fuel : Nat) (cls : Cls) (kvs : List (Str × Val)) (s : Str) (e : PyErr)
    (h : (getItem fuel (.dict cls kvs) ('?' :: s)).2 = .error e) : caught e = false := by
  unfold getItem getCore at h
  have hq : startsWith ('?' :: s) ['?'] = true := by simp [startsWith]
  simp only [hq, if_true, List.drop_one, List.tail_cons] at h
  by_cases hp : hasPathChar s = true
  · simp only [hp, if_true] at h
    cases hfind : findD fuel (.dict cls kvs) [] false true (tokenize s) (.at []) true slash with
    | error e' =>
      rw [hfind] at h
      by_cases hc : caught e' = true
      · simp [hc] at h
      · simp [hc] at h; subst h; simpa using hc
    | ok pr =>
      obtain ⟨root', r⟩ := pr
      rw [hfind] at h
      by_cases hf : r.isFound = true
      · simp [hf] at h
      · simp [hf] at h
  · simp only [hp, Bool.false_eq_true, if_false] at h
    cases hl : lookup s kvs with
    | some v => simp [hl] at h
    | none => simp [hl] at h

theorem C04_qmark_miss_is_empty (fuel : Nat) (cls : Cls) (kvs : List (Str × Val)) (s : Str) (v : Val)
    (hmiss : (getItem fuel (.dict cls kvs) s).2 = .error .IndexError ∨ (getItem fuel (.dict cls kvs) s).2 = .error .KeyError)
    (hs : startsWith s ['?'] = false)
    (h : (getItem fuel (.dict cls kvs) ('?' :: s)).2 = .ok v) : v = emptyStr := by
  unfold getItem getCore at h hmiss
  have hq : startsWith ('?' :: s) ['?'] = true := by simp [startsWith]
  simp only [hq, if_true, List.drop_one, List.tail_cons] at h
  simp only [hs, Bool.false_eq_true, if_false] at hmiss
  by_cases hp : hasPathChar s = true
  · simp only [hp, if_true] at h hmiss
    cases hfind : findD fuel (.dict cls kvs) [] false true (tokenize s) (.at []) true slash with
    | error e' =>
      rw [hfind] at h hmiss
      by_cases hc : caught e' = true
      · simp [hc] at h; exact h.symm
      · simp [hc] at h
    | ok pr =>
      obtain ⟨root', r⟩ := pr
      rw [hfind] at h hmiss
      by_cases hf : r.isFound = true
      · simp [hf] at hmiss
      · simp [hf] at h; exact h.symm
  · simp only [hp, Bool.false_eq_true, if_false] at h hmiss
    cases hl : lookup s kvs with
    | some v' => simp [hl] at hmiss
    | none => simp [hl] at h; exact h.symm

/-- **Totality (full statement, not proved).**  For every tree and every string, `get` returns
normally.  On the pinned tree this is false for paths with a `new()` step (finding C04-a:
`d.get('[new()]')` lets `KeyError` escape); it is carried by the correspondence streams and the
evaluator only. -/
def C04_get_total_stmt : Prop :=
  ∀ (t : Val) (s : Str) (d : Val), ∃ n, ∀ fuel ≥ n, ∃ v, (XPath.get fuel t s d).2 = .ok v

/-- **Purity (full statement, not proved).**  No lookup changes the tree.  False on the pinned
tree for paths with a `new()` step (finding C04-a); see `C04_new_writes_cex`. -/
def C04_pure_stmt : Prop :=
  ∀ (t : Val) (s : Str) (d : Val) (fuel : Nat), (XPath.get fuel t s d).1 = t

def exTree : Val := .dict .n0 [(['a'], .dict .n0 [(['e'], .int 1)])]

/-- counter-example to purity: a lookup through `a/e[new()]` rewrites the scalar into a list -/
theorem C04_new_writes_cex :
    (XPath.get 20 exTree ['a', '/', 'e', '[', 'n', 'e', 'w', '(', ')', ']'] .none).1
      = .dict .n0 [(['a'], .dict .n0 [(['e'], .list .n0 [.int 1])])] := by decide

/-- counter-example to totality: `d.get('[new()]')` lets KeyError escape -/
theorem C04_new_keyerror_cex :
    (XPath.get 20 exTree ['[', 'n', 'e', 'w', '(', ')', ']'] .none).2 = .error .KeyError := by decide

/-! Non-vacuity of the equations above. -/
example : (XPath.get 20 exTree ['a', '/', 'z'] (.str ['D'])).2 = .ok (.str ['D']) := by decide
example : (getItem 20 exTree ['?', 'a', '/', 'z']).2 = .ok emptyStr := by decide
example : (getItem 20 exTree ['a', '/', 'z']).2 = .error .IndexError := by decide

end N0.C04
