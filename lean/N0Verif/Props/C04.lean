import N0Verif.Model.XPathApi
import N0Verif.Proofs.XPathPureApi
import N0Verif.Proofs.XPathPureInfix
import N0Verif.Proofs.XPathPureDiverge
import N0Verif.Proofs.XPathTok
import N0Verif.Proofs.XPathTermApi
import N0Verif.Proofs.XPathFirst
import N0Verif.Proofs.XPathUpRoot
/-!
# C04 — lookups are total and pure: a miss yields the default, never a change

`getItem`, `get`, `first` are the models of item access, `get` and `first` (dict- and
list-rooted).  Each returns the tree after the call together with the outcome.
-/
namespace N0.C04
open N0 N0.Py N0.Val N0.XPath

/-- the exception classes item access may raise on a miss -/
def allowed (e : PyErr) : Bool :=
  e = .KeyError || e = .IndexError || e = .ValueError || e = .TypeError || e = .SyntaxError

/-- **default exactly when item access raises** (dict root, no `?` prefix): `get` returns what
item access returns, and the caller's default exactly when item access raises one of the
funnelled classes (a plain missing key included); any other class would escape from both. -/
theorem C04_default_iff_miss (fuel : Nat) (cls : Cls) (kvs : List (Str × Val)) (s : Str) (d : Val)
    (hq : startsWith s ['?'] = false) :
    XPath.get fuel (.dict cls kvs) s d =
      (match getItem fuel (.dict cls kvs) s with
       | (t', .ok v) => (t', .ok v)
       | (t', .error e) =>
          if caught e || (e = .KeyError && !hasPathChar s) then (t', .ok d) else (t', .error e)) := by
  unfold XPath.get getItem getCore
  simp only [hq, Bool.false_eq_true, if_false]
  by_cases hp : hasPathChar s = true
  · simp only [hp, if_true]
    cases hfind : findD fuel (.dict cls kvs) [] false true (tokenize s) (.at []) true slash with
    | error e =>
      by_cases hc : caught e = true
      · simp [hc]
      · simp [hc]
    | ok pr =>
      obtain ⟨root', r⟩ := pr
      by_cases hf : r.isFound = true
      · simp [hf]
      · simp [hf, caught]
  · simp only [hp, Bool.false_eq_true, if_false]
    cases lookup s kvs with
    | some v => simp
    | none => simp [caught]

/-- **`first`** (fix C04-f) looks the path up with a private marker object as default — `getCoreS`, the same
transcription of `_get` as `getCore` (`C04_marker_lookup`) with `none` for "the marker came back" — and returns the
caller's default **as it is** when the marker comes back; only a found value is unwrapped (`unwrap1`: a one-element
list is replaced by its element). -/
theorem C04_first_eq (fuel : Nat) (t : Val) (s : Str) (d : Val) :
    first fuel t s d =
      (match getCoreS fuel t s false false with
       | (t', .ok (some v)) => (t', .ok (unwrap1 v))
       | (t', .ok Option.none) => (t', .ok d)
       | (t', .error e) => (t', .error e)) := by
  rw [first_def]
  rcases getCoreS fuel t s false false with ⟨t', (e | (_ | v))⟩ <;> rfl

/-- the lookup with the marker is the ordinary lookup: `_get … if_not_found=d` returns what the marker lookup returns,
with the marker replaced by `d` — every root, path, default, `raise_exception`, `return_lists` -/
theorem C04_marker_lookup (fuel : Nat) (t : Val) (s : Str) (d : Val) (raise rl : Bool) :
    getCore fuel t s d raise rl =
      ((getCoreS fuel t s raise rl).1,
       match (getCoreS fuel t s raise rl).2 with
       | .ok o => .ok (o.getD d)
       | .error e => .error e) :=
  first_getCoreS_spec fuel t s d raise rl

/-- **The caller's default comes back exactly as it is** (dict or list root, no `?` prefix): when the path does not
resolve — the lookup `first` performs (`return_lists=False`), asked to raise, raises one of the funnelled classes or
the `KeyError` of a plain missing key — `first` returns `d` itself, WHATEVER value `d` is: a one-element list
`['D']`, `[None]`, `[[]]` included (before fix C04-f those came back as `'D'`, `None`, `[]`).  The tree is the one
the lookup returns (`C04_pure_all`: the tree given). -/
theorem C04_first_default_identity (fuel : Nat) (t : Val) (s : Str) (d : Val) (e : PyErr)
    (hq : startsWith s ['?'] = false)
    (hmiss : (getCore fuel t s Val.none true false).2 = .error e)
    (he : (caught e || (e = .KeyError && !hasPathChar s)) = true) :
    first fuel t s d = ((getCore fuel t s Val.none true false).1, .ok d) :=
  first_miss_identity fuel t s d Val.none e hq hmiss he

/-- … and **exactly** then: when the same lookup resolves to `v`, `first` returns `unwrap1 v` for every default — the
default plays no part in a hit (also when `v` happens to equal it) -/
theorem C04_first_hit (fuel : Nat) (t : Val) (s : Str) (d v : Val)
    (hq : startsWith s ['?'] = false) (hne : s ≠ [])
    (hhit : (getCore fuel t s Val.none true false).2 = .ok v) :
    first fuel t s d = ((getCore fuel t s Val.none true false).1, .ok (unwrap1 v)) :=
  first_hit fuel t s d Val.none v hq hne hhit

/-- **`?`-prefixed paths**: item access does not raise any of the funnelled classes (a miss
yields `''`), and a plain missing key yields `''` as well (dict root) -/
theorem C04_qmark (fuel : Nat) (cls : Cls) (kvs : List (Str × Val)) (s : Str) (e : PyErr)
    (h : (getItem fuel (.dict cls kvs) ('?' :: s)).2 = .error e) : caught e = false := by
  unfold getItem getCore at h
  have hq : startsWith ('?' :: s) ['?'] = true := by simp [startsWith]
  simp only [hq, if_true, List.drop_one, List.tail_cons] at h
  by_cases hp : hasPathChar s = true
  · simp only [hp, if_true] at h
    cases hfind : findD fuel (.dict cls kvs) [] false true (tokenize s) (.at []) true slash with
    | error e' =>
      rw [hfind] at h
      by_cases hc : caught e' = true
      · simp [hc] at h
      · simp [hc] at h; subst h; simpa using hc
    | ok pr =>
      obtain ⟨root', r⟩ := pr
      rw [hfind] at h
      by_cases hf : r.isFound = true
      · simp [hf] at h
      · simp [hf] at h
  · simp only [hp, Bool.false_eq_true, if_false] at h
    cases hl : lookup s kvs with
    | some v => simp [hl] at h
    | none => simp [hl] at h

theorem C04_qmark_miss_is_empty (fuel : Nat) (cls : Cls) (kvs : List (Str × Val)) (s : Str) (v : Val)
    (hmiss : (getItem fuel (.dict cls kvs) s).2 = .error .IndexError ∨ (getItem fuel (.dict cls kvs) s).2 = .error .KeyError)
    (hs : startsWith s ['?'] = false)
    (h : (getItem fuel (.dict cls kvs) ('?' :: s)).2 = .ok v) : v = emptyStr := by
  unfold getItem getCore at h hmiss
  have hq : startsWith ('?' :: s) ['?'] = true := by simp [startsWith]
  simp only [hq, if_true, List.drop_one, List.tail_cons] at h
  simp only [hs, Bool.false_eq_true, if_false] at hmiss
  by_cases hp : hasPathChar s = true
  · simp only [hp, if_true] at h hmiss
    cases hfind : findD fuel (.dict cls kvs) [] false true (tokenize s) (.at []) true slash with
    | error e' =>
      rw [hfind] at h hmiss
      by_cases hc : caught e' = true
      · simp [hc] at h; exact h.symm
      · simp [hc] at h
    | ok pr =>
      obtain ⟨root', r⟩ := pr
      rw [hfind] at h hmiss
      by_cases hf : r.isFound = true
      · simp [hf] at hmiss
      · simp [hf] at h; exact h.symm
  · simp only [hp, Bool.false_eq_true, if_false] at h hmiss
    cases hl : lookup s kvs with
    | some v' => simp [hl] at hmiss
    | none => simp [hl] at h; exact h.symm

/-- **Totality (full statement, not proved).**  For every tree and every string, `get` returns
normally.  False for trees with a key named `*` (finding C04-d: the search never ends,
`C04_star_key_diverges_cex`); the other counter-example, a `new()` step (finding C04-a), is repaired
(`C04_new_root_is_miss`).  Proved for every path and tree up to the model-only outcomes:
`C04_get_total_any_partial` (block at the end of the file); `C04_get_total_partial` is the earlier form
with the `new()` hypotheses. -/
def C04_get_total_stmt : Prop :=
  ∀ (t : Val) (s : Str) (d : Val), ∃ n, ∀ fuel ≥ n, ∃ v, (XPath.get fuel t s d).2 = .ok v

/-- **Purity (full statement).**  No lookup changes the tree.  Proved: `C04_pure` (block at the end of
the file), after fix C04-a; before it a `new()` step rewrote a scalar into a list (now
`C04_new_no_write`).  `C04_pure_partial` is the earlier form with the `new()` hypotheses. -/
def C04_pure_stmt : Prop :=
  ∀ (t : Val) (s : Str) (d : Val) (fuel : Nat), (XPath.get fuel t s d).1 = t

def exTree : Val := .dict .n0 [(['a'], .dict .n0 [(['e'], .int 1)])]

/-- (c03fix, fix C04-a) the former counter-example to purity: a lookup through `a/e[new()]` is a miss
and leaves the scalar alone (it used to rewrite it into a list) -/
theorem C04_new_no_write :
    XPath.get 20 exTree ['a', '/', 'e', '[', 'n', 'e', 'w', '(', ')', ']'] (.str ['D']) = (exTree, .ok (.str ['D'])) := by
  decide

/-- (c03fix, fix C04-a) the former counter-example to totality: `d.get('[new()]')` returns the default
(it used to let KeyError escape) -/
theorem C04_new_root_is_miss :
    XPath.get 20 exTree ['[', 'n', 'e', 'w', '(', ')', ']'] (.str ['D']) = (exTree, .ok (.str ['D'])) := by decide

/-! Non-vacuity of the equations above. -/
example : (XPath.get 20 exTree ['a', '/', 'z'] (.str ['D'])).2 = .ok (.str ['D']) := by decide
example : (getItem 20 exTree ['?', 'a', '/', 'z']).2 = .ok emptyStr := by decide
example : (getItem 20 exTree ['a', '/', 'z']).2 = .error .IndexError := by decide

/-! ## Purity and totality away from `new()`

`Safe s`: the text `new()` does not occur in `s` as a substring.  `SafeTree t`: no dict key
anywhere in `t` contains `new()`.  Under these two hypotheses the resolver can never see the
index text `new()` — every token it synthesises (pieces of the path, of `found`, of dict keys,
decimal indexes, the fixed pieces `[ ] / ' .. text() True False == != ~~ !~`) is again `Safe`
(`Proofs/XPathPure.lean`) — so the only branch of `_find` that writes is unreachable.  The
theorems hold for every fuel, every tree, every string (well-formed or not), both root kinds,
and for all branches of the resolver (`..`, `*`, `[*]`, conditions, `text()`, pure index,
implicit fan-out): `Proofs/XPathPureFind.lean`, one induction on the fuel. -/

/-- `new()` does not occur in the path -/
def Safe (s : Str) : Prop := NoNew s
/-- `new()` does not occur in any dict key of the tree -/
def SafeTree (t : Val) : Prop := SafeKeys NoNew t

instance : DecidablePred Safe := fun s => inferInstanceAs (Decidable (NoNew s))

/-- the model-only outcomes: a run that exhausted its fuel, an input outside the model's scope -/
def modelOnly (e : PyErr) : Prop := e = .OutOfFuel ∨ e = .Unsupported

/-- **Purity of the resolver** (dict-side `_find`, every branch): from safe tokens, a safe
`found` string and a tree with safe keys, a search that returns, returns the root it was given. -/
theorem C04_findD_pure_partial (fuel : Nat) (root : Val) (sp : Pos) (entry rl : Bool) (toks : List Str)
    (par : PRef) (found : Str) (root' : Val) (r : Res)
    (hroot : SafeTree root) (hpar : SafeRef NoNew root par) (htoks : ∀ t ∈ toks, Safe t) (hfound : Safe found)
    (h : findD fuel root sp false entry toks par rl found = .ok (root', r)) : root' = root := by
  have := (find_post (P := NoNew) root hroot fuel).1 sp entry toks par rl found hpar htoks hfound
  rw [h] at this
  exact this.1

/-- **Exception classes of the resolver**: under the same hypotheses a failing search fails with
one of the four classes `_get` funnels, or with a model-only outcome.  In particular `KeyError`
(which `parent[name]` of the `..` branch could raise) and `AttributeError` cannot occur. -/
theorem C04_findD_errclass_partial (fuel : Nat) (root : Val) (sp : Pos) (entry rl : Bool) (toks : List Str)
    (par : PRef) (found : Str) (e : PyErr)
    (hroot : SafeTree root) (hpar : SafeRef NoNew root par) (htoks : ∀ t ∈ toks, Safe t) (hfound : Safe found)
    (h : findD fuel root sp false entry toks par rl found = .error e) : caught e = true ∨ modelOnly e := by
  have := (find_post (P := NoNew) root hroot fuel).1 sp entry toks par rl found hpar htoks hfound
  rw [h] at this
  by_cases hc : caught e = true
  · exact Or.inl hc
  · exact Or.inr (okErr_not_caught this hc)

/-- the same two facts for the list-side `_find` -/
theorem C04_findL_partial (fuel : Nat) (root : Val) (sp : Pos) (rl : Bool) (toks : List Str)
    (par : PRef) (found : Str)
    (hroot : SafeTree root) (hpar : SafeRef NoNew root par) (htoks : ∀ t ∈ toks, Safe t) (hfound : Safe found) :
    (∀ root' r, findL fuel root sp toks par rl found = .ok (root', r) → root' = root) ∧
    (∀ e, findL fuel root sp toks par rl found = .error e → caught e = true ∨ modelOnly e) := by
  have := (findL_post (P := NoNew) root hroot fuel).1 sp toks par rl found hpar htoks hfound
  constructor
  · intro root' r h; rw [h] at this; exact this.1
  · intro e h; rw [h] at this
    by_cases hc : caught e = true
    · exact Or.inl hc
    · exact Or.inr (okErr_not_caught this hc)

/-- **Purity (partial: no `new()` in the path or in a key).**  Item access, `get` and `first`
return the tree they were given — found or not, well-formed path or not, dict or list root. -/
theorem C04_pure_partial (fuel : Nat) (t : Val) (s : Str) (d : Val) (hs : Safe s) (ht : SafeTree t) :
    (XPath.get fuel t s d).1 = t ∧ (getItem fuel t s).1 = t ∧ (first fuel t s d).1 = t := by
  refine ⟨(getCore_safe (P := NoNew) fuel t s d false true hs ht).1,
          (getCore_safe (P := NoNew) fuel t s Val.none true true hs ht).1, ?_⟩
  rw [first_fst]
  exact (getCore_safe (P := NoNew) fuel t s d false false hs ht).1

/-- **Totality (partial: no `new()` in the path or in a key).**  `get` and `first` return
normally: no Python exception class escapes.  The only other outcomes are the model's own
`OutOfFuel`/`Unsupported`. -/
theorem C04_get_total_partial (fuel : Nat) (t : Val) (s : Str) (d : Val) (hs : Safe s) (ht : SafeTree t) :
    ((∃ v, (XPath.get fuel t s d).2 = .ok v) ∨ ∃ e, (XPath.get fuel t s d).2 = .error e ∧ modelOnly e) ∧
    ((∃ v, (first fuel t s d).2 = .ok v) ∨ ∃ e, (first fuel t s d).2 = .error e ∧ modelOnly e) := by
  constructor
  · have h := (getCore_safe (P := NoNew) fuel t s d false true hs ht).2
    unfold XPath.get
    cases hr : (getCore fuel t s d false true).2 with
    | ok v => exact Or.inl ⟨v, rfl⟩
    | error e =>
      right
      rcases h e hr with ⟨hf, _⟩ | hm
      · cases hf
      · exact ⟨e, rfl, hm⟩
  · have h := (getCore_safe (P := NoNew) fuel t s d false false hs ht).2
    cases hc : (getCore fuel t s d false false).2 with
    | ok v => exact Or.inl (first_ok_of_getCore fuel t s d v hc)
    | error e =>
      right
      rcases h e hc with ⟨hf, _⟩ | hm
      · cases hf
      · exact ⟨e, (first_error_iff fuel t s d e).2 hc, hm⟩

/-- **Item access raises only the allowed classes (partial).**  Besides the model-only
outcomes, item access raises one of KeyError/IndexError/ValueError/TypeError/SyntaxError, and
a `?`-prefixed path raises nothing. -/
theorem C04_getitem_errclass_partial (fuel : Nat) (t : Val) (s : Str) (e : PyErr) (hs : Safe s) (ht : SafeTree t)
    (h : (getItem fuel t s).2 = .error e) :
    (allowed e = true ∧ startsWith s ['?'] = false) ∨ modelOnly e := by
  rcases (getCore_safe (P := NoNew) fuel t s Val.none true true hs ht).2 e h with ⟨_, hq, hc⟩ | hm
  · left
    refine ⟨?_, hq⟩
    rcases hc with hc | rfl
    · cases e <;> simp_all [allowed, caught]
    · rfl
  · exact Or.inr hm

/-- **A key named `*` makes a `*` step recurse for ever** (counter-example to totality that does
not involve `new()`, and to fuel adequacy for arbitrary trees).  `n0dict({'*': 1}).get('*/x')`:
the wildcard loop calls `_find([key] + xpath_list)`, which re-inserts the wildcard, and the key
`*` is again a wildcard.  The model runs out of fuel for *every* fuel; the implementation raises
RecursionError, which `get` does not funnel (finding C04-d).  Path and tree are `Safe`, so the
`OutOfFuel` alternative of `C04_get_total_partial` cannot be dropped without a hypothesis on keys. -/
theorem C04_star_key_diverges_cex (fuel : Nat) (d : Val) :
    XPath.get fuel starTree ['*', '/', 'x'] d = (starTree, .error .OutOfFuel) := by
  have htok : tokenize ['*', '/', 'x'] = starToks 0 := by decide
  have h := (star_diverges fuel).1 0 true true
  unfold XPath.get getCore
  simp only [starTree] at h ⊢
  have hq : startsWith ['*', '/', 'x'] ['?'] = false := by decide
  have hp : hasPathChar ['*', '/', 'x'] = true := by decide
  simp only [hq, hp, htok, h, Bool.false_eq_true, if_false, if_true]
  rfl

example : Safe ['*', '/', 'x'] ∧ SafeTree starTree := by
  refine ⟨by decide, ?_⟩
  simp only [SafeTree, starTree, SafeKeys, SafeKeysK, and_true]
  decide

/-- every dict key of the tree is a plain name (non-empty, none of `/ [ ] * ? = ~` quotes or
blanks, not `..`) — the trees of the property's quantifier and of the harness -/
def PlainTree (t : Val) : Prop := SafeKeys PlainKey t

/-- **Fuel adequacy (statement).**  On a tree with plain-name keys some fuel, depending on the tree
and the path, is enough: `OutOfFuel` then is an artefact of the model and does not stand for an
infinite search.  (Without the hypothesis on keys it is false: `C04_star_key_diverges_cex`.)
Proved: `C04_fuel_enough`, with the explicit bound `termFuel` (`C04_fuel_bound`). -/
def C04_fuel_enough_stmt : Prop :=
  ∀ (t : Val) (s : Str), Safe s → PlainTree t →
    ∃ n, ∀ fuel ≥ n, ∀ d, (XPath.get fuel t s d).2 ≠ .error .OutOfFuel

/-! ## Termination

The resolver re-resolves its `found` string from `self` in the `..` step, after a `text()`
condition and when the token list is exhausted; `*` puts itself back in front of the key it
visits; a name on a list inserts `[*]`.  No measure on the token list alone decreases.  The proof
(`Proofs/XPathTerm*.lean`) uses three facts: (1) the `found` text consists of `/key` and `[i]`
pieces only (`TermFound`), so a re-resolution never meets `..`, `*`, a condition or `text()`
again and costs at most `(W+4)·H + 2·pieces + 1` (`term_plain`; a `[new()]` step is one such re-resolution); (2) every step that does not
consume a token goes one level down in the tree (`termZ`, `termN`: recursion on the height);
(3) `..` consumes its token and lengthens `found` by at most `2·H` pieces.  `termPot H W toks h g`
is the resulting bound: a function of the tokens (their parse), the height `h` of the current node,
the number `g` of pieces of `found`, and the height `H` and width `W` of the tree. -/

/-- **Fuel bound.**  For every path text on a tree with plain-name keys, `termFuel t s` steps of
fuel are enough for `get`, item access and `first`: none of them answers `OutOfFuel`.  (Since fix
C04-a a `new()` step ends the search after one re-resolution of `found`, so no hypothesis on the
path is needed.) -/
theorem C04_fuel_bound (t : Val) (s : Str) (ht : PlainTree t) (fuel : Nat) (hf : termFuel t s ≤ fuel) (d : Val) :
    (XPath.get fuel t s d).2 ≠ .error .OutOfFuel ∧ (getItem fuel t s).2 ≠ .error .OutOfFuel ∧
    (first fuel t s d).2 ≠ .error .OutOfFuel := by
  refine ⟨term_getCore fuel t s d false true ht hf, term_getCore fuel t s Val.none true true ht hf, ?_⟩
  intro h
  exact term_getCore fuel t s d false false ht hf ((first_error_iff fuel t s d _).1 h)

/-- **Termination**: the search ends — for every tree with plain-name keys and every string there is a
fuel from which on the model never answers `OutOfFuel` (the hypothesis `Safe s` of the statement is not
used). -/
theorem C04_fuel_enough : C04_fuel_enough_stmt :=
  fun t s _ ht => ⟨termFuel t s, fun fuel hf d => (C04_fuel_bound t s ht fuel hf d).1⟩

/-! Non-vacuity of the partial theorems: the hypotheses hold for paths that exercise the
`..`, `*`, `[*]`, condition, `text()` and index branches, and for a path that is not `NoW`
(it contains the letter w) but is `Safe`. -/

def exTree2 : Val :=
  .dict .n0 [(['r'], .list .n0 [.dict .n0 [(['i', 'd'], .str ['1']), (['w'], .str ['x'])],
                                .dict .n0 [(['i', 'd'], .str ['2']), (['w'], .str ['y'])]]),
             (['n', 'e', 'w'], .int 7)]

theorem exTree_safe : SafeTree exTree := by
  simp only [SafeTree, exTree, SafeKeys, SafeKeysK, and_true]
  exact ⟨by decide, by decide⟩

theorem exTree2_safe : SafeTree exTree2 := by
  simp only [SafeTree, exTree2, SafeKeys, SafeKeysK, SafeKeysL, and_true]
  refine ⟨by decide, ⟨⟨by decide, by decide⟩, ⟨by decide, by decide⟩⟩, by decide⟩

-- r[id=2]/w : condition + `..` + text(); found
example : Safe ['r', '[', 'i', 'd', '=', '2', ']', '/', 'w'] := by decide
example : XPath.get 40 exTree2 ['r', '[', 'i', 'd', '=', '2', ']', '/', 'w'] .none
    = (exTree2, .ok (.list .n0 [.str ['y']])) := by decide +kernel
-- r/*/w, r[*]/id, */[0]/w, r[-1]/../new : fan-out, wildcards, index, `..`
example : XPath.get 40 exTree2 ['r', '[', '*', ']', '/', 'i', 'd'] .none
    = (exTree2, .ok (.list .n0 [.str ['1'], .str ['2']])) := by decide +kernel
example : Safe ['r', '[', '-', '1', ']', '/', '.', '.', '/', 'n', 'e', 'w'] := by decide
example : (XPath.get 40 exTree2 ['r', '[', '-', '1', ']', '/', '.', '.', '/', 'n', 'e', 'w'] .none).2
    = .ok (.int 7) := by decide +kernel
-- misses: default returned, tree unchanged
example : XPath.get 40 exTree2 ['r', '[', '5', ']', '/', 'w'] (.str ['D']) = (exTree2, .ok (.str ['D'])) := by decide +kernel
example : XPath.get 40 exTree2 ['r', '[', 'i', 'd', '=', '3', ']', '/', 'w'] (.str ['D']) = (exTree2, .ok (.str ['D'])) := by
  decide +kernel
-- ill-formed path: funnelled
example : Safe ['r', '[', ']', ']', '[', '/', '/', '='] := by decide
example : XPath.get 40 exTree2 ['r', '[', ']', ']', '[', '/', '/', '='] (.str ['D']) = (exTree2, .ok (.str ['D'])) := by
  decide +kernel
-- the hypothesis is needed: the counter-example path is not `Safe`
example : ¬ Safe ['a', '/', 'e', '[', 'n', 'e', 'w', '(', ')', ']'] := by decide
-- item access on a miss raises an allowed class; a list root
example : (getItem 40 exTree2 ['r', '[', '5', ']', '/', 'w']).2 = .error .IndexError := by decide +kernel
example : SafeTree (.list .n0 [.dict .n0 [(['k'], .int 1)]]) := by
  simp only [SafeTree, SafeKeys, SafeKeysK, SafeKeysL, and_true]; decide
example : XPath.get 40 (.list .n0 [.dict .n0 [(['k'], .int 1)]]) ['[', '0', ']', '/', 'k'] .none
    = (.list .n0 [.dict .n0 [(['k'], .int 1)]], .ok (.int 1)) := by decide +kernel
-- the resolver-level theorems: hypotheses inhabited at the root
example : SafeRef NoNew exTree2 (.at []) := SafeRef_at exTree2_safe []
example : ∀ t ∈ tokenize ['r', '[', 'i', 'd', '=', '2', ']', '/', 'w'], Safe t :=
  P_tokenize (P := NoNew) (by decide)

/-! ## ===== block added by worker c03fix (fix C04-a) — begin =====

After fix C04-a the `new()` step of `_find` writes nothing and raises no `KeyError`; the safety predicate
of the proofs (`SafePred`) lost its clause "`new()` is not safe", so the always-true predicate is an
instance (`AnyStr`) and the theorems above hold **without** `Safe s` / `SafeTree t`: for every path text
and every tree. -/

/-- **C04 purity, full statement, proved**: no `get` changes the tree — any tree, any string, any fuel. -/
theorem C04_pure : C04_pure_stmt := by
  intro t s d fuel
  exact (getCore_any fuel t s d false true).1

/-- **Purity of every lookup entry point** (item access, `get`, `first`; dict or list root; found or
not; well-formed path or not; with or without a `new()` step). -/
theorem C04_pure_all (fuel : Nat) (t : Val) (s : Str) (d : Val) :
    (XPath.get fuel t s d).1 = t ∧ (getItem fuel t s).1 = t ∧ (first fuel t s d).1 = t := by
  refine ⟨(getCore_any fuel t s d false true).1, (getCore_any fuel t s Val.none true true).1, ?_⟩
  rw [first_fst]
  exact (getCore_any fuel t s d false false).1

/-- the dict-side resolver itself returns the tree it was given — every token list, also with `new()` -/
theorem C04_findD_pure (fuel : Nat) (root : Val) (sp : Pos) (entry rl : Bool) (toks : List Str) (par : PRef)
    (found : Str) (root' : Val) (r : Res)
    (h : findD fuel root sp false entry toks par rl found = .ok (root', r)) : root' = root := by
  have := findD_any fuel root sp entry rl toks par found
  rw [h] at this
  exact this.1

/-- **Totality up to the model-only outcomes, every path and tree**: `get` and `first` return normally;
no Python exception class escapes (in particular no `KeyError` from a `new()` step).  What remains
between this and `C04_get_total_stmt` is `OutOfFuel` (finding C04-d, fuel adequacy) and `Unsupported`. -/
theorem C04_get_total_any_partial (fuel : Nat) (t : Val) (s : Str) (d : Val) :
    ((∃ v, (XPath.get fuel t s d).2 = .ok v) ∨ ∃ e, (XPath.get fuel t s d).2 = .error e ∧ modelOnly e) ∧
    ((∃ v, (first fuel t s d).2 = .ok v) ∨ ∃ e, (first fuel t s d).2 = .error e ∧ modelOnly e) := by
  constructor
  · have h := (getCore_any fuel t s d false true).2
    unfold XPath.get
    cases hr : (getCore fuel t s d false true).2 with
    | ok v => exact Or.inl ⟨v, rfl⟩
    | error e =>
      right
      rcases h e hr with ⟨hf, _⟩ | hm
      · cases hf
      · exact ⟨e, rfl, hm⟩
  · have h := (getCore_any fuel t s d false false).2
    cases hc : (getCore fuel t s d false false).2 with
    | ok v => exact Or.inl (first_ok_of_getCore fuel t s d v hc)
    | error e =>
      right
      rcases h e hc with ⟨hf, _⟩ | hm
      · cases hf
      · exact ⟨e, (first_error_iff fuel t s d e).2 hc, hm⟩

/-- **Item access raises only the allowed classes, every path and tree.** -/
theorem C04_getitem_errclass_any_partial (fuel : Nat) (t : Val) (s : Str) (e : PyErr)
    (h : (getItem fuel t s).2 = .error e) :
    (allowed e = true ∧ startsWith s ['?'] = false) ∨ modelOnly e := by
  rcases (getCore_any fuel t s Val.none true true).2 e h with ⟨_, hq, hc⟩ | hm
  · left
    refine ⟨?_, hq⟩
    rcases hc with hc | rfl
    · cases e <;> simp_all [allowed, caught]
    · rfl
  · exact Or.inr hm

/-! Non-vacuity: the paths the hypotheses `Safe`/`SafeTree` used to exclude. -/
example : ¬ Safe ['a', '/', 'e', '[', 'n', 'e', 'w', '(', ')', ']'] := by decide
example : (XPath.get 20 exTree ['a', '/', 'e', '[', 'n', 'e', 'w', '(', ')', ']'] .none).1 = exTree :=
  (C04_pure_all 20 exTree _ .none).1
example : (getItem 20 exTree ['a', '/', 'e', '[', 'n', 'e', 'w', '(', ')', ']']) = (exTree, .error .IndexError) := by decide
example : (first 20 exTree ['[', 'n', 'e', 'w', '(', ')', ']'] (.int 7)) = (exTree, .ok (.int 7)) := by decide
/-- a tree with a key that contains the text `new()` (not `SafeTree`), reached through `*` -/
example : (XPath.get 40 (.dict .n0 [(['a'], .dict .n0 [(['e', '[', 'n', 'e', 'w', '(', ')', ']'], .int 1), (['e'], .int 2)])])
    ['a', '/', '*'] .none).1 = .dict .n0 [(['a'], .dict .n0 [(['e', '[', 'n', 'e', 'w', '(', ')', ']'], .int 1), (['e'], .int 2)])] :=
  (C04_pure_all 40 _ _ .none).1
/-- and `__setitem__` still creates through `new()` (the conversion has moved into `_add`) -/
example : setItem 20 exTree ['a', '/', 'e', '[', 'n', 'e', 'w', '(', ')', ']'] (.int 5)
    = (.dict .n0 [(['a'], .dict .n0 [(['e'], .list .n0 [.int 1, .int 5])])], .ok ()) := by decide

/-! ## ===== block added by worker c03fix (fix C04-a) — end ===== -/

/-! Non-vacuity of the termination theorems: `exTree2` has plain-name keys; the bound is a concrete
number for the condition path (which goes through `[text()…]`, `..` and a re-resolution of `found`),
for a `..` path and for a `*` path, and the model run with that fuel returns. -/

theorem exTree2_plain : PlainTree exTree2 := by
  have hk : ∀ k : Str, k ≠ [] → (∀ c ∈ k, plainChar c = true) → k ≠ ['.', '.'] → PlainKey k := fun _ a b c => ⟨a, b, c⟩
  simp only [PlainTree, exTree2, SafeKeys, SafeKeysK, SafeKeysL, and_true, true_and]
  repeat' apply And.intro
  all_goals exact hk _ (by decide) (by decide) (by decide)

/-- **Totality.**  For ANY string xpath, on a tree with plain-name keys, with enough fuel `get` and
`first` return normally — the caller's default on a miss or an ill-formed path; the only other outcome is
the model's declared `Unsupported` (a float in a `text()` comparison, `%` in a quoted value,
non-ASCII digits, …).  No hypothesis on the path; no `OutOfFuel` escape clause. -/
theorem C04_get_total (t : Val) (s : Str) (d : Val) (hp : PlainTree t) (fuel : Nat) (hf : termFuel t s ≤ fuel) :
    ((∃ v, (XPath.get fuel t s d).2 = .ok v) ∨ (XPath.get fuel t s d).2 = .error .Unsupported) ∧
    ((∃ v, (first fuel t s d).2 = .ok v) ∨ (first fuel t s d).2 = .error .Unsupported) := by
  obtain ⟨h1, _, h3⟩ := C04_fuel_bound t s hp fuel hf d
  obtain ⟨p1, p2⟩ := C04_get_total_any_partial fuel t s d
  constructor
  · rcases p1 with h | ⟨e, he, hm | hm⟩
    · exact Or.inl h
    · subst hm; exact absurd he h1
    · subst hm; exact Or.inr he
  · rcases p2 with h | ⟨e, he, hm | hm⟩
    · exact Or.inl h
    · subst hm; exact absurd he h3
    · subst hm; exact Or.inr he

/-- **Item access raises only the allowed classes.**  For any string on a tree with plain-name keys, with
enough fuel, item access raises one of KeyError/IndexError/ValueError/TypeError/SyntaxError (and nothing
for a `?`-prefixed path), or the model declares the input `Unsupported`. -/
theorem C04_getitem_errclass (t : Val) (s : Str) (e : PyErr) (hp : PlainTree t)
    (fuel : Nat) (hf : termFuel t s ≤ fuel) (h : (getItem fuel t s).2 = .error e) :
    (allowed e = true ∧ startsWith s ['?'] = false) ∨ e = .Unsupported := by
  rcases C04_getitem_errclass_any_partial fuel t s e h with h' | hm | hm
  · exact Or.inl h'
  · subst hm; exact absurd h (C04_fuel_bound t s hp fuel hf Val.none).2.1
  · exact Or.inr hm

example : termFuel exTree2 ['r', '[', 'i', 'd', '=', '2', ']', '/', 'w'] = 123 := by decide +kernel
example : termFuel exTree2 ['r', '[', '-', '1', ']', '/', '.', '.', '/', 'n', 'e', 'w'] = 136 := by decide +kernel
example : termFuel exTree2 ['*', '/', 'x'] = 123 := by decide +kernel
example : (XPath.get 123 exTree2 ['r', '[', 'i', 'd', '=', '2', ']', '/', 'w'] .none).2 = .ok (.list .n0 [.str ['y']]) := by
  decide +kernel
example : (∃ v, (XPath.get 123 exTree2 ['*', '/', 'x'] (.str ['D'])).2 = .ok v) :=
  ((C04_get_total exTree2 ['*', '/', 'x'] (.str ['D']) exTree2_plain 123 (by decide +kernel)).1).resolve_right
    (by decide +kernel)
-- a path with a `new()` step (not `Safe`): the bound covers it, `get` returns the default
theorem exTree_plain : PlainTree exTree := by
  have hk : ∀ k : Str, k ≠ [] → (∀ c ∈ k, plainChar c = true) → k ≠ ['.', '.'] → PlainKey k := fun _ a b c => ⟨a, b, c⟩
  simp only [PlainTree, exTree, SafeKeys, SafeKeysK, and_true]
  repeat' apply And.intro
  all_goals exact hk _ (by decide) (by decide) (by decide)
example : (XPath.get (termFuel exTree ['a', '/', 'e', '[', 'n', 'e', 'w', '(', ')', ']', '/', 'x']) exTree
    ['a', '/', 'e', '[', 'n', 'e', 'w', '(', ')', ']', '/', 'x'] (.str ['D'])).2 = .ok (.str ['D']) := by decide +kernel
example : ¬ Safe ['a', '/', 'e', '[', 'n', 'e', 'w', '(', ')', ']', '/', 'x'] := by decide
-- the hypothesis on keys is needed: the diverging tree is not plain
example : ¬ PlainTree starTree := by
  simp only [PlainTree, starTree, SafeKeys, SafeKeysK, and_true]
  intro h
  exact absurd (h.chars '*' (by simp)) (by decide)

/-! ## fix C04-f: `first` hands the caller's default back as it is (`C04_first_default_identity`, `C04_first_hit`)

Non-vacuity.  `dOne = ['D']` is a one-element list: before the fix `first` returned `'D'` for it on a miss. -/
def dOne : Val := .list .plain [.str ['D']]

-- plain missing key (KeyError of the raising lookup), a missing step below a dict (IndexError), an index out of
-- range, a predicate that selects nothing, an ill-formed path: the default itself
example : first 20 exTree ['z', 'z'] dOne = (exTree, .ok dOne) :=
  C04_first_default_identity 20 exTree ['z', 'z'] dOne .KeyError (by decide) (by decide) (by decide)
example : first 20 exTree ['a', '/', 'z'] dOne = (exTree, .ok dOne) :=
  C04_first_default_identity 20 exTree ['a', '/', 'z'] dOne .IndexError (by decide) (by decide) (by decide)
example : first 40 exTree2 ['r', '[', 'i', 'd', '=', '3', ']', '/', 'w'] (.list .plain [.none])
    = (exTree2, .ok (.list .plain [.none])) :=
  C04_first_default_identity 40 exTree2 _ _ .IndexError (by decide) (by decide +kernel) (by decide)
example : first 40 exTree2 ['r', '[', '5', ']', '/', 'w'] (.list .plain [.list .plain []])
    = (exTree2, .ok (.list .plain [.list .plain []])) := by decide +kernel
example : first 40 exTree2 ['r', '[', ']', ']', '[', '/', '/', '='] dOne = (exTree2, .ok dOne) := by decide +kernel
-- list root: a name on a list of records that none of them has, `''`, an index out of range
example : first 40 (.list .n0 [.dict .n0 [(['a'], .int 1)]]) ['z', 'z'] dOne
    = (.list .n0 [.dict .n0 [(['a'], .int 1)]], .ok dOne) := by decide +kernel
example : first 40 (.list .n0 [.dict .n0 [(['a'], .int 1)]]) [] dOne
    = (.list .n0 [.dict .n0 [(['a'], .int 1)]], .ok dOne) := by decide
example : first 40 (.list .n0 [.dict .n0 [(['a'], .int 1)]]) ['[', '7', ']'] dOne
    = (.list .n0 [.dict .n0 [(['a'], .int 1)]], .ok dOne) :=
  C04_first_default_identity 40 _ ['[', '7', ']'] dOne .IndexError (by decide) (by decide +kernel) (by decide)
-- `get` on the same misses returns the same default (it always did)
example : XPath.get 20 exTree ['z', 'z'] dOne = (exTree, .ok dOne) := by decide
-- a `?` prefix: `''` on a miss, as before the fix (that substitution happens inside `_get`)
example : first 20 exTree ['?', 'z', 'z'] dOne = (exTree, .ok emptyStr) := by decide
example : first 20 exTree ['?', 'a', '/', 'z'] dOne = (exTree, .ok emptyStr) := by decide
-- a hit is still unwrapped — also when the found value equals the default
example : first 40 exTree2 ['r', '[', 'i', 'd', '=', '2', ']', '/', 'w'] dOne = (exTree2, .ok (.str ['y'])) :=
  C04_first_hit 40 exTree2 _ dOne (.str ['y']) (by decide) (by decide) (by decide +kernel)
example : first 20 (.dict .n0 [(['a'], dOne)]) ['a'] dOne = (.dict .n0 [(['a'], dOne)], .ok (.str ['D'])) :=
  C04_first_hit 20 _ ['a'] dOne dOne (by decide) (by decide) (by decide)
example : first 40 exTree2 ['r', '[', '*', ']', '/', 'w'] dOne
    = (exTree2, .ok (.list .n0 [.str ['x'], .str ['y']])) := by decide +kernel

/-! ## fix C04-g: a `'..'` step that surfaces to the root as the LAST step of the path finds the root

Before the fix the FOUND branch of `'..'` built the found text from the name of the node reached — the root has
none (`str + None`): `TypeError`, so `d.get('a/..', 'D')` returned the default and `d['a/..']` raised although the
path resolves (`d['x/../s']`, where the walk continues, always worked). -/

/-- **`k/..` resolves to the root** (dict root, `k` a plain-name key that is present; every fuel ≥ 3, every default):
item access, `get` and `first` return the root itself, the tree is unchanged. -/
theorem C04_up_to_root (fuel : Nat) (cls : Cls) (kvs : List (Str × Val)) (k : Str) (c d : Val)
    (hk : PlainKey k) (hl : lookup k kvs = some c) :
    let t := Val.dict cls kvs
    let xp := k ++ slash ++ ['.', '.']
    getItem (fuel + 3) t xp = (t, .ok t) ∧ XPath.get (fuel + 3) t xp d = (t, .ok t) ∧ first (fuel + 3) t xp d = (t, .ok t) := by
  refine ⟨upRoot_getCore fuel cls kvs k c _ true true hk hl, upRoot_getCore fuel cls kvs k c d false true hk hl, ?_⟩
  exact first_of_found (fun d' => upRoot_getCore fuel cls kvs k c d' false false hk hl) d

/-- the token-level fact behind it: `_find` reports the root the way an empty xpath does (parent = the root, no name,
found text `/`) -/
theorem C04_up_to_root_find (fuel : Nat) (cls : Cls) (kvs : List (Str × Val)) (k : Str) (c : Val) (rl : Bool)
    (hk : PlainKey k) (hl : lookup k kvs = some c) :
    findD (fuel + 3) (.dict cls kvs) [] false true [k, ['.', '.']] (.at []) rl slash
      = .ok (.dict cls kvs, { parent := .at [], nameIdx := Option.none, value := .dict cls kvs, found := slash, notFound := Option.none }) :=
  upRoot_find fuel cls kvs k c true rl hk hl

-- non-vacuity: the theorem on `exTree` / `exTree2`, and the neighbouring shapes through the model
example : XPath.get 20 exTree ['a', '/', '.', '.'] (.str ['D']) = (exTree, .ok exTree) :=
  (C04_up_to_root 17 .n0 _ ['a'] _ (.str ['D']) ⟨by decide, by decide, by decide⟩ rfl).2.1
example : getItem 40 exTree2 ['r', '[', '0', ']', '/', '.', '.'] = (exTree2, .ok exTree2) := by decide +kernel
example : getItem 40 exTree2 ['r', '[', '0', ']', '/', 'w', '/', '.', '.', '/', '.', '.'] = (exTree2, .ok exTree2) := by decide +kernel
-- below a selecting step the parent of every selected record is collected: the list holding the root
example : getItem 40 exTree2 ['r', '[', 'i', 'd', '=', '2', ']', '/', '.', '.'] = (exTree2, .ok (.list .n0 [exTree2])) := by
  decide +kernel
example : getItem 40 exTree2 ['n', 'e', 'w', '/', '.', '.', '/', '.', '.'] = (exTree2, .ok exTree2) := by decide +kernel
example : getItem 40 (.list .n0 [.dict .n0 [(['a'], .int 1)]]) ['[', '0', ']', '/', '.', '.']
    = (.list .n0 [.dict .n0 [(['a'], .int 1)]], .ok (.list .n0 [.dict .n0 [(['a'], .int 1)]])) := by decide +kernel
-- a `'..'` that does not reach the root is what it was: the parent node
example : (getItem 40 exTree2 ['r', '[', '0', ']', '/', 'w', '/', '.', '.']).2
    = .ok (.dict .n0 [(['i', 'd'], .str ['1']), (['w'], .str ['x'])]) := by decide +kernel
-- assignment to the root through such a path is refused as `d['/'] = v` is (no name to store under)
example : (setItem 20 exTree ['a', '/', '.', '.'] (.int 5)).2 = .error .TypeError := by decide

/-- **finding C04-h (open)**: `'..'` directly below a scalar element reached by the list-side search (`n0list._find`:
index steps only, from a list root) raises `TypeError` although the path resolves — here to the inner list `[5, 6]`;
below a dict the same step works. -/
theorem C04_up_below_list_scalar_cex :
    getItem 40 (.list .n0 [.list .n0 [.int 5, .int 6]]) ['[', '0', ']', '[', '1', ']', '/', '.', '.']
      = (.list .n0 [.list .n0 [.int 5, .int 6]], .error .TypeError) ∧
    getItem 40 (.dict .n0 [(['b'], .list .n0 [.list .n0 [.int 5, .int 6]])]) ['b', '[', '0', ']', '[', '1', ']', '/', '.', '.']
      = (.dict .n0 [(['b'], .list .n0 [.list .n0 [.int 5, .int 6]])], .ok (.list .n0 [.int 5, .int 6])) := by
  constructor <;> decide +kernel

end N0.C04
