import N0Verif.Model.XPathApi
/-!
# C06 — wildcard and predicate steps select exactly the matching elements, in order
-/
namespace N0.C06
open N0 N0.Py N0.Val N0.XPath

/-- `[r[f] for r in rs if f in r]` -/
def selectF (f : Str) : List Val → List Val
  | [] => []
  | .dict _ kvs :: rs => (match lookup f kvs with | some v => [v] | Option.none => []) ++ selectF f rs
  | _ :: rs => selectF f rs

/-- records whose field `k` satisfies `test`, projected on `f` -/
def selectWhere (k f : Str) (test : Val → Bool) : List Val → List Val
  | [] => []
  | .dict _ kvs :: rs =>
    (match lookup k kvs, lookup f kvs with
     | some kv, some fv => if test kv then [fv] else []
     | _, _ => []) ++ selectWhere k f test rs
  | _ :: rs => selectWhere k f test rs

/-- what a selecting lookup returns for a list of selected values: a miss when empty -/
def selected (vals : List Val) (d : Val) : Val := if vals.isEmpty then d else .list .n0 vals

/-- **full statement (fan-out).**  `name[*]/f` and `name/f` return the values of `f` of exactly
the records that have `f`, in list order; a miss (the default) when there is none. -/
def C06_star_stmt : Prop :=
  ∀ (cls : Cls) (kvs : List (Str × Val)) (name f : Str) (lc : Cls) (rs : List Val) (d : Val),
    lookup name kvs = some (.list lc rs) → (∀ r ∈ rs, isDict r = true) →
    ∃ n, ∀ fuel ≥ n,
      (XPath.get fuel (.dict cls kvs) (name ++ bracket ['*'] ++ slash ++ f) d).2 = .ok (selected (selectF f rs) d) ∧
      (XPath.get fuel (.dict cls kvs) (name ++ slash ++ f) d).2 = .ok (selected (selectF f rs) d)

/-- **full statement (equality predicate).** -/
def C06_eq_stmt : Prop :=
  ∀ (cls : Cls) (kvs : List (Str × Val)) (name k f v : Str) (lc : Cls) (rs : List Val) (d : Val),
    lookup name kvs = some (.list lc rs) → (∀ r ∈ rs, isDict r = true) → v ≠ [] →
    ∃ n, ∀ fuel ≥ n,
      (XPath.get fuel (.dict cls kvs) (name ++ bracket (k ++ ['='] ++ v) ++ slash ++ f) d).2
        = .ok (selected (selectWhere k f (fun x => x == .str v) rs) d)

def recs : Val :=
  .dict .n0 [(['r'], .list .plain [.dict .plain [(['k'], .str ['1']), (['f'], .str ['x'])],
                                     .dict .plain [(['k'], .str ['2'])],
                                     .dict .plain [(['k'], .str ['1']), (['f'], .str ['y'])]])]

/-! the selecting forms on a concrete record list (non-vacuity; all five forms) -/
example : (XPath.get 60 recs ['r', '[', '*', ']', '/', 'f'] .none).2 = .ok (.list .n0 [.str ['x'], .str ['y']]) := by decide
example : (XPath.get 60 recs ['r', '/', 'f'] .none).2 = .ok (.list .n0 [.str ['x'], .str ['y']]) := by decide
example : (XPath.get 60 recs ['r', '[', 'k', '=', '1', ']', '/', 'f'] .none).2 = .ok (.list .n0 [.str ['x'], .str ['y']]) := by decide
example : (XPath.get 60 recs ['r', '[', 'k', '!', '=', '1', ']', '/', 'k'] .none).2 = .ok (.list .n0 [.str ['2']]) := by decide
example : (XPath.get 60 recs ['r', '/', 'k', '[', 't', 'e', 'x', 't', '(', ')', '=', '2', ']', '/', '.', '.', '/', 'k'] .none).2
    = .ok (.list .n0 [.str ['2']]) := by decide
example : (XPath.get 60 recs ['r', '[', 'k', '=', '3', ']', '/', 'f'] (.str ['D'])).2 = .ok (.str ['D']) := by decide
example : (XPath.first 60 recs ['r', '[', 'k', '=', '2', ']', '/', 'k'] .none).2 = .ok (.str ['2']) := by decide

/-- (was finding C06-a, repaired by fix C06-a) a numeric `k` is compared as a number, a text `k` as
text: `r[k=1]/f` selects both records; a literal that is not a number is just not equal -/
def recsNum : Val :=
  .dict .n0 [(['r'], .list .plain [.dict .plain [(['k'], .int 1), (['f'], .str ['x'])],
                                     .dict .plain [(['k'], .str ['1']), (['f'], .str ['y'])],
                                     .dict .plain [(['k'], .int 2), (['f'], .str ['z'])]])]
theorem C06_numeric_example :
    (XPath.get 60 recsNum ['r', '[', 'k', '=', '1', ']', '/', 'f'] (.str ['D'])).2 = .ok (.list .n0 [.str ['x'], .str ['y']])
    ∧ (XPath.get 60 recsNum ['r', '[', 'k', '!', '=', '1', ']', '/', 'f'] (.str ['D'])).2 = .ok (.list .n0 [.str ['z']])
    ∧ (XPath.get 60 recsNum ['r', '[', 'k', '=', 'a', ']', '/', 'f'] (.str ['D'])).2 = .ok (.str ['D'])
    ∧ (XPath.get 60 recsNum ['r', '[', 'k', '~', '1', ']', '/', 'f'] (.str ['D'])).2 = .ok (.list .n0 [.str ['y']]) := by
  decide +kernel

/-- (was finding C06-c, repaired by fix C06-c) the empty literal selects the records whose `k` is
the empty text, in both forms; a record without `k` is not selected -/
def recsEmpty : Val :=
  .dict .n0 [(['r'], .list .plain [.dict .plain [(['k'], .str []), (['f'], .str ['x'])],
                                     .dict .plain [(['f'], .str ['y'])],
                                     .dict .plain [(['k'], .str ['a']), (['f'], .str ['z'])]])]
theorem C06_empty_literal_example :
    (XPath.get 60 recsEmpty ['r', '[', 'k', '=', '\'', '\'', ']', '/', 'f'] (.str ['D'])).2 = .ok (.list .n0 [.str ['x']])
    ∧ (XPath.get 60 recsEmpty ['r', '/', 'k', '[', 't', 'e', 'x', 't', '(', ')', '=', '\'', '\'', ']', '/', '.', '.', '/', 'f'] (.str ['D'])).2
        = .ok (.list .n0 [.str ['x']])
    ∧ (XPath.get 60 recsEmpty ['r', '[', 'k', '!', '=', '\'', '\'', ']', '/', 'f'] (.str ['D'])).2 = .ok (.list .n0 [.str ['z']]) := by
  decide +kernel

/-- C06-b: chained predicates return the records of the wrong parent -/
def orders : Val :=
  .dict .n0 [(['o'], .list .plain [
    .dict .plain [(['i'], .str ['1']), (['t'], .list .plain [.dict .plain [(['s'], .str ['B']), (['q'], .str ['2'])]])],
    .dict .plain [(['i'], .str ['2']), (['t'], .list .plain [.dict .plain [(['s'], .str ['B']), (['q'], .str ['3'])]])]])]
theorem C06_chained_cex :
    (XPath.get 80 orders ['o', '[', 'i', '=', '2', ']', '/', 't', '[', 's', '=', 'B', ']', '/', 'q'] .none).2
      = .ok (.list .n0 [.list .n0 [.str ['2']]]) := by decide +kernel

end N0.C06
