import N0Verif.Proofs.XPathSelect2
import N0Verif.Proofs.XPathSelect3
import N0Verif.Proofs.XPathAudit
import N0Verif.Proofs.XPathListDeep
import N0Verif.Proofs.XPathListDeepSp
import N0Verif.Proofs.XPathIdxBlank
/-!
# C06 — wildcard and predicate steps select exactly the matching elements, in order

Only property statements live here; the lemmas are in `Proofs/XPathSelect.lean`.

Reading.  "Records" are dicts; the reference results are the list comprehensions `selectF` /
`selectWhere`; a selecting lookup returns the list of selected values (`get`, item access), the default /
`IndexError` when nothing is selected, and `first` additionally unwraps a single match (`firstOf`; the default
is returned as it is, fix C04-f).
Field names are plain names (`PlainKey`, `FieldKey`), the literal is a plain text (`PlainLit`), written
bare or quoted (`LitSpell`), the operator as written or normalised (`OpSpell`).

The model follows the code **with the fix patches C06-a, C06-c, C06-b and C06-e applied** (numeric fields
are compared as numbers, the empty literal is the empty text, `'..'` keeps the list index of the record it
returns to, a predicate on an empty list is a miss).

What is proved: `C06_star`, `C06_pred` (= `C06_star_stmt`, `C06_pred_stmt`: the record list at ANY position of
the tree, canonical path `P`), the `…_partial` theorems for `P` = a plain key of the root written without the
leading `/`, `C06_star_spelled` (any spelling of `P`), and chained selections `C06_chained`
(= `C06_chained_stmt`: the nested list of per-parent selections).  For EVERY spelling of `P` (prefix none / `/` /
`//`, `][` or `]/[`, `a[i]` or `a/[i]`, an index as `i`, `-k`, `last()`, `last()-k`, `i+j`): `C06_pred_spelled`,
`C06_chained_spelled` (token level) and `C06_star_spellings_string`, `C06_pred_spellings_string`,
`C06_chained_spellings_string` (string level).
`first` on a chained selection: `C06_chained_first`, `C06_chained_first_cases`.  An inner `items` that is ONE dict
record instead of a list of records: `C06_chained_hidden`, `C06_chained_hidden_flat`.  No statement is left open.
-/
namespace N0.C06
open N0 N0.Py N0.Val N0.XPath

/-! ## reference functions (the property's list comprehensions) -/

/-- `[r[f] for r in rs if f in r]` -/
def selectF (f : Str) : List Val → List Val
  | [] => []
  | .dict _ kvs :: rs => (match lookup f kvs with | some v => [v] | Option.none => []) ++ selectF f rs
  | _ :: rs => selectF f rs

/-- records whose field `k` satisfies `test`, projected on `f`:
`[r[f] for r in rs if k in r and test(r[k]) and f in r]` -/
def selectWhere (k f : Str) (test : Val → Bool) : List Val → List Val
  | [] => []
  | .dict _ kvs :: rs =>
    (match lookup k kvs, lookup f kvs with
     | some kv, some fv => if test kv then [fv] else []
     | _, _ => []) ++ selectWhere k f test rs
  | _ :: rs => selectWhere k f test rs

/-- what a selecting lookup returns for a list of selected values: a miss when empty -/
def selected (vals : List Val) (d : Val) : Val := if vals.isEmpty then d else .list .n0 vals

/-- item access: `IndexError` when nothing is selected -/
def selectedItem (vals : List Val) : PyM Val := if vals.isEmpty then .error .IndexError else .ok (.list .n0 vals)

/-- "the field value `x` equals the literal `v`": a text field is compared as text, an `int` field (and a
`bool`, which Python counts as `int`) as a number — the literal must denote that number -/
def fieldEq (v : Str) : Val → Bool
  | .str s => s = v
  | .int i => pyInt v == some i
  | .bool b => pyInt v == some (if b then 1 else 0)
  | _ => false

/-- "the field value `x` contains the literal `v`" (Python `v in x`): substring of a text, element of a
list, key of a dict; nothing else contains anything -/
def fieldContains (v : Str) : Val → Bool
  | .str s => isInfix v s
  | .list _ xs => xs.any (fun x => x == Val.str v)
  | .dict _ kvs => (lookup v kvs).isSome
  | _ => false

/-- the field values the model compares: no float, and a non-ASCII literal only against non-numeric
fields (`Model/XPath.lean`, `textGuard`: `float()` and non-ASCII `int()` are outside the model) -/
def ComparableK (k v : Str) (rs : List Val) : Prop :=
  ∀ r ∈ rs, (match r with
    | .dict _ kvs' => (match lookup k kvs' with | some kv => textGuard kv (.str v) | Option.none => false)
    | _ => false) = false

instance (k v : Str) (rs : List Val) : Decidable (ComparableK k v rs) := by unfold ComparableK; infer_instance

theorem ComparableK.guard {k v : Str} {rs : List Val} (h : ComparableK k v rs) :
    ∀ c kvs' kv, Val.dict c kvs' ∈ rs → lookup k kvs' = some kv → textGuard kv (.str v) = false := by
  intro c kvs' kv hm hl
  have := h _ hm
  simpa [hl] using this

/-- text-valued `k` (the property's main case) is always comparable -/
theorem comparable_of_strings (k v : Str) (rs : List Val)
    (h : ∀ c kvs' kv, Val.dict c kvs' ∈ rs → lookup k kvs' = some kv → ∃ s, kv = .str s) : ComparableK k v rs := by
  intro r hr
  cases r with
  | dict c kvs' =>
    cases hl : lookup k kvs' with
    | none => simp [hl]
    | some kv =>
      obtain ⟨s, rfl⟩ := h c kvs' kv hr hl
      simp [hl, textGuard]
  | _ => rfl

/-! ## the reference functions are what the engine's loop collects -/

theorem selectF_eq (f : Str) (rs : List Val) : somes (rs.map (fieldOf f)) = selectF f rs := by
  induction rs with
  | nil => rfl
  | cons r rs ih =>
    cases r with
    | dict c kvs =>
      cases h : lookup f kvs <;> simp [fieldOf, somes, selectF, h, ih]
    | _ => simp [fieldOf, somes, selectF, ih]

theorem selectWhere_eq (k f op : Str) (v : CondVal) (rs : List Val) :
    somes (rs.map (condOutcome k f op v)) = selectWhere k f (condTest op v) rs := by
  induction rs with
  | nil => rfl
  | cons r rs ih =>
    cases r with
    | dict c kvs =>
      cases hk : lookup k kvs with
      | none => simp [condOutcome, somes, selectWhere, hk, ih]
      | some kv =>
        cases ht : condTest op v kv with
        | false => cases hf : lookup f kvs <;> simp [condOutcome, somes, selectWhere, hk, ht, hf, ih]
        | true => cases hf : lookup f kvs <;> simp [condOutcome, somes, selectWhere, hk, ht, hf, ih]
    | _ => simp [condOutcome, somes, selectWhere, ih]

theorem selectWhere_congr (k f : Str) (t1 t2 : Val → Bool) (rs : List Val)
    (h : ∀ c kvs' kv, Val.dict c kvs' ∈ rs → lookup k kvs' = some kv → t1 kv = t2 kv) :
    selectWhere k f t1 rs = selectWhere k f t2 rs := by
  induction rs with
  | nil => rfl
  | cons r rs ih =>
    have ih' := ih (fun c kvs' kv hm hl => h c kvs' kv (List.mem_cons_of_mem _ hm) hl)
    cases r with
    | dict c kvs =>
      cases hk : lookup k kvs with
      | none => simp [selectWhere, hk, ih']
      | some kv =>
        have := h c kvs kv (by simp) hk
        cases hf : lookup f kvs <;> simp [selectWhere, hk, hf, this, ih']
    | _ => simp [selectWhere, ih']

theorem pyEqCond_str (x : Val) (v : Str) : pyEqCond x (.str v) = (x == Val.str v) := by
  cases x with
  | str s =>
    show decide (s = v) = Val.beq (.str s) (.str v)
    by_cases h : s = v <;> simp [Val.beq, h]
  | _ => rfl

theorem condTest_eq (v : Str) (kv : Val) (hg : textGuard kv (.str v) = false) :
    condTest ['=', '='] (.str v) kv = fieldEq v kv := by
  cases kv <;> simp_all [condTest, textEqCond, pyEqCond, fieldEq, textGuard]

theorem condTest_ne (v : Str) (kv : Val) (hg : textGuard kv (.str v) = false) :
    condTest ['!', '='] (.str v) kv = !fieldEq v kv := by
  cases kv <;> simp_all [condTest, textEqCond, pyEqCond, fieldEq, textGuard]

theorem condTest_contains (v : Str) (kv : Val) :
    condTest ['~', '~'] (.str v) kv = fieldContains v kv := by
  cases kv <;> simp [condTest, pyInCond, fieldContains, kvHas, pyEqCond_str]

/-! ## full statements (`P` any concrete path; chained selections) -/

/-- **full statement (fan-out).**  For the record list at any position `p` (canonical path `P`),
`P[*]/f` and `P/f` return `selectF f rs`; a miss when it is empty; `first` unwraps a single match. -/
def C06_star_stmt : Prop :=
  ∀ (cls : Cls) (kvs : List (Str × Val)) (p : Pos) (f : Str) (lc : Cls) (rs : List Val) (d : Val),
    PlainPos p → p ≠ [] → PlainKey f → getAt (.dict cls kvs) p = some (.list lc rs) → (∀ r ∈ rs, isDict r = true) →
    ∃ n, ∀ fuel ≥ n, ∀ xp ∈ [slash ++ renderPos p ++ bracket ['*'] ++ slash ++ f, slash ++ renderPos p ++ slash ++ f],
      XPath.get fuel (.dict cls kvs) xp d = (.dict cls kvs, .ok (selected (selectF f rs) d)) ∧
      getItem fuel (.dict cls kvs) xp = (.dict cls kvs, selectedItem (selectF f rs)) ∧
      first fuel (.dict cls kvs) xp d = (.dict cls kvs, .ok (firstOf (selectF f rs) d))

/-- **full statement (predicates).**  For the record list at any position `p`, `P[k op v]/f` and
`P/k[text() op v]/../f` return `f` of exactly the records whose `k` passes the comparison (`get`, item
access, `first`); the tree is unchanged. -/
def C06_pred_stmt : Prop :=
  ∀ (cls : Cls) (kvs : List (Str × Val)) (p : Pos) (k f opx op vq v : Str) (lc : Cls) (rs : List Val) (d : Val),
    PlainPos p → p ≠ [] → FieldKey k → PlainKey f → OpSpell opx op → LitSpell vq v → PlainLit v →
    getAt (.dict cls kvs) p = some (.list lc rs) → (∀ r ∈ rs, isDict r = true) → ComparableK k v rs →
    ∃ n, ∀ fuel ≥ n, ∀ xp ∈ [slash ++ renderPos p ++ bracket (k ++ opx ++ vq) ++ slash ++ f,
                             slash ++ renderPos p ++ slash ++ k ++ bracket (sTextFn ++ opx ++ vq) ++ slash ++ ['.', '.'] ++ slash ++ f],
      XPath.get fuel (.dict cls kvs) xp d
        = (.dict cls kvs, .ok (selected (selectWhere k f (condTest op (.str v)) rs) d)) ∧
      getItem fuel (.dict cls kvs) xp = (.dict cls kvs, selectedItem (selectWhere k f (condTest op (.str v)) rs)) ∧
      first fuel (.dict cls kvs) xp d = (.dict cls kvs, .ok (firstOf (selectWhere k f (condTest op (.str v)) rs) d))

/-- the inner selection in one outer record's `items` value: `[it[f] for it in items if k2 in it and test2(it[k2])
and f in it]`, nothing when that is empty (or `items` is not a list) -/
def innerSel (k2 f : Str) (test2 : Val → Bool) : Val → Option Val
  | .list _ xs => if (selectWhere k2 f test2 xs).isEmpty then Option.none else some (.list .n0 (selectWhere k2 f test2 xs))
  | _ => Option.none

/-- the nested list of per-parent selections: for every outer record that passes the outer test and has
`items`, the list of its inner selections — when that is not empty -/
def selectChained (k1 items : Str) (test1 : Val → Bool) (k2 f : Str) (test2 : Val → Bool) (rs : List Val) : List Val :=
  (selectWhere k1 items test1 rs).filterMap (innerSel k2 f test2)

/-- the inner lists: `items`, where an outer record has it, is a list of dict records whose `k2` values are
comparable with the literal -/
def InnerLists (items k2 v2 : Str) (rs : List Val) : Prop :=
  ∀ c kvs' x, Val.dict c kvs' ∈ rs → lookup items kvs' = some x →
    ∃ lc xs, x = .list lc xs ∧ (∀ y ∈ xs, isDict y = true) ∧ ComparableK k2 v2 xs

/-- **full statement (chained selections, two levels).**  For the record list at any position `p`,
`P[k1 op v1]/items[k2 op v2]/f` returns, for every outer record that matches and has a non-empty inner
selection, the list of its inner selections (`get`, item access); an outer record whose inner list is empty contributes nothing.  Proved:
`C06_chained` (the code with fixes C06-b and C06-e). -/
def C06_chained_stmt : Prop :=
  ∀ (cls : Cls) (kvs : List (Str × Val)) (p : Pos) (k1 opx1 op1 vq1 v1 items k2 opx2 op2 vq2 v2 f : Str) (lc : Cls)
    (rs : List Val) (d : Val),
    PlainPos p → p ≠ [] → FieldKey k1 → OpSpell opx1 op1 → LitSpell vq1 v1 → PlainLit v1 → PlainKey items →
    FieldKey k2 → OpSpell opx2 op2 → LitSpell vq2 v2 → PlainLit v2 → PlainKey f →
    getAt (.dict cls kvs) p = some (.list lc rs) → (∀ r ∈ rs, isDict r = true) → ComparableK k1 v1 rs →
    InnerLists items k2 v2 rs →
    ∃ n, ∀ fuel ≥ n,
      let xp := slash ++ renderPos p ++ bracket (k1 ++ opx1 ++ vq1) ++ slash ++ items ++ bracket (k2 ++ opx2 ++ vq2) ++ slash ++ f
      let vals := selectChained k1 items (condTest op1 (.str v1)) k2 f (condTest op2 (.str v2)) rs
      XPath.get fuel (.dict cls kvs) xp d = (.dict cls kvs, .ok (selected vals d)) ∧
      getItem fuel (.dict cls kvs) xp = (.dict cls kvs, selectedItem vals)

/-! ## proved: the record list is stored under a plain key of the root -/

/-- **C06 (fan-out).**  `name[*]/f` and the shorthand `name/f` return the values of `f` of exactly the
records that have `f`, in list order — for `get` (the default when there is none) and item access
(`IndexError` when there is none); the tree is unchanged.  Any record list, any length. -/
theorem C06_star_partial (cls : Cls) (kvs : List (Str × Val)) (name f : Str) (lc : Cls) (rs : List Val) (d : Val)
    (hname : PlainKey name) (hf : PlainKey f) (hl : lookup name kvs = some (.list lc rs))
    (hrs : ∀ r ∈ rs, isDict r = true) (fuel : Nat) (hfuel : fuel ≥ rs.length + 6) :
    ∀ xp ∈ [name ++ bracket ['*'] ++ slash ++ f, name ++ slash ++ f],
      XPath.get fuel (.dict cls kvs) xp d = (.dict cls kvs, .ok (selected (selectF f rs) d)) ∧
      getItem fuel (.dict cls kvs) xp = (.dict cls kvs, selectedItem (selectF f rs)) := by
  intro xp hxp
  have hx : xp = name ++ bracket ['*'] ++ slash ++ f ∨ xp = name ++ slash ++ f := by simpa using hxp
  have := star_api cls kvs name f lc rs d hname hf hl hrs fuel hfuel xp hx
  simp only [selectF_eq] at this
  exact ⟨this.1, this.2.1⟩

/-- **C06 (`first`).**  `first` returns the single match itself when exactly one record is selected (and
then unwraps once more if that value is itself a one-element list — `first`'s own last step), the list
when several are, the default when none is. -/
theorem C06_first_unwrap_partial (cls : Cls) (kvs : List (Str × Val)) (name f : Str) (lc : Cls) (rs : List Val) (d : Val)
    (hname : PlainKey name) (hf : PlainKey f) (hl : lookup name kvs = some (.list lc rs))
    (hrs : ∀ r ∈ rs, isDict r = true) (fuel : Nat) (hfuel : fuel ≥ rs.length + 6) :
    ∀ xp ∈ [name ++ bracket ['*'] ++ slash ++ f, name ++ slash ++ f],
      first fuel (.dict cls kvs) xp d = (.dict cls kvs, .ok (firstOf (selectF f rs) d)) := by
  intro xp hxp
  have hx : xp = name ++ bracket ['*'] ++ slash ++ f ∨ xp = name ++ slash ++ f := by simpa using hxp
  have := star_api cls kvs name f lc rs d hname hf hl hrs fuel hfuel xp hx
  simp only [selectF_eq] at this
  exact this.2.2

/-- what `firstOf` is: the match itself for a single scalar / dict match, the list for several, the caller's default
as it is — whatever value it is — for none (fix C04-f) -/
theorem C06_firstOf_cases (vals : List Val) (d v : Val) :
    (vals = [v] → (∀ c x, v ≠ .list c [x]) → firstOf vals d = v) ∧
    (vals.length ≥ 2 → firstOf vals d = .list .n0 vals) ∧
    (vals = [] → firstOf vals d = d) := by
  refine ⟨?_, ?_, ?_⟩
  · rintro rfl hv
    simp only [firstOf]
    cases v with
    | list c xs =>
      cases xs with
      | nil => rfl
      | cons x xs =>
        cases xs with
        | nil => exact absurd rfl (hv c x)
        | cons y ys => rfl
    | _ => rfl
  · intro hlen
    match vals, hlen with
    | a :: b :: rest, _ => rfl
  · rintro rfl
    rfl

/-- **C06 (fan-out, any path, token level).**  If the tokens `toksP` spell the position of a list of dict
records anywhere in the tree (plain keys, index steps in any spelling — `Spells`), then `_find` on
`toksP ++ ["[*]", f]` and on `toksP ++ [f]` finds exactly `selectF f rs` (a miss when empty), for both
values of `return_lists`; the tree is unchanged. -/
theorem C06_star_spelled (t : Val) (rl : Bool) (toksP : List Str) (p : Pos) (lc : Cls) (rs : List Val) (f : Str)
    (hs : Spells toksP t p (.list lc rs)) (hne : toksP ≠ []) (hrs : ∀ r ∈ rs, isDict r = true) (hf : PlainKey f)
    (fuel : Nat) (hfuel : fuel ≥ 2 * toksP.length + rs.length + 5) :
    ∀ tail ∈ [[bracket ['*'], f], [f]],
      ∃ r, findD fuel t [] false true (toksP ++ tail) (.at []) rl slash = .ok (t, r) ∧
        r.isFound = !(selectF f rs).isEmpty ∧ (r.isFound = true → r.value = collect rl (selectF f rs)) := by
  intro tail htail
  have ht : tail = [bracket ['*'], f] ∨ tail = [f] := by simpa using htail
  have := star_spelled t rl f hs hne hrs hf fuel hfuel tail ht
  simpa only [selectF_eq] using this

/-- **C06 (shorthand `P/f`, any path).**  For the record list at any position `p` of the tree (canonical
path `P`, as `xpath()` prints it), `P/f` returns `selectF f rs` through `get`, item access and `first`. -/
theorem C06_implicit_star_path_partial (cls : Cls) (kvs : List (Str × Val)) (p : Pos) (f : Str) (lc : Cls)
    (rs : List Val) (d : Val) (hp : PlainPos p) (hne : p ≠ []) (hf : PlainKey f)
    (hget : getAt (.dict cls kvs) p = some (.list lc rs)) (hrs : ∀ r ∈ rs, isDict r = true)
    (fuel : Nat) (hfuel : fuel ≥ 2 * p.length + rs.length + 5) :
    let xp := slash ++ renderPos p ++ slash ++ f
    XPath.get fuel (.dict cls kvs) xp d = (.dict cls kvs, .ok (selected (selectF f rs) d)) ∧
    getItem fuel (.dict cls kvs) xp = (.dict cls kvs, selectedItem (selectF f rs)) ∧
    first fuel (.dict cls kvs) xp d = (.dict cls kvs, .ok (firstOf (selectF f rs) d)) := by
  intro xp
  have := star_implicit_path cls kvs p f lc rs d hp hne hf hget hrs fuel hfuel
  simp only [selectF_eq] at this
  exact this

/-- **C06 (fan-out, any position).**  For the list of dict records at any position `p` of the tree
(canonical path `P`, keys and indexes, as `xpath()` prints it), `P[*]/f` and the shorthand `P/f` return
`[r[f] for r in rs if f in r]` through `get` (the default when empty), item access (`IndexError` when
empty) and `first` (a single match unwrapped); the tree is unchanged.  This is `C06_star_stmt`. -/
theorem C06_star : C06_star_stmt := by
  intro cls kvs p f lc rs d hp hne hf hget hrs
  refine ⟨2 * p.length + rs.length + 5, fun fuel hfuel xp hxp => ?_⟩
  simp only [List.mem_cons, List.not_mem_nil, or_false] at hxp
  rcases hxp with rfl | rfl
  · have := sel2_star_explicit_path cls kvs p f lc rs d hp hne hf hget hrs fuel hfuel
    simp only [selectF_eq] at this
    exact this
  · exact C06_implicit_star_path_partial cls kvs p f lc rs d hp hne hf hget hrs fuel hfuel

/-- **C06 (predicates, any position).**  For the list of dict records at any position `p` of the tree
(canonical path `P`), `P[k op v]/f` and `P/k[text() op v]/../f` — any operator and literal spelling — return `f`
of exactly the records that have `k` and whose `k` passes the comparison, in list order, through `get`, item
access and `first`; the tree is unchanged.  This is `C06_pred_stmt`.  (The `'..'` step splits the `found` text
of the walk — the canonical path of `P[j]/k` — drops the last piece and resolves `P[j]` again from the root.) -/
theorem C06_pred : C06_pred_stmt := by
  intro cls kvs p k f opx op vq v lc rs d hp hne hk hf hop hlit hv hget hrs hg
  refine ⟨4 * p.length + rs.length + 14, fun fuel hfuel xp hxp => ?_⟩
  simp only [List.mem_cons, List.not_mem_nil, or_false] at hxp
  rcases hxp with rfl | rfl
  · have := sel2_cond_api cls kvs p k f opx op vq v lc rs d hp hne hk hf hop hlit hv hget hrs hg.guard fuel hfuel
    simp only [selectWhere_eq] at this
    exact this
  · have := sel2_textform_api cls kvs p k f opx op vq v lc rs d hp hk hf hop hlit hv hget hrs hg.guard fuel hfuel
    simp only [selectWhere_eq] at this
    exact this

/-- **C06 (`=`, `!=`, `~` at any position)** against the independent references: `P[k=v]/f` selects the records
whose `k` equals `v` (`fieldEq`), `P[k!=v]/f` those that have `k` and differ, `P[k~v]/f` those whose `k` contains
`v` (`fieldContains`); `get` shown, item access and `first` as in `C06_pred`. -/
theorem C06_eq_ne_contains (cls : Cls) (kvs : List (Str × Val)) (p : Pos) (k f vq v : Str) (lc : Cls) (rs : List Val) (d : Val)
    (hp : PlainPos p) (hne : p ≠ []) (hk : FieldKey k) (hf : PlainKey f) (hlit : LitSpell vq v) (hv : PlainLit v)
    (hget : getAt (.dict cls kvs) p = some (.list lc rs)) (hrs : ∀ r ∈ rs, isDict r = true) (hg : ComparableK k v rs) :
    ∃ n, ∀ fuel ≥ n,
      XPath.get fuel (.dict cls kvs) (slash ++ renderPos p ++ bracket (k ++ ['='] ++ vq) ++ slash ++ f) d
        = (.dict cls kvs, .ok (selected (selectWhere k f (fieldEq v) rs) d)) ∧
      XPath.get fuel (.dict cls kvs) (slash ++ renderPos p ++ bracket (k ++ ['!', '='] ++ vq) ++ slash ++ f) d
        = (.dict cls kvs, .ok (selected (selectWhere k f (fun x => !fieldEq v x) rs) d)) ∧
      XPath.get fuel (.dict cls kvs) (slash ++ renderPos p ++ bracket (k ++ ['~'] ++ vq) ++ slash ++ f) d
        = (.dict cls kvs, .ok (selected (selectWhere k f (fieldContains v) rs) d)) := by
  obtain ⟨n1, h1⟩ := C06_pred cls kvs p k f _ _ vq v lc rs d hp hne hk hf .eq1 hlit hv hget hrs hg
  obtain ⟨n2, h2⟩ := C06_pred cls kvs p k f _ _ vq v lc rs d hp hne hk hf .ne hlit hv hget hrs hg
  obtain ⟨n3, h3⟩ := C06_pred cls kvs p k f _ _ vq v lc rs d hp hne hk hf .in1 hlit hv hget hrs hg
  refine ⟨n1 + n2 + n3, fun fuel hfuel => ⟨?_, ?_, ?_⟩⟩
  · have := (h1 fuel (by omega) _ (List.mem_cons_self ..)).1
    rwa [selectWhere_congr k f _ (fieldEq v) rs (fun c kvs' kv hm hlk => condTest_eq v kv (hg.guard c kvs' kv hm hlk))] at this
  · have := (h2 fuel (by omega) _ (List.mem_cons_self ..)).1
    rwa [selectWhere_congr k f _ (fun x => !fieldEq v x) rs (fun c kvs' kv hm hlk => condTest_ne v kv (hg.guard c kvs' kv hm hlk))] at this
  · have := (h3 fuel (by omega) _ (List.mem_cons_self ..)).1
    rwa [selectWhere_congr k f _ (fieldContains v) rs (fun c kvs' kv _ _ => condTest_contains v kv)] at this

theorem somes_cons_toList (o : Option Val) (os : List (Option Val)) : somes (o :: os) = o.toList ++ somes os := by
  cases o <;> rfl

theorem selectWhere_cons (k f : Str) (t : Val → Bool) (r : Val) (rs : List Val) :
    selectWhere k f t (r :: rs) = selectWhere k f t [r] ++ selectWhere k f t rs := by
  cases r <;> simp [selectWhere]

theorem chained_head (k1 op1 : Str) (v1 : CondVal) (items k2 f op2 : Str) (v2 : CondVal) (r : Val) :
    (selectWhere k1 items (condTest op1 v1) [r]).filterMap (innerSel k2 f (condTest op2 v2))
      = (sel2Gate k1 op1 v1 r (sel2Inner items k2 f op2 v2 true r)).toList := by
  cases r with
  | dict c kvs =>
    cases hk : lookup k1 kvs with
    | none => simp [sel2Gate, selectWhere, hk]
    | some kv =>
      cases ht : condTest op1 v1 kv with
      | false => cases hi : lookup items kvs <;> simp [sel2Gate, selectWhere, hk, ht, hi]
      | true =>
        cases hi : lookup items kvs with
        | none => simp [sel2Gate, sel2Inner, selectWhere, hk, ht, hi]
        | some x =>
          cases x with
          | list lc xs =>
            have hsel := selectWhere_eq k2 f op2 v2 xs
            cases he : (selectWhere k2 f (condTest op2 v2) xs).isEmpty <;>
              simp [sel2Gate, sel2Inner, selectWhere, hk, ht, hi, innerSel, hsel, he, collect]
          | _ => simp [sel2Gate, sel2Inner, selectWhere, hk, ht, hi, innerSel]
  | _ => simp [sel2Gate, selectWhere]

theorem chained_eq (k1 op1 : Str) (v1 : CondVal) (items k2 f op2 : Str) (v2 : CondVal) (rs : List Val) :
    sel2Chained k1 op1 v1 items k2 f op2 v2 true rs
      = selectChained k1 items (condTest op1 v1) k2 f (condTest op2 v2) rs := by
  unfold sel2Chained sel2Sel selectChained
  induction rs with
  | nil => rfl
  | cons r rs ih =>
    rw [List.map_cons, somes_cons_toList, ih, selectWhere_cons, List.filterMap_append, chained_head]

/-- **C06 (chained selections; fixes C06-b, C06-e).**  For the record list at any position `p`,
`P[k1 op v1]/items[k2 op v2]/f` (any operator and literal spellings) returns the nested list of per-parent
selections — for every outer record that passes the outer test, in list order, the list of `f` of its `items`
records that pass the inner test, outer records with nothing selected (no `items`, an empty `items`, no match)
left out — through `get` (the default when nothing is selected at all) and item access (`IndexError`); the
tree is unchanged.  Hypothesis `InnerLists`: `items`, where present, is a list of dict records.
This is `C06_chained_stmt`. -/
theorem C06_chained : C06_chained_stmt := by
  intro cls kvs p k1 opx1 op1 vq1 v1 items k2 opx2 op2 vq2 v2 f lc rs d hp hne hk1 hop1 hlit1 hv1 hitems hk2 hop2 hlit2 hv2 hf
    hget hrs hg hin
  refine ⟨6 * p.length + rs.length + (rs.map (sel2InnerLen items)).sum + 32, fun fuel hfuel => ?_⟩
  have hok : Sel2InnerOK items k2 (.str v2) rs := by
    intro c kvs' x hm hl
    obtain ⟨lc', xs, rfl, hds, hcmp⟩ := hin c kvs' x hm hl
    exact ⟨lc', xs, rfl, hds, hcmp.guard⟩
  have := sel2_chained_api cls kvs p k1 opx1 op1 vq1 v1 items k2 opx2 op2 vq2 v2 f lc rs d hp hne hk1 hop1 hlit1 hv1 hitems hk2
    hop2 hlit2 hv2 hf hget hrs hg.guard hok fuel hfuel
  simp only [chained_eq] at this
  exact this

/-- the general form of the three predicate theorems: any operator spelling, with `first` -/
theorem C06_pred_partial (cls : Cls) (kvs : List (Str × Val)) (name k f opx op vq v : Str) (lc : Cls) (rs : List Val)
    (d : Val) (hname : PlainKey name) (hk : FieldKey k) (hf : PlainKey f) (hop : OpSpell opx op) (hlit : LitSpell vq v)
    (hv : PlainLit v) (hl : lookup name kvs = some (.list lc rs)) (hrs : ∀ r ∈ rs, isDict r = true)
    (hg : ComparableK k v rs) (fuel : Nat) (hfuel : fuel ≥ rs.length + 10) :
    ∀ xp ∈ [name ++ bracket (k ++ opx ++ vq) ++ slash ++ f,
            name ++ slash ++ k ++ bracket (sTextFn ++ opx ++ vq) ++ slash ++ ['.', '.'] ++ slash ++ f],
      XPath.get fuel (.dict cls kvs) xp d = (.dict cls kvs, .ok (selected (selectWhere k f (condTest op (.str v)) rs) d)) ∧
      getItem fuel (.dict cls kvs) xp = (.dict cls kvs, selectedItem (selectWhere k f (condTest op (.str v)) rs)) ∧
      first fuel (.dict cls kvs) xp d = (.dict cls kvs, .ok (firstOf (selectWhere k f (condTest op (.str v)) rs) d)) := by
  intro xp hxp
  simp only [List.mem_cons, List.not_mem_nil, or_false] at hxp
  rcases hxp with rfl | rfl
  · have := cond_api cls kvs name k f opx op vq v lc rs d hname hk hf hop hlit hv hl hrs hg.guard fuel hfuel
    simp only [selectWhere_eq] at this
    exact this
  · have := textform_api cls kvs name k f opx op vq v lc rs d hname hk hf hop hlit hv hl hrs hg.guard fuel hfuel
    simp only [selectWhere_eq] at this
    exact this

/-- **C06 (`=`).**  `name[k=v]/f` (also written `==`; `v` bare or quoted) returns `f` of exactly the
records whose `k` equals `v` (text fields as text, int fields as numbers), in list order. -/
theorem C06_eq_partial (cls : Cls) (kvs : List (Str × Val)) (name k f opx vq v : Str) (lc : Cls) (rs : List Val)
    (d : Val) (hname : PlainKey name) (hk : FieldKey k) (hf : PlainKey f) (hop : OpSpell opx ['=', '=']) (hlit : LitSpell vq v)
    (hv : PlainLit v) (hl : lookup name kvs = some (.list lc rs)) (hrs : ∀ r ∈ rs, isDict r = true)
    (hg : ComparableK k v rs) (fuel : Nat) (hfuel : fuel ≥ rs.length + 10) :
    let xp := name ++ bracket (k ++ opx ++ vq) ++ slash ++ f
    XPath.get fuel (.dict cls kvs) xp d = (.dict cls kvs, .ok (selected (selectWhere k f (fieldEq v) rs) d)) ∧
    getItem fuel (.dict cls kvs) xp = (.dict cls kvs, selectedItem (selectWhere k f (fieldEq v) rs)) ∧
    first fuel (.dict cls kvs) xp d = (.dict cls kvs, .ok (firstOf (selectWhere k f (fieldEq v) rs) d)) := by
  intro xp
  have := C06_pred_partial cls kvs name k f opx _ vq v lc rs d hname hk hf hop hlit hv hl hrs hg fuel hfuel xp (by simp [xp])
  rwa [selectWhere_congr k f _ (fieldEq v) rs (fun c kvs' kv hm hlk => condTest_eq v kv (hg.guard c kvs' kv hm hlk))] at this

/-- **C06 (`!=`).**  `name[k!=v]/f` returns `f` of exactly the records that have `k` and whose `k` differs
from `v`. -/
theorem C06_ne_partial (cls : Cls) (kvs : List (Str × Val)) (name k f vq v : Str) (lc : Cls) (rs : List Val)
    (d : Val) (hname : PlainKey name) (hk : FieldKey k) (hf : PlainKey f) (hlit : LitSpell vq v)
    (hv : PlainLit v) (hl : lookup name kvs = some (.list lc rs)) (hrs : ∀ r ∈ rs, isDict r = true)
    (hg : ComparableK k v rs) (fuel : Nat) (hfuel : fuel ≥ rs.length + 10) :
    let xp := name ++ bracket (k ++ ['!', '='] ++ vq) ++ slash ++ f
    XPath.get fuel (.dict cls kvs) xp d = (.dict cls kvs, .ok (selected (selectWhere k f (fun x => !fieldEq v x) rs) d)) ∧
    getItem fuel (.dict cls kvs) xp = (.dict cls kvs, selectedItem (selectWhere k f (fun x => !fieldEq v x) rs)) ∧
    first fuel (.dict cls kvs) xp d = (.dict cls kvs, .ok (firstOf (selectWhere k f (fun x => !fieldEq v x) rs) d)) := by
  intro xp
  have := C06_pred_partial cls kvs name k f _ _ vq v lc rs d hname hk hf .ne hlit hv hl hrs hg fuel hfuel xp (by simp [xp])
  rwa [selectWhere_congr k f _ (fun x => !fieldEq v x) rs (fun c kvs' kv hm hlk => condTest_ne v kv (hg.guard c kvs' kv hm hlk))] at this

/-- **C06 (`~`).**  `name[k~v]/f` (also `~~`) returns `f` of exactly the records whose `k` contains `v`
(substring of a text; a number contains nothing). -/
theorem C06_contains_partial (cls : Cls) (kvs : List (Str × Val)) (name k f opx vq v : Str) (lc : Cls) (rs : List Val)
    (d : Val) (hname : PlainKey name) (hk : FieldKey k) (hf : PlainKey f) (hop : OpSpell opx ['~', '~']) (hlit : LitSpell vq v)
    (hv : PlainLit v) (hl : lookup name kvs = some (.list lc rs)) (hrs : ∀ r ∈ rs, isDict r = true)
    (hg : ComparableK k v rs) (fuel : Nat) (hfuel : fuel ≥ rs.length + 10) :
    let xp := name ++ bracket (k ++ opx ++ vq) ++ slash ++ f
    XPath.get fuel (.dict cls kvs) xp d = (.dict cls kvs, .ok (selected (selectWhere k f (fieldContains v) rs) d)) ∧
    getItem fuel (.dict cls kvs) xp = (.dict cls kvs, selectedItem (selectWhere k f (fieldContains v) rs)) ∧
    first fuel (.dict cls kvs) xp d = (.dict cls kvs, .ok (firstOf (selectWhere k f (fieldContains v) rs) d)) := by
  intro xp
  have := C06_pred_partial cls kvs name k f opx _ vq v lc rs d hname hk hf hop hlit hv hl hrs hg fuel hfuel xp (by simp [xp])
  rwa [selectWhere_congr k f _ (fieldContains v) rs (fun c kvs' kv _ _ => condTest_contains v kv)] at this

/-- **C06 (text form).**  `name/k[text() op v]/../f` returns exactly what `name[k op v]/f` returns
(`get`, item access and `first`), for every operator and literal spelling. -/
theorem C06_text_form_equiv_partial (cls : Cls) (kvs : List (Str × Val)) (name k f opx op vq v : Str) (lc : Cls)
    (rs : List Val) (d : Val) (hname : PlainKey name) (hk : FieldKey k) (hf : PlainKey f) (hop : OpSpell opx op)
    (hlit : LitSpell vq v) (hv : PlainLit v) (hl : lookup name kvs = some (.list lc rs))
    (hrs : ∀ r ∈ rs, isDict r = true) (hg : ComparableK k v rs) (fuel : Nat) (hfuel : fuel ≥ rs.length + 10) :
    let xpT := name ++ slash ++ k ++ bracket (sTextFn ++ opx ++ vq) ++ slash ++ ['.', '.'] ++ slash ++ f
    let xpP := name ++ bracket (k ++ opx ++ vq) ++ slash ++ f
    XPath.get fuel (.dict cls kvs) xpT d = XPath.get fuel (.dict cls kvs) xpP d ∧
    getItem fuel (.dict cls kvs) xpT = getItem fuel (.dict cls kvs) xpP ∧
    first fuel (.dict cls kvs) xpT d = first fuel (.dict cls kvs) xpP d := by
  intro xpT xpP
  have h := C06_pred_partial cls kvs name k f opx op vq v lc rs d hname hk hf hop hlit hv hl hrs hg fuel hfuel
  have hT := h xpT (by simp [xpT])
  have hP := h xpP (by simp [xpP])
  exact ⟨hT.1.trans hP.1.symm, hT.2.1.trans hP.2.1.symm, hT.2.2.trans hP.2.2.symm⟩


/-! ## every spelling of `P`; `first` on chained selections; an inner `items` that is one record -/

/-- `return_lists=False`: a single selected value stands for itself, anything else is the list -/
def single (vals : List Val) : Val :=
  match vals with
  | [x] => x
  | xs => .list .n0 xs

theorem collect_true (vals : List Val) : collect true vals = .list .n0 vals := rfl

theorem collect_false (vals : List Val) : collect false vals = single vals := by
  match vals with
  | [] => rfl
  | [x] => rfl
  | x :: y :: r => simp [collect, single]

/-- what one outer record's `items` value contributes to `…/items[k2 op v2]/f`: a LIST of records contributes the
list of its selected values (under `return_lists=False`, i.e. `first`: `single` of it), nothing when that is
empty; ONE dict record (the library's "hidden list") contributes its own `f`, un-listed, when it passes the
test; anything else nothing -/
def innerSelG (rl : Bool) (k2 f : Str) (test2 : Val → Bool) : Val → Option Val
  | .list _ xs =>
    if (selectWhere k2 f test2 xs).isEmpty then Option.none
    else some (if rl then .list .n0 (selectWhere k2 f test2 xs) else single (selectWhere k2 f test2 xs))
  | .dict c kvs => (selectWhere k2 f test2 [.dict c kvs]).head?
  | _ => Option.none

/-- the per-parent contributions of a chained selection, in order (`rl` = `return_lists`) -/
def selectChainedG (rl : Bool) (k1 items : Str) (test1 : Val → Bool) (k2 f : Str) (test2 : Val → Bool) (rs : List Val) : List Val :=
  (selectWhere k1 items test1 rs).filterMap (innerSelG rl k2 f test2)

/-- `items`, where an outer record has it, is a list of dict records or one dict record -/
def InnerRecs (items k2 v2 : Str) (rs : List Val) : Prop :=
  ∀ c kvs' x, Val.dict c kvs' ∈ rs → lookup items kvs' = some x →
    (∃ lc xs, x = .list lc xs ∧ (∀ y ∈ xs, isDict y = true) ∧ ComparableK k2 v2 xs) ∨
    (∃ c2 kvs2, x = .dict c2 kvs2 ∧ ComparableK k2 v2 [x])

theorem InnerLists.recs {items k2 v2 : Str} {rs : List Val} (h : InnerLists items k2 v2 rs) : InnerRecs items k2 v2 rs :=
  fun c kvs' x hm hl => Or.inl (h c kvs' x hm hl)

theorem InnerRecs.ok {items k2 v2 : Str} {rs : List Val} (h : InnerRecs items k2 v2 rs) : Sel3InnerOK items k2 (.str v2) rs := by
  intro c kvs' x hm hl
  rcases h c kvs' x hm hl with ⟨lc, xs, rfl, hds, hcmp⟩ | ⟨c2, kvs2, rfl, hcmp⟩
  · exact Or.inl ⟨lc, xs, rfl, hds, hcmp.guard⟩
  · exact Or.inr ⟨c2, kvs2, rfl, fun kv hkv => hcmp.guard c2 kvs2 kv (by simp) hkv⟩

theorem chainedG_head (rl : Bool) (k1 op1 : Str) (v1 : CondVal) (items k2 f op2 : Str) (v2 : CondVal) (r : Val) :
    (selectWhere k1 items (condTest op1 v1) [r]).filterMap (innerSelG rl k2 f (condTest op2 v2))
      = (sel2Gate k1 op1 v1 r (sel3Inner items k2 f op2 v2 rl r)).toList := by
  cases r with
  | dict c kvs =>
    cases hk : lookup k1 kvs with
    | none => simp [sel2Gate, selectWhere, hk]
    | some kv =>
      cases ht : condTest op1 v1 kv with
      | false => cases hi : lookup items kvs <;> simp [sel2Gate, selectWhere, hk, ht, hi]
      | true =>
        cases hi : lookup items kvs with
        | none => simp [sel2Gate, sel3Inner, selectWhere, hk, ht, hi]
        | some x =>
          cases x with
          | list lc xs =>
            have hsel := selectWhere_eq k2 f op2 v2 xs
            cases he : (selectWhere k2 f (condTest op2 v2) xs).isEmpty <;> cases rl <;>
              simp [sel2Gate, sel3Inner, selectWhere, hk, ht, hi, innerSelG, hsel, he, collect_true, collect_false]
          | dict c2 kvs2 =>
            cases hk2 : lookup k2 kvs2 with
            | none => simp [sel2Gate, sel3Inner, selectWhere, hk, ht, hi, innerSelG, condOutcome, hk2]
            | some kv2 =>
              cases ht2 : condTest op2 v2 kv2 <;> cases hf : lookup f kvs2 <;>
                simp [sel2Gate, sel3Inner, selectWhere, hk, ht, hi, innerSelG, condOutcome, hk2, ht2, hf]
          | _ => simp [sel2Gate, sel3Inner, selectWhere, hk, ht, hi, innerSelG]
  | _ => simp [sel2Gate, selectWhere]

theorem chainedG_eq (rl : Bool) (k1 op1 : Str) (v1 : CondVal) (items k2 f op2 : Str) (v2 : CondVal) (rs : List Val) :
    sel3Chained k1 op1 v1 items k2 f op2 v2 rl rs
      = selectChainedG rl k1 items (condTest op1 v1) k2 f (condTest op2 v2) rs := by
  unfold sel3Chained sel2Sel selectChainedG
  induction rs with
  | nil => rfl
  | cons r rs ih =>
    rw [List.map_cons, somes_cons_toList, ih, selectWhere_cons, List.filterMap_append, chainedG_head]

/-- the values `selectWhere` returns for the field `items` are `items` values of records of `rs` -/
theorem selectWhere_mem (k f : Str) (t : Val → Bool) (rs : List Val) (x : Val) (h : x ∈ selectWhere k f t rs) :
    ∃ c kvs, Val.dict c kvs ∈ rs ∧ lookup f kvs = some x := by
  induction rs with
  | nil => simp [selectWhere] at h
  | cons r rs ih =>
    rw [selectWhere_cons, List.mem_append] at h
    rcases h with h | h
    · cases r with
      | dict c kvs =>
        cases hk : lookup k kvs with
        | none => simp [selectWhere, hk] at h
        | some kv =>
          cases hf : lookup f kvs with
          | none => simp [selectWhere, hk, hf] at h
          | some fv =>
            cases ht : t kv <;> simp [selectWhere, hk, hf, ht] at h
            subst h
            exact ⟨c, kvs, by simp, hf⟩
      | _ => simp [selectWhere] at h
    · obtain ⟨c, kvs, hm, hl⟩ := ih h
      exact ⟨c, kvs, List.mem_cons_of_mem _ hm, hl⟩

/-- with inner LISTS only, the `return_lists=True` contributions are the nested lists of `selectChained` -/
theorem selectChainedG_lists (k1 items : Str) (t1 : Val → Bool) (k2 f v2 : Str) (t2 : Val → Bool) (rs : List Val)
    (h : InnerLists items k2 v2 rs) : selectChainedG true k1 items t1 k2 f t2 rs = selectChained k1 items t1 k2 f t2 rs := by
  unfold selectChainedG selectChained
  apply sel3_filterMap_congr
  intro x hx
  obtain ⟨c, kvs, hm, hl⟩ := selectWhere_mem k1 items t1 rs x hx
  obtain ⟨lc, xs, rfl, _, _⟩ := h c kvs x hm hl
  simp [innerSelG, innerSel]

/-- **C06 (predicates, any spelling, token level).**  `toksP` is any token list that spells the position of the
list of dict records (key steps plain names, index steps in any spelling: `Sel3Spells`).  Then `_find` on
`toksP ++ ["[k op v]", f]`, on `toksP ++ ["k[text() op v]", "..", f]` and — when `toksP` ends in a key token
`name` — on `… "name[k op v]", f` finds exactly `selectWhere k f (condTest op v) rs` (a miss when empty), for both
values of `return_lists`; the tree is unchanged.  (The `'..'` step re-resolves the text the walk has written:
evaluated indexes, so `a[last()]` comes back as `/a[-1]` — `Sel3Norm`, `sel3_up_record`.) -/
theorem C06_pred_spelled (t : Val) (rl : Bool) (toksP : List Str) (p : Pos) (lc : Cls) (rs : List Val) (k f opx op vq v : Str)
    (hs : Sel3Spells toksP t p (.list lc rs)) (hk : FieldKey k) (hf : PlainKey f) (hop : OpSpell opx op) (hlit : LitSpell vq v)
    (hv : PlainLit v) (hrs : ∀ r ∈ rs, isDict r = true) (hg : ComparableK k v rs)
    (fuel : Nat) (hfuel : fuel ≥ 6 * toksP.length + rs.length + 14) :
    (∀ tail ∈ [[bracket (k ++ opx ++ vq), f], [k ++ bracket (sTextFn ++ opx ++ vq), ['.', '.'], f]],
      ∃ r, findD fuel t [] false true (toksP ++ tail) (.at []) rl slash = .ok (t, r) ∧
        r.isFound = !(selectWhere k f (condTest op (.str v)) rs).isEmpty ∧
        (r.isFound = true → r.value = collect rl (selectWhere k f (condTest op (.str v)) rs))) ∧
    (∀ toks' name, toksP = toks' ++ [name] → PlainKey name →
      ∃ r, findD fuel t [] false true (toks' ++ [name ++ bracket (k ++ opx ++ vq), f]) (.at []) rl slash = .ok (t, r) ∧
        r.isFound = !(selectWhere k f (condTest op (.str v)) rs).isEmpty ∧
        (r.isFound = true → r.value = collect rl (selectWhere k f (condTest op (.str v)) rs))) := by
  have := sel3_pred_spelled t rl k f opx op vq v hs hk hf hop hlit hv hrs hg.guard fuel hfuel
  simp only [selectWhere_eq] at this
  exact this

/-- **C06 (fan-out, any spelling, string level).**  For any spelling of a path that plain Python indexing follows
from the root to the list of dict records `rs`, `P[*]/f` and the shorthand `P/f` return `[r[f] for r in rs if f in r]`
through `get`, item access and `first`; the tree is unchanged. -/
theorem C06_star_spellings_string (cls : Cls) (kvs : List (Str × Val)) (lead : Lead) (steps : List StepSp) (f : Str) (lc : Cls)
    (rs : List Val) (d : Val) (hp : PlainSteps steps) (hne : steps ≠ [])
    (hget : stepsGet (.dict cls kvs) steps = some (.list lc rs)) (hf : PlainKey f) (hrs : ∀ r ∈ rs, isDict r = true)
    (fuel : Nat) (hfuel : fuel ≥ 2 * steps.length + rs.length + 5) :
    ∀ xp ∈ [renderSp lead steps ++ bracket ['*'] ++ slash ++ f, renderSp lead steps ++ slash ++ f],
      XPath.get fuel (.dict cls kvs) xp d = (.dict cls kvs, .ok (selected (selectF f rs) d)) ∧
      getItem fuel (.dict cls kvs) xp = (.dict cls kvs, selectedItem (selectF f rs)) ∧
      first fuel (.dict cls kvs) xp d = (.dict cls kvs, .ok (firstOf (selectF f rs) d)) := by
  intro xp hxp
  have := sel3_star_string cls kvs lead steps f lc rs d hp hne hget hf hrs fuel hfuel xp hxp
  simp only [selectF_eq] at this
  exact this

/-- **C06 (predicates, any spelling, string level).**  `steps` is any spelling of a path that plain Python indexing
follows from the root to the list of dict records `rs` (`stepsGet`); `renderSp lead steps` its text with prefix none,
`/` or `//`.  Then `P[k op v]/f` and `P/k[text() op v]/../f` return `f` of exactly the records whose `k` passes the
comparison, through `get`, item access and `first`; the tree is unchanged. -/
theorem C06_pred_spellings_string (cls : Cls) (kvs : List (Str × Val)) (lead : Lead) (steps : List StepSp)
    (k f opx op vq v : Str) (lc : Cls) (rs : List Val) (d : Val) (hp : PlainSteps steps) (hne : steps ≠ [])
    (hget : stepsGet (.dict cls kvs) steps = some (.list lc rs)) (hk : FieldKey k) (hf : PlainKey f) (hop : OpSpell opx op)
    (hlit : LitSpell vq v) (hv : PlainLit v) (hrs : ∀ r ∈ rs, isDict r = true) (hg : ComparableK k v rs)
    (fuel : Nat) (hfuel : fuel ≥ 6 * steps.length + rs.length + 14) :
    ∀ xp ∈ [renderSp lead steps ++ bracket (k ++ opx ++ vq) ++ slash ++ f,
            renderSp lead steps ++ slash ++ k ++ bracket (sTextFn ++ opx ++ vq) ++ slash ++ ['.', '.'] ++ slash ++ f],
      XPath.get fuel (.dict cls kvs) xp d
        = (.dict cls kvs, .ok (selected (selectWhere k f (condTest op (.str v)) rs) d)) ∧
      getItem fuel (.dict cls kvs) xp = (.dict cls kvs, selectedItem (selectWhere k f (condTest op (.str v)) rs)) ∧
      first fuel (.dict cls kvs) xp d = (.dict cls kvs, .ok (firstOf (selectWhere k f (condTest op (.str v)) rs) d)) := by
  intro xp hxp
  have := sel3_pred_string cls kvs lead steps k f opx op vq v lc rs d hp hne hget hk hf hop hlit hv hrs hg.guard fuel hfuel xp hxp
  simp only [selectWhere_eq] at this
  exact this

/-- **C06 (chained selections, any spelling, token level; `items` a list of records or one record).**  `_find` on
`toksP ++ ["[k1 op v1]", "items[k2 op v2]", f]` (and on the merged `… "name[k1 op v1]", …` when `toksP` ends in a key
token) finds exactly the per-parent contributions `selectChainedG rl …`, for both values of `return_lists`. -/
theorem C06_chained_spelled (t : Val) (rl : Bool) (toksP : List Str) (p : Pos) (lc : Cls) (rs : List Val)
    (k1 opx1 op1 vq1 v1 items k2 opx2 op2 vq2 v2 f : Str)
    (hs : Sel3Spells toksP t p (.list lc rs)) (hk1 : FieldKey k1) (hop1 : OpSpell opx1 op1) (hlit1 : LitSpell vq1 v1)
    (hv1 : PlainLit v1) (hitems : PlainKey items) (hk2 : FieldKey k2) (hop2 : OpSpell opx2 op2) (hlit2 : LitSpell vq2 v2)
    (hv2 : PlainLit v2) (hf : PlainKey f) (hrs : ∀ r ∈ rs, isDict r = true) (hg : ComparableK k1 v1 rs)
    (hin : InnerRecs items k2 v2 rs)
    (fuel : Nat) (hfuel : fuel ≥ 10 * toksP.length + rs.length + (rs.map (sel2InnerLen items)).sum + 30) :
    let vals := selectChainedG rl k1 items (condTest op1 (.str v1)) k2 f (condTest op2 (.str v2)) rs
    (∃ r, findD fuel t [] false true (toksP ++ [bracket (k1 ++ opx1 ++ vq1), items ++ bracket (k2 ++ opx2 ++ vq2), f]) (.at []) rl slash
        = .ok (t, r) ∧ r.isFound = !vals.isEmpty ∧ (r.isFound = true → r.value = collect rl vals)) ∧
    (∀ toks' name, toksP = toks' ++ [name] → PlainKey name →
      ∃ r, findD fuel t [] false true (toks' ++ [name ++ bracket (k1 ++ opx1 ++ vq1), items ++ bracket (k2 ++ opx2 ++ vq2), f])
          (.at []) rl slash = .ok (t, r) ∧ r.isFound = !vals.isEmpty ∧ (r.isFound = true → r.value = collect rl vals)) := by
  intro vals
  have := sel3_chained_spelled t rl k1 opx1 op1 vq1 v1 items k2 opx2 op2 vq2 v2 f hs hk1 hop1 hlit1 hv1 hitems hk2 hop2 hlit2 hv2
    hf hrs hg.guard hin.ok fuel hfuel
  simp only [chainedG_eq] at this
  exact this

/-- **C06 (chained selections, any spelling, string level; `items` a list of records or one record).**
`P[k1 op v1]/items[k2 op v2]/f` for any spelling of `P`: `get` and item access return the list of per-parent
contributions (`selectChainedG true`: the nested list of per-parent selections when every `items` is a list —
`selectChainedG_lists`), the default / `IndexError` when there is none; `first` returns `firstOf` of the
`return_lists=False` contributions; the tree is unchanged. -/
theorem C06_chained_spellings_string (cls : Cls) (kvs : List (Str × Val)) (lead : Lead) (steps : List StepSp)
    (k1 opx1 op1 vq1 v1 items k2 opx2 op2 vq2 v2 f : Str) (lc : Cls) (rs : List Val) (d : Val)
    (hp : PlainSteps steps) (hne : steps ≠ []) (hget : stepsGet (.dict cls kvs) steps = some (.list lc rs))
    (hk1 : FieldKey k1) (hop1 : OpSpell opx1 op1) (hlit1 : LitSpell vq1 v1) (hv1 : PlainLit v1) (hitems : PlainKey items)
    (hk2 : FieldKey k2) (hop2 : OpSpell opx2 op2) (hlit2 : LitSpell vq2 v2) (hv2 : PlainLit v2) (hf : PlainKey f)
    (hrs : ∀ r ∈ rs, isDict r = true) (hg : ComparableK k1 v1 rs) (hin : InnerRecs items k2 v2 rs)
    (fuel : Nat) (hfuel : fuel ≥ 10 * steps.length + rs.length + (rs.map (sel2InnerLen items)).sum + 30) :
    let xp := renderSp lead steps ++ bracket (k1 ++ opx1 ++ vq1) ++ slash ++ items ++ bracket (k2 ++ opx2 ++ vq2) ++ slash ++ f
    let valsT := selectChainedG true k1 items (condTest op1 (.str v1)) k2 f (condTest op2 (.str v2)) rs
    let valsF := selectChainedG false k1 items (condTest op1 (.str v1)) k2 f (condTest op2 (.str v2)) rs
    XPath.get fuel (.dict cls kvs) xp d = (.dict cls kvs, .ok (selected valsT d)) ∧
    getItem fuel (.dict cls kvs) xp = (.dict cls kvs, selectedItem valsT) ∧
    first fuel (.dict cls kvs) xp d = (.dict cls kvs, .ok (firstOf valsF d)) := by
  intro xp valsT valsF
  have := sel3_chained_string cls kvs lead steps k1 opx1 op1 vq1 v1 items k2 opx2 op2 vq2 v2 f lc rs d hp hne hget hk1 hop1 hlit1
    hv1 hitems hk2 hop2 hlit2 hv2 hf hrs hg.guard hin.ok fuel hfuel
  simp only [chainedG_eq] at this
  exact this

/-- **C06 (an inner `items` that is one record — the "hidden list").**  For the record list at any position `p`
(canonical path `P`) whose records carry, under `items`, a list of dict records OR one dict record:
`P[k1 op v1]/items[k2 op v2]/f` returns the per-parent contributions `selectChainedG` — a parent whose `items` is a
list contributes the list of its selected values, a parent whose `items` is ONE record contributes that record's
`f` itself (not a one-element list) when the record passes the inner test.  The matching elements are exactly the
selected ones; only the nesting of a single-record parent is flat. -/
theorem C06_chained_hidden (cls : Cls) (kvs : List (Str × Val)) (p : Pos)
    (k1 opx1 op1 vq1 v1 items k2 opx2 op2 vq2 v2 f : Str) (lc : Cls) (rs : List Val) (d : Val)
    (hp : PlainPos p) (hne : p ≠ []) (hk1 : FieldKey k1) (hop1 : OpSpell opx1 op1) (hlit1 : LitSpell vq1 v1) (hv1 : PlainLit v1)
    (hitems : PlainKey items) (hk2 : FieldKey k2) (hop2 : OpSpell opx2 op2) (hlit2 : LitSpell vq2 v2) (hv2 : PlainLit v2)
    (hf : PlainKey f) (hget : getAt (.dict cls kvs) p = some (.list lc rs)) (hrs : ∀ r ∈ rs, isDict r = true)
    (hg : ComparableK k1 v1 rs) (hin : InnerRecs items k2 v2 rs) :
    ∃ n, ∀ fuel ≥ n,
      let xp := slash ++ renderPos p ++ bracket (k1 ++ opx1 ++ vq1) ++ slash ++ items ++ bracket (k2 ++ opx2 ++ vq2) ++ slash ++ f
      let valsT := selectChainedG true k1 items (condTest op1 (.str v1)) k2 f (condTest op2 (.str v2)) rs
      let valsF := selectChainedG false k1 items (condTest op1 (.str v1)) k2 f (condTest op2 (.str v2)) rs
      XPath.get fuel (.dict cls kvs) xp d = (.dict cls kvs, .ok (selected valsT d)) ∧
      getItem fuel (.dict cls kvs) xp = (.dict cls kvs, selectedItem valsT) ∧
      first fuel (.dict cls kvs) xp d = (.dict cls kvs, .ok (firstOf valsF d)) := by
  refine ⟨10 * p.length + rs.length + (rs.map (sel2InnerLen items)).sum + 30, fun fuel hfuel => ?_⟩
  have := C06_chained_spellings_string cls kvs .two (sel3StepsOf p) k1 opx1 op1 vq1 v1 items k2 opx2 op2 vq2 v2 f lc rs d
    (sel3_stepsOf_plain p hp) (by cases p with | nil => exact absurd rfl hne | cons s r => cases s <;> simp [sel3StepsOf])
    (sel3_stepsOf_get p _ _ hget) hk1 hop1 hlit1 hv1 hitems hk2 hop2 hlit2 hv2 hf hrs hg hin fuel
    (by rw [sel3_stepsOf_length]; exact hfuel)
  rw [sel3_stepsOf_canon cls kvs p _ hne hget] at this
  exact this

/-- when `items` is never a list — every outer record that has it has ONE dict record there — the chained
selection is flat: `[r[items][f] for r in rs if r passes, has items, r[items] passes and has f]` -/
theorem C06_chained_hidden_flat (rl : Bool) (k1 items : Str) (t1 : Val → Bool) (k2 f : Str) (t2 : Val → Bool) (rs : List Val)
    (h : ∀ c kvs' x, Val.dict c kvs' ∈ rs → lookup items kvs' = some x → ∀ lc xs, x ≠ .list lc xs) :
    selectChainedG rl k1 items t1 k2 f t2 rs = selectWhere k2 f t2 (selectWhere k1 items t1 rs) := by
  unfold selectChainedG
  have hall : ∀ x ∈ selectWhere k1 items t1 rs, ∀ lc xs, x ≠ .list lc xs := by
    intro x hx
    obtain ⟨c, kvs', hm, hl⟩ := selectWhere_mem k1 items t1 rs x hx
    exact h c kvs' x hm hl
  generalize selectWhere k1 items t1 rs = ys at hall
  induction ys with
  | nil => rfl
  | cons y ys ih =>
    have ih' := ih (fun x hx => hall x (List.mem_cons_of_mem _ hx))
    rw [selectWhere_cons k2 f t2 y ys, List.filterMap_cons, ← ih']
    cases y with
    | list lc xs => exact absurd rfl (hall _ (by simp) lc xs)
    | dict c kvs2 =>
      cases hh : (selectWhere k2 f t2 [Val.dict c kvs2]).head? with
      | none =>
        have : selectWhere k2 f t2 [Val.dict c kvs2] = [] := by
          cases hs : selectWhere k2 f t2 [Val.dict c kvs2] with
          | nil => rfl
          | cons a b => rw [hs] at hh; simp at hh
        simp [innerSelG, this]
      | some z =>
        have : selectWhere k2 f t2 [Val.dict c kvs2] = [z] := by
          cases hk : lookup k2 kvs2 with
          | none => simp [selectWhere, hk] at hh
          | some kv =>
            cases hf : lookup f kvs2 with
            | none => simp [selectWhere, hk, hf] at hh
            | some fv =>
              cases ht : t2 kv <;> simp [selectWhere, hk, hf, ht] at hh ⊢
              exact hh
        simp [innerSelG, this]
    | _ => simp [innerSelG, selectWhere]

/-- the per-parent selections of a chained lookup as Lean lists (inner LISTS of records) -/
def innerList (k2 f : Str) (test2 : Val → Bool) : Val → Option (List Val)
  | .list _ xs => if (selectWhere k2 f test2 xs).isEmpty then Option.none else some (selectWhere k2 f test2 xs)
  | _ => Option.none

def chainedLists (k1 items : Str) (test1 : Val → Bool) (k2 f : Str) (test2 : Val → Bool) (rs : List Val) : List (List Val) :=
  (selectWhere k1 items test1 rs).filterMap (innerList k2 f test2)

theorem chainedLists_true (k1 items : Str) (t1 : Val → Bool) (k2 f : Str) (t2 : Val → Bool) (rs : List Val) :
    selectChained k1 items t1 k2 f t2 rs = (chainedLists k1 items t1 k2 f t2 rs).map (fun sel => Val.list .n0 sel) := by
  unfold selectChained chainedLists
  rw [List.map_filterMap]
  apply sel3_filterMap_congr
  intro x _
  cases x with
  | list lc xs => cases he : (selectWhere k2 f t2 xs).isEmpty <;> simp [innerSel, innerList, he]
  | _ => simp [innerSel, innerList]

theorem chainedLists_false (k1 items : Str) (t1 : Val → Bool) (k2 f v2 : Str) (t2 : Val → Bool) (rs : List Val)
    (h : InnerLists items k2 v2 rs) :
    selectChainedG false k1 items t1 k2 f t2 rs = (chainedLists k1 items t1 k2 f t2 rs).map single := by
  unfold selectChainedG chainedLists
  rw [List.map_filterMap]
  apply sel3_filterMap_congr
  intro x hx
  obtain ⟨c, kvs, hm, hl⟩ := selectWhere_mem k1 items t1 rs x hx
  obtain ⟨lc, xs, rfl, _, _⟩ := h c kvs x hm hl
  cases he : (selectWhere k2 f t2 xs).isEmpty <;> simp [innerSelG, innerList, he]

/-- **C06 (`first` on a chained selection).**  With `sels` = the per-parent selections (the non-empty lists
`[it[f] for it in r[items] if …]` of the outer records that pass, in order — `chainedLists`, whose `.list`-wrapped
form is what `get` returns: `chainedLists_true`), `first` returns `firstOf (sels.map single) d`: every parent's
selection is replaced by its only element when it has exactly one (`return_lists=False` in the inner fan-out), then
the outer list likewise, then `first`'s own last step unwraps a remaining one-element list.
`C06_chained_first_cases` spells the cases out. -/
theorem C06_chained_first (cls : Cls) (kvs : List (Str × Val)) (p : Pos)
    (k1 opx1 op1 vq1 v1 items k2 opx2 op2 vq2 v2 f : Str) (lc : Cls) (rs : List Val) (d : Val)
    (hp : PlainPos p) (hne : p ≠ []) (hk1 : FieldKey k1) (hop1 : OpSpell opx1 op1) (hlit1 : LitSpell vq1 v1) (hv1 : PlainLit v1)
    (hitems : PlainKey items) (hk2 : FieldKey k2) (hop2 : OpSpell opx2 op2) (hlit2 : LitSpell vq2 v2) (hv2 : PlainLit v2)
    (hf : PlainKey f) (hget : getAt (.dict cls kvs) p = some (.list lc rs)) (hrs : ∀ r ∈ rs, isDict r = true)
    (hg : ComparableK k1 v1 rs) (hin : InnerLists items k2 v2 rs) :
    ∃ n, ∀ fuel ≥ n,
      let xp := slash ++ renderPos p ++ bracket (k1 ++ opx1 ++ vq1) ++ slash ++ items ++ bracket (k2 ++ opx2 ++ vq2) ++ slash ++ f
      let sels := chainedLists k1 items (condTest op1 (.str v1)) k2 f (condTest op2 (.str v2)) rs
      first fuel (.dict cls kvs) xp d = (.dict cls kvs, .ok (firstOf (sels.map single) d)) := by
  obtain ⟨n, h⟩ := C06_chained_hidden cls kvs p k1 opx1 op1 vq1 v1 items k2 opx2 op2 vq2 v2 f lc rs d hp hne hk1 hop1 hlit1 hv1
    hitems hk2 hop2 hlit2 hv2 hf hget hrs hg hin.recs
  refine ⟨n, fun fuel hfuel => ?_⟩
  have := (h fuel hfuel).2.2
  rw [chainedLists_false _ _ _ _ _ v2 _ _ hin] at this
  exact this

/-- what `first` makes of the per-parent selections `sels` (all non-empty): nothing selected → the default
as it is (since fix C04-f also when it is a one-element list); exactly one parent selecting exactly one record → that value (unwrapped
once more if it is itself a one-element list: three levels in all); exactly one parent selecting several → the list
of them (ONE level: the parent level is gone); several parents → the list of per-parent results, a parent with one
selected record represented by the bare value, the others by their lists -/
theorem C06_chained_first_cases (sels : List (List Val)) (d x : Val) (xs : List Val) :
    (sels = [] → firstOf (sels.map single) d = d) ∧
    (sels = [[x]] → firstOf (sels.map single) d = unwrap1 x) ∧
    (sels = [xs] → xs.length ≥ 2 → firstOf (sels.map single) d = .list .n0 xs) ∧
    (sels.length ≥ 2 → firstOf (sels.map single) d = .list .n0 (sels.map single)) := by
  refine ⟨?_, ?_, ?_, ?_⟩
  · rintro rfl; rfl
  · rintro rfl; rfl
  · rintro rfl hlen
    match xs, hlen with
    | a :: b :: r, _ => rfl
  · intro hlen
    match sels, hlen with
    | a :: b :: r, _ => rfl

/-! ## non-vacuity -/

def recs : Val :=
  .dict .n0 [(['r'], .list .plain [.dict .plain [(['k'], .str ['1']), (['f'], .str ['x'])],
                                     .dict .plain [(['k'], .str ['2'])],
                                     .dict .plain [(['k'], .str ['1']), (['f'], .str ['y'])]])]

def recsList : List Val :=
  [.dict .plain [(['k'], .str ['1']), (['f'], .str ['x'])], .dict .plain [(['k'], .str ['2'])],
   .dict .plain [(['k'], .str ['1']), (['f'], .str ['y'])]]

theorem plainKey_r : PlainKey ['r'] := ⟨by decide, by decide, by decide⟩
theorem plainKey_f : PlainKey ['f'] := ⟨by decide, by decide, by decide⟩
theorem plainKey_k : PlainKey ['k'] := ⟨by decide, by decide, by decide⟩
theorem fieldKey_k : FieldKey ['k'] := ⟨plainKey_k, ⟨by decide, by decide, by decide⟩, by decide⟩
theorem plainLit_1 : PlainLit ['1'] := ⟨by decide, by decide, by decide⟩
theorem plainLit_empty : PlainLit [] := ⟨by decide, by decide, by decide⟩

/-- the hypotheses of `C06_star_partial` / `C06_eq_partial` are inhabited, and the reference results are
the expected ones: two records with `f`, one without; two records with `k = '1'` -/
example : selectF ['f'] recsList = [.str ['x'], .str ['y']] := by decide
example : selectWhere ['k'] ['f'] (fieldEq ['1']) recsList = [.str ['x'], .str ['y']] := by decide
example : selectWhere ['k'] ['k'] (fun x => !fieldEq ['1'] x) recsList = [.str ['2']] := by decide
example : (XPath.get 13 recs ['r', '[', '*', ']', '/', 'f'] .none) = (recs, .ok (.list .n0 [.str ['x'], .str ['y']])) :=
  ((C06_star_partial .n0 _ ['r'] ['f'] .plain recsList .none plainKey_r plainKey_f rfl (by decide) 13 (by decide)) _
    (by simp [bracket, slash])).1
example : (XPath.get 13 recs ['r', '[', 'k', '=', '\'', '1', '\'', ']', '/', 'f'] .none)
    = (recs, .ok (.list .n0 [.str ['x'], .str ['y']])) :=
  (C06_eq_partial .n0 _ ['r'] ['k'] ['f'] ['='] _ ['1'] .plain recsList .none plainKey_r fieldKey_k plainKey_f .eq1
    (.sq ['1']) plainLit_1 rfl (by decide) (by decide) 13 (by decide)).1

/-- a record list two levels down (`/a[1]`), reached through `C06_implicit_star_path_partial` -/
def deep : Val := .dict .n0 [(['a'], .list .plain [.str ['p'], .list .plain recsList])]
example : (XPath.get 20 deep ['/', '/', 'a', '[', '1', ']', '/', 'f'] .none) = (deep, .ok (.list .n0 [.str ['x'], .str ['y']])) :=
  (C06_implicit_star_path_partial .n0 _ [.key ['a'], .idx 1] ['f'] .plain recsList .none
    ⟨⟨by decide, by decide, by decide⟩, trivial⟩ (by simp) plainKey_f rfl (by decide) 20 (by decide)).1

/-- `C06_star` on the same tree: the explicit `//a[1][*]/f` (the last step of `P` is an index, so `[*]` is a
token of its own after `replace("][","]/[")`) -/
example : ∃ n, ∀ fuel ≥ n, (XPath.get fuel deep ['/', '/', 'a', '[', '1', ']', '[', '*', ']', '/', 'f'] .none)
    = (deep, .ok (.list .n0 [.str ['x'], .str ['y']])) := by
  obtain ⟨n, h⟩ := C06_star .n0 [(['a'], .list .plain [.str ['p'], .list .plain recsList])] [.key ['a'], .idx 1] ['f'] .plain recsList .none
    ⟨⟨by decide, by decide, by decide⟩, trivial⟩ (by simp) plainKey_f rfl (by decide)
  exact ⟨n, fun fuel hf => (h fuel hf _ (List.mem_cons_self ..)).1⟩

/-- `C06_pred` on the same tree: `//a[1][k='1']/f` (a predicate on a list that is itself a list element) -/
example : ∃ n, ∀ fuel ≥ n, (XPath.get fuel deep ['/', '/', 'a', '[', '1', ']', '[', 'k', '=', '\'', '1', '\'', ']', '/', 'f'] .none)
    = (deep, .ok (.list .n0 [.str ['x'], .str ['y']])) := by
  obtain ⟨n, h⟩ := C06_pred .n0 [(['a'], .list .plain [.str ['p'], .list .plain recsList])] [.key ['a'], .idx 1] ['k'] ['f']
    ['='] _ _ ['1'] .plain recsList .none ⟨⟨by decide, by decide, by decide⟩, trivial⟩ (by simp) fieldKey_k plainKey_f .eq1
    (.sq ['1']) plainLit_1 rfl (by decide) (by decide)
  refine ⟨n, fun fuel hf => ?_⟩
  have := (h fuel hf _ (List.mem_cons_self ..)).1
  rw [show selectWhere ['k'] ['f'] (condTest ['=', '='] (.str ['1'])) recsList = [.str ['x'], .str ['y']] by decide] at this
  exact this

/-! the selecting forms on a concrete record list, evaluated by the model (all five forms) -/
example : (XPath.get 60 recs ['r', '[', '*', ']', '/', 'f'] .none).2 = .ok (.list .n0 [.str ['x'], .str ['y']]) := by decide
example : (XPath.get 60 recs ['r', '/', 'f'] .none).2 = .ok (.list .n0 [.str ['x'], .str ['y']]) := by decide
example : (XPath.get 60 recs ['r', '[', 'k', '=', '1', ']', '/', 'f'] .none).2 = .ok (.list .n0 [.str ['x'], .str ['y']]) := by decide
example : (XPath.get 60 recs ['r', '[', 'k', '!', '=', '1', ']', '/', 'k'] .none).2 = .ok (.list .n0 [.str ['2']]) := by decide
example : (XPath.get 60 recs ['r', '/', 'k', '[', 't', 'e', 'x', 't', '(', ')', '=', '2', ']', '/', '.', '.', '/', 'k'] .none).2
    = .ok (.list .n0 [.str ['2']]) := by decide
example : (XPath.get 60 recs ['r', '[', 'k', '=', '3', ']', '/', 'f'] (.str ['D'])).2 = .ok (.str ['D']) := by decide
example : (XPath.first 60 recs ['r', '[', 'k', '=', '2', ']', '/', 'k'] .none).2 = .ok (.str ['2']) := by decide

/-- (was finding C06-a, repaired by fix C06-a) a numeric `k` is compared as a number, a text `k` as
text: `r[k=1]/f` selects both records; a literal that is not a number is just not equal -/
def recsNum : Val :=
  .dict .n0 [(['r'], .list .plain [.dict .plain [(['k'], .int 1), (['f'], .str ['x'])],
                                     .dict .plain [(['k'], .str ['1']), (['f'], .str ['y'])],
                                     .dict .plain [(['k'], .int 2), (['f'], .str ['z'])]])]
theorem C06_numeric_example :
    (XPath.get 60 recsNum ['r', '[', 'k', '=', '1', ']', '/', 'f'] (.str ['D'])).2 = .ok (.list .n0 [.str ['x'], .str ['y']])
    ∧ (XPath.get 60 recsNum ['r', '[', 'k', '!', '=', '1', ']', '/', 'f'] (.str ['D'])).2 = .ok (.list .n0 [.str ['z']])
    ∧ (XPath.get 60 recsNum ['r', '[', 'k', '=', 'a', ']', '/', 'f'] (.str ['D'])).2 = .ok (.str ['D'])
    ∧ (XPath.get 60 recsNum ['r', '[', 'k', '~', '1', ']', '/', 'f'] (.str ['D'])).2 = .ok (.list .n0 [.str ['y']]) := by
  decide +kernel

/-- (was finding C06-c, repaired by fix C06-c) the empty literal selects the records whose `k` is
the empty text, in both forms; a record without `k` is not selected -/
def recsEmpty : Val :=
  .dict .n0 [(['r'], .list .plain [.dict .plain [(['k'], .str []), (['f'], .str ['x'])],
                                     .dict .plain [(['f'], .str ['y'])],
                                     .dict .plain [(['k'], .str ['a']), (['f'], .str ['z'])]])]
theorem C06_empty_literal_example :
    (XPath.get 60 recsEmpty ['r', '[', 'k', '=', '\'', '\'', ']', '/', 'f'] (.str ['D'])).2 = .ok (.list .n0 [.str ['x']])
    ∧ (XPath.get 60 recsEmpty ['r', '/', 'k', '[', 't', 'e', 'x', 't', '(', ')', '=', '\'', '\'', ']', '/', '.', '.', '/', 'f'] (.str ['D'])).2
        = .ok (.list .n0 [.str ['x']])
    ∧ (XPath.get 60 recsEmpty ['r', '[', 'k', '!', '=', '\'', '\'', ']', '/', 'f'] (.str ['D'])).2 = .ok (.list .n0 [.str ['z']]) := by
  decide +kernel

/-- (was finding C06-b, repaired by fix C06-b) chained predicates return the records of the selected
parent: `o[i=2]/t[s=B]/q` is the `q` of order 2 (before the fix: `[['2']]`, the item of order 1) -/
def ordersList : List Val :=
  [.dict .plain [(['i'], .str ['1']), (['t'], .list .plain [.dict .plain [(['s'], .str ['B']), (['q'], .str ['2'])]])],
   .dict .plain [(['i'], .str ['2']), (['t'], .list .plain [.dict .plain [(['s'], .str ['B']), (['q'], .str ['3'])],
                                                              .dict .plain [(['s'], .str ['C']), (['q'], .str ['4'])]])],
   .dict .plain [(['i'], .str ['2']), (['t'], .list .plain [.dict .plain [(['s'], .str ['A']), (['q'], .str ['5'])]])],
   .dict .plain [(['i'], .str ['2'])],
   .dict .plain [(['i'], .str ['2']), (['t'], .list .plain [])],
   .dict .plain [(['i'], .str ['2']), (['t'], .list .plain [.dict .plain [(['s'], .str ['B']), (['q'], .str ['6'])],
                                                              .dict .plain [(['s'], .str ['B']), (['q'], .str ['7'])]])]]
def orders : Val := .dict .n0 [(['o'], .list .plain ordersList)]
theorem C06_chained_example :
    (XPath.get 80 orders ['o', '[', 'i', '=', '2', ']', '/', 't', '[', 's', '=', 'B', ']', '/', 'q'] .none).2
      = .ok (.list .n0 [.list .n0 [.str ['3']], .list .n0 [.str ['6'], .str ['7']]]) := by decide +kernel

theorem plainKey_t : PlainKey ['t'] := ⟨by decide, by decide, by decide⟩
theorem plainKey_q : PlainKey ['q'] := ⟨by decide, by decide, by decide⟩
theorem fieldKey_i : FieldKey ['i'] := ⟨⟨by decide, by decide, by decide⟩, ⟨by decide, by decide, by decide⟩, by decide⟩
theorem fieldKey_s : FieldKey ['s'] := ⟨⟨by decide, by decide, by decide⟩, ⟨by decide, by decide, by decide⟩, by decide⟩
theorem plainLit_2 : PlainLit ['2'] := ⟨by decide, by decide, by decide⟩
theorem plainLit_B : PlainLit ['B'] := ⟨by decide, by decide, by decide⟩

/-- the reference result on that tree: two of the five matching orders have an inner selection -/
example : selectChained ['i'] ['t'] (fieldEq ['2']) ['s'] ['q'] (fieldEq ['B']) ordersList
    = [.list .n0 [.str ['3']], .list .n0 [.str ['6'], .str ['7']]] := by decide

/-- the hypotheses of `C06_chained` are inhabited (outer records with and without `t`, matching and not, inner
lists that are empty or have none / one / two selected records) -/
example : ∃ n, ∀ fuel ≥ n,
    XPath.get fuel orders ['/', '/', 'o', '[', 'i', '=', '2', ']', '/', 't', '[', 's', '=', 'B', ']', '/', 'q'] .none
      = (orders, .ok (.list .n0 [.list .n0 [.str ['3']], .list .n0 [.str ['6'], .str ['7']]])) := by
  obtain ⟨n, h⟩ := C06_chained .n0 [(['o'], .list .plain ordersList)] [.key ['o']] ['i'] ['='] _ ['2'] ['2'] ['t'] ['s']
    ['='] _ ['B'] ['B'] ['q'] .plain ordersList .none ⟨⟨by decide, by decide, by decide⟩, trivial⟩ (by simp) fieldKey_i .eq1
    (.bare _) plainLit_2 plainKey_t fieldKey_s .eq1 (.bare _) plainLit_B plainKey_q rfl (by decide) (by decide)
    (by
      intro c kvs' x hm hl
      simp only [ordersList, List.mem_cons, List.not_mem_nil, or_false, Val.dict.injEq] at hm
      rcases hm with ⟨_, rfl⟩ | ⟨_, rfl⟩ | ⟨_, rfl⟩ | ⟨_, rfl⟩ | ⟨_, rfl⟩ | ⟨_, rfl⟩ <;>
        (first
          | (simp [lookup] at hl; done)
          | (simp [lookup] at hl; subst hl; exact ⟨_, _, rfl, by decide, by decide⟩)))
  refine ⟨n, fun fuel hf => ?_⟩
  have := (h fuel hf).1
  rw [show selectChained ['i'] ['t'] (condTest ['=', '='] (.str ['2'])) ['s'] ['q'] (condTest ['=', '='] (.str ['B'])) ordersList
      = [.list .n0 [.str ['3']], .list .n0 [.str ['6'], .str ['7']]] by decide] at this
  exact this

/-- (was finding C06-e, repaired by fix C06-e) an outer record with an EMPTY inner list no longer aborts the
lookup with `IndexError`: the selection of the other order is returned; a predicate on an empty list is a miss -/
def ordersEmptyInner : Val :=
  .dict .n0 [(['o'], .list .plain [
    .dict .plain [(['i'], .str ['1']), (['t'], .list .plain [])],
    .dict .plain [(['i'], .str ['1']), (['t'], .list .plain [.dict .plain [(['s'], .str ['B']), (['q'], .str ['3'])]])]]),
    (['e'], .list .plain [])]
theorem C06_empty_inner_example :
    (XPath.get 80 ordersEmptyInner ['/', '/', 'o', '[', 'i', '=', '1', ']', '/', 't', '[', 's', '=', 'B', ']', '/', 'q'] (.str ['D'])).2
      = .ok (.list .n0 [.list .n0 [.str ['3']]])
    ∧ (XPath.get 80 ordersEmptyInner ['e', '[', 'i', '=', '1', ']', '/', 'q'] (.str ['D'])).2 = .ok (.str ['D'])
    ∧ (XPath.getItem 80 ordersEmptyInner ['e', '[', 'i', '=', '1', ']', '/', 'q']).2 = .error .IndexError := by
  decide +kernel

/-! ### non-vacuity: other spellings, `first` on chained selections, hidden lists -/

theorem plainKey_a : PlainKey ['a'] := ⟨by decide, by decide, by decide⟩
theorem plainKey_w : PlainKey ['w'] := ⟨by decide, by decide, by decide⟩
theorem plainLit_1' : PlainLit ['1'] := plainLit_1

/-- `a[-1]` spells the position `/a[1]` of the record list of `deep` (a two-element list) -/
def deepToks : List Str := [['a'] ++ bracket (IdxSp.neg 1).text]
example : deepToks = [['a', '[', '-', '1', ']']] := by decide
theorem deep_spelled : Sel3Spells deepToks deep [.key ['a'], .idx 1] (.list .plain recsList) :=
  .keyIdx ((IdxSp.neg 1).keyIdxTok plainKey_a) plainKey_a rfl (by decide) rfl (.nil _)

/-- `C06_pred_spelled`: the tokens `a[-1]`, `[k='1']`, `f`, and `a[-1]`, `k[text()='1']`, `..`, `f` -/
example : ∀ tail ∈ [[bracket (['k'] ++ ['='] ++ ['\'', '1', '\'']), ['f']],
                    [['k'] ++ bracket (sTextFn ++ ['='] ++ ['\'', '1', '\'']), ['.', '.'], ['f']]],
    ∃ r, findD 40 deep [] false true (deepToks ++ tail) (.at []) true slash = .ok (deep, r) ∧
      r.value = .list .n0 [.str ['x'], .str ['y']] := by
  intro tail htail
  obtain ⟨r, hr, hf, hv⟩ := (C06_pred_spelled deep true deepToks _ _ recsList ['k'] ['f'] ['='] _ _ ['1'] deep_spelled fieldKey_k
    plainKey_f .eq1 (.sq ['1']) plainLit_1 (by decide) (by decide) 40 (by decide)).1 tail htail
  rw [show selectWhere ['k'] ['f'] (condTest ['=', '='] (.str ['1'])) recsList = [.str ['x'], .str ['y']] by decide] at hf hv
  exact ⟨r, hr, hv (by simpa using hf)⟩

/-- the spelling `a/[0+1]` (relative, the index a step of its own, written as a sum) -/
def deepSteps : List StepSp := [.key ['a'], .idx (.plus 0 1) true]
example : renderSp .rel deepSteps = ['a', '/', '[', '0', '+', '1', ']'] := by decide
example : renderSp .two deepSteps = ['/', '/', 'a', '/', '[', '0', '+', '1', ']'] := by decide

/-- `C06_pred_spellings_string` on it: `a/[0+1][k='1']/f` and `a/[0+1]/k[text()='1']/../f` -/
example : ∀ xp ∈ [renderSp .rel deepSteps ++ bracket (['k'] ++ ['='] ++ ['\'', '1', '\'']) ++ slash ++ ['f'],
                  renderSp .rel deepSteps ++ slash ++ ['k'] ++ bracket (sTextFn ++ ['='] ++ ['\'', '1', '\'']) ++ slash ++ ['.', '.'] ++ slash ++ ['f']],
    XPath.get 40 deep xp .none = (deep, .ok (.list .n0 [.str ['x'], .str ['y']])) := by
  intro xp hxp
  have := (C06_pred_spellings_string .n0 [(['a'], .list .plain [.str ['p'], .list .plain recsList])] .rel deepSteps ['k'] ['f'] ['='] _ _
    ['1'] .plain recsList .none ⟨plainKey_a, trivial⟩ (by simp [deepSteps]) (by decide) fieldKey_k plainKey_f .eq1 (.sq ['1'])
    plainLit_1 (by decide) (by decide) 40 (by decide) xp hxp).1
  rw [show selectWhere ['k'] ['f'] (condTest ['=', '='] (.str ['1'])) recsList = [.str ['x'], .str ['y']] by decide] at this
  exact this

/-- `C06_star_spellings_string`: `a/[0+1][*]/f` and `a/[0+1]/f` -/
example : ∀ xp ∈ [renderSp .rel deepSteps ++ bracket ['*'] ++ slash ++ ['f'], renderSp .rel deepSteps ++ slash ++ ['f']],
    XPath.get 40 deep xp .none = (deep, .ok (.list .n0 [.str ['x'], .str ['y']])) := by
  intro xp hxp
  exact ((C06_star_spellings_string .n0 [(['a'], .list .plain [.str ['p'], .list .plain recsList])] .rel deepSteps ['f'] .plain
    recsList .none ⟨plainKey_a, trivial⟩ (by simp [deepSteps]) (by decide) plainKey_f (by decide) 40 (by decide)) xp hxp).1

/-- the same through the model, spellings `a[-1]`, `/a/[last()]`, `//a[1+0]`, text form included -/
example : (XPath.get 60 deep ['a', '[', '-', '1', ']', '[', 'k', '=', '1', ']', '/', 'f'] .none).2
    = .ok (.list .n0 [.str ['x'], .str ['y']]) := by decide +kernel
example : (XPath.get 60 deep ['/', 'a', '/', '[', 'l', 'a', 's', 't', '(', ')', ']', '/', 'k', '[', 't', 'e', 'x', 't', '(', ')', '=', '1', ']',
    '/', '.', '.', '/', 'f'] .none).2 = .ok (.list .n0 [.str ['x'], .str ['y']]) := by decide +kernel

/-- outer records whose `t` is a LIST of records or ONE record (hidden list), two levels down -/
def ordersMixedList : List Val :=
  [.dict .plain [(['i'], .str ['1']), (['t'], .dict .plain [(['s'], .str ['B']), (['q'], .str ['3'])])],
   .dict .plain [(['i'], .str ['1']), (['t'], .list .plain [.dict .plain [(['s'], .str ['B']), (['q'], .str ['4'])],
                                                              .dict .plain [(['s'], .str ['B']), (['q'], .str ['5'])]])],
   .dict .plain [(['i'], .str ['1']), (['t'], .dict .plain [(['s'], .str ['C']), (['q'], .str ['6'])])],
   .dict .plain [(['i'], .str ['2']), (['t'], .dict .plain [(['s'], .str ['B']), (['q'], .str ['9'])])],
   .dict .plain [(['i'], .str ['1']), (['t'], .list .plain [.dict .plain [(['s'], .str ['B']), (['q'], .str ['7'])]])]]
def ordersMixedKvs : List (Str × Val) := [(['w'], .list .plain [.str ['p'], .list .plain ordersMixedList])]
def ordersMixed : Val := .dict .n0 ordersMixedKvs

theorem ordersMixed_inner : InnerRecs ['t'] ['s'] ['B'] ordersMixedList := by
  intro c kvs' x hm hl
  simp only [ordersMixedList, List.mem_cons, List.not_mem_nil, or_false, Val.dict.injEq] at hm
  rcases hm with ⟨_, rfl⟩ | ⟨_, rfl⟩ | ⟨_, rfl⟩ | ⟨_, rfl⟩ | ⟨_, rfl⟩ <;>
    (simp [lookup] at hl; subst hl
     first
       | exact Or.inl ⟨_, _, rfl, by decide, by decide⟩
       | exact Or.inr ⟨_, _, rfl, by decide⟩)

/-- the reference results: a single-record parent contributes the bare value, a list parent its list; under
`return_lists=False` (`first`) a one-element list parent contributes the bare value too -/
example : selectChainedG true ['i'] ['t'] (fieldEq ['1']) ['s'] ['q'] (fieldEq ['B']) ordersMixedList
    = [.str ['3'], .list .n0 [.str ['4'], .str ['5']], .list .n0 [.str ['7']]] := by decide
example : selectChainedG false ['i'] ['t'] (fieldEq ['1']) ['s'] ['q'] (fieldEq ['B']) ordersMixedList
    = [.str ['3'], .list .n0 [.str ['4'], .str ['5']], .str ['7']] := by decide

/-- `C06_chained_hidden` on that tree: `//w[1][i=1]/t[s=B]/q` -/
example : ∃ n, ∀ fuel ≥ n,
    XPath.get fuel ordersMixed ['/', '/', 'w', '[', '1', ']', '[', 'i', '=', '1', ']', '/', 't', '[', 's', '=', 'B', ']', '/', 'q'] .none
      = (ordersMixed, .ok (.list .n0 [.str ['3'], .list .n0 [.str ['4'], .str ['5']], .list .n0 [.str ['7']]])) ∧
    XPath.first fuel ordersMixed ['/', '/', 'w', '[', '1', ']', '[', 'i', '=', '1', ']', '/', 't', '[', 's', '=', 'B', ']', '/', 'q'] .none
      = (ordersMixed, .ok (.list .n0 [.str ['3'], .list .n0 [.str ['4'], .str ['5']], .str ['7']])) := by
  obtain ⟨n, h⟩ := C06_chained_hidden .n0 ordersMixedKvs [.key ['w'], .idx 1] ['i'] ['='] _ ['1'] ['1'] ['t'] ['s'] ['='] _ ['B'] ['B']
    ['q'] .plain ordersMixedList .none ⟨plainKey_w, trivial⟩ (by simp) fieldKey_i .eq1 (.bare _) plainLit_1 plainKey_t fieldKey_s .eq1
    (.bare _) plainLit_B plainKey_q rfl (by decide) (by decide) ordersMixed_inner
  refine ⟨n, fun fuel hf => ?_⟩
  have h1 := (h fuel hf).1
  have h3 := (h fuel hf).2.2
  rw [show selectChainedG true ['i'] ['t'] (condTest ['=', '='] (.str ['1'])) ['s'] ['q'] (condTest ['=', '='] (.str ['B'])) ordersMixedList
      = [.str ['3'], .list .n0 [.str ['4'], .str ['5']], .list .n0 [.str ['7']]] by decide] at h1
  rw [show selectChainedG false ['i'] ['t'] (condTest ['=', '='] (.str ['1'])) ['s'] ['q'] (condTest ['=', '='] (.str ['B'])) ordersMixedList
      = [.str ['3'], .list .n0 [.str ['4'], .str ['5']], .str ['7']] by decide] at h3
  exact ⟨h1, h3⟩

/-- `C06_chained_spellings_string` on it with the spelling `/w[-1]` -/
def mixedSteps : List StepSp := [.key ['w'], .idx (.neg 1) false]
example : renderSp .one mixedSteps = ['/', 'w', '[', '-', '1', ']'] := by decide
example : XPath.get 90 ordersMixed
    (renderSp .one mixedSteps ++ bracket (['i'] ++ ['='] ++ ['1']) ++ slash ++ ['t'] ++ bracket (['s'] ++ ['='] ++ ['B']) ++ slash ++ ['q']) .none
      = (ordersMixed, .ok (.list .n0 [.str ['3'], .list .n0 [.str ['4'], .str ['5']], .list .n0 [.str ['7']]])) := by
  have := (C06_chained_spellings_string .n0 ordersMixedKvs .one mixedSteps ['i'] ['='] _ ['1'] ['1'] ['t'] ['s'] ['='] _ ['B'] ['B']
    ['q'] .plain ordersMixedList .none ⟨plainKey_w, trivial⟩ (by simp [mixedSteps]) (by decide) fieldKey_i .eq1 (.bare _) plainLit_1
    plainKey_t fieldKey_s .eq1 (.bare _) plainLit_B plainKey_q (by decide) (by decide) ordersMixed_inner 90 (by decide)).1
  rw [show selectChainedG true ['i'] ['t'] (condTest ['=', '='] (.str ['1'])) ['s'] ['q'] (condTest ['=', '='] (.str ['B'])) ordersMixedList
      = [.str ['3'], .list .n0 [.str ['4'], .str ['5']], .list .n0 [.str ['7']]] by decide] at this
  exact this

/-- `C06_chained_spelled` (token level) on it: `w[-1]`, `[i=1]`, `t[s=B]`, `q`, `return_lists=False` -/
def mixedToks : List Str := [['w'] ++ bracket (IdxSp.neg 1).text]
theorem mixed_spelled : Sel3Spells mixedToks ordersMixed [.key ['w'], .idx 1] (.list .plain ordersMixedList) :=
  .keyIdx ((IdxSp.neg 1).keyIdxTok plainKey_w) plainKey_w rfl (by decide) rfl (.nil _)
example : ∃ r, findD 90 ordersMixed [] false true
      (mixedToks ++ [bracket (['i'] ++ ['='] ++ ['1']), ['t'] ++ bracket (['s'] ++ ['='] ++ ['B']), ['q']]) (.at []) false slash
      = .ok (ordersMixed, r) ∧ r.value = .list .n0 [.str ['3'], .list .n0 [.str ['4'], .str ['5']], .str ['7']] := by
  obtain ⟨r, hr, hf, hv⟩ := (C06_chained_spelled ordersMixed false mixedToks _ _ ordersMixedList ['i'] ['='] _ ['1'] ['1'] ['t'] ['s']
    ['='] _ ['B'] ['B'] ['q'] mixed_spelled fieldKey_i .eq1 (.bare _) plainLit_1 plainKey_t fieldKey_s .eq1 (.bare _) plainLit_B
    plainKey_q (by decide) (by decide) ordersMixed_inner 90 (by decide)).1
  rw [show selectChainedG false ['i'] ['t'] (condTest ['=', '='] (.str ['1'])) ['s'] ['q'] (condTest ['=', '='] (.str ['B'])) ordersMixedList
      = [.str ['3'], .list .n0 [.str ['4'], .str ['5']], .str ['7']] by decide] at hf hv
  exact ⟨r, hr, hv (by simpa using hf)⟩

/-- `C06_chained_hidden_flat`: when every `t` is one record the result is the flat list of the matching ones -/
def ordersDictsList : List Val :=
  [.dict .plain [(['i'], .str ['1']), (['t'], .dict .plain [(['s'], .str ['B']), (['q'], .str ['3'])])],
   .dict .plain [(['i'], .str ['1']), (['t'], .dict .plain [(['s'], .str ['C']), (['q'], .str ['6'])])],
   .dict .plain [(['i'], .str ['1'])],
   .dict .plain [(['i'], .str ['1']), (['t'], .dict .plain [(['s'], .str ['B']), (['q'], .str ['8'])])]]
example : selectChainedG true ['i'] ['t'] (fieldEq ['1']) ['s'] ['q'] (fieldEq ['B']) ordersDictsList = [.str ['3'], .str ['8']] :=
  (C06_chained_hidden_flat true ['i'] ['t'] _ ['s'] ['q'] _ ordersDictsList (by
    intro c kvs' x hm hl lc xs
    simp only [ordersDictsList, List.mem_cons, List.not_mem_nil, or_false, Val.dict.injEq] at hm
    rcases hm with ⟨_, rfl⟩ | ⟨_, rfl⟩ | ⟨_, rfl⟩ | ⟨_, rfl⟩ <;> (simp [lookup] at hl; try (subst hl; simp)))).trans (by decide)

/-- `C06_chained_first` on `orders` (inner lists): the per-parent selections are `[['3'], ['6','7']]`; `first` returns
`['3', ['6','7']]` — the one-record parent as the bare value -/
example : chainedLists ['i'] ['t'] (fieldEq ['2']) ['s'] ['q'] (fieldEq ['B']) ordersList = [[.str ['3']], [.str ['6'], .str ['7']]] := by
  decide
theorem orders_inner : InnerLists ['t'] ['s'] ['B'] ordersList := by
  intro c kvs' x hm hl
  simp only [ordersList, List.mem_cons, List.not_mem_nil, or_false, Val.dict.injEq] at hm
  rcases hm with ⟨_, rfl⟩ | ⟨_, rfl⟩ | ⟨_, rfl⟩ | ⟨_, rfl⟩ | ⟨_, rfl⟩ | ⟨_, rfl⟩ <;>
    (first
      | (simp [lookup] at hl; done)
      | (simp [lookup] at hl; subst hl; exact ⟨_, _, rfl, by decide, by decide⟩))
example : ∃ n, ∀ fuel ≥ n,
    XPath.first fuel orders ['/', '/', 'o', '[', 'i', '=', '2', ']', '/', 't', '[', 's', '=', 'B', ']', '/', 'q'] .none
      = (orders, .ok (.list .n0 [.str ['3'], .list .n0 [.str ['6'], .str ['7']]])) := by
  obtain ⟨n, h⟩ := C06_chained_first .n0 [(['o'], .list .plain ordersList)] [.key ['o']] ['i'] ['='] _ ['2'] ['2'] ['t'] ['s']
    ['='] _ ['B'] ['B'] ['q'] .plain ordersList .none ⟨⟨by decide, by decide, by decide⟩, trivial⟩ (by simp) fieldKey_i .eq1
    (.bare _) plainLit_2 plainKey_t fieldKey_s .eq1 (.bare _) plainLit_B plainKey_q rfl (by decide) (by decide) orders_inner
  refine ⟨n, fun fuel hf => ?_⟩
  have := h fuel hf
  rw [show chainedLists ['i'] ['t'] (condTest ['=', '='] (.str ['2'])) ['s'] ['q'] (condTest ['=', '='] (.str ['B'])) ordersList
      = [[.str ['3']], [.str ['6'], .str ['7']]] by decide] at this
  exact this

/-- the four cases of `C06_chained_first_cases` through the model: no match, one parent / one record (three levels
unwrapped), one parent / two records (one level), several parents -/
example : (XPath.first 80 orders ['o', '[', 'i', '=', '9', ']', '/', 't', '[', 's', '=', 'B', ']', '/', 'q'] (.str ['D'])).2 = .ok (.str ['D']) := by
  decide +kernel
example : (XPath.first 80 orders ['o', '[', 'i', '=', '1', ']', '/', 't', '[', 's', '=', 'B', ']', '/', 'q'] .none).2 = .ok (.str ['2']) := by
  decide +kernel
example : (XPath.first 80 orders ['o', '[', 'i', '=', '2', ']', '/', 't', '[', 's', '=', 'C', ']', '/', 'q'] .none).2 = .ok (.str ['4']) := by
  decide +kernel
example : (XPath.first 80 orders ['o', '[', 'i', '=', '2', ']', '/', 't', '[', 'q', '~', '\'', '\'', ']', '/', 'q'] .none).2
    = .ok (.list .n0 [.list .n0 [.str ['3'], .str ['4']], .str ['5'], .list .n0 [.str ['6'], .str ['7']]]) := by
  decide +kernel
example : firstOf ([[Val.str ['3']]].map single) Val.none = .str ['3'] := (C06_chained_first_cases _ _ _ []).2.1 rfl
example : firstOf ([[Val.str ['3'], .str ['4']]].map single) Val.none = .list .n0 [.str ['3'], .str ['4']] :=
  (C06_chained_first_cases _ _ (.str ['3']) _).2.2.1 rfl (by decide)

/-- (was an observation, repaired by fix C06-h; outside `InnerRecs`, hence outside the theorems - the property speaks of LISTS OF
RECORDS): an outer record whose `t` is a scalar made the inner predicate step raise `IndexError` ("must be n0dict"), which left
the fan-out loop, so that the whole lookup was a miss although the second order has a matching record.  A single value now simply
does not satisfy the condition: that parent contributes nothing, the other parents are selected. -/
def ordersScalarInner : Val :=
  .dict .n0 [(['o'], .list .plain [
    .dict .plain [(['i'], .str ['1']), (['t'], .str ['x'])],
    .dict .plain [(['i'], .str ['1']), (['t'], .list .plain [.dict .plain [(['s'], .str ['B']), (['q'], .str ['4'])]])]])]
theorem C06_scalar_inner_example :
    (XPath.get 80 ordersScalarInner ['o', '[', 'i', '=', '1', ']', '/', 't', '[', 's', '=', 'B', ']', '/', 'q'] (.str ['D'])).2
      = .ok (.list .n0 [.list .n0 [.str ['4']]])
    ∧ (XPath.getItem 80 ordersScalarInner ['o', '[', 'i', '=', '1', ']', '/', 't', '[', 's', '=', 'B', ']', '/', 'q']).2
      = .ok (.list .n0 [.list .n0 [.str ['4']]])
    ∧ (XPath.first 80 ordersScalarInner ['o', '[', 'i', '=', '1', ']', '/', 't', '[', 's', '=', 'B', ']', '/', 'q'] (.str ['D'])).2
      = .ok (.str ['4']) := by
  decide +kernel

/-! ## n0list-rooted record lists (fix C06-f)

The record list is itself the root container (an `n0list` of dict records; `P` is the empty path).  Before the fix
`n0list._find` handed a dict element to `n0dict._find` with the ELEMENT as `self`, so that the `'..'` of a (rewritten)
condition resolved the text `/[j]/k` inside the element: every predicate on a list root missed, except by accident on
element 0; a condition written on the root list raised "Impossible to have complex index for lists", the shorthand `/f` was
NOT FOUND. -/

/-- **C06 (fan-out, the root list is the record list).**  For an n0list `rs` of dict records, `[*]/f`, `/[*]/f` and the
shorthand `/f` return `[r[f] for r in rs if f in r]` through `get`, item access and `first`; the list is unchanged. -/
theorem C06_star_list_root (lc : Cls) (rs : List Val) (f : Str) (d : Val) (hf : PlainKey f) (hrs : ∀ r ∈ rs, isDict r = true)
    (fuel : Nat) (hfuel : fuel ≥ rs.length + 6) :
    ∀ xp ∈ [bracket ['*'] ++ slash ++ f, slash ++ bracket ['*'] ++ slash ++ f, slash ++ f],
      XPath.get fuel (.list lc rs) xp d = (.list lc rs, .ok (selected (selectF f rs) d)) ∧
      getItem fuel (.list lc rs) xp = (.list lc rs, selectedItem (selectF f rs)) ∧
      first fuel (.list lc rs) xp d = (.list lc rs, .ok (firstOf (selectF f rs) d)) := by
  intro xp hxp
  simp only [List.mem_cons, List.not_mem_nil, or_false] at hxp
  have hg1 : GoodG [.br ['*'], .key f] := ⟨sel2_gBr_star, hf.gKey, trivial⟩
  have hg2 : GoodG [.key f] := ⟨hf.gKey, trivial⟩
  have hsel := fun rl => xa_star_list_root lc rs rl f hrs hf fuel hfuel
  rw [← selectF_eq]
  rcases hxp with rfl | rfl | rfl
  · refine xa_select_api lc rs _ [bracket ['*'], f] _ d fuel (by simp [bracket, startsWith]) (by simp [hasPathChar, bracket]) ?_
      (fun rl => hsel rl _ (by simp))
    have := sel3_tokenize_render_br ['*'] [.key f] hg1
    simpa [sel2Render, sel2RenderSeg, sel2Toks, bracket, slash] using this
  · refine xa_select_api lc rs _ [bracket ['*'], f] _ d fuel (by simp [slash, startsWith]) (by simp [hasPathChar, slash]) ?_
      (fun rl => hsel rl _ (by simp))
    have := sel2_tokenize [.br ['*'], .key f] hg1
    simpa [sel2Render, sel2RenderSeg, sel2Toks, bracket, slash] using this
  · refine xa_select_api lc rs _ [f] _ d fuel (by simp [slash, startsWith]) (by simp [hasPathChar, slash]) ?_
      (fun rl => hsel rl _ (by simp))
    have := sel2_tokenize [.key f] hg2
    rw [show sel2Render [.key f] = '/' :: f by simp [sel2Render, sel2RenderSeg], tokenize_slash] at this
    simpa [sel2Toks, slash] using this

/-- **C06 (predicates, the root list is the record list).**  For an n0list `rs` of dict records, `[k op v]/f`, `/[k op v]/f`
(a condition written on the root list itself), `k[text() op v]/../f` and `/k[text() op v]/../f` - any operator and literal
spelling - return `f` of exactly the records that have `k` and whose `k` passes the comparison, in list order, through `get`,
item access and `first`; the list is unchanged.  (`'..'` resolves the text `/[j]` again from the ROOT list: `self` of the
dict-side search is the list the lookup started from.) -/
theorem C06_pred_list_root (lc : Cls) (rs : List Val) (k f opx op vq v : Str) (d : Val)
    (hk : FieldKey k) (hf : PlainKey f) (hop : OpSpell opx op) (hlit : LitSpell vq v) (hv : PlainLit v)
    (hrs : ∀ r ∈ rs, isDict r = true) (hg : ComparableK k v rs) (fuel : Nat) (hfuel : fuel ≥ rs.length + 12) :
    ∀ xp ∈ [bracket (k ++ opx ++ vq) ++ slash ++ f, slash ++ bracket (k ++ opx ++ vq) ++ slash ++ f,
            k ++ bracket (sTextFn ++ opx ++ vq) ++ slash ++ ['.', '.'] ++ slash ++ f,
            slash ++ k ++ bracket (sTextFn ++ opx ++ vq) ++ slash ++ ['.', '.'] ++ slash ++ f],
      XPath.get fuel (.list lc rs) xp d
        = (.list lc rs, .ok (selected (selectWhere k f (condTest op (.str v)) rs) d)) ∧
      getItem fuel (.list lc rs) xp = (.list lc rs, selectedItem (selectWhere k f (condTest op (.str v)) rs)) ∧
      first fuel (.list lc rs) xp d = (.list lc rs, .ok (firstOf (selectWhere k f (condTest op (.str v)) rs) d)) := by
  intro xp hxp
  simp only [List.mem_cons, List.not_mem_nil, or_false] at hxp
  have hg1 : GoodG [.br (k ++ opx ++ vq), .key f] := ⟨sel2_gBr_cond k opx op vq v hk.cond hop hlit hv, hf.gKey, trivial⟩
  have hg2 : GoodG [.key k, .br (sTextFn ++ opx ++ vq), .key ['.', '.'], .key f] :=
    ⟨hk.plain.gKey, sel2_gBr_cond sTextFn opx op vq v condKey_text hop hlit hv, sel2_gKey_up, hf.gKey, trivial⟩
  have hsel := fun rl => xa_pred_list_root lc rs rl k f opx op vq v hk hf hop hlit hv hrs hg.guard fuel hfuel
  rw [← selectWhere_eq]
  rcases hxp with rfl | rfl | rfl | rfl
  · refine xa_select_api lc rs _ [bracket (k ++ opx ++ vq), f] _ d fuel (by simp [bracket, startsWith])
      (by simp [hasPathChar, bracket]) ?_ (fun rl => hsel rl _ (by simp))
    have := sel3_tokenize_render_br (k ++ opx ++ vq) [.key f] hg1
    simpa [sel2Render, sel2RenderSeg, sel2Toks, bracket, slash] using this
  · refine xa_select_api lc rs _ [bracket (k ++ opx ++ vq), f] _ d fuel (by simp [slash, startsWith])
      (by simp [hasPathChar, slash]) ?_ (fun rl => hsel rl _ (by simp))
    have := sel2_tokenize [.br (k ++ opx ++ vq), .key f] hg1
    simpa [sel2Render, sel2RenderSeg, sel2Toks, bracket, slash] using this
  · refine xa_select_api lc rs _ [k ++ bracket (sTextFn ++ opx ++ vq), ['.', '.'], f] _ d fuel
      (by simpa [List.append_assoc] using hk.plain.head_ne_q (bracket (sTextFn ++ opx ++ vq) ++ slash ++ ['.', '.'] ++ slash ++ f))
      (by simp [hasPathChar, slash]) ?_ (fun rl => hsel rl _ (by simp))
    have := sel3_tokenize_render_key k [.br (sTextFn ++ opx ++ vq), .key ['.', '.'], .key f] hg2
    simpa [sel2Render, sel2RenderSeg, sel2Toks, bracket, slash, List.append_assoc] using this
  · refine xa_select_api lc rs _ [k ++ bracket (sTextFn ++ opx ++ vq), ['.', '.'], f] _ d fuel (by simp [slash, startsWith])
      (by simp [hasPathChar, slash]) ?_ (fun rl => hsel rl _ (by simp))
    have := sel2_tokenize [.key k, .br (sTextFn ++ opx ++ vq), .key ['.', '.'], .key f] hg2
    rw [show sel2Render [.key k, .br (sTextFn ++ opx ++ vq), .key ['.', '.'], .key f]
        = '/' :: (k ++ sel2Render [.br (sTextFn ++ opx ++ vq), .key ['.', '.'], .key f]) by simp [sel2Render, sel2RenderSeg],
      tokenize_slash] at this
    simpa [sel2Render, sel2RenderSeg, sel2Toks, bracket, slash, List.append_assoc] using this

/-- the audit's witnesses on list roots, through the model: the flat record list `[{k: 1, f: a}, {k: 2, f: b}]` (a condition on
the root list, `[*][k=2]`, the text() form, '..' from a field back to the record) and the orders list (an indexed / starred /
conditioned `P` in front of an inner predicate: '..' comes back to the right parent) -/
def flatList : List Val :=
  [.dict .n0 [(['k'], .str ['1']), (['f'], .str ['a'])], .dict .n0 [(['k'], .str ['2']), (['f'], .str ['b'])]]
def flatRoot : Val := .list .n0 flatList
def ordersRoot : Val :=
  .list .n0 [
    .dict .n0 [(['i'], .str ['1']), (['t'], .list .n0 [.dict .n0 [(['s'], .str ['A']), (['q'], .int 1)], .dict .n0 [(['s'], .str ['B']), (['q'], .int 2)]])],
    .dict .n0 [(['i'], .str ['2']), (['t'], .list .n0 [.dict .n0 [(['s'], .str ['B']), (['q'], .int 3)]])]]
theorem C06_list_root_example :
    (XPath.getItem 60 flatRoot ['[', 'k', '=', '2', ']', '/', 'f']).2 = .ok (.list .n0 [.str ['b']]) ∧
    (XPath.getItem 60 flatRoot ['[', '*', ']', '[', 'k', '=', '2', ']', '/', 'f']).2 = .ok (.list .n0 [.str ['b']]) ∧
    (XPath.getItem 60 flatRoot ['[', '*', ']', '/', 'k', '[', 't', 'e', 'x', 't', '(', ')', '=', '2', ']', '/', '.', '.', '/', 'f']).2
      = .ok (.list .n0 [.str ['b']]) ∧
    (XPath.getItem 60 flatRoot ['[', '1', ']', '/', 'k', '/', '.', '.', '/', 'f']).2 = .ok (.str ['b']) ∧
    (XPath.getItem 60 flatRoot ['/', 'f']).2 = .ok (.list .n0 [.str ['a'], .str ['b']]) ∧
    (XPath.getItem 80 ordersRoot ['[', '1', ']', '/', 't', '[', 's', '=', 'B', ']', '/', 'q']).2 = .ok (.list .n0 [.int 3]) ∧
    (XPath.getItem 80 ordersRoot ['[', '*', ']', '/', 't', '[', 's', '=', 'B', ']', '/', 'q']).2
      = .ok (.list .n0 [.list .n0 [.int 2], .list .n0 [.int 3]]) ∧
    (XPath.getItem 80 ordersRoot ['[', 'i', '=', '2', ']', '/', 't', '[', 's', '=', 'B', ']', '/', 'q']).2
      = .ok (.list .n0 [.list .n0 [.int 3]]) := by
  decide +kernel
/-- … and through the theorems -/
example : (XPath.get 20 flatRoot ['[', 'k', '=', '2', ']', '/', 'f'] .none) = (flatRoot, .ok (.list .n0 [.str ['b']])) := by
  have := (C06_pred_list_root .n0 flatList ['k'] ['f'] ['='] _ _ ['2'] .none fieldKey_k plainKey_f .eq1 (.bare ['2'])
    ⟨by decide, by decide, by decide⟩ (by decide) (by decide) 20 (by decide) _ (List.mem_cons_self ..)).1
  rw [show selectWhere ['k'] ['f'] (condTest ['=', '='] (.str ['2'])) flatList = [.str ['b']] by decide] at this
  exact this
example : (XPath.first 20 flatRoot ['/', 'f'] .none) = (flatRoot, .ok (.list .n0 [.str ['a'], .str ['b']])) :=
  (C06_star_list_root .n0 flatList ['f'] .none plainKey_f (by decide) 20 (by decide) _ (by simp [slash])).2.2

/-! ## a record list deeper in an n0list-rooted tree (worker `c06deep`)

The root container is an `n0list`, the record list sits at a canonical position `P` below it, so `P` starts with an index
(`[2]/a/b`, `[0][1]`, `[1]/c[0]`, …; unbounded depth).  `n0list._find` walks the leading index tokens (through nested lists),
hands the first dict element to `n0dict._find` with `self` = the ROOT list (fix C06-f), and - when `P` consists of indexes
only - is still the searching side when the record list is reached (its own `[*]` loop; a name or a condition is handed over).
`xld_walk` (Proofs/XPathListDeep.lean) is the walk; the tree-level lemmas behind `C06_star` / `C06_pred` do the rest. -/

/-- **C06 (fan-out, record list below a list root).**  For an n0list root and the list `rs` of dict records at the canonical
position `P = [n]…` below it, `P[*]/f` and the shorthand `P/f` - written with or without the leading '/' - return
`[r[f] for r in rs if f in r]` through `get` (the default when empty), item access (`IndexError` when empty) and `first` (a single
match unwrapped); the tree is unchanged. -/
theorem C06_star_list_deep (cls : Cls) (xs : List Val) (n : Nat) (rest : Pos) (f : Str) (lc : Cls) (rs : List Val) (d : Val)
    (hp : PlainPos rest) (hf : PlainKey f) (hget : getAt (.list cls xs) (.idx n :: rest) = some (.list lc rs))
    (hrs : ∀ r ∈ rs, isDict r = true) :
    ∃ N, ∀ fuel ≥ N, ∀ lead ∈ [[], slash],
      ∀ xp ∈ [lead ++ renderPos (.idx n :: rest) ++ bracket ['*'] ++ slash ++ f, lead ++ renderPos (.idx n :: rest) ++ slash ++ f],
        XPath.get fuel (.list cls xs) xp d = (.list cls xs, .ok (selected (selectF f rs) d)) ∧
        getItem fuel (.list cls xs) xp = (.list cls xs, selectedItem (selectF f rs)) ∧
        first fuel (.list cls xs) xp d = (.list cls xs, .ok (firstOf (selectF f rs) d)) := by
  refine ⟨2 * (Seg.idx n :: rest).length + rs.length + 6, fun fuel hfuel lead hlead xp hxp => ?_⟩
  have := xld_star_api cls xs (.idx n :: rest) f lc rs d hp ⟨n, rest, rfl⟩ hf hget hrs fuel hfuel lead hlead xp hxp
  simp only [selectF_eq] at this
  exact this

/-- **C06 (predicates, record list below a list root).**  For an n0list root and the list `rs` of dict records at the canonical
position `P = [n]…` below it, `P[k op v]/f` and `P/k[text() op v]/../f` - any operator and literal spelling, with or without the
leading '/' - return `f` of exactly the records that have `k` and whose `k` passes the comparison, in list order, through `get`,
item access and `first`; the tree is unchanged.  (The `'..'` of the rewritten condition splits the `found` text - the canonical
path of `P[j]/k`, which starts with the index of the root list - and resolves `P[j]` again from the root list.) -/
theorem C06_pred_list_deep (cls : Cls) (xs : List Val) (n : Nat) (rest : Pos) (k f opx op vq v : Str) (lc : Cls) (rs : List Val)
    (d : Val) (hp : PlainPos rest) (hk : FieldKey k) (hf : PlainKey f) (hop : OpSpell opx op) (hlit : LitSpell vq v)
    (hv : PlainLit v) (hget : getAt (.list cls xs) (.idx n :: rest) = some (.list lc rs)) (hrs : ∀ r ∈ rs, isDict r = true)
    (hg : ComparableK k v rs) :
    ∃ N, ∀ fuel ≥ N, ∀ lead ∈ [[], slash],
      ∀ xp ∈ [lead ++ renderPos (.idx n :: rest) ++ bracket (k ++ opx ++ vq) ++ slash ++ f,
              lead ++ renderPos (.idx n :: rest) ++ slash ++ k ++ bracket (sTextFn ++ opx ++ vq) ++ slash ++ ['.', '.'] ++ slash ++ f],
        XPath.get fuel (.list cls xs) xp d
          = (.list cls xs, .ok (selected (selectWhere k f (condTest op (.str v)) rs) d)) ∧
        getItem fuel (.list cls xs) xp = (.list cls xs, selectedItem (selectWhere k f (condTest op (.str v)) rs)) ∧
        first fuel (.list cls xs) xp d = (.list cls xs, .ok (firstOf (selectWhere k f (condTest op (.str v)) rs) d)) := by
  refine ⟨6 * (Seg.idx n :: rest).length + rs.length + 14, fun fuel hfuel lead hlead xp hxp => ?_⟩
  have := xld_pred_api cls xs (.idx n :: rest) k f opx op vq v lc rs d hp ⟨n, rest, rfl⟩ hk hf hop hlit hv hget hrs hg.guard
    fuel hfuel lead hlead xp hxp
  simp only [selectWhere_eq] at this
  exact this

/-- a list-rooted tree with the flat record list at three positions: `[1]/a/b` (ends in a key: the tokens are `[1]`, `a`,
`b[*]` / `b[k=2]`), `[1]/c[0]` (an index below a key) and `[2][1]` (indexes only: `n0list._find` reaches the record list itself) -/
def deepListRoot : Val :=
  .list .n0 [.str ['p'],
    .dict .n0 [(['a'], .dict .n0 [(['b'], .list .n0 flatList)]), (['c'], .list .n0 [.list .n0 flatList])],
    .list .n0 [.str ['z'], .list .n0 flatList]]

/-- the model on the paths evaluated with the real code (`n0dict.convert_recursively(['p', {'a': {'b': R}, 'c': [R]}, ['z', R]])`,
`R = [{'k':'1','f':'a'},{'k':'2','f':'b'}]`; the implementation returns the same values) -/
theorem C06_star_list_deep_example :
    (XPath.getItem 80 deepListRoot ['[', '1', ']', '/', 'a', '/', 'b', '[', '*', ']', '/', 'f']).2
      = .ok (.list .n0 [.str ['a'], .str ['b']]) ∧
    (XPath.getItem 80 deepListRoot ['/', '[', '1', ']', '/', 'a', '/', 'b', '/', 'f']).2 = .ok (.list .n0 [.str ['a'], .str ['b']]) ∧
    (XPath.getItem 80 deepListRoot ['[', '2', ']', '[', '1', ']', '[', '*', ']', '/', 'f']).2
      = .ok (.list .n0 [.str ['a'], .str ['b']]) ∧
    (XPath.getItem 80 deepListRoot ['[', '2', ']', '[', '1', ']', '/', 'f']).2 = .ok (.list .n0 [.str ['a'], .str ['b']]) ∧
    (XPath.getItem 80 deepListRoot ['/', '[', '1', ']', '/', 'c', '[', '0', ']', '/', 'f']).2
      = .ok (.list .n0 [.str ['a'], .str ['b']]) := by
  decide +kernel
theorem C06_pred_list_deep_example :
    (XPath.getItem 80 deepListRoot ['[', '1', ']', '/', 'a', '/', 'b', '[', 'k', '=', '2', ']', '/', 'f']).2 = .ok (.list .n0 [.str ['b']]) ∧
    (XPath.first 80 deepListRoot ['[', '1', ']', '/', 'a', '/', 'b', '/', 'k', '[', 't', 'e', 'x', 't', '(', ')', '=', '2', ']', '/', '.', '.', '/', 'f']
      (.str ['D'])).2 = .ok (.str ['b']) ∧
    (XPath.getItem 80 deepListRoot ['[', '2', ']', '[', '1', ']', '[', 'k', '=', '2', ']', '/', 'f']).2 = .ok (.list .n0 [.str ['b']]) ∧
    (XPath.getItem 80 deepListRoot ['/', '[', '2', ']', '[', '1', ']', '/', 'k', '[', 't', 'e', 'x', 't', '(', ')', '=', '2', ']', '/', '.', '.', '/', 'f']).2
      = .ok (.list .n0 [.str ['b']]) ∧
    (XPath.getItem 80 deepListRoot ['[', '1', ']', '/', 'c', '[', '0', ']', '[', 'k', '!', '=', '2', ']', '/', 'f']).2
      = .ok (.list .n0 [.str ['a']]) ∧
    (XPath.get 80 deepListRoot ['[', '2', ']', '[', '1', ']', '[', 'k', '=', '3', ']', '/', 'f'] (.str ['D'])).2 = .ok (.str ['D']) ∧
    (XPath.getItem 80 deepListRoot ['[', '2', ']', '[', '1', ']', '[', 'k', '=', '3', ']', '/', 'f']).2 = .error .IndexError := by
  decide +kernel
/-- … and through the theorems (non-vacuity): `[2][1][k=2]/f` (indexes only) and `[1]/a/b[*]/f`, `/[1]/a/b/f` (merged last token) -/
example : ∃ N, ∀ fuel ≥ N,
    (XPath.get fuel deepListRoot ['[', '2', ']', '[', '1', ']', '[', 'k', '=', '2', ']', '/', 'f'] .none)
      = (deepListRoot, .ok (.list .n0 [.str ['b']])) := by
  obtain ⟨N, h⟩ := C06_pred_list_deep .n0 _ 2 [.idx 1] ['k'] ['f'] ['='] _ _ ['2'] .n0 flatList .none trivial fieldKey_k plainKey_f
    .eq1 (.bare ['2']) ⟨by decide, by decide, by decide⟩ (show getAt deepListRoot [.idx 2, .idx 1] = some (.list .n0 flatList) by decide)
    (by decide) (by decide)
  refine ⟨N, fun fuel hfuel => ?_⟩
  have := (h fuel hfuel [] (by simp) _ (List.mem_cons_self ..)).1
  rw [show selectWhere ['k'] ['f'] (condTest ['=', '='] (.str ['2'])) flatList = [.str ['b']] by decide] at this
  exact this
example : ∃ N, ∀ fuel ≥ N,
    (XPath.getItem fuel deepListRoot ['[', '1', ']', '/', 'a', '/', 'b', '[', '*', ']', '/', 'f'])
      = (deepListRoot, .ok (.list .n0 [.str ['a'], .str ['b']])) ∧
    (XPath.first fuel deepListRoot ['/', '[', '1', ']', '/', 'a', '/', 'b', '/', 'f'] .none)
      = (deepListRoot, .ok (.list .n0 [.str ['a'], .str ['b']])) := by
  obtain ⟨N, h⟩ := C06_star_list_deep .n0 _ 1 [.key ['a'], .key ['b']] ['f'] .n0 flatList .none
    ⟨plainKey_a, ⟨by decide, by decide, by decide⟩, trivial⟩ plainKey_f
    (show getAt deepListRoot [.idx 1, .key ['a'], .key ['b']] = some (.list .n0 flatList) by decide) (by decide)
  refine ⟨N, fun fuel hfuel => ⟨?_, ?_⟩⟩
  · exact (h fuel hfuel [] (by simp) _ (List.mem_cons_self ..)).2.1
  · exact (h fuel hfuel slash (by simp) _ (List.mem_cons_of_mem _ (List.mem_cons_self ..))).2.2

/-! ### … with the position `P` of the record list in ANY spelling (worker `c06spell`)

`P = renderSp lead steps`: prefix none, `/` or `//`; every index written as `i`, `-k`, `last()`, `last()-k` or `i+j`, attached
(`a[1]`, `[2][1]`) or as a step of its own (`a/[1]`, `[2]/[1]`); `stepsGet` is plain Python indexing along the steps (negative
indexes from the end).  The root being a list, the first step is an index.  Lemmas: `Proofs/XPathListDeepSp.lean`. -/

/-- **C06 (fan-out, record list below a list root, any spelling, string level).**  For an n0list root and any spelling of a path
that plain Python indexing follows from the root to the list `rs` of dict records, `P[*]/f` and the shorthand `P/f` return
`[r[f] for r in rs if f in r]` through `get` (the default when empty), item access (`IndexError` when empty) and `first` (a single
match unwrapped); the tree is unchanged. -/
theorem C06_star_list_deep_spelled (cls : Cls) (xs : List Val) (lead : Lead) (steps : List StepSp) (f : Str) (lc : Cls)
    (rs : List Val) (d : Val) (hp : PlainSteps steps) (hne : steps ≠ [])
    (hget : stepsGet (.list cls xs) steps = some (.list lc rs)) (hf : PlainKey f) (hrs : ∀ r ∈ rs, isDict r = true)
    (fuel : Nat) (hfuel : fuel ≥ 2 * steps.length + rs.length + 6) :
    ∀ xp ∈ [renderSp lead steps ++ bracket ['*'] ++ slash ++ f, renderSp lead steps ++ slash ++ f],
      XPath.get fuel (.list cls xs) xp d = (.list cls xs, .ok (selected (selectF f rs) d)) ∧
      getItem fuel (.list cls xs) xp = (.list cls xs, selectedItem (selectF f rs)) ∧
      first fuel (.list cls xs) xp d = (.list cls xs, .ok (firstOf (selectF f rs) d)) := by
  intro xp hxp
  have := xlds_star_string cls xs lead steps f lc rs d hp hne hget hf hrs fuel hfuel xp hxp
  simp only [selectF_eq] at this
  exact this

/-- **C06 (predicates, record list below a list root, any spelling, string level).**  As above for `P[k op v]/f` and
`P/k[text() op v]/../f` - any operator and literal spelling: `f` of exactly the records that have `k` and whose `k` passes the
comparison, in list order, through `get`, item access and `first`; the tree is unchanged.  (The `'..'` re-resolves the text the
walk has written - evaluated indexes: `[last()]` comes back as `/[-1]` - from the root list.) -/
theorem C06_pred_list_deep_spelled (cls : Cls) (xs : List Val) (lead : Lead) (steps : List StepSp)
    (k f opx op vq v : Str) (lc : Cls) (rs : List Val) (d : Val) (hp : PlainSteps steps) (hne : steps ≠ [])
    (hget : stepsGet (.list cls xs) steps = some (.list lc rs)) (hk : FieldKey k) (hf : PlainKey f) (hop : OpSpell opx op)
    (hlit : LitSpell vq v) (hv : PlainLit v) (hrs : ∀ r ∈ rs, isDict r = true) (hg : ComparableK k v rs)
    (fuel : Nat) (hfuel : fuel ≥ 6 * steps.length + rs.length + 14) :
    ∀ xp ∈ [renderSp lead steps ++ bracket (k ++ opx ++ vq) ++ slash ++ f,
            renderSp lead steps ++ slash ++ k ++ bracket (sTextFn ++ opx ++ vq) ++ slash ++ ['.', '.'] ++ slash ++ f],
      XPath.get fuel (.list cls xs) xp d
        = (.list cls xs, .ok (selected (selectWhere k f (condTest op (.str v)) rs) d)) ∧
      getItem fuel (.list cls xs) xp = (.list cls xs, selectedItem (selectWhere k f (condTest op (.str v)) rs)) ∧
      first fuel (.list cls xs) xp d = (.list cls xs, .ok (firstOf (selectWhere k f (condTest op (.str v)) rs) d)) := by
  intro xp hxp
  have := xlds_pred_string cls xs lead steps k f opx op vq v lc rs d hp hne hget hk hf hop hlit hv hrs hg.guard fuel hfuel xp hxp
  simp only [selectWhere_eq] at this
  exact this

/-- spellings of the three positions of `flatList` in `deepListRoot`: `[-2]/a/b`, `[last()]/[1]`, `[0+1]/c[-1]` -/
def deepSpA : List StepSp := [.idx (.neg 2) false, .key ['a'], .key ['b']]
def deepSpL : List StepSp := [.idx .last true, .idx (.lit 1) true]
def deepSpC : List StepSp := [.idx (.plus 0 1) false, .key ['c'], .idx (.neg 1) false]
example : renderSp .rel deepSpA = ['[', '-', '2', ']', '/', 'a', '/', 'b'] := by decide
example : renderSp .one deepSpL = ['/', '[', 'l', 'a', 's', 't', '(', ')', ']', '/', '[', '1', ']'] := by decide
example : renderSp .two deepSpC = ['/', '/', '[', '0', '+', '1', ']', '/', 'c', '[', '-', '1', ']'] := by decide

/-- the model on such spellings, evaluated with the real code (same tree as `C06_star_list_deep_example`; the implementation
returns the same values): `[-2]/a/b[*]/f`, `//[-2]/a/b/f`, `/[last()]/[1][k=2]/f`, `[-1][last()]/k[text()=2]/../f`,
`//[0+1]/c[-1][k!=2]/f`, and the miss `/[last()]/[1][k=3]/f` -/
theorem C06_list_deep_spelled_example :
    (XPath.getItem 80 deepListRoot ['[', '-', '2', ']', '/', 'a', '/', 'b', '[', '*', ']', '/', 'f']).2
      = .ok (.list .n0 [.str ['a'], .str ['b']]) ∧
    (XPath.getItem 80 deepListRoot ['/', '/', '[', '-', '2', ']', '/', 'a', '/', 'b', '/', 'f']).2
      = .ok (.list .n0 [.str ['a'], .str ['b']]) ∧
    (XPath.getItem 80 deepListRoot ['/', '[', 'l', 'a', 's', 't', '(', ')', ']', '/', '[', '1', ']', '[', 'k', '=', '2', ']', '/', 'f']).2
      = .ok (.list .n0 [.str ['b']]) ∧
    (XPath.first 80 deepListRoot ['[', '-', '1', ']', '[', 'l', 'a', 's', 't', '(', ')', ']', '/', 'k', '[', 't', 'e', 'x', 't', '(', ')', '=', '2', ']',
      '/', '.', '.', '/', 'f'] (.str ['D'])).2 = .ok (.str ['b']) ∧
    (XPath.getItem 80 deepListRoot ['/', '/', '[', '0', '+', '1', ']', '/', 'c', '[', '-', '1', ']', '[', 'k', '!', '=', '2', ']', '/', 'f']).2
      = .ok (.list .n0 [.str ['a']]) ∧
    (XPath.get 80 deepListRoot ['/', '[', 'l', 'a', 's', 't', '(', ')', ']', '/', '[', '1', ']', '[', 'k', '=', '3', ']', '/', 'f'] (.str ['D'])).2
      = .ok (.str ['D']) ∧
    (XPath.getItem 80 deepListRoot ['/', '[', 'l', 'a', 's', 't', '(', ')', ']', '/', '[', '1', ']', '[', 'k', '=', '3', ']', '/', 'f']).2
      = .error .IndexError := by
  decide +kernel
/-- … and through the theorems (non-vacuity): `[-2]/a/b[*]/f` and `[-2]/a/b/f` (merged last token `b[*]`) -/
example : ∀ xp ∈ [renderSp .rel deepSpA ++ bracket ['*'] ++ slash ++ ['f'], renderSp .rel deepSpA ++ slash ++ ['f']],
    XPath.getItem 40 deepListRoot xp = (deepListRoot, .ok (.list .n0 [.str ['a'], .str ['b']])) := by
  intro xp hxp
  exact ((C06_star_list_deep_spelled .n0 _ .rel deepSpA ['f'] .n0 flatList .none ⟨plainKey_a, ⟨by decide, by decide, by decide⟩, trivial⟩
    (by simp [deepSpA]) (show stepsGet deepListRoot deepSpA = some (.list .n0 flatList) by decide) plainKey_f (by decide) 40
    (by decide)) xp hxp).2.1
/-- `/[last()]/[1][k=2]/f` and `/[last()]/[1]/k[text()=2]/../f` (indexes only, each a step of its own, the first one `last()`) -/
example : ∀ xp ∈ [renderSp .one deepSpL ++ bracket (['k'] ++ ['='] ++ ['2']) ++ slash ++ ['f'],
                  renderSp .one deepSpL ++ slash ++ ['k'] ++ bracket (sTextFn ++ ['='] ++ ['2']) ++ slash ++ ['.', '.'] ++ slash ++ ['f']],
    XPath.first 60 deepListRoot xp (.str ['D']) = (deepListRoot, .ok (.str ['b'])) := by
  intro xp hxp
  have := (C06_pred_list_deep_spelled .n0 _ .one deepSpL ['k'] ['f'] ['='] _ _ ['2'] .n0 flatList (.str ['D']) trivial
    (by simp [deepSpL]) (show stepsGet deepListRoot deepSpL = some (.list .n0 flatList) by decide) fieldKey_k plainKey_f .eq1
    (.bare ['2']) ⟨by decide, by decide, by decide⟩ (by decide) (by decide) 60 (by decide) xp hxp).2.2
  rw [show selectWhere ['k'] ['f'] (condTest ['=', '='] (.str ['2'])) flatList = [.str ['b']] by decide] at this
  exact this
/-- `//[0+1]/c[-1][k!=2]/f` (an attached negative index below a key, the condition a token of its own) -/
example : XPath.get 60 deepListRoot (renderSp .two deepSpC ++ bracket (['k'] ++ ['!', '='] ++ ['2']) ++ slash ++ ['f']) .none
    = (deepListRoot, .ok (.list .n0 [.str ['a']])) := by
  have := (C06_pred_list_deep_spelled .n0 _ .two deepSpC ['k'] ['f'] ['!', '='] _ _ ['2'] .n0 flatList .none
    ⟨⟨by decide, by decide, by decide⟩, trivial⟩
    (by simp [deepSpC]) (show stepsGet deepListRoot deepSpC = some (.list .n0 flatList) by decide) fieldKey_k plainKey_f .ne
    (.bare ['2']) ⟨by decide, by decide, by decide⟩ (by decide) (by decide) 60 (by decide) _ (List.mem_cons_self ..)).1
  rw [show selectWhere ['k'] ['f'] (condTest ['!', '='] (.str ['2'])) flatList = [.str ['a']] by decide] at this
  exact this

/-- **C06 (chained selections, record list below a list root).**  For an n0list root and the list `rs` of dict records at the
canonical position `P = [n]…` below it, `P[k1 op v1]/items[k2 op v2]/f` (with or without the leading '/'): `get` and item access
return the list of per-parent contributions (`selectChainedG true`; equal to the nested lists of `selectChained` when every
`items` is a list - `selectChainedG_lists`), the default / `IndexError` when there is none; `first` returns `firstOf` of the
`return_lists=False` contributions; the tree is unchanged.  The inner condition's `'..'` comes back to the right parent: the
`found` text starts with the index of the root list and is resolved from the root list. -/
theorem C06_chained_list_deep (cls : Cls) (xs : List Val) (n : Nat) (rest : Pos)
    (k1 opx1 op1 vq1 v1 items k2 opx2 op2 vq2 v2 f : Str) (lc : Cls) (rs : List Val) (d : Val)
    (hp : PlainPos rest) (hk1 : FieldKey k1) (hop1 : OpSpell opx1 op1) (hlit1 : LitSpell vq1 v1) (hv1 : PlainLit v1)
    (hitems : PlainKey items) (hk2 : FieldKey k2) (hop2 : OpSpell opx2 op2) (hlit2 : LitSpell vq2 v2) (hv2 : PlainLit v2)
    (hf : PlainKey f) (hget : getAt (.list cls xs) (.idx n :: rest) = some (.list lc rs)) (hrs : ∀ r ∈ rs, isDict r = true)
    (hg : ComparableK k1 v1 rs) (hin : InnerRecs items k2 v2 rs) :
    ∃ N, ∀ fuel ≥ N, ∀ lead ∈ [[], slash],
      let xp := lead ++ renderPos (.idx n :: rest) ++ bracket (k1 ++ opx1 ++ vq1) ++ slash ++ items ++ bracket (k2 ++ opx2 ++ vq2)
        ++ slash ++ f
      let valsT := selectChainedG true k1 items (condTest op1 (.str v1)) k2 f (condTest op2 (.str v2)) rs
      let valsF := selectChainedG false k1 items (condTest op1 (.str v1)) k2 f (condTest op2 (.str v2)) rs
      XPath.get fuel (.list cls xs) xp d = (.list cls xs, .ok (selected valsT d)) ∧
      getItem fuel (.list cls xs) xp = (.list cls xs, selectedItem valsT) ∧
      first fuel (.list cls xs) xp d = (.list cls xs, .ok (firstOf valsF d)) := by
  refine ⟨10 * (Seg.idx n :: rest).length + rs.length + (rs.map (sel2InnerLen items)).sum + 30, fun fuel hfuel lead hlead => ?_⟩
  have := xld_chained_api cls xs (.idx n :: rest) k1 opx1 op1 vq1 v1 items k2 opx2 op2 vq2 v2 f lc rs d hp ⟨n, rest, rfl⟩ hk1 hop1
    hlit1 hv1 hitems hk2 hop2 hlit2 hv2 hf hget hrs hg.guard hin.ok fuel hfuel lead hlead
  simp only [chainedG_eq] at this
  exact this

/-- **C06 (chained selections, the root list is the outer record list).**  `[k1 op v1]/items[k2 op v2]/f` and
`/[k1 op v1]/items[k2 op v2]/f` on an n0list `rs` of dict records: as `C06_chained_list_deep` with `P` empty. -/
theorem C06_chained_list_root (lc : Cls) (rs : List Val) (k1 opx1 op1 vq1 v1 items k2 opx2 op2 vq2 v2 f : Str) (d : Val)
    (hk1 : FieldKey k1) (hop1 : OpSpell opx1 op1) (hlit1 : LitSpell vq1 v1) (hv1 : PlainLit v1)
    (hitems : PlainKey items) (hk2 : FieldKey k2) (hop2 : OpSpell opx2 op2) (hlit2 : LitSpell vq2 v2) (hv2 : PlainLit v2)
    (hf : PlainKey f) (hrs : ∀ r ∈ rs, isDict r = true) (hg : ComparableK k1 v1 rs) (hin : InnerRecs items k2 v2 rs) :
    ∃ N, ∀ fuel ≥ N, ∀ lead ∈ [[], slash],
      let xp := lead ++ bracket (k1 ++ opx1 ++ vq1) ++ slash ++ items ++ bracket (k2 ++ opx2 ++ vq2) ++ slash ++ f
      let valsT := selectChainedG true k1 items (condTest op1 (.str v1)) k2 f (condTest op2 (.str v2)) rs
      let valsF := selectChainedG false k1 items (condTest op1 (.str v1)) k2 f (condTest op2 (.str v2)) rs
      XPath.get fuel (.list lc rs) xp d = (.list lc rs, .ok (selected valsT d)) ∧
      getItem fuel (.list lc rs) xp = (.list lc rs, selectedItem valsT) ∧
      first fuel (.list lc rs) xp d = (.list lc rs, .ok (firstOf valsF d)) := by
  refine ⟨rs.length + (rs.map (sel2InnerLen items)).sum + 26, fun fuel hfuel lead hlead => ?_⟩
  have := xld_chained_root_api lc rs k1 opx1 op1 vq1 v1 items k2 opx2 op2 vq2 v2 f d hk1 hop1
    hlit1 hv1 hitems hk2 hop2 hlit2 hv2 hf hrs hg.guard hin.ok fuel hfuel lead hlead
  simp only [chainedG_eq] at this
  exact this

/-- the orders list (`ordersRoot`) under a key of a dict element (`[1]/o`) and inside a nested list (`[2][0]`) of a list root -/
def ordersRootList : List Val :=
  [.dict .n0 [(['i'], .str ['1']), (['t'], .list .n0 [.dict .n0 [(['s'], .str ['A']), (['q'], .int 1)], .dict .n0 [(['s'], .str ['B']), (['q'], .int 2)]])],
   .dict .n0 [(['i'], .str ['2']), (['t'], .list .n0 [.dict .n0 [(['s'], .str ['B']), (['q'], .int 3)]])]]
def deepOrdersRoot : Val :=
  .list .n0 [.str ['p'], .dict .n0 [(['o'], .list .n0 ordersRootList)], .list .n0 [.list .n0 ordersRootList]]
example : ordersRoot = .list .n0 ordersRootList := rfl
/-- the model on chained paths run against the implementation (identical values: `[[3]]`, `[[2]]`, `[[2], [3]]` / first `[2, 3]`,
a miss) -/
theorem C06_chained_list_deep_example :
    (XPath.getItem 90 deepOrdersRoot ['[', '1', ']', '/', 'o', '[', 'i', '=', '2', ']', '/', 't', '[', 's', '=', 'B', ']', '/', 'q']).2
      = .ok (.list .n0 [.list .n0 [.int 3]]) ∧
    (XPath.first 90 deepOrdersRoot ['/', '[', '1', ']', '/', 'o', '[', 'i', '=', '2', ']', '/', 't', '[', 's', '=', 'B', ']', '/', 'q'] .none).2
      = .ok (.int 3) ∧
    (XPath.getItem 90 deepOrdersRoot ['[', '2', ']', '[', '0', ']', '[', 'i', '=', '1', ']', '/', 't', '[', 's', '=', 'B', ']', '/', 'q']).2
      = .ok (.list .n0 [.list .n0 [.int 2]]) ∧
    (XPath.getItem 90 deepOrdersRoot ['[', '2', ']', '[', '0', ']', '[', 'i', '!', '=', '9', ']', '/', 't', '[', 's', '=', 'B', ']', '/', 'q']).2
      = .ok (.list .n0 [.list .n0 [.int 2], .list .n0 [.int 3]]) ∧
    (XPath.first 90 deepOrdersRoot ['[', '2', ']', '[', '0', ']', '[', 'i', '!', '=', '9', ']', '/', 't', '[', 's', '=', 'B', ']', '/', 'q'] .none).2
      = .ok (.list .n0 [.int 2, .int 3]) ∧
    (XPath.get 90 deepOrdersRoot ['/', '[', '2', ']', '[', '0', ']', '[', 'i', '=', '9', ']', '/', 't', '[', 's', '=', 'B', ']', '/', 'q'] (.str ['D'])).2
      = .ok (.str ['D']) ∧
    (XPath.first 90 ordersRoot ['/', '[', 'i', '!', '=', '9', ']', '/', 't', '[', 's', '=', 'B', ']', '/', 'q'] .none).2
      = .ok (.list .n0 [.int 2, .int 3]) := by
  decide +kernel
theorem ordersRoot_inner : InnerRecs ['t'] ['s'] ['B'] ordersRootList := by
  intro c kvs' x hm hl
  simp only [ordersRootList, List.mem_cons, List.not_mem_nil, or_false] at hm
  rcases hm with h | h <;> (injection h with _ h2; subst h2; simp [lookup] at hl; subst hl; left; exact ⟨_, _, rfl, by decide, by decide⟩)
/-- … and through the theorems (non-vacuity) -/
example : ∃ N, ∀ fuel ≥ N,
    (XPath.getItem fuel deepOrdersRoot ['[', '2', ']', '[', '0', ']', '[', 'i', '=', '1', ']', '/', 't', '[', 's', '=', 'B', ']', '/', 'q'])
      = (deepOrdersRoot, .ok (.list .n0 [.list .n0 [.int 2]])) ∧
    (XPath.first fuel deepOrdersRoot ['[', '2', ']', '[', '0', ']', '[', 'i', '=', '1', ']', '/', 't', '[', 's', '=', 'B', ']', '/', 'q'] .none)
      = (deepOrdersRoot, .ok (.int 2)) := by
  obtain ⟨N, h⟩ := C06_chained_list_deep .n0 _ 2 [.idx 0] ['i'] ['='] _ _ ['1'] ['t'] ['s'] ['='] _ _ ['B'] ['q'] .n0 ordersRootList .none
    trivial fieldKey_i .eq1 (.bare ['1']) plainLit_1 plainKey_t fieldKey_s .eq1 (.bare ['B']) plainLit_B plainKey_q
    (show getAt deepOrdersRoot [.idx 2, .idx 0] = some (.list .n0 ordersRootList) by decide) (by decide) (by decide) ordersRoot_inner
  refine ⟨N, fun fuel hfuel => ?_⟩
  have := h fuel hfuel [] (by simp)
  simp only at this
  rw [show selectChainedG true ['i'] ['t'] (condTest ['=', '='] (.str ['1'])) ['s'] ['q'] (condTest ['=', '='] (.str ['B'])) ordersRootList
      = [.list .n0 [.int 2]] by decide,
    show selectChainedG false ['i'] ['t'] (condTest ['=', '='] (.str ['1'])) ['s'] ['q'] (condTest ['=', '='] (.str ['B'])) ordersRootList
      = [.int 2] by decide] at this
  exact ⟨this.2.1, this.2.2⟩
example : ∃ N, ∀ fuel ≥ N,
    (XPath.getItem fuel ordersRoot ['/', '[', 'i', '=', '2', ']', '/', 't', '[', 's', '=', 'B', ']', '/', 'q'])
      = (ordersRoot, .ok (.list .n0 [.list .n0 [.int 3]])) := by
  obtain ⟨N, h⟩ := C06_chained_list_root .n0 ordersRootList ['i'] ['='] _ _ ['2'] ['t'] ['s'] ['='] _ _ ['B'] ['q'] .none
    fieldKey_i .eq1 (.bare ['2']) plainLit_2 plainKey_t fieldKey_s .eq1 (.bare ['B']) plainLit_B plainKey_q
    (by decide) (by decide) ordersRoot_inner
  refine ⟨N, fun fuel hfuel => ?_⟩
  have := h fuel hfuel slash (by simp)
  simp only at this
  rw [show selectChainedG true ['i'] ['t'] (condTest ['=', '='] (.str ['2'])) ['s'] ['q'] (condTest ['=', '='] (.str ['B'])) ordersRootList
      = [.list .n0 [.int 3]] by decide] at this
  exact this.2.1

/-- **C06 (chained selections, record list below a list root, any spelling, string level).**  As `C06_chained_list_deep` with the
position `P` of the outer record list in any spelling (`renderSp lead steps`: prefix none, `/` or `//`, indexes as `i`, `-k`,
`last()`, `last()-k`, `i+j`, attached or a step of their own; `stepsGet` = plain Python indexing reaches the list):
`P[k1 op v1]/items[k2 op v2]/f` returns the per-parent contributions through `get` / item access (`return_lists=True`) and
`first` (`return_lists=False`); the tree is unchanged. -/
theorem C06_chained_list_deep_spelled (cls : Cls) (xs : List Val) (lead : Lead) (steps : List StepSp)
    (k1 opx1 op1 vq1 v1 items k2 opx2 op2 vq2 v2 f : Str) (lc : Cls) (rs : List Val) (d : Val)
    (hp : PlainSteps steps) (hne : steps ≠ []) (hget : stepsGet (.list cls xs) steps = some (.list lc rs))
    (hk1 : FieldKey k1) (hop1 : OpSpell opx1 op1) (hlit1 : LitSpell vq1 v1) (hv1 : PlainLit v1)
    (hitems : PlainKey items) (hk2 : FieldKey k2) (hop2 : OpSpell opx2 op2) (hlit2 : LitSpell vq2 v2) (hv2 : PlainLit v2)
    (hf : PlainKey f) (hrs : ∀ r ∈ rs, isDict r = true) (hg : ComparableK k1 v1 rs) (hin : InnerRecs items k2 v2 rs)
    (fuel : Nat) (hfuel : fuel ≥ 10 * steps.length + rs.length + (rs.map (sel2InnerLen items)).sum + 30) :
    let xp := renderSp lead steps ++ bracket (k1 ++ opx1 ++ vq1) ++ slash ++ items ++ bracket (k2 ++ opx2 ++ vq2) ++ slash ++ f
    let valsT := selectChainedG true k1 items (condTest op1 (.str v1)) k2 f (condTest op2 (.str v2)) rs
    let valsF := selectChainedG false k1 items (condTest op1 (.str v1)) k2 f (condTest op2 (.str v2)) rs
    XPath.get fuel (.list cls xs) xp d = (.list cls xs, .ok (selected valsT d)) ∧
    getItem fuel (.list cls xs) xp = (.list cls xs, selectedItem valsT) ∧
    first fuel (.list cls xs) xp d = (.list cls xs, .ok (firstOf valsF d)) := by
  have := xlds_chained_string cls xs lead steps k1 opx1 op1 vq1 v1 items k2 opx2 op2 vq2 v2 f lc rs d hp hne hget hk1 hop1
    hlit1 hv1 hitems hk2 hop2 hlit2 hv2 hf hrs hg.guard hin.ok fuel hfuel
  simp only [chainedG_eq] at this
  exact this

/-- the spelling `/[-1]/[last()]` of the position `[2][0]` of the order list in `deepOrdersRoot` -/
def deepOrdersSp : List StepSp := [.idx (.neg 1) true, .idx .last true]
example : renderSp .one deepOrdersSp = ['/', '[', '-', '1', ']', '/', '[', 'l', 'a', 's', 't', '(', ')', ']'] := by decide
/-- the model on chained paths with spelled `P`, run against the implementation (identical values: `[[2]]` / first `2`, `[[3]]`,
`[[2], [3]]` / first `[2, 3]`, a miss) -/
theorem C06_chained_list_deep_spelled_example :
    (XPath.getItem 90 deepOrdersRoot ['/', '[', '-', '1', ']', '/', '[', 'l', 'a', 's', 't', '(', ')', ']', '[', 'i', '=', '1', ']', '/', 't',
      '[', 's', '=', 'B', ']', '/', 'q']).2 = .ok (.list .n0 [.list .n0 [.int 2]]) ∧
    (XPath.first 90 deepOrdersRoot ['/', '[', '-', '1', ']', '/', '[', 'l', 'a', 's', 't', '(', ')', ']', '[', 'i', '=', '1', ']', '/', 't',
      '[', 's', '=', 'B', ']', '/', 'q'] (.str ['D'])).2 = .ok (.int 2) ∧
    (XPath.getItem 90 deepOrdersRoot ['/', '/', '[', '-', '2', ']', '/', 'o', '[', 'i', '=', '2', ']', '/', 't', '[', 's', '=', 'B', ']', '/', 'q']).2
      = .ok (.list .n0 [.list .n0 [.int 3]]) ∧
    (XPath.first 90 deepOrdersRoot ['[', 'l', 'a', 's', 't', '(', ')', ']', '[', '0', '+', '0', ']', '[', 'i', '!', '=', '9', ']', '/', 't',
      '[', 's', '=', 'B', ']', '/', 'q'] .none).2 = .ok (.list .n0 [.int 2, .int 3]) ∧
    (XPath.get 90 deepOrdersRoot ['/', '[', '-', '1', ']', '/', '[', 'l', 'a', 's', 't', '(', ')', ']', '[', 'i', '=', '9', ']', '/', 't',
      '[', 's', '=', 'B', ']', '/', 'q'] (.str ['D'])).2 = .ok (.str ['D']) := by
  decide +kernel
/-- … and through the theorem (non-vacuity): `/[-1]/[last()][i=1]/t[s=B]/q` -/
example :
    (XPath.getItem 90 deepOrdersRoot (renderSp .one deepOrdersSp ++ bracket (['i'] ++ ['='] ++ ['1']) ++ slash ++ ['t']
        ++ bracket (['s'] ++ ['='] ++ ['B']) ++ slash ++ ['q']))
      = (deepOrdersRoot, .ok (.list .n0 [.list .n0 [.int 2]])) ∧
    (XPath.first 90 deepOrdersRoot (renderSp .one deepOrdersSp ++ bracket (['i'] ++ ['='] ++ ['1']) ++ slash ++ ['t']
        ++ bracket (['s'] ++ ['='] ++ ['B']) ++ slash ++ ['q']) .none)
      = (deepOrdersRoot, .ok (.int 2)) := by
  have := C06_chained_list_deep_spelled .n0 _ .one deepOrdersSp ['i'] ['='] _ _ ['1'] ['t'] ['s'] ['='] _ _ ['B'] ['q'] .n0 ordersRootList
    .none trivial (by simp [deepOrdersSp]) (show stepsGet deepOrdersRoot deepOrdersSp = some (.list .n0 ordersRootList) by decide)
    fieldKey_i .eq1 (.bare ['1']) plainLit_1 plainKey_t fieldKey_s .eq1 (.bare ['B']) plainLit_B plainKey_q
    (by decide) (by decide) ordersRoot_inner 90 (by decide)
  simp only at this
  rw [show selectChainedG true ['i'] ['t'] (condTest ['=', '='] (.str ['1'])) ['s'] ['q'] (condTest ['=', '='] (.str ['B'])) ordersRootList
      = [.list .n0 [.int 2]] by decide,
    show selectChainedG false ['i'] ['t'] (condTest ['=', '='] (.str ['1'])) ['s'] ['q'] (condTest ['=', '='] (.str ['B'])) ordersRootList
      = [.int 2] by decide] at this
  exact ⟨this.2.1, this.2.2⟩


/-! ## index spellings with blanks inside the brackets (worker `c06spell`; token level)

`split_name_index` strips the text between the brackets: `[ 1 ]`, `a[ -1 ]`, `[ last() ]` are index tokens for the stripped
expression (`Proofs/XPathIdxBlank.lean`), so every token-level theorem above (`C06_star_spelled`, `C06_pred_spelled`,
`C06_chained_spelled` - any `Sel3Spells` token list) covers them. -/

/-- **C06 (index tokens padded with whitespace).**  For every index spelling `e` (`i`, `-k`, `last()`, `last()-k`, `i+j`) and any
whitespace paddings, `[ e ]` is an index token and `name[ e ]` a key-with-index token for the value of `e`. -/
theorem C06_idx_blank_tok (e : IdxSp) (wl wr : Str) (hwl : ∀ c ∈ wl, isPySpace c = true) (hwr : ∀ c ∈ wr, isPySpace c = true) :
    IdxTok (bracket (wl ++ e.text ++ wr)) e.text e.val ∧
    ∀ name, PlainKey name → KeyIdxTok (name ++ bracket (wl ++ e.text ++ wr)) name e.text e.val :=
  ⟨e.idxTok_pad wl wr hwl hwr, fun _ hk => e.keyIdxTok_pad hk wl wr hwl hwr⟩

/-- the token `a[ -1 ]` spells the position of the record list of `deep` … -/
def deepBlankToks : List Str := [['a'] ++ bracket ([' '] ++ (IdxSp.neg 1).text ++ [' '])]
example : deepBlankToks = [['a', '[', ' ', '-', '1', ' ', ']']] := by decide
theorem deep_blank_spelled : Sel3Spells deepBlankToks deep [.key ['a'], .idx 1] (.list .plain recsList) :=
  .keyIdx ((C06_idx_blank_tok (.neg 1) [' '] [' '] (by decide) (by decide)).2 _ plainKey_a) plainKey_a rfl (by decide) rfl (.nil _)
/-- … so `C06_pred_spelled` speaks of `a[ -1 ]`,`[k=1]`,`f` and `a[ -1 ]`,`k[text()=1]`,`..`,`f` (non-vacuity) -/
example : ∀ tail ∈ [[bracket (['k'] ++ ['='] ++ ['1']), ['f']], [['k'] ++ bracket (sTextFn ++ ['='] ++ ['1']), ['.', '.'], ['f']]],
    ∃ r, findD 40 deep [] false true (deepBlankToks ++ tail) (.at []) true slash = .ok (deep, r) ∧
      r.value = .list .n0 [.str ['x'], .str ['y']] := by
  intro tail htail
  obtain ⟨r, hr, hf, hv⟩ := (C06_pred_spelled deep true deepBlankToks _ _ recsList ['k'] ['f'] ['='] _ _ ['1'] deep_blank_spelled
    fieldKey_k plainKey_f .eq1 (.bare ['1']) plainLit_1 (by decide) (by decide) 40 (by decide)).1 tail htail
  rw [show selectWhere ['k'] ['f'] (condTest ['=', '='] (.str ['1'])) recsList = [.str ['x'], .str ['y']] by decide] at hf hv
  exact ⟨r, hr, hv (by simpa using hf)⟩
/-- the model on the STRINGS `a[ -1 ][k=1]/f`, `/a/[ last() ]/k[text()=1]/../f`, `a[ 0 + 1 ][*]/f` (tokenised as above; the real code
returns the same `['x', 'y']`) -/
theorem C06_idx_blank_example :
    tokenize ['a', '[', ' ', '-', '1', ' ', ']', '[', 'k', '=', '1', ']', '/', 'f'] = deepBlankToks ++ [['[', 'k', '=', '1', ']'], ['f']] ∧
    (XPath.getItem 60 deep ['a', '[', ' ', '-', '1', ' ', ']', '[', 'k', '=', '1', ']', '/', 'f']).2
      = .ok (.list .n0 [.str ['x'], .str ['y']]) ∧
    (XPath.getItem 60 deep ['/', 'a', '/', '[', ' ', 'l', 'a', 's', 't', '(', ')', ' ', ']', '/', 'k', '[', 't', 'e', 'x', 't', '(', ')', '=', '1', ']',
      '/', '.', '.', '/', 'f']).2 = .ok (.list .n0 [.str ['x'], .str ['y']]) ∧
    (XPath.getItem 60 deep ['a', '[', ' ', '0', ' ', '+', ' ', '1', ' ', ']', '[', '*', ']', '/', 'f']).2
      = .ok (.list .n0 [.str ['x'], .str ['y']]) := by
  decide +kernel


/-! ## literal values a condition cannot express (finding C06-g, open)

`PlainLit v` (the hypothesis of every predicate theorem above) excludes blanks, quotes, brackets, `/`, `=`, `~`, `*`, `?`, `%` and the
texts `true()` / `false()`.  The property quantifies over "all literal values v occurring or not occurring in the data … quoted or
unquoted v"; for a value outside `PlainLit` that DOES occur in the data the engine selects nothing (or other records): the path is
split on `/` before the quotes are looked at, the operator table is searched inside the quotes, and the parsed condition is written
back to text and parsed again twice (`[k=='v']`, then `[text()==v]`), each time stripping blanks and one layer of quotes (and
percent-decoding).  Counter-examples, evaluated by the model (which agrees with the implementation on them); the reference
comprehension selects the record in every case. -/

def litTree (v : Str) : Val :=
  .dict .n0 [(['r'], .list .n0 [.dict .n0 [(['k'], .str v), (['f'], .str ['h', 'i', 't'])], .dict .n0 [(['k'], .str ['A']), (['f'], .str ['o'])]])]
def litRecs (v : Str) : List Val :=
  [.dict .n0 [(['k'], .str v), (['f'], .str ['h', 'i', 't'])], .dict .n0 [(['k'], .str ['A']), (['f'], .str ['o'])]]

/-- **C06-g, `~` inside a quoted literal**: `r[k='a~b']/f` misses although one record has `k == 'a~b'` (the operator table finds
`~` inside the quotes: key `k='a`, value `b'`); the `text()` form misses too -/
theorem C06_literal_tilde_cex :
    selectWhere ['k'] ['f'] (fieldEq ['a', '~', 'b']) (litRecs ['a', '~', 'b']) = [.str ['h', 'i', 't']] ∧
    (XPath.get 60 (litTree ['a', '~', 'b']) ['r', '[', 'k', '=', '\'', 'a', '~', 'b', '\'', ']', '/', 'f'] (.str ['D'])).2 = .ok (.str ['D']) ∧
    (XPath.get 60 (litTree ['a', '~', 'b'])
      ['r', '/', 'k', '[', 't', 'e', 'x', 't', '(', ')', '=', '\'', 'a', '~', 'b', '\'', ']', '/', '.', '.', '/', 'f'] (.str ['D'])).2
      = .ok (.str ['D']) := by
  decide +kernel

/-- **C06-g, `/` inside a quoted literal**: `r[k='a/b']/f` misses (the path is split on `/` first: tokens `r[k='a` and `b']`) -/
theorem C06_literal_slash_cex :
    selectWhere ['k'] ['f'] (fieldEq ['a', '/', 'b']) (litRecs ['a', '/', 'b']) = [.str ['h', 'i', 't']] ∧
    (XPath.get 60 (litTree ['a', '/', 'b']) ['r', '[', 'k', '=', '\'', 'a', '/', 'b', '\'', ']', '/', 'f'] (.str ['D'])).2 = .ok (.str ['D']) := by
  decide +kernel

/-- **C06-g, a blank at the end of a quoted literal - the two forms the property declares equivalent differ**: `r[k=' x']/f`
misses (the re-serialised `[text()== x]` is stripped), `r/k[text()=' x']/../f` selects the record -/
theorem C06_literal_blank_cex :
    selectWhere ['k'] ['f'] (fieldEq [' ', 'x']) (litRecs [' ', 'x']) = [.str ['h', 'i', 't']] ∧
    (XPath.get 60 (litTree [' ', 'x']) ['r', '[', 'k', '=', '\'', ' ', 'x', '\'', ']', '/', 'f'] (.str ['D'])).2 = .ok (.str ['D']) ∧
    (XPath.get 60 (litTree [' ', 'x'])
      ['r', '/', 'k', '[', 't', 'e', 'x', 't', '(', ')', '=', '\'', ' ', 'x', '\'', ']', '/', '.', '.', '/', 'f'] (.str ['D'])).2
      = .ok (.list .n0 [.str ['h', 'i', 't']]) := by
  decide +kernel

/-- **C06-g, a literal that is itself quoted**: `r[k="'a'"]/f` misses (the second parse takes the inner quotes off too), the
`text()` form selects the record -/
theorem C06_literal_quoted_cex :
    selectWhere ['k'] ['f'] (fieldEq ['\'', 'a', '\'']) (litRecs ['\'', 'a', '\'']) = [.str ['h', 'i', 't']] ∧
    (XPath.get 60 (litTree ['\'', 'a', '\'']) ['r', '[', 'k', '=', '"', '\'', 'a', '\'', '"', ']', '/', 'f'] (.str ['D'])).2 = .ok (.str ['D']) ∧
    (XPath.get 60 (litTree ['\'', 'a', '\''])
      ['r', '/', 'k', '[', 't', 'e', 'x', 't', '(', ')', '=', '"', '\'', 'a', '\'', '"', ']', '/', '.', '.', '/', 'f'] (.str ['D'])).2
      = .ok (.list .n0 [.str ['h', 'i', 't']]) := by
  decide +kernel

/-- the same paths with a plain literal select the record (the witnesses are not vacuous) -/
example : (XPath.get 60 (litTree ['a', 'b']) ['r', '[', 'k', '=', '\'', 'a', 'b', '\'', ']', '/', 'f'] (.str ['D'])).2
    = .ok (.list .n0 [.str ['h', 'i', 't']]) := by decide +kernel

end N0.C06
