import N0Verif.Proofs.XPathStore
import N0Verif.Proofs.XPathHidden
import N0Verif.Proofs.XPathHiddenSet
import N0Verif.Proofs.XPathHiddenRow
/-!
# C02 — assigning through an xpath to an existing node changes exactly that node

Reference semantics: `Val.setAt t p v` is the plain nested dict/list model ("the original with
exactly that one slot replaced").  Written values are arbitrary (scalar or container).
-/
namespace N0.C02
open N0 N0.Py N0.Val N0.XPath

/-- **C02 (one write).**  For a dict-rooted tree, `d[xpath] = v` on the canonical path of an
existing node (plain keys on the path) raises nothing and yields exactly `setAt t p v`. -/
theorem C02_set_existing (cls : Cls) (kvs : List (Str × Val)) (p : Pos) (c v : Val)
    (hp : PlainPos p) (hne : p ≠ []) (hget : getAt (.dict cls kvs) p = some c)
    (fuel : Nat) (hf : fuel ≥ 2 * p.length) :
    ∃ t', setAt (.dict cls kvs) p v = some t' ∧
      setItem fuel (.dict cls kvs) (slash ++ renderPos p) v = (t', .ok ()) := by
  obtain ⟨t', ht'⟩ := setAt_isSome p _ c v hget
  exact ⟨t', ht', setItem_existing cls kvs p c v t' hp hne hget ht' fuel hf⟩

/-- **C02 (any spelling, token level).**  Whatever token list spells the position — index steps
as `i`, `i-len`, `last()`, `last()-k`, `i+j` (see `C01_index_spellings`) — the store that
follows `_find` is `setAt`. -/
theorem C02_store_spelled (t : Val) (toks : List Str) (p : Pos) (c v t' : Val)
    (hs : Spells toks t p c) (hne : toks ≠ []) (hp : PlainPos p) (hset : setAt t p v = some t')
    (fuel : Nat) (hf : fuel ≥ 2 * toks.length) :
    ∃ r, findD fuel t [] false true toks (.at []) true slash = .ok (t, r) ∧
      r.notFound = Option.none ∧ storeAt t r.parent r.nameIdx v = .ok t' := by
  obtain ⟨r, hr, hfound⟩ := find_spells t true hs hne fuel [] slash true rfl hf
  exact ⟨r, hr, hfound.2.1, storeAt_found t p c r v t' hfound hp hset⟩

/-- after the write the slot holds `v` -/
theorem C02_read_back (t t' v : Val) (p : Pos) (h : setAt t p v = some t') : getAt t' p = some v :=
  getAt_setAt_same p t t' v h (fun _ _ => trivial)

/-- **frame**: no sibling or unrelated branch changes — every position that diverges from the
written one keeps its value (ancestors keep everything except the written slot) -/
theorem C02_frame (t t' v : Val) (p q : Pos) (h : setAt t p v = some t') (hd : Diverge p q) :
    getAt t' q = getAt t q :=
  getAt_setAt_diverge p q t t' v h hd

/-- the plain nested dict/list model applying a sequence of writes -/
def applyRef : Val → List (Pos × Val) → Option Val
  | t, [] => some t
  | t, (p, v) :: ops => (setAt t p v).bind (fun t' => applyRef t' ops)

/-- the same sequence through `__setitem__` -/
def runSets (fuel : Nat) : Val → List (Pos × Val) → Val × PyM Unit
  | t, [] => (t, .ok ())
  | t, (p, v) :: ops =>
    match setItem fuel t (slash ++ renderPos p) v with
    | (t', .ok _) => runSets fuel t' ops
    | (t', .error e) => (t', .error e)

/-- every write of the history addresses a node that exists *in the current state* -/
inductive ValidOps : Val → List (Pos × Val) → Prop
  | nil (t : Val) : ValidOps t []
  | cons {t t' c v : Val} {p : Pos} {ops : List (Pos × Val)} :
      PlainPos p → p ≠ [] → getAt t p = some c → setAt t p v = some t' → ValidOps t' ops →
      ValidOps t ((p, v) :: ops)

theorem setAt_dict_root (cls : Cls) (kvs : List (Str × Val)) (p : Pos) (v t' : Val) (hne : p ≠ [])
    (h : setAt (.dict cls kvs) p v = some t') : ∃ kvs', t' = .dict cls kvs' := by
  cases p with
  | nil => exact absurd rfl hne
  | cons s rest =>
    cases rest with
    | nil =>
      cases s with
      | key k => simp [setAt, setChild] at h; exact ⟨_, h.symm⟩
      | idx i => simp [setAt, setChild] at h
    | cons s2 r =>
      rw [setAt_cons_cons] at h
      cases hc : child (.dict cls kvs) s with
      | none => simp [hc] at h
      | some c =>
        simp only [hc, Option.bind] at h
        cases hs : setAt c (s2 :: r) v with
        | none => simp [hs] at h
        | some c' =>
          simp only [hs] at h
          cases s with
          | key k => simp [setChild] at h; exact ⟨_, h.symm⟩
          | idx i => simp [setChild] at h

/-- **C02 (histories).**  After any sequence of assignments to existing nodes the tree equals
the plain model that applied the same writes; no write raises. -/
theorem C02_history (fuel : Nat) : ∀ (ops : List (Pos × Val)) (cls : Cls) (kvs : List (Str × Val)),
    ValidOps (.dict cls kvs) ops → (∀ pv ∈ ops, fuel ≥ 2 * pv.1.length) →
    ∃ t', applyRef (.dict cls kvs) ops = some t' ∧ runSets fuel (.dict cls kvs) ops = (t', .ok ())
  | [], cls, kvs, _, _ => ⟨_, rfl, rfl⟩
  | (p, v) :: ops, cls, kvs, hv, hf => by
    cases hv with
    | @cons _ t' c _ _ _ hp hne hget hset hrest =>
      obtain ⟨kvs', rfl⟩ := setAt_dict_root cls kvs p v t' hne hset
      have h1 := setItem_existing cls kvs p c v _ hp hne hget hset fuel (hf (p, v) (by simp))
      obtain ⟨t'', ha, hr⟩ := C02_history fuel ops cls kvs' hrest (fun pv hm => hf pv (by simp [hm]))
      refine ⟨t'', ?_, ?_⟩
      · simp [applyRef, hset, ha]
      · simp only [runSets, h1]; exact hr

/-! Non-vacuity. -/
def exTree : Val :=
  .dict .n0 [(['a'], .dict .plain [(['b'], .list .plain [.int 1, .list .n0 [.str ['x'], .none]])]),
             (['k'], .bool true)]

example : ValidOps exTree [([.key ['a'], .key ['b'], .idx 1, .idx 0], .int 7), ([.key ['k']], .list .plain [])] := by
  refine .cons (c := .str ['x']) (t' := _) ?_ (by simp) (by decide) rfl (.cons (c := .bool true) (t' := _) ?_ (by simp) (by decide) rfl (.nil _))
  · exact ⟨⟨by simp, by decide, by simp⟩, ⟨by simp, by decide, by simp⟩, trivial⟩
  · exact ⟨⟨by simp, by decide, by simp⟩, trivial⟩
example : (runSets 20 exTree [([.key ['a'], .key ['b'], .idx 1, .idx 0], .int 7), ([.key ['k']], .list .plain [])]).1
    = .dict .n0 [(['a'], .dict .plain [(['b'], .list .plain [.int 1, .list .n0 [.int 7, .none]])]),
                 (['k'], .list .plain [])] := by decide

/-- **C02 (hidden list).**  Lookup reads a value that is not a list as the list of this one item (`d['a[0]']`,
`d['a[-1]']`, `d['a[last()]']` are `d['a']`), so these spellings address the existing node itself: `d[xpath] = v` with
the index `e` denoting `0` or `-1` (in any spelling: `0`, `-1`, `last()`, `0+0`, …) on the single value `old` of `name`
replaces exactly that slot and raises nothing (fix C03-e; before, the write went into a temporary list and was lost). -/
theorem C02_set_hidden_list (cls : Cls) (kvs : List (Str × Val)) (q : Pos) (kcls : Cls) (nkvs : List (Str × Val))
    (name : Str) (old : Val) (e : IdxSp) (v : Val) (fuel : Nat)
    (hp : PlainPos q) (hget : getAt (.dict cls kvs) q = some (.dict kcls nkvs)) (hn : PlainKey name)
    (hl : lookup name nkvs = some old) (hs : isList old = false) (he : e.val = 0 ∨ e.val = -1)
    (hf : fuel ≥ 2 * q.length + 2) :
    ∃ t', setAt (.dict cls kvs) (q ++ [.key name]) v = some t' ∧
      setItem fuel (.dict cls kvs) (slash ++ renderPos q ++ slash ++ (name ++ bracket e.text)) v = (t', .ok ()) := by
  have hP : getAt (.dict cls kvs) (q ++ [Seg.key name]) = some old := by
    rw [getAt_snoc, hget]; simp [child, hl]
  obtain ⟨t', ht'⟩ := setAt_isSome (q ++ [.key name]) _ old v hP
  exact ⟨t', ht', setItem_hidden_replace cls kvs q kcls nkvs name old e v t' fuel hp hget hn hl hs he ht' hf⟩

/-- the former finding C02-a: `d['a[0]'] = 'V'` (and `[-1]`, `[last()]`) on `{a: 1}` replaces `a`, and `d['a[0]']` is
`'V'` afterwards; a single value that is an element of a list (`a[0][0]` on `{a: [5]}`) likewise -/
theorem C02_set_hidden_list_ok :
    setItem 40 (.dict .n0 [(['a'], .int 1)]) ['a', '[', '0', ']'] (.str ['V']) = (.dict .n0 [(['a'], .str ['V'])], .ok ()) ∧
    (getItem 40 (.dict .n0 [(['a'], .str ['V'])]) ['a', '[', '0', ']']).2 = .ok (.str ['V']) ∧
    setItem 40 (.dict .n0 [(['a'], .int 1)]) ['a', '[', '-', '1', ']'] (.str ['V']) = (.dict .n0 [(['a'], .str ['V'])], .ok ()) ∧
    setItem 40 (.dict .n0 [(['a'], .int 1)]) ['a', '[', 'l', 'a', 's', 't', '(', ')', ']'] (.str ['V'])
      = (.dict .n0 [(['a'], .str ['V'])], .ok ()) ∧
    setItem 40 (.dict .n0 [(['a'], .list .n0 [.int 5])]) ['a', '[', '0', ']', '[', '0', ']'] (.str ['V'])
      = (.dict .n0 [(['a'], .list .n0 [.str ['V']])], .ok ()) := by
  decide
/-- … and through the theorem: `d['//k[last()]'] = 7` on `exTree` (`k` is the single value `True`) -/
example : ∃ t', setAt exTree [.key ['k']] (.int 7) = some t' ∧
    setItem 40 exTree ['/', '/', 'k', '[', 'l', 'a', 's', 't', '(', ')', ']'] (.int 7) = (t', .ok ()) :=
  C02_set_hidden_list .n0 _ [] .n0 _ ['k'] (.bool true) .last (.int 7) 40 trivial rfl ⟨by simp, by decide, by simp⟩ (by decide) rfl
    (Or.inr rfl) (by decide)

/-- **C02 (hidden list, the index as a step of its own).**  `d['//…P…/[0]'] = v`, `…/[-1]`, `…/[last()]` (any spelling
`e` of `0` / `-1`) on the single value at ANY plain position `P` (the value of a key, or an element of a list:
`a/b[0]/[0]`) is the write to the existing node `P`: exactly `setAt t P v`, nothing raised. -/
theorem C02_set_hidden_own_step (cls : Cls) (kvs : List (Str × Val)) (P : Pos) (old : Val) (e : IdxSp) (v : Val) (fuel : Nat)
    (hp : PlainPos P) (hne : P ≠ []) (hP : getAt (.dict cls kvs) P = some old) (hs : isList old = false)
    (he : e.val = 0 ∨ e.val = -1) (hf : fuel ≥ 2 * P.length + 1) :
    ∃ t', setAt (.dict cls kvs) P v = some t' ∧
      setItem fuel (.dict cls kvs) (slash ++ renderPos P ++ slash ++ bracket e.text) v = (t', .ok ()) := by
  obtain ⟨t', ht'⟩ := setAt_isSome P _ old v hP
  exact ⟨t', ht', setItem_hidden_own_step cls kvs P old e v t' fuel hp hne hP hs he ht' hf⟩

/-- **C02 (hidden list, an element of a list).**  `d['//…q0…[i][0]'] = v` (`[i][-1]`, `[i][last()]`, …) where element
`i` of the list at `q0` is a single value: exactly that element is replaced (`setAt`), nothing raised. -/
theorem C02_set_hidden_elem (cls : Cls) (kvs : List (Str × Val)) (q0 : Pos) (i : Nat) (old : Val) (e : IdxSp) (v : Val)
    (fuel : Nat) (hp : PlainPos (q0 ++ [Seg.idx i])) (hP : getAt (.dict cls kvs) (q0 ++ [Seg.idx i]) = some old)
    (hs : isList old = false) (he : e.val = 0 ∨ e.val = -1) (hf : fuel ≥ 2 * (q0.length + 1) + 1) :
    ∃ t', setAt (.dict cls kvs) (q0 ++ [Seg.idx i]) v = some t' ∧
      setItem fuel (.dict cls kvs) (slash ++ renderPos (q0 ++ [Seg.idx i]) ++ bracket e.text) v = (t', .ok ()) := by
  obtain ⟨t', ht'⟩ := setAt_isSome (q0 ++ [Seg.idx i]) _ old v hP
  exact ⟨t', ht', setItem_hidden_elem cls kvs q0 i old e v t' fuel hp hP hs he ht' hf⟩

/-- **C02 (hidden list, the index in the middle of the path).**  `d['//…q…/name[0]/k2/…p2…'] = v` where `name` holds a
value that is not a list (so: a dict) and `k2/…p2…` is the plain path of an existing node below it: the hidden index
changes nothing, exactly the node at `q/name/k2/p2` is replaced (`setAt`), nothing raised. -/
theorem C02_set_hidden_middle (cls : Cls) (kvs : List (Str × Val)) (q : Pos) (kcls : Cls) (nkvs : List (Str × Val))
    (name : Str) (old : Val) (e : IdxSp) (k2 : Str) (p2 : Pos) (c v : Val) (fuel : Nat)
    (hp : PlainPos q) (hget : getAt (.dict cls kvs) q = some (.dict kcls nkvs)) (hn : PlainKey name)
    (hl : lookup name nkvs = some old) (hs : isList old = false) (he : e.val = 0 ∨ e.val = -1)
    (hp2 : PlainPos (Seg.key k2 :: p2)) (hc : getAt old (Seg.key k2 :: p2) = some c)
    (hf : fuel ≥ 2 * q.length + 2 * p2.length + 4) :
    ∃ t', setAt (.dict cls kvs) (q ++ [.key name] ++ Seg.key k2 :: p2) v = some t' ∧
      setItem fuel (.dict cls kvs)
        (slash ++ renderPos q ++ slash ++ (name ++ bracket e.text) ++ renderPos (Seg.key k2 :: p2)) v = (t', .ok ()) := by
  have hP : getAt (.dict cls kvs) (q ++ [Seg.key name] ++ Seg.key k2 :: p2) = some c := by
    rw [getAt_append, getAt_snoc, hget]; simp [child, hl, hc]
  obtain ⟨t', ht'⟩ := setAt_isSome _ _ c v hP
  exact ⟨t', ht', setItem_hidden_middle cls kvs q kcls nkvs name old e k2 p2 c v t' fuel hp hget hn hl hs he hp2 hc ht' hf⟩

/-! Non-vacuity of the three (on `exTree = {a: {b: [1, ['x', None]]}, k: True}`). -/
/-- `d['//k/[last()]'] = 7` -/
example : ∃ t', setAt exTree [.key ['k']] (.int 7) = some t' ∧
    setItem 40 exTree ['/', '/', 'k', '/', '[', 'l', 'a', 's', 't', '(', ')', ']'] (.int 7) = (t', .ok ()) :=
  C02_set_hidden_own_step .n0 _ [.key ['k']] (.bool true) .last (.int 7) 40 ⟨⟨by simp, by decide, by simp⟩, trivial⟩ (by simp)
    rfl rfl (Or.inr rfl) (by decide)
/-- `d['//a/b[0]/[0]'] = 7`: the single value is an element of a list -/
example : ∃ t', setAt exTree [.key ['a'], .key ['b'], .idx 0] (.int 7) = some t' ∧
    setItem 40 exTree ['/', '/', 'a', '/', 'b', '[', '0', ']', '/', '[', '0', ']'] (.int 7) = (t', .ok ()) :=
  C02_set_hidden_own_step .n0 _ [.key ['a'], .key ['b'], .idx 0] (.int 1) (.lit 0) (.int 7) 40
    ⟨⟨by simp, by decide, by simp⟩, ⟨by simp, by decide, by simp⟩, trivial⟩ (by simp) rfl rfl (Or.inl rfl) (by decide)
/-- `d['//a/b[0][-1]'] = 7` -/
example : ∃ t', setAt exTree [.key ['a'], .key ['b'], .idx 0] (.int 7) = some t' ∧
    setItem 40 exTree ['/', '/', 'a', '/', 'b', '[', '0', ']', '[', '-', '1', ']'] (.int 7) = (t', .ok ()) :=
  C02_set_hidden_elem .n0 _ [.key ['a'], .key ['b']] 0 (.int 1) (.neg 1) (.int 7) 40
    ⟨⟨by simp, by decide, by simp⟩, ⟨by simp, by decide, by simp⟩, trivial⟩ rfl rfl (Or.inr rfl) (by decide)
/-- `d['//a[0]/b[1]'] = 7`: `a` is a dict, `b[1]` the list `['x', None]` below it -/
example : ∃ t', setAt exTree [.key ['a'], .key ['b'], .idx 1] (.int 7) = some t' ∧
    setItem 40 exTree ['/', '/', 'a', '[', '0', ']', '/', 'b', '[', '1', ']'] (.int 7) = (t', .ok ()) :=
  C02_set_hidden_middle .n0 _ [] .n0 _ ['a'] _ (.lit 0) ['b'] [.idx 1] (.list .n0 [.str ['x'], .none]) (.int 7) 40 trivial rfl
    ⟨by simp, by decide, by simp⟩ rfl rfl (Or.inl rfl) ⟨⟨by simp, by decide, by simp⟩, trivial⟩ rfl (by decide)
/-- the results are what they should be (evaluated) -/
example : (setItem 40 exTree ['/', '/', 'a', '[', '0', ']', '/', 'b', '[', '1', ']'] (.int 7)).1
      = .dict .n0 [(['a'], .dict .plain [(['b'], .list .plain [.int 1, .int 7])]), (['k'], .bool true)] ∧
    (setItem 40 exTree ['/', '/', 'a', '/', 'b', '[', '0', ']', '/', '[', '0', ']'] (.int 7)).1
      = .dict .n0 [(['a'], .dict .plain [(['b'], .list .plain [.int 7, .list .n0 [.str ['x'], .none]])]), (['k'], .bool true)] := by
  decide

/-- **C02 (hidden list, the index as a step of its own in the middle).**  `d['//…P…/[0]/k2/…p2…'] = v` where the node at
the plain position `P` (under a key or an element of a list) is not a list: exactly the node at `P/k2/p2` is replaced. -/
theorem C02_set_hidden_middle_own (cls : Cls) (kvs : List (Str × Val)) (P : Pos) (old : Val) (e : IdxSp) (k2 : Str)
    (p2 : Pos) (c v : Val) (fuel : Nat)
    (hp : PlainPos P) (hP : getAt (.dict cls kvs) P = some old) (hs : isList old = false)
    (he : e.val = 0 ∨ e.val = -1) (hp2 : PlainPos (Seg.key k2 :: p2)) (hc : getAt old (Seg.key k2 :: p2) = some c)
    (hf : fuel ≥ 2 * P.length + 2 * p2.length + 4) :
    ∃ t', setAt (.dict cls kvs) (P ++ Seg.key k2 :: p2) v = some t' ∧
      setItem fuel (.dict cls kvs) (slash ++ renderPos P ++ slash ++ bracket e.text ++ renderPos (Seg.key k2 :: p2)) v
        = (t', .ok ()) := by
  have hP' : getAt (.dict cls kvs) (P ++ Seg.key k2 :: p2) = some c := by rw [getAt_append, hP]; exact hc
  obtain ⟨t', ht'⟩ := setAt_isSome _ _ c v hP'
  exact ⟨t', ht', setItem_hidden_middle_own cls kvs P old e k2 p2 c v t' fuel hp hP hs he hp2 hc ht' hf⟩

/-- **C02 (hidden list, on a list element in the middle).**  `d['//…q0…[i][0]/k2/…p2…'] = v` where element `i` of the list
at `q0` is not a list (a dict): exactly the node at `q0[i]/k2/p2` is replaced. -/
theorem C02_set_hidden_middle_elem (cls : Cls) (kvs : List (Str × Val)) (q0 : Pos) (i : Nat) (old : Val) (e : IdxSp)
    (k2 : Str) (p2 : Pos) (c v : Val) (fuel : Nat)
    (hp : PlainPos (q0 ++ [Seg.idx i])) (hP : getAt (.dict cls kvs) (q0 ++ [Seg.idx i]) = some old)
    (hs : isList old = false) (he : e.val = 0 ∨ e.val = -1) (hp2 : PlainPos (Seg.key k2 :: p2))
    (hc : getAt old (Seg.key k2 :: p2) = some c) (hf : fuel ≥ 2 * (q0.length + 1) + 2 * p2.length + 4) :
    ∃ t', setAt (.dict cls kvs) (q0 ++ [Seg.idx i] ++ Seg.key k2 :: p2) v = some t' ∧
      setItem fuel (.dict cls kvs)
        (slash ++ renderPos (q0 ++ [Seg.idx i]) ++ bracket e.text ++ renderPos (Seg.key k2 :: p2)) v = (t', .ok ()) := by
  have hP' : getAt (.dict cls kvs) (q0 ++ [Seg.idx i] ++ Seg.key k2 :: p2) = some c := by rw [getAt_append, hP]; exact hc
  obtain ⟨t', ht'⟩ := setAt_isSome _ _ c v hP'
  exact ⟨t', ht', setItem_hidden_middle_elem cls kvs q0 i old e k2 p2 c v t' fuel hp hP hs he hp2 hc ht' hf⟩

/-- `{h: [1, {p: 5}]}` -/
def exTree2 : Val := .dict .n0 [(['h'], .list .n0 [.int 1, .dict .n0 [(['p'], .int 5)]])]
/-- `d['//a/[-1]/b[1]'] = 7` on `exTree` -/
example : ∃ t', setAt exTree [.key ['a'], .key ['b'], .idx 1] (.int 7) = some t' ∧
    setItem 40 exTree ['/', '/', 'a', '/', '[', '-', '1', ']', '/', 'b', '[', '1', ']'] (.int 7) = (t', .ok ()) :=
  C02_set_hidden_middle_own .n0 _ [.key ['a']] _ (.neg 1) ['b'] [.idx 1] (.list .n0 [.str ['x'], .none]) (.int 7) 40
    ⟨⟨by simp, by decide, by simp⟩, trivial⟩ rfl rfl (Or.inr rfl) ⟨⟨by simp, by decide, by simp⟩, trivial⟩ rfl (by decide)
/-- `d['//h[1][0]/p'] = 7` on `{h: [1, {p: 5}]}` -/
example : ∃ t', setAt exTree2 [.key ['h'], .idx 1, .key ['p']] (.int 7) = some t' ∧
    setItem 40 exTree2 ['/', '/', 'h', '[', '1', ']', '[', '0', ']', '/', 'p'] (.int 7) = (t', .ok ()) :=
  C02_set_hidden_middle_elem .n0 _ [.key ['h']] 1 _ (.lit 0) ['p'] [] (.int 5) (.int 7) 40
    ⟨⟨by simp, by decide, by simp⟩, trivial⟩ rfl rfl (Or.inl rfl) ⟨⟨by simp, by decide, by simp⟩, trivial⟩ rfl (by decide)
example : (setItem 40 exTree2 ['/', '/', 'h', '[', '1', ']', '[', '0', ']', '/', 'p'] (.int 7)).1
    = .dict .n0 [(['h'], .list .n0 [.int 1, .dict .n0 [(['p'], .int 7)]])] := by decide

/-- **C02 (hidden list, several hidden indexes in a row).**  Item 0 of the hidden list is the value itself, which is again
the list of this one item: `d['//…P…[0][-1][last()]'] = v` — any number ≥ 1 of indexes, each any spelling of `0` / `-1` —
on the single value at the plain position `P` (the value of a key: `a[0][0]`; an element of a list: `h[1][0][0]`) is the
write to the existing node `P`: exactly `setAt t P v`, nothing raised. -/
theorem C02_set_hidden_row (cls : Cls) (kvs : List (Str × Val)) (P : Pos) (old : Val) (init : List IdxSp) (l : IdxSp)
    (v : Val) (fuel : Nat)
    (hp : PlainPos P) (hne : P ≠ []) (hP : getAt (.dict cls kvs) P = some old) (hs : isList old = false)
    (hgi : ∀ e ∈ init, e.val = 0 ∨ e.val = -1) (hg : l.val = 0 ∨ l.val = -1)
    (hf : fuel ≥ 2 * P.length + 3 + init.length) :
    ∃ t', setAt (.dict cls kvs) P v = some t' ∧
      setItem fuel (.dict cls kvs) (slash ++ renderPos P ++ (init ++ [l]).flatMap (fun e => bracket e.text)) v
        = (t', .ok ()) := by
  obtain ⟨t', ht'⟩ := setAt_isSome P _ old v hP
  exact ⟨t', ht', setItem_hidden_row cls kvs P old init l v t' fuel hp hne hP hs hgi hg ht' hf⟩

/-- `d['//k[0][-1][last()]'] = 7` on `exTree` -/
example : ∃ t', setAt exTree [.key ['k']] (.int 7) = some t' ∧
    setItem 40 exTree ['/', '/', 'k', '[', '0', ']', '[', '-', '1', ']', '[', 'l', 'a', 's', 't', '(', ')', ']'] (.int 7)
      = (t', .ok ()) :=
  C02_set_hidden_row .n0 _ [.key ['k']] (.bool true) [.lit 0, .neg 1] .last (.int 7) 40
    ⟨⟨by simp, by decide, by simp⟩, trivial⟩ (by simp) rfl rfl (by decide) (Or.inr rfl) (by decide)
/-- `d['//a/b[0][0][0]'] = 7` on `exTree`: two hidden indexes on an element of a list -/
example : ∃ t', setAt exTree [.key ['a'], .key ['b'], .idx 0] (.int 7) = some t' ∧
    setItem 40 exTree ['/', '/', 'a', '/', 'b', '[', '0', ']', '[', '0', ']', '[', '0', ']'] (.int 7) = (t', .ok ()) :=
  C02_set_hidden_row .n0 _ [.key ['a'], .key ['b'], .idx 0] (.int 1) [.lit 0] (.lit 0) (.int 7) 40
    ⟨⟨by simp, by decide, by simp⟩, ⟨by simp, by decide, by simp⟩, trivial⟩ (by simp) rfl rfl (by decide) (Or.inl rfl)
    (by decide)
example : (setItem 40 exTree ['/', '/', 'k', '[', '0', ']', '[', '-', '1', ']', '[', 'l', 'a', 's', 't', '(', ')', ']'] (.int 7)).1
    = .dict .n0 [(['a'], .dict .plain [(['b'], .list .plain [.int 1, .list .n0 [.str ['x'], .none]])]), (['k'], .int 7)] := by
  decide

end N0.C02
