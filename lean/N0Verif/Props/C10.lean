import N0Verif.Proofs.CompareOpts
import N0Verif.Proofs.CompareTransform
import N0Verif.Proofs.CompareTransformKeyed
import N0Verif.Proofs.CompareKeyVals
import N0Verif.Proofs.CompareTransformCk
import N0Verif.Proofs.XPathMatchGenEq
/-!
# C10 — exclude_xpaths, compare_only and transform only narrow or map what is compared

Model: `N0Verif/Model/Compare.lean` (the code with fix patches C07-a, C08-a, C09-a, C07-b, C07-c, C09-b, C10-a, C07-d, C08-b, C10-c applied).
`Res.diffPart` = number of `differences` lines and the four difference lists;
`Res.filterPaths keep` keeps the entries whose path satisfies `keep` (and recounts the lines).
-/
namespace N0.C10
open N0 N0.Compare

/-- **C10 (pattern matcher).** One pattern matches a path iff the parts of the pattern after its
last empty part (an empty part comes from `//` or a leading `/`: "any prefix") equal the last parts
of the path, case-insensitively, `*` standing for any one part — tail-anchored. -/
theorem C10_xpath_match_spec (xpath pat : Str) : matchOne xpath pat = specMatch xpath pat :=
  matchOne_spec xpath pat

/-- `xpath_match` returns 0 iff no pattern matches … -/
theorem C10_xpath_match_zero (xpath : Str) (a : PatArg) :
    xpathMatch xpath a = 0 ↔ ∀ p ∈ a.pats, specMatch xpath p = false :=
  xpathMatch_zero xpath a

/-- … and otherwise the 1-based index of the first matching pattern. -/
theorem C10_xpath_match_pos (xpath : Str) (a : PatArg) (i : Nat) :
    xpathMatch xpath a = i + 1 ↔
      (∃ p, a.pats[i]? = some p ∧ specMatch xpath p = true) ∧
        ∀ j < i, ∀ q, a.pats[j]? = some q → specMatch xpath q = false :=
  xpathMatch_pos xpath a i

/-- a pattern given as `str` behaves as the one-element tuple -/
theorem C10_str_vs_tuple (xpath s : Str) : xpathMatch xpath (.one s) = xpathMatch xpath (.many [s]) :=
  xpathMatch_str_eq_tuple xpath s

/-- **C10 (exclude_xpaths).** For every option and flag record and both entry points: if the run
without `exclude_xpaths` returns `r`, the run with it returns exactly the entries of `r` for which no
tested prefix of the path matches an excluded pattern (`exclHit`: the tested prefixes are those ending
at a dictionary key and the paths of lists), with one line per remaining entry.  Both inclusions: nothing
matched is reported, and nothing unmatched is hidden. -/
theorem C10_exclude (cfg : Cfg) (a b : Val) (r : Res)
    (h : compareTop { cfg with excl := .many [] } a b = .ok r) :
    ∃ r', compareTop cfg a b = .ok r' ∧
      r'.diffPart = (r.filterPaths (fun p => !exclHit cfg.excl [] p)).diffPart :=
  exclude_filter cfg a b r h

/-- **C10 (compare_only).** The run with `compare_only` keeps, among the entries located at dictionary
entries (path ending in a key: changed values, type clashes, missing keys), exactly those whose path
matches; entries located at list items (list-membership differences, differing items) are untouched. -/
theorem C10_compare_only (cfg : Cfg) (a b : Val) (r : Res)
    (h : compareTop { cfg with only := .many [] } a b = .ok r) :
    ∃ r', compareTop cfg a b = .ok r' ∧ r'.diffPart = (r.filterPaths (onlyKeep cfg)).diffPart :=
  only_filter cfg a b r h

/-- **C10 (transform, ordered comparison).** `LeafTransform`: every function is the identity on
containers, maps scalars to scalars and `None` to a scalar or `None`.  For `direct_compare`, every
other option and every flag record: the run with `transform` on the original trees and the run without
it on the mapped trees (`mapT`: the first matching function applied to every leaf at a dictionary entry
whose path matches and to every leaf element of a list whose own path matches) raise the same exception
or return results of the same *shape* — same number of lines, same paths and kinds in all four lists.
So two leaves count as equal iff their transformed values are equal, and no difference is hidden or
invented … -/
theorem C10_transform_partial (cfg : Cfg) (hd : cfg.direct = true) (hl : LeafTransform cfg) (a b : Val) :
    TrERel (compareTop cfg a b) (compareTop (noTransf cfg) (mapT cfg [] a) (mapT cfg [] b)) :=
  compareTop_tr cfg hd hl a b

/-- … in particular the verdict is the verdict on the mapped trees; the values shown are the originals
(`C09_not_equal_faithful` holds for every transform). -/
theorem C10_transform_verdict (cfg : Cfg) (hd : cfg.direct = true) (hl : LeafTransform cfg) (a b : Val) :
    verdict (compareTop cfg a b) = verdict (compareTop { cfg with tr := [] } (mapT cfg [] a) (mapT cfg [] b)) :=
  transform_direct_verdict cfg hd hl a b

/-- the full-strength statement (both entry points, every tree); still false for the keyed entry point on trees
with a list nested in a list (`C10_transform_keyed_nested_cex`) and with a composite key
(`C10_transform_keyed_ck_cex`); proved for the keyed entry point on lists of records and lists of leaves:
`C10_transform_keyed` -/
def C10_transform_stmt : Prop :=
  ∀ (cfg : Cfg), LeafTransform cfg → ∀ a b : Val,
    TrERel (compareTop cfg a b) (compareTop (noTransf cfg) (mapT cfg [] a) (mapT cfg [] b))

/-- fix C10-a: the keyed compare pairs non-record list items by the key of the *transformed* value:
`{'a': ['A']}` vs `{'a': ['a']}` with `('//a', lower)` reports nothing, as on the mapped trees (before the fix:
two unique entries) -/
theorem C10_transform_keyed_example :
    (match compareTop trCexCfg trCexA trCexB with | .ok r => r.diffs | .error _ => 1) = 0 ∧
      mapT trCexCfg [] trCexA = mapT trCexCfg [] trCexB ∧
      (match compareTop { trCexCfg with tr := [] } (mapT trCexCfg [] trCexA) (mapT trCexCfg [] trCexB) with
        | .ok r => r.diffs | .error _ => 1) = 0 :=
  transform_keyed_example

/-- what stays outside: a list nested in a list whose leaves are transformed by a pattern naming the index
(`//a[0]`): the outer items `['A']`, `['a']` are keyed by their own JSON text and do not meet, while the mapped
trees are equal -/
theorem C10_transform_keyed_nested_cex :
    LeafTransform trNestCfg ∧
    (match compareTop trNestCfg trNestA trNestB with | .ok r => r.diffs | .error _ => 0) = 2 ∧
      mapT trNestCfg [] trNestA = mapT trNestCfg [] trNestB ∧
      (match compareTop { trNestCfg with tr := [] } (mapT trNestCfg [] trNestA) (mapT trNestCfg [] trNestB) with
        | .ok r => r.diffs | .error _ => 1) = 0 :=
  ⟨trNestCfg_leaf, transform_keyed_nested_cex⟩

theorem C10_transform_refuted : ¬ C10_transform_stmt := by
  intro h
  have h1 := h trNestCfg trNestCfg_leaf trNestA trNestB
  obtain ⟨c1, c2, c3⟩ := transform_keyed_nested_cex
  cases hc : compareTop trNestCfg trNestA trNestB with
  | error e => rw [hc] at c1; simp at c1
  | ok r =>
    cases hc' : compareTop (noTransf trNestCfg) (mapT trNestCfg [] trNestA) (mapT trNestCfg [] trNestB) with
    | error e => rw [hc, hc'] at h1; exact h1.elim
    | ok r' =>
      rw [hc, hc'] at h1
      simp only [tr_erel_ok_ok, Res.shape, Prod.mk.injEq] at h1
      rw [hc] at c1
      change (match compareTop (noTransf trNestCfg) (mapT trNestCfg [] trNestA) (mapT trNestCfg [] trNestB) with
        | .ok r => r.diffs | .error _ => 1) = 0 at c3
      rw [hc'] at c3
      simp only at c1 c3
      omega

/-- **C10 (transform, keyed/default comparison, lists of records and lists of leaves).**  For `compare` without a
composite key (`cfg.direct = false`, `cfg.ck` empty), `LeafTransform cfg`, every other option and flag record, on
trees every list of which — at every depth — holds records only or leaves only (`recOnly`; a leaf is `None` or a
scalar): the run with `transform` on `(a, b)` and the run without it on the mapped trees raise the same exception or
return results of the same shape.  In a list of records every item has the key `''` and the n-th record meets the
n-th record; in a list of leaves (fix C10-a) an item is keyed by the JSON text of its TRANSFORMED value — the key
the same item has in the mapped tree —, so both runs pair the same positions, `[i]<>[j]` included, and two leaves
meet iff their transformed values have the same type and value. -/
theorem C10_transform_keyed (cfg : Cfg) (hd : cfg.direct = false) (hck : cfg.ck.pats.isEmpty = true)
    (hl : LeafTransform cfg) (a b : Val) (ha : recOnly a = true) (hb : recOnly b = true) :
    TrERel (compareTop cfg a b) (compareTop (noTransf cfg) (mapT cfg [] a) (mapT cfg [] b)) :=
  compareTop_tr_keyed cfg hd hck hl a b ha hb

/-- … in particular the verdict is the verdict on the mapped trees -/
theorem C10_transform_keyed_verdict (cfg : Cfg) (hd : cfg.direct = false) (hck : cfg.ck.pats.isEmpty = true)
    (hl : LeafTransform cfg) (a b : Val) (ha : recOnly a = true) (hb : recOnly b = true) :
    verdict (compareTop cfg a b) = verdict (compareTop { cfg with tr := [] } (mapT cfg [] a) (mapT cfg [] b)) :=
  transform_keyed_verdict cfg hd hck hl a b ha hb

/-- non-vacuity for lists of leaves: `{'a': ['A', 'b', 1]}` vs `{'a': [1, 'B', 'a', 'c']}` under `('//a', lower)`:
the three items meet across positions, `'c'` is unique -/
def trLeafA : Val := .dict .n0 [(['a'], .list .n0 [.str ['A'], .str ['b'], .int 1])]
def trLeafB : Val := .dict .n0 [(['a'], .list .n0 [.int 1, .str ['B'], .str ['a'], .str ['c']])]
example : recOnly trLeafA = true ∧ recOnly trLeafB = true ∧ recOnly trCexA = true := by decide
example : (compareTop trCexCfg trLeafA trLeafB).map (fun r => (r.diffs, r.otherUnique.map (·.path)))
    = .ok (1, [[.key ['a'], .idx 3]]) := by decide
example : (compareTop { trCexCfg with tr := [] } trLeafA trLeafB).map (·.diffs) = .ok 5 := by decide

/-- the former counter-example `C10_transform_keyed_ck_cex` (finding C10-c(b)): a transform that returns a non-`str`
for a key field (the identity function on the `int` key field `id`) used to raise `TypeError` (`str + int`); with
fix C08-b the transformed field goes through the JSON text, the run returns like the plain run on the mapped tree -/
theorem C10_transform_keyed_ck_fixed :
    recOnly trkCkA = true ∧ LeafTransform trkCkCfg ∧ (compareTop trkCkCfg trkCkA trkCkA).map (·.diffs) = .ok 0 ∧
      mapT trkCkCfg [] trkCkA = trkCkA ∧
      (compareTop { trkCkCfg with tr := [] } (mapT trkCkCfg [] trkCkA) (mapT trkCkCfg [] trkCkA)).map (·.diffs) = .ok 0 :=
  ⟨trk_ck_fixed.1, trkCkCfg_leaf, trk_ck_fixed.2.1, trk_ck_fixed.2.2.1, trk_ck_fixed.2.2.2⟩

/-- **C10 (transform with a composite key: the keys agree).**  For EVERY composite key, `LeafTransform cfg`, every
pattern (patterns naming an index included), every list whose items are leaves or records with leaf key fields: item
by item, the key the run with `transform` builds (the JSON text of the TRANSFORMED key fields, each looked up with the
path `prefix[i]/field` the leaf comparison uses — fixes C08-b, C10-c) is the key the same item has in the mapped list
in the run without `transform`.  So both runs pair the same positions, and a pattern that matches no dictionary entry
of the tree changes no key. -/
theorem C10_transform_keyed_ck_keys (cfg : Cfg) (hl : LeafTransform cfg) (p : Path) (xs : List Val) (i : Nat)
    (h : ∀ x ∈ xs, keyFieldsLeaf cfg x) :
    keysOf cfg p i xs = keysOf (noTransf cfg) p i (mapTL cfg p (transformAt cfg p) i xs) :=
  ckv_keysOf_mapped cfg hl p xs i h

/-- the transform lookup does not tell `[i]`, `[j]` and `[i]<>[j]` apart (no pattern names an index of a keyed list) -/
def IdxBlind (cfg : Cfg) : Prop :=
  ∀ (p : Path) (i j : Nat) (q : Path),
    transformAt cfg (p ++ .idx2 i j :: q) = transformAt cfg (p ++ .idx i :: q) ∧
    transformAt cfg (p ++ .idx2 i j :: q) = transformAt cfg (p ++ .idx j :: q)

/-- the statement of `C10_transform_keyed` WITH a composite key (and without: `cfg.ck` is unrestricted) — **proved**:
`C10_transform_keyed_ck` below.  The keys agree item by item (`C10_transform_keyed_ck_keys`), so both runs pair the same
positions; for a pair met across positions the run with `transform` compares the leaves at `prefix[i]<>[j]/field` while
the mapped trees were built with `prefix[i]/field` (left) and `prefix[j]/field` (right): under `IdxBlind` the three
lookups are one (`trck_mapT_congr`: the mapping of a subtree depends on its prefix only through the transform lookups of
the extensions of the prefix), and the walk induction goes through with general keys (`trck_keyedWalk`,
`Proofs/CompareTransformCk.lean`).  Also checked on the implementation by evaluator `transform/ck` (patterns
`rows/<field>`, `rows[i]/<field>`, `//<field>`, `*/<field>`). -/
def C10_transform_keyed_ck_stmt : Prop :=
  ∀ (cfg : Cfg) (a b : Val), cfg.direct = false → LeafTransform cfg → IdxBlind cfg →
    recOnly a = true → recOnly b = true →
    (∀ x ∈ allItems a ++ allItems b, keyFieldsLeaf cfg x) →
    TrERel (compareTop cfg a b) (compareTop (noTransf cfg) (mapT cfg [] a) (mapT cfg [] b))

/-- **C10 (transform, keyed/default comparison WITH a composite key).**  For `compare` (`cfg.direct = false`), EVERY
composite key, `LeafTransform cfg`, `IdxBlind cfg` (no transform pattern tells `[i]`, `[j]` and `[i]<>[j]` apart), every
other option and flag record, on trees every list of which holds records only or leaves only, the key fields of the
records being leaves: the run with `transform` on `(a, b)` and the run without it on the mapped trees raise the same
exception or return results of the same shape — records paired ACROSS positions (`[i]<>[j]`) included, at every depth
(keyed lists inside the records of keyed lists too). -/
theorem C10_transform_keyed_ck : C10_transform_keyed_ck_stmt := by
  intro cfg a b hd hl hb ha hb' hk
  exact compareTop_tr_ck cfg hd hl hb a b ⟨ha, fun z hz => hk z (List.mem_append_left _ hz)⟩
    ⟨hb', fun z hz => hk z (List.mem_append_right _ hz)⟩

/-- … in particular the verdict is the verdict on the mapped trees -/
theorem C10_transform_keyed_ck_verdict (cfg : Cfg) (a b : Val) (hd : cfg.direct = false) (hl : LeafTransform cfg)
    (hb : IdxBlind cfg) (ha : recOnly a = true) (hb' : recOnly b = true)
    (hk : ∀ x ∈ allItems a ++ allItems b, keyFieldsLeaf cfg x) :
    verdict (compareTop cfg a b) = verdict (compareTop { cfg with tr := [] } (mapT cfg [] a) (mapT cfg [] b)) := by
  have hrel := C10_transform_keyed_ck cfg a b hd hl hb ha hb' hk
  change _ = verdict (compareTop (noTransf cfg) (mapT cfg [] a) (mapT cfg [] b))
  cases hc : compareTop cfg a b <;> cases hc' : compareTop (noTransf cfg) (mapT cfg [] a) (mapT cfg [] b) <;>
    rw [hc, hc'] at hrel
  · rfl
  · exact hrel.elim
  · exact hrel.elim
  · simp only [tr_erel_ok_ok, Res.shape, Prod.mk.injEq] at hrel
    simp [verdict, hrel.1]

/-- **a syntactic criterion for `IdxBlind`**: no transform pattern contains the character `]` (no pattern names a list
index).  Replacing `[i]<>[j]` by `[i]` or `[j]` changes one part of the rendered path, which has a `]` before and after;
a pattern part without `]` is `*` (matches both) or equals neither, case folding included — for every tree, whatever
its keys are. -/
theorem C10_idxBlind_of_noBracket (cfg : Cfg) (h : ∀ t ∈ cfg.tr, ']' ∉ t.pat) : IdxBlind cfg :=
  trck_idxBlind_of_noBracket cfg h

/-- non-vacuity of `C10_transform_keyed_ck`: `composite_key='id'`, `transform=(('//n', lower), ('id', lower))` (the
second pattern changes the KEYS: `'X'` meets `'x'`).
`{'r': [{'id':'X','n':'A','v':1}, {'id':'y','n':'b','v':2}]}` vs `{'r': [{'id':'Y','n':'B','v':3}, {'id':'x','n':'a','v':1}, {'id':'z'}]}`:
the records meet ACROSS positions (`r[0]<>[1]`, `r[1]<>[0]`), the names agree after `lower`, one changed value at
`/r[1]<>[0]/v`, one extra record; without `transform` nothing meets (5 differences). -/
def ckxCfg : Cfg := { Cfg.default Flags.init false with
  ck := .one ['i', 'd'], tr := [⟨['/', '/', 'n'], lowerFn⟩, ⟨['i', 'd'], lowerFn⟩] }
def ckxRec (i n : Char) (v : Int) : Val := .dict .n0 [(['i', 'd'], .str [i]), (['n'], .str [n]), (['v'], .int v)]
def ckxA : Val := .dict .n0 [(['r'], .list .n0 [ckxRec 'X' 'A' 1, ckxRec 'y' 'b' 2])]
def ckxB : Val := .dict .n0 [(['r'], .list .n0 [ckxRec 'Y' 'B' 3, ckxRec 'x' 'a' 1, .dict .n0 [(['i', 'd'], .str ['z'])]])]

theorem ckxCfg_leaf : LeafTransform ckxCfg := by
  intro t ht
  simp only [ckxCfg, Cfg.default, List.mem_cons, List.not_mem_nil, or_false] at ht
  have hlow : (∀ c xs, lowerFn (.list c xs) = .list c xs) ∧ (∀ c kvs, lowerFn (.dict c kvs) = .dict c kvs) ∧
      (∀ v, isPyScalar v = true → isPyScalar (lowerFn v) = true) ∧
      (isPyScalar (lowerFn .none) = true ∨ lowerFn .none = .none) := by
    refine ⟨fun _ _ => rfl, fun _ _ => rfl, ?_, .inr rfl⟩
    intro v hv
    cases v <;> simp_all [lowerFn, isPyScalar]
  rcases ht with rfl | rfl <;> exact hlow

theorem ckxCfg_blind : IdxBlind ckxCfg := by
  apply C10_idxBlind_of_noBracket
  intro t ht
  simp only [ckxCfg, Cfg.default, List.mem_cons, List.not_mem_nil, or_false] at ht
  rcases ht with rfl | rfl <;> decide

theorem ckx_items : ∀ x ∈ allItems ckxA ++ allItems ckxB, keyFieldsLeaf ckxCfg x := by
  intro x hx
  simp only [ckxA, ckxB, allItems, allItemsK, allItemsL, ckxRec, List.append_nil, List.mem_append, List.mem_cons,
    List.not_mem_nil, or_false] at hx
  rcases hx with (rfl | rfl) | (rfl | rfl | rfl) <;>
    simp [keyFieldsLeaf, ckxCfg, Cfg.default, PatArg.pats, Val.lookup, isLeaf]

example : ckxCfg.direct = false ∧ ckxCfg.ck.pats = [['i', 'd']] ∧ recOnly ckxA = true ∧ recOnly ckxB = true := by decide
example : (compareTop ckxCfg ckxA ckxB).map (fun r => (r.diffs, r.notEqual.map (·.path), r.otherUnique.map (·.path)))
    = .ok (2, [[.key ['r'], .idx2 1 0, .key ['v']]], [[.key ['r'], .idx 2]]) := by decide
example : (compareTop { ckxCfg with tr := [] } ckxA ckxB).map (·.diffs) = .ok 5 := by decide
/-- every hypothesis of `C10_transform_keyed_ck` holds of these inputs -/
example : TrERel (compareTop ckxCfg ckxA ckxB) (compareTop (noTransf ckxCfg) (mapT ckxCfg [] ckxA) (mapT ckxCfg [] ckxB)) :=
  C10_transform_keyed_ck ckxCfg ckxA ckxB rfl ckxCfg_leaf ckxCfg_blind (by decide) (by decide) ckx_items

/-- … and at depth: a keyed list inside the records of a keyed list, pairs met across positions at BOTH levels —
`{'r': [{'id':'X','s':[{'id':'p','n':'A'}, {'id':'q','n':'b'}]}, {'id':'y','s':[]}]}` vs
`{'r': [{'id':'Y','s':[]}, {'id':'x','s':[{'id':'Q','n':'B'}, {'id':'P','n':'c'}]}]}`: the only difference is
`/r[0]<>[1]/s[0]<>[1]/n` (`'A'` vs `'c'`), in the run with `transform` and in the plain run on the mapped trees
(the implementation reports the same entry); the plain run on the original trees reports 4 differences. -/
def ckxSub (i n : Char) : Val := .dict .n0 [(['i', 'd'], .str [i]), (['n'], .str [n])]
def ckxOuter (i : Char) (s : List Val) : Val := .dict .n0 [(['i', 'd'], .str [i]), (['s'], .list .n0 s)]
def ckxNA : Val := .dict .n0 [(['r'], .list .n0 [ckxOuter 'X' [ckxSub 'p' 'A', ckxSub 'q' 'b'], ckxOuter 'y' []])]
def ckxNB : Val := .dict .n0 [(['r'], .list .n0 [ckxOuter 'Y' [], ckxOuter 'x' [ckxSub 'Q' 'B', ckxSub 'P' 'c']])]
example : recOnly ckxNA = true ∧ recOnly ckxNB = true := by decide
example : (compareTop ckxCfg ckxNA ckxNB).map (fun r => (r.diffs, r.notEqual.map (·.path)))
    = .ok (1, [[.key ['r'], .idx2 0 1, .key ['s'], .idx2 0 1, .key ['n']]]) := by decide
example : (compareTop (noTransf ckxCfg) (mapT ckxCfg [] ckxNA) (mapT ckxCfg [] ckxNB)).map (fun r => (r.diffs, r.notEqual.map (·.path)))
    = .ok (1, [[.key ['r'], .idx2 0 1, .key ['s'], .idx2 0 1, .key ['n']]]) := by decide
example : (compareTop (noTransf ckxCfg) ckxNA ckxNB).map (·.diffs) = .ok 4 := by decide
example : ∀ x ∈ allItems ckxNA ++ allItems ckxNB, keyFieldsLeaf ckxCfg x := by
  intro x hx
  simp only [ckxNA, ckxNB, allItems, allItemsK, allItemsL, ckxOuter, ckxSub, List.append_nil, List.nil_append,
    List.cons_append, List.mem_cons, List.not_mem_nil, or_false] at hx
  rcases hx with rfl | rfl | rfl | rfl | rfl | rfl | rfl | rfl <;>
    simp [keyFieldsLeaf, ckxCfg, Cfg.default, PatArg.pats, Val.lookup, isLeaf]

/-- the inputs of finding C10-c: `{'rows': [{'id': '1', 'v': 1}, {'id': '2', 'v': 2}]}` against the same with `rows`
reversed, `composite_key='id'`: (a) the pattern `rows/id` (no index: matches no dictionary entry) with the constant
function no longer changes the pairing — nothing reported, as without the option (before: every key `id=K`, four
differences); (b) the pattern `rows[0]/id` with `lower` on `id: 'A'` vs `id: 'a'`: the key is built from the
transformed field, the records meet and nothing is reported (before: two unique records) -/
def ckRows (x y : Val) : Val := .dict .n0 [(['r'], .list .n0 [x, y])]
def ckRec (i : Char) (v : Int) : Val := .dict .n0 [(['i', 'd'], .str [i]), (['v'], .int v)]
def constFn : Val → Val
  | .list c xs => .list c xs
  | .dict c kvs => .dict c kvs
  | _ => .str ['K']
def ckCfgA : Cfg := { Cfg.default Flags.init false with ck := .one ['i', 'd'], tr := [⟨['r', '/', 'i', 'd'], constFn⟩] }
def ckCfgB : Cfg := { Cfg.default Flags.init false with ck := .one ['i', 'd'], tr := [⟨['r', '[', '0', ']', '/', 'i', 'd'], lowerFn⟩] }
theorem C10_ck_pairing_fixed :
    (compareTop ckCfgA (ckRows (ckRec '1' 1) (ckRec '2' 2)) (ckRows (ckRec '2' 2) (ckRec '1' 1))).map (·.diffs) = .ok 0 ∧
    (compareTop { ckCfgA with tr := [] } (ckRows (ckRec '1' 1) (ckRec '2' 2)) (ckRows (ckRec '2' 2) (ckRec '1' 1))).map (·.diffs) = .ok 0 ∧
    (compareTop ckCfgB (.dict .n0 [(['r'], .list .n0 [ckRec 'A' 1])]) (.dict .n0 [(['r'], .list .n0 [ckRec 'a' 1])])).map (·.diffs) = .ok 0 ∧
    (compareTop { ckCfgB with tr := [] } (.dict .n0 [(['r'], .list .n0 [ckRec 'A' 1])]) (.dict .n0 [(['r'], .list .n0 [ckRec 'a' 1])])).map (·.diffs) = .ok 2 := by
  decide
/-- non-vacuity of `C10_transform_keyed_ck_keys`: the records above have leaf key fields; the keys of the transformed run -/
example : ∀ x ∈ [ckRec 'A' 1, ckRec 'b' 2], keyFieldsLeaf ckCfgB x := by
  intro x hx
  simp only [List.mem_cons, List.not_mem_nil, or_false] at hx
  rcases hx with rfl | rfl <;>
    simp [keyFieldsLeaf, ckRec, ckCfgB, Cfg.default, PatArg.pats, Val.lookup, isLeaf]
example : keysOf ckCfgB [.key ['r']] 0 [ckRec 'A' 1, ckRec 'B' 2] =
    .ok [['{', '"', 'i', 'd', '"', ':', ' ', '"', 'a', '"', '}'], ['{', '"', 'i', 'd', '"', ':', ' ', '"', 'B', '"', '}']] := by decide

/-- non-vacuity: lists of records whose names agree after `lower`, one changed value, one extra record -/
example : LeafTransform trkCfg := trkCfg_leaf
example : recOnly trkA = true ∧ recOnly trkB = true ∧ trkCfg.direct = false ∧ trkCfg.ck.pats.isEmpty = true ∧
    (compareTop trkCfg trkA trkB).map (fun r => (r.diffs, r.notEqual.map (·.path), r.otherUnique.map (·.path)))
      = .ok (2, [[.key ['r'], .idx 1, .key ['v']]], [[.key ['r'], .idx 2]]) ∧
    (compareTop { trkCfg with tr := [] } trkA trkB).map (·.diffs) = .ok 4 := trk_example

example : LeafTransform trCexCfg := trCexCfg_leaf
example : (match compareTop { trCexCfg with direct := true } trCexA trCexB with | .ok r => r.diffs | .error _ => 1) = 0 :=
  transform_direct_example

/-! Non-vacuity: patterns of every kind; a pair where each option really filters. -/
example : matchOne "/a[0]/Name".toList "//name".toList = true := by decide
example : matchOne "/a[0]/Name".toList "*/NAME".toList = true := by decide
example : matchOne "/a[0]/Name".toList "/a/name".toList = false := by decide
example : matchOne "/x/a/b".toList "/a/b".toList = true := by decide   -- a leading `/` does not anchor at the root
example : matchOne "/b".toList "a/b".toList = false := by decide
example : xpathMatch "/k/f".toList (.many ["zz".toList, "K/F".toList]) = 2 := by decide

def exA : Val := .dict .n0 [(['k'], .dict .n0 [(['f'], .int 1), (['g'], .int 2)]), (['l'], .list .n0 [.int 1]), (['m'], .none)]
def exB : Val := .dict .n0 [(['k'], .dict .n0 [(['f'], .int 5), (['g'], .int 6)]), (['l'], .list .n0 [.int 2])]
example : (compareTop (Cfg.default Flags.init true) exA exB).map (fun r => r.diffs) = .ok 4 := by decide
example : (compareTop { Cfg.default Flags.init true with excl := .one ['/', '/', 'k'] } exA exB).map (fun r => (r.diffs, r.notEqual.map (·.path)))
    = .ok (2, [[.key ['l'], .idx 0]]) := by decide
example : (compareTop { Cfg.default Flags.init true with only := .many [['f']] } exA exB).map (fun r => (r.diffs, r.notEqual.map (·.path), r.selfUnique.length))
    = .ok (2, [[.key ['k'], .key ['f']], [.key ['l'], .idx 0]], 0) := by decide

/-! Finding C10-d (open): a composite-key field whose value is a CONTAINER is keyed by the JSON text of its
untransformed leaves (the transform registered for the field's own path is applied to the field as a whole, and
`LeafTransform` functions are the identity on containers), so records whose key fields are equal after the transform
do not meet.  Outside the hypothesis `keyFieldsLeaf` of `C10_transform_keyed_ck`. -/
def ckContCfg : Cfg := { Cfg.default Flags.init false with ck := .one ['i', 'd'], tr := [⟨['/', '/', 'x'], lowerFn⟩] }
def ckContRec (c : Char) : Val := .dict .n0 [(['i', 'd'], .dict .n0 [(['x'], .str [c])]), (['v'], .int 1)]
def ckContA : Val := .dict .n0 [(['r'], .list .n0 [ckContRec 'A'])]
def ckContB : Val := .dict .n0 [(['r'], .list .n0 [ckContRec 'a'])]

/-- `{'r': [{'id': {'x': 'A'}, 'v': 1}]}` vs `{'r': [{'id': {'x': 'a'}, 'v': 1}]}`, `composite_key='id'`,
`transform=(('//x', lower),)`: both records are reported unique, although the mapped trees are equal and the run on
them reports nothing -/
theorem C10_container_key_field_cex :
    (match compareTop ckContCfg ckContA ckContB with | .ok r => r.diffs | .error _ => 0) = 2 ∧
      mapT ckContCfg [] ckContA = mapT ckContCfg [] ckContB ∧
      (match compareTop { ckContCfg with tr := [] } (mapT ckContCfg [] ckContA) (mapT ckContCfg [] ckContB) with
        | .ok r => r.diffs | .error _ => 1) = 0 := by
  decide

end N0.C10

/-! ################################################################################################################
# BEGIN generated-source tie (worker genxm; see notes/C10-gen.md) — keep this block at the end of the file

`Gen/XPathMatch.lean` is regenerated from the Python text of `xpath_match` (`n0struct/n0struct_utils_compare.py`) by
`harness/translate_py_cmp.py` on every run of `./check C10`; the theorems below are re-checked against the new text.
Proofs: `Proofs/XPathMatchGenEq.lean`.  The translated function returns an `int` inside `Except PyErr` (the translator
does not know that `xs[-1 - j]` cannot raise here); the model returns a natural number.
################################################################################################################ -/
namespace N0.C10
open N0 N0.Compare

/-- **The translated `xpath_match` is the hand-written model**, for every path text and every argument (`str`, or
tuple/list of `str`): same number, and it never raises (the `IndexError` of `xpath_parts[-1 - j]` is unreachable behind
the `j >= len(xpath_parts)` test; the `TypeError` branch is unreachable for a `PatArg`). -/
theorem C10_generated_xpath_match_eq (x : Str) (a : PatArg) :
    Gen.XPathMatch.xpathMatch x a = .ok (Int.ofNat (Compare.xpathMatch x a)) :=
  XPathMatchGenEq.xmgen_xpathMatch_eq x a

/-- the tuple / list specialisation is `xpathMatchFrom … 0` (what `transform` lookups and composite keys use) -/
theorem C10_generated_xpath_match_seq_eq (x : Str) (l : List Str) :
    Gen.XPathMatch.xpathMatchSeq x l = .ok (Int.ofNat (Compare.xpathMatchFrom x 0 l)) :=
  XPathMatchGenEq.xmgen_seq_eq x l

/-- the `str` specialisation is the one-element list -/
theorem C10_generated_xpath_match_str_eq (x s : Str) :
    Gen.XPathMatch.xpathMatchStr x s = .ok (Int.ofNat (Compare.xpathMatchFrom x 0 [s])) :=
  XPathMatchGenEq.xmgen_str_eq x s

/-- one iteration of the translated outer loop decides `matchOne` (the model of "this pattern matches this path") -/
theorem C10_generated_step_matchOne (x pat : Str) (i : Nat) :
    Gen.XPathMatch.XpathMatchSeq.step2 (Py.splitChar '/' x) () (pat, i) =
      .ok (if matchOne x pat then .exit (Int.ofNat i + 1) else .next ()) :=
  XPathMatchGenEq.xmgen_step2Seq (Py.splitChar '/' x) pat i

/-- **C10 (pattern matcher) on the translated code, result 0**: the translated `xpath_match` returns 0 iff no pattern
matches in the tail-anchored reading `specMatch` (case-insensitive, `*` = one part, empty part = any prefix) … -/
theorem C10_xpath_match_zero_generated (x : Str) (a : PatArg) :
    Gen.XPathMatch.xpathMatch x a = .ok 0 ↔ ∀ p ∈ a.pats, specMatch x p = false := by
  rw [C10_generated_xpath_match_eq, ← C10_xpath_match_zero]
  constructor
  · intro h
    have h' : Int.ofNat (xpathMatch x a) = 0 := by injection h
    exact Int.ofNat_eq_zero.mp h'
  · intro h; rw [h]; rfl

/-- … and `i + 1` iff the `i`-th pattern is the first one that matches. -/
theorem C10_xpath_match_pos_generated (x : Str) (a : PatArg) (i : Nat) :
    Gen.XPathMatch.xpathMatch x a = .ok (Int.ofNat (i + 1)) ↔
      (∃ p, a.pats[i]? = some p ∧ specMatch x p = true) ∧
        ∀ j < i, ∀ q, a.pats[j]? = some q → specMatch x q = false := by
  rw [C10_generated_xpath_match_eq, ← C10_xpath_match_pos]
  constructor
  · intro h
    have h' : Int.ofNat (xpathMatch x a) = Int.ofNat (i + 1) := by injection h
    exact Int.ofNat.inj h'
  · intro h; rw [h]

/-- a pattern given as `str` behaves as the one-element tuple — on the translated code -/
theorem C10_str_vs_tuple_generated (x s : Str) :
    Gen.XPathMatch.xpathMatch x (.one s) = Gen.XPathMatch.xpathMatch x (.many [s]) := by
  rw [C10_generated_xpath_match_eq, C10_generated_xpath_match_eq, C10_str_vs_tuple]

/-! Non-vacuity (the translated definitions are evaluated): `//`-relative, `*`, mixed case, a leading `/` that does not
anchor at the root, a pattern longer than the path, the second pattern of a tuple, the empty tuple, the `str` form. -/
example : Gen.XPathMatch.xpathMatch ['/', 'a', '[', '0', ']', '/', 'N', 'a', 'm', 'e'] (.one ['/', '/', 'n', 'a', 'm', 'e']) = .ok 1 := by decide +kernel
example : Gen.XPathMatch.xpathMatch ['/', 'a', '[', '0', ']', '/', 'N', 'a', 'm', 'e'] (.many [['*', '/', 'N', 'A', 'M', 'E']]) = .ok 1 := by decide +kernel
example : Gen.XPathMatch.xpathMatch ['/', 'x', '/', 'a', '/', 'b'] (.one ['/', 'a', '/', 'b']) = .ok 1 := by decide +kernel
example : Gen.XPathMatch.xpathMatch ['/', 'b'] (.one ['c', '/', 'a', '/', 'b']) = .ok 0 := by decide +kernel
example : Gen.XPathMatch.xpathMatch ['/', 'k', '/', 'f'] (.many [['z', 'z'], ['K', '/', 'F']]) = .ok 2 := by decide +kernel
example : Gen.XPathMatch.xpathMatch ['/', 'k', '/', 'f'] (.many []) = .ok 0 := by decide +kernel
example : Gen.XPathMatch.xpathMatch ['/', 'k'] (.one []) = .ok 1 := by decide +kernel   -- the empty pattern is one empty part
example : specMatch ['/', 'k', '/', 'f'] ['K', '/', 'F'] = true ∧ specMatch ['/', 'k', '/', 'f'] ['z', 'z'] = false := by decide +kernel

end N0.C10
/-! # END generated-source tie -/
