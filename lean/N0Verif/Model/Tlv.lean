import N0Verif.Py.Basic
/-!
  Model of `n0struct_utils.parse_tlv` / `generate_tlv` and of Python's `int(str)`.

  `parse_tlv` is a generator with a `while offset < len(input_buffer)` loop; the
  model is a fuelled loop over a step function that returns, for every yielded
  triplet, the three slices it consumed (tag, the text of the length field, value)
  together with the offset at which it starts and the value of the local variable
  `offset` after it (what the harness reads from the generator frame).

  The model follows the code **with fixes C16-a and C16-c applied**
  (`parse_tlv`: `if _len < 0: raise ValueError`; `generate_tlv`: a one-character `len_padding`
  that `int()` does not read through — `int(pad + pad + '1') != 1` or `ValueError` — is refused
  with `AssertionError` before anything is written).
  `stepOld` is the step of the code before fix C16-a; it is used only by the
  counter-example theorems of `Props/C16.lean`.

  Scope: `tag_fieldlen`, `len_fieldlen` are natural numbers, the paddings of
  `generate_tlv` are single characters (anything else makes `ljust`/`rjust` raise
  `TypeError` before any output), the mapping is `str → str`.
-/
namespace N0.Tlv
open N0 N0.Py

/-- `s[a:b]` for `0 ≤ a`, `0 ≤ b` (clamped at the end, empty when `b ≤ a`). -/
def slice (s : Str) (a b : Nat) : Str := (s.drop a).take (b - a)

/-! ### `int(str)` -/

/-- the characters `int()` strips: ASCII `\t\n\v\f\r` and blank; beyond ASCII every
`str.isspace` character (CPython maps them to a blank first).  The ASCII separators
28..31 are *not* stripped by `int()`. -/
def isIntSpace (c : Char) : Bool :=
  let n := c.toNat
  (9 ≤ n && n ≤ 13) || n = 32 || n = 0x85 || n = 0xA0 || n = 0x1680
  || (0x2000 ≤ n && n ≤ 0x200A) || n = 0x2028 || n = 0x2029 || n = 0x202F
  || n = 0x205F || n = 0x3000

/-- scope of the `int()` model: Latin-1 (no decimal digit other than `0`..`9` below
U+0100), or one of the listed blanks (another character could be a Unicode decimal
digit, which `int()` accepts). -/
def intInScope (s : Str) : Bool := s.all (fun c => c.toNat < 256 || isIntSpace c)

def stripInt (s : Str) : Str :=
  ((s.dropWhile isIntSpace).reverse.dropWhile isIntSpace).reverse

/-- digits, single underscores allowed between two digits; `acc` = value so far,
called after a digit has been read -/
def digitsTail : Nat → Str → Option Nat
  | acc, [] => some acc
  | acc, '_' :: c :: rest =>
      if isAsciiDigit c then digitsTail (acc * 10 + digitVal c) rest else none
  | acc, c :: rest =>
      if isAsciiDigit c then digitsTail (acc * 10 + digitVal c) rest else none

def digitsNat : Str → Option Nat
  | [] => none
  | c :: rest => if isAsciiDigit c then digitsTail (digitVal c) rest else none

/-- `int(s)` in base 10; `none` = `ValueError`. -/
def pyInt (s : Str) : Option Int :=
  match stripInt s with
  | '+' :: r => (digitsNat r).map Int.ofNat
  | '-' :: r => (digitsNat r).map (fun n => - Int.ofNat n)
  | r => (digitsNat r).map Int.ofNat

/-! ### parse_tlv -/

structure Trip where
  tag     : Str
  lenText : Str          -- the slice handed to `int()` (not yielded, used to state tiling)
  len     : Int
  value   : Str
  off     : Nat          -- `offset` when the iteration starts
  next    : Nat          -- `offset` after the iteration
  deriving Repr, DecidableEq

/-- the characters of the input a triplet stands for -/
def Trip.cells (t : Trip) : Str := t.tag ++ t.lenText ++ t.value

inductive Status
  | done
  | raised (e : PyErr)
  deriving Repr, DecidableEq

structure Res where
  trips  : List Trip
  off    : Nat           -- `offset` when the generator stopped
  status : Status
  deriving Repr, DecidableEq

/-- one iteration of the `while` body (fixed code) -/
def step (pyInt : Str → Option Int) (s : Str) (tl ll : Nat) (off : Nat) : Except PyErr Trip :=
  let tag := slice s off (off + tl)
  let lt := slice s (off + tl) (off + tl + ll)
  match pyInt lt with
  | none => .error .ValueError
  | some n =>
    if n < 0 then .error .ValueError
    else
      let o2 := off + tl + ll
      .ok { tag := tag, lenText := lt, len := n, value := slice s o2 (o2 + n.toNat),
            off := off, next := o2 + n.toNat }

/-- the iteration of the code before fix C16-a: a negative length moves the offset
backwards (an offset below zero is outside this model) -/
def stepOld (pyInt : Str → Option Int) (s : Str) (tl ll : Nat) (off : Nat) : Except PyErr Trip :=
  let tag := slice s off (off + tl)
  let lt := slice s (off + tl) (off + tl + ll)
  match pyInt lt with
  | none => .error .ValueError
  | some n =>
    let o2 := off + tl + ll
    if (o2 : Int) + n < 0 then .error .Unsupported
    else
      .ok { tag := tag, lenText := lt, len := n, value := slice s o2 ((o2 : Int) + n).toNat,
            off := off, next := ((o2 : Int) + n).toNat }

/-- `while offset < len(input_buffer): …; yield` -/
def loop (stp : Nat → Except PyErr Trip) (n : Nat) : Nat → Nat → Res
  | 0, off => { trips := [], off := off, status := .raised .OutOfFuel }
  | fuel + 1, off =>
    if off < n then
      match stp off with
      | .error e => { trips := [], off := off, status := .raised e }
      | .ok t =>
        let r := loop stp n fuel t.next
        { r with trips := t :: r.trips }
    else { trips := [], off := off, status := .done }

def parseWith (stp : Nat → Except PyErr Trip) (s : Str) (fuel : Nat) : Res :=
  if s.isEmpty then { trips := [], off := 0, status := .done }
  else loop stp s.length fuel 0

/-- `list(parse_tlv(s, tl, ll))` with an explicit fuel -/
def parseTlvFuel (pyInt : Str → Option Int) (s : Str) (tl ll fuel : Nat) : Res :=
  parseWith (step pyInt s tl ll) s fuel

/-- the fuel `|s| + 1` is always enough (`C16_tlv_terminates`) -/
def parseTlv (pyInt : Str → Option Int) (s : Str) (tl ll : Nat) : Res :=
  parseTlvFuel pyInt s tl ll (s.length + 1)

def parseTlvOld (pyInt : Str → Option Int) (s : Str) (tl ll fuel : Nat) : Res :=
  parseWith (stepOld pyInt s tl ll) s fuel

/-- what the caller of `parse_tlv` sees of a triplet -/
def Trip.view (t : Trip) : Str × Int × Str := (t.tag, t.len, t.value)

/-! ### generate_tlv -/

/-- `str(n)` for `n ≥ 0` -/
def decimal (n : Nat) : Str := Nat.toDigits 10 n

def genEntry (tl ll : Nat) (tp lp : Char) (tag value : Str) : Except PyErr Str :=
  if tag.length ≤ tl then
    if (decimal value.length).length ≤ ll then
      .ok (ljust tl tp tag ++ rjust ll lp (decimal value.length) ++ value)
    else .error .AssertionError
  else .error .AssertionError

/-- the `''.join(… for _tag, _value in input_dict.items())` of `generate_tlv`: entries are
produced in order, the first entry that does not fit raises -/
def genEntries (tl ll : Nat) (tp lp : Char) : List (Str × Str) → Except PyErr Str
  | [] => .ok []
  | (t, v) :: rest =>
    match genEntry tl ll tp lp t v with
    | .error e => .error e
    | .ok e =>
      match genEntries tl ll tp lp rest with
      | .error e' => .error e'
      | .ok r => .ok (e ++ r)

/-- the probe of fix C16-c, as the code has it: `try: readable = int(f"{pad}{pad}1") == 1`
`except ValueError: readable = False` (`len_padding` a single character).  It holds exactly for
`'0'` and the characters `int()` strips (`lenPadOk_iff` in `Proofs/Tlv.lean`). -/
def lenPadOk (lp : Char) : Bool := pyInt [lp, lp, '1'] == some 1

/-- scope of the padding check: the probe hands the padding to `int()` (see `intInScope`); a
Unicode decimal zero such as U+0660 is read through by the real `int()` and is outside the model -/
def padInScope (lp : Char) : Bool := intInScope [lp]

/-- `generate_tlv(dict(d), tl, ll, tp, lp)`: the probe of `len_padding` (`if not readable:
raise_exception(str)` = `AssertionError`, raised before any entry is looked at), then the entries -/
def generateTlv (tl ll : Nat) (tp lp : Char) (d : List (Str × Str)) : Except PyErr Str :=
  if lenPadOk lp then genEntries tl ll tp lp d else .error .AssertionError

/-! ### vocabulary of the property statements -/

/-- every tag and every length text fits its field -/
def Fits (tl ll : Nat) (d : List (Str × Str)) : Prop :=
  ∀ e ∈ d, e.1.length ≤ tl ∧ (decimal e.2.length).length ≤ ll

/-- `int()` reads a length field back: what the round trip needs of the reader `pyInt`
for the padding `lp` (true of Python's `int()` for every padding `generate_tlv` accepts:
`C16_pyint_reads_accepted`) -/
def IntReads (pyInt : Str → Option Int) (ll : Nat) (lp : Char) : Prop :=
  ∀ n : Nat, (decimal n).length ≤ ll → pyInt (rjust ll lp (decimal n)) = some (n : Int)

/-- the triplet that entry `(tag, value)` must come back as -/
def expected (tl : Nat) (tp : Char) (e : Str × Str) : Str × Int × Str :=
  (ljust tl tp e.1, (e.2.length : Int), e.2)

end N0.Tlv
