import N0Verif.Model.XPathApi
/-!
  The **fuel bound** of the xpath search (C04, termination): `termFuel t s` steps of fuel are enough
  for `get`/item access/`first` of the string `s` on the tree `t` (proved in `Proofs/XPathTerm*.lean`,
  `Props/C04.lean: C04_fuel_bound`, for strings without `new()` on trees with plain-name keys).

  The bound is computed from the parse of the tokens (`splitNameIndex`), the height and the width of the
  tree.  It lives here (and not with the proofs) because the driver evaluates it.
-/
namespace N0.XPath
open N0 N0.Py N0.Val

/-! ### height and width -/

mutual
/-- nesting depth: scalars 0, a container one more than its deepest child -/
def termHgt : Val → Nat
  | .list _ xs => termHgtL xs + 1
  | .dict _ kvs => termHgtK kvs + 1
  | _ => 0
def termHgtL : List Val → Nat
  | [] => 0
  | x :: xs => max (termHgt x) (termHgtL xs)
def termHgtK : List (Str × Val) → Nat
  | [] => 0
  | (_, v) :: kvs => max (termHgt v) (termHgtK kvs)
end

mutual
/-- the largest number of children of any container in the value -/
def termWd : Val → Nat
  | .list _ xs => max xs.length (termWdL xs)
  | .dict _ kvs => max kvs.length (termWdK kvs)
  | _ => 0
def termWdL : List Val → Nat
  | [] => 0
  | x :: xs => max (termWd x) (termWdL xs)
def termWdK : List (Str × Val) → Nat
  | [] => 0
  | (_, v) :: kvs => max (termWd v) (termWdK kvs)
end

/-- a potential: height of the current node → pieces of `found` → fuel -/
abbrev TermPotF := Nat → Nat → Nat

/-- fuel for re-resolving a `found` text of `g` pieces from `self` (stage 1) -/
def termR (H W g : Nat) : Nat := (W + 4) * H + 2 * g + 1

def termNil (H W : Nat) : TermPotF := fun _ g => termR H W g + 1

/-- `..` (no index), then `C` -/
def termU0 (H W : Nat) (C : TermPotF) : TermPotF := fun _ g => 1 + max (termR H W g) (C (H + 1) (g + 2 * H))

/-- a token without a name, then `C` (`termR`: a `[new()]` step re-resolves `found` and ends the search) -/
def termZ (H W : Nat) : Nat → TermPotF → Nat → Nat
  | 0, C, g => (W + 4) + max (C 0 (g + 1)) (termR H W g)
  | h + 1, C, g =>
    max ((W + 4) + max (C (h + 1) (g + 1)) (termR H W g))
      (max ((W + 4) + termZ H W h C (g + 1)) (1 + termZ H W h (termU0 H W C) (g + 1)))

/-- a name token other than `..`, then `C` -/
def termN (H W : Nat) : Nat → TermPotF → Nat → Nat
  | 0, _, _ => 1
  | h + 1, C, g => max ((W + 4) + termN H W h C (g + 1)) (1 + termZ H W h C (g + 1))

/-- `..[s]`, then `C` -/
def termU (H W : Nat) (C : TermPotF) : TermPotF :=
  fun _ g => 1 + max (termR H W g) (termZ H W (H + 1) C (g + 2 * H))

def termTokPot (H W : Nat) (tok : Str) (C : TermPotF) : TermPotF :=
  match splitNameIndex tok with
  | .error _ => fun _ _ => 1
  | .ok (name, idx) =>
    if name.isEmpty then fun h g => termZ H W h C g
    else if name = ['.', '.'] then (if idx.truthy then termU H W C else termU0 H W C)
    else fun h g => termN H W h C g

/-- **the fuel bound** for a token list -/
def termPot (H W : Nat) : List Str → TermPotF
  | [] => termNil H W
  | t :: ts => termTokPot H W t (termPot H W ts)

/-- fuel bound of the list-side search -/
def termPotL (H W : Nat) : List Str → Nat → Nat
  | [], g => termR H W g + g + 2
  | t :: ts, g =>
    -- a name or a condition is handed to the dict-side search as it is (fix C06-f); an index step is walked here
    max (1 + termPot H W (t :: ts) H g) ((W + 3) + max (termPot H W ts H (g + 1)) (termPotL H W ts (g + 1)))

/-- **the fuel that is enough** for the string `s` on the tree `t`: the dict-side and the list-side
bound of its tokens (after a leading `?`), for the height and the width of `t` -/
def termFuel (t : Val) (s : Str) : Nat :=
  let H := termHgt t
  let W := max 1 (termWd t)
  let toks := tokenize (if startsWith s ['?'] then s.drop 1 else s)
  max (termPot H W toks H 0) (termPotL H W toks 0)

end N0.XPath
