/-!
# Name resolution over a package symbol table (C20)

The table (`Table`) is produced by `harness/translate_names.py` from the Python sources
(`Gen/Symtab.lean`); identifiers are interned as `Nat`.

* `Defines tbl m n`    — declarative: name `n` is an attribute of module `m` once the package is
                          imported: bound at module level, or star-imported from a module that
                          exports it and itself defines it.
* `Resolves tbl m n`   — a global reference to `n` from code of module `m` finds something:
                          `Defines` or a builtin.
* `HasAttr tbl m c a`  — an instance of class `c` of module `m` has attribute `a`: defined in the
                          class body / assigned through `self.a = …` in one of its methods, or
                          provided by a library base class (recursively), or by an external base
                          (`dir` of that class; `object` is a base of every class), or a base
                          the translator could not resolve (`unknown`: anything may exist).
* `Ancestor tbl m c m' c'` — `(m', c')` is `(m, c)` or a library ancestor of it.
* executable checkers `definesB`, `resolvesB`, `hasAttrB`, `ancestors`, `closedB`, `checkRefs`,
  `checkImports`, `checkAttrs`, `checkAll` and the lists of offenders `badRefs`, `badImports`,
  `badAttrs`, `badAll` (what the driver prints and the Python twin recomputes).

Soundness of the checkers w.r.t. the declarative relations is in `Proofs/Names.lean`.
-/
namespace N0.Names

/-- a base class as resolved by the translator -/
inductive Base where
  | lib (m c : Nat)   -- class number `c` of module number `m`
  | ext (e : Nat)     -- external class number `e` (`Table.ext`), 0 = `object`
  | unknown           -- could not be resolved statically
deriving Repr, DecidableEq, Inhabited

structure Cls where
  name  : Nat
  bases : List Base
  attrs : List Nat            -- class-body names (mangled) and `self.x = …` stores
  loads : List (Nat × Nat)    -- (method, attribute) for every `self.x` load
deriving Repr, DecidableEq, Inhabited

structure Mod where
  name    : Nat
  bound   : List Nat                  -- names bound at module level
  stars   : List Nat                  -- star-imported package modules, in order
  all     : Option (List Nat)         -- `__all__`
  refs    : List (Nat × Nat)          -- (function, global name referenced)
  imports : List (Nat × Nat × Nat)    -- (function, target module, name) of `from .m import name`
  classes : List Cls
deriving Repr, DecidableEq, Inhabited

structure Table where
  mods     : List Mod
  pkg      : Nat                      -- index of the package `__init__`
  builtins : List Nat                 -- `dir(builtins)`
  ext      : List (List Nat)          -- `dir(C)` of external base classes; `ext[0]` = object
  priv     : List Nat                 -- interned names starting with an underscore
  concrete : List (Nat × Nat)         -- (module, class) of the classes the package exports
deriving Repr, DecidableEq, Inhabited

def Table.mod? (tbl : Table) (m : Nat) : Option Mod := tbl.mods[m]?

def Table.cls? (tbl : Table) (m c : Nat) : Option Cls :=
  match tbl.mods[m]? with
  | some mi => mi.classes[c]?
  | none => none

/-- what `from m import *` takes from `m`: `__all__` when present, else the public names -/
def exportsB (tbl : Table) (mi : Mod) (n : Nat) : Bool :=
  match mi.all with
  | some l => l.contains n
  | none => !tbl.priv.contains n

/-! ## declarative relations -/

inductive Defines (tbl : Table) : Nat → Nat → Prop
  | bound {m n : Nat} {mi : Mod} :
      tbl.mod? m = some mi → n ∈ mi.bound → Defines tbl m n
  | star {m m' n : Nat} {mi mi' : Mod} :
      tbl.mod? m = some mi → m' ∈ mi.stars → tbl.mod? m' = some mi' →
      exportsB tbl mi' n = true → Defines tbl m' n → Defines tbl m n

def Resolves (tbl : Table) (m n : Nat) : Prop := Defines tbl m n ∨ n ∈ tbl.builtins

inductive HasAttr (tbl : Table) : Nat → Nat → Nat → Prop
  | own {m c a : Nat} {ci : Cls} :
      tbl.cls? m c = some ci → a ∈ ci.attrs → HasAttr tbl m c a
  | inherit {m c m' c' a : Nat} {ci : Cls} :
      tbl.cls? m c = some ci → Base.lib m' c' ∈ ci.bases → HasAttr tbl m' c' a → HasAttr tbl m c a
  | ext {m c e a : Nat} {ci : Cls} {l : List Nat} :
      tbl.cls? m c = some ci → Base.ext e ∈ ci.bases → tbl.ext[e]? = some l → a ∈ l → HasAttr tbl m c a
  | unknown {m c a : Nat} {ci : Cls} :
      tbl.cls? m c = some ci → Base.unknown ∈ ci.bases → HasAttr tbl m c a

/-- `(m', c')` is `(m, c)` or one of its library ancestors -/
inductive Ancestor (tbl : Table) : Nat → Nat → Nat → Nat → Prop
  | self {m c : Nat} {ci : Cls} : tbl.cls? m c = some ci → Ancestor tbl m c m c
  | step {m c m' c' m'' c'' : Nat} {ci : Cls} :
      tbl.cls? m c = some ci → Base.lib m' c' ∈ ci.bases → Ancestor tbl m' c' m'' c'' →
      Ancestor tbl m c m'' c''

/-! ## executable checkers -/

def definesB (tbl : Table) : Nat → Nat → Nat → Bool
  | 0, _, _ => false
  | fuel + 1, m, n =>
    match tbl.mod? m with
    | none => false
    | some mi =>
      mi.bound.contains n ||
      mi.stars.any (fun m' =>
        match tbl.mod? m' with
        | none => false
        | some mi' => exportsB tbl mi' n && definesB tbl fuel m' n)

/-- enough fuel for every acyclic chain of star imports -/
def Table.fuel (tbl : Table) : Nat := tbl.mods.length + 1

def resolvesB (tbl : Table) (m n : Nat) : Bool :=
  definesB tbl tbl.fuel m n || tbl.builtins.contains n

def hasAttrB (tbl : Table) : Nat → Nat → Nat → Nat → Bool
  | 0, _, _, _ => false
  | fuel + 1, m, c, a =>
    match tbl.cls? m c with
    | none => false
    | some ci =>
      ci.attrs.contains a ||
      ci.bases.any (fun b =>
        match b with
        | .lib m' c' => hasAttrB tbl fuel m' c' a
        | .ext e => match tbl.ext[e]? with
                    | some l => l.contains a
                    | none => false
        | .unknown => true)

/-- `(m, c)` and its library ancestors (with repetitions), following `lib` bases -/
def ancestors (tbl : Table) : Nat → Nat → Nat → List (Nat × Nat)
  | 0, _, _ => []
  | fuel + 1, m, c =>
    match tbl.cls? m c with
    | none => []
    | some ci =>
      (m, c) :: ci.bases.flatMap (fun b =>
        match b with
        | .lib m' c' => ancestors tbl fuel m' c'
        | _ => [])

/-- the list contains every library base of each of its members -/
def closedB (tbl : Table) (l : List (Nat × Nat)) : Bool :=
  l.all (fun mc =>
    match tbl.cls? mc.1 mc.2 with
    | none => true
    | some ci => ci.bases.all (fun b =>
        match b with
        | .lib m' c' => l.contains (m', c')
        | _ => true))

def Table.classFuel (tbl : Table) : Nat :=
  (tbl.mods.map (fun mi => mi.classes.length)).sum + 1

/-! ### the four checks (what the instance theorems of `Props/C20.lean` evaluate) -/

/-- every global reference of every function resolves -/
def checkRefs (tbl : Table) : Bool :=
  tbl.mods.zipIdx.all (fun p => p.1.refs.all (fun r => resolvesB tbl p.2 r.2))

/-- every `from .t import n` finds `n` in `t` -/
def checkImports (tbl : Table) : Bool :=
  tbl.mods.all (fun mi => mi.imports.all (fun r => definesB tbl tbl.fuel r.2.1 r.2.2))

/-- the self-attribute loads of class `(m', c')` all exist on instances of `(m, c)` -/
def loadsOkB (tbl : Table) (m c : Nat) (mc' : Nat × Nat) : Bool :=
  match tbl.cls? mc'.1 mc'.2 with
  | none => true
  | some ci' => ci'.loads.all (fun r => hasAttrB tbl tbl.classFuel m c r.2)

/-- for every exported class: the ancestor list is complete (`closedB`) and every self-attribute
load in the class or an ancestor exists on its instances -/
def checkAttrs (tbl : Table) : Bool :=
  tbl.concrete.all (fun mc =>
    let anc := ancestors tbl tbl.classFuel mc.1 mc.2
    anc.contains mc && closedB tbl anc && anc.all (loadsOkB tbl mc.1 mc.2))

/-- every name of every `__all__` is defined in its module and is an attribute of the package -/
def checkAll (tbl : Table) : Bool :=
  tbl.mods.zipIdx.all (fun p =>
    match p.1.all with
    | none => true
    | some l => l.all (fun n => definesB tbl tbl.fuel p.2 n && definesB tbl tbl.fuel tbl.pkg n))

/-! ### the offenders, for messages (driver op `names.bad`, mirrored by the Python twin) -/

/-- unresolved global references: (module, function, name) -/
def badRefs (tbl : Table) : List (Nat × Nat × Nat) :=
  tbl.mods.zipIdx.flatMap (fun p =>
    (p.1.refs.filter (fun r => !resolvesB tbl p.2 r.2)).map (fun r => (p.2, r.1, r.2)))

/-- `from .t import n` whose target does not define `n`: (module, function, target, name) -/
def badImports (tbl : Table) : List (Nat × Nat × Nat × Nat) :=
  tbl.mods.zipIdx.flatMap (fun p =>
    (p.1.imports.filter (fun r => !definesB tbl tbl.fuel r.2.1 r.2.2)).map (fun r => (p.2, r.1, r.2.1, r.2.2)))

/-- self-attribute loads that nothing along the inheritance chain provides:
(module, class) of the exported class, (module, class) of the class holding the method, method, attribute -/
def badAttrs (tbl : Table) : List (Nat × Nat × Nat × Nat × Nat × Nat) :=
  tbl.concrete.flatMap (fun mc =>
    (ancestors tbl tbl.classFuel mc.1 mc.2).eraseDups.flatMap (fun mc' =>
      match tbl.cls? mc'.1 mc'.2 with
      | none => []
      | some ci' =>
        (ci'.loads.filter (fun r => !hasAttrB tbl tbl.classFuel mc.1 mc.2 r.2)).map
          (fun r => (mc.1, mc.2, mc'.1, mc'.2, r.1, r.2))))

/-- export-list defects: (module, name, kind); kind 0 = listed in `__all__` but not defined in the
module, 1 = exported by a module but not an attribute of the package -/
def badAll (tbl : Table) : List (Nat × Nat × Nat) :=
  tbl.mods.zipIdx.flatMap (fun p =>
    match p.1.all with
    | none => []
    | some l =>
      ((l.filter (fun n => !definesB tbl tbl.fuel p.2 n)).map (fun n => (p.2, n, 0))) ++
      ((l.filter (fun n => !definesB tbl tbl.fuel tbl.pkg n)).map (fun n => (p.2, n, 1))))

/-- `checkRefs` with a list of excused `(module, function, name)` triples (open known findings) -/
def checkRefsExcept (tbl : Table) (known : List (Nat × Nat × Nat)) : Bool :=
  tbl.mods.zipIdx.all (fun p =>
    p.1.refs.all (fun r => resolvesB tbl p.2 r.2 || known.contains (p.2, r.1, r.2)))

/-- names defined by module `m`, among the candidates `0 … bound-1` (for the correspondence) -/
def definedNames (tbl : Table) (m bound : Nat) : List Nat :=
  (List.range bound).filter (fun n => definesB tbl tbl.fuel m n)

end N0.Names
