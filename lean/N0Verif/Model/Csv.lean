import N0Verif.Py.Basic
/-!
  Model of `n0struct_files_csv.parse_complex_csv_line`, `generate_complex_csv_row`
  and of `csv.writer(..., quoting=QUOTE_MINIMAL).writerow` (n0struct_files_csv.py).

  The parser is a character state machine with two flags; the model follows the
  Python branch by branch.  A bytes line is handled by the same code (each byte
  is turned back into a one-byte `bytes`); the model represents a byte as the
  character with the same code (0..255).
-/
namespace N0.Csv
open N0 N0.Py

def crlf : Str := ['\r', '\n']

structure St where
  field : Str            -- field_value
  out   : List Str       -- fields_in_the_row
  qb    : Bool           -- flag_quotes_in_the_begining
  ex    : Bool           -- flag_expect_delimiter_or_quotes
  deriving Repr, DecidableEq

def St.init : St := { field := [], out := [], qb := false, ex := false }

/-- One iteration of the `for offset, ch in enumerate(...)` loop. -/
def step (d : Char) (st : St) (ch : Char) : PyM St :=
  if ch = d ∧ (st.qb = false ∨ st.ex = true) then
    .ok { field := [], out := st.out ++ [st.field], qb := false, ex := false }
  else if ch = '"' then
    if st.field.isEmpty ∧ st.qb = false then
      .ok { st with qb := true }
    else if st.qb then
      if st.ex = false then .ok { st with ex := true }          -- first quote of a pair: skip
      else .ok { st with ex := false, field := st.field ++ [ch] } -- second quote: keep one
    else .ok { st with field := st.field ++ [ch] }
  else if st.ex then .error .ValueError
  else .ok { st with field := st.field ++ [ch] }

def run (d : Char) : St → Str → PyM St
  | st, [] => .ok st
  | st, ch :: rest => do
      let st' ← step d st ch
      run d st' rest

/-- `parse_complex_csv_line(line, delimiter)` with the identity `process_field`. -/
def parse (d : Char) (line : Str) : PyM (List Str) := do
  let st ← run d St.init (rstrip crlf line)
  return st.out ++ [st.field]

/-- quoting of one field once the decision to quote is taken -/
def quoted (f : Str) : Str :=
  '"' :: (f.flatMap (fun c => if c = '"' then ['"', '"'] else [c])) ++ ['"']

/-- the decision of `generate_complex_csv_row`: delimiter inside, or leading quote -/
def needsQuote (d : Char) (f : Str) : Bool := f.contains d || f.head? == some '"'

def encWith (q : Str → Bool) (f : Str) : Str := if q f then quoted f else f

/-- `generate_complex_csv_row(row, delimiter, EOL)` for a row of strings:
accumulate `field + delimiter`, cut the last delimiter, add EOL. -/
def gen (d : Char) (row : List Str) (eol : Str) : Str :=
  let acc := row.flatMap (fun f => encWith (needsQuote d) f ++ [d])
  acc.dropLast ++ eol

/-- The decision of `csv.writer` with `QUOTE_MINIMAL` (CPython `_csv.c`,
`join_append_data`): delimiter, quote character or a character of the line
terminator inside the field; a row consisting of one empty field is quoted. -/
def writerNeedsQuote (d : Char) (term : Str) (single : Bool) (f : Str) : Bool :=
  f.any (fun c => c = d || c = '"' || term.contains c) || (single && f.isEmpty)

def writerLine (d : Char) (term : Str) (row : List Str) : Str :=
  let single := row.length == 1
  join [d] (row.map (encWith (writerNeedsQuote d term single))) ++ term

end N0.Csv
