import N0Verif.Model.Tree
/-!
  Model of the xpath engine of `n0dict`/`n0list`:
  `split_name_index` (n0struct_utils_find.py), `n0eval` (n0struct_utils.py),
  `n0dict._find`, `n0list._find`, `n0dict._add` (n0struct_n0list_n0dict.py),
  `_get/get/first/__getitem__/__setitem__/delete/pop` (n0struct_n0dict__.py,
  n0struct_n0list_.py) and `xpath()` (n0struct_n0dict_.py).

  The model follows the Python branch by branch (same order of tests, same
  exception class on every failing branch).  Objects are immutable here, so a
  "parent node" is a *reference*: a position in the root, a temporary
  one-element list wrapping such an object, or a detached value.
-/
namespace N0.XPath
open N0 N0.Py N0.Val

/-! ## tokens -/

/-- the value a condition compares with: a bool for `true()`/`false()`, otherwise the text
(the empty text included) -/
inductive CondVal
  | str (s : Str)
  | bool (b : Bool)
  deriving DecidableEq, Repr, Inhabited

/-- second component of `split_name_index` -/
inductive Idx
  | none
  | str (s : Str)
  | cond (k : Str) (op : Str) (v : CondVal)
  deriving DecidableEq, Repr, Inhabited

def Idx.truthy : Idx → Bool
  | .none => false
  | .str s => !s.isEmpty
  | .cond .. => true

/-- `s.split(sep, 1)` for a non-empty separator: `none` when `sep` does not occur -/
def split1 (sep : Str) : Nat → Str → Str → Option (Str × Str)
  | 0, _, _ => Option.none
  | _ + 1, _, [] => Option.none
  | f + 1, acc, c :: s =>
    if startsWith (c :: s) sep then some (acc.reverse, (c :: s).drop sep.length)
    else split1 sep f (c :: acc) s

def splitOnce (sep : Str) (s : Str) : Option (Str × Str) := split1 sep (s.length + 1) [] s

def hasPercent (s : Str) : Bool := s.contains '%'

def condDelims : List Str :=
  [['=', '='], ['!', '='], ['~', '~'], ['!', '~'], ['~'], ['=']]

def firstDelim (s : Str) : List Str → Option Str
  | [] => Option.none
  | d :: ds => if isInfix d s then some d else firstDelim s ds

def sTrue : Str := "true()".toList
def sFalse : Str := "false()".toList
def sContains : Str := "contains".toList
def sText : Str := "text".toList
def sTextFn : Str := "text()".toList
def sNew : Str := "new()".toList
def sLast : Str := "last()".toList

/-- the condition part of `split_name_index` once the index text is known -/
def parseCond (s : Str) : PyM Idx :=
  if s.contains '=' || s.contains '~' then
    match firstDelim s condDelims with
    | Option.none => .error .SyntaxError
    | some d =>
      match splitOnce d s with
      | Option.none => .error .SyntaxError
      | some (k, v) =>
        let k := stripWs k
        let v := stripWs v
        let d := if d = ['='] then ['=', '='] else if d = ['~'] then ['~', '~'] else d
        if lower v = sTrue then .ok (.cond k d (.bool true))
        else if lower v = sFalse then .ok (.cond k d (.bool false))
        else if (startsWith v ['"'] && endsWith v ['"']) || (startsWith v ['\''] && endsWith v ['\'']) then
          let inner := (v.drop 1).dropLast
          if hasPercent inner then .error .Unsupported
          else .ok (.cond k d (.str inner))
        else .ok (.cond k d (.str v))
  else .ok (.str s)

/-- `split_name_index(node_name)` -/
def splitNameIndex (tok : Str) : PyM (Str × Idx) :=
  if tok.contains '[' && endsWith tok [']'] then
    match splitOnce ['['] tok.dropLast with
    | Option.none => .error .Unsupported   -- cannot happen: '[' occurs before the last character or is it
    | some (name, idx) =>
      let name := stripWs name
      let idx := stripWs idx
      if idx.isEmpty then .ok (name, .str [])
      else
        -- contains(text(), v)  →  text()~~v
        let idx' : PyM Str :=
          if startsWith (lower idx) sContains && endsWith idx [')'] then
            let body := stripWs ((idx.drop 8).dropLast)
            match splitOnce ['('] body with
            | Option.none => .error .IndexError          -- `.split('(',1)[1]`
            | some (_, args) =>
              match splitOnce [','] args with
              | Option.none => .error .ValueError        -- unpacking one value into two names
              | some (p1, p2) =>
                if startsWith (lower p1) sText then .ok ("text()~~".toList ++ p2) else .ok idx
          else .ok idx
        match idx' with
        | .error e => .error e
        | .ok idx => (parseCond idx).map (fun i => (name, i))
  else .ok (tok, .none)

/-! ## n0eval -/

/-- what `n0eval` returns: an int, or the (normalised) text itself -/
inductive EvalRes
  | int (i : Int)
  | str (s : Str)
  deriving DecidableEq, Repr, Inhabited

/-- Python `int(s)` for text: optional sign, ASCII digits, single underscores between
digits, surrounding whitespace.  `none` = ValueError. -/
def pyIntDigits : Str → Bool → Bool
  -- second argument: previous character was a digit
  | [], prev => prev
  | c :: s, prev =>
    if isAsciiDigit c then pyIntDigits s true
    else if c = '_' then prev && (match s with | d :: _ => isAsciiDigit d | [] => false) && pyIntDigits s false
    else false

def pyInt (s : Str) : Option Int :=
  let s := stripWs s
  let neg := s.head? == some '-'
  let body := if s.head? == some '-' || s.head? == some '+' then s.drop 1 else s
  if body.isEmpty || !pyIntDigits body false then Option.none
  else
    let n := natOfDigits (body.filter (· ≠ '_'))
    some (if neg then -(n : Int) else (n : Int))

/-- `my_split(_str, delim)` of n0eval -/
def mySplit (delim : Char) (s : Str) : List Str :=
  let parts := splitChar delim s
  let rec go : Nat → List Str → List Str
    | _, [] => []
    | i, p :: ps =>
      let p' := stripWs p
      if p'.isEmpty then go (i + 1) ps
      else ((if delim ≠ '+' && i ≠ 0 then [delim] else []) ++ p') :: go (i + 1) ps
  go 0 parts

/-- characters that can occur in a text `float()` might accept -/
def floatish (c : Char) : Bool :=
  isAsciiDigit c || c = '.' || c = '_' || c = 'e' || c = '-' || c = '+' || c = 'n' || c = 'a' || c = 'i' || c = 'f'

def n0evalItems : List Str → Int → Str → PyM EvalRes
  | [], acc, _ => .ok (.int acc)
  | item :: rest, acc, whole =>
    if item = sNew then .ok (.str whole)
    else if item = sLast then n0evalItems rest (acc - 1) whole
    else if item.contains '.' then
      if item.all floatish then .error .Unsupported else .ok (.str whole)
    else if item.any (fun c => c.toNat ≥ 128) then .error .Unsupported   -- non-ASCII digits are outside the model
    else match pyInt item with
      | some i => n0evalItems rest (acc + i) whole
      | Option.none => .ok (.str whole)

def n0eval (s : Str) : PyM EvalRes :=
  let s := lower (s.filter (· ≠ ' '))
  if s.isEmpty then .ok (.str s)
  else
    let items := (mySplit '+' s).flatMap (mySplit '-')
    n0evalItems items 0 s

/-! ## references to parent nodes -/

inductive PRef
  | at (p : Pos)        -- the object at position `p` of the root
  | wrap (r : PRef)     -- a temporary list `[obj]` around the object `r` refers to
  | det (v : Val)       -- a detached value (not reachable from the root)
  deriving Repr, Inhabited

def valOf (root : Val) : PRef → Option Val
  | .at p => getAt root p
  | .wrap r => (valOf root r).map (fun v => Val.list .plain [v])
  | .det v => some v

/-- reference to a child of the referenced object -/
def childRef (root : Val) (r : PRef) (s : Seg) : PRef :=
  match r, s with
  | .at p, s => .at (p ++ [s])
  | .wrap r, .idx 0 => r
  | r, s =>
    match (valOf root r).bind (fun v => child v s) with
    | some c => .det c
    | Option.none => .det Val.none

/-- write `v` into the object a reference denotes (replace the object's contents);
returns the new root and the reference under which the object is now known -/
def writeRef (root : Val) (r : PRef) (v : Val) : Val × PRef :=
  match r with
  | .at p => ((setAt root p v).getD root, .at p)
  | .wrap _ => (root, .det v)
  | .det _ => (root, .det v)

/-- normalise a Python list index -/
def normIdx (i : Int) (len : Nat) : Option Nat :=
  if 0 ≤ i then (if i.toNat < len then some i.toNat else Option.none)
  else if (-i).toNat ≤ len then some (len - (-i).toNat) else Option.none

def natStr (n : Nat) : Str := natRepr n
def intStr (i : Int) : Str := intRepr i

/-- Python `str()` of a condition value inside an f-string -/
def condValStr : CondVal → Str
  | .str s => s
  | .bool true => "True".toList
  | .bool false => "False".toList

/-- Python `value == expected` for an expected text or bool (no conversion) -/
def pyEqCond (v : Val) (c : CondVal) : Bool :=
  match v, c with
  | .str s, .str t => s = t
  | .bool b, .bool c => b = c
  | .int i, .bool c => i = (if c then 1 else 0)
  | .flt r, .bool c => if c then r = "1.0".toList else (r = "0.0".toList || r = "-0.0".toList)
  | _, _ => false

/-- scope guard of the `text()` condition: `int(expected)` for an `int`/`bool` node is modelled for
ASCII text only (Python also accepts other Unicode digits), `float(expected)` for a float node is
not modelled -/
def textGuard (pv : Val) (v : CondVal) : Bool :=
  match pv, v with
  | .int _, .str t | .bool _, .str t => t.any (fun c => c.toNat ≥ 128)
  | .flt _, .str _ => true
  | _, _ => false

/-- `parent == expected` of the `text()` condition: an expected text that parses as an int is
compared as a number with an `int` (or `bool`) node, otherwise it is not equal to it; float nodes
with an expected text are outside the model (guarded in `findD`) -/
def textEqCond (v : Val) (c : CondVal) : Bool :=
  match v, c with
  | .int i, .str t => pyInt t == some i
  | .bool b, .str t => pyInt t == some (if b then 1 else 0)
  | v, c => pyEqCond v c

/-- `expected in parent` of the `text()~~` condition; a `TypeError` (the node is neither text nor a
container, or a bool is looked for in a text) counts as "does not contain" -/
def pyInCond (c : CondVal) (v : Val) : Bool :=
  match v, c with
  | .str s, .str t => isInfix t s
  | .list _ xs, c => xs.any (fun x => pyEqCond x c)
  | .dict _ kvs, .str t => kvHas t kvs
  | _, _ => false

/-- result tuple of `_find` -/
structure Res where
  parent : PRef
  nameIdx : Option Str
  value : Val
  found : Str
  notFound : Option (List Str)
  deriving Repr, Inhabited

def Res.isFound (r : Res) : Bool :=
  match r.notFound with
  | Option.none => true
  | some l => l.isEmpty

def slash : Str := ['/']

/-- `"[" ++ s ++ "]"` -/
def bracket (s : Str) : Str := '[' :: s ++ [']']

/-- `s.replace("][", "]/[")`: non-overlapping, left to right -/
def fixBr : Str → Str
  | ']' :: '[' :: rest => ']' :: '/' :: '[' :: fixBr rest
  | c :: rest => c :: fixBr rest
  | [] => []

/-- tokenisation of a string xpath: `replace("][","]/[")`, split on '/', drop empties, strip -/
def tokenize (s : Str) : List Str :=
  ((splitChar '/' (fixBr s)).filter (fun t => !t.isEmpty)).map stripWs

/-- `isinstance(parent_node, (list, tuple))` -/
def isList : Val → Bool
  | .list .. => true
  | _ => false
def isDict : Val → Bool
  | .dict .. => true
  | _ => false

def dictKeys : Val → List Str
  | .dict _ kvs => kvs.map Prod.fst
  | _ => []

/-- Python `obj[key]` where key is a str -/
def pyGetKey (v : Val) (k : Str) : PyM Val :=
  match v with
  | .dict _ kvs => match lookup k kvs with
    | some x => .ok x
    | Option.none => .error .KeyError
  | .list .. => .error .TypeError
  | .str _ => .error .TypeError
  | _ => .error .TypeError

/-- Python `obj[i]` where i is the result of n0eval -/
def pyGetIdx (v : Val) (e : EvalRes) : PyM (Val × Option Nat) :=
  match v, e with
  | .list _ xs, .int i =>
    match normIdx i xs.length with
    | some n => .ok (xs.getD n Val.none, some n)
    | Option.none => .error .IndexError
  | .list _ _, .str _ => .error .TypeError
  | .dict _ kvs, .str s => match lookup s kvs with
    | some x => .ok (x, Option.none)
    | Option.none => .error .KeyError
  | .dict _ _, .int _ => .error .KeyError
  | .str _, _ => .error .Unsupported
  | _, _ => .error .TypeError

/-- the `found` text the `'..'` step continues with (`cur` = result of resolving the shortened path again):
FOUND of an index step reports the path of the *list* and the index separately in `node_name_index`;
`'..'` puts the index back (`f"{cur_found_xpath_str}[{cur_node_index}]"`, fix C06-b), so that a later `'..'`
resolves this element again and not the whole list.  A key result already carries its name. -/
def upFound (cur : Res) : Str :=
  match cur.nameIdx with
  | some ni =>
    if ni.isEmpty then cur.found else
    match splitNameIndex ni with
    | .ok (cn, .str s) => if cn.isEmpty then cur.found ++ bracket s else cur.found
    | _ => cur.found
  | Option.none => cur.found

mutual
/-- `n0dict._find(self, xpath_list, parent_node, return_lists, xpath_found_str)`.
`sp` is the position of `self` in the root; `ps` says that `self` is a plain `dict` (reached
through `n0list._find`), in which case every recursive `self._find` raises AttributeError;
`entry` marks the outermost call. -/
def findD (fuel : Nat) (root : Val) (sp : Pos) (ps entry : Bool) (toks : List Str) (par : PRef) (rl : Bool) (found : Str) :
    PyM (Val × Res) :=
  match fuel with
  | 0 => .error .OutOfFuel
  | fuel + 1 =>
  -- `self._find` on a plain dict (an element of an n0list that was not converted): AttributeError
  if ps && !entry then .error .AttributeError else
  match toks with
  | [] =>
    if found = slash then
      match valOf root par with
      | some pv => .ok (root, { parent := par, nameIdx := Option.none, value := pv, found := found, notFound := Option.none })
      | Option.none => .error .Unsupported
    else findD fuel root sp ps false (tokenize found) (.at sp) rl slash
  | tok :: rest =>
  match valOf root par with
  | Option.none => .error .Unsupported
  | some pv =>
  match splitNameIndex tok with
  | .error e => .error e
  | .ok (name, idx) =>
  if name.isEmpty && !idx.truthy then .error .ValueError
  else if !name.isEmpty then
    -- ####### key step #######
    if name = ['.', '.'] then
      let up := ((splitChar '/' (fixBr found)).filter (fun t => !t.isEmpty)).dropLast
      match findD fuel root sp ps false up (.at sp) rl slash with
      | .error e => .error e
      | .ok (root, cur) =>
        match valOf root cur.parent with
        | Option.none => .error .Unsupported
        | some cpv =>
        -- nxt_parent_node
        let nxt : PyM PRef :=
          match cur.nameIdx with
          | some ni =>
            if ni.isEmpty then .ok cur.parent else
            match splitNameIndex ni with
            | .error e => .error e
            | .ok (cn, ci) =>
              if !cn.isEmpty then
                match pyGetKey cpv cn with
                | .ok _ => .ok (childRef root cur.parent (.key cn))
                | .error e => .error e
              else match ci with
                | .str s =>
                  match n0eval s with
                  | .error e => .error e
                  | .ok ev =>
                    match pyGetIdx cpv ev with
                    | .error e => .error e
                    | .ok (_, some n) => .ok (childRef root cur.parent (.idx n))
                    | .ok (_, Option.none) => match ev with
                      | .str k => .ok (childRef root cur.parent (.key k))
                      | _ => .error .Unsupported
                | _ => .error .TypeError
          | Option.none => .ok cur.parent
        match nxt with
        | .error e => .error e
        | .ok nxt =>
          if idx.truthy || rest.length ≥ 1 then
            if idx.truthy then
              match idx with
              | .str s => findD fuel root sp ps false (bracket s :: rest) nxt rl (upFound cur)
              | _ => .error .Unsupported   -- f"[{tuple}]": repr of a tuple, not modelled
            else findD fuel root sp ps false rest nxt rl (upFound cur)
          else
            match cur.nameIdx, valOf root nxt with
            | some ni, some nv =>
              if ni.isEmpty then .error .Unsupported else
              .ok (root, { parent := cur.parent, nameIdx := some ni, value := nv, found := found ++ slash ++ ni, notFound := Option.none })
            | Option.none, some nv =>
              -- `'..'` surfaced to the root (fix C04-g): the root is found, the way an empty xpath finds it
              if cur.isFound then
                .ok (root, { parent := cur.parent, nameIdx := Option.none, value := nv, found := cur.found, notFound := Option.none })
              else .error .TypeError   -- str + None
            | Option.none, Option.none => .error .TypeError   -- str + None
            | _, Option.none => .error .Unsupported
    else if isList pv then
      findD fuel root sp ps false (bracket ['*'] :: tok :: rest) par rl found
    else if !isDict pv then .error .IndexError
    else if name = ['*'] then
      starKeys fuel root sp ps (dictKeys pv) (tok :: rest) par rl found [] Option.none
    else
      match pv with
      | .dict _ kvs =>
        match lookup name kvs with
        | Option.none =>
          -- NOT FOUND
          .ok (root, { parent := par, nameIdx := Option.none, value := Val.none, found := found, notFound := some (tok :: rest) })
        | some cv =>
          if rest.isEmpty && idx = .none then
            .ok (root, { parent := par, nameIdx := some name, value := cv, found := found ++ slash ++ name, notFound := Option.none })
          else
            let cref := childRef root par (.key name)
            match idx with
            | .none => findD fuel root sp ps false rest cref rl (found ++ slash ++ name)
            | .str s => findD fuel root sp ps false (bracket s :: rest) cref rl (found ++ slash ++ name)
            | .cond k op v =>
              findD fuel root sp ps false (bracket (k ++ op ++ ['\''] ++ condValStr v ++ ['\'']) :: rest) cref rl (found ++ slash ++ name)
      | _ => .error .Unsupported
  else
    -- ####### index step (name is empty) #######
    match idx with
    | .none => .error .ValueError
    | .str s =>
      if s = sNew then
        -- NOT FOUND: new element; re-resolve `found` from self.  The search writes nothing (fix C04-a): a list is
        -- reported as the parent; a single value under a key is reported as the miss of `name[new()]` below the
        -- parent dict (`_add` converts it); anything else (the root, a single element of a list) is `IndexError`
        match findD fuel root sp ps false (tokenize found) (.at sp) rl slash with
        | .error e => .error e
        | .ok (root, cur) =>
          match valOf root cur.parent with
          | Option.none => .error .Unsupported
          | some cpv =>
          match cur.nameIdx with
          | Option.none => .error .IndexError
          | some ni =>
            match cpv with
            | .dict _ kvs =>
              match lookup ni kvs with
              | some old =>
                if isList old then
                  .ok (root, { parent := childRef root cur.parent (.key ni), nameIdx := Option.none, value := Val.none, found := cur.found, notFound := some (bracket sNew :: rest) })
                else
                  .ok (root, { parent := cur.parent, nameIdx := Option.none, value := Val.none, found := cur.found, notFound := some ((ni ++ bracket sNew) :: rest) })
              | Option.none =>
                .ok (root, { parent := cur.parent, nameIdx := Option.none, value := Val.none, found := cur.found, notFound := some ((ni ++ bracket sNew) :: rest) })
            | .list _ xs =>
              -- the element `[i]` of the list found (fix C03-c: `cur_value`, whatever the class of the enclosing list)
              (match (if startsWith ni ['['] && endsWith ni [']'] then pyInt ((ni.drop 1).dropLast) else Option.none) with
               | Option.none => .error .Unsupported
               | some i =>
                 match normIdx i xs.length with
                 | Option.none => .error .IndexError
                 | some n =>
                   let old := xs.getD n Val.none
                   if isList old then
                     .ok (root, { parent := childRef root cur.parent (.idx n), nameIdx := Option.none, value := Val.none, found := cur.found, notFound := some (bracket sNew :: rest) })
                   else .error .IndexError)
            | _ => .error .IndexError
      else if s = ['*'] then
        let (par', items) : PRef × List Val := match pv with
          | .list _ xs => (par, xs)
          | v => (.wrap par, [v])
        starIdx fuel root sp ps items.length 0 rest par' rl found [] Option.none (tok :: rest)
      else
        -- pure index
        match n0eval s with
        | .error e => .error e
        | .ok ev =>
          let (par', items) : PRef × List Val := match pv with
            | .list _ xs => (par, xs)
            | v => (.wrap par, [v])
          match ev with
          | .str _ => .error .TypeError     -- str >= int
          | .int i =>
            let len := items.length
            if i ≥ len || i < -(len : Int) then
              .ok (root, { parent := par', nameIdx := some (bracket (intStr i)), value := Val.none, found := found, notFound := some (tok :: rest) })
            else
              match normIdx i len with
              | Option.none => .error .Unsupported
              | some n =>
                if rest.isEmpty then
                  .ok (root, { parent := par', nameIdx := some (bracket (intStr i)), value := items.getD n Val.none, found := found, notFound := Option.none })
                else
                  findD fuel root sp ps false rest (childRef root par' (.idx n)) rl (found ++ bracket (intStr i))
    | .cond k op v =>
      if k = sTextFn then
        -- text() condition on the parent itself
        if textGuard pv v then .error .Unsupported else
          let op1 := op.drop 1
          let cmp : PyM Bool :=
            if op1 = ['='] then .ok (textEqCond pv v)
            else if op1 = ['~'] then .ok (pyInCond v pv)
            else .error .SyntaxError
          match cmp with
          | .error e => .error e
          | .ok b =>
            let op0 := op.take 1
            let res : PyM Bool :=
              if op0 = ['!'] then .ok (!b)
              else if op0 ≠ ['='] && op0 ≠ ['~'] then .error .SyntaxError
              else .ok b
            match res with
            | .error e => .error e
            | .ok true => findD fuel root sp ps false rest par rl found
            | .ok false => .ok (root, { parent := par, nameIdx := Option.none, value := Val.none, found := found, notFound := some (tok :: rest) })
      else
        match pv with
        | .list _ _ => findD fuel root sp ps false (bracket ['*'] :: tok :: rest) par rl found   -- an empty list too (fix C06-e)
        | .dict _ kvs =>
          match lookup k kvs with
          | Option.none => .ok (root, { parent := par, nameIdx := Option.none, value := Val.none, found := found, notFound := some (tok :: rest) })
          | some _ =>
            findD fuel root sp ps false (bracket (sTextFn ++ op ++ condValStr v) :: ['.', '.'] :: rest)
              (childRef root par (.key k)) rl (found ++ slash ++ k)
        -- a single value has no keys: NOT FOUND (fix C06-h; it was IndexError, which left the `[*]` loop of the other parents)
        | _ => .ok (root, { parent := par, nameIdx := Option.none, value := Val.none, found := found, notFound := some (tok :: rest) })

/-- the `for next_node_name in parent_node` loop of the `*` name step -/
def starKeys (fuel : Nat) (root : Val) (sp : Pos) (ps : Bool) (keys : List Str) (toks : List Str) (par : PRef) (rl : Bool)
    (found : Str) (acc : List Val) (fst : Option Res) : PyM (Val × Res) :=
  match fuel with
  | 0 => .error .OutOfFuel
  | fuel + 1 =>
  match keys with
  | [] =>
    let vals : Val := if !rl && acc.length = 1 then acc.headD Val.none else .list .n0 acc
    match fst with
    | some f => .ok (root, { parent := f.parent, nameIdx := f.nameIdx, value := vals, found := f.found, notFound := Option.none })
    | Option.none => .ok (root, { parent := par, nameIdx := Option.none, value := Val.none, found := found, notFound := some toks })
  | k :: ks =>
    match findD fuel root sp ps false (k :: toks) par rl found with
    | .error e => .error e
    | .ok (root, r) =>
      if r.isFound then
        starKeys fuel root sp ps ks toks par rl found (acc ++ [r.value]) (match fst with | some f => some f | Option.none => some r)
      else starKeys fuel root sp ps ks toks par rl found acc fst

/-- the `for i, cur_node in enumerate(parent_node)` loop of the `[*]` step -/
def starIdx (fuel : Nat) (root : Val) (sp : Pos) (ps : Bool) (n i : Nat) (rest : List Str) (par : PRef) (rl : Bool)
    (found : Str) (acc : List Val) (fst : Option Res) (all : List Str) : PyM (Val × Res) :=
  match fuel with
  | 0 => .error .OutOfFuel
  | fuel + 1 =>
  if i ≥ n then
    let vals : Val := if !rl && acc.length = 1 then acc.headD Val.none else .list .n0 acc
    match fst with
    | some f => .ok (root, { parent := f.parent, nameIdx := f.nameIdx, value := vals, found := f.found, notFound := Option.none })
    | Option.none => .ok (root, { parent := par, nameIdx := Option.none, value := Val.none, found := found, notFound := some all })
  else
    match findD fuel root sp ps false (bracket (natStr i) :: rest) par rl found with
    | .error e => .error e
    | .ok (root, r) =>
      if r.isFound then
        starIdx fuel root sp ps n (i + 1) rest par rl found (acc ++ [r.value]) (match fst with | some f => some f | Option.none => some r) all
      else starIdx fuel root sp ps n (i + 1) rest par rl found acc fst all
end

end N0.XPath
