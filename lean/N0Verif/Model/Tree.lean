import N0Verif.Val
/-! Positions in a tree and the reference semantics of plain Python indexing. -/
namespace N0

inductive Seg
  | key (k : Str)
  | idx (i : Nat)
  deriving DecidableEq, Repr, Inhabited

abbrev Pos := List Seg

namespace Val

def kvSet (k : Str) (v : Val) : List (Str × Val) → List (Str × Val)
  | [] => [(k, v)]
  | (k', x) :: rest => if k = k' then (k', v) :: rest else (k', x) :: kvSet k v rest

def kvDel (k : Str) : List (Str × Val) → List (Str × Val)
  | [] => []
  | (k', x) :: rest => if k = k' then rest else (k', x) :: kvDel k rest

def kvHas (k : Str) (kvs : List (Str × Val)) : Bool := (lookup k kvs).isSome

/-- child of a value by one segment -/
def child : Val → Seg → Option Val
  | .dict _ kvs, .key k => lookup k kvs
  | .list _ xs, .idx i => xs[i]?
  | _, _ => Option.none

def getAt : Val → Pos → Option Val
  | v, [] => some v
  | v, s :: rest => (child v s).bind (fun c => getAt c rest)

/-- replace (or, for a dict, insert) the child at one segment -/
def setChild : Val → Seg → Val → Option Val
  | .dict c kvs, .key k, v => some (.dict c (kvSet k v kvs))
  | .list c xs, .idx i, v => if i < xs.length then some (.list c (xs.set i v)) else Option.none
  | _, _, _ => Option.none

/-- `setAt t p v`: the tree with the slot at `p` replaced by `v` (the parent must exist) -/
def setAt : Val → Pos → Val → Option Val
  | _, [], v => some v
  | t, [s], v => setChild t s v
  | t, s :: rest, v => do
      let c ← child t s
      let c' ← setAt c rest v
      setChild t s c'

def delChild : Val → Seg → Option Val
  | .dict c kvs, .key k => if kvHas k kvs then some (.dict c (kvDel k kvs)) else Option.none
  | .list c xs, .idx i => if i < xs.length then some (.list c (xs.eraseIdx i)) else Option.none
  | _, _ => Option.none

def delAt : Val → Pos → Option Val
  | _, [] => Option.none
  | t, [s] => delChild t s
  | t, s :: rest => do
      let c ← child t s
      let c' ← delAt c rest
      setChild t s c'

/-- Python `len()` of a container -/
def len : Val → Option Nat
  | .list _ xs => some xs.length
  | .dict _ kvs => some kvs.length
  | .str s => some s.length
  | _ => Option.none

end Val
end N0
