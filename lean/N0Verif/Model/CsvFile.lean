import N0Verif.Model.Csv
/-!
  Model of `load_csv` / `save_csv` (n0struct_files_csv.py), built on the line parser of
  `Model/Csv.lean`.

  Three layers, each a separate function:

  * file layer: `decodeSig` (what `encoding="utf-8-sig"` does after UTF-8 decoding: one leading
    U+FEFF is dropped), `textLines` (the sequence of `readline()` results of a text-mode file
    opened with universal newlines: `\n`, `\r\n` and a lone `\r` all end a line and are
    delivered as `\n`), `binLines` (`readline()` of a binary file: split after `\n` only);
  * option layer: `normalise` — the argument checks at the top of `load_csv`, in the order of
    the code, every failing branch raising `SyntaxError`;
  * line layer: `loadLines` — skipping leading blank lines, the header decision, the
    `seek(file_offset)` re-read (the first physical line is put back in front of the data
    lines), duplicate-header `KeyError`, and the record loop `readRows`.

  The model describes `list(load_csv(path, **opts))`: `load_csv` is a generator, every
  exception surfaces on iteration, `return tuple()` ends the iteration with no record.

  Text mode: a file is the sequence of code points obtained by UTF-8 decoding its bytes (the
  codec itself is trusted, the BOM handling is modelled).  Binary mode: a file is its bytes,
  each represented by the character with the same code (0..255); cells, and every name given in
  `column_names` / `contains_header`, are then `bytes` objects (a `str` name never equals a
  `bytes` cell; mixing the two is outside the model).

  The model follows the code **with fixes C14-a … C14-e applied** (see notes/C14.md).
-/
namespace N0.CsvFile
open N0 N0.Py N0.Csv

/-! ### values -/

/-- a record key: a column name, or a position (when there is neither a header nor `column_names`) -/
inductive Key
  | name (s : Str)
  | pos (n : Nat)
  deriving DecidableEq, Repr

/-- an insertion-ordered dict from keys to cells (`None` = `Option.none`) -/
abbrev Record := List (Key × Option Str)

/-- what one iteration yields: the record, and the stripped line when `return_original_line` -/
structure Item where
  row  : Record
  line : Option Str
  deriving DecidableEq, Repr

/-- the `column_names` argument -/
inductive CNArg
  | none | list (l : List Str) | other
  deriving DecidableEq, Repr

/-- the `contains_header` argument -/
inductive CHArg
  | none | bool (b : Bool) | str (s : Str) | list (l : List Str) | other
  deriving DecidableEq, Repr

/-- the `header_is_mandatory` argument -/
inductive MandArg
  | none | bool (b : Bool) | other
  deriving DecidableEq, Repr

structure Opts where
  columnNames    : CNArg := .none
  containsHeader : CHArg := .none
  mandatory      : MandArg := .none
  delim          : Char := ','
  skipEmpty      : Bool := true
  stripLine      : Bool := false
  stripField     : Bool := false
  returnLine     : Bool := false
  returnUnknown  : Bool := false
  raiseExc       : Bool := true
  binary         : Bool := false
  deriving DecidableEq, Repr

/-! ### file layer -/

def bomChar : Char := Char.ofNat 0xFEFF

/-- `utf-8-sig`: one leading U+FEFF (the decoded BOM) is not delivered -/
def decodeSig : Str → Str
  | [] => []
  | c :: r => if c = bomChar then r else c :: r

/-- the lines `readline()` returns in text mode with universal newlines; `prevCR` = the previous
character was a `\r` (which already ended a line, so a directly following `\n` is swallowed) -/
def textLinesAux : Bool → Str → List Str
  | _, [] => []
  | prevCR, c :: r =>
    if c = '\n' then
      if prevCR then textLinesAux false r else ['\n'] :: textLinesAux false r
    else if c = '\r' then ['\n'] :: textLinesAux true r
    else match textLinesAux false r with
      | [] => [[c]]
      | l :: ls => (c :: l) :: ls

def textLines (s : Str) : List Str := textLinesAux false s

/-- the lines `readline()` returns in binary mode: only `\n` ends a line, nothing is translated -/
def binLines : Str → List Str
  | [] => []
  | c :: r =>
    if c = '\n' then ['\n'] :: binLines r
    else match binLines r with
      | [] => [[c]]
      | l :: ls => (c :: l) :: ls

def physLines (binary : Bool) (file : Str) : List Str :=
  if binary then binLines file else textLines (decodeSig file)

/-! ### option layer -/

/-- `len(l) != len(set(l))` -/
def hasDup : List Str → Bool
  | [] => false
  | x :: xs => xs.contains x || hasDup xs

/-- `contains_header` after normalisation -/
inductive CHN
  | none | str (s : Str) | list (l : List Str)
  deriving DecidableEq, Repr

structure Norm where
  mand : Bool
  cn   : Option (List Str)
  ch   : CHN
  deriving DecidableEq, Repr

def cnAsCh : Option (List Str) → CHN
  | none => .none
  | some l => .list l

def mandDefault : MandArg → Bool
  | .bool b => b
  | _ => false

/-- the argument checks of `load_csv` up to `## process_field`, in code order -/
def normalise (o : Opts) : PyM Norm := do
  -- ## header_is_mandatory: only the type is checked here (fix C14-a: `None` is resolved last)
  if o.mandatory = .other then throw .SyntaxError
  -- ## column_names
  let cn ← (match o.columnNames with
    | .none => pure none
    | .other => throw .SyntaxError
    | .list [] => pure none
    | .list (x :: xs) =>
      let l := x :: xs
      if hasDup l then throw .SyntaxError
      else match o.containsHeader with
        | .str s =>
          -- `elif contains_header:` … `column_names[0] != contains_header`
          if !s.isEmpty && x != s then throw .SyntaxError else pure (some l)
        | .list m =>
          if !m.isEmpty && m.any (fun y => !l.contains y) then throw .SyntaxError else pure (some l)
        | _ => pure (some l) : PyM (Option (List Str)))
  -- ## contains_header: empty str/list → None
  let ch0 : CHArg := match o.containsHeader with
    | .str [] => .none
    | .list [] => .none
    | c => c
  match ch0 with
  | .bool b =>
    -- LEGACY
    match o.mandatory with
    | .none => pure { mand := b, cn := cn, ch := cnAsCh cn }
    | .bool m => if m != b then throw .SyntaxError else pure { mand := m, cn := cn, ch := cnAsCh cn }
    | .other => throw .SyntaxError
  | .list l =>
    if hasDup l then throw .SyntaxError
    else pure { mand := mandDefault o.mandatory, cn := cn, ch := .list l }
  | .none => pure { mand := mandDefault o.mandatory, cn := cn, ch := cnAsCh cn }
  | .str s => pure { mand := mandDefault o.mandatory, cn := cn, ch := .str s }
  | .other => throw .SyntaxError

/-! ### line layer -/

/-- `bytes.strip()` strips ASCII whitespace only -/
def isAsciiWsByte (c : Char) : Bool :=
  let n := c.toNat
  (9 ≤ n && n ≤ 13) || n = 32

def wsFor (binary : Bool) (c : Char) : Bool := if binary then isAsciiWsByte c else isPySpace c

def stripWith (p : Char → Bool) (s : Str) : Str :=
  ((s.dropWhile p).reverse.dropWhile p).reverse

/-- `process_line(line.rstrip(CRLF))` -/
def procLine (o : Opts) (line : Str) : Str :=
  let l := rstrip crlf line
  if o.stripLine then stripWith (wsFor o.binary) l else l

/-- `parse_csv_line(line, delimiter, process_field)` -/
def parseLine (o : Opts) (l : Str) : PyM (List Str) := do
  let cells ← parse o.delim l
  pure (if o.stripField then cells.map (stripWith (wsFor o.binary)) else cells)

/-- `zip(names, cells + [None] * (len(names) - len(cells)))`: short rows are padded, surplus
cells have no name and are dropped -/
def zipPad : List Key → List Str → Record
  | [], _ => []
  | k :: ks, [] => (k, none) :: zipPad ks []
  | k :: ks, c :: cs => (k, some c) :: zipPad ks cs

/-- `d[k] = v` on an insertion-ordered dict -/
def dictSet (k : Key) (v : Option Str) : Record → Record
  | [] => [(k, v)]
  | (k', v') :: r => if k' = k then (k', v) :: r else (k', v') :: dictSet k v r

/-- `dict(pairs)` -/
def dictOf (ps : Record) : Record := ps.foldl (fun d kv => dictSet kv.1 kv.2 d) []

/-- `dict.get(d, k)` (fix C14-b: a plain lookup; a missing key gives `None`) -/
def dictGet (k : Key) : Record → Option Str
  | [] => none
  | (k', v) :: r => if k' = k then v else dictGet k r

/-- `{key: d.get(key) for key in column_names}` -/
def project (cn : List Key) (d : Record) : Record :=
  dictOf (cn.map (fun k => (k, dictGet k d)))

/-- the record loop (`while True: line = in_file.readline() …`) over the remaining physical lines -/
def readRows (o : Opts) (names cn : List Key) : List Str → PyM (List Item)
  | [] => pure []
  | line :: rest =>
    if line.isEmpty then pure []            -- `if not line: return None`
    else
      let s := procLine o line
      if o.skipEmpty && s.isEmpty then readRows o names cn rest
      else do
        let cells ← parseLine o s
        let d := dictOf (zipPad names cells)
        let d := if !o.returnUnknown && cn != names then project cn d else d
        let tl ← readRows o names cn rest
        pure ({ row := d, line := if o.returnLine then some s else none } :: tl)

/-- "skip empty lines at the beginning of the file": the first physical line whose processed
text is not empty, its processed text, and the lines after it -/
def skipBlank (o : Opts) : List Str → Option (Str × Str × List Str)
  | [] => none
  | l :: rest =>
    if l.isEmpty then none
    else
      let h := procLine o l
      if h.isEmpty then skipBlank o rest else some (l, h, rest)

/-- "determine if the first row is header": `some true` header, `some false` data,
`none` = `return tuple()` -/
def headerDecision (n : Norm) (o : Opts) (cells : List Str) : PyM (Option Bool) :=
  let noCh : PyM (Option Bool) := pure (some (n.mand && n.cn.isNone))
  let refuse : PyM (Option Bool) :=
    if n.mand then (if o.raiseExc then throw .ReferenceError else pure none) else pure (some false)
  match n.ch with
  | .none => noCh
  | .str s =>
    if s.isEmpty then noCh
    else match cells with
      | [] => throw .IndexError
      | c :: _ => if c != s then refuse else pure (some true)
  | .list l =>
    if l.isEmpty then noCh
    else if l.any (fun m => !cells.contains m) then refuse   -- fix C14-e: `is not None`
    else pure (some true)

def positions (n : Nat) : List Key := (List.range n).map Key.pos

/-- `list(load_csv(...))` over the physical lines of the opened file -/
def loadLines (o : Opts) (lines : List Str) : PyM (List Item) := do
  let n ← normalise o
  match skipBlank o lines with
  | none => throw .EOFError
  | some (first, hl, rest) =>
    let cells ← parseLine o hl
    match ← headerDecision n o cells with
    | none => pure []
    | some false =>
      -- `in_file.seek(file_offset)`: the first line is read again as a data line
      let names := match n.cn with
        | some c => c.map Key.name
        | none => positions cells.length
      readRows o names names (first :: rest)
    | some true =>
      if n.mand && hasDup cells then throw .KeyError
      else
        let names := cells.map Key.name
        let cn := match n.cn with
          | some c => c.map Key.name
          | none => names
        readRows o names cn rest

/-- `list(load_csv(path, **opts))` for a file with the given content -/
def loadCsv (o : Opts) (file : Str) : PyM (List Item) :=
  loadLines o (physLines o.binary file)

/-- the binary-mode model is exact only for a one-byte delimiter -/
def inScope (o : Opts) : Bool := !o.binary || o.delim.toNat < 128

/-! ### writer -/

/-- the text `save_csv(path, rows, header, EOL=eol, delimiter=d)` writes (before UTF-8 encoding;
`newline=''`, so nothing is translated): `csv.writer(...).writerow` per row, the header first
when it is truthy.  (fix C14-c: an empty `rows` list is accepted) -/
def saveCsv (d : Char) (eol : Str) (header : Option (List Str)) (rows : List (List Str)) : Str :=
  let hl : Str := match header with
    | some h => if h.isEmpty then [] else writerLine d eol h
    | none => []
  hl ++ rows.flatMap (writerLine d eol)

end N0.CsvFile
