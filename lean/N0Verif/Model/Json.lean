import N0Verif.Py.Basic
import N0Verif.Val
/-!
  Model of JSON export/load (property C11).

  * `pretty` — `n0struct_logging.n0pretty` specialised to the arguments that
    `n0dict_.to_json` / `n0list_.to_json` fix (`show_type=False, auto_quotes=False,
    __quotes='"', json_convention=True, show_item_count=False`), with all of
    `indent`, `pairs_in_one_line`, `compress`, `skip_empty_arrays`.
    The model follows the code **with the fix patches C11-a, C11-c, C11-d, C11-f, C11-e applied**
    (JSON string escaping of values and keys through `json.dumps(…, ensure_ascii=False)`,
    no comma after the blanks of an absent first column in the pair layout,
    `skip_empty_arrays` really skips items/entries whose text is empty and `to_json`
    prints `{}` / `[]` when nothing is left, dict entries are read with `dict.__getitem__`
    and not through the xpath resolver of `n0dict`, the 111-level guard of the debug printer
    (`{.......}` / `[.......]`) does not apply under `json_convention`).
  * `jsonDecode` — a reader following CPython's `json.loads` (C scanner): RFC 8259
    plus the three constants `NaN`, `Infinity`, `-Infinity` that `json.loads` accepts.
    Numbers keep their lexeme when they are floats (floats are opaque in `Val`).
-/
namespace N0.Json
open N0 N0.Py

/-! ### options of `to_json` -/

structure Opts where
  indent    : Nat  := 4
  pairs     : Bool := true
  skipEmpty : Bool := false
  compress  : Bool := false
  deriving Repr, DecidableEq

/-- `if compress: indent = 0` — the `__indent_size` handed to `n0pretty` -/
def Opts.isz (o : Opts) : Nat := if o.compress then 0 else o.indent

/-- `if not __indent_size: pairs_in_one_line = False` -/
def Opts.pairsOn (o : Opts) : Bool := o.pairs && o.isz != 0

/-! ### strings: `json.dumps(text, ensure_ascii=False)[1:-1]` -/

def hexLow (n : Nat) : Char :=
  if n < 10 then Char.ofNat (48 + n) else Char.ofNat (87 + n)

def escChar (c : Char) : Str :=
  if c = '"' then ['\\', '"']
  else if c = '\\' then ['\\', '\\']
  else if c = '\n' then ['\\', 'n']
  else if c = '\r' then ['\\', 'r']
  else if c = '\t' then ['\\', 't']
  else if c = Char.ofNat 8 then ['\\', 'b']
  else if c = Char.ofNat 12 then ['\\', 'f']
  else if c.toNat < 32 then ['\\', 'u', '0', '0', hexLow (c.toNat / 16), hexLow (c.toNat % 16)]
  else [c]

/-- `escape(text)` of the patched `n0pretty` under `json_convention` -/
def esc : Str → Str
  | [] => []
  | c :: s => escChar c ++ esc s

def quoted (s : Str) : Str := '"' :: (esc s ++ ['"'])

/-- text of a scalar: `null`, `true`/`false` (`str(item).lower()`), `str(number)`, quoted string -/
def scalarText : Val → Str
  | .none => "null".toList
  | .bool true => "true".toList
  | .bool false => "false".toList
  | .int i => intRepr i
  | .flt r => r
  | .str s => quoted s
  | _ => []

/-- `indent(k)` : `"\n" + " " * (k+1) * size if size else ""`, given as `nlAt (k+1)`;
the closing `indent(indent_ - 1)` is `nlAt indent_` -/
def nlAt (o : Opts) (m : Nat) : Str :=
  if o.isz = 0 then [] else '\n' :: List.replicate (m * o.isz) ' '

def sp (o : Opts) : Str := if o.isz = 0 then [] else [' ']

/-! ### `is_list_with_pairs` -/

/-- `len(presentation_string)` : the quoted **unescaped** string, or `str(value)` -/
def presWidth : Val → Option Nat
  | .str s => some (s.length + 2)
  | .int i => some (intRepr i).length
  | .bool true => some 4      -- "True"
  | .bool false => some 5     -- "False"
  | .flt r => some r.length
  | _ => Option.none               -- None, containers: "Sub element has complex structure"

/-- `element_names.update({key: max(old, w)})` on an insertion-ordered dict -/
def colUpdate (cols : List (Str × Nat)) (k : Str) (w : Nat) : List (Str × Nat) :=
  match cols with
  | [] => [(k, w)]
  | (k', w') :: rest => if k = k' then (k', max w' w) :: rest else (k', w') :: colUpdate rest k w

def colHas (cols : List (Str × Nat)) (k : Str) : Bool := cols.any (fun p => p.1 == k)

/-- inner loop `for key in sub_item` -/
def pairColsRec (cols : List (Str × Nat)) : List (Str × Val) → Option (List (Str × Nat))
  | [] => some cols
  | (k, v) :: rest =>
    let cols1 := if colHas cols k then cols else cols ++ [(k, 0)]
    if cols1.length > 2 then Option.none
    else match presWidth v with
      | Option.none => Option.none
      | some w => pairColsRec (colUpdate cols1 k w) rest

/-- outer loop `for sub_item in item` -/
def pairColsFrom (cols : List (Str × Nat)) : List Val → Option (List (Str × Nat))
  | [] => some cols
  | .dict _ kvs :: rest =>
    if kvs.length > 2 then Option.none
    else match pairColsRec cols kvs with
      | Option.none => Option.none
      | some cols' => pairColsFrom cols' rest
  | _ :: _ => Option.none

def pairCols (xs : List Val) : Option (List (Str × Nat)) := pairColsFrom [] xs

/-! ### pair layout -/

/-- text of a value inside the pair layout (only `str|int|float|bool` arrive here) -/
def pairValText (v : Val) : Str := scalarText v

def hasInk (s : Str) : Bool := s.any (fun c => !isPySpace c)   -- `sub_result.strip()` is non-empty

/-- body of one record: `for key in keys_and_max_len_of_value` -/
def pairRecord (kvs : List (Str × Val)) : List (Str × Nat) → Str → Str
  | [], sub => sub
  | (k, w) :: cols, sub =>
    match Val.lookup k kvs with
    | some v =>
      let txt := ljust w ' ' (pairValText v)
      let sub1 := if hasInk sub then sub ++ [','] else if !sub.isEmpty then sub ++ [' '] else sub
      pairRecord kvs cols (sub1 ++ [' '] ++ quoted k ++ [':', ' '] ++ txt)
    | Option.none =>
      let sub1 := if !sub.isEmpty then sub ++ [' '] else sub
      pairRecord kvs cols (sub1 ++ List.replicate (1 + 1 + k.length + 1 + 2 + w) ' ')

def recordKvs : Val → List (Str × Val)
  | .dict _ kvs => kvs
  | _ => []

/-- the loop `for sub_item in item` of the pair layout -/
def pairBody (o : Opts) (lvl : Nat) (cols : List (Str × Nat)) : List Val → Str → Str
  | [], acc => acc
  | x :: xs, acc =>
    let kvs := recordKvs x
    if o.skipEmpty && kvs.isEmpty then pairBody o lvl cols xs acc
    else
      let acc1 := if !acc.isEmpty then acc ++ [','] ++ nlAt o (lvl + 1) else acc
      pairBody o lvl cols xs (acc1 ++ ['{'] ++ pairRecord kvs cols [] ++ [' ', '}'])

/-! ### the general layout -/

def isStr : Val → Bool
  | .str _ => true
  | _ => false

/-- `condense_dict_pairs` -/
def condense (kvs : List (Str × Val)) : Bool := kvs.length ≤ 2 && kvs.all (fun p => isStr p.2)

/-- `if result: result += "," (+ indent() | " ")`, then `result += sub_item_value` -/
def joinItem (o : Opts) (lvl : Nat) (cond : Bool) (acc sub : Str) : Str :=
  (if !acc.isEmpty then acc ++ [','] ++ (if cond then sp o else nlAt o (lvl + 1)) else acc) ++ sub

/-- the tail of the container branch: brackets around a non-empty body (or any body when
`skip_empty_arrays` is off), multi-line when the body contains a newline -/
def closeUp (o : Opts) (lvl : Nat) (l r : Char) (body : Str) : Str :=
  if !body.isEmpty || !o.skipEmpty then
    if body.contains '\n' then [l] ++ nlAt o (lvl + 1) ++ body ++ nlAt o lvl ++ [r]
    else [l] ++ sp o ++ body ++ sp o ++ [r]
  else body

def dots (l r : Char) : Str := [l] ++ ".......".toList ++ [r]

/-- `json_convention`: `to_json` hands its default `True` to `n0pretty`; this is the only value
modelled.  It is kept as a name because the depth guard `indent_ < 111 or json_convention` of
the fixed code (C11-e) reads it: the guard shortens debug prints, never a JSON export. -/
def jsonConv : Bool := true

mutual
/-- `n0pretty(item, indent_ = lvl, …)` -/
def pretty (o : Opts) : Nat → Val → Str
  | lvl, .list _ xs =>
    match (if o.pairsOn then pairCols xs else Option.none) with
    | some (c :: cols) => closeUp o lvl '[' ']' (pairBody o lvl (c :: cols) xs [])
    | _ => closeUp o lvl '[' ']' (prettyItems o lvl xs [])
  | lvl, .dict _ kvs => closeUp o lvl '{' '}' (prettyKvs o lvl (condense kvs) kvs [])
  | _, v => scalarText v
def prettyItems (o : Opts) : Nat → List Val → Str → Str
  | _, [], acc => acc
  | lvl, x :: xs, acc =>
    if lvl < 111 || jsonConv then
      let sub := pretty o (lvl + 1) x
      if o.skipEmpty && sub.isEmpty then prettyItems o lvl xs acc
      else prettyItems o lvl xs (joinItem o lvl false acc sub)
    else prettyItems o lvl xs (joinItem o lvl false acc (dots '[' ']'))
def prettyKvs (o : Opts) : Nat → Bool → List (Str × Val) → Str → Str
  | _, _, [], acc => acc
  | lvl, cond, (k, v) :: kvs, acc =>
    let sub := if lvl < 111 || jsonConv then pretty o (lvl + 1) v else dots '{' '}'
    if o.skipEmpty && sub.isEmpty then prettyKvs o lvl cond kvs acc
    else prettyKvs o lvl cond kvs (joinItem o lvl cond acc (quoted k ++ [':'] ++ sp o ++ sub))
end

def isDict : Val → Bool
  | .dict .. => true
  | _ => false

/-- `x.to_json(indent, pairs_in_one_line, skip_empty_arrays=…, compress=…)`;
`… or "{}"` (`n0dict_`) / `… or "[]"` (`n0list_`) -/
def toJson (o : Opts) (t : Val) : Str :=
  let r := pretty o 0 t
  if r.isEmpty then (if isDict t then ['{', '}'] else ['[', ']']) else r

/-! ### what `skip_empty_arrays` means: empty containers are dropped, bottom-up -/

def isEmptyContainer : Val → Bool
  | .list _ [] => true
  | .dict _ [] => true
  | _ => false

mutual
def prune : Val → Val
  | .list c xs => .list c (pruneList xs)
  | .dict c kvs => .dict c (pruneKvs kvs)
  | v => v
def pruneList : List Val → List Val
  | [] => []
  | x :: xs =>
    let x' := prune x
    if isEmptyContainer x' then pruneList xs else x' :: pruneList xs
def pruneKvs : List (Str × Val) → List (Str × Val)
  | [] => []
  | (k, v) :: kvs =>
    let v' := prune v
    if isEmptyContainer v' then pruneKvs kvs else (k, v') :: pruneKvs kvs
end

def dropEmptyIf (o : Opts) (t : Val) : Val := if o.skipEmpty then prune t else t

/-! `erase`: forget the `dict`/`n0dict`, `list`/`n0list` distinction (`json.loads` builds plain
ones; Python's `==` does not see the class) -/
mutual
def erase : Val → Val
  | .list _ xs => .list .plain (eraseList xs)
  | .dict _ kvs => .dict .plain (eraseKvs kvs)
  | v => v
def eraseList : List Val → List Val
  | [] => []
  | x :: xs => erase x :: eraseList xs
def eraseKvs : List (Str × Val) → List (Str × Val)
  | [] => []
  | (k, v) :: kvs => (k, erase v) :: eraseKvs kvs
end

/-! ### the reader (`json.loads`) -/

def isWs (c : Char) : Bool := c = ' ' || c = '\t' || c = '\n' || c = '\r'

def skipWs : Str → Str
  | [] => []
  | c :: s => if isWs c then skipWs s else c :: s

def hexDig (c : Char) : Option Nat :=
  if '0' ≤ c ∧ c ≤ '9' then some (c.toNat - 48)
  else if 'a' ≤ c ∧ c ≤ 'f' then some (c.toNat - 87)
  else if 'A' ≤ c ∧ c ≤ 'F' then some (c.toNat - 55)
  else Option.none

def hex4 (a b c d : Char) : Option Nat := do
  let a ← hexDig a; let b ← hexDig b; let c ← hexDig c; let d ← hexDig d
  pure (((a * 16 + b) * 16 + c) * 16 + d)

def simpleEsc (c : Char) : Option Char :=
  if c = '"' then some '"' else if c = '\\' then some '\\' else if c = '/' then some '/'
  else if c = 'b' then some (Char.ofNat 8) else if c = 'f' then some (Char.ofNat 12)
  else if c = 'n' then some '\n' else if c = 'r' then some '\r' else if c = 't' then some '\t'
  else Option.none

def bad {α} : PyM α := .error .ValueError     -- json.JSONDecodeError (a ValueError)

/-- `scanstring(s, end, strict=True)` from the character after the opening quote.
A `\uXXXX` escape in the surrogate range is combined with a following low surrogate
escape; a lone surrogate is outside the value model (`Unsupported`). -/
def scanString : Nat → Str → Str → PyM (Str × Str)
  | 0, _, _ => .error .OutOfFuel
  | _ + 1, [], _ => bad
  | f + 1, c :: s, acc =>
    if c = '"' then .ok (acc.reverse, s)
    else if c = '\\' then
      match s with
      | 'u' :: a :: b :: c' :: d :: s' =>
        match hex4 a b c' d with
        | Option.none => bad
        | some n =>
          if 0xD800 ≤ n ∧ n ≤ 0xDBFF then
            match s' with
            | '\\' :: 'u' :: a2 :: b2 :: c2 :: d2 :: s2 =>
              match hex4 a2 b2 c2 d2 with
              | some m =>
                if 0xDC00 ≤ m ∧ m ≤ 0xDFFF ∧ !s2.isEmpty then
                  scanString f s2 (Char.ofNat (0x10000 + (n - 0xD800) * 0x400 + (m - 0xDC00)) :: acc)
                else .error .Unsupported
              | Option.none => .error .Unsupported
            | _ => .error .Unsupported
          else if 0xDC00 ≤ n ∧ n ≤ 0xDFFF then .error .Unsupported
          else scanString f s' (Char.ofNat n :: acc)
      | 'u' :: _ => bad
      | e :: s' =>
        match simpleEsc e with
        | some x => scanString f s' (x :: acc)
        | Option.none => bad
      | [] => bad
    else if c.toNat < 32 then bad
    else scanString f s (c :: acc)

/-! numbers: the longest prefix matching `-?(0|[1-9][0-9]*)(\.[0-9]+)?([eE][-+]?[0-9]+)?` -/

inductive NSt | start | minus | zero | int | dot | frac | e | esign | exp
  deriving DecidableEq, Repr

def isDig (c : Char) : Bool := '0' ≤ c && c ≤ '9'

def nstep : NSt → Char → Option NSt
  | .start, c => if c = '-' then some .minus else if c = '0' then some .zero else if isDig c then some .int else Option.none
  | .minus, c => if c = '0' then some .zero else if isDig c then some .int else Option.none
  | .zero, c => if c = '.' then some .dot else if c = 'e' || c = 'E' then some .e else Option.none
  | .int, c => if isDig c then some .int else if c = '.' then some .dot else if c = 'e' || c = 'E' then some .e else Option.none
  | .dot, c => if isDig c then some .frac else Option.none
  | .frac, c => if isDig c then some .frac else if c = 'e' || c = 'E' then some .e else Option.none
  | .e, c => if isDig c then some .exp else if c = '+' || c = '-' then some .esign else Option.none
  | .esign, c => if isDig c then some .exp else Option.none
  | .exp, c => if isDig c then some .exp else Option.none

/-- accepting states: `some false` = integer lexeme, `some true` = float lexeme -/
def naccept : NSt → Option Bool
  | .zero => some false | .int => some false | .frac => some true | .exp => some true
  | _ => Option.none

/-- (length, is-float) of the longest accepted prefix -/
def nscan : NSt → Str → Nat → Option (Nat × Bool) → Option (Nat × Bool)
  | _, [], _, best => best
  | st, c :: s, n, best =>
    match nstep st c with
    | Option.none => best
    | some st' =>
      nscan st' s (n + 1) (match naccept st' with | some fl => some (n + 1, fl) | Option.none => best)

/-- `int(lexeme)` for `-?digits` -/
def intOfLex : Str → Int
  | '-' :: ds => -(natOfDigits ds : Int)
  | ds => (natOfDigits ds : Int)

def parseNumber (s : Str) : PyM (Val × Str) :=
  match nscan .start s 0 Option.none with
  | Option.none => bad
  | some (n, fl) =>
    let lex := s.take n
    if fl then .ok (.flt lex, s.drop n) else .ok (.int (intOfLex lex), s.drop n)

/-- `dict(pairs)`: a repeated key keeps its first position and takes the last value -/
def dictInsert (kvs : List (Str × Val)) (k : Str) (v : Val) : List (Str × Val) :=
  match kvs with
  | [] => [(k, v)]
  | (k', v') :: rest => if k = k' then (k', v) :: rest else (k', v') :: dictInsert rest k v

mutual
/-- `scan_once(string, idx)` (no leading white space is skipped here) -/
def parseValue : Nat → Str → PyM (Val × Str)
  | 0, _ => .error .OutOfFuel
  | f + 1, s =>
    match s with
    | '"' :: r => do
      let (x, r') ← scanString (r.length + 1) r []
      pure (.str x, r')
    | '{' :: r =>
      match skipWs r with
      | '}' :: r' => pure (.dict .plain [], r')
      | r1 => parseMembers f r1 []
    | '[' :: r =>
      match skipWs r with
      | ']' :: r' => pure (.list .plain [], r')
      | r1 => parseItems f r1 []
    | 'n' :: 'u' :: 'l' :: 'l' :: r => pure (.none, r)
    | 't' :: 'r' :: 'u' :: 'e' :: r => pure (.bool true, r)
    | 'f' :: 'a' :: 'l' :: 's' :: 'e' :: r => pure (.bool false, r)
    | 'N' :: 'a' :: 'N' :: r => pure (.flt "NaN".toList, r)
    | 'I' :: 'n' :: 'f' :: 'i' :: 'n' :: 'i' :: 't' :: 'y' :: r => pure (.flt "Infinity".toList, r)
    | '-' :: 'I' :: 'n' :: 'f' :: 'i' :: 'n' :: 'i' :: 't' :: 'y' :: r => pure (.flt "-Infinity".toList, r)
    | _ => parseNumber s
/-- the loop of `_parse_array` -/
def parseItems : Nat → Str → List Val → PyM (Val × Str)
  | 0, _, _ => .error .OutOfFuel
  | f + 1, s, acc => do
    let (v, r) ← parseValue f s
    match skipWs r with
    | ']' :: r' => pure (.list .plain (acc ++ [v]), r')
    | ',' :: r' => parseItems f (skipWs r') (acc ++ [v])
    | _ => bad
/-- the loop of `_parse_object` -/
def parseMembers : Nat → Str → List (Str × Val) → PyM (Val × Str)
  | 0, _, _ => .error .OutOfFuel
  | f + 1, s, acc =>
    match s with
    | '"' :: r => do
      let (k, r1) ← scanString (r.length + 1) r []
      match skipWs r1 with
      | ':' :: r2 => do
        let (v, r3) ← parseValue f (skipWs r2)
        match skipWs r3 with
        | '}' :: r4 => pure (.dict .plain (dictInsert acc k v), r4)
        | ',' :: r4 => parseMembers f (skipWs r4) (dictInsert acc k v)
        | _ => bad
      | _ => bad
    | _ => bad
end

/-- `json.loads(text)`; fuel: every character opens at most two nested calls -/
def jsonDecodeE (s : Str) : PyM Val := do
  let (v, r) ← parseValue (2 * s.length + 2) (skipWs s)
  if (skipWs r).isEmpty then pure v else bad

def jsonDecode (s : Str) : Option Val :=
  match jsonDecodeE s with
  | .ok v => some v
  | .error _ => Option.none

/-! ### the constructor side: `n0dict(text)` / `n0list(text)`

`json.loads(text, object_pairs_hook=n0dict)`: the scanner is the same C code; the only difference
is the end of `_parse_object`, which hands the *list of pairs* to the hook instead of building
`dict(pairs)`.  The hook is the constructor itself applied to a list of 2-tuples: `not _incoming`
(no pairs) or `all(len(itm) == 2 …)` both end in `dict.__init__(self, pairs)`. -/

/-- `dict(pairs)` -/
def dictOfPairs (pairs : List (Str × Val)) : List (Str × Val) :=
  pairs.foldl (fun acc p => dictInsert acc p.1 p.2) []

/-- `n0dict(pairs)` called as `object_pairs_hook` -/
def n0hook (pairs : List (Str × Val)) : Val := .dict .n0 (dictOfPairs pairs)

mutual
/-- `scan_once` with the hook: objects and arrays descend with the hook, every other token is
read by the same code as without it -/
def parseValueH : Nat → Str → PyM (Val × Str)
  | 0, _ => .error .OutOfFuel
  | f + 1, s =>
    match s with
    | '{' :: r =>
      match skipWs r with
      | '}' :: r' => pure (n0hook [], r')
      | r1 => parseMembersH f r1 []
    | '[' :: r =>
      match skipWs r with
      | ']' :: r' => pure (.list .plain [], r')
      | r1 => parseItemsH f r1 []
    | _ => parseValue (f + 1) s
def parseItemsH : Nat → Str → List Val → PyM (Val × Str)
  | 0, _, _ => .error .OutOfFuel
  | f + 1, s, acc => do
    let (v, r) ← parseValueH f s
    match skipWs r with
    | ']' :: r' => pure (.list .plain (acc ++ [v]), r')
    | ',' :: r' => parseItemsH f (skipWs r') (acc ++ [v])
    | _ => bad
/-- `_parse_object` with `object_pairs_hook`: the pairs are collected as they come -/
def parseMembersH : Nat → Str → List (Str × Val) → PyM (Val × Str)
  | 0, _, _ => .error .OutOfFuel
  | f + 1, s, pairs =>
    match s with
    | '"' :: r => do
      let (k, r1) ← scanString (r.length + 1) r []
      match skipWs r1 with
      | ':' :: r2 => do
        let (v, r3) ← parseValueH f (skipWs r2)
        match skipWs r3 with
        | '}' :: r4 => pure (n0hook (pairs ++ [(k, v)]), r4)
        | ',' :: r4 => parseMembersH f (skipWs r4) (pairs ++ [(k, v)])
        | _ => bad
      | _ => bad
    | _ => bad
end

/-- `json.loads(text, object_pairs_hook=n0dict)` -/
def jsonLoadsHookE (s : Str) : PyM Val := do
  let (v, r) ← parseValueH (2 * s.length + 2) (skipWs s)
  if (skipWs r).isEmpty then pure v else bad

/-- `n0dict(text)` for a `str` argument (`force_dict` off, no other keyword):
`if not _incoming` → an empty n0dict; `strip()`; `<…` is XML (`xmltodict`, not this property);
`{…` is JSON read with the hook and copied into `self`; anything else is a `TypeError` -/
def n0dictOfText (s : Str) : PyM Val :=
  if s.isEmpty then .ok (.dict .n0 [])
  else
    match stripWs s with
    | '<' :: _ => .error .Unsupported
    | '{' :: r => do
      let v ← jsonLoadsHookE ('{' :: r)
      match v with
      | .dict _ kvs => .ok (.dict .n0 kvs)      -- `isinstance(_incoming, (dict, zip))`: `dict.__init__(self, _incoming)`
      | _ => .error .Unsupported                 -- not reachable: a text starting with `{` decodes to an object
    | _ => .error .TypeError

/-- `n0list(text)` for a `str` argument: `[…` is JSON read with the hook and copied into `self`
(the items keep their classes: nested lists are plain lists, objects are n0dicts) -/
def n0listOfText (s : Str) : PyM Val :=
  if s.isEmpty then .ok (.list .n0 [])
  else
    match stripWs s with
    | '[' :: r => do
      let v ← jsonLoadsHookE ('[' :: r)
      match v with
      | .list _ xs => .ok (.list .n0 xs)         -- `list.__init__(self, _incoming)`
      | _ => .error .Unsupported                 -- not reachable: a text starting with `[` decodes to an array
    | _ => .error .TypeError

end N0.Json
