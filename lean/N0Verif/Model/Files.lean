import N0Verif.Py.Basic
import N0Verif.Gen.Cp1252
/-!
  Model of `save_file`, `load_file`, `load_lines` (n0struct/n0struct_files.py) over an
  abstract file system, together with the part of Python's `open()` the three functions use:

  * mode-string validation of `open` (`parseMode`),
  * the binary layer (bytes are appended verbatim),
  * the text layer: on write `'\n'` is translated to the `newline=` argument and the text is
    encoded by an *incremental* encoder which emits the codec's start-of-stream mark (the
    `utf-8-sig` BOM) only on the first write of a stream positioned at offset 0; on read the
    whole file is decoded (a leading BOM is skipped by a BOM codec) and universal newlines
    are applied (`'\r\n'`, `'\r'` → `'\n'`).

  A byte is represented as the character with the same code (0..255).  The codec is a
  parameter (`Codec`): `enc`/`dec` are the BOM-less body encoder/decoder, `bom` the mark that
  `str.encode(encoding)` puts in front (empty for utf-8, latin-1, cp1252).  The four codecs
  the property quantifies over are defined concretely at the end of the file (used by the
  driver and validated against CPython by correspondence streams); the cp1252 table is not
  written by hand but generated from the interpreter (`Gen/Cp1252.lean`).

  The code modelled is the code **with the fixes `C15-close`, `C15-a`, `C15-c` and `C15-d` applied**
  (`out_filehandler.close()`: every write reaches the file before `save_file` returns; on the
  manual path the codec's signature is taken off every encoded piece and written once, in
  front of the first piece, when the file has no content yet; `load_file` / `load_lines` look for
  a custom EOL in the file's encoding - as `save_file` wrote it - instead of its UTF-8 form;
  `load_lines` in binary mode does not yield the empty piece after the last EOL).
-/
namespace N0.Files
open N0 N0.Py

/-- bytes: characters with codes 0..255 -/
abbrev Bytes := List Char

/-! ### codecs -/

structure Codec where
  /-- what `''.encode(encoding)` returns: the start-of-stream mark -/
  bom : Bytes
  /-- body encoder; `none` = `UnicodeEncodeError` -/
  enc : Str → Option Bytes
  /-- body decoder; `none` = `UnicodeDecodeError` -/
  dec : Bytes → Option Str

/-- `s.encode(encoding)` -/
def Codec.encode (c : Codec) (s : Str) : Option Bytes := (c.enc s).map (fun b => c.bom ++ b)

/-- `b.decode(encoding)`, also what a text-mode `read()` of a whole file decodes to:
one leading start-of-stream mark is skipped -/
def Codec.decode (c : Codec) (b : Bytes) : Option Str :=
  c.dec (if startsWith b c.bom then b.drop c.bom.length else b)

/-- what a text-mode `read()` of a whole file decodes to.  It differs from `decode` in one
corner of CPython's *incremental* BOM decoder: a file that is a proper prefix of the mark
(`EF` or `EF BB` for utf-8-sig) is buffered "waiting for more" and reads as the empty text,
whereas `bytes.decode` raises. -/
def Codec.decodeStream (c : Codec) (b : Bytes) : Option Str :=
  if b.length < c.bom.length && startsWith c.bom b then some [] else c.decode b

/-! ### file system -/

abbrev FS := Str → Option Bytes

def FS.write (fs : FS) (p : Str) (b : Bytes) : FS := fun q => if q = p then some b else fs q

/-! ### `open()` -/

inductive OpenKind | r | w | x | a
  deriving DecidableEq, Repr

structure OpenMode where
  kind : OpenKind
  plus : Bool
  binary : Bool
  deriving DecidableEq, Repr

def hasDup : Str → Bool
  | [] => false
  | c :: s => s.contains c || hasDup s

def modeChars : Str := ['x', 'r', 'w', 'a', 'b', '+', 't']

def b2n (b : Bool) : Nat := if b then 1 else 0

/-- the validation `open()` performs on its mode string; every rejection is a `ValueError`
and happens before the file is touched -/
def parseMode (m : Str) : PyM OpenMode :=
  if m.any (fun ch => !modeChars.contains ch) || hasDup m then .error .ValueError
  else if m.contains 't' && m.contains 'b' then .error .ValueError
  else if b2n (m.contains 'x') + b2n (m.contains 'r') + b2n (m.contains 'w') + b2n (m.contains 'a') != 1 then
    .error .ValueError
  else
    let k := if m.contains 'r' then OpenKind.r else if m.contains 'w' then .w
             else if m.contains 'x' then .x else .a
    .ok { kind := k, plus := m.contains '+', binary := m.contains 'b' }

/-- content of the file right after it has been opened for writing.  `'r…'` (not writable)
and `'x…'` (exclusive creation) are outside the model. -/
def openOut (fs : FS) (path : Str) (om : OpenMode) : PyM Bytes :=
  match om.kind with
  | .w => .ok []
  | .a => .ok ((fs path).getD [])
  | _ => .error .Unsupported

/-- content of a file opened for reading; a missing file (`FileNotFoundError`) is outside
the model -/
def openIn (fs : FS) (path : Str) (mode : Str) : PyM Bytes := do
  let om ← parseMode mode
  match om.kind, fs path with
  | .r, some b => .ok b
  | _, _ => .error .Unsupported

/-! ### output streams -/

inductive Data
  | s (x : Str)
  | b (x : Bytes)
  deriving DecidableEq, Repr

structure Out where
  content : Bytes
  binary : Bool
  /-- the start-of-stream mark is still to be written.  Text layer: nothing written yet and the
  stream is at offset 0 (the incremental encoder will emit its mark).  Binary handle: `pending`
  of `save_file` is not empty yet (text payload, `tell() == 0` after `open`). -/
  fresh : Bool
  /-- text layer: the `newline=` argument -/
  nl : Str
  deriving DecidableEq, Repr

def lf : Str := ['\n']
def crlf : Str := ['\r', '\n']
def cr : Str := ['\r']

/-- `out_filehandler.write(x)`; on the binary handle together with the
`line, pending = pending + line, b''` / `output_buffer = pending + output_buffer` in front of it -/
def Out.write (c : Codec) (o : Out) (d : Data) : PyM Out :=
  match o.binary, d with
  | true, .b x => .ok { o with content := o.content ++ (if o.fresh then c.bom else []) ++ x, fresh := false }
  | true, .s _ => .error .TypeError
  | false, .b _ => .error .TypeError
  | false, .s x =>
    match c.enc (replace lf o.nl x) with
    | none => .error .ValueError
    | some y => .ok { o with content := o.content ++ (if o.fresh then c.bom else []) ++ y, fresh := false }

/-! ### save_file -/

inductive Line
  | str (s : Str)
  | bytes (b : Bytes)
  /-- any other object, given by its `str()` -/
  | other (repr : Str)
  deriving DecidableEq, Repr

inductive Payload
  | str (s : Str)
  | bytes (b : Bytes)              -- bytes, bytearray
  | lines (xs : List Line)         -- list, tuple, generator
  | dict (kvs : List (Str × Str))  -- items already rendered by `format()`
  | other (repr : Str)             -- anything else, given by its `str()`
  deriving Repr

/-- the payload after the conversions of lines 66–69 and 74–75 -/
inductive Buf
  | s (x : Str)
  | b (x : Bytes)
  | ls (xs : List Line)
  deriving Repr

def isStdEol (eol : Str) : Bool := eol == crlf || eol == lf || eol == cr

/-- ``f"{mode[0]}b{mode[2:]}"`` -/
def setB (mode : Str) : PyM Str :=
  match mode with
  | [] => .error .IndexError
  | m0 :: _ => .ok (m0 :: 'b' :: mode.drop 2)

/-- the conversion of one element of a list payload (the `if 'b' in mode` / `else` of the loop).
On the binary handle `str(line).encode(encoding)[len(signature):]` is the body encoding: a list
payload is never `bytes`, so `signature` is the codec's mark there. -/
def convLine (c : Codec) (bin : Bool) : Line → PyM Data
  | .str s => if bin then (match c.enc s with | some b => .ok (.b b) | none => .error .ValueError) else .ok (.s s)
  | .bytes b => if bin then .ok (.b b) else (match c.decode b with | some s => .ok (.s s) | none => .error .ValueError)
  | .other r => if bin then (match c.enc r with | some b => .ok (.b b) | none => .error .ValueError) else .ok (.s r)

/-- the `for line in output_buffer` loop; the stream reached so far is returned also when a
line fails -/
def writeLines (c : Codec) (bin : Bool) (eolD : Data) : Out → List Line → Out × PyM Unit
  | o, [] => (o, .ok ())
  | o, l :: ls =>
    match convLine c bin l with
    | .error e => (o, .error e)
    | .ok d =>
      match o.write c d with
      | .error e => (o, .error e)
      | .ok o1 =>
        match o1.write c eolD with
        | .error e => (o1, .error e)
        | .ok o2 => writeLines c bin eolD o2 ls

/-- lines 83–97 -/
def writeAll (c : Codec) (bin : Bool) (eolD : Data) (o : Out) : Buf → Out × PyM Unit
  | .ls xs => writeLines c bin eolD o xs
  | .s x => match o.write c (.s x) with | .ok o1 => (o1, .ok ()) | .error e => (o, .error e)
  | .b x => match o.write c (.b x) with | .ok o1 => (o1, .ok ()) | .error e => (o, .error e)

def finish (fs : FS) (path : Str) (r : Out × PyM Unit) : FS × PyM Unit := (fs.write path r.1.content, r.2)

def shortModes : List Str := [['t'], ['b'], ['t', '+'], ['b', '+']]

/-- lines 61–64: the short modes get a `w`; a bytes payload forces `b` into the mode -/
def normMode (mode : Str) (isBytes : Bool) : PyM Str :=
  let mode1 := if shortModes.contains mode then 'w' :: mode else mode
  if isBytes then setB mode1 else .ok mode1

def Payload.isBytes : Payload → Bool
  | .bytes _ => true
  | _ => false

/-- lines 66–69 -/
def toBuf (tag : Str) : Payload → Buf
  | .dict kvs => .s (join lf (kvs.map (fun kv => kv.1 ++ tag ++ kv.2)))
  | .other r => .s r
  | .str s => .s s
  | .bytes b => .b b
  | .lines xs => .ls xs

def Buf.isBytes : Buf → Bool
  | .b _ => true
  | _ => false

/-- the manual path (binary handle, `'\n'` replaced by hand, every piece encoded by its own
`str.encode(encoding)` call).  `signature` is `b''` for a bytes payload and the codec's mark
otherwise; `x.encode(encoding)[len(signature):]` is then the body encoding `c.enc x` (for a bytes
payload the EOL keeps its mark, and is never written).  `pending` — the mark still to be written
in front of the first piece — is the signature iff `tell() == 0` right after `open`. -/
def saveBinary (c : Codec) (fs : FS) (path : Str) (buf1 : Buf) (mode2 eol : Str) : FS × PyM Unit :=
  match setB mode2 with
  | .error e => (fs, .error e)
  | .ok mode3 =>
    match (match buf1 with
           | .s x => (c.enc (replace lf eol x)).map Buf.b
           | other => some other) with
    | none => (fs, .error .ValueError)
    | some buf2 =>
      match (if buf1.isBytes then c.encode eol else c.enc eol) with
      | none => (fs, .error .ValueError)
      | some eolB =>
        match parseMode mode3 >>= openOut fs path with
        | .error e => (fs, .error e)
        | .ok content =>
          finish fs path (writeAll c (mode3.contains 'b') (.b eolB)
            { content := content, binary := true, fresh := !buf1.isBytes && content.isEmpty, nl := [] } buf2)

/-- lines 80–81 and 83–97: the text layer does the newline translation and the encoding -/
def saveText (c : Codec) (fs : FS) (path : Str) (buf1 : Buf) (mode2 eol : Str) : FS × PyM Unit :=
  match parseMode mode2 >>= openOut fs path with
  | .error e => (fs, .error e)
  | .ok content =>
    finish fs path (writeAll c (mode2.contains 'b') (.s lf)
      { content := content, binary := false, fresh := content.isEmpty, nl := eol } buf1)

/-- `save_file(file_path, output_buffer, mode, encoding, EOL, equal_tag)`: the resulting file
system and the outcome.  `EOL` is a `str`. -/
def saveFile (c : Codec) (fs : FS) (path : Str) (buf : Payload) (mode eol tag : Str) : FS × PyM Unit :=
  match normMode mode buf.isBytes with
  | .error e => (fs, .error e)
  | .ok mode2 =>
    if mode2.contains 'b' || !isStdEol eol then saveBinary c fs path (toBuf tag buf) mode2 eol
    else saveText c fs path (toBuf tag buf) mode2 eol

/-! ### load_file, load_lines -/

/-- universal newlines of a text-mode read -/
def univNL : Str → Str
  | [] => []
  | [c] => if c = '\r' then ['\n'] else [c]
  | c :: d :: s =>
    if c = '\r' then
      if d = '\n' then '\n' :: univNL s else '\n' :: univNL (d :: s)
    else c :: univNL (d :: s)

/-- the successive results of `readline()` on a text whose only line break is `'\n'` -/
def textLines : Str → List Str
  | [] => []
  | c :: s =>
    if c = '\n' then ['\n'] :: textLines s
    else match textLines s with
      | [] => [[c]]
      | l :: ls => (c :: l) :: ls

def utf8EncChar (ch : Char) : Bytes :=
  let n := ch.toNat
  if n < 0x80 then [ch]
  else if n < 0x800 then [Char.ofNat (0xC0 + n / 64), Char.ofNat (0x80 + n % 64)]
  else if n < 0x10000 then
    [Char.ofNat (0xE0 + n / 4096), Char.ofNat (0x80 + n / 64 % 64), Char.ofNat (0x80 + n % 64)]
  else
    [Char.ofNat (0xF0 + n / 262144), Char.ofNat (0x80 + n / 4096 % 64),
     Char.ofNat (0x80 + n / 64 % 64), Char.ofNat (0x80 + n % 64)]

/-- `s.encode("utf-8")` (total on Lean's `Char`: no surrogates) -/
def utf8Enc (s : Str) : Bytes := s.flatMap utf8EncChar

inductive Loaded
  | str (s : Str)
  | bytes (b : Bytes)
  deriving DecidableEq, Repr

def rdB : Str := ['r', 'b']
def rdT : Str := ['r', 't']

/-- `load_file(file_path, read_mode, encoding, EOL)` -/
def loadFile (c : Codec) (fs : FS) (path : Str) (readMode eol : Str) : PyM Loaded :=
  if readMode.contains 'b' || !isStdEol eol then do
    let data ← openIn fs path (rdB ++ readMode.drop 1)
    if readMode.contains 't' then
      -- fix C15-c: the EOL is looked for as `save_file` wrote it, `EOL.encode(encoding)[len(signature):]`
      match c.enc eol with
      | none => .error .ValueError               -- UnicodeEncodeError
      | some eolB =>
        if eol.isEmpty then .error .Unsupported   -- bytes.replace(b'', …) is not modelled
        else
          match c.decode (replace eolB lf data) with
          | some s => .ok (.str s)
          | none => .error .ValueError
    else .ok (.bytes data)
  else do
    let data ← openIn fs path (rdT ++ readMode.drop 1)
    match c.decodeStream data with
    | some s => .ok (.str (univNL s))
    | none => .error .ValueError

/-- fix C15-d: `if not lines[-1]: lines.pop()` — the piece after the last EOL is not a line when it
is empty (`split` never returns an empty list) -/
def dropLastEmpty : List Bytes → List Bytes
  | [] => []
  | [x] => if x.isEmpty then [] else [x]
  | x :: y :: xs => x :: dropLastEmpty (y :: xs)

/-- `list(load_lines(file_path, read_mode, encoding, EOL))` -/
def loadLines (c : Codec) (fs : FS) (path : Str) (readMode eol : Str) : PyM (List Loaded) :=
  if readMode.contains 'b' || !isStdEol eol then
    -- fix C15-c: `EOL.encode(encoding)[len(signature):]`, before the file is touched
    match c.enc eol with
    | none => .error .ValueError                 -- UnicodeEncodeError
    | some eolB => do
      -- load_file(file_path, read_mode='b'): the encoding and EOL defaults play no role
      let r ← loadFile c fs path ['b'] lf
      match r with
      | .bytes data =>
        if eolB.isEmpty then .error .ValueError    -- split(b''): empty separator
        else .ok ((dropLastEmpty (split eolB data)).map Loaded.bytes)
      | .str _ => .error .TypeError
  else do
    let data ← openIn fs path rdT
    match c.decodeStream data with
    | some s => .ok ((textLines (univNL s)).map (fun l => Loaded.str (rstrip crlf l)))
    | none => .error .ValueError

/-! ### the four concrete codecs -/

def isByte (ch : Char) : Bool := ch.toNat < 256

def isCont (ch : Char) : Bool := 0x80 ≤ ch.toNat && ch.toNat < 0xC0

/-- strict UTF-8 decoder (shortest form, no surrogates, ≤ U+10FFFF) -/
def utf8Dec : Bytes → Option Str
  | [] => some []
  | b0 :: rest =>
    let n0 := b0.toNat
    if n0 < 0x80 then (utf8Dec rest).map (b0 :: ·)
    else if 0xC2 ≤ n0 && n0 < 0xE0 then
      match rest with
      | b1 :: r =>
        if isCont b1 then (utf8Dec r).map (Char.ofNat ((n0 - 0xC0) * 64 + (b1.toNat - 0x80)) :: ·) else none
      | _ => none
    else if 0xE0 ≤ n0 && n0 < 0xF0 then
      match rest with
      | b1 :: b2 :: r =>
        let cp := (n0 - 0xE0) * 4096 + (b1.toNat - 0x80) * 64 + (b2.toNat - 0x80)
        if isCont b1 && isCont b2 && 0x800 ≤ cp && !(0xD800 ≤ cp && cp < 0xE000) then
          (utf8Dec r).map (Char.ofNat cp :: ·) else none
      | _ => none
    else if 0xF0 ≤ n0 && n0 < 0xF5 then
      match rest with
      | b1 :: b2 :: b3 :: r =>
        let cp := (n0 - 0xF0) * 262144 + (b1.toNat - 0x80) * 4096 + (b2.toNat - 0x80) * 64 + (b3.toNat - 0x80)
        if isCont b1 && isCont b2 && isCont b3 && 0x10000 ≤ cp && cp < 0x110000 then
          (utf8Dec r).map (Char.ofNat cp :: ·) else none
      | _ => none
    else none

def utf8 : Codec := { bom := [], enc := fun s => some (utf8Enc s), dec := utf8Dec }

def bomUtf8 : Bytes := [Char.ofNat 0xEF, Char.ofNat 0xBB, Char.ofNat 0xBF]

def utf8sig : Codec := { bom := bomUtf8, enc := fun s => some (utf8Enc s), dec := utf8Dec }

def latin1 : Codec :=
  { bom := []
    enc := fun s => if s.all isByte then some s else none
    dec := fun b => if b.all isByte then some b else none }

/-! #### single-byte table codecs

A charmap codec is given by its decoding table (entry `b` = code point of byte `b`, `none` =
undefined byte); the encoder is derived from the same table — the first byte holding the code
point — as CPython derives `encoding_table` from `decoding_table` (`codecs.charmap_build`). -/

/-- first index, counted from `i`, of the entry holding code point `n` -/
def tableFind (n : Nat) : List (Option Nat) → Nat → Option Nat
  | [], _ => none
  | e :: t, i => if e = some n then some i else tableFind n t (i + 1)

def tableDecByte (t : List (Option Nat)) (b : Char) : Option Char :=
  match t[b.toNat]? with
  | some (some cp) => some (Char.ofNat cp)
  | _ => none

def tableEncChar (t : List (Option Nat)) (ch : Char) : Option Char :=
  (tableFind ch.toNat t 0).map Char.ofNat

def tableCodec (t : List (Option Nat)) : Codec :=
  { bom := [], enc := fun s => s.mapM (tableEncChar t), dec := fun b => b.mapM (tableDecByte t) }

/-- cp1252: the table is generated from the running interpreter (`harness/translate_cp1252.py`) -/
def cp1252 : Codec := tableCodec Gen.Cp1252.table

/-! ### vocabulary of the binary `load_lines` statements (executable: also answered by the driver) -/

/-- **the condition on a line**: the first occurrence of the EOL in `line + EOL` is the one at the
end of the line — Python: `(line + EOL).find(EOL) == len(line)`.  It fails when the line contains
the EOL, and when an end of the line together with a beginning of the EOL spells the EOL
(`'a|' + '||'`); what follows the EOL (the next line) plays no role. -/
def lineOk (e : Bytes) : Bytes → Bool
  | [] => true
  | c :: l => !startsWith (c :: l ++ e) e && lineOk e l

/-- the file content for a list of byte lines: every line followed by the EOL -/
def unlinesB (e : Bytes) (ls : List Bytes) : Bytes := ls.flatMap (fun l => l ++ e)

/-- the start-of-stream mark goes in front of the first line -/
def markFirst (bom : Bytes) : List Bytes → List Bytes
  | [] => []
  | l :: ls => (bom ++ l) :: ls

end N0.Files
