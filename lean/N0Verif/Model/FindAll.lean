import N0Verif.Model.XPath
/-!
  Model of `n0struct_findall.py`: `findall` (expression normalisation), `_findall`
  (recursive matcher) and `findfirst`.

  The model follows the code with the repairs `fixes/C19-a.patch` (leading index on a list root),
  `fixes/C19-b.patch` (`'..'` looks its target up by xpath and no longer deletes from the
  stack), `fixes/C19-c.patch` (a `text()` condition is no longer appended to the found xpath),
  `fixes/C19-d.patch` (a name / index step on a final element is a miss, not `KeyError("Internal
  error")`), `fixes/C19-e.patch` (`findall` hands `raise_exception` on to `_findall`) and
  `fixes/C19-f.patch` (a `text()` condition compares a node that is not a string instead of raising
  AttributeError) applied.

  `_findall` has **two mutable default arguments** (`found_xpath_list = []`,
  `parent_nodes_stack = {}`) and updates the list object it received *in place*
  (`found_xpath_list[-1] += …`, `found_xpath_list[-1] = …`; before C19-b also
  `del parent_nodes_stack[…]`), hands the *same* list/dict objects to some recursive calls, while
  other call sites pass fresh copies (`found_xpath_list + [x]`, `found_xpath_list[:-1]`,
  `{**parent_nodes_stack, …}`).  Values are immutable here, so the two objects are threaded as
  explicit state: every call returns its result **together with the final contents of the list
  object and of the dict object it received** (also when it raises).  At a call site that passes
  the same object the caller continues with the returned contents, at a call site that passes a
  copy the caller keeps its own.  The top-level entry starts from the contents of the
  module-level default objects and returns their final contents, so that leakage from one search
  into the next is expressible (`findallTop`, `runHist`).

  The recursion is not structural (`name` on a list re-enters with `"[*]"` prepended, `'..'`
  re-enters an ancestor), so `fa` takes fuel (= recursion depth); the body of one call is the
  non-recursive `step`, parameterised by the function used for the recursive calls.
-/
namespace N0.FindAll
open N0 N0.Py N0.Val

/-- the mapping `findall` returns: insertion-ordered (xpath, node) pairs -/
abbrev Found := List (Str × Val)
/-- contents of a `found_xpath_list` object -/
abbrev FL := List Str
/-- contents of a `parent_nodes_stack` object (insertion-ordered dict) -/
abbrev PS := List (Str × Val)

/-- outcome of one `_findall` call: result (`none` = Python `None`) or exception, and the final
contents of the two objects the call received -/
structure Out where
  res : PyM (Option Found)
  fl : FL
  ps : PS
  deriving DecidableEq, Repr

/-! ## strings -/

/-- `s.replace("[", "/[")` -/
def insLB (s : Str) : Str := s.flatMap (fun c => if c = '[' then ['/', '['] else [c])

/-- `s.replace("//", "/")`: non-overlapping, left to right -/
def replSS : Str → Str
  | '/' :: '/' :: rest => '/' :: replSS rest
  | c :: rest => c :: replSS rest
  | [] => []

/-- `s.replace("/[", "[")` -/
def delSB : Str → Str
  | [] => []
  | c :: rest => if c = '/' ∧ rest.head? = some '[' then delSB rest else c :: delSB rest

/-- the three `startswith` tests at the head of `findall` -/
def normExpr (s : Str) : Str :=
  let s := if startsWith s ['.', '/'] then s.drop 2 else s
  let s := if startsWith s ['/', '/'] then s.drop 2 else s
  if startsWith s ['/'] then s.drop 1 else s

/-- `seeked_xpath_list` of `findall` -/
def tokens (s : Str) : List Str :=
  (splitChar '/' (replSS (insLB (normExpr s)))).filter (fun t => !t.isEmpty)

/-- `"//" + "/".join(found_xpath_list).replace('/[', '[')` -/
def keyOf (fl : FL) : Str := '/' :: '/' :: delSB (join ['/'] fl)

/-! ## classification of one step (`seeked_xpath_list[0]`) -/

inductive Step
  | up                              -- `'..'`
  | name (n : Str)                  -- child name (`'*'` included)
  | idx (i : Int)                   -- `[3]`, `[-1]`, `[last()-1]`
  | star                            -- `[*]`
  | text (eq : Bool) (v : Str)      -- `[text()=v]`, `[text()!=v]`
  | fail (e : PyErr)                -- the step itself raises
  deriving DecidableEq, Repr, Inhabited

/-- ASCII `str.isnumeric()` -/
def isNumericAscii (s : Str) : Bool := !s.isEmpty && s.all isAsciiDigit

/-- `isnumber(value)` of n0struct_utils for text -/
def isNumber (s : Str) : Bool :=
  let v := stripWs s
  let v := if startsWith v ['+'] || startsWith v ['-'] then stripWs (v.drop 1) else v
  let v := if v.count '.' = 1 then v.map (fun c => if c = '.' then '0' else c) else v
  isNumericAscii v

/-- a decimal literal Python's `eval` accepts: digits, no leading zero unless all zeros -/
def validLit (ds : Str) : Bool := !ds.isEmpty && (ds.head? != some '0' || ds.all (· = '0'))

/-- `eval` of a text made of digits, `+` and `-`: a sum of signed decimal literals with any
number of unary signs; `none` = SyntaxError.  Arguments: rest, sum so far, sign of the pending
term, digits of the pending literal. -/
def evalSum : Str → Int → Int → Str → Option Int
  | [], acc, sgn, ds => if validLit ds then some (acc + sgn * (natOfDigits ds : Int)) else Option.none
  | c :: s, acc, sgn, ds =>
    if isAsciiDigit c then evalSum s acc sgn (ds ++ [c])
    else if ds.isEmpty then evalSum s acc (if c = '-' then -sgn else sgn) []
    else if validLit ds then evalSum s (acc + sgn * (natOfDigits ds : Int)) (if c = '-' then -1 else 1) []
    else Option.none

def lastChars : Str := "-+01234567890".toList
def sLastFn : Str := "last()".toList
def sTextFn : Str := "text()".toList

/-- `eval("-1" + after_last if <only -+digits> else "")` -/
def evalLast (after : Str) : Option Int :=
  if after.all (fun c => lastChars.contains c) then evalSum ('-' :: '1' :: after) 0 1 [] else Option.none

def unquote (v : Str) : Str :=
  if v.length > 1 &&
      ((startsWith v ['"'] && endsWith v ['"']) || (startsWith v ['\''] && endsWith v ['\''])) then
    (v.drop 1).dropLast
  else v

/-- the part of `_findall` between "Get child name or index/condition" and the test of the
node's type, as far as it depends on the token only -/
def classify (tok : Str) : Step :=
  if stripWs tok = ['.', '.'] then .up
  else if startsWith tok ['['] then
    if !endsWith tok [']'] then .fail .TypeError
    else if tok.any (fun c => c.toNat ≥ 128) then .fail .Unsupported   -- lower()/isnumeric() beyond ASCII
    else
      let ci := stripWs ((tok.drop 1).dropLast)
      if isNumber ci then
        match XPath.pyInt ci with
        | some i => .idx i
        | Option.none => .fail .ValueError
      else
        let lci := (lower ci).filter (· ≠ ' ')
        if lci = ['*'] then .star
        else if startsWith lci sLastFn then
          match evalLast (lci.drop 6) with
          | some i => .idx i
          | Option.none => .fail .SyntaxError
        else if startsWith lci sTextFn then
          let after := lci.drop 6
          let cond : Option (Bool × Str) :=
            if startsWith after ['=', '='] then some (true, ['=', '='])
            else if startsWith after ['='] then some (true, ['='])
            else if startsWith after ['!', '='] then some (false, ['!', '='])
            else if startsWith after ['<', '>'] then some (false, ['<', '>'])
            else Option.none
          match cond with
          | Option.none => .fail .TypeError
          | some (eq, delim) =>
            match XPath.splitOnce delim ci with
            | Option.none => .fail .ValueError          -- unpacking one value into two names
            | some (_, a) => .text eq (unquote (stripWs a))
        else .fail .TypeError
  else .name tok

/-! ## one call of `_findall` -/

def isContainer : Val → Bool
  | .list .. => true
  | .dict .. => true
  | _ => false

/-- `raise X` under `if raise_exception:` … `else: return None` -/
def raiseOr (re : Bool) (e : PyErr) : PyM (Option Found) := if re then .error e else .ok Option.none

/-- `if found: multi_found.update(found)` -/
def upd (acc : Found) (f : Option Found) : Found :=
  match f with
  | Option.none => acc
  | some l => l.foldl (fun a kv => kvSet kv.1 kv.2 a) acc

/-- `found_xpath_list[-1] = s` on a non-empty list -/
def setLast (fl : FL) (s : Str) : FL := fl.dropLast ++ [s]

/-- `{**parent_nodes_stack, **{key(found_xpath_list): parent_node}}` -/
def push (ps : PS) (fl : FL) (node : Val) : PS := kvSet (keyOf fl) node ps

/-- the `for child_index, child_node in enumerate(parent_node)` loop of the `[*]` branch.
`call child cur` is the recursive call (same list object `cur`, copied stack); the loop returns
the result and the final contents of the list object it works on. -/
def starLoop (call : Val → FL → Out) (re : Bool) (last : Str) :
    Nat → List Val → FL → Found → PyM (Option Found) × FL
  | _, [], cur, acc => (.ok (some acc), cur)
  | i, c :: cs, cur, acc =>
    if isContainer c then
      let cur1 := setLast cur (last ++ XPath.bracket (natRepr i))
      let o := call c cur1
      match o.res with
      | .error e => (.error e, o.fl)
      | .ok f => starLoop call re last (i + 1) cs o.fl (upd acc f)
    else (raiseOr re .IndexError, cur)

/-- the `for child_name in parent_node` loop of the `*` branch (every call gets copies) -/
def keysLoop (call : Str → Val → Out) : List (Str × Val) → Found → PyM (Option Found)
  | [], acc => .ok (some acc)
  | (k, c) :: kvs, acc =>
    if isContainer c then
      match (call k c).res with
      | .error e => .error e
      | .ok f => keysLoop call kvs (upd acc f)
    else keysLoop call kvs acc

section step
variable (rec : Val → List Str → FL → PS → Out) (re : Bool)

/-- `'..'`: continue in the node registered in the stack under the found xpath without its last
element, with a copy of that shorter path and the **same** stack object (which is only read) -/
def stepUp (rest : List Str) (fl : FL) (ps : PS) : Out :=
  match (if fl.isEmpty then Option.none else lookup (keyOf fl.dropLast) ps) with
  | Option.none => ⟨raiseOr re .KeyError, fl, ps⟩
  | some target =>
    let o := rec target rest fl.dropLast ps
    ⟨o.res, fl, o.ps⟩

/-- characters of the texts Python's `float()` accepts: digits, `.`, `_`, signs, exponent, the
letters of `inf` / `infinity` / `nan` in either case, surrounding blanks (a superset is enough) -/
def floatLitChar (c : Char) : Bool :=
  isAsciiDigit c || isPySpace c || ['.', '_', '+', '-', 'e', 'E', 'i', 'I', 'n', 'N', 'f', 'F', 't', 'T', 'y', 'Y', 'a', 'A'].contains c

/-- the comparison of a `text()` condition (fix C19-f): a string node is compared case-insensitively;
an `int` (`bool` included) node is compared as a number with `int(expected)` — a text `int()` refuses is
not equal — exactly as item access does (`XPath.textEqCond`); `None`, a dict and a list have no text and
are equal to no expected text.  `float(expected)` for a float node (unless the text cannot be a
float literal) and `lower()` beyond ASCII are outside the model. -/
def textEq (node : Val) (v : Str) : PyM Bool :=
  match node with
  | .str s =>
    if s.any (fun c => c.toNat ≥ 128) then .error .Unsupported    -- `lower()` beyond ASCII
    else .ok (lower s == lower v)
  | .flt r =>
    -- `float(expected)` is not modelled in general; a text with a character no float literal contains is refused
    -- by `float()` (ValueError), so it is not equal to the node
    -- by `float()` (ValueError), so it is not equal to the node; an integer literal below 10^15 is
    -- converted exactly and equals the node iff the node prints as that integer followed by `.0`
    match XPath.pyInt v with
    | some i =>
      if i.natAbs < 10 ^ 15 then .ok (r == intRepr i ++ ['.', '0'] || (i == 0 && r == ['-', '0', '.', '0']))
      else .error .Unsupported
    | Option.none => if v.all floatLitChar then .error .Unsupported else .ok false
  | .int i => .ok (XPath.pyInt v == some i)
  | .bool b => .ok (XPath.pyInt v == some (if b then 1 else 0))
  | _ => .ok false

/-- `[text()=v]`: the condition only filters; the search continues in the same node with the
**same** list object and a copy of the stack that registers the node under its own xpath.  No kind
of node makes the step itself raise (before fix C19-f: AttributeError of `parent_node.lower()` for
every node that is not a string). -/
def stepText (node : Val) (rest : List Str) (eq : Bool) (v : Str) (fl : FL) (ps : PS) : Out :=
  match textEq node v with
  | .error e => ⟨.error e, fl, ps⟩
  | .ok b =>
    if b != eq then ⟨.ok Option.none, fl, ps⟩
    else
      let o := rec node rest fl (push ps fl node)
      ⟨o.res, o.fl, ps⟩

/-- integer index -/
def stepIdx (node : Val) (rest : List Str) (i : Int) (fl : FL) (ps : PS) : Out :=
  match node with
  | .list _ xs =>
    match XPath.normIdx i xs.length with
    | Option.none => ⟨raiseOr re .IndexError, fl, ps⟩
    | some n =>
      match xs[n]? with
      | Option.none => ⟨.error .Unsupported, fl, ps⟩             -- unreachable
      | some child =>
        if isContainer child then
          -- `if not len(found_xpath_list): found_xpath_list = [""]` rebinds the local name (the
          -- received empty object stays as it is), then `found_xpath_list[-1] += "[i]"` in place
          let cur : FL := if fl.isEmpty then [[]] else fl
          let fl1 := setLast cur (cur.getLast?.getD [] ++ XPath.bracket (intRepr i))
          let o := rec child rest fl1 (push ps fl1 node)
          ⟨o.res, if fl.isEmpty then fl else o.fl, ps⟩
        else ⟨raiseOr re .IndexError, fl, ps⟩
  | .dict .. =>
    -- `if child_index:` … `if not child_name:`
    if i ≠ 0 then ⟨raiseOr re .IndexError, fl, ps⟩ else ⟨raiseOr re .KeyError, fl, ps⟩
  | _ => ⟨.ok Option.none, fl, ps⟩                   -- (fix C19-d) nothing below a final element: a miss

/-- `[*]` -/
def stepStar (node : Val) (rest : List Str) (fl : FL) (ps : PS) : Out :=
  match node with
  | .list _ xs =>
    -- `if not len(found_xpath_list): found_xpath_list = [""]` rebinds the local name: from here
    -- on the received (empty) object is no longer touched
    let cur : FL := if fl.isEmpty then [[]] else fl
    let last := cur.getLast?.getD []
    let r := starLoop (fun c cur1 => rec c rest cur1 (push ps cur1 node)) re last 0 xs cur []
    ⟨r.1, if fl.isEmpty then fl else r.2, ps⟩
  | .dict .. => ⟨raiseOr re .IndexError, fl, ps⟩
  | _ => ⟨.ok Option.none, fl, ps⟩                   -- (fix C19-d)

/-- a name -/
def stepName (node : Val) (tok : Str) (rest : List Str) (fl : FL) (ps : PS) : Out :=
  match node with
  | .list .. => rec node (['[', '*', ']'] :: tok :: rest) fl ps
  | .dict _ kvs =>
    if tok.isEmpty then ⟨raiseOr re .KeyError, fl, ps⟩
    else if tok = ['*'] then
      -- the node itself against the rest (same objects), then every container child against
      -- the same expression (copies)
      let o1 := rec node rest fl ps
      match o1.res with
      | .error e => ⟨.error e, o1.fl, o1.ps⟩
      | .ok f1 =>
        let r := keysLoop (fun k c => rec c (tok :: rest) (o1.fl ++ [k]) (push o1.ps o1.fl node)) kvs (upd [] f1)
        ⟨r, o1.fl, o1.ps⟩
    else
      match lookup tok kvs with
      | some c =>
        let o := rec c rest (fl ++ [tok]) (push ps fl node)
        ⟨o.res, fl, ps⟩
      | Option.none => ⟨.ok Option.none, fl, ps⟩
  | _ => ⟨.ok Option.none, fl, ps⟩                   -- (fix C19-d) a name below a final element: a miss

/-- body of `_findall` -/
def step (node : Val) (toks : List Str) (fl : FL) (ps : PS) : Out :=
  match toks with
  | [] => ⟨.ok (some [(keyOf fl, node)]), fl, ps⟩
  | tok :: rest =>
    match classify tok with
    | .up => stepUp rec re rest fl ps
    | .fail e => ⟨.error e, fl, ps⟩
    | .text eq v => stepText rec node rest eq v fl ps
    | .idx i => stepIdx rec re node rest i fl ps
    | .star => stepStar rec re node rest fl ps
    | .name n => stepName rec re node n rest fl ps

end step

/-- `_findall(parent_node, seeked_xpath_list, found_xpath_list, parent_nodes_stack, raise_exception)`;
fuel bounds the recursion depth -/
def fa (re : Bool) : Nat → Val → List Str → FL → PS → Out
  | 0, _, _, fl, ps => ⟨.error .OutOfFuel, fl, ps⟩
  | fuel + 1, node, toks, fl, ps => step (fa re fuel) re node toks fl ps

/-! ## entry points -/

/-- contents of the two module-level default objects -/
abbrev Defaults := FL × PS

/-- the state of a freshly imported module -/
def fresh : Defaults := ([], [])

/-- `findall(current_node, seeked_xpath_str, raise_exception=True)`: `_findall` is called with the
node, the token list and (fix C19-e) `raise_exception=raise_exception`, so it works on the default
list / dict objects.  Returns the result and the contents of the defaults after the call. -/
def findallTop (fuel : Nat) (st : Defaults) (t : Val) (expr : Str) (re : Bool := true) : Out :=
  fa re fuel t (tokens expr) st.1 st.2

def Out.state (o : Out) : Defaults := (o.fl, o.ps)

/-- `findfirst(current_node, seeked_xpath_str, raise_exception)`; `none` = `(None, None)`.
`found = findall(current_node, seeked_xpath_str, False)`: since C19-e the search itself runs with
`raise_exception=False` whatever `findfirst` was given -/
def findfirstTop (fuel : Nat) (st : Defaults) (t : Val) (expr : Str) (re : Bool) :
    PyM (Option (Str × Val)) × Defaults :=
  let o := findallTop fuel st t expr false
  match o.res with
  | .error e => (.error e, o.state)
  | .ok f =>
    match f.getD [] with
    | [] => (if re then .error .IndexError else .ok Option.none, o.state)
    | kv :: more => (if !more.isEmpty && re then .error .IndexError else .ok (some kv), o.state)

/-- a sequence of searches in one process: every search starts from the contents the previous
one left in the default objects -/
def runHist (fuel : Nat) : Defaults → List (Val × Str) → List (PyM (Option Found)) × Defaults
  | st, [] => ([], st)
  | st, (t, e) :: rest =>
    let o := findallTop fuel st t e
    let r := runHist fuel o.state rest
    (o.res :: r.1, r.2)

/-- the same with the mode of every search (`findall(xpath, raise_exception)`) -/
def runHistM (fuel : Nat) : Defaults → List (Val × Str × Bool) → List (PyM (Option Found)) × Defaults
  | st, [] => ([], st)
  | st, (t, e, re) :: rest =>
    let o := findallTop fuel st t e re
    let r := runHistM fuel o.state rest
    (o.res :: r.1, r.2)

/-- keys the model treats literally: an `n0dict` resolves a key containing `/` or `[` (or starting
with `?`) as an xpath, which is outside this model -/
def keyInScope (k : Str) : Bool := !(k.contains '/' || k.contains '[' || startsWith k ['?'])

mutual
def inScope : Val → Bool
  | .list _ xs => inScopeList xs
  | .dict _ kvs => inScopeKvs kvs
  | _ => true
def inScopeList : List Val → Bool
  | [] => true
  | x :: xs => inScope x && inScopeList xs
def inScopeKvs : List (Str × Val) → Bool
  | [] => true
  | (k, x) :: kvs => keyInScope k && inScope x && inScopeKvs kvs
end

end N0.FindAll
