import N0Verif.Py.Basic
import N0Verif.Val
/-!
  The structural compare engine of py552/n0struct (C07–C10), modelled for the code
  **with the fix patches C07-a, C08-a, C09-a, C07-b, C07-c, C09-b, C10-a and C07-d, C08-b, C10-c applied**
  (the key of a list item that is not a record is `json.dumps(transformed item, sort_keys=True, default=repr)`;
  the key of a record is the same JSON text of the dictionary of its (transformed) key fields, the transform of a
  key field being looked up with `prefix[i]/field`; a type clash inside a keyed list carries `[i]<>[j]`;
  the numeric delta never raises):

  * flag machine                      `n0struct_utils_compare.py` 4-102
  * `xpath_match`                     `n0struct_utils_compare.py` 108-136
  * `generate_composite_keys`         `n0struct_utils_compare.py` 138-179
  * `n0list.direct_compare`           `n0struct_n0list_n0dict.py` 205-405
  * `n0list.compare`                  `n0struct_n0list_n0dict.py` 409-642
  * `n0dict.compare/direct_compare`   `n0struct_n0list_n0dict.py` 749-966
  * `update_extend`                   `n0struct_n0dict__.py` 244-270   (`Res.append`)

  A path prefix is kept as a list of segments; `render` produces exactly the string the
  code builds (`prefix + "/" + key`, `prefix[i]`, `prefix[i]<>[j]`), and `xpath_match`
  works on that string.  A result is a record of entry lists; `diffs` is the number of
  prose lines appended to `result["differences"]`.
-/
namespace N0.Compare
open N0

/-! ### flag machine -/

structure Flags where
  types : Bool
  delta : Bool
  equal : Bool
  records : Bool
  elements : Bool
  place : Bool
  deriving DecidableEq, Repr, Inhabited

/-- the module-level initial values -/
def Flags.init : Flags := ⟨false, false, false, false, false, true⟩

inductive Setter | types | delta | equal | records | elements | place
  deriving DecidableEq, Repr, Inhabited

/-- one `set__flag_compare_*` call -/
def Flags.set (f : Flags) : Setter → Bool → Flags
  | .types, v => { f with types := v }
  | .delta, v => { f with delta := v }
  | .place, v => { f with place := v }
  | .equal, v =>
    if v then
      if !(f.records || f.elements) then { f with equal := true, records := true }
      else { f with equal := true }
    else { f with equal := false, records := false, elements := false }
  | .records, v =>
    if v then { f with records := true, equal := true, elements := false }
    else { f with records := false, equal := f.elements }
  | .elements, v =>
    if v then { f with elements := true, equal := true, records := false }
    else { f with elements := false, equal := f.records }

/-- a history of setter calls -/
def Flags.run (f : Flags) : List (Setter × Bool) → Flags
  | [] => f
  | (s, v) :: rest => (f.set s v).run rest

/-! ### `str()` / `repr()` of values (`natStr`/`intStr` are used by the paths and the JSON text; `repr`/`str` of the
other values were the key of list items before fixes C07-b / C08-b and are no longer used by the walks) -/

def natDigitsAux : Nat → Nat → List Char → List Char
  | 0, _, acc => acc
  | f + 1, n, acc =>
    let acc := Char.ofNat (48 + n % 10) :: acc
    if n / 10 = 0 then acc else natDigitsAux f (n / 10) acc

/-- `str(n)` for a natural number (own definition: reduces in the kernel) -/
def natStr (n : Nat) : Str := natDigitsAux (n + 1) n []

def intStr : Int → Str
  | .ofNat n => natStr n
  | .negSucc n => '-' :: natStr (n + 1)

def hex2 (n : Nat) : List Char := [Proto.hexDigit (n / 16), Proto.hexDigit (n % 16)]

/-- one character inside `repr(str)`; code points ≥ 0x100 are assumed printable -/
def reprChar (q c : Char) : List Char :=
  if c = q ∨ c = '\\' then ['\\', c]
  else if c = '\t' then ['\\', 't']
  else if c = '\n' then ['\\', 'n']
  else if c = '\r' then ['\\', 'r']
  else if c.toNat < 32 ∨ c.toNat = 127 ∨ (128 ≤ c.toNat ∧ c.toNat ≤ 160) ∨ c.toNat = 173 then
    '\\' :: 'x' :: hex2 c.toNat
  else [c]

/-- `repr(s)` for a `str` -/
def reprStr (s : Str) : Str :=
  let q : Char := if s.contains '\'' && !s.contains '"' then '"' else '\''
  q :: (s.flatMap (reprChar q)) ++ [q]

mutual
/-- `repr(v)` -/
def reprVal : Val → Str
  | .none => "None".toList
  | .bool true => "True".toList
  | .bool false => "False".toList
  | .int i => intStr i
  | .flt r => r
  | .str s => reprStr s
  | .list _ xs => '[' :: reprList xs ++ [']']
  | .dict _ kvs => '{' :: reprKvs kvs ++ ['}']
def reprList : List Val → Str
  | [] => []
  | [x] => reprVal x
  | x :: y :: xs => reprVal x ++ [',', ' '] ++ reprList (y :: xs)
def reprKvs : List (Str × Val) → Str
  | [] => []
  | [(k, x)] => reprStr k ++ [':', ' '] ++ reprVal x
  | (k, x) :: y :: xs => reprStr k ++ [':', ' '] ++ reprVal x ++ [',', ' '] ++ reprKvs (y :: xs)
end

/-- `str(v)` -/
def pyStr : Val → Str
  | .str s => s
  | v => reprVal v

/-! ### `json.dumps(v, sort_keys=True, default=repr)` (the key of non-record list items) -/

def hex4 (n : Nat) : List Char :=
  [Proto.hexDigit (n / 4096 % 16), Proto.hexDigit (n / 256 % 16), Proto.hexDigit (n / 16 % 16), Proto.hexDigit (n % 16)]

/-- one character inside a JSON string literal (`ensure_ascii=True`: everything outside `' '..'~'` is escaped,
code points beyond the BMP as a surrogate pair) -/
def jsonChar (c : Char) : List Char :=
  if c = '"' then ['\\', '"']
  else if c = '\\' then ['\\', '\\']
  else if c = '\n' then ['\\', 'n']
  else if c = '\r' then ['\\', 'r']
  else if c = '\t' then ['\\', 't']
  else if c.toNat = 8 then ['\\', 'b']
  else if c.toNat = 12 then ['\\', 'f']
  else if 32 ≤ c.toNat ∧ c.toNat ≤ 126 then [c]
  else if c.toNat < 65536 then '\\' :: 'u' :: hex4 c.toNat
  else '\\' :: 'u' :: hex4 (55296 + (c.toNat - 65536) / 1024) ++ '\\' :: 'u' :: hex4 (56320 + (c.toNat - 65536) % 1024)

/-- `json.dumps(s)` for a `str` -/
def jsonStr (s : Str) : Str := '"' :: (s.flatMap jsonChar) ++ ['"']

/-- `a <= b` for `str` (code points, lexicographic) -/
def strLe : Str → Str → Bool
  | [], _ => true
  | _ :: _, [] => false
  | a :: as, b :: bs => if a.toNat < b.toNat then true else if b.toNat < a.toNat then false else strLe as bs

/-- stable insertion by key (`sorted(dct.items())`; keys of a dictionary are unique) -/
def insertMember (kv : Str × Str) : List (Str × Str) → List (Str × Str)
  | [] => [kv]
  | kv' :: rest => if strLe kv.1 kv'.1 then kv :: kv' :: rest else kv' :: insertMember kv rest

def sortMembers : List (Str × Str) → List (Str × Str)
  | [] => []
  | kv :: rest => insertMember kv (sortMembers rest)

/-- `", ".join(items)` -/
def joinItems : List Str → Str
  | [] => []
  | [x] => x
  | x :: y :: xs => x ++ [',', ' '] ++ joinItems (y :: xs)

/-- one member `"key": text` -/
def memberText (kv : Str × Str) : Str := jsonStr kv.1 ++ [':', ' '] ++ kv.2

/-- `float.__repr__` as the JSON encoder writes it: the lexeme, except for the three non-finite values -/
def jsonFloat (r : Str) : Str :=
  if r = ['i', 'n', 'f'] then ['I', 'n', 'f', 'i', 'n', 'i', 't', 'y']
  else if r = ['-', 'i', 'n', 'f'] then ['-', 'I', 'n', 'f', 'i', 'n', 'i', 't', 'y']
  else if r = ['n', 'a', 'n'] then ['N', 'a', 'N']
  else r

mutual
/-- `json.dumps(v, sort_keys=True, default=repr)`: the members of a dictionary are written in the order of
their keys; floats are their lexeme (`Infinity`, `-Infinity`, `NaN` for the non-finite ones) -/
def jsonVal : Val → Str
  | .none => ['n', 'u', 'l', 'l']
  | .bool true => ['t', 'r', 'u', 'e']
  | .bool false => ['f', 'a', 'l', 's', 'e']
  | .int i => intStr i
  | .flt r => jsonFloat r
  | .str s => jsonStr s
  | .list _ xs => '[' :: joinItems (jsonList xs) ++ [']']
  | .dict _ kvs => '{' :: joinItems ((sortMembers (jsonKvs kvs)).map memberText) ++ ['}']
def jsonList : List Val → List Str
  | [] => []
  | x :: xs => jsonVal x :: jsonList xs
def jsonKvs : List (Str × Val) → List (Str × Str)
  | [] => []
  | (k, x) :: rest => (k, jsonVal x) :: jsonKvs rest
end

/-! ### paths -/

inductive PSeg
  | key (k : Str)
  | idx (i : Nat)
  | idx2 (i j : Nat)     -- `[i]<>[j]`
  deriving DecidableEq, Repr, Inhabited

abbrev Path := List PSeg

def renderSeg : PSeg → Str
  | .key k => '/' :: k
  | .idx i => '[' :: natStr i ++ [']']
  | .idx2 i j => '[' :: natStr i ++ [']', '<', '>', '['] ++ natStr j ++ [']']

def render (p : Path) : Str := p.flatMap renderSeg

/-! ### `xpath_match` -/

/-- the inner loop over `reversed(xpath_itm_parts)` zipped with the reversed parts of the path -/
def matchParts : List Str → List Str → Bool
  | [], _ => true                                   -- loop ended without `break`: matched full
  | p :: ps, xs =>
    if p.isEmpty then true                          -- `//`: matched relative
    else match xs with
      | [] => false                                 -- too short
      | x :: xs' =>
        if p ≠ ['*'] ∧ Py.lower p ≠ Py.lower x then false
        else matchParts ps xs'

def matchOne (xpath pat : Str) : Bool :=
  matchParts (Py.splitChar '/' pat).reverse (Py.splitChar '/' xpath).reverse

/-- index (1-based) of the first matching pattern, `0` if none -/
def xpathMatchFrom (xpath : Str) : Nat → List Str → Nat
  | _, [] => 0
  | i, p :: ps => if matchOne xpath p then i + 1 else xpathMatchFrom xpath (i + 1) ps

/-- a `str` or a tuple/list of `str` given as `xpath_list` / `composite_key` -/
inductive PatArg
  | one (s : Str)
  | many (l : List Str)
  deriving DecidableEq, Repr, Inhabited

def PatArg.pats : PatArg → List Str
  | .one s => [s]
  | .many l => l

/-- Python truthiness of the raw argument -/
def PatArg.truthy : PatArg → Bool
  | .one s => !s.isEmpty
  | .many l => !l.isEmpty

def xpathMatch (xpath : Str) (a : PatArg) : Nat := xpathMatchFrom xpath 0 a.pats

/-! ### options -/

/-- one `transform` item `(pattern, function)` -/
structure Tr where
  pat : Str
  f : Val → Val

structure Cfg where
  fl : Flags
  direct : Bool          -- `one_of_list_compare` is `n0list.direct_compare` (else `n0list.compare`)
  ck : PatArg            -- composite_key
  only : PatArg          -- compare_only
  excl : PatArg          -- exclude_xpaths
  tr : List Tr           -- transform

def Cfg.default (fl : Flags) (direct : Bool) : Cfg :=
  ⟨fl, direct, .many [], .many [], .many [], []⟩

/-- `xpath_match(p, exclude_xpaths) != 0` -/
def excluded (cfg : Cfg) (p : Path) : Bool := xpathMatch (render p) cfg.excl != 0

/-- `not compare_only or xpath_match(p, compare_only)` -/
def onlyOk (cfg : Cfg) (p : Path) : Bool := !cfg.only.truthy || xpathMatch (render p) cfg.only != 0

/-- the function applied to both values at string path `s` (identity if no pattern matches) -/
def transformAtStr (cfg : Cfg) (s : Str) : Val → Val :=
  match xpathMatchFrom s 0 (cfg.tr.map (·.pat)) with
  | 0 => id
  | i + 1 => match cfg.tr[i]? with
    | some t => t.f
    | none => id

def transformAt (cfg : Cfg) (p : Path) : Val → Val := transformAtStr cfg (render p)

/-! ### results -/

inductive PairKind | lst | tup
  deriving DecidableEq, Repr, Inhabited

structure NE where
  path : Path
  l : Val
  r : Val
  kind : PairKind        -- `[l, r]` (same type) or `(l, r)` (different types)
  delta : Bool           -- a third element (numeric difference or None) was appended
  deriving DecidableEq, Repr

structure UE where
  path : Path            -- shown only when the place flag is set
  v : Val
  deriving DecidableEq, Repr

structure DT where
  path : Path
  l : Val
  r : Val
  deriving DecidableEq, Repr

structure Res where
  diffs : Nat := 0
  notEqual : List NE := []
  selfUnique : List UE := []
  otherUnique : List UE := []
  diffTypes : List DT := []
  selfEqual : List Val := []
  otherEqual : List Val := []
  deriving DecidableEq, Repr

def Res.empty : Res := {}

/-- `update_extend`: key-wise concatenation -/
def Res.append (a b : Res) : Res :=
  { diffs := a.diffs + b.diffs
    notEqual := a.notEqual ++ b.notEqual
    selfUnique := a.selfUnique ++ b.selfUnique
    otherUnique := a.otherUnique ++ b.otherUnique
    diffTypes := a.diffTypes ++ b.diffTypes
    selfEqual := a.selfEqual ++ b.selfEqual
    otherEqual := a.otherEqual ++ b.otherEqual }

instance : Append Res := ⟨Res.append⟩

/-! ### leaf decisions (non-recursive parts of the three walks) -/

/-- Python `type(v)` as far as the code distinguishes it -/
inductive Ty | none | bool | int | flt | str | list (c : Cls) | dict (c : Cls)
  deriving DecidableEq, Repr

def tyOf : Val → Ty
  | .none => .none | .bool _ => .bool | .int _ => .int | .flt _ => .flt | .str _ => .str
  | .list c _ => .list c | .dict c _ => .dict c

/-- `isinstance(v, (str, int, float))` — `bool` is an `int` -/
def isPyScalar : Val → Bool
  | .bool _ => true | .int _ => true | .flt _ => true | .str _ => true
  | _ => false

inductive Act
  | emit (r : Res) (still : Bool)
  | descend

/-- an element pair inside a list (`direct_compare` 281-391, `compare` 487-616).
`p` is the prefix of the list (transform lookup), `pne` the path of a not-equal entry,
`pdt` the path of a type-clash entry. -/
def classifyItem (cfg : Cfg) (p pne pdt : Path) (selfAll otherAll x y : Val) : Act :=
  let τ := transformAt cfg p
  let sv := τ x
  let ov := τ y
  if tyOf sv = tyOf ov then
    if isPyScalar sv then
      if sv ≠ ov then
        .emit { diffs := 1, notEqual := [⟨pne, x, y, .lst, cfg.fl.delta⟩] } false
      else if cfg.fl.equal then
        .emit { selfEqual := [selfAll], otherEqual := [otherAll] } true
      else .emit Res.empty true
    else .descend
  else if cfg.fl.types then
    .emit { diffs := 1, diffTypes := [⟨pdt, x, y⟩] } false
  else
    .emit { diffs := 1, notEqual := [⟨pne, x, y, .tup, false⟩] } false

/-- a key present in both dictionaries (`n0dict.compare` 800-899); `full = prefix/key` -/
def classifyEntry (cfg : Cfg) (full : Path) (x y : Val) : Act :=
  if excluded cfg full then .emit Res.empty true
  else
    let τ := transformAt cfg full
    let sv := τ x
    let ov := τ y
    if tyOf sv = tyOf ov then
      if isPyScalar sv then
        if sv ≠ ov ∧ onlyOk cfg full then
          .emit { diffs := 1, notEqual := [⟨full, x, y, .lst, cfg.fl.delta⟩] } false
        else .emit Res.empty true
      else .descend
    else if onlyOk cfg full then
      if cfg.fl.types then .emit { diffs := 1, diffTypes := [⟨full, x, y⟩] } false
      else .emit { diffs := 1, notEqual := [⟨full, x, y, .tup, false⟩] } false
    else .emit Res.empty true

/-- one leftover key (`n0dict.compare` 903-929): `some entry` when it is reported -/
def leftover (cfg : Cfg) (p : Path) (kv : Str × Val) : Option UE :=
  let full := p ++ [.key kv.1]
  if !excluded cfg full && onlyOk cfg full then some ⟨full, kv.2⟩ else none

def hasKey (k : Str) (kvs : List (Str × Val)) : Bool := (Val.lookup k kvs).isSome

/-- everything after the loop over the common keys of `n0dict.compare` -/
def dictTail (cfg : Cfg) (p : Path) (selfAll otherAll : Val)
    (skvs okvs : List (Str × Val)) (still : Bool) : Res :=
  let su := (skvs.filter (fun kv => !hasKey kv.1 okvs)).filterMap (leftover cfg p)
  let ou := (okvs.filter (fun kv => !hasKey kv.1 skvs)).filterMap (leftover cfg p)
  let still := still && su.isEmpty && ou.isEmpty
  { diffs := su.length + ou.length
    selfUnique := su
    otherUnique := ou
    selfEqual := if still && cfg.fl.equal then [selfAll] else []
    otherEqual := if still && cfg.fl.equal then [otherAll] else [] }

/-- tail of a longer `other` in `n0list.direct_compare` (394-404) -/
def otherTail (p : Path) : Nat → List Val → List UE
  | _, [] => []
  | i, y :: ys => ⟨p ++ [.idx i], y⟩ :: otherTail p (i + 1) ys

/-! ### `generate_composite_keys` -/

/-- `key_fields[key] = value`: assignment into a Python `dict` (a key that is already there keeps its place) -/
def setField (k : Str) (v : Val) : List (Str × Val) → List (Str × Val)
  | [] => [(k, v)]
  | (k', v') :: rest => if k = k' then (k, v) :: rest else (k', v') :: setField k v rest

/-- the key fields of a record: the requested fields that are present, each transformed by the function registered
for the path of that field inside the item (`q` = the path of the item, `prefix[i]`: the path `n0dict.compare`
looks the transform up with, fix C10-c) -/
def recordFields (cfg : Cfg) (q : Path) (kvs : List (Str × Val)) : List Str → List (Str × Val) → List (Str × Val)
  | [], acc => acc
  | key :: rest, acc =>
    match Val.lookup key kvs with
    | none => recordFields cfg q kvs rest acc
    | some v => recordFields cfg q kvs rest (setField key (transformAt cfg (q ++ [.key key]) v) acc)

/-- the key text of a record with key fields `fs`: the JSON text of the dictionary of the key fields (fix C08-b),
the empty key when the record has none of them -/
def fieldsKey : List (Str × Val) → Str
  | [] => []
  | f :: fs => jsonVal (.dict .plain (f :: fs))

/-- the key of item `i` of the list at `p`: a record is keyed by the JSON text of its composite-key fields; any other
item by the JSON text of the item transformed with the function registered for the path of the list.
(`json.dumps(…, default=repr)` does not raise on the values of the model; the `Except` is kept for the callers.) -/
def keyOf (cfg : Cfg) (p : Path) (i : Nat) : Val → Except PyErr Str
  | .dict _ kvs => .ok (fieldsKey (recordFields cfg (p ++ [.idx i]) kvs cfg.ck.pats []))
  | v => .ok (jsonVal (transformAt cfg p v))

/-- the keys of the items `i, i+1, …` of the list at `p` -/
def keysOf (cfg : Cfg) (p : Path) : Nat → List Val → Except PyErr (List Str)
  | _, [] => .ok []
  | i, x :: xs =>
    match keyOf cfg p i x with
    | .error e => .error e
    | .ok k => match keysOf cfg p (i + 1) xs with
      | .error e => .error e
      | .ok ks => .ok (k :: ks)

/-- `(composite_key, index)` together with the element itself -/
abbrev KE := Str × Nat × Val

def mkEntries : Nat → List Str → List Val → List KE
  | i, k :: ks, x :: xs => (k, i, x) :: mkEntries (i + 1) ks xs
  | _, _, _ => []

/-- `lst[[itm[0] for itm in lst].index(k)]` -/
def findKey (k : Str) : List KE → Option (Nat × Val)
  | [] => none
  | (k', i, v) :: rest => if k = k' then some (i, v) else findKey k rest

/-- `del lst[[itm[0] for itm in lst].index(k)]` -/
def eraseKey (k : Str) : List KE → List KE
  | [] => []
  | (k', i, v) :: rest => if k = k' then rest else (k', i, v) :: eraseKey k rest

/-- the two leftover loops of `n0list.compare` (622-640) -/
def keyedTail (p : Path) (sr orr : List KE) : Res :=
  { diffs := sr.length + orr.length
    selfUnique := sr.map (fun e => ⟨p ++ [.idx e.2.1], e.2.2⟩)
    otherUnique := orr.map (fun e => ⟨p ++ [.idx e.2.1], e.2.2⟩) }

/-! ### the four walks -/

/-- where a pair of containers is entered from -/
inductive Site | entry | item
  deriving DecidableEq, Repr

mutual
/-- a pair whose (transformed) types agree and are not scalar: the `elif` chain on the
original left value -/
def sub (cfg : Cfg) (site : Site) (p : Path) (v w : Val) : Except PyErr Res :=
  match v, w with
  | .list c xs, w =>
    match w with
    | .list c' ys =>
      if site = .item ∧ cfg.direct = true ∧ c = .plain then .error .AttributeError   -- `self[i].direct_compare`
      else if site = .item ∧ cfg.direct = true ∧ c' = .plain then .error .TypeError  -- other must be n0list
      else if excluded cfg p then .ok Res.empty
      else if cfg.direct then directWalk cfg p (.list .n0 xs) (.list .n0 ys) 0 xs ys
      else
        match keysOf cfg p 0 xs with
        | .error e => .error e
        | .ok ks =>
          match keysOf cfg p 0 ys with
          | .error e => .error e
          | .ok ko =>
            keyedWalk cfg p (.list .n0 xs) (.list .n0 ys) 0 xs ks (mkEntries 0 ks xs) (mkEntries 0 ko ys)
    | _ => .error .Unsupported
  | .dict _ kvs, w =>
    match w with
    | .dict c' kvs' =>
      if site = .item ∧ cfg.direct = false ∧ c' = .plain then .error .TypeError      -- other must be n0dict
      else dictWalk cfg p (.dict .n0 kvs) (.dict .n0 kvs') kvs kvs' true kvs
    | _ => .error .Unsupported
  | .none, _ => .ok Res.empty
  | _, _ => .error .TypeError
termination_by structural v

/-- `n0dict.compare`: the loop over the keys of `self` -/
def dictWalk (cfg : Cfg) (p : Path) (selfAll otherAll : Val) (skvs okvs : List (Str × Val))
    (still : Bool) (kvs : List (Str × Val)) : Except PyErr Res :=
  match kvs with
  | [] => .ok (dictTail cfg p selfAll otherAll skvs okvs still)
  | (k, v) :: rest =>
    match Val.lookup k okvs with
    | none => dictWalk cfg p selfAll otherAll skvs okvs still rest
    | some w =>
      match classifyEntry cfg (p ++ [.key k]) v w with
      | .emit r s =>
        match dictWalk cfg p selfAll otherAll skvs okvs (still && s) rest with
        | .error e => .error e
        | .ok r' => .ok (r ++ r')
      | .descend =>
        match sub cfg .entry (p ++ [.key k]) v w with
        | .error e => .error e
        | .ok r =>
          match dictWalk cfg p selfAll otherAll skvs okvs still rest with
          | .error e => .error e
          | .ok r' => .ok (r ++ r')
termination_by structural kvs

/-- `n0list.direct_compare`: positional walk -/
def directWalk (cfg : Cfg) (p : Path) (selfAll otherAll : Val) (i : Nat)
    (xs ys : List Val) : Except PyErr Res :=
  match xs, ys with
  | [], ys =>
    let ou := otherTail p i ys
    .ok { diffs := ou.length, otherUnique := ou }
  | x :: xs, [] =>
    match directWalk cfg p selfAll otherAll (i + 1) xs [] with
    | .error e => .error e
    | .ok r' => .ok ({ diffs := 1, selfUnique := [⟨p ++ [.idx i], x⟩] } ++ r')
  | x :: xs, y :: ys =>
    match classifyItem cfg p (p ++ [.idx i]) (p ++ [.idx i]) selfAll otherAll x y with
    | .emit r _ =>
      match directWalk cfg p selfAll otherAll (i + 1) xs ys with
      | .error e => .error e
      | .ok r' => .ok (r ++ r')
    | .descend =>
      match sub cfg .item (p ++ [.idx i]) x y with
      | .error e => .error e
      | .ok r =>
        match directWalk cfg p selfAll otherAll (i + 1) xs ys with
        | .error e => .error e
        | .ok r' => .ok (r ++ r')
termination_by structural xs

/-- `n0list.compare`: for each element of `self` in order, the first remaining element of
`other` with the same key; both are then deleted from the remaining lists -/
def keyedWalk (cfg : Cfg) (p : Path) (selfAll otherAll : Val) (i : Nat)
    (xs : List Val) (ks : List Str) (sr orr : List KE) : Except PyErr Res :=
  match xs, ks, sr, orr with
  | [], _, sr, orr => .ok (keyedTail p sr orr)
  | _ :: _, [], _, _ => .error .OutOfFuel            -- unreachable: one key per element
  | x :: xs, k :: ks, sr, orr =>
    match findKey k orr with
    | none => keyedWalk cfg p selfAll otherAll (i + 1) xs ks sr orr
    | some (j, y) =>
      let seg : PSeg := if i = j then .idx i else .idx2 i j
      match classifyItem cfg p (p ++ [seg]) (p ++ [seg]) selfAll otherAll x y with
      | .emit r _ =>
        match keyedWalk cfg p selfAll otherAll (i + 1) xs ks (eraseKey k sr) (eraseKey k orr) with
        | .error e => .error e
        | .ok r' => .ok (r ++ r')
      | .descend =>
        match sub cfg .item (p ++ [seg]) x y with
        | .error e => .error e
        | .ok r =>
          match keyedWalk cfg p selfAll otherAll (i + 1) xs ks (eraseKey k sr) (eraseKey k orr) with
          | .error e => .error e
          | .ok r' => .ok (r ++ r')
termination_by structural xs
end

/-! ### entry points -/

/-- `a.compare(b, …)` / `a.direct_compare(b, …)` for a root `n0dict` or `n0list` `a`
(`cfg.direct` selects the entry point). -/
def compareTop (cfg : Cfg) (a b : Val) : Except PyErr Res :=
  match a with
  | .dict .n0 kvs =>
    match b with
    | .dict .n0 kvs' => dictWalk cfg [] a b kvs kvs' true kvs
    | _ => .error .TypeError                       -- other must be n0dict
  | .list .n0 xs =>
    match b with
    | .list .n0 _ => sub cfg .entry [] (.list .n0 xs) b
    | _ => .error .TypeError                       -- other must be n0list
  | _ => .error .Unsupported                        -- the methods exist on n0dict/n0list only

/-- the verdict: `not result["differences"]` -/
def verdict (r : Except PyErr Res) : Option Bool :=
  match r with
  | .ok r => some (r.diffs == 0)
  | .error _ => none

end N0.Compare
